(* C03 with caller-side cancellation: the command-level model is the reference machine; consequences *)
From Coq Require Import List Bool Arith NArith Lia.
From TxVerif Require Import Spec.C03Cancel Model.CtlCancel.
Import ListNotations.
Open Scope N_scope.

Lemma seqN_snoc lo len : seqN lo (S len) = seqN lo len ++ [lo + N.of_nat len].
Proof.
  revert lo. induction len as [|len IH]; intros lo.
  - cbn [seqN app]. f_equal. lia.
  - change (seqN lo (S (S len))) with (lo :: seqN (lo + 1) (S len)). rewrite IH.
    cbn [seqN app]. do 2 f_equal. f_equal. lia.
Qed.

(* simulation relation *)
Record Rel (m : mq) (r : rstate) : Prop := {
  R_next : m_next m = r_n r;
  R_lost : m_lost m = r_lost r;
  R_called : forall k, memN k (m_called m) = memN k (r_res r);
  R_le : r_a r <= r_w r /\ r_w r <= r_n r /\ r_w r <= r_a r + 1;
  R_live : r_lost r = false ->
           m_cur m = (if r_a r <? r_w r then Some (r_a r) else None) /\
           (exists len, m_q m = seqN (r_w r) len /\ r_w r + N.of_nat len = r_n r) /\
           (r_w r = r_a r -> r_w r = r_n r);
  R_dead : r_lost r = true -> m_cur m = None /\ m_q m = [];
  R_obs : m_obs m = r_watch r;
  R_nobs : m_nobs m = r_nw r
}.

Lemma rel_init : Rel mq_init r_init.
Proof.
  constructor; cbn; try reflexivity; try lia.
  all: try (intros H; discriminate H).
  all: try (intros _; split; [reflexivity|]; split; [exists 0%nat; split; [reflexivity|lia]|reflexivity]).
Qed.

Lemma memN_cons k x l : memN k (x :: l) = (x =? k) || memN k l.
Proof. reflexivity. Qed.

Lemma memN_app k a b : memN k (a ++ b) = memN k a || memN k b.
Proof. induction a as [|x a IH]; cbn [app memN]; [reflexivity|]. now rewrite IH, orb_assoc. Qed.

Lemma filter_ext_called (f g : list N) l :
  (forall k, memN k f = memN k g) ->
  filter (fun k => negb (memN k f)) l = filter (fun k => negb (memN k g)) l.
Proof. intros H. apply filter_ext. intros k. now rewrite H. Qed.

Ltac rel_fields := constructor;
  cbn [m_next m_lost m_called m_cur m_q m_obs m_nobs r_n r_lost r_res r_w r_a r_watch r_nw].
Ltac absurd_flag := let H := fresh in intros H; discriminate H.

(* ---- the loss: telling the observers one after the other ---- *)
(* state of the two folds while the observers are told: [a], [w] are the reference's counters (fixed) *)
Record FRel (a w : N) (s : mq) (ev1 : list qev) (acc : list qev * N * list N * N) : Prop := {
  F_ev : ev1 = fst (fst (fst acc));
  F_next : m_next s = snd (fst (fst acc));
  F_called : forall k, memN k (m_called s) = memN k (snd (fst acc));
  F_nobs : m_nobs s = snd acc;
  F_lost : m_lost s = true;
  F_cur : m_cur s = (if a <? w then Some a else None);
  F_q : if a <? w then exists len, m_q s = seqN w len /\ w + N.of_nat len = snd (fst (fst acc))
        else m_q s = [] /\ (forall k, a <= k < snd (fst (fst acc)) -> memN k (snd (fst acc)) = true);
  F_le : w <= snd (fst (fst acc))
}.

Ltac ff := constructor; cbn [fst snd m_next m_called m_nobs m_lost m_cur m_q m_obs].

Lemma tell_step a w s ev1 acc wb : FRel a w s ev1 acc ->
  FRel a w (fst (run_cb (s, ev1) wb)) (snd (run_cb (s, ev1) wb)) (tell (a <? w) acc wb).
Proof.
  destruct acc as [[[ev n] res] nw]. intros [Fev Fn Fc Fnw Fl Fcur Fq Fle]. cbn [fst snd] in *. subst ev1.
  destruct wb as [wid b]. unfold run_cb, tell. cbn [fst snd].
  destruct b.
  - (* plain *) ff.
    + reflexivity.
    + exact Fn.
    + exact Fc.
    + exact Fnw.
    + exact Fl.
    + exact Fcur.
    + exact Fq.
    + exact Fle.
  - (* nested *) ff.
    + now rewrite Fnw.
    + exact Fn.
    + exact Fc.
    + now rewrite Fnw.
    + exact Fl.
    + exact Fcur.
    + exact Fq.
    + exact Fle.
  - (* submit *)
    unfold submit, maybe_issue. cbn [m_cur m_q m_lost m_called m_next m_obs m_nobs]. rewrite Fcur, Fl.
    destruct (a <? w) eqn:Ein.
    + (* something is in flight: the command is queued *)
      destruct Fq as (len & Hq & Hlen). cbn [fst snd]. rewrite app_nil_r. ff.
      * reflexivity.
      * lia.
      * exact Fc.
      * exact Fnw.
      * first [exact Fl | reflexivity].
      * rewrite Ein. reflexivity.
      * rewrite Ein. exists (S len). rewrite seqN_snoc, Hq, Fn. split; [do 2 f_equal; lia|lia].
      * lia.
    + (* nothing in flight: failed at once from the stored disconnect failure *)
      destruct Fq as [Hq Hall]. rewrite Hq. cbn [app fst snd]. rewrite Fn. ff.
      * reflexivity.
      * lia.
      * intros k. cbn [memN]. now rewrite Fc.
      * exact Fnw.
      * reflexivity.
      * rewrite Ein. reflexivity.
      * rewrite Ein. split; [reflexivity|]. intros k Hk. cbn [memN].
        destruct (N.eqb_spec n k) as [|Hne]; [reflexivity|]. cbn [orb]. apply Hall. lia.
      * lia.
Qed.

Lemma tell_fold a w obs : forall s ev1 acc, FRel a w s ev1 acc ->
  FRel a w (fst (fold_left run_cb obs (s, ev1))) (snd (fold_left run_cb obs (s, ev1)))
       (fold_left (tell (a <? w)) obs acc).
Proof.
  induction obs as [|wb obs IH]; intros s ev1 acc H; cbn [fold_left]; [exact H|].
  pose proof (tell_step a w s ev1 acc wb H) as H1.
  destruct (run_cb (s, ev1) wb) as [s2 ev2]. cbn [fst snd] in H1. exact (IH s2 ev2 _ H1).
Qed.

Lemma filter_none (res : list N) lo len :
  (forall k, lo <= k < lo + N.of_nat len -> memN k res = true) ->
  filter (fun k => negb (memN k res)) (seqN lo len) = [].
Proof.
  revert lo. induction len as [|len IH]; intros lo H; cbn [seqN filter]; [reflexivity|].
  rewrite (H lo) by lia. cbn [negb]. apply IH. intros k Hk. apply H. lia.
Qed.

Lemma reply_sim m r : Rel m r -> r_lost r = false -> (r_a r <? r_w r) = true ->
  snd (m_reply m (r_a r)) = snd (r_reply r) /\ Rel (fst (m_reply m (r_a r))) (fst (r_reply r)).
Proof.
  intros [Hn Hl Hc (Hle1 & Hle2 & Hle3) Hlive Hdead Hobs Hnobs] El Hlt.
  destruct (Hlive El) as (Hcur & (len & Hq & Hlen) & Hidle). apply N.ltb_lt in Hlt.
    assert (Hw : r_w r = r_a r + 1) by lia.
    unfold m_reply, r_reply, maybe_issue. cbn [m_cur m_q m_lost m_called m_next m_obs m_nobs]. rewrite Hq, Hc.
    destruct len as [|len].
    + assert (Hmore : (r_w r <? r_n r) = false) by (apply N.ltb_ge; lia). rewrite Hmore.
      cbn [seqN fst snd]. split; [reflexivity|]. rel_fields.
      * first [exact Hn | reflexivity].
      * reflexivity.
      * intros j. cbn [memN]. now rewrite Hc.
      * lia.
      * intros _. assert (Hx : (r_a r + 1 <? r_w r) = false) by (apply N.ltb_ge; lia). rewrite Hx.
        split; [reflexivity|]. split; [exists 0%nat; split; [reflexivity|lia]|lia].
      * absurd_flag.
      * exact Hobs.
      * exact Hnobs.
    + assert (Hmore : (r_w r <? r_n r) = true) by (apply N.ltb_lt; lia). rewrite Hmore.
      cbn [seqN fst snd]. split; [reflexivity|]. rel_fields.
      * first [exact Hn | reflexivity].
      * reflexivity.
      * intros j. cbn [memN]. now rewrite Hc.
      * lia.
      * intros _. assert (Hx : (r_a r + 1 <? r_w r + 1) = true) by (apply N.ltb_lt; lia). rewrite Hx.
        split; [f_equal; lia|]. split; [exists len; split; [reflexivity|lia]|lia].
      * absurd_flag.
      * exact Hobs.
      * exact Hnobs.
Qed.

Lemma lose_sim m r : Rel m r -> r_lost r = false ->
  snd (m_lose m) = snd (r_lose r) /\ Rel (fst (m_lose m)) (fst (r_lose r)).
Proof.
  intros [Hn Hl Hc (Hle1 & Hle2 & Hle3) Hlive Hdead Hobs Hnobs] El.
  destruct (Hlive El) as (Hcur & (len & Hq & Hlen) & Hidle). unfold m_lose, r_lose.
    set (s0 := {| m_cur := m_cur m; m_q := m_q m; m_called := m_called m; m_lost := true;
                  m_next := m_next m; m_obs := []; m_nobs := m_nobs m |}).
    assert (HF0 : FRel (r_a r) (r_w r) s0 [] ([], r_n r, r_res r, r_nw r)).
    { constructor; cbn [fst snd s0 m_next m_called m_nobs m_lost m_cur m_q]; auto.
      destruct (N.ltb_spec (r_a r) (r_w r)) as [Hlt|Hge].
      - exists len. split; [exact Hq|exact Hlen].
      - assert (Hwa : r_w r = r_a r) by lia. specialize (Hidle Hwa).
        assert (len = 0%nat) by lia. subst len. split; [exact Hq|]. intros j Hj. lia. }
    pose proof (tell_fold (r_a r) (r_w r) (m_obs m) s0 [] _ HF0) as HF. rewrite Hobs in HF |- *.
    destruct (fold_left run_cb (r_watch r) (s0, [])) as [s1 ev1].
    destruct (fold_left (tell (r_a r <? r_w r)) (r_watch r) ([], r_n r, r_res r, r_nw r)) as [[[ev2 n2] res2] nw2].
    destruct HF as [Fev Fn Fc Fnw Fl Fcur Fq Fle]. cbn [fst snd] in *. subst ev2.
    assert (Hout : filter (fun k => negb (memN k (m_called s1)))
                     ((match m_cur s1 with Some c => [c] | None => [] end) ++ m_q s1)
                   = unresolved res2 (r_a r) (N.to_nat (n2 - r_a r))).
    { unfold unresolved. rewrite Fcur. destruct (N.ltb_spec (r_a r) (r_w r)) as [Hlt|Hge].
      - destruct Fq as (len2 & Hq2 & Hlen2). rewrite Hq2.
        replace (N.to_nat (n2 - r_a r)) with (S len2) by lia. cbn [seqN app].
        replace (r_a r + 1) with (r_w r) by lia. now apply filter_ext_called.
      - destruct Fq as [Hq2 Hall]. rewrite Hq2. cbn [app filter]. symmetry. apply filter_none.
        intros j Hj. apply Hall. lia. }
    rewrite Hout. cbn [fst snd]. split; [reflexivity|]. rel_fields.
    + exact Fn.
    + reflexivity.
    + intros j. rewrite !memN_app, Fc. reflexivity.
    + lia.
    + absurd_flag.
    + intros _. split; reflexivity.
    + reflexivity.
    + exact Fnw.
Qed.


Lemma step_sim m r o : Rel m r ->
  match m_step m o, r_step r o with
  | Some (m', e1), Some (r', e2) => e1 = e2 /\ Rel m' r'
  | None, None => True
  | _, _ => False
  end.
Proof.
  intros HR. pose proof HR as [Hn Hl Hc (Hle1 & Hle2 & Hle3) Hlive Hdead Hobs Hnobs].
  destruct o as [|k| |b| |]; cbn [m_step r_step].
  - (* submit *)
    unfold submit.
    destruct (r_lost r) eqn:El.
    + destruct (Hdead eq_refl) as [Hcur Hq]. unfold maybe_issue. cbn [m_cur m_q m_lost m_called m_next m_obs m_nobs].
      rewrite Hcur, Hq, Hl. cbn [app]. rewrite Hn. split; [reflexivity|]. rel_fields.
      * lia.
      * reflexivity.
      * intros j. cbn [memN]. now rewrite Hc.
      * lia.
      * absurd_flag.
      * intros _. split; reflexivity.
      * exact Hobs.
      * exact Hnobs.
    + destruct (Hlive eq_refl) as (Hcur & (len & Hq & Hlen) & Hidle).
      unfold maybe_issue. cbn [m_cur m_q m_lost m_called m_next m_obs m_nobs]. rewrite Hcur, Hl.
      destruct (N.eqb_spec (r_w r) (r_a r)) as [E|E].
      * assert (Hlt : (r_a r <? r_w r) = false) by (apply N.ltb_ge; lia). rewrite Hlt.
        assert (len = 0%nat) by (specialize (Hidle E); lia). subst len.
        rewrite Hq. cbn [seqN app]. rewrite Hn. split; [f_equal; f_equal; lia|]. rel_fields.
        -- lia.
        -- reflexivity.
        -- exact Hc.
        -- lia.
        -- intros _. assert (Hlt2 : (r_a r <? r_w r + 1) = true) by (apply N.ltb_lt; lia). rewrite Hlt2.
           split; [f_equal; lia|]. split; [exists 0%nat; split; [reflexivity|lia]|lia].
        -- absurd_flag.
        -- exact Hobs.
        -- exact Hnobs.
      * assert (Hlt : (r_a r <? r_w r) = true) by (apply N.ltb_lt; lia). rewrite Hlt.
        split; [reflexivity|]. rel_fields.
        -- lia.
        -- reflexivity.
        -- exact Hc.
        -- lia.
        -- intros _. rewrite Hlt. split; [reflexivity|]. split; [|lia].
           exists (S len). rewrite seqN_snoc, Hq. split; [do 2 f_equal; lia|lia].
        -- absurd_flag.
        -- exact Hobs.
        -- exact Hnobs.
  - (* cancel *)
    rewrite Hn, Hc.
    destruct ((k <? r_n r) && negb (memN k (r_res r))).
    + split; [reflexivity|]. rel_fields.
      * first [exact Hn | reflexivity].
      * first [exact Hl | reflexivity].
      * intros j. cbn [memN]. now rewrite Hc.
      * lia.
      * exact Hlive.
      * exact Hdead.
      * exact Hobs.
      * exact Hnobs.
    + split; [reflexivity|]. constructor; try assumption. lia.
  - (* reply *)
    rewrite Hl. destruct (r_lost r) eqn:El; [exact I|]. cbn [orb].
    destruct (Hlive eq_refl) as (Hcur & _). rewrite Hcur.
    destruct (r_a r <? r_w r) eqn:Hlt; cbn [negb]; [|exact I].
    destruct (reply_sim m r HR El Hlt) as [He HR'].
    destruct (m_reply m (r_a r)) as [m' e1], (r_reply r) as [r' e2]. cbn [fst snd] in *. split; assumption.
  - (* a notification request *)
    rewrite Hl. destruct (r_lost r) eqn:El.
    + (* after the loss: told at once; nothing is in flight *)
      destruct (Hdead eq_refl) as [Hcur Hq]. rewrite Hnobs, Hcur, Hq. unfold run_cb, tell. cbn [fst snd].
      destruct b.
      * split; [reflexivity|]. rel_fields.
        -- exact Hn.
        -- reflexivity.
        -- exact Hc.
        -- lia.
        -- absurd_flag.
        -- intros _. split; reflexivity.
        -- reflexivity.
        -- reflexivity.
      * cbn [app m_nobs]. split; [reflexivity|]. rel_fields.
        -- exact Hn.
        -- reflexivity.
        -- exact Hc.
        -- lia.
        -- absurd_flag.
        -- intros _. split; reflexivity.
        -- reflexivity.
        -- reflexivity.
      * unfold submit, maybe_issue. cbn [m_cur m_q m_lost m_called m_next m_obs m_nobs app].
        rewrite Hn. split; [reflexivity|]. rel_fields.
        -- lia.
        -- reflexivity.
        -- intros j. cbn [memN]. now rewrite Hc.
        -- lia.
        -- absurd_flag.
        -- intros _. split; reflexivity.
        -- reflexivity.
        -- reflexivity.
    + split; [reflexivity|]. rel_fields.
      * exact Hn.
      * reflexivity.
      * exact Hc.
      * lia.
      * intros _. exact (Hlive eq_refl).
      * absurd_flag.
      * now rewrite Hobs, Hnobs.
      * now rewrite Hnobs.
  - (* loss *)
    rewrite Hl. destruct (r_lost r) eqn:El; [exact I|].
    destruct (lose_sim m r HR El) as [He HR'].
    destruct (m_lose m) as [m' e1], (r_lose r) as [r' e2]. cbn [fst snd] in *. split; assumption.
  - (* a reply whose callback hangs up *)
    rewrite Hl. destruct (r_lost r) eqn:El; [exact I|]. cbn [orb].
    destruct (Hlive eq_refl) as (Hcur & Hrest). rewrite Hcur.
    destruct (r_a r <? r_w r) eqn:Hlt; cbn [negb]; [|exact I].
    rewrite Hc. destruct (memN (r_a r) (r_res r)) eqn:Hmem.
    + (* the caller had given up on it: a plain reply *)
      destruct (reply_sim m r HR El Hlt) as [He HR'].
      destruct (m_reply m (r_a r)) as [m' e1], (r_reply r) as [r' e2]. cbn [fst snd] in *. split; assumption.
    + (* the loss, from the state in which the command is resolved and still in flight *)
      set (mc := {| m_cur := Some (r_a r); m_q := m_q m; m_called := r_a r :: m_called m; m_lost := false;
                    m_next := m_next m; m_obs := m_obs m; m_nobs := m_nobs m |}).
      set (rc := {| r_n := r_n r; r_w := r_w r; r_a := r_a r; r_res := r_a r :: r_res r; r_lost := false;
                    r_watch := r_watch r; r_nw := r_nw r |}).
      assert (HRc : Rel mc rc).
      { unfold mc, rc. rel_fields.
        - exact Hn.
        - reflexivity.
        - intros j. cbn [memN]. now rewrite Hc.
        - lia.
        - intros _. rewrite Hlt. split; [reflexivity|exact Hrest].
        - absurd_flag.
        - exact Hobs.
        - exact Hnobs. }
      destruct (lose_sim mc rc HRc eq_refl) as [He HR'].
      destruct (m_lose mc) as [m' e1], (r_lose rc) as [r' e2]. cbn [fst snd] in *. split; [now rewrite He|exact HR'].
Qed.

Lemma run_sim ops : forall m r, Rel m r -> m_run m ops = r_run r ops.
Proof.
  induction ops as [|o ops IH]; intros m r HR; [reflexivity|].
  cbn [m_run r_run]. pose proof (step_sim m r o HR) as H.
  destruct (m_step m o) as [[m' e1]|], (r_step r o) as [[r' e2]|]; try contradiction; [|reflexivity].
  destruct H as [-> HR']. now rewrite (IH m' r' HR').
Qed.

Theorem model_is_reference_cancel ops : q_run ops = q_ref ops.
Proof. apply run_sim. exact rel_init. Qed.

(* ---- what the reference machine guarantees (the property, at command level) ---- *)
Definition ev_res (e : qev) : list N := match e with QRes k _ => [k] | _ => [] end.
Definition ev_note (e : qev) : list N := match e with QNote w => [w] | _ => [] end.
Definition res_ids (tr : list (list qev)) : list N := flat_map ev_res (concat tr).
Definition note_ids (tr : list (list qev)) : list N := flat_map ev_note (concat tr).
Definition is_wrote (e : qev) : bool := match e with QWrote _ => true | _ => false end.
Definition quiet (es : list qev) : bool := forallb (fun e => negb (is_wrote e)) es.

Fixpoint r_exec (s : rstate) (ops : list qop) : option (rstate * list (list qev)) :=
  match ops with
  | [] => Some (s, [])
  | o :: ops' =>
      match r_step s o with
      | None => None
      | Some (s', es) =>
          match r_exec s' ops' with
          | None => None
          | Some (s'', tr) => Some (s'', es :: tr)
          end
      end
  end.

Lemma r_exec_run s ops : r_run s ops = option_map snd (r_exec s ops).
Proof.
  revert s. induction ops as [|o ops IH]; intros s; [reflexivity|].
  cbn [r_run r_exec]. destruct (r_step s o) as [[s' es]|]; [|reflexivity].
  rewrite IH. destruct (r_exec s' ops) as [[s'' tr]|]; reflexivity.
Qed.

Lemma memN_In k l : memN k l = true <-> In k l.
Proof.
  induction l as [|x l IH]; cbn [memN In]; [split; [discriminate|tauto]|].
  rewrite orb_true_iff, IH, N.eqb_eq. tauto.
Qed.

Lemma seqN_In k lo len : In k (seqN lo len) <-> lo <= k < lo + N.of_nat len.
Proof.
  revert lo. induction len as [|len IH]; intros lo; cbn [seqN In].
  - split; [tauto|lia].
  - rewrite IH. lia.
Qed.

Lemma seqN_NoDup lo len : NoDup (seqN lo len).
Proof.
  revert lo. induction len as [|len IH]; intros lo; cbn [seqN]; constructor; [|apply IH].
  rewrite seqN_In. lia.
Qed.

Lemma res_of_disc l : flat_map ev_res (map (fun k => QRes k QDisc) l) = l.
Proof. induction l as [|x l IH]; cbn; [reflexivity|now rewrite IH]. Qed.
Lemma note_of_disc l : flat_map ev_note (map (fun k => QRes k QDisc) l) = [].
Proof. induction l as [|x l IH]; cbn; [reflexivity|exact IH]. Qed.
Lemma quiet_disc l : quiet (map (fun k => QRes k QDisc) l) = true.
Proof. induction l as [|x l IH]; [reflexivity|exact IH]. Qed.

Lemma NoDup_app_disj {A} (a b : list A) :
  NoDup a -> NoDup b -> (forall x, In x a -> ~ In x b) -> NoDup (a ++ b).
Proof.
  induction a as [|x a IH]; intros Ha Hb Hd; cbn [app]; [exact Hb|].
  inversion Ha as [|? ? Hx Ha']; subst. constructor.
  - rewrite in_app_iff. intros [H|H]; [exact (Hx H)|exact (Hd x (or_introl eq_refl) H)].
  - apply IH; [exact Ha'|exact Hb|]. intros y Hy. apply Hd. now right.
Qed.

(* ---- telling the observers: what the fold adds ---- *)
Record TellFacts (infl : bool) (ws : list (N * wbeh)) (n : N) (res : list N) (nw : N)
                 (d : list qev) (n' : N) (res' : list N) (nw' : N) : Prop := {
  T_n : n <= n';
  T_nw : nw <= nw';
  T_res_nodup : NoDup (flat_map ev_res d);
  T_res_range : forall k, In k (flat_map ev_res d) -> n <= k < n';
  T_res_iff : forall k, memN k res' = true <-> memN k res = true \/ In k (flat_map ev_res d);
  T_note_nodup : NoDup (flat_map ev_note d);
  T_note_iff : forall w, In w (flat_map ev_note d) <-> In w (map fst ws) \/ nw <= w < nw';
  T_quiet : quiet d = true;
  T_all : infl = false -> forall k, n <= k < n' -> In k (flat_map ev_res d)
}.

Lemma tell_fold_facts infl ws : forall ev n res nw,
  (forall w, In w (map fst ws) -> w < nw) -> NoDup (map fst ws) ->
  exists d n' res' nw',
    fold_left (tell infl) ws (ev, n, res, nw) = (ev ++ d, n', res', nw') /\
    TellFacts infl ws n res nw d n' res' nw'.
Proof.
  induction ws as [|[wid b] ws IH]; intros ev n res nw Hlt Hnd.
  - exists [], n, res, nw. cbn [fold_left]. rewrite app_nil_r. split; [reflexivity|].
    constructor; cbn [flat_map map fst In quiet forallb].
    1: lia. 1: lia. 1: constructor. 1: intros j [].
    1: intros j; tauto. 1: constructor.
    1:{ intros w. split; [tauto|intros [[]|Hx]; lia]. }
    1: reflexivity.
    intros _ j Hj. lia.
  - cbn [map fst] in Hlt, Hnd. inversion Hnd as [|? ? Hnotin Hnd']; subst.
    assert (Hwid : wid < nw) by (apply Hlt; now left).
    assert (Hlt' : forall w, In w (map fst ws) -> w < nw) by (intros w Hw; apply Hlt; now right).
    cbn [fold_left]. unfold tell at 2. cbn [fst snd].
    destruct b.
    + (* plain *)
      destruct (IH (ev ++ [QNote wid]) n res nw Hlt' Hnd') as (d & n' & res' & nw' & Hf & F).
      destruct F as [F1 F2 F3 F4 F5 F6 F7 F8 F9].
      exists (QNote wid :: d), n', res', nw'. rewrite Hf, <- app_assoc. cbn [app]. split; [reflexivity|].
      constructor; cbn [flat_map ev_res ev_note app quiet forallb is_wrote negb andb map fst].
      1: exact F1. 1: exact F2. 1: exact F3. 1: exact F4. 1: exact F5.
      1:{ constructor; [rewrite F7; intros [Hx|Hx]; [exact (Hnotin Hx)|lia]|exact F6]. }
      1:{ intros w. cbn [In]. rewrite F7. tauto. }
      1: exact F8. exact F9.
    + (* nested: the child is told at once *)
      assert (Hlt2 : forall w, In w (map fst ws) -> w < nw + 1) by (intros w Hw; specialize (Hlt' w Hw); lia).
      destruct (IH (ev ++ [QNote wid; QNote nw]) n res (nw + 1) Hlt2 Hnd') as (d & n' & res' & nw' & Hf & F).
      destruct F as [F1 F2 F3 F4 F5 F6 F7 F8 F9].
      exists (QNote wid :: QNote nw :: d), n', res', nw'. rewrite Hf, <- app_assoc. cbn [app]. split; [reflexivity|].
      constructor; cbn [flat_map ev_res ev_note app quiet forallb is_wrote negb andb map fst].
      1: exact F1. 1: lia. 1: exact F3. 1: exact F4. 1: exact F5.
      1:{ constructor.
          - cbn [In]. rewrite F7. intros [Hx|[Hx|Hx]]; [lia|exact (Hnotin Hx)|lia].
          - constructor; [rewrite F7; intros [Hx|Hx]; [specialize (Hlt' _ Hx); lia|lia]|exact F6]. }
      1:{ intros w. cbn [In]. rewrite F7. split.
          - intros [Hx|[Hx|[Hx|Hx]]]; [left; now left|right; lia|left; now right|right; lia].
          - intros [[Hx|Hx]|Hx]; [now left|right; right; now left|].
            destruct (N.eq_dec nw w) as [E|E]; [right; now left|right; right; right; lia]. }
      1: exact F8. exact F9.
    + (* submit *)
      destruct infl.
      * destruct (IH (ev ++ [QNote wid]) (n + 1) res nw Hlt' Hnd') as (d & n' & res' & nw' & Hf & F).
        destruct F as [F1 F2 F3 F4 F5 F6 F7 F8 F9].
        exists (QNote wid :: d), n', res', nw'. rewrite Hf, <- app_assoc. cbn [app]. split; [reflexivity|].
        constructor; cbn [flat_map ev_res ev_note app quiet forallb is_wrote negb andb map fst].
        1: lia. 1: exact F2. 1: exact F3.
        1:{ intros j Hj. specialize (F4 j Hj). lia. }
        1: exact F5.
        1:{ constructor; [rewrite F7; intros [Hx|Hx]; [exact (Hnotin Hx)|lia]|exact F6]. }
        1:{ intros w. cbn [In]. rewrite F7. tauto. }
        1: exact F8. intros Hx; discriminate Hx.
      * destruct (IH (ev ++ [QNote wid; QRes n QDisc]) (n + 1) (n :: res) nw Hlt' Hnd') as (d & n' & res' & nw' & Hf & F).
        destruct F as [F1 F2 F3 F4 F5 F6 F7 F8 F9].
        exists (QNote wid :: QRes n QDisc :: d), n', res', nw'. rewrite Hf, <- app_assoc. cbn [app]. split; [reflexivity|].
        constructor; cbn [flat_map ev_res ev_note app quiet forallb is_wrote negb andb map fst].
        1: lia. 1: exact F2.
        1:{ constructor; [intros Hx; specialize (F4 n Hx); lia|exact F3]. }
        1:{ intros j [<-|Hj]; [lia|specialize (F4 j Hj); lia]. }
        1:{ intros j. rewrite F5. cbn [memN In]. rewrite orb_true_iff, N.eqb_eq. tauto. }
        1:{ constructor; [rewrite F7; intros [Hx|Hx]; [exact (Hnotin Hx)|lia]|exact F6]. }
        1:{ intros w. cbn [In]. rewrite F7. tauto. }
        1: exact F8.
        intros _ j Hj. cbn [In]. destruct (N.eq_dec n j) as [E|E]; [now left|right]. apply (F9 eq_refl). lia.
Qed.

Record WF (s : rstate) : Prop := {
  W_lt : forall k, memN k (r_res s) = true -> k < r_n s;
  W_ans : forall k, k < r_a s -> memN k (r_res s) = true;
  W_le : r_a s <= r_w s /\ r_w s <= r_n s;
  W_dead : r_lost s = true -> forall k, k < r_n s -> memN k (r_res s) = true;
  W_wlt : forall w, In w (map fst (r_watch s)) -> w < r_nw s;
  W_wnd : NoDup (map fst (r_watch s));
  W_wdead : r_lost s = true -> r_watch s = []
}.

Lemma wf_init : WF r_init.
Proof.
  constructor; cbn; try lia; try constructor.
  all: try (intros; first [discriminate | lia | contradiction | reflexivity]).
Qed.

(* what one step does to the commands (C) and to the notification requests (N) *)
Record StepFacts (s : rstate) (es : list qev) (s' : rstate) : Prop := {
  S_wf : WF s';
  C_nodup : NoDup (flat_map ev_res es);
  C_fresh : forall k, In k (flat_map ev_res es) -> memN k (r_res s) = false;
  C_iff : forall k, memN k (r_res s') = true <-> memN k (r_res s) = true \/ In k (flat_map ev_res es);
  C_quiet : r_lost s = true -> r_lost s' = true /\ quiet es = true;
  N_nodup : NoDup (flat_map ev_note es);
  N_from : forall w, In w (flat_map ev_note es) -> In w (map fst (r_watch s)) \/ r_nw s <= w < r_nw s';
  N_gone : forall w, In w (flat_map ev_note es) -> ~ In w (map fst (r_watch s'));
  N_mono : r_nw s <= r_nw s';
  N_pending : forall w, In w (map fst (r_watch s')) -> In w (map fst (r_watch s)) \/ r_nw s <= w < r_nw s';
  N_all : forall w, w < r_nw s' ->
          In w (map fst (r_watch s')) \/ In w (flat_map ev_note es) \/
          (w < r_nw s /\ ~ In w (map fst (r_watch s)))
}.

Lemma nonote_step s es s' :
  WF s' -> NoDup (flat_map ev_res es) ->
  (forall k, In k (flat_map ev_res es) -> memN k (r_res s) = false) ->
  (forall k, memN k (r_res s') = true <-> memN k (r_res s) = true \/ In k (flat_map ev_res es)) ->
  (r_lost s = true -> r_lost s' = true /\ quiet es = true) ->
  flat_map ev_note es = [] -> r_watch s' = r_watch s -> r_nw s' = r_nw s ->
  StepFacts s es s'.
Proof.
  intros H1 H2 H3 H4 H5 Hn Hw Hnw. constructor; auto; rewrite ?Hn, ?Hw, ?Hnw.
  - constructor.
  - intros w [].
  - intros w [].
  - lia.
  - intros w Hx. now left.
  - intros w Hx. destruct (in_dec N.eq_dec w (map fst (r_watch s))) as [Hi|Hi]; [now left|right; right; split; assumption].
Qed.

Ltac wf_fields := constructor; cbn [r_n r_res r_a r_w r_lost r_watch r_nw].

Lemma reply_facts s : WF s -> r_lost s = false -> r_a s < r_w s ->
  StepFacts s (snd (r_reply s)) (fst (r_reply s)).
Proof.
  intros [Wlt Wans [Wle1 Wle2] Wdead Wwlt Wwnd Wwdead] El Hlt. unfold r_reply. cbn [fst snd].
    assert (Hids : flat_map ev_res ((if memN (r_a s) (r_res s) then [] else [QRes (r_a s) QOk]) ++
                                   (if r_w s <? r_n s then [QWrote (r_w s)] else []))
                   = if memN (r_a s) (r_res s) then [] else [r_a s]).
    { destruct (memN (r_a s) (r_res s)); destruct (r_w s <? r_n s); reflexivity. }
    assert (Hnotes : flat_map ev_note ((if memN (r_a s) (r_res s) then [] else [QRes (r_a s) QOk]) ++
                                      (if r_w s <? r_n s then [QWrote (r_w s)] else [])) = []).
    { destruct (memN (r_a s) (r_res s)); destruct (r_w s <? r_n s); reflexivity. }
    apply nonote_step; cbn [r_n r_res r_a r_w r_lost r_watch r_nw]; try reflexivity; rewrite ?Hids.
    + wf_fields.
      * intros j. cbn [memN]. rewrite orb_true_iff, N.eqb_eq. intros [<-|Hj]; [lia|now apply Wlt].
      * intros j Hj. cbn [memN]. destruct (N.eqb_spec (r_a s) j) as [|Hne]; [reflexivity|].
        cbn [orb]. apply Wans. lia.
      * destruct (N.ltb_spec (r_w s) (r_n s)); lia.
      * intros Hx; discriminate Hx.
      * exact Wwlt.
      * exact Wwnd.
      * intros Hx; discriminate Hx.
    + destruct (memN (r_a s) (r_res s)); [constructor|constructor; [intros []|constructor]].
    + intros j Hj. destruct (memN (r_a s) (r_res s)) eqn:E; [destruct Hj|].
      destruct Hj as [<-|[]]. exact E.
    + intros j. cbn [memN]. rewrite orb_true_iff, N.eqb_eq.
      destruct (memN (r_a s) (r_res s)) eqn:E; cbn [In]; [|tauto].
      split; [intros [<-|Hj]; [left; exact E|left; exact Hj]|intros [Hj|[]]; right; exact Hj].
    + rewrite El. intros Hx; discriminate Hx.
    + exact Hnotes.
Qed.

Lemma lose_facts s : WF s -> r_lost s = false -> StepFacts s (snd (r_lose s)) (fst (r_lose s)).
Proof.
  intros [Wlt Wans [Wle1 Wle2] Wdead Wwlt Wwnd Wwdead] El. unfold r_lose.
  destruct (tell_fold_facts (r_a s <? r_w s) (r_watch s) [] (r_n s) (r_res s) (r_nw s) Wwlt Wwnd)
    as (d & n' & res' & nw' & Hf & F).
  rewrite Hf. cbn [app fst snd].
    destruct F as [F1 F2 F3 F4 F5 F6 F7 F8 F9].
    unfold unresolved.
    set (out := filter (fun k => negb (memN k res')) (seqN (r_a s) (N.to_nat (n' - r_a s)))).
    assert (Hout : forall j, In j out <-> (r_a s <= j < n' /\ memN j res' = false)).
    { intros j. unfold out. rewrite filter_In, seqN_In, negb_true_iff.
      split; intros [H1 H2]; (split; [lia|exact H2]). }
    assert (Hres_ev : flat_map ev_res (d ++ map (fun k => QRes k QDisc) out) = flat_map ev_res d ++ out)
      by (rewrite flat_map_app, res_of_disc; reflexivity).
    assert (Hnote_ev : flat_map ev_note (d ++ map (fun k => QRes k QDisc) out) = flat_map ev_note d)
      by (rewrite flat_map_app, note_of_disc, app_nil_r; reflexivity).
    constructor; cbn [r_n r_res r_a r_w r_lost r_watch r_nw map fst In]; rewrite ?Hres_ev, ?Hnote_ev.
    + wf_fields.
      * intros j. rewrite memN_app, orb_true_iff, memN_In, Hout. intros [[Hj _]|Hj]; [lia|].
        apply F5 in Hj. destruct Hj as [Hj|Hj]; [apply Wlt in Hj; lia|specialize (F4 j Hj); lia].
      * intros j Hj. rewrite memN_app. replace (memN j res') with true; [apply orb_true_r|].
        symmetry. apply F5. left. now apply Wans.
      * lia.
      * intros _ j Hj. rewrite memN_app, orb_true_iff, memN_In, Hout.
        destruct (memN j res') eqn:E; [right; reflexivity|left].
        split; [|reflexivity]. split; [|exact Hj].
        destruct (N.lt_ge_cases j (r_a s)) as [Hlt|Hge]; [|exact Hge].
        assert (Hx : memN j res' = true) by (apply F5; left; now apply Wans). rewrite Hx in E. discriminate E.
      * intros w [].
      * constructor.
      * reflexivity.
    + apply NoDup_app_disj; [exact F3|unfold out; apply NoDup_filter, seqN_NoDup|].
      intros j Hj Hj2. apply Hout in Hj2. destruct Hj2 as [_ Hj2].
      assert (Hx : memN j res' = true) by (apply F5; now right). rewrite Hx in Hj2. discriminate Hj2.
    + intros j Hj. apply in_app_iff in Hj. destruct Hj as [Hj|Hj].
      * specialize (F4 j Hj). destruct (memN j (r_res s)) eqn:E; [|reflexivity]. apply Wlt in E. lia.
      * apply Hout in Hj. destruct Hj as [_ Hj]. destruct (memN j (r_res s)) eqn:E; [|reflexivity].
        assert (Hx : memN j res' = true) by (apply F5; now left). rewrite Hx in Hj. discriminate Hj.
    + intros j. rewrite memN_app, orb_true_iff, memN_In, F5, in_app_iff. tauto.
    + rewrite El. intros Hx; discriminate Hx.
    + exact F6.
    + intros w Hw. apply F7 in Hw. exact Hw.
    + intros w Hw [].
    + exact F2.
    + intros w [].
    + intros w Hw. right. destruct (N.lt_ge_cases w (r_nw s)) as [Hlt|Hge].
      * destruct (in_dec N.eq_dec w (map fst (r_watch s))) as [Hi|Hi].
        -- left. apply F7. now left.
        -- right. split; assumption.
      * left. apply F7. right. lia.
Qed.


(* a command resolved by its reply, then a step from the state in which it is resolved *)
Lemma resolved_then_facts s c ev s' :
  memN c (r_res s) = false -> r_lost s = false ->
  StepFacts {| r_n := r_n s; r_w := r_w s; r_a := r_a s; r_res := c :: r_res s; r_lost := false;
               r_watch := r_watch s; r_nw := r_nw s |} ev s' ->
  StepFacts s (QRes c QOk :: ev) s'.
Proof.
  intros Hm El [W C1 C2 C3 C4 N1 N2 N3 N4 N5 N6]. cbn [r_res r_lost r_watch r_nw] in *.
  constructor; cbn [flat_map ev_res ev_note app].
  - exact W.
  - constructor; [|exact C1]. intros Hx. apply C2 in Hx. cbn [memN] in Hx. rewrite N.eqb_refl in Hx. discriminate Hx.
  - intros k [<-|Hk]; [exact Hm|]. apply C2 in Hk. cbn [memN] in Hk. apply orb_false_iff in Hk. exact (proj2 Hk).
  - intros k. rewrite C3. cbn [memN In]. rewrite orb_true_iff, N.eqb_eq. tauto.
  - rewrite El. intros Hx; discriminate Hx.
  - exact N1.
  - exact N2.
  - exact N3.
  - exact N4.
  - exact N5.
  - exact N6.
Qed.

Lemma step_facts s o s' es : WF s -> r_step s o = Some (s', es) -> StepFacts s es s'.
Proof.
  intros W H. pose proof W as [Wlt Wans [Wle1 Wle2] Wdead Wwlt Wwnd Wwdead].
  destruct o as [|k| |b| |]; cbn [r_step] in H.
  - (* submit *)
    assert (Hnew : memN (r_n s) (r_res s) = false).
    { destruct (memN (r_n s) (r_res s)) eqn:E; [|reflexivity]. apply Wlt in E. lia. }
    destruct (r_lost s) eqn:El.
    + injection H as <- <-. apply nonote_step; cbn [r_n r_res r_a r_w r_lost r_watch r_nw flat_map ev_res ev_note app]; try reflexivity.
      * wf_fields.
        -- intros k. cbn [memN]. rewrite orb_true_iff, N.eqb_eq. intros [<-|Hk]; [lia|]. apply Wlt in Hk. lia.
        -- intros k Hk. cbn [memN]. rewrite (Wans k Hk). apply orb_true_r.
        -- lia.
        -- intros _ k Hk. cbn [memN]. destruct (N.eqb_spec (r_n s) k) as [|Hne]; [reflexivity|].
           cbn [orb]. apply (Wdead eq_refl). lia.
        -- exact Wwlt.
        -- exact Wwnd.
        -- intros _. exact (Wwdead eq_refl).
      * constructor; [intros []|constructor].
      * intros k [<-|[]]. exact Hnew.
      * intros k. cbn [memN In]. rewrite orb_true_iff, N.eqb_eq. tauto.
      * intros _. split; reflexivity.
    + destruct (r_w s =? r_a s); injection H as <- <-.
      * apply nonote_step; cbn [r_n r_res r_a r_w r_lost r_watch r_nw flat_map ev_res ev_note app]; try reflexivity.
        -- wf_fields; [intros k Hk; apply Wlt in Hk; lia|exact Wans|lia|intros Hx; discriminate Hx|exact Wwlt|exact Wwnd|intros Hx; discriminate Hx].
        -- constructor.
        -- intros k [].
        -- intros k; cbn; tauto.
        -- rewrite El. intros Hx; discriminate Hx.
      * apply nonote_step; cbn [r_n r_res r_a r_w r_lost r_watch r_nw flat_map ev_res ev_note app]; try reflexivity.
        -- wf_fields; [intros k Hk; apply Wlt in Hk; lia|exact Wans|lia|intros Hx; discriminate Hx|exact Wwlt|exact Wwnd|intros Hx; discriminate Hx].
        -- constructor.
        -- intros k [].
        -- intros k; cbn; tauto.
        -- rewrite El. intros Hx; discriminate Hx.
  - (* cancel *)
    destruct ((k <? r_n s) && negb (memN k (r_res s))) eqn:E.
    + injection H as <- <-. apply andb_prop in E. destruct E as [E1 E2].
      apply N.ltb_lt in E1. apply negb_true_iff in E2.
      apply nonote_step; cbn [r_n r_res r_a r_w r_lost r_watch r_nw flat_map ev_res ev_note app]; try reflexivity.
      * wf_fields.
        -- intros j. cbn [memN]. rewrite orb_true_iff, N.eqb_eq. intros [<-|Hj]; [exact E1|now apply Wlt].
        -- intros j Hj. cbn [memN]. rewrite (Wans j Hj). apply orb_true_r.
        -- lia.
        -- intros Hl j Hj. cbn [memN]. rewrite (Wdead Hl j Hj). apply orb_true_r.
        -- exact Wwlt.
        -- exact Wwnd.
        -- exact Wwdead.
      * constructor; [intros []|constructor].
      * intros j [<-|[]]. exact E2.
      * intros j. cbn [memN In]. rewrite orb_true_iff, N.eqb_eq. tauto.
      * intros Hl. split; [exact Hl|reflexivity].
    + injection H as <- <-. apply nonote_step; try reflexivity.
      * constructor; [exact Wlt|exact Wans|lia|exact Wdead|exact Wwlt|exact Wwnd|exact Wwdead].
      * constructor.
      * intros j [].
      * intros j; cbn; tauto.
      * intros Hl. split; [exact Hl|reflexivity].
  - (* reply *)
    destruct (r_lost s) eqn:El; [discriminate H|]. cbn [orb] in H.
    destruct (N.ltb_spec (r_a s) (r_w s)) as [Hlt|Hge]; cbn [negb] in H; [|discriminate H].
    pose proof (reply_facts s W El Hlt) as F. destruct (r_reply s) as [s1 e1]. injection H as <- <-. exact F.
  - (* a notification request *)
    destruct (r_lost s) eqn:El.
    + (* after the loss *)
      assert (Hw0 : r_watch s = []) by (exact (Wwdead eq_refl)).
      destruct (tell_fold_facts false [(r_nw s, b)] [] (r_n s) (r_res s) (r_nw s + 1))
        as (d & n' & res' & nw' & Hf & F).
      { cbn [map fst In]. intros w [<-|[]]. lia. }
      { cbn [map fst]. constructor; [intros []|constructor]. }
      cbn [fold_left app] in Hf. rewrite Hf in H. injection H as <- <-.
      destruct F as [F1 F2 F3 F4 F5 F6 F7 F8 F9].
      constructor; cbn [r_n r_res r_a r_w r_lost r_watch r_nw map fst In].
      * wf_fields.
        -- intros k Hk. apply F5 in Hk. destruct Hk as [Hk|Hk]; [apply Wlt in Hk; lia|specialize (F4 k Hk); lia].
        -- intros k Hk. apply F5. left. now apply Wans.
        -- lia.
        -- intros _ k Hk. apply F5. destruct (N.lt_ge_cases k (r_n s)) as [Hlt|Hge].
           ++ left. exact (Wdead eq_refl k Hlt).
           ++ right. apply (F9 eq_refl). lia.
        -- intros w [].
        -- constructor.
        -- reflexivity.
      * exact F3.
      * intros k Hk. specialize (F4 k Hk). destruct (memN k (r_res s)) eqn:E; [|reflexivity].
        apply Wlt in E. lia.
      * exact F5.
      * intros _. split; [reflexivity|exact F8].
      * exact F6.
      * intros w Hw. apply F7 in Hw. cbn [map fst In] in Hw. right. lia.
      * intros w Hw [].
      * lia.
      * intros w [].
      * intros w Hw. right. destruct (N.lt_ge_cases w (r_nw s)) as [Hlt|Hge].
        -- right. split; [exact Hlt|]. rewrite Hw0. intros [].
        -- left. apply F7. cbn [map fst In]. destruct (N.eq_dec (r_nw s) w) as [E|E]; [left; now left|right; lia].
    + injection H as <- <-.
      constructor; cbn [r_n r_res r_a r_w r_lost r_watch r_nw flat_map ev_res ev_note]; rewrite ?map_app; cbn [map fst].
      * wf_fields; rewrite ?map_app; cbn [map fst].
        -- exact Wlt.
        -- exact Wans.
        -- lia.
        -- intros Hx; discriminate Hx.
        -- intros w Hw. apply in_app_iff in Hw. destruct Hw as [Hw|[<-|[]]]; [specialize (Wwlt w Hw); lia|lia].
        -- apply NoDup_app_disj; [exact Wwnd|constructor; [intros []|constructor]|].
           intros w Hw [<-|[]]. specialize (Wwlt _ Hw). lia.
        -- intros Hx; discriminate Hx.
      * constructor.
      * intros k [].
      * intros k. cbn [In]. tauto.
      * rewrite El. intros Hx; discriminate Hx.
      * constructor.
      * intros w [].
      * intros w [].
      * lia.
      * intros w Hw. apply in_app_iff in Hw. destruct Hw as [Hw|[<-|[]]]; [now left|right; lia].
      * intros w Hw. destruct (N.lt_ge_cases w (r_nw s)) as [Hlt|Hge].
        -- destruct (in_dec N.eq_dec w (map fst (r_watch s))) as [Hi|Hi].
           ++ left. apply in_app_iff. now left.
           ++ right. right. split; assumption.
        -- left. apply in_app_iff. right. left. lia.
  - (* loss *)
    destruct (r_lost s) eqn:El; [discriminate H|].
    pose proof (lose_facts s W El) as F. destruct (r_lose s) as [s1 e1]. injection H as <- <-. exact F.
  - (* a reply whose callback hangs up *)
    destruct (r_lost s) eqn:El; [discriminate H|]. cbn [orb] in H.
    destruct (N.ltb_spec (r_a s) (r_w s)) as [Hlt|Hge]; cbn [negb] in H; [|discriminate H].
    destruct (memN (r_a s) (r_res s)) eqn:Hmem.
    + pose proof (reply_facts s W El Hlt) as F. destruct (r_reply s) as [s1 e1]. injection H as <- <-. exact F.
    + set (sc := {| r_n := r_n s; r_w := r_w s; r_a := r_a s; r_res := r_a s :: r_res s; r_lost := false;
                    r_watch := r_watch s; r_nw := r_nw s |}) in H.
      assert (Wc : WF sc).
      { unfold sc. wf_fields.
        - intros j. cbn [memN]. rewrite orb_true_iff, N.eqb_eq. intros [<-|Hj]; [lia|now apply Wlt].
        - intros j Hj. cbn [memN]. rewrite (Wans j Hj). apply orb_true_r.
        - lia.
        - intros Hx; discriminate Hx.
        - exact Wwlt.
        - exact Wwnd.
        - intros Hx; discriminate Hx. }
      pose proof (lose_facts sc Wc eq_refl) as F.
      destruct (r_lose sc) as [s1 ev]. injection H as <- <-. cbn [fst snd] in F.
      exact (resolved_then_facts s (r_a s) ev s1 Hmem El F).
Qed.

Record ExecFacts (s : rstate) (tr : list (list qev)) (s' : rstate) : Prop := {
  E_wf : WF s';
  EC_nodup : NoDup (res_ids tr);
  EC_fresh : forall k, In k (res_ids tr) -> memN k (r_res s) = false;
  EC_iff : forall k, memN k (r_res s') = true <-> memN k (r_res s) = true \/ In k (res_ids tr);
  EC_quiet : r_lost s = true -> r_lost s' = true /\ quiet (concat tr) = true;
  EN_nodup : NoDup (note_ids tr);
  EN_from : forall w, In w (note_ids tr) -> In w (map fst (r_watch s)) \/ r_nw s <= w < r_nw s';
  EN_gone : forall w, In w (note_ids tr) -> ~ In w (map fst (r_watch s'));
  EN_mono : r_nw s <= r_nw s';
  EN_pending : forall w, In w (map fst (r_watch s')) -> In w (map fst (r_watch s)) \/ r_nw s <= w < r_nw s';
  EN_all : forall w, w < r_nw s' ->
           In w (map fst (r_watch s')) \/ In w (note_ids tr) \/ (w < r_nw s /\ ~ In w (map fst (r_watch s)))
}.

Lemma exec_facts ops : forall s s' tr, WF s -> r_exec s ops = Some (s', tr) -> ExecFacts s tr s'.
Proof.
  induction ops as [|o ops IH]; intros s s' tr W H; cbn [r_exec] in H.
  - injection H as <- <-. unfold res_ids, note_ids.
    constructor; cbn [concat flat_map].
    1: exact W. 1: constructor. 1: intros k []. 1: (intros k; split; [intros Hx; now left|intros [Hx|Hx]; [exact Hx|destruct Hx]]).
    1: (intros Hl; split; [exact Hl|reflexivity]). 1: constructor. 1: intros w []. 1: intros w [].
    1: lia. 1: (intros w Hw; now left).
    intros w Hw. destruct (in_dec N.eq_dec w (map fst (r_watch s))) as [Hi|Hi]; [now left|right; right; split; assumption].
  - destruct (r_step s o) as [[s1 es]|] eqn:E1; [|discriminate H].
    destruct (r_exec s1 ops) as [[s2 tr2]|] eqn:E2; [|discriminate H]. injection H as <- <-.
    destruct (step_facts s o s1 es W E1) as [W1 C1 C2 C3 C4 N1 N2 N3 N4 N5 N6].
    destruct (IH s1 s2 tr2 W1 E2) as [W2 D1 D2 D3 D4 M1 M2 M3 M4 M5 M6].
    unfold res_ids, note_ids in *.
    constructor; unfold res_ids, note_ids; cbn [concat]; rewrite ?flat_map_app.
    + exact W2.
    + apply NoDup_app_disj; [exact C1|exact D1|].
      intros k Hk Hk2. apply D2 in Hk2. assert (Hm : memN k (r_res s1) = true) by (apply C3; now right).
      rewrite Hm in Hk2. discriminate Hk2.
    + intros k Hk. apply in_app_iff in Hk. destruct Hk as [Hk|Hk]; [now apply C2|].
      apply D2 in Hk. destruct (memN k (r_res s)) eqn:E; [|reflexivity].
      assert (Hm : memN k (r_res s1) = true) by (apply C3; now left). rewrite Hm in Hk. discriminate Hk.
    + intros k. rewrite D3, C3, in_app_iff. tauto.
    + intros Hl. destruct (C4 Hl) as [Hl1 Hq]. destruct (D4 Hl1) as [Hl2 Hq2].
      split; [exact Hl2|]. unfold quiet in *. rewrite forallb_app, Hq. exact Hq2.
    + apply NoDup_app_disj; [exact N1|exact M1|].
      intros w Hw Hw2. apply M2 in Hw2. destruct Hw2 as [Hw2|Hw2]; [exact (N3 w Hw Hw2)|].
      apply N2 in Hw. destruct Hw as [Hw|Hw]; [|lia].
      destruct W as [_ _ _ _ Wwlt _ _]. specialize (Wwlt w Hw). lia.
    + intros w Hw. apply in_app_iff in Hw. destruct Hw as [Hw|Hw].
      * apply N2 in Hw. destruct Hw as [Hw|Hw]; [now left|right; lia].
      * apply M2 in Hw. destruct Hw as [Hw|Hw]; [|right; lia].
        apply N5 in Hw. destruct Hw as [Hw|Hw]; [now left|right; lia].
    + intros w Hw. apply in_app_iff in Hw. destruct Hw as [Hw|Hw]; [|now apply M3].
      intros Hw2. apply M5 in Hw2. destruct Hw2 as [Hw2|Hw2]; [exact (N3 w Hw Hw2)|].
      apply N2 in Hw. destruct Hw as [Hw|Hw]; [|lia].
      destruct W as [_ _ _ _ Wwlt _ _]. specialize (Wwlt w Hw). lia.
    + lia.
    + intros w Hw. apply M5 in Hw. destruct Hw as [Hw|Hw]; [|right; lia].
      apply N5 in Hw. destruct Hw as [Hw|Hw]; [now left|right; lia].
    + intros w Hw. rewrite in_app_iff. destruct (M6 w Hw) as [Hx|[Hx|[Hx1 Hx2]]]; [now left|right; left; now right|].
      destruct (N6 w Hx1) as [Hy|[Hy|Hy]]; [contradiction|right; left; now left|right; right; exact Hy].
Qed.

(* ---- the property at command level, for every operation sequence of the envelope ---- *)
Theorem cancel_resolved_at_most_once ops tr : q_ref ops = Some tr -> NoDup (res_ids tr).
Proof.
  unfold q_ref. rewrite r_exec_run. destruct (r_exec r_init ops) as [[s' tr']|] eqn:E; [|discriminate].
  cbn. intros H. injection H as <-. exact (EC_nodup _ _ _ (exec_facts ops _ _ _ wf_init E)).
Qed.

Theorem cancel_all_resolved_after_loss ops s' tr : r_exec r_init ops = Some (s', tr) -> r_lost s' = true ->
  forall k, k < r_n s' -> In k (res_ids tr).
Proof.
  intros E Hl k Hk. destruct (exec_facts ops _ _ _ wf_init E) as [W _ _ M _ _ _ _ _ _ _].
  assert (Hm : memN k (r_res s') = true) by (exact (W_dead _ W Hl k Hk)).
  apply M in Hm. destruct Hm as [Hm|Hm]; [discriminate Hm|exact Hm].
Qed.

Theorem cancel_notified_at_most_once ops tr : q_ref ops = Some tr -> NoDup (note_ids tr).
Proof.
  unfold q_ref. rewrite r_exec_run. destruct (r_exec r_init ops) as [[s' tr']|] eqn:E; [|discriminate].
  cbn. intros H. injection H as <-. exact (EN_nodup _ _ _ (exec_facts ops _ _ _ wf_init E)).
Qed.

Theorem cancel_all_notified_after_loss ops s' tr : r_exec r_init ops = Some (s', tr) -> r_lost s' = true ->
  forall w, w < r_nw s' -> In w (note_ids tr).
Proof.
  intros E Hl w Hw. destruct (exec_facts ops _ _ _ wf_init E) as [W _ _ _ _ _ _ _ _ _ A].
  destruct (A w Hw) as [Hx|[Hx|[Hx _]]]; [|exact Hx|cbn in Hx; lia].
  rewrite (W_wdead _ W Hl) in Hx. destruct Hx.
Qed.

(* the operations that are the loss: connectionLost itself, and a reply whose callback hangs up - unless the
   caller had given up on that command before (then no callback runs: a plain reply) *)
Definition loses (s : rstate) (o : qop) : bool :=
  match o with QLose => true | QReplyLose => negb (memN (r_a s) (r_res s)) | _ => false end.

Lemma step_lost s o s' es : r_step s o = Some (s', es) ->
  (loses s o = true -> r_lost s' = true) /\ (r_lost s = true -> r_lost s' = true).
Proof.
  destruct o as [|k| |b| |]; cbn [r_step loses]; intros H.
  - destruct (r_lost s); [|destruct (r_w s =? r_a s)]; injection H as <- <-; cbn; (split; [discriminate|auto]).
  - destruct (_ && _); injection H as <- <-; cbn; (split; [discriminate|auto]).
  - destruct (r_lost s) eqn:El; cbn [orb] in H; [discriminate H|].
    destruct (negb (r_a s <? r_w s)); [discriminate H|]. unfold r_reply in H. injection H as <- <-. cbn.
    split; [discriminate|intros Hx; discriminate Hx].
  - destruct (r_lost s) eqn:El.
    + destruct (tell false _ _) as [[[ev n] res] nw]. injection H as <- <-. cbn. split; [discriminate|auto].
    + injection H as <- <-. cbn. split; [discriminate|intros Hx; discriminate Hx].
  - destruct (r_lost s); [discriminate H|]. unfold r_lose in H.
    destruct (fold_left _ _ _) as [[[ev n] res] nw]. injection H as <- <-. cbn. split; auto.
  - destruct (r_lost s) eqn:El; cbn [orb] in H; [discriminate H|].
    destruct (negb (r_a s <? r_w s)); [discriminate H|].
    destruct (memN (r_a s) (r_res s)); cbn [negb].
    + split; [discriminate|intros Hx; discriminate Hx].
    + unfold r_lose in H. destruct (fold_left _ _ _) as [[[ev n] res] nw]. injection H as <- <-. cbn. split; auto.
Qed.

Lemma exec_lost ops : forall s s' tr, r_exec s ops = Some (s', tr) ->
  (In QLose ops \/ r_lost s = true) -> r_lost s' = true.
Proof.
  induction ops as [|o ops IH]; intros s s' tr H; cbn [r_exec] in H.
  - injection H as <- <-. intros [[]|Hl]; exact Hl.
  - destruct (r_step s o) as [[s1 es]|] eqn:E1; [|discriminate H].
    destruct (r_exec s1 ops) as [[s2 tr2]|] eqn:E2; [|discriminate H]. injection H as <- <-.
    destruct (step_lost s o s1 es E1) as (Hlose & Hkeep).
    intros [[Ho|Hin]|Hl]; apply (IH s1 s2 tr2 E2);
      [right; subst o; exact (Hlose eq_refl)|left; exact Hin|right; exact (Hkeep Hl)].
Qed.

Lemma r_exec_app a : forall s b,
  r_exec s (a ++ b) = match r_exec s a with
                      | None => None
                      | Some (s1, t1) => match r_exec s1 b with None => None | Some (s2, t2) => Some (s2, t1 ++ t2) end
                      end.
Proof.
  induction a as [|o a IH]; intros s b; cbn [app r_exec].
  - destruct (r_exec s b) as [[s2 t2]|]; reflexivity.
  - destruct (r_step s o) as [[s1 es]|]; [|reflexivity]. rewrite IH.
    destruct (r_exec s1 a) as [[s2 t1]|]; [|reflexivity].
    destruct (r_exec s2 b) as [[s3 t2]|]; reflexivity.
Qed.

Lemma r_exec_length ops : forall s s' tr, r_exec s ops = Some (s', tr) -> length tr = length ops.
Proof.
  induction ops as [|o ops IH]; intros s s' tr H; cbn [r_exec] in H.
  - now injection H as <- <-.
  - destruct (r_step s o) as [[s1 es]|]; [|discriminate H].
    destruct (r_exec s1 ops) as [[s2 tr2]|] eqn:E2; [|discriminate H]. injection H as <- <-.
    cbn [length]. f_equal. exact (IH _ _ _ E2).
Qed.

(* the loss itself writes nothing *)
Lemma lose_quiet s : (forall w, In w (map fst (r_watch s)) -> w < r_nw s) -> NoDup (map fst (r_watch s)) ->
  quiet (snd (r_lose s)) = true.
Proof.
  intros Hlt Hnd. unfold r_lose.
  destruct (tell_fold_facts (r_a s <? r_w s) (r_watch s) [] (r_n s) (r_res s) (r_nw s) Hlt Hnd)
    as (d & n' & res' & nw' & Hf & F).
  rewrite Hf. cbn [app snd]. unfold quiet. rewrite forallb_app. apply andb_true_intro.
  split; [exact (T_quiet _ _ _ _ _ _ _ _ _ F)|apply quiet_disc].
Qed.

Lemma loses_step_quiet s o s' es : WF s -> loses s o = true -> r_step s o = Some (s', es) -> quiet es = true.
Proof.
  intros W Hlo H. destruct o; cbn [loses] in Hlo; try discriminate Hlo; cbn [r_step] in H.
  - destruct (r_lost s); [discriminate H|]. pose proof (lose_quiet s (W_wlt _ W) (W_wnd _ W)) as Hq.
    destruct (r_lose s) as [s1 ev]. injection H as <- <-. exact Hq.
  - destruct (r_lost s || negb (r_a s <? r_w s)); [discriminate H|]. apply negb_true_iff in Hlo. rewrite Hlo in H.
    pose proof (lose_quiet {| r_n := r_n s; r_w := r_w s; r_a := r_a s; r_res := r_a s :: r_res s; r_lost := false;
                             r_watch := r_watch s; r_nw := r_nw s |} (W_wlt _ W) (W_wnd _ W)) as Hq.
    destruct (r_lose _) as [s1 ev]. injection H as <- <-. exact Hq.
Qed.

(* from the loss on (its own operation included) nothing is written; the loss is connectionLost or a reply whose
   callback hangs up *)
Theorem cancel_nothing_written_after_loss_gen pre o post s1 t1 tr :
  r_exec r_init pre = Some (s1, t1) -> loses s1 o = true ->
  q_ref (pre ++ o :: post) = Some tr -> quiet (concat (skipn (length pre) tr)) = true.
Proof.
  intros E1 Hlo. unfold q_ref. rewrite r_exec_run, r_exec_app, E1.
  destruct (r_exec s1 (o :: post)) as [[s2 t2]|] eqn:E2; [|discriminate].
  cbn [option_map snd]. intros H. injection H as <-.
  rewrite <- (r_exec_length pre _ _ _ E1), skipn_app, Nat.sub_diag, skipn_all. cbn [app skipn].
  cbn [r_exec] in E2. destruct (r_step s1 o) as [[sa es]|] eqn:Es; [|discriminate E2].
  destruct (r_exec sa post) as [[sb tb]|] eqn:Eb; [|discriminate E2]. injection E2 as <- <-.
  assert (Wf1 : WF s1) by (exact (E_wf _ _ _ (exec_facts pre _ _ _ wf_init E1))).
  destruct (step_facts _ _ _ _ Wf1 Es) as [Wfa _ _ _ _ _ _ _ _ _ _].
  assert (Hl : r_lost sa = true) by (exact (proj1 (step_lost _ _ _ _ Es) Hlo)).
  cbn [concat]. unfold quiet. rewrite forallb_app. apply andb_true_intro. split.
  - exact (loses_step_quiet _ _ _ _ Wf1 Hlo Es).
  - exact (proj2 (EC_quiet _ _ _ (exec_facts post _ _ _ Wfa Eb) Hl)).
Qed.

Theorem cancel_nothing_written_after_loss pre post tr :
  q_ref (pre ++ QLose :: post) = Some tr -> quiet (concat (skipn (length pre) tr)) = true.
Proof.
  intros H. pose proof H as H0. unfold q_ref in H0. rewrite r_exec_run, r_exec_app in H0.
  destruct (r_exec r_init pre) as [[s1 t1]|] eqn:E1; [|discriminate H0].
  exact (cancel_nothing_written_after_loss_gen pre QLose post s1 t1 tr E1 eq_refl H).
Qed.

(* the loss is final, for both forms of the loss *)
Theorem cancel_loss_is_final_gen pre o post s1 t1 s' tr :
  r_exec r_init pre = Some (s1, t1) -> loses s1 o = true ->
  r_exec r_init (pre ++ o :: post) = Some (s', tr) -> r_lost s' = true.
Proof.
  intros E1 Hlo. rewrite r_exec_app, E1. cbn [r_exec].
  destruct (r_step s1 o) as [[sa es]|] eqn:Es; [|discriminate].
  destruct (r_exec sa post) as [[sb tb]|] eqn:Eb; [|discriminate]. intros H. injection H as <- _.
  exact (exec_lost post _ _ _ Eb (or_intror (proj1 (step_lost _ _ _ _ Es) Hlo))).
Qed.

(* ---- a reply whose callback hangs up ---- *)
(* while a command is being processed the observers' callbacks resolve nobody and write nothing *)
Lemma tell_true_fold ws : forall ev n res nw, exists d n' nw',
  fold_left (tell true) ws (ev, n, res, nw) = (ev ++ d, n', res, nw') /\
  flat_map ev_res d = [] /\ quiet d = true.
Proof.
  induction ws as [|[wid b] ws IH]; intros ev n res nw; cbn [fold_left].
  - exists [], n, nw. rewrite app_nil_r. repeat split.
  - unfold tell at 2. cbn [fst snd]. destruct b.
    + destruct (IH (ev ++ [QNote wid]) n res nw) as (d & n' & nw' & Hf & H1 & H2).
      exists (QNote wid :: d), n', nw'. rewrite Hf, <- app_assoc. repeat split; assumption.
    + destruct (IH (ev ++ [QNote wid; QNote nw]) n res (nw + 1)) as (d & n' & nw' & Hf & H1 & H2).
      exists (QNote wid :: QNote nw :: d), n', nw'. rewrite Hf, <- app_assoc. repeat split; assumption.
    + destruct (IH (ev ++ [QNote wid]) (n + 1) res nw) as (d & n' & nw' & Hf & H1 & H2).
      exists (QNote wid :: d), n', nw'. rewrite Hf, <- app_assoc. repeat split; assumption.
Qed.

(* in EVERY state: an effective QReplyLose (a command in flight that nobody has resolved) resolves that command
   with its reply, then tells the observers (d: notifications only), then fails every later command that nobody
   has resolved - those the observers' callbacks have just submitted included - exactly once, in submission
   order; it writes nothing (r_w is unchanged: the next queued command is not sent) and the connection is lost *)
Theorem cancel_replylose_fails_queue s s' es :
  r_step s QReplyLose = Some (s', es) -> memN (r_a s) (r_res s) = false ->
  exists d,
    es = QRes (r_a s) QOk :: d ++
         map (fun k => QRes k QDisc)
             (filter (fun k => negb (memN k (r_res s)))
                     (seqN (r_a s + 1) (N.to_nat (r_n s' - (r_a s + 1))))) /\
    flat_map ev_res d = [] /\ quiet es = true /\ r_lost s' = true /\ r_w s' = r_w s.
Proof.
  cbn [r_step]. intros H Hm. destruct (r_lost s); [discriminate H|]. cbn [orb] in H.
  destruct (r_a s <? r_w s) eqn:Hlt; cbn [negb] in H; [|discriminate H]. rewrite Hm in H.
  unfold r_lose in H. cbn [r_a r_w r_n r_res r_watch r_nw] in H. rewrite Hlt in H.
  destruct (tell_true_fold (r_watch s) [] (r_n s) (r_a s :: r_res s) (r_nw s)) as (d & n' & nw' & Hf & Hd1 & Hd2).
  rewrite Hf in H. cbn [app] in H. injection H as <- <-. cbn [r_n r_lost r_w]. exists d.
  assert (Hout : unresolved (r_a s :: r_res s) (r_a s) (N.to_nat (n' - r_a s))
                 = filter (fun k => negb (memN k (r_res s))) (seqN (r_a s + 1) (N.to_nat (n' - (r_a s + 1))))).
  { unfold unresolved. destruct (N.to_nat (n' - r_a s)) as [|len] eqn:E.
    - replace (N.to_nat (n' - (r_a s + 1))) with 0%nat by lia. reflexivity.
    - replace (N.to_nat (n' - (r_a s + 1))) with len by lia. cbn [seqN filter memN].
      rewrite N.eqb_refl. cbn [orb negb]. apply filter_ext_in. intros k Hk. apply seqN_In in Hk.
      cbn [memN]. destruct (N.eqb_spec (r_a s) k); [lia|reflexivity]. }
  rewrite Hout. split; [reflexivity|]. split; [exact Hd1|]. split; [|split; reflexivity].
  cbn [quiet forallb is_wrote negb andb]. unfold quiet in *. rewrite forallb_app, Hd2. apply quiet_disc.
Qed.
