(* C03 with caller-side cancellation: the command-level model is the reference machine; consequences *)
From Coq Require Import List Bool Arith NArith Lia.
From TxVerif Require Import Spec.C03Cancel Model.CtlCancel.
Import ListNotations.
Open Scope N_scope.

Lemma seqN_snoc lo len : seqN lo (S len) = seqN lo len ++ [lo + N.of_nat len].
Proof.
  revert lo. induction len as [|len IH]; intros lo.
  - cbn [seqN app]. f_equal. lia.
  - change (seqN lo (S (S len))) with (lo :: seqN (lo + 1) (S len)). rewrite IH.
    cbn [seqN app]. do 2 f_equal. f_equal. lia.
Qed.

(* simulation relation *)
Record Rel (m : mq) (r : rstate) : Prop := {
  R_next : m_next m = r_n r;
  R_lost : m_lost m = r_lost r;
  R_called : forall k, memN k (m_called m) = memN k (r_res r);
  R_le : r_a r <= r_w r /\ r_w r <= r_n r /\ r_w r <= r_a r + 1;
  R_live : r_lost r = false ->
           m_cur m = (if r_a r <? r_w r then Some (r_a r) else None) /\
           (exists len, m_q m = seqN (r_w r) len /\ r_w r + N.of_nat len = r_n r) /\
           (r_w r = r_a r -> r_w r = r_n r);
  R_dead : r_lost r = true -> m_cur m = None /\ m_q m = []
}.

Lemma rel_init : Rel mq_init r_init.
Proof.
  constructor; cbn; try reflexivity; try lia.
  all: try (intros H; discriminate H).
  all: try (intros _; split; [reflexivity|]; split; [exists 0%nat; split; [reflexivity|lia]|reflexivity]).
Qed.

Lemma memN_cons k x l : memN k (x :: l) = (x =? k) || memN k l.
Proof. reflexivity. Qed.

Lemma memN_app k a b : memN k (a ++ b) = memN k a || memN k b.
Proof. induction a as [|x a IH]; cbn [app memN]; [reflexivity|]. now rewrite IH, orb_assoc. Qed.

Lemma filter_ext_called (f g : list N) l :
  (forall k, memN k f = memN k g) ->
  filter (fun k => negb (memN k f)) l = filter (fun k => negb (memN k g)) l.
Proof. intros H. apply filter_ext. intros k. now rewrite H. Qed.

Ltac rel_fields := constructor; cbn [m_next m_lost m_called m_cur m_q r_n r_lost r_res r_w r_a].
Ltac absurd_flag := let H := fresh in intros H; discriminate H.

Lemma step_sim m r o : Rel m r ->
  match m_step m o, r_step r o with
  | Some (m', e1), Some (r', e2) => e1 = e2 /\ Rel m' r'
  | None, None => True
  | _, _ => False
  end.
Proof.
  intros [Hn Hl Hc (Hle1 & Hle2 & Hle3) Hlive Hdead].
  destruct o as [|k| |]; cbn [m_step r_step].
  - (* submit *)
    destruct (r_lost r) eqn:El.
    + destruct (Hdead eq_refl) as [Hcur Hq]. unfold maybe_issue. cbn [m_cur m_q m_lost m_called m_next].
      rewrite Hcur, Hq, Hl. cbn [app]. rewrite Hn. split; [reflexivity|]. rel_fields.
      * lia.
      * reflexivity.
      * intros j. cbn [memN]. now rewrite Hc.
      * lia.
      * absurd_flag.
      * intros _. split; reflexivity.
    + destruct (Hlive eq_refl) as (Hcur & (len & Hq & Hlen) & Hidle).
      unfold maybe_issue. cbn [m_cur m_q m_lost m_called m_next]. rewrite Hcur, Hl.
      destruct (N.eqb_spec (r_w r) (r_a r)) as [E|E].
      * (* nothing awaiting a reply: written at once *)
        assert (Hlt : (r_a r <? r_w r) = false) by (apply N.ltb_ge; lia). rewrite Hlt.
        assert (len = 0%nat) by (specialize (Hidle E); lia). subst len.
        rewrite Hq. cbn [seqN app]. rewrite Hn. split; [f_equal; f_equal; lia|]. rel_fields.
        -- lia.
        -- reflexivity.
        -- exact Hc.
        -- lia.
        -- intros _. assert (Hlt2 : (r_a r <? r_w r + 1) = true) by (apply N.ltb_lt; lia). rewrite Hlt2.
           split; [f_equal; lia|]. split; [exists 0%nat; split; [reflexivity|lia]|lia].
        -- absurd_flag.
      * assert (Hlt : (r_a r <? r_w r) = true) by (apply N.ltb_lt; lia). rewrite Hlt.
        split; [reflexivity|]. rel_fields.
        -- lia.
        -- reflexivity.
        -- exact Hc.
        -- lia.
        -- intros _. rewrite Hlt. split; [reflexivity|]. split; [|lia].
           exists (S len). rewrite seqN_snoc, Hq. split; [do 2 f_equal; lia|lia].
        -- absurd_flag.
  - (* cancel *)
    rewrite Hn, Hc.
    destruct ((k <? r_n r) && negb (memN k (r_res r))).
    + split; [reflexivity|]. rel_fields.
      * first [exact Hn | reflexivity].
      * first [exact Hl | reflexivity].
      * intros j. cbn [memN]. now rewrite Hc.
      * lia.
      * exact Hlive.
      * exact Hdead.
    + split; [reflexivity|]. constructor; try assumption. lia.
  - (* reply *)
    rewrite Hl. destruct (r_lost r) eqn:El; [exact I|]. cbn [orb].
    destruct (Hlive eq_refl) as (Hcur & (len & Hq & Hlen) & Hidle). rewrite Hcur.
    destruct (N.ltb_spec (r_a r) (r_w r)) as [Hlt|Hge]; cbn [negb]; [|exact I].
    assert (Hw : r_w r = r_a r + 1) by lia.
    unfold maybe_issue. cbn [m_cur m_q m_lost m_called m_next]. rewrite Hq, Hc.
    destruct len as [|len].
    + assert (Hmore : (r_w r <? r_n r) = false) by (apply N.ltb_ge; lia). rewrite Hmore.
      cbn [seqN]. split; [reflexivity|]. rel_fields.
      * first [exact Hn | reflexivity].
      * reflexivity.
      * intros j. cbn [memN]. now rewrite Hc.
      * lia.
      * intros _. assert (Hx : (r_a r + 1 <? r_w r) = false) by (apply N.ltb_ge; lia). rewrite Hx.
        split; [reflexivity|]. split; [exists 0%nat; split; [reflexivity|lia]|lia].
      * absurd_flag.
    + assert (Hmore : (r_w r <? r_n r) = true) by (apply N.ltb_lt; lia). rewrite Hmore.
      cbn [seqN]. split; [reflexivity|]. rel_fields.
      * first [exact Hn | reflexivity].
      * reflexivity.
      * intros j. cbn [memN]. now rewrite Hc.
      * lia.
      * intros _. assert (Hx : (r_a r + 1 <? r_w r + 1) = true) by (apply N.ltb_lt; lia). rewrite Hx.
        split; [f_equal; lia|]. split; [exists len; split; [reflexivity|lia]|lia].
      * absurd_flag.
  - (* loss *)
    rewrite Hl. destruct (r_lost r) eqn:El; [exact I|].
    destruct (Hlive eq_refl) as (Hcur & (len & Hq & Hlen) & Hidle). rewrite Hcur, Hq.
    assert (Hout : (match (if r_a r <? r_w r then Some (r_a r) else None) with Some c => [c] | None => [] end)
                   ++ seqN (r_w r) len = seqN (r_a r) (N.to_nat (r_n r - r_a r))).
    { destruct (N.ltb_spec (r_a r) (r_w r)) as [Hlt|Hge].
      - replace (N.to_nat (r_n r - r_a r)) with (S len) by lia. cbn [seqN app]. do 2 f_equal. lia.
      - assert (len = 0%nat) by (assert (Hx : r_w r = r_a r) by lia; specialize (Hidle Hx); lia). subst len.
        replace (N.to_nat (r_n r - r_a r)) with 0%nat by lia. reflexivity. }
    rewrite Hout. unfold unresolved. rewrite (filter_ext_called _ _ _ Hc).
    split; [reflexivity|]. rel_fields.
    + first [exact Hn | reflexivity].
    + reflexivity.
    + intros j. rewrite !memN_app, Hc. reflexivity.
    + lia.
    + absurd_flag.
    + intros _. split; reflexivity.
Qed.

Lemma run_sim ops : forall m r, Rel m r -> m_run m ops = r_run r ops.
Proof.
  induction ops as [|o ops IH]; intros m r HR; [reflexivity|].
  cbn [m_run r_run]. pose proof (step_sim m r o HR) as H.
  destruct (m_step m o) as [[m' e1]|], (r_step r o) as [[r' e2]|]; try contradiction; [|reflexivity].
  destruct H as [-> HR']. now rewrite (IH m' r' HR').
Qed.

Theorem model_is_reference_cancel ops : q_run ops = q_ref ops.
Proof. apply run_sim. exact rel_init. Qed.

(* ---- what the reference machine guarantees (the property, at command level) ---- *)
Definition ev_res (e : qev) : list N := match e with QRes k _ => [k] | QWrote _ => [] end.
Definition res_ids (tr : list (list qev)) : list N := flat_map ev_res (concat tr).
Definition is_wrote (e : qev) : bool := match e with QWrote _ => true | _ => false end.

Fixpoint r_exec (s : rstate) (ops : list qop) : option (rstate * list (list qev)) :=
  match ops with
  | [] => Some (s, [])
  | o :: ops' =>
      match r_step s o with
      | None => None
      | Some (s', es) =>
          match r_exec s' ops' with
          | None => None
          | Some (s'', tr) => Some (s'', es :: tr)
          end
      end
  end.

Lemma r_exec_run s ops : r_run s ops = option_map snd (r_exec s ops).
Proof.
  revert s. induction ops as [|o ops IH]; intros s; [reflexivity|].
  cbn [r_run r_exec]. destruct (r_step s o) as [[s' es]|]; [|reflexivity].
  rewrite IH. destruct (r_exec s' ops) as [[s'' tr]|]; reflexivity.
Qed.

Lemma memN_In k l : memN k l = true <-> In k l.
Proof.
  induction l as [|x l IH]; cbn [memN In]; [split; [discriminate|tauto]|].
  rewrite orb_true_iff, IH, N.eqb_eq. tauto.
Qed.

Lemma seqN_In k lo len : In k (seqN lo len) <-> lo <= k < lo + N.of_nat len.
Proof.
  revert lo. induction len as [|len IH]; intros lo; cbn [seqN In].
  - split; [tauto|lia].
  - rewrite IH. lia.
Qed.

Lemma seqN_NoDup lo len : NoDup (seqN lo len).
Proof.
  revert lo. induction len as [|len IH]; intros lo; cbn [seqN]; constructor; [|apply IH].
  rewrite seqN_In. lia.
Qed.

Lemma res_ids_disc l : flat_map ev_res (map (fun k => QRes k QDisc) l) = l.
Proof. induction l as [|x l IH]; cbn; [reflexivity|now rewrite IH]. Qed.

Record WF (s : rstate) : Prop := {
  W_lt : forall k, memN k (r_res s) = true -> k < r_n s;
  W_ans : forall k, k < r_a s -> memN k (r_res s) = true;
  W_le : r_a s <= r_w s /\ r_w s <= r_n s;
  W_dead : r_lost s = true -> forall k, k < r_n s -> memN k (r_res s) = true
}.

Lemma wf_init : WF r_init.
Proof. constructor; cbn; try lia; intros; try discriminate; lia. Qed.

(* one step: what it resolves was unresolved, is resolved afterwards, nothing is forgotten *)
Lemma step_facts s o s' es : WF s -> r_step s o = Some (s', es) ->
  WF s' /\ NoDup (flat_map ev_res es) /\
  (forall k, In k (flat_map ev_res es) -> memN k (r_res s) = false) /\
  (forall k, memN k (r_res s') = true <-> memN k (r_res s) = true \/ In k (flat_map ev_res es)) /\
  (r_lost s = true -> r_lost s' = true /\ forallb (fun e => negb (is_wrote e)) es = true).
Proof.
  intros [Wlt Wans [Wle1 Wle2] Wdead] H. destruct o as [|k| |]; cbn [r_step] in H.
  - (* submit *)
    assert (Hnew : memN (r_n s) (r_res s) = false).
    { destruct (memN (r_n s) (r_res s)) eqn:E; [|reflexivity]. apply Wlt in E. lia. }
    destruct (r_lost s) eqn:El.
    + injection H as <- <-. split; [|split; [|split; [|split]]].
      * constructor; cbn [r_n r_res r_a r_w r_lost].
        -- intros k. cbn [memN]. rewrite orb_true_iff, N.eqb_eq. intros [<-|Hk]; [lia|]. apply Wlt in Hk. lia.
        -- intros k Hk. cbn [memN]. rewrite (Wans k Hk). apply orb_true_r.
        -- lia.
        -- intros _ k Hk. cbn [memN]. destruct (N.eqb_spec (r_n s) k) as [|Hne]; [reflexivity|].
           cbn [orb]. apply (Wdead eq_refl). lia.
      * cbn. constructor; [tauto|constructor].
      * cbn. intros k [<-|[]]. exact Hnew.
      * intros k. cbn [r_res memN flat_map ev_res app In]. rewrite orb_true_iff, N.eqb_eq. tauto.
      * intros _. split; reflexivity.
    + destruct (r_w s =? r_a s); injection H as <- <-.
      * split; [|split; [constructor|split; [intros k []|split; [intros k; cbn; tauto|intros Hx; discriminate Hx]]]].
        constructor; cbn [r_n r_res r_a r_w r_lost]; [intros k Hk; apply Wlt in Hk; lia|exact Wans|lia|intros Hx; discriminate Hx].
      * split; [|split; [constructor|split; [intros k []|split; [intros k; cbn; tauto|intros Hx; discriminate Hx]]]].
        constructor; cbn [r_n r_res r_a r_w r_lost]; [intros k Hk; apply Wlt in Hk; lia|exact Wans|lia|intros Hx; discriminate Hx].
  - (* cancel *)
    destruct ((k <? r_n s) && negb (memN k (r_res s))) eqn:E.
    + injection H as <- <-. apply andb_prop in E. destruct E as [E1 E2].
      apply N.ltb_lt in E1. apply negb_true_iff in E2.
      split; [|split; [|split; [|split]]].
      * constructor; cbn [r_n r_res r_a r_w r_lost].
        -- intros j. cbn [memN]. rewrite orb_true_iff, N.eqb_eq. intros [<-|Hj]; [exact E1|now apply Wlt].
        -- intros j Hj. cbn [memN]. rewrite (Wans j Hj). apply orb_true_r.
        -- lia.
        -- intros Hl j Hj. cbn [memN]. rewrite (Wdead Hl j Hj). apply orb_true_r.
      * cbn. constructor; [tauto|constructor].
      * cbn. intros j [<-|[]]. exact E2.
      * intros j. cbn [r_res memN flat_map ev_res app In]. rewrite orb_true_iff, N.eqb_eq. tauto.
      * intros Hl. split; [exact Hl|reflexivity].
    + injection H as <- <-.
      split; [constructor; [exact Wlt|exact Wans|lia|exact Wdead]|].
      split; [constructor|]. split; [intros j []|]. split; [intros j; cbn; tauto|].
      intros Hl. split; [exact Hl|reflexivity].
  - (* reply *)
    destruct (r_lost s) eqn:El; [discriminate H|]. cbn [orb] in H.
    destruct (N.ltb_spec (r_a s) (r_w s)) as [Hlt|Hge]; cbn [negb] in H; [|discriminate H].
    injection H as <- <-.
    assert (Hids : flat_map ev_res ((if memN (r_a s) (r_res s) then [] else [QRes (r_a s) QOk]) ++
                                   (if r_w s <? r_n s then [QWrote (r_w s)] else []))
                   = if memN (r_a s) (r_res s) then [] else [r_a s]).
    { destruct (memN (r_a s) (r_res s)); destruct (r_w s <? r_n s); reflexivity. }
    rewrite Hids.
    split; [|split; [|split; [|split]]].
    + constructor; cbn [r_n r_res r_a r_w r_lost].
      * intros j. cbn [memN]. rewrite orb_true_iff, N.eqb_eq. intros [<-|Hj]; [lia|now apply Wlt].
      * intros j Hj. cbn [memN]. destruct (N.eqb_spec (r_a s) j) as [|Hne]; [reflexivity|].
        cbn [orb]. apply Wans. lia.
      * destruct (N.ltb_spec (r_w s) (r_n s)); lia.
      * intros Hx; discriminate Hx.
    + destruct (memN (r_a s) (r_res s)); [constructor|constructor; [tauto|constructor]].
    + intros j Hj. destruct (memN (r_a s) (r_res s)) eqn:E; [destruct Hj|].
      destruct Hj as [<-|[]]. exact E.
    + intros j. cbn [r_res memN]. rewrite orb_true_iff, N.eqb_eq.
      destruct (memN (r_a s) (r_res s)) eqn:E; cbn [In]; [|tauto].
      split; [intros [<-|Hj]; [left; exact E|left; exact Hj]|intros [Hj|[]]; right; exact Hj].
    + intros Hx; discriminate Hx.
  - (* loss *)
    destruct (r_lost s) eqn:El; [discriminate H|]. injection H as <- <-.
    rewrite res_ids_disc. unfold unresolved.
    set (out := filter (fun k => negb (memN k (r_res s))) (seqN (r_a s) (N.to_nat (r_n s - r_a s)))).
    assert (Hout : forall j, In j out <-> (r_a s <= j < r_n s /\ memN j (r_res s) = false)).
    { intros j. unfold out. rewrite filter_In, seqN_In, negb_true_iff.
      split; intros [H1 H2]; (split; [lia|exact H2]). }
    split; [|split; [|split; [|split]]].
    + constructor; cbn [r_n r_res r_a r_w r_lost].
      * intros j. rewrite memN_app, orb_true_iff, memN_In, Hout. intros [[Hj _]|Hj]; [lia|now apply Wlt].
      * intros j Hj. rewrite memN_app, (Wans j Hj). apply orb_true_r.
      * lia.
      * intros _ j Hj. rewrite memN_app, orb_true_iff, memN_In, Hout.
        destruct (memN j (r_res s)) eqn:E; [right; reflexivity|left].
        split; [|reflexivity]. split; [|exact Hj].
        destruct (N.lt_ge_cases j (r_a s)) as [Hlt|Hge]; [|exact Hge].
        rewrite (Wans j Hlt) in E. discriminate E.
    + unfold out. apply NoDup_filter. apply seqN_NoDup.
    + intros j Hj. apply Hout in Hj. tauto.
    + intros j. cbn [r_res]. rewrite memN_app, orb_true_iff, memN_In. tauto.
    + intros Hx; discriminate Hx.
Qed.

Lemma NoDup_app_disj {A} (a b : list A) :
  NoDup a -> NoDup b -> (forall x, In x a -> ~ In x b) -> NoDup (a ++ b).
Proof.
  induction a as [|x a IH]; intros Ha Hb Hd; cbn [app]; [exact Hb|].
  inversion Ha as [|? ? Hx Ha']; subst. constructor.
  - rewrite in_app_iff. intros [H|H]; [exact (Hx H)|exact (Hd x (or_introl eq_refl) H)].
  - apply IH; [exact Ha'|exact Hb|]. intros y Hy. apply Hd. now right.
Qed.

Lemma exec_facts ops : forall s s' tr, WF s -> r_exec s ops = Some (s', tr) ->
  WF s' /\ NoDup (res_ids tr) /\
  (forall k, In k (res_ids tr) -> memN k (r_res s) = false) /\
  (forall k, memN k (r_res s') = true <-> memN k (r_res s) = true \/ In k (res_ids tr)) /\
  (r_lost s = true -> forallb (fun e => negb (is_wrote e)) (concat tr) = true).
Proof.
  induction ops as [|o ops IH]; intros s s' tr W H; cbn [r_exec] in H.
  - injection H as <- <-. unfold res_ids. cbn.
    split; [exact W|]. split; [constructor|]. split; [intros k []|]. split; [intros k; tauto|reflexivity].
  - destruct (r_step s o) as [[s1 es]|] eqn:E1; [|discriminate H].
    destruct (r_exec s1 ops) as [[s2 tr2]|] eqn:E2; [|discriminate H]. injection H as <- <-.
    destruct (step_facts s o s1 es W E1) as (W1 & N1 & D1 & M1 & L1).
    destruct (IH s1 s2 tr2 W1 E2) as (W2 & N2 & D2 & M2 & L2).
    unfold res_ids in *. cbn [concat]. rewrite flat_map_app.
    split; [exact W2|]. split; [|split; [|split]].
    + apply NoDup_app_disj; [exact N1|exact N2|].
      intros k Hk Hk2. apply D2 in Hk2. assert (Hm : memN k (r_res s1) = true) by (apply M1; now right).
      rewrite Hm in Hk2. discriminate Hk2.
    + intros k Hk. apply in_app_iff in Hk. destruct Hk as [Hk|Hk]; [now apply D1|].
      apply D2 in Hk. destruct (memN k (r_res s)) eqn:E; [|reflexivity].
      assert (Hm : memN k (r_res s1) = true) by (apply M1; now left). rewrite Hm in Hk. discriminate Hk.
    + intros k. rewrite M2, M1, in_app_iff. tauto.
    + intros Hl. destruct (L1 Hl) as [Hl1 Hw]. rewrite forallb_app, Hw. cbn [andb]. exact (L2 Hl1).
Qed.

(* the count of submissions *)
Fixpoint n_submits (ops : list qop) : N :=
  match ops with [] => 0 | QSubmit :: r => 1 + n_submits r | _ :: r => n_submits r end.

Lemma step_n s o s' es : r_step s o = Some (s', es) ->
  r_n s' = r_n s + (match o with QSubmit => 1 | _ => 0 end) /\
  (match o with QLose => r_lost s' = true | _ => True end) /\ (r_lost s = true -> r_lost s' = true).
Proof.
  destruct o as [|k| |]; cbn [r_step]; intros H.
  - destruct (r_lost s); [|destruct (r_w s =? r_a s)]; injection H as <- <-; cbn; (split; [lia|split; [exact I|auto]]).
  - destruct (_ && _); injection H as <- <-; cbn; (split; [lia|split; [exact I|auto]]).
  - destruct (r_lost s) eqn:El; cbn [orb] in H; [discriminate H|].
    destruct (negb (r_a s <? r_w s)); [discriminate H|]. injection H as <- <-. cbn.
    split; [lia|split; [exact I|intros Hx; discriminate Hx]].
  - destruct (r_lost s); [discriminate H|]. injection H as <- <-. cbn. split; [lia|split; auto].
Qed.

Lemma exec_n ops : forall s s' tr, r_exec s ops = Some (s', tr) ->
  r_n s' = r_n s + n_submits ops /\ ((In QLose ops \/ r_lost s = true) -> r_lost s' = true).
Proof.
  induction ops as [|o ops IH]; intros s s' tr H; cbn [r_exec] in H.
  - injection H as <- <-. cbn. split; [lia|]. intros [[]|Hl]; exact Hl.
  - destruct (r_step s o) as [[s1 es]|] eqn:E1; [|discriminate H].
    destruct (r_exec s1 ops) as [[s2 tr2]|] eqn:E2; [|discriminate H]. injection H as <- <-.
    destruct (step_n s o s1 es E1) as (Hn & Hlose & Hkeep). destruct (IH s1 s2 tr2 E2) as [Hn2 Hl2].
    split; [destruct o; cbn [n_submits]; lia|].
    intros [[Ho|Hin]|Hl]; apply Hl2; [right; subst o; exact Hlose|left; exact Hin|right; exact (Hkeep Hl)].
Qed.

(* the property at command level, for every operation sequence of the envelope *)
Theorem cancel_resolved_at_most_once ops tr : q_ref ops = Some tr -> NoDup (res_ids tr).
Proof.
  unfold q_ref. rewrite r_exec_run. destruct (r_exec r_init ops) as [[s' tr']|] eqn:E; [|discriminate].
  cbn. intros H. injection H as <-. exact (proj1 (proj2 (exec_facts ops _ _ _ wf_init E))).
Qed.

Theorem cancel_all_resolved_after_loss ops tr : q_ref ops = Some tr -> In QLose ops ->
  forall k, k < n_submits ops -> In k (res_ids tr).
Proof.
  unfold q_ref. rewrite r_exec_run. destruct (r_exec r_init ops) as [[s' tr']|] eqn:E; [|discriminate].
  cbn. intros H Hl k Hk. injection H as <-.
  destruct (exec_facts ops _ _ _ wf_init E) as (W & _ & _ & M & _).
  destruct (exec_n ops _ _ _ E) as [Hn Hlost]. cbn in Hn.
  assert (Hm : memN k (r_res s') = true) by (apply (W_dead _ W); [apply Hlost; now left|lia]).
  apply M in Hm. destruct Hm as [Hm|Hm]; [discriminate Hm|exact Hm].
Qed.

Lemma r_exec_app a : forall s b,
  r_exec s (a ++ b) = match r_exec s a with
                      | None => None
                      | Some (s1, t1) => match r_exec s1 b with None => None | Some (s2, t2) => Some (s2, t1 ++ t2) end
                      end.
Proof.
  induction a as [|o a IH]; intros s b; cbn [app r_exec].
  - destruct (r_exec s b) as [[s2 t2]|]; reflexivity.
  - destruct (r_step s o) as [[s1 es]|]; [|reflexivity]. rewrite IH.
    destruct (r_exec s1 a) as [[s2 t1]|]; [|reflexivity].
    destruct (r_exec s2 b) as [[s3 t2]|]; reflexivity.
Qed.

Lemma no_wrote_disc l : forallb (fun e => negb (is_wrote e)) (map (fun k => QRes k QDisc) l) = true.
Proof. induction l as [|x l IH]; [reflexivity|exact IH]. Qed.

Theorem cancel_nothing_written_after_loss pre post tr :
  q_ref (pre ++ QLose :: post) = Some tr ->
  forallb (fun e => negb (is_wrote e)) (concat (skipn (length pre) tr)) = true.
Proof.
  unfold q_ref. rewrite r_exec_run, r_exec_app.
  destruct (r_exec r_init pre) as [[s1 t1]|] eqn:E1; [|discriminate].
  destruct (r_exec s1 (QLose :: post)) as [[s2 t2]|] eqn:E2; [|discriminate].
  cbn [option_map snd]. intros H. injection H as <-.
  assert (Hlen : length t1 = length pre).
  { clear E2. revert s1 t1 E1. generalize r_init. induction pre as [|o pre IH]; intros s0 s1 t1 E1; cbn [r_exec] in E1.
    - now injection E1 as <- <-.
    - destruct (r_step s0 o) as [[sa es]|]; [|discriminate E1].
      destruct (r_exec sa pre) as [[sb tb]|] eqn:Eb; [|discriminate E1]. injection E1 as <- <-.
      cbn [length]. f_equal. exact (IH _ _ _ Eb). }
  rewrite <- Hlen, skipn_app, Nat.sub_diag, skipn_all. cbn [app skipn].
  cbn [r_exec] in E2. destruct (r_step s1 QLose) as [[sa es]|] eqn:Es; [|discriminate E2].
  destruct (r_exec sa post) as [[sb tb]|] eqn:Eb; [|discriminate E2]. injection E2 as <- <-.
  cbn [concat]. rewrite forallb_app. apply andb_true_intro. split.
  - cbn [r_step] in Es. destruct (r_lost s1); [discriminate Es|]. injection Es as <- <-.
    apply no_wrote_disc.
  - assert (Hl : r_lost sa = true) by (exact (proj1 (proj2 (step_n _ _ _ _ Es)))).
    assert (Wf1 : WF s1) by (exact (proj1 (exec_facts pre _ _ _ wf_init E1))).
    assert (Wfa : WF sa) by (exact (proj1 (step_facts _ _ _ _ Wf1 Es))).
    exact (proj2 (proj2 (proj2 (proj2 (exec_facts post _ _ _ Wfa Eb)))) Hl).
Qed.
