(* C04: the model satisfies the oracle: a simulation between the model's phase and the
   reference monitor of Spec/C04Oracle.v, stimulus by stimulus. Part 1: the relation. *)
From Coq Require Import List Bool Ascii Arith NArith Lia String.
From TxVerif Require Import Lib.Bytes Lib.Hex Spec.C04 Spec.C04Oracle Gen.AuthConsts Model.Auth
  Proofs.C04Unescape Proofs.C04Parse Proofs.C04Auth.
Import ListNotations.
Open Scope N_scope.

Definition mk (out : list cmd) (pi lost settled acc att pww : bool) (pw proof : option bytes)
  (done : list bytes) : mon :=
  {| m_out := out; m_pi := pi; m_lost := lost; m_settled := settled; m_accepted := acc;
     m_attempt := att; m_pwwait := pww; m_pw := pw; m_proof := proof; m_done := done |}.

Definition mon_proto : mon := mk [CProtoInfo] false false false false false false None None [].
Definition mon_chal (e : env) : mon :=
  mk [CChal (e_nonce e)] true false false false true false None None [].
Definition mon_pw (l : bool) : mon := mk [] true l false false true true None None [].
Definition mon_auth (a : option bytes) : mon :=
  mk [CAuth a] true false false false true false None None [].

(* k-th bootstrap command as the oracle reads it, and its requirement tag *)
Definition boot_cmd (k : nat) : cmd :=
  match k with
  | 0%nat => CGetInfo I_SIGNAL | 1%nat => CGetInfo I_VERSION | 2%nat => CGetInfo I_EVENTS
  | _ => CUseFeature
  end.
Definition boot_done (k : nat) : list bytes :=
  match k with
  | 0%nat => [] | 1%nat => [I_SIGNAL] | 2%nat => [I_VERSION; I_SIGNAL]
  | _ => [I_EVENTS; I_VERSION; I_SIGNAL]
  end.
Definition mon_boot (k : nat) : mon :=
  mk [boot_cmd k] true false false true true false None None (boot_done k).

Definition R (e : env) (s : st) (m : mon) : Prop :=
  match ph s with
  | PhProto => m = mon_proto /\ lost s = false
  | PhChal c => m = mon_chal e /\ expected e = Some MSafe /\ good_cookie e = Some c /\ lost s = false
  | PhPw => m = mon_pw (lost s) /\ expected e = Some MPassword /\ exists pw, e_provider e = PLater pw
  | PhAuth => (exists a, m = mon_auth a) /\ lost s = false
  | PhBoot k => (k < 4)%nat /\ m = mon_boot k /\ lost s = false
  | PhIdle => m_settled m = true
  end.

Definition good (e : env) (s' : st) (v : verd) : Prop :=
  match v with Bad => False | Stop => True | Go m' => R e s' m' end.

(* the hypothesis on the equality test compare_via_hash: no collision under its key *)
Definition cmp_injective (hmac : bytes -> bytes -> bytes) (e : env) : Prop :=
  forall x y, hmac (e_cmpkey e) x = hmac (e_cmpkey e) y -> x = y.

Lemma nlen_32 (l : bytes) : List.length l = 32%nat -> (nlen l =? 32) = true.
Proof. intros H. unfold nlen. rewrite H. reflexivity. Qed.

(* the bootstrap lines as the oracle reads them *)
Lemma parse_boot k c key t : nth_error bootstrap_seq k = Some (c, key, t) ->
  parse_line (bs c ++ [CR; LF]) = boot_cmd k /\ (k < 4)%nat.
Proof.
  destruct k as [|[|[|[|k]]]]; cbn [nth_error bootstrap_seq]; intros H; try discriminate;
    [injection H as <- _ _ ..|destruct k; discriminate];
    (split; [vm_compute; reflexivity|lia]).
Qed.
