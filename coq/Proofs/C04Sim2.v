(* C04 simulation, part 2: PROTOCOLINFO phase. *)
From Coq Require Import List Bool Ascii Arith NArith Lia String.
From TxVerif Require Import Lib.Bytes Lib.Hex Spec.C04 Spec.C04Oracle Gen.AuthConsts Model.Auth
  Proofs.C04Unescape Proofs.C04Parse Proofs.C04Auth Proofs.C04Sim.
Import ListNotations.
Open Scope N_scope.

Lemma expected_cookie_good e m : expected e = Some m -> m = MSafe \/ m = MCookie ->
  exists c, good_cookie e = Some c.
Proof.
  unfold expected. destruct (good_cookie e) as [c|]; [eauto|].
  destruct (adv e K_HASHEDPASSWORD && has_provider e); [intros [= <-] [|]; discriminate|].
  destruct (adv e K_NULL); [intros [= <-] [|]; discriminate|discriminate].
Qed.

Lemma expected_pw_nocookie e : expected e = Some MPassword -> good_cookie e = None.
Proof.
  unfold expected. destruct (good_cookie e); [destruct (adv e K_SAFECOOKIE); discriminate|reflexivity].
Qed.

Lemma expected_pw_provider e : expected e = Some MPassword -> has_provider e = true.
Proof.
  unfold expected. destruct (good_cookie e); [destruct (adv e K_SAFECOOKIE); discriminate|].
  destruct (adv e K_HASHEDPASSWORD); cbn [andb]; [destruct (has_provider e); [reflexivity|]|];
    destruct (adv e K_NULL); discriminate.
Qed.

Lemma may_give_up_eq e : may_give_up e =
  match expected e with
  | None => true | Some MSafe | Some MCookie => false | Some _ => cookie_advertised e end.
Proof. reflexivity. Qed.

Lemma pw_gives_up_adv e : pw_gives_up e = true -> cookie_advertised e = true.
Proof. unfold pw_gives_up. destruct (cookie_advertised e); [reflexivity|discriminate]. Qed.

Local Opaque expected good_cookie may_give_up cookie_advertised
  parse_line bs hex hex_lower hex_upper.

Lemma pl_chal n : parse_line ((bs "AUTHCHALLENGE SAFECOOKIE " ++ hex_lower n) ++ [CR; LF]) = CChal n.
Proof. rewrite parse_line_crlf. apply parse_challenge. Qed.
Lemma pl_auth u a : parse_line ((bs "AUTHENTICATE " ++ hex u a) ++ [CR; LF]) = CAuth (Some a).
Proof. rewrite parse_line_crlf. apply parse_authenticate_arg. Qed.
Lemma pl_auth_lower a : parse_line ((bs "AUTHENTICATE " ++ hex_lower a) ++ [CR; LF]) = CAuth (Some a).
Proof. exact (pl_auth false a). Qed.
Lemma pl_auth_upper a : parse_line ((bs "AUTHENTICATE " ++ hex_upper a) ++ [CR; LF]) = CAuth (Some a).
Proof. exact (pl_auth true a). Qed.
Lemma pl_null : parse_line (bs "AUTHENTICATE" ++ [CR; LF]) = CAuth None.
Proof. rewrite parse_line_crlf. apply parse_authenticate_null. Qed.

Ltac go := cbv -[nlen N.eqb beqb pi_auth pi_methods pi_cookiefile e_pi e_fs e_provider e_nonce e_cmpkey app CR LF]; cbn [app].
Ltac pl := rewrite ?pl_chal, ?pl_auth_lower, ?pl_auth_upper, ?pl_null, ?beqb_refl.

Section Sim.
  Variable hmac : bytes -> bytes -> bytes.
  Variable e : env.
  Hypothesis Hwf : wf e.

  Lemma nonce32 : (nlen (e_nonce e) =? 32) = true.
  Proof. apply nlen_32. apply Hwf. Qed.

  Ltac hyps := repeat match goal with H : ?x = _ |- context[?x] => rewrite H end.
  Ltac fin := repeat split; eauto 6; try reflexivity.
  Ltac crunch := repeat (progress (go; pl; hyps; rewrite ?nonce32, ?may_give_up_eq)).

  (* the model's reaction to the PROTOCOLINFO reply is accepted by the monitor *)
  Lemma sim_proto_ok :
    pi_auth (e_pi e) = true ->
    let '(p, evs) := authenticate_spec e in
    good e {| ph := p; lost := false |} (C04Oracle.step hmac e mon_proto (OOk DProto) evs).
  Proof.
    intros Hauth. unfold authenticate_spec.
    destruct (expected e) as [[| | |]|] eqn:Eexp.
    - (* SAFECOOKIE *)
      destruct (expected_cookie_good e _ Eexp (or_introl eq_refl)) as [c Egc]. rewrite Egc.
      unfold chal_line. crunch. fin.
    - (* COOKIE *)
      destruct (expected_cookie_good e _ Eexp (or_intror eq_refl)) as [c Egc]. rewrite Egc.
      unfold auth_line. crunch. fin.
    - (* password *)
      pose proof (expected_pw_provider e Eexp) as Hprov. unfold has_provider in Hprov.
      destruct (pw_gives_up e) eqn:Egu.
      + pose proof (pw_gives_up_adv e Egu) as Hadv. crunch. fin.
      + unfold pw_action, do_password, auth_line.
        destruct (e_provider e) as [| |pw|pw|pw|] eqn:Ep; try discriminate;
          try destruct pw; crunch; fin.
    - (* NULL *)
      destruct (cookie_advertised e) eqn:Eadv; crunch; fin.
    - crunch. fin.
  Qed.
End Sim.
