(* C04: clause-by-clause statements proved directly on the model (all environments, all
   stimulus sequences), independent of the monitor. Part 1: the ready notification. *)
From Coq Require Import List Bool Ascii Arith NArith Lia String.
From TxVerif Require Import Lib.Bytes Lib.Hex Spec.C04 Spec.C04Oracle Gen.AuthConsts Model.Auth.
Import ListNotations.
Open Scope N_scope.

Definition n_ready (es : list ev) : nat := List.length (readys es).

(* a result either settles (phase Idle, exactly one notification) or does not (none) *)
Definition shape (r : res) : Prop :=
  match fst r with
  | PhIdle => n_ready (snd r) = 1%nat
  | _ => n_ready (snd r) = 0%nat
  end.

Ltac sh := unfold shape, n_ready; cbn; reflexivity.

Lemma shape_fail k c : shape (fail k c).
Proof. sh. Qed.

Lemma shape_password pw l : shape (do_password pw l).
Proof. destruct pw as [[|a pw]|]; destruct l; sh. Qed.

Lemma shape_start_boot k : shape (start_boot k).
Proof. destruct k as [|[|[|[|[|k]]]]]; sh. Qed.

Lemma shape_challenge hmac e ck ch : shape (do_challenge hmac e ck ch).
Proof.
  unfold do_challenge.
  destruct (ch_hash ch); [|sh]. destruct (b16decode _); [|sh].
  destruct (ch_nonce ch); [|sh]. destruct (b16decode _); [|sh].
  match goal with |- context[if ?b then _ else _] => destruct b end; sh.
Qed.

Lemma shape_pwcall r : shape r -> shape (let '(p, evs) := r in (p, EPwCall :: evs)).
Proof. destruct r as [p evs]. exact (fun H => H). Qed.

Lemma shape_authenticate e r : do_authenticate e = Some r -> shape r.
Proof.
  unfold do_authenticate.
  destruct (negb (pi_auth (e_pi e))); [intros [= <-]; sh|].
  destruct (read_cookie e) as [| | |d]; try discriminate; try (intros [= <-]; sh);
    destruct (select e auth_order _) as [[| | |]|]; try (intros [= <-]; sh);
    (destruct (e_provider e) as [| |pw|pw|pw|]; unfold do_password; try destruct pw as [|a pw];
     intros [= <-]; sh).
Qed.

Lemma shape_on_reply hmac e p o r : Auth.on_reply hmac e p o = Some r -> shape r.
Proof.
  destruct p as [|ck| | |k|], o as [d|c| |]; cbn [Auth.on_reply]; try discriminate.
  - destruct d; try (intros [= <-]; sh). apply shape_authenticate.
  - intros [= <-]. sh.
  - destruct d; intros [= <-]; try sh. apply shape_challenge.
  - intros [= <-]. sh.
  - intros [= <-]. apply shape_start_boot.
  - intros [= <-]. sh.
  - destruct (nth_error bootstrap_seq k) as [[[c key] t]|]; [|discriminate].
    destruct key; [intros [= <-]; apply shape_start_boot|].
    destruct d; try (intros [= <-]; sh).
    match goal with |- context[if ?b then _ else _] => destruct b end;
      intros [= <-]; [apply shape_start_boot|sh].
  - destruct (nth_error bootstrap_seq k) as [[[c' key] [|]]|]; try discriminate;
      intros [= <-]; [apply shape_start_boot|sh].
Qed.

(* one stimulus: from Idle nothing more is notified; otherwise the step settles iff it ends Idle *)
Lemma step_ready hmac e s o s' evs : Auth.step hmac e s o = Some (s', evs) ->
  match ph s with
  | PhIdle => ph s' = PhIdle /\ n_ready evs = 0%nat
  | _ => shape (ph s', evs)
  end.
Proof.
  destruct s as [p l]. destruct o as [d|c| |]; cbn [Auth.step ph lost].
  - destruct l; [discriminate|]. cbn [orb].
    destruct (in_flight p) eqn:Ef; [|discriminate]. cbn [negb].
    destruct (Auth.on_reply hmac e p (OOk d)) as [[p' evs']|] eqn:Er; [|discriminate].
    intros [= <- <-]. apply shape_on_reply in Er. destruct p; try discriminate; exact Er.
  - destruct l; [discriminate|]. cbn [orb].
    destruct (in_flight p) eqn:Ef; [|discriminate]. cbn [negb orb].
    destruct (negb _); [discriminate|].
    destruct (Auth.on_reply hmac e p (OErr c)) as [[p' evs']|] eqn:Er; [|discriminate].
    intros [= <- <-]. apply shape_on_reply in Er. destruct p; try discriminate; exact Er.
  - destruct l; [discriminate|].
    destruct p; cbn [in_flight]; intros [= <- <-]; cbn; auto.
  - destruct p; try discriminate. destruct (e_provider e); try discriminate.
    pose proof (shape_password pw l) as H. destruct (do_password pw l) as [p' evs'].
    intros [= <- <-]. exact H.
Qed.
