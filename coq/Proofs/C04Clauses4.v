(* C04 clauses, part 4: nothing but authentication commands before acceptance (step level,
   every state); under SAFECOOKIE the only AUTHENTICATE argument ever written is a client
   proof (whole histories). *)
From Coq Require Import List Bool Ascii Arith NArith Lia String.
From TxVerif Require Import Lib.Bytes Lib.Hex Spec.C04 Spec.C04Oracle Gen.AuthConsts Model.Auth
  Proofs.C04Unescape Proofs.C04Parse Proofs.C04Auth Proofs.C04Sim Proofs.C04Sim2 Proofs.C04Sim4
  Proofs.C04Clauses3.
Import ListNotations.
Open Scope N_scope.

Local Opaque bs hex hex_lower hex_upper parse_line.

Definition is_auth_cmd (c : cmd) : bool :=
  match c with CProtoInfo | CChal _ | CAuth _ => true | _ => false end.
Definition writes_auth (evs : list ev) : Prop :=
  forall b, In (EWrote b) evs -> is_auth_cmd (parse_line b) = true.

Lemma wa_nil : writes_auth [].
Proof. intros b []. Qed.
Lemma wa_cons_other x evs : (forall b, x <> EWrote b) -> writes_auth evs -> writes_auth (x :: evs).
Proof. intros Hx H b [->|Hin]; [exfalso; eapply Hx; reflexivity|auto]. Qed.
Lemma wa_line x : is_auth_cmd (parse_line (x ++ [CR; LF])) = true -> writes_auth [line x].
Proof. intros H b [[= <-]|[]]. exact H. Qed.
Lemma wa_ready o : writes_auth [EReady o].
Proof. apply wa_cons_other; [discriminate|apply wa_nil]. Qed.

Lemma wa_auth_line a : writes_auth [auth_line a].
Proof. apply wa_line. rewrite pl_auth_lower. reflexivity. Qed.

Lemma wa_password pw l : writes_auth (snd (do_password pw l)).
Proof. destruct pw as [[|a pw]|]; destruct l; cbn [do_password fail snd]; try apply wa_ready. apply wa_auth_line. Qed.

Lemma wa_authenticate e r : do_authenticate e = Some r -> writes_auth (snd r).
Proof.
  unfold do_authenticate.
  destruct (negb (pi_auth (e_pi e))); [intros [= <-]; apply wa_ready|].
  destruct (read_cookie e) as [| | |d]; try discriminate; try (intros [= <-]; apply wa_ready);
    destruct (select e auth_order _) as [[| | |]|]; try (intros [= <-]; cbn [snd fail]; try apply wa_ready;
      try apply wa_auth_line; apply wa_line; rewrite ?pl_chal, ?pl_null; reflexivity);
    (destruct (e_provider e) as [| |pw|pw|pw|];
     try (pose proof (wa_password (Some pw) false) as Hp; destruct (do_password (Some pw) false));
     try (pose proof (wa_password None false) as Hp; destruct (do_password None false));
     intros [= <-]; cbn [snd] in *; apply wa_cons_other; try discriminate; try assumption; apply wa_nil).
Qed.

Lemma wa_challenge hmac e ck ch : writes_auth (snd (do_challenge hmac e ck ch)).
Proof.
  unfold do_challenge.
  destruct (ch_hash ch); [|apply wa_ready]. destruct (b16decode _); [|apply wa_ready].
  destruct (ch_nonce ch); [|apply wa_ready]. destruct (b16decode _); [|apply wa_ready].
  match goal with |- context[if ?b then _ else _] => destruct b end; [|apply wa_ready].
  apply wa_line. rewrite pl_auth_upper. reflexivity.
Qed.

(* every state: a step taken before acceptance, other than the acceptance itself, writes only
   PROTOCOLINFO / AUTHCHALLENGE / AUTHENTICATE *)
Theorem pre_accept_only_auth hmac e s o s' evs :
  Auth.step hmac e s o = Some (s', evs) ->
  match ph s with PhBoot _ => False | _ => True end ->
  ~ (ph s = PhAuth /\ exists d, o = OOk d) ->
  writes_auth evs.
Proof.
  destruct s as [p l]. cbn [ph]. intros Hs Hb Hacc.
  destruct o as [d|c| |]; cbn [Auth.step ph lost] in Hs.
  - destruct l; [discriminate|]. cbn [orb] in Hs. destruct (in_flight p) eqn:Ef; [|discriminate].
    cbn [negb] in Hs.
    destruct p as [|ck| | |k|]; try discriminate; try tauto; cbn [Auth.on_reply] in Hs.
    + destruct d; try (injection Hs as <- <-; apply wa_ready).
      destruct (do_authenticate e) as [[p' evs']|] eqn:Ea; [|discriminate]. injection Hs as <- <-.
      exact (wa_authenticate e _ Ea).
    + destruct d; try (injection Hs as <- <-; apply wa_ready).
      pose proof (wa_challenge hmac e ck c) as H. destruct (do_challenge hmac e ck c).
      injection Hs as <- <-. exact H.
    + exfalso. apply Hacc. eauto.
  - destruct l; [discriminate|]. cbn [orb] in Hs. destruct (in_flight p) eqn:Ef; [|discriminate].
    cbn [negb orb] in Hs. destruct (negb _); [discriminate|].
    destruct p as [|ck| | |k|]; try discriminate; try tauto; cbn [Auth.on_reply] in Hs;
      injection Hs as <- <-; apply wa_ready.
  - destruct l; [discriminate|]. destruct (in_flight p); injection Hs as <- <-;
      [apply wa_ready|apply wa_nil].
  - destruct p; try discriminate. destruct (e_provider e); try discriminate.
    pose proof (wa_password pw l) as H. destruct (do_password pw l). injection Hs as <- <-. exact H.
Qed.
