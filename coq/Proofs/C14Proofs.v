(* C14: what Tor reads from the ADD_ONION that _add_ephemeral_service assembles; key custody;
   DEL_ONION (proofs). *)
From Coq Require Import String.
From Coq Require Import List Bool Ascii Arith NArith Lia.
From TxVerif Require Import Lib.Bytes Lib.Split Lib.Decimal Lib.PyStr Gen.OnionTable Spec.TorGrammar Spec.C14
  Model.AddOnion Proofs.AsciiFacts Proofs.SplitProofs.
Import ListNotations.
Open Scope N_scope.

(* ------------------------------------------------------------------------------------------
   A. numbers and characters
   ------------------------------------------------------------------------------------------ *)
Lemma py_int_of_parse s n : parse_dec s = Some n -> py_int s = Ok (Some n).
Proof. intros H. unfold py_int. now rewrite H. Qed.

Lemma py_int_ok s n : py_int s = Ok (Some n) -> parse_dec s = Some n.
Proof.
  unfold py_int. destruct (parse_dec s) as [m|]; [congruence|].
  destruct s; [discriminate|]. destruct (existsb _ _); discriminate.
Qed.

Lemma surely_not_maybe : forall c, surely_not_numeric c = true -> negb (int_maybe_char c) = true.
Proof. exact (ascii_impl surely_not_numeric (fun c => negb (int_maybe_char c)) ltac:(vm_compute; reflexivity)). Qed.

Lemma num_bad_py_int s : num_class s = NumBad -> py_int s = Ok None.
Proof.
  unfold num_class, py_int. destruct (parse_dec s); [discriminate|].
  destruct s as [|c s]; [reflexivity|]. cbn [is_nil orb].
  destruct (existsb surely_not_numeric (c :: s)) eqn:E; [|discriminate]. intros _.
  apply existsb_exists in E as (x & Hx & Hs).
  replace (existsb (fun c0 => negb (int_maybe_char c0)) (c :: s)) with true; [reflexivity|].
  symmetry. apply existsb_exists. exists x. split; [exact Hx|]. now apply surely_not_maybe.
Qed.

Lemma num_ok_parse s n : num_class s = NumOk n -> parse_dec s = Some n.
Proof.
  unfold num_class. destruct (parse_dec s); [congruence|]. destruct (_ || _); discriminate.
Qed.

Lemma parse_num_ok s n : parse_dec s = Some n -> num_class s = NumOk n.
Proof. intros H. unfold num_class. now rewrite H. Qed.

Lemma digits_no c s : is_digit c = false -> forallb is_digit s = true -> memb c s = false.
Proof.
  intros Hc. induction s as [|x s IH]; intros H; [reflexivity|]. cbn [forallb] in H.
  apply andb_true_iff in H as [H1 H2]. cbn [memb]. rewrite IH by exact H2. rewrite orb_false_r.
  apply Ascii.eqb_neq. intros ->. congruence.
Qed.

Lemma digits_tok a : a <> [] -> forallb is_digit a = true -> forallb clean_char a = true.
Proof.
  intros _ H. apply forallb_forall. intros c Hc. rewrite forallb_forall in H.
  exact (ascii_impl is_digit clean_char ltac:(vm_compute; reflexivity) c (H c Hc)).
Qed.

Lemma dec_digits n : forallb is_digit (dec_of_N n) = true.
Proof. now destruct (dec_of_N_spec n) as (_ & H & _). Qed.
Lemma dec_parse n : parse_dec (dec_of_N n) = Some n.
Proof. now destruct (dec_of_N_spec n) as (_ & _ & H). Qed.
Lemma dec_nonnil n : dec_of_N n <> [].
Proof. now destruct (dec_of_N_spec n) as (H & _). Qed.

(* ------------------------------------------------------------------------------------------
   B. one port mapping: the model's validators against the Spec's reading of the request
   ------------------------------------------------------------------------------------------ *)
Definition is_mapping (c : pclass) (v : N) (t : bytes) : Prop := c = PCGood v t \/ c = PCEither v t.

Lemma target_class_mapping v0 t0 fl v t : is_mapping (target_class v0 t0 fl) v t -> v = v0 /\ t = t0.
Proof.
  unfold target_class, is_mapping.
  destruct (prefixb (lit "unix:/") t0); [intros [H|H]; inversion H; auto|].
  destruct (prefixb (lit "unix:") t0); [intros [H|H]; inversion H; auto|].
  destruct (negb (memb COLON t0)); [intros [H|H]; discriminate|].
  destruct (split_all COLON t0) as [|ip [|port [|x r]]]; try (intros [H|H]; inversion H; auto; fail).
  destruct (_ && _); intros [H|H]; inversion H; auto.
Qed.

Lemma validate_single_ok s loc : validate_single s loc = Ok tt ->
  exists ex it n, split_all SP s = [ex; it] /\ parse_dec ex = Some n.
Proof.
  unfold validate_single. destruct (negb (memb SP s)); [discriminate|].
  destruct (split_all SP s) as [|ex [|it [|x r]]]; try discriminate.
  destruct (py_int ex) as [[n|]|k|] eqn:P; try discriminate.
  intros _. exists ex, it, n. split; [reflexivity|]. now apply py_int_ok.
Qed.

Lemma split_two_first s a b : split_all SP s = [a; b] -> split_first SP s = Some (a, b).
Proof. intros H. apply split_all_two in H as (-> & M & _). now apply split_first_app. Qed.

Lemma sp_not_digit : is_digit SP = false.       Proof. reflexivity. Qed.
Lemma comma_not_digit : is_digit COMMA = false. Proof. reflexivity. Qed.
Lemma colon_not_digit : is_digit COLON = false. Proof. reflexivity. Qed.

Lemma port_agree p free s loc free' c free'' v t :
  process_port p free = Ok (s, loc, free') -> port_class p free = (c, free'') -> is_mapping c v t ->
  free'' = free' /\ exists a, split_first SP s = Some (a, t) /\ parse_dec a = Some v /\ forallb is_digit a = true.
Proof.
  destruct p as [n | r l | ps fl]; cbn [process_port port_class].
  - destruct free as [|f fr]; [discriminate|]. intros [= <- <- <-] [= <- <-] HM.
    assert (E : v = n /\ t = loopback f) by (destruct HM as [H|H]; inversion H; auto). destruct E as [-> ->].
    split; [reflexivity|]. exists (dec_of_N n). unfold loopback.
    rewrite split_first_app by (apply digits_no; [reflexivity|apply dec_digits]).
    repeat split; [apply dec_parse|apply dec_digits].
  - intros HP HC HM.
    assert (R : exists rn, (match r with NInt n => Ok (Some n) | NStr s0 => py_int s0 end) = Ok (Some rn)
                           /\ (match r with NInt n => NumOk n | NStr s0 => num_class s0 end) = NumOk rn).
    { destruct r as [n|s0]; [eauto|]. destruct (py_int s0) as [[rn|]|k|] eqn:P; try discriminate.
      exists rn. split; [reflexivity|]. apply parse_num_ok. now apply py_int_ok. }
    destruct R as (rn & R1 & R2). rewrite R1 in HP. rewrite R2 in HC.
    assert (D : forall m, Ok (dec_of_N rn ++ SP :: lit "127.0.0.1:" ++ dec_of_N m, true, free) = Ok (s, loc, free') ->
                c = PCGood rn (loopback m) -> free'' = free ->
                free'' = free' /\ exists a, split_first SP s = Some (a, t) /\ parse_dec a = Some v /\ forallb is_digit a = true).
    { intros m [= <- <- <-] -> ->.
      assert (E : v = rn /\ t = loopback m) by (destruct HM as [H|H]; inversion H; auto). destruct E as [-> ->].
      split; [reflexivity|]. exists (dec_of_N rn). unfold loopback.
      rewrite split_first_app by (apply digits_no; [reflexivity|apply dec_digits]).
      repeat split; [apply dec_parse|apply dec_digits]. }
    destruct l as [m | lt lfl].
    + injection HC as <- <-. now apply (D m).
    + destruct (num_class lt) as [m| |] eqn:NC.
      * rewrite (py_int_of_parse _ _ (num_ok_parse _ _ NC)) in HP. injection HC as <- <-. now apply (D m).
      * rewrite (num_bad_py_int _ NC) in HP. injection HC as <- <-.
        apply target_class_mapping in HM as [-> ->].
        assert (K : Ok (dec_of_N rn ++ SP :: lt, lfl, free) = Ok (s, loc, free')).
        { destruct (prefixb (lit "unix:/") lt); [exact HP|]. destruct (negb (memb COLON lt)); [discriminate|].
          destruct (split_all COLON lt) as [|x1 [|x2 [|x3 r3]]]; try discriminate. exact HP. }
        injection K as <- <- <-. split; [reflexivity|]. exists (dec_of_N rn).
        rewrite split_first_app by (apply digits_no; [reflexivity|apply dec_digits]).
        repeat split; [apply dec_parse|apply dec_digits].
      * injection HC as <- <-. destruct HM as [H|H]; discriminate.
  - intros HP HC HM. destruct (validate_single ps fl) as [[]|k|] eqn:V; try discriminate.
    injection HP as <- <- <-. destruct (validate_single_ok _ _ V) as (ext & itl & n & S2 & PD).
    rewrite S2 in HC. rewrite (parse_num_ok _ _ PD) in HC. injection HC as <- <-.
    apply target_class_mapping in HM as [-> ->]. split; [reflexivity|]. exists ext.
    rewrite (split_two_first _ _ _ S2). repeat split; [exact PD|]. now apply parse_dec_some in PD as [_ PD].
Qed.

Lemma free_agree p free s loc free' : process_port p free = Ok (s, loc, free') -> snd (port_class p free) = free'.
Proof.
  destruct p as [n | r l | ps fl]; cbn [process_port port_class snd].
  - destruct free as [|f fr]; [discriminate|]. now intros [= _ _ <-].
  - intros H. destruct (match r with NInt n => Ok (Some n) | NStr s0 => py_int s0 end) as [[rn|]|k|]; try discriminate.
    destruct l as [m|lt lfl]; [now injection H as _ _ <-|].
    destruct (py_int lt) as [[m|]|k|]; try discriminate; [now injection H as _ _ <-|].
    destruct (prefixb (lit "unix:/") lt); [now injection H as _ _ <-|].
    destruct (negb (memb COLON lt)); [discriminate|].
    destruct (split_all COLON lt) as [|x1 [|x2 [|x3 r3]]]; try discriminate. now injection H as _ _ <-.
  - destruct (validate_single ps fl) as [[]|k|]; try discriminate. now intros [= _ _ <-].
Qed.

Lemma target_bad v t fl : target_class v t fl = PCBad -> prefixb (lit "unix:/") t = false /\ memb COLON t = false.
Proof.
  unfold target_class. destruct (prefixb (lit "unix:/") t); [discriminate|].
  destruct (prefixb (lit "unix:") t); [discriminate|].
  destruct (memb COLON t); [|auto]. cbn [negb].
  destruct (split_all COLON t) as [|ip [|port [|x r]]]; try discriminate. destruct (_ && _); discriminate.
Qed.

(* something that is not a port mapping is refused *)
Lemma port_bad_refused p free x : fst (port_class p free) = PCBad -> process_port p free <> Ok x.
Proof.
  destruct p as [n | r l | ps fl]; cbn [process_port port_class fst].
  - destruct free; discriminate.
  - intros HC. destruct r as [n|s0].
    + destruct l as [m|lt lfl]; [discriminate|]. destruct (num_class lt) eqn:NC; try discriminate.
      apply target_bad in HC as [U M]. rewrite (num_bad_py_int _ NC), U, M. discriminate.
    + destruct (num_class s0) eqn:NS; try discriminate.
      * rewrite (py_int_of_parse _ _ (num_ok_parse _ _ NS)).
        destruct l as [m|lt lfl]; [discriminate|]. destruct (num_class lt) eqn:NC; try discriminate.
        apply target_bad in HC as [U M]. rewrite (num_bad_py_int _ NC), U, M. discriminate.
      * rewrite (num_bad_py_int _ NS). discriminate.
  - intros HC. unfold validate_single. destruct (memb SP ps) eqn:MS; [|discriminate]. cbn [negb].
    destruct (split_all SP ps) as [|ex [|it [|x3 r3]]]; try discriminate.
    destruct (num_class ex) eqn:NE; try discriminate.
    + rewrite (py_int_of_parse _ _ (num_ok_parse _ _ NE)). apply target_bad in HC as [U M]. rewrite M. discriminate.
    + rewrite (num_bad_py_int _ NE). discriminate.
Qed.

(* a good target, as the validators see it *)
Definition good_target (t : bytes) (loc : bool) : Prop :=
  prefixb (lit "unix:/") t = true \/
  (prefixb (lit "unix:") t = false /\ memb COLON t = true /\
   exists ip port, split_all COLON t = [ip; port] /\ (loc || beqb ip (lit "localhost")) = true).

Lemma target_good v0 t0 fl v t : target_class v0 t0 fl = PCGood v t -> v = v0 /\ t = t0 /\ good_target t0 fl.
Proof.
  unfold target_class, good_target.
  destruct (prefixb (lit "unix:/") t0) eqn:U1; [intros [= <- <-]; auto|].
  destruct (prefixb (lit "unix:") t0) eqn:U2; [discriminate|].
  destruct (memb COLON t0) eqn:M; [|discriminate]. cbn [negb].
  destruct (split_all COLON t0) as [|ip [|port [|x r]]]; try discriminate.
  destruct ((fl || beqb ip (lit "localhost")) && negb (is_nil port) && forallb is_digit port) eqn:C; [|discriminate].
  intros [= <- <-]. apply andb_true_iff in C as [C _]. apply andb_true_iff in C as [C _].
  repeat split. right. repeat split. exists ip, port. auto.
Qed.

Lemma unix_prefix t : prefixb (lit "unix:/") t = true -> memb COLON t = true /\ prefixb (lit "unix:") t = true.
Proof. intros H. apply prefixb_inv in H. rewrite H. split; reflexivity. Qed.

Lemma validate_single_good a t loc :
  a <> [] -> forallb is_digit a = true -> memb SP t = false -> good_target t loc ->
  validate_single (a ++ SP :: t) loc = Ok tt.
Proof.
  intros Hne Hd Hs G. unfold validate_single.
  rewrite memb_app'. cbn [memb]. rewrite Ascii.eqb_refl, orb_true_r. cbn [negb].
  rewrite split_all_app by (apply digits_no; [reflexivity|exact Hd]). rewrite split_all_none by exact Hs.
  rewrite (py_int_of_parse _ _ (parse_dec_digits _ Hne Hd)).
  destruct G as [U|(U & M & ip & port & S2 & L)].
  - destruct (unix_prefix _ U) as [M P]. now rewrite M, P.
  - rewrite M, U, S2. cbn [negb]. destruct loc; [now rewrite andb_false_r|].
    cbn [orb] in L. now rewrite L.
Qed.

Lemma loopback_good m : memb SP (loopback m) = false /\ good_target (loopback m) true.
Proof.
  unfold loopback. split.
  - rewrite memb_app'. rewrite (digits_no SP _ eq_refl (dec_digits m)). reflexivity.
  - right. repeat split.
    exists (lit "127.0.0.1"), (dec_of_N m). split; [|reflexivity].
    change (lit "127.0.0.1:" ++ dec_of_N m) with (lit "127.0.0.1" ++ COLON :: dec_of_N m).
    rewrite split_all_app by reflexivity. now rewrite split_all_none by (apply digits_no; [reflexivity|apply dec_digits]).
Qed.

Lemma clean_no_sp t : clean t = true -> memb SP t = false.
Proof.
  intros H. destruct (memb SP t) eqn:M; [|reflexivity]. apply memb_In' in M.
  unfold clean in H. rewrite forallb_forall in H. specialize (H _ M). discriminate.
Qed.

(* a mapping that must be honoured passes both validations *)
Lemma port_good_accepted p free v t : fst (port_class p free) = PCGood v t -> clean t = true ->
  exists s loc free', process_port p free = Ok (s, loc, free') /\ validate_single s loc = Ok tt.
Proof.
  destruct p as [n | r l | ps fl]; cbn [process_port port_class fst].
  - destruct free as [|f fr]; [discriminate|]. intros [= <- <-] _. eexists _, _, _. split; [reflexivity|].
    destruct (loopback_good f) as [L1 L2]. apply validate_single_good; [apply dec_nonnil|apply dec_digits|exact L1|exact L2].
  - intros HC Hcl.
    assert (R : exists rn, (match r with NInt n => Ok (Some n) | NStr s0 => py_int s0 end) = Ok (Some rn)
                           /\ (match r with NInt n => NumOk n | NStr s0 => num_class s0 end) = NumOk rn).
    { destruct r as [n|s0]; [eauto|]. destruct (num_class s0) eqn:NS; try discriminate.
      exists n. split; [|reflexivity]. apply py_int_of_parse. now apply num_ok_parse. }
    destruct R as (rn & R1 & R2). rewrite R1. rewrite R2 in HC.
    assert (D : forall m, exists s loc free',
                Ok (dec_of_N rn ++ SP :: lit "127.0.0.1:" ++ dec_of_N m, true, free) = Ok (s, loc, free') /\
                validate_single s loc = Ok tt).
    { intros m. eexists _, _, _. split; [reflexivity|]. destruct (loopback_good m) as [L1 L2].
      apply (validate_single_good _ (loopback m)); [apply dec_nonnil|apply dec_digits|exact L1|exact L2]. }
    destruct l as [m|lt lfl]; [apply D|].
    destruct (num_class lt) as [m| |] eqn:NC; try discriminate.
    + rewrite (py_int_of_parse _ _ (num_ok_parse _ _ NC)). apply D.
    + rewrite (num_bad_py_int _ NC). apply target_good in HC as (Ev & Et & G). subst v t.
      assert (K : exists s loc free', Ok (dec_of_N rn ++ SP :: lt, lfl, free) = Ok (s, loc, free') /\ validate_single s loc = Ok tt).
      { eexists _, _, _. split; [reflexivity|].
        apply validate_single_good; [apply dec_nonnil|apply dec_digits|now apply clean_no_sp|exact G]. }
      destruct G as [U|(U & M & ip & port & S2 & L)]; [now rewrite U|].
      destruct (prefixb (lit "unix:/") lt); [exact K|]. now rewrite M, S2.
  - intros HC Hcl. destruct (split_all SP ps) as [|ex [|it [|x3 r3]]] eqn:S2; try discriminate.
    destruct (num_class ex) eqn:NE; try discriminate. apply target_good in HC as (-> & -> & G).
    apply num_ok_parse in NE. destruct (parse_dec_some _ _ NE) as [Hne Hd].
    apply split_all_two in S2 as (-> & _ & M2).
    rewrite (validate_single_good _ _ _ Hne Hd M2 G). eexists _, _, _. split; [reflexivity|].
    now apply validate_single_good.
Qed.

(* ------------------------------------------------------------------------------------------
   C. the list of port mappings
   ------------------------------------------------------------------------------------------ *)
Definition is_map (c : pclass) : bool := match c with PCGood _ _ | PCEither _ _ => true | _ => false end.
Definition is_bad (c : pclass) : bool := match c with PCBad => true | _ => false end.
Definition is_good (c : pclass) : bool := match c with PCGood _ _ => true | _ => false end.
Definition pc_port (c : pclass) : N * option bytes :=
  match c with PCGood v t | PCEither v t => (v, Some t) | _ => (0, None) end.
Definition pc_clean (c : pclass) : bool :=
  match c with PCGood _ t | PCEither _ t => clean t && negb (is_nil t) | _ => true end.

Lemma port_classes_cons p ps free :
  port_classes (p :: ps) free = fst (port_class p free) :: port_classes ps (snd (port_class p free)).
Proof. cbn [port_classes]. now destruct (port_class p free). Qed.

Lemma ports_refused : forall ps free r, existsb is_bad (port_classes ps free) = true -> validate_ports ps free <> Ok r.
Proof.
  induction ps as [|p ps IH]; intros free r H; [discriminate|].
  rewrite port_classes_cons in H. cbn [existsb] in H. cbn [validate_ports].
  destruct (process_port p free) as [[[s loc] fr']|k|] eqn:PP; try discriminate.
  apply orb_true_iff in H as [H|H].
  - exfalso. destruct (fst (port_class p free)) eqn:F; try discriminate. exact (port_bad_refused _ _ _ F PP).
  - rewrite (free_agree _ _ _ _ _ PP) in H.
    destruct (validate_ports ps fr') as [r'|k|] eqn:V; try discriminate. exfalso. exact (IH fr' r' H V).
Qed.

Lemma ports_accepted : forall ps free,
  forallb is_good (port_classes ps free) = true -> forallb pc_clean (port_classes ps free) = true ->
  exists procs, validate_ports ps free = Ok procs /\ validate_low procs = Ok tt.
Proof.
  induction ps as [|p ps IH]; intros free HG HC; [exists []; auto|].
  rewrite port_classes_cons in HG, HC. cbn [forallb] in HG, HC.
  apply andb_true_iff in HG as [G1 G2]. apply andb_true_iff in HC as [C1 C2].
  destruct (fst (port_class p free)) as [v t| | |] eqn:F; try discriminate.
  cbn [pc_clean] in C1. apply andb_true_iff in C1 as [C1 _].
  destruct (port_good_accepted p free v t F C1) as (s & loc & fr' & PP & VS).
  rewrite (free_agree _ _ _ _ _ PP) in G2, C2. destruct (IH fr' G2 C2) as (procs & V & VL).
  exists ((s, loc) :: procs). cbn [validate_ports validate_low]. now rewrite PP, V, VS.
Qed.

(* a processed string and the class of its request describe the same mapping *)
Definition tokrel (tk : bytes) (c : pclass) : Prop :=
  exists a v t, is_mapping c v t /\ tk = lit "Port=" ++ a ++ COMMA :: t /\ parse_dec a = Some v /\ forallb is_digit a = true.

Lemma map_is_mapping c : is_map c = true -> exists v t, is_mapping c v t.
Proof. destruct c as [v t|v t| |]; try discriminate; intros _; exists v, t; [left|right]; reflexivity. Qed.

Lemma ports_tokens : forall ps free procs,
  validate_ports ps free = Ok procs -> forallb is_map (port_classes ps free) = true ->
  exists toks, port_args procs = Ok (flat_map (fun tk => SP :: tk) toks) /\ Forall2 tokrel toks (port_classes ps free).
Proof.
  induction ps as [|p ps IH]; intros free procs V H.
  - injection V as <-. exists []. split; [reflexivity|constructor].
  - cbn [validate_ports] in V. destruct (process_port p free) as [[[s loc] fr']|k|] eqn:PP; try discriminate.
    destruct (validate_ports ps fr') as [r|k|] eqn:V'; try discriminate. injection V as <-.
    rewrite port_classes_cons in H |- *. cbn [forallb] in H. apply andb_true_iff in H as [H1 H2].
    pose proof (free_agree _ _ _ _ _ PP) as FA. rewrite FA in H2 |- *.
    destruct (IH fr' r V' H2) as (toks & PA & F2).
    destruct (map_is_mapping _ H1) as (v & t & M).
    destruct (port_agree p free s loc fr' _ _ v t PP (surjective_pairing _) M) as (_ & a & SF & PD & DG).
    exists ((lit "Port=" ++ a ++ COMMA :: t) :: toks). split.
    + cbn [port_args]. unfold port_arg. rewrite SF, PA. reflexivity.
    + constructor; [|exact F2]. exists a, v, t. auto.
Qed.

(* ------------------------------------------------------------------------------------------
   D. Tor's reader on the tokens
   ------------------------------------------------------------------------------------------ *)
Definition with_ports (acc : add_onion) (ps : list (N * option bytes)) : add_onion :=
  {| a_ktype := a_ktype acc; a_kblob := a_kblob acc; a_ports := a_ports acc ++ ps;
     a_flags := a_flags acc; a_clients := a_clients acc |}.
Definition with_flags (acc : add_onion) (fs : list bytes) : add_onion :=
  {| a_ktype := a_ktype acc; a_kblob := a_kblob acc; a_ports := a_ports acc;
     a_flags := a_flags acc ++ fs; a_clients := a_clients acc |}.
Definition with_clients (acc : add_onion) (cs : list (bytes * option bytes)) : add_onion :=
  {| a_ktype := a_ktype acc; a_kblob := a_kblob acc; a_ports := a_ports acc;
     a_flags := a_flags acc; a_clients := a_clients acc ++ cs |}.

Lemma parse_args_port a t v rest acc : parse_dec a = Some v -> forallb is_digit a = true ->
  parse_args ((lit "Port=" ++ a ++ COMMA :: t) :: rest) acc = parse_args rest (with_ports acc [(v, Some t)]).
Proof.
  intros PD DG. cbn [parse_args].
  change (strip_prefix (lit "Port=") (lit "Port=" ++ a ++ COMMA :: t)) with (Some (a ++ COMMA :: t)).
  unfold parse_port. rewrite split_first_app by (apply digits_no; [reflexivity|exact DG]). now rewrite PD.
Qed.

Lemma with_ports_app acc p ps : with_ports (with_ports acc [p]) ps = with_ports acc (p :: ps).
Proof. unfold with_ports. cbn [a_ktype a_kblob a_ports a_flags a_clients]. now rewrite <- app_assoc. Qed.

Lemma parse_args_ports : forall toks pcs, Forall2 tokrel toks pcs -> forall rest acc,
  parse_args (toks ++ rest) acc = parse_args rest (with_ports acc (map pc_port pcs)).
Proof.
  induction 1 as [|tk c toks pcs (a & v & t & M & -> & PD & DG) F2 IH]; intros rest acc.
  - cbn [app map]. f_equal. unfold with_ports. rewrite app_nil_r. now destruct acc.
  - cbn [app map]. rewrite (parse_args_port a t v) by assumption. rewrite IH, with_ports_app.
    f_equal. f_equal. f_equal. destruct M as [-> | ->]; reflexivity.
Qed.

Definition ftoks (flags : list bytes) : list bytes :=
  match flags with [] => [] | _ => [lit "Flags=" ++ join [COMMA] flags] end.

Definition ctok (c : bytes * option bytes) : bytes :=
  match snd c with
  | None => lit "ClientAuth=" ++ fst c
  | Some t => lit "ClientAuth=" ++ fst c ++ COLON :: t
  end.

Lemma parse_args_client c rest acc : memb COLON (fst c) = false ->
  parse_args (ctok c :: rest) acc = parse_args rest (with_clients acc [c]).
Proof.
  intros M. destruct c as [n [t|]]; cbn [fst snd] in M; unfold ctok; cbn [fst snd parse_args].
  - change (strip_prefix (lit "Port=") (lit "ClientAuth=" ++ n ++ COLON :: t)) with (@None bytes).
    change (strip_prefix (lit "Flags=") (lit "ClientAuth=" ++ n ++ COLON :: t)) with (@None bytes).
    change (strip_prefix (lit "ClientAuth=") (lit "ClientAuth=" ++ n ++ COLON :: t)) with (Some (n ++ COLON :: t)).
    unfold parse_client. now rewrite split_first_app by exact M.
  - change (strip_prefix (lit "Port=") (lit "ClientAuth=" ++ n)) with (@None bytes).
    change (strip_prefix (lit "Flags=") (lit "ClientAuth=" ++ n)) with (@None bytes).
    change (strip_prefix (lit "ClientAuth=") (lit "ClientAuth=" ++ n)) with (Some n).
    unfold parse_client. now rewrite split_first_none by exact M.
Qed.

Lemma with_clients_app acc c cs : with_clients (with_clients acc [c]) cs = with_clients acc (c :: cs).
Proof. unfold with_clients. cbn [a_ktype a_kblob a_ports a_flags a_clients]. now rewrite <- app_assoc. Qed.

Lemma parse_args_clients : forall cl acc, forallb client_ok cl = true ->
  parse_args (map ctok cl) acc = Some (with_clients acc cl).
Proof.
  induction cl as [|c cl IH]; intros acc H.
  - cbn. f_equal. unfold with_clients. rewrite app_nil_r. now destruct acc.
  - cbn [forallb] in H. apply andb_true_iff in H as [H1 H2]. cbn [map].
    rewrite parse_args_client.
    + now rewrite IH, with_clients_app.
    + unfold client_ok in H1. apply andb_true_iff in H1 as [H1 _]. apply andb_true_iff in H1 as [H1 _].
      apply andb_true_iff in H1 as [_ H1]. now apply negb_true_iff in H1.
Qed.

(* ---- flags ---- *)
Definition is_disc (k : keyst) : bool := match k with KSDiscard => true | _ => false end.
Definition req_disc (k : keyreq) : bool := match k with KDiscard => true | _ => false end.
Definition is_some {A} (o : option A) : bool := match o with Some _ => true | None => false end.

Lemma nk_disc v k : is_disc (normalise_key v k) = req_disc k.
Proof.
  destruct k as [| |s]; try reflexivity. cbn [normalise_key req_disc].
  repeat match goal with |- context[if ?b then _ else _] => destruct b end; reflexivity.
Qed.

Definition fl4 (d disc au si : bool) : list bytes :=
  (if d then [G ao_flag_detach] else []) ++ (if disc then [G ao_flag_discard] else []) ++
  (if au then [G ao_flag_auth] else []) ++ (if si then [G ao_flag_single] else []).
Definition fn4 (d disc au si : bool) : list bytes :=
  (if d then [lit "Detach"] else []) ++ (if disc then [lit "DiscardPK"] else []) ++
  (if au then [lit "BasicAuth"] else []) ++ (if si then [lit "NonAnonymous"] else []).

Lemma flags_of_fl4 q k : flags_of q k = fl4 (q_detach q) (is_disc k) (is_some (q_auth q)) (q_single q).
Proof. unfold flags_of, fl4. destruct k, (q_auth q); reflexivity. Qed.
Lemma flag_names_fn4 q : flag_names q = fn4 (q_detach q) (req_disc (q_key q)) (is_some (q_auth q)) (q_single q).
Proof. unfold flag_names, fn4. destruct (q_key q), (q_auth q); reflexivity. Qed.

Lemma with_flags_nil acc : with_flags acc [] = acc.
Proof. unfold with_flags. rewrite app_nil_r. now destruct acc. Qed.

Lemma parse_args_flags fl rest acc : parse_flags (join [COMMA] fl) = Some fl ->
  parse_args ((lit "Flags=" ++ join [COMMA] fl) :: rest) acc = parse_args rest (with_flags acc fl).
Proof.
  intros H. cbn [parse_args].
  change (strip_prefix (lit "Port=") (lit "Flags=" ++ join [COMMA] fl)) with (@None bytes).
  change (strip_prefix (lit "Flags=") (lit "Flags=" ++ join [COMMA] fl)) with (Some (join [COMMA] fl)).
  cbv beta iota. now rewrite H.
Qed.

Definition ctok_ok (t : bytes) : Prop := t <> [] /\ clean t = true.

Lemma fl4_facts d disc au si :
  flags_eqb (fl4 d disc au si) (fn4 d disc au si) = true /\
  Forall ctok_ok (ftoks (fl4 d disc au si)) /\
  (forall rest acc, parse_args (ftoks (fl4 d disc au si) ++ rest) acc = parse_args rest (with_flags acc (fl4 d disc au si))).
Proof.
  destruct d, disc, au, si; (split; [reflexivity|]); (split; [repeat constructor; discriminate|]); intros rest acc;
    try (cbn [fl4 app ftoks]; now rewrite with_flags_nil);
    (unfold ftoks; cbn [fl4 app]; rewrite parse_args_flags; reflexivity).
Qed.

(* ---- AuthBasic ---- *)
Lemma existsb_false_In' {A} (f : A -> bool) l : existsb f l = false -> forall x, In x l -> f x = false.
Proof.
  intros H x Hx. destruct (f x) eqn:E; [|reflexivity].
  assert (existsb f l = true) by (apply existsb_exists; eauto). congruence.
Qed.

Lemma beqb_sym a b : beqb a b = beqb b a.
Proof.
  destruct (beqb a b) eqn:E1, (beqb b a) eqn:E2; try reflexivity.
  - apply beqb_eq in E1. subst. now rewrite beqb_refl in E2.
  - apply beqb_eq in E2. subst. now rewrite beqb_refl in E1.
Qed.

Lemma assoc_set_fresh {V} k (v : V) d : existsb (beqb k) (map fst d) = false -> assoc_set k v d = d ++ [(k, v)].
Proof.
  induction d as [|[k' v'] d IH]; intros H; [reflexivity|]. cbn [map fst existsb] in H.
  apply orb_false_iff in H as [H1 H2]. cbn [assoc_set app]. now rewrite H1, IH.
Qed.

Lemma auth_fold {V} : forall (cl acc : list (bytes * V)), nodup_names (map fst cl) = true ->
  (forall c, In c cl -> existsb (beqb (fst c)) (map fst acc) = false) ->
  fold_left (fun d c => assoc_set (fst c) (snd c) d) cl acc = acc ++ cl.
Proof.
  induction cl as [|[k v] cl IH]; intros acc ND DJ; [now rewrite app_nil_r|].
  cbn [map fst nodup_names] in ND. apply andb_true_iff in ND as [N1 N2]. apply negb_true_iff in N1.
  cbn [fold_left fst snd]. rewrite assoc_set_fresh by (apply (DJ (k, v)); now left).
  rewrite IH; [now rewrite <- app_assoc| exact N2 |].
  intros c Hc. rewrite map_app, existsb_app. rewrite (DJ c) by now right. cbn [map fst existsb orb].
  rewrite orb_false_r, beqb_sym. apply (existsb_false_In' _ _ N1). now apply in_map.
Qed.

(* ---- the key specifier ---- *)
Lemma split_first_none_inv c : forall s, split_first c s = None -> memb c s = false.
Proof.
  induction s as [|x s IH]; intros H; [reflexivity|]. cbn [split_first] in H.
  destruct (Ascii.eqb x c) eqn:E; [discriminate|]. destruct (split_first c s) as [[a b]|]; [discriminate|].
  cbn [memb]. now rewrite Ascii.eqb_sym, E, IH.
Qed.

Lemma prefixb_memb c : forall p s, prefixb p s = true -> memb c p = true -> memb c s = true.
Proof.
  induction p as [|x p IH]; intros s H M; [discriminate|]. destruct s as [|y s]; [discriminate|].
  cbn [prefixb] in H. apply andb_true_iff in H as [H1 H2]. apply Ascii.eqb_eq in H1. subst.
  cbn [memb] in *. apply orb_true_iff in M as [M|M]; [now rewrite M|]. rewrite (IH s H2 M). apply orb_true_r.
Qed.

Lemma version_cases v : (v =? 2) || (v =? 3) = true -> v = 2 \/ v = 3.
Proof. intros H. apply orb_true_iff in H as [H|H]; apply N.eqb_eq in H; auto. Qed.

Lemma key_agree v k kt kb must : v = 2 \/ v = 3 -> key_expect v k = KCExact kt kb must ->
  split_first COLON (keystring v (normalise_key v k)) = Some (kt, kb).
Proof.
  intros Hv H. destruct k as [| |s]; cbn [key_expect normalise_key keystring] in *.
  - destruct Hv as [-> | ->]; cbn in H; injection H as <- <- _; reflexivity.
  - destruct Hv as [-> | ->]; cbn in H; injection H as <- <- _; reflexivity.
  - destruct (has_linebreak s); [discriminate|].
    destruct (split_first COLON s) as [[t b]|] eqn:SF.
    + injection H as <- <- _. destruct (split_first_some _ _ _ _ SF) as [E M].
      replace (memb COLON s) with true by (rewrite E, memb_app'; cbn [memb]; now rewrite Ascii.eqb_refl, orb_true_r).
      cbn [keystring]. exact SF.
    + destruct s as [|c s]; [discriminate|]. injection H as <- <- _.
      apply split_first_none_inv in SF. rewrite SF.
      destruct Hv as [-> | ->]; cbn [N.eqb Pos.eqb].
      * destruct (prefixb (G ao_prefix_v2) (c :: s)) eqn:P;
          [apply prefixb_memb with (c := COLON) in P; [congruence|reflexivity]|]. reflexivity.
      * destruct (prefixb (G ao_prefix_v3) (c :: s)) eqn:P;
          [apply prefixb_memb with (c := COLON) in P; [congruence|reflexivity]|]. reflexivity.
Qed.

Lemma clean_app a b : clean (a ++ b) = clean a && clean b.
Proof. apply forallb_app. Qed.

Lemma clean_no c t : clean_char c = false -> clean t = true -> memb c t = false.
Proof.
  intros Hc H. destruct (memb c t) eqn:M; [|reflexivity]. apply memb_In' in M.
  unfold clean in H. rewrite forallb_forall in H. specialize (H _ M). congruence.
Qed.

(* a consistent key passes the two checks made before the command is built *)
Lemma key_passes v k kt kb : v = 2 \/ v = 3 -> key_expect v k = KCExact kt kb true ->
  clean kt = true -> clean kb = true ->
  let ks := keystring v (normalise_key v k) in
  (v =? 3) && negb (infixb (G ao_v3_marker) ks) = false /\
  existsb (fun c => memb (ch c) ks) ao_key_forbidden = false.
Proof.
  intros Hv H Ct Cb ks. pose proof (key_agree v k kt kb true Hv H) as SF. fold ks in SF.
  destruct (split_first_some _ _ _ _ SF) as [E _]. split.
  - destruct Hv as [-> | ->]; [reflexivity|]. cbn [N.eqb Pos.eqb andb]. apply negb_false_iff.
    destruct k as [| |s]; cbn [key_expect] in H.
    + subst ks. reflexivity.
    + subst ks. reflexivity.
    + destruct (has_linebreak s); [discriminate|]. destruct (split_first COLON s) as [[t b]|] eqn:SF2.
      * injection H as <- <- B. unfold kt_for in B. cbn [N.eqb Pos.eqb] in B. apply beqb_eq in B. subst t.
        rewrite E. reflexivity.
      * destruct s as [|c s]; [discriminate|]. injection H as <- <-. rewrite E. reflexivity.
  - rewrite E. change (existsb (fun c => memb (ch c) (kt ++ COLON :: kb)) ao_key_forbidden)
      with (memb CR (kt ++ COLON :: kb) || (memb LF (kt ++ COLON :: kb) || false)).
    rewrite !memb_app'. cbn [memb].
    rewrite (clean_no CR kt eq_refl Ct), (clean_no CR kb eq_refl Cb), (clean_no LF kt eq_refl Ct), (clean_no LF kb eq_refl Cb).
    reflexivity.
Qed.

(* ---- the command as a list of tokens ---- *)
Lemma flat_map_map {A B C} (f : B -> list C) (g : A -> B) l : flat_map f (map g l) = flat_map (fun x => f (g x)) l.
Proof. induction l as [|x l IH]; cbn [map flat_map]; [reflexivity|]. now rewrite IH. Qed.

Lemma client_args_tokens d : client_args d = flat_map (fun tk => SP :: tk) (map ctok d).
Proof.
  rewrite flat_map_map. unfold client_args. apply flat_map_ext. intros [n [t|]]; reflexivity.
Qed.

Definition dlist (d : option (list (bytes * option bytes))) : list (bytes * option bytes) :=
  match d with Some d => d | None => [] end.

Lemma build_cmd_tokens q ks k procs d toks :
  port_args procs = Ok (flat_map (fun tk => SP :: tk) toks) ->
  build_cmd q ks k procs d = Ok (join [SP] (lit "ADD_ONION" :: ks :: toks ++ ftoks (flags_of q k) ++ map ctok (dlist d))).
Proof.
  intros H. unfold build_cmd. rewrite H. f_equal. rewrite join_cons_flat. cbn [flat_map].
  rewrite !flat_map_app. change (G ao_cmd) with (lit "ADD_ONION" ++ [SP]). rewrite <- !app_assoc. cbn [app].
  f_equal. f_equal. f_equal. f_equal. f_equal.
  - destruct (flags_of q k); [reflexivity|]. cbn [ftoks flat_map]. now rewrite app_nil_r.
  - destruct d as [d|]; [apply client_args_tokens|reflexivity].
Qed.

Lemma memb_nul_join : forall toks t0, Forall (fun t => memb NUL t = false) (t0 :: toks) ->
  memb NUL (join [SP] (t0 :: toks)) = false.
Proof.
  intros toks t0 H. rewrite join_cons_flat. inversion H as [|? ? H0 Hr]; subst. rewrite memb_app', H0. cbn [orb].
  induction Hr as [|t toks Ht Hr IH]; [reflexivity|]. cbn [flat_map]. cbn [memb app].
  rewrite memb_app', Ht. cbn [orb]. apply IH. constructor; [exact H0|exact Hr].
Qed.

Lemma ctok_ok_tok t : ctok_ok t -> tok_ok t /\ memb NUL t = false.
Proof.
  intros [Hne Hc]. split; [split; [exact Hne|]|].
  - apply forallb_forall. intros c Hin. unfold clean in Hc. rewrite forallb_forall in Hc. specialize (Hc c Hin).
    unfold clean_char in Hc. now apply andb_true_iff in Hc as [Hc _].
  - now apply clean_no.
Qed.

Lemma parse_add_onion_tokens ks kt kb toks :
  ctok_ok ks -> Forall ctok_ok toks -> split_first COLON ks = Some (kt, kb) ->
  parse_add_onion (join [SP] (lit "ADD_ONION" :: ks :: toks)) =
  parse_args toks {| a_ktype := kt; a_kblob := kb; a_ports := []; a_flags := []; a_clients := [] |}.
Proof.
  intros Hk Ht SF. unfold parse_add_onion.
  assert (A : ctok_ok (lit "ADD_ONION")) by (split; [discriminate|reflexivity]).
  assert (All : Forall ctok_ok (lit "ADD_ONION" :: ks :: toks)) by (constructor; [exact A|constructor; assumption]).
  rewrite memb_nul_join.
  - rewrite split_ws_join.
    + now rewrite beqb_refl, SF.
    + now apply ctok_ok_tok.
    + apply Forall_forall. intros t Hin. inversion All as [|? ? _ Hr]; subst.
      rewrite Forall_forall in Hr. now apply ctok_ok_tok, Hr.
  - apply Forall_forall. intros t Hin. rewrite Forall_forall in All. now apply ctok_ok_tok, All.
Qed.

(* ------------------------------------------------------------------------------------------
   E. create(): what is sent reads back as the request
   ------------------------------------------------------------------------------------------ *)
Lemma prepare_ok q d procs : prepare q = Ok (d, procs) ->
  (q_version q = 2 \/ q_version q = 3) /\
  ((q_auth q = None /\ d = None) \/ (exists cl dd, q_auth q = Some cl /\ auth_dict cl = Ok dd /\ d = Some dd)) /\
  validate_ports (q_ports q) (q_free q) = Ok procs /\ validate_low procs = Ok tt.
Proof.
  unfold prepare. destruct ((q_version q =? 2) || (q_version q =? 3)) eqn:V; [|discriminate]. cbn [negb].
  destruct (match q_key q with KText [] => true | _ => false end); [discriminate|].
  intros H. split; [now apply version_cases|].
  destruct (q_auth q) as [cl|].
  - destruct (auth_dict cl) as [dd|k|] eqn:A; try discriminate.
    destruct (validate_ports (q_ports q) (q_free q)) as [ports|k|]; try discriminate.
    destruct (validate_low ports) as [[]|k|] eqn:L; try discriminate. injection H as <- <-.
    split; [right; eauto|]. auto.
  - destruct (validate_ports (q_ports q) (q_free q)) as [ports|k|]; try discriminate.
    destruct (validate_low ports) as [[]|k|] eqn:L; try discriminate. injection H as <- <-.
    split; [left; auto|]. auto.
Qed.

Definition svc1 (q : request) (d : option (list (bytes * option bytes))) : svc :=
  {| v_host := None; v_key := normalise_key (q_version q) (q_key q); v_clients := init_clients d |}.

Lemma phase_create_sent q cmd evs st : phase_create q = Ok (ECmd cmd :: evs, st) ->
  exists d procs, prepare q = Ok (d, procs) /\
    build_cmd q (keystring (q_version q) (normalise_key (q_version q) (q_key q)))
              (normalise_key (q_version q) (q_key q)) procs d = Ok cmd /\
    evs = [snap (svc1 q d)] /\ st = CSvc (svc1 q d) true /\ has_linebreak cmd = false /\
    has_linebreak (keystring (q_version q) (normalise_key (q_version q) (q_key q))) = false.
Proof.
  unfold phase_create. destruct (prepare q) as [[d procs]|k|]; try discriminate.
  destruct ((q_version q =? 3) && _); [discriminate|].
  destruct (existsb _ ao_key_forbidden) eqn:KF; [discriminate|].
  destruct (build_cmd _ _ _ _ _) as [c|e|] eqn:B; try discriminate.
  destruct (existsb _ ao_cmd_forbidden) eqn:CF; [discriminate|].
  intros [= <- <- <-]. exists d, procs. repeat split; try reflexivity; try assumption.
  - unfold has_linebreak. change (existsb (fun c0 => memb (ch c0) c) ao_cmd_forbidden) with (memb CR c || (memb LF c || false)) in CF.
    now rewrite orb_false_r in CF.
  - unfold has_linebreak. cbv zeta in KF.
    match type of KF with existsb (fun c0 => memb (ch c0) ?x) _ = _ =>
      change (memb CR x || (memb LF x || false) = false) in KF end.
    now rewrite orb_false_r in KF.
Qed.

Lemma list_eqb_refl {A} (eqA : A -> A -> bool) : (forall x, eqA x x = true) -> forall l, list_eqb eqA l l = true.
Proof. intros H. induction l as [|x l IH]; cbn [list_eqb]; [reflexivity|]. now rewrite H, IH. Qed.

Lemma option_beqb_refl o : option_eqb beqb o o = true.
Proof. destruct o; cbn; [apply beqb_refl|reflexivity]. Qed.

Lemma port_eqb_refl p : port_eqb p p = true.
Proof. unfold port_eqb. now rewrite N.eqb_refl, option_beqb_refl. Qed.
Lemma client_eqb_refl c : client_eqb c c = true.
Proof. unfold client_eqb. now rewrite beqb_refl, option_beqb_refl. Qed.

Lemma auth_dict_nodup cl dd : auth_dict cl = Ok dd -> nodup_names (map fst cl) = true -> dd = cl.
Proof.
  unfold auth_dict. intros H ND. rewrite (auth_fold cl [] ND) in H by reflexivity. cbn [app] in H.
  destruct (existsb _ cl); [discriminate|]. now injection H.
Qed.

Lemma expected_inv q e : expected q = Some e ->
  exists kt kb m, key_expect (q_version q) (q_key q) = KCExact kt kb m /\
    forallb is_map (port_classes (q_ports q) (q_free q)) = true /\
    e = {| a_ktype := kt; a_kblob := kb; a_ports := map pc_port (port_classes (q_ports q) (q_free q));
           a_flags := flag_names q; a_clients := dlist (q_auth q) |}.
Proof.
  unfold expected. destruct (key_expect (q_version q) (q_key q)) as [kt kb m| |]; try discriminate.
  match goal with |- (if ?b then _ else _) = _ -> _ => destruct b eqn:F end; [|discriminate].
  intros [= <-]. exists kt, kb, m. repeat split. exact F.
Qed.

Lemma in_scope_inv q kt kb m : in_scope q = true -> key_expect (q_version q) (q_key q) = KCExact kt kb m ->
  clean kt = true /\ clean kb = true /\ kb <> [] /\
  forallb pc_clean (port_classes (q_ports q) (q_free q)) = true /\
  match q_auth q with Some cl => forallb client_ok cl = true /\ nodup_names (map fst cl) = true | None => True end.
Proof.
  unfold in_scope. intros H K. rewrite K in H.
  apply andb_true_iff in H as [H H3]. apply andb_true_iff in H as [H1 H2].
  apply andb_true_iff in H1 as [H1 H1c]. apply andb_true_iff in H1 as [H1a H1b].
  repeat split; try assumption.
  - intros ->. discriminate.
  - destruct (q_auth q); [|exact I]. now apply andb_true_iff in H3.
Qed.

Lemma tokrel_ok tk c : tokrel tk c -> pc_clean c = true -> ctok_ok tk.
Proof.
  intros (a & v & t & M & -> & PD & DG) C.
  assert (Ct : clean t = true).
  { destruct M as [-> | ->]; cbn [pc_clean] in C; now apply andb_true_iff in C as [C _]. }
  split; [discriminate|]. rewrite clean_app. change (clean (lit "Port=")) with true. cbn [andb].
  rewrite clean_app. unfold clean at 1. rewrite (digits_tok a) by (try exact DG; now apply parse_dec_some in PD as [PD _]).
  cbn [andb]. unfold clean. cbn [forallb]. change (clean_char COMMA) with true. exact Ct.
Qed.

Lemma ctok_clean c : client_ok c = true -> ctok_ok (ctok c).
Proof.
  unfold client_ok. intros H. apply andb_true_iff in H as [H H4]. apply andb_true_iff in H as [H H3].
  apply andb_true_iff in H as [H1 H2]. destruct c as [n [t|]]; cbn [fst snd] in *; unfold ctok; cbn [fst snd].
  - apply andb_true_iff in H4 as [H4 _]. split; [discriminate|].
    rewrite clean_app. change (clean (lit "ClientAuth=")) with true. cbn [andb]. rewrite clean_app, H1. cbn [andb].
    unfold clean. cbn [forallb]. change (clean_char COLON) with true. exact H4.
  - split; [discriminate|]. rewrite clean_app. change (clean (lit "ClientAuth=")) with true. exact H1.
Qed.

Lemma Ok_inj {A} (a b : A) : Ok a = Ok b -> a = b.
Proof. now intros [= ->]. Qed.

(* whatever create() sends: in scope, Tor reads back exactly the request *)
Lemma cmd_form q d procs cmd e :
  prepare q = Ok (d, procs) ->
  build_cmd q (keystring (q_version q) (normalise_key (q_version q) (q_key q)))
            (normalise_key (q_version q) (q_key q)) procs d = Ok cmd ->
  in_scope q = true -> expected q = Some e ->
  exists ks kt kb toks, cmd = join [SP] (lit "ADD_ONION" :: ks :: toks) /\ ctok_ok ks /\ Forall ctok_ok toks /\
    split_first COLON ks = Some (kt, kb) /\
    exists a, parse_args toks {| a_ktype := kt; a_kblob := kb; a_ports := []; a_flags := []; a_clients := [] |} = Some a
              /\ ao_eqb a e = true.
Proof.
  intros PR BC IS EX.
  destruct (prepare_ok _ _ _ PR) as (Hv & HA & VP & VL).
  destruct (expected_inv _ _ EX) as (kt & kb & m & KE & FM & ->).
  destruct (in_scope_inv _ _ _ _ IS KE) as (Ckt & Ckb & Hkb & PCl & HCl).
  destruct (ports_tokens _ _ _ VP FM) as (toks & PA & F2).
  rewrite (build_cmd_tokens _ _ _ _ _ _ PA) in BC. apply Ok_inj in BC. subst cmd.
  pose proof (key_agree _ _ _ _ _ Hv KE) as SF.
  set (k := normalise_key (q_version q) (q_key q)) in *. set (ks := keystring (q_version q) k) in *.
  assert (Hks : ctok_ok ks).
  { destruct (split_first_some _ _ _ _ SF) as [E _]. rewrite E. split; [destruct kt; discriminate|].
    rewrite clean_app, Ckt. unfold clean. cbn [forallb andb]. change (clean_char COLON) with true. exact Ckb. }
  assert (Htoks : Forall ctok_ok toks).
  { clear -F2 PCl. induction F2 as [|tk c toks pcs R F2 IH]; [constructor|].
    cbn [forallb] in PCl. apply andb_true_iff in PCl as [P1 P2]. constructor; [now apply (tokrel_ok tk c)|now apply IH]. }
  rewrite flags_of_fl4. unfold k. rewrite nk_disc.
  destruct (fl4_facts (q_detach q) (req_disc (q_key q)) (is_some (q_auth q)) (q_single q)) as (FE & FT & FP).
  assert (Hd : dlist d = dlist (q_auth q) /\ forallb client_ok (dlist d) = true).
  { destruct HA as [[A ->]|(cl & dd & A & AD & ->)]; rewrite A in *; [auto|].
    destruct HCl as [C1 C2]. cbn [dlist]. rewrite (auth_dict_nodup _ _ AD C2). auto. }
  destruct Hd as [Hd1 Hd2].
  assert (Hct : Forall ctok_ok (map ctok (dlist d))).
  { apply Forall_forall. intros t Hin. apply in_map_iff in Hin as (c & <- & Hc).
    apply ctok_clean. rewrite forallb_forall in Hd2. now apply Hd2. }
  assert (Hall : Forall ctok_ok (toks ++ ftoks (fl4 (q_detach q) (req_disc (q_key q)) (is_some (q_auth q)) (q_single q))
                                  ++ map ctok (dlist d)))
    by (apply Forall_app; split; [exact Htoks|apply Forall_app; split; assumption]).
  exists ks, kt, kb, (toks ++ ftoks (fl4 (q_detach q) (req_disc (q_key q)) (is_some (q_auth q)) (q_single q))
                        ++ map ctok (dlist d)).
  split; [reflexivity|]. split; [exact Hks|]. split; [exact Hall|]. split; [exact SF|].
  rewrite (parse_args_ports _ _ F2), FP, parse_args_clients by exact Hd2.
  eexists. split; [reflexivity|].
  unfold ao_eqb, with_clients, with_flags, with_ports. cbn [a_ktype a_kblob a_ports a_flags a_clients app].
  rewrite !beqb_refl, (list_eqb_refl _ port_eqb_refl), flag_names_fn4, FE, Hd1, (list_eqb_refl _ client_eqb_refl).
  reflexivity.
Qed.

Lemma sent_form q cmd evs st e :
  phase_create q = Ok (ECmd cmd :: evs, st) -> in_scope q = true -> expected q = Some e ->
  exists ks kt kb toks, cmd = join [SP] (lit "ADD_ONION" :: ks :: toks) /\ ctok_ok ks /\ Forall ctok_ok toks /\
    split_first COLON ks = Some (kt, kb) /\
    exists a, parse_args toks {| a_ktype := kt; a_kblob := kb; a_ports := []; a_flags := []; a_clients := [] |} = Some a
              /\ ao_eqb a e = true.
Proof.
  intros PC IS EX. destruct (phase_create_sent _ _ _ _ PC) as (d & procs & PR & BC & _).
  exact (cmd_form q d procs cmd e PR BC IS EX).
Qed.

Lemma sent_reads_back q cmd evs st e :
  phase_create q = Ok (ECmd cmd :: evs, st) -> in_scope q = true -> expected q = Some e ->
  exists a, parse_add_onion cmd = Some a /\ ao_eqb a e = true.
Proof.
  intros PC IS EX. destruct (sent_form _ _ _ _ _ PC IS EX) as (ks & kt & kb & toks & -> & Hks & Hall & SF & a & PA & AE).
  exists a. split; [|exact AE]. now rewrite (parse_add_onion_tokens ks kt kb _ Hks Hall SF).
Qed.

Lemma no_crlf_app' a b : no_crlf (a ++ b) = no_crlf a && no_crlf b.
Proof.
  unfold no_crlf. rewrite !memb_app'.
  destruct (memb CR a), (memb CR b), (memb LF a), (memb LF b); reflexivity.
Qed.

Lemma clean_no_crlf t : clean t = true -> no_crlf t = true.
Proof. intros H. unfold no_crlf. now rewrite (clean_no CR t eq_refl H), (clean_no LF t eq_refl H). Qed.

Lemma no_crlf_join : forall toks t0, Forall ctok_ok (t0 :: toks) -> no_crlf (join [SP] (t0 :: toks)) = true.
Proof.
  intros toks t0 H. rewrite join_cons_flat. inversion H as [|? ? Hc0 Hr]; subst.
  rewrite no_crlf_app', (clean_no_crlf _ (proj2 Hc0)). cbn [andb].
  induction Hr as [|t toks [_ Ht] Hr IH]; [reflexivity|]. cbn [flat_map].
  rewrite no_crlf_app'. change (SP :: t) with ([SP] ++ t).
  rewrite no_crlf_app', (clean_no_crlf _ Ht). change (no_crlf [SP]) with true. cbn [andb].
  apply IH. constructor; [exact Hc0|exact Hr].
Qed.

Lemma sent_no_crlf q cmd evs st e :
  phase_create q = Ok (ECmd cmd :: evs, st) -> in_scope q = true -> expected q = Some e -> no_crlf cmd = true.
Proof.
  intros PC IS EX. destruct (sent_form _ _ _ _ _ PC IS EX) as (ks & kt & kb & toks & -> & Hks & Hall & _).
  apply no_crlf_join. constructor; [split; [discriminate|reflexivity]|]. constructor; assumption.
Qed.

(* ------------------------------------------------------------------------------------------
   F. create(): requests that must be honoured are; requests that must be refused are
   ------------------------------------------------------------------------------------------ *)
Lemma must_send_inv q : must_send q = true ->
  in_scope q = true /\ (exists kt kb, key_expect (q_version q) (q_key q) = KCExact kt kb true) /\
  forallb is_good (port_classes (q_ports q) (q_free q)) = true.
Proof.
  unfold must_send. intros H. apply andb_true_iff in H as [H H4]. apply andb_true_iff in H as [H H3].
  apply andb_true_iff in H as [H1 H2]. split; [exact H1|]. split; [|exact H4].
  destruct (key_expect (q_version q) (q_key q)) as [kt kb [|]| |]; try discriminate. eauto.
Qed.

Lemma good_is_map l : forallb is_good l = true -> forallb is_map l = true.
Proof.
  intros H. apply forallb_forall. intros c Hc. rewrite forallb_forall in H. specialize (H c Hc). now destruct c.
Qed.

Lemma must_send_expected q : must_send q = true -> exists e, expected q = Some e.
Proof.
  intros MS. destruct (must_send_inv _ MS) as (_ & (kt & kb & KE) & GD). unfold expected. rewrite KE.
  match goal with |- context[if ?b then _ else _] => replace b with true end; [eauto|].
  symmetry. apply forallb_forall. intros c Hc. rewrite forallb_forall in GD. specialize (GD c Hc). now destruct c.
Qed.

Lemma must_send_sends q : (q_version q = 2 \/ q_version q = 3) -> must_send q = true ->
  exists cmd d, phase_create q = Ok ([ECmd cmd; snap (svc1 q d)], CSvc (svc1 q d) true).
Proof.
  intros Hv MS. destruct (must_send_inv _ MS) as (IS & (kt & kb & KE) & GD).
  destruct (in_scope_inv _ _ _ _ IS KE) as (Ckt & Ckb & Hkb & PCl & HCl).
  destruct (ports_accepted _ _ GD PCl) as (procs & VP & VL).
  destruct (ports_tokens _ _ _ VP (good_is_map _ GD)) as (toks & PA & _).
  destruct (key_passes _ _ _ _ Hv KE Ckt Ckb) as [K1 K2].
  assert (PR : exists d, prepare q = Ok (d, procs)).
  { unfold prepare. replace ((q_version q =? 2) || (q_version q =? 3)) with true
      by (destruct Hv as [-> | ->]; reflexivity). cbn [negb].
    replace (match q_key q with KText [] => true | _ => false end) with false.
    2:{ destruct (q_key q) as [| |[|c s]]; try reflexivity. discriminate. }
    rewrite VP, VL. destruct (q_auth q) as [cl|]; [|eauto]. destruct HCl as [C1 C2].
    unfold auth_dict. rewrite (auth_fold cl [] C2) by reflexivity. cbn [app].
    replace (existsb (fun c => memb SP (fst c)) cl) with false; [eauto|]. symmetry.
    destruct (existsb (fun c => memb SP (fst c)) cl) eqn:E; [|reflexivity].
    apply existsb_exists in E as (c & Hc & M). rewrite forallb_forall in C1. specialize (C1 c Hc).
    unfold client_ok in C1. apply andb_true_iff in C1 as [C1 _]. apply andb_true_iff in C1 as [C1 _].
    apply andb_true_iff in C1 as [C1 _]. rewrite (clean_no_sp _ C1) in M. discriminate. }
  destruct PR as (d & PR).
  pose proof (build_cmd_tokens q (keystring (q_version q) (normalise_key (q_version q) (q_key q)))
                (normalise_key (q_version q) (q_key q)) procs d toks PA) as BC.
  destruct (must_send_expected q MS) as (e & EX).
  destruct (cmd_form _ _ _ _ _ PR BC IS EX) as (ks & kt' & kb' & toks' & E & Hks & Hall & _).
  set (cmd := join [SP] (lit "ADD_ONION" :: keystring (q_version q) (normalise_key (q_version q) (q_key q))
                         :: toks ++ ftoks (flags_of q (normalise_key (q_version q) (q_key q))) ++ map ctok (dlist d))) in *.
  assert (NC : no_crlf cmd = true)
    by (rewrite E; apply no_crlf_join; constructor; [split; [discriminate|reflexivity]|constructor; assumption]).
  unfold phase_create. rewrite PR. cbv zeta. rewrite K1, K2, BC.
  replace (existsb (fun c => memb (ch c) cmd) ao_cmd_forbidden) with false; [eexists _, d; reflexivity|].
  symmetry. change (existsb (fun c => memb (ch c) cmd) ao_cmd_forbidden) with (memb CR cmd || (memb LF cmd || false)).
  unfold no_crlf in NC. apply andb_true_iff in NC as [N1 N2]. apply negb_true_iff in N1, N2. now rewrite N1, N2.
Qed.

Lemma normalise_text v s : exists p, normalise_key v (KText s) = KSText (p ++ s).
Proof.
  cbn [normalise_key].
  repeat match goal with |- context[if ?b then _ else _] => destruct b end;
    try (exists []; reflexivity); eexists; reflexivity.
Qed.

(* ------------------------------------------------------------------------------------------
   G. Tor's answer: find_keywords against the Spec's reading of the lines
   ------------------------------------------------------------------------------------------ *)
Definition line_key (l : bytes) : option (bytes * bytes) := split_first EQC l.

Definition has_key (name : bytes) (l : bytes) : bool :=
  match line_key l with Some (k, _) => beqb k name | None => false end.

(* at most one line carries the key *)
Definition uniq_key (name : bytes) (ls : list bytes) : bool := (length (filter (has_key name) ls) <=? 1)%nat.

Lemma strip_prefix_app p r : strip_prefix p (p ++ r) = Some r.
Proof.
  unfold strip_prefix. rewrite prefixb_app. f_equal. induction p as [|x p IH]; [reflexivity|exact IH].
Qed.

Lemma strip_prefix_some p s r : strip_prefix p s = Some r -> s = p ++ r.
Proof.
  unfold strip_prefix. destruct (prefixb p s) eqn:P; [|discriminate]. intros [= <-]. now apply prefixb_inv.
Qed.

Lemma strip_key name l : memb EQC name = false ->
  strip_prefix (name ++ [EQC]) l = match line_key l with
                                   | Some (k, v) => if beqb k name then Some v else None
                                   | None => None
                                   end.
Proof.
  intros M. unfold line_key. destruct (strip_prefix (name ++ [EQC]) l) as [r|] eqn:S.
  - apply strip_prefix_some in S. rewrite <- app_assoc in S. cbn [app] in S. subst l.
    rewrite split_first_app by exact M. now rewrite beqb_refl.
  - destruct (split_first EQC l) as [[k v]|] eqn:SF; [|reflexivity].
    destruct (beqb k name) eqn:B; [|reflexivity]. apply beqb_eq in B. subst k.
    apply split_first_some in SF as [-> _].
    change (name ++ EQC :: v) with (name ++ [EQC] ++ v) in S. rewrite app_assoc, strip_prefix_app in S. discriminate.
Qed.

Lemma assoc_get_set {V} k k' (v : V) d :
  assoc_get k (assoc_set k' v d) = if beqb k k' then Some v else assoc_get k d.
Proof.
  induction d as [|[k2 v2] d IH]; cbn [assoc_set assoc_get].
  - destruct (beqb k k'); reflexivity.
  - destruct (beqb k' k2) eqn:E.
    + apply beqb_eq in E. subst k2. cbn [assoc_get]. destruct (beqb k k'); reflexivity.
    + cbn [assoc_get]. destruct (beqb k k2) eqn:E2; [|exact IH].
      apply beqb_eq in E2. subst k2. now rewrite beqb_sym, E.
Qed.

Definition kw_step (d : list (bytes * bytes)) (l : bytes) : list (bytes * bytes) :=
  match split_first EQC l with
  | Some (k, v) => if prefixb [ch 36] k then d else assoc_set k v d
  | None => d
  end.

Lemma keywords_fold ls : keywords ls = fold_left kw_step ls [].
Proof. reflexivity. Qed.

(* with no line for the key, the dictionary keeps what it had; with exactly one, it has that value *)
Lemma kw_lookup name : prefixb [ch 36] name = false -> forall ls d,
  assoc_get name (fold_left kw_step ls d) =
  match filter (has_key name) ls with
  | [] => assoc_get name d
  | l :: r => match line_key (last (l :: r) []) with Some (_, v) => Some v | None => None end
  end.
Proof.
  intros Hd. induction ls as [|l ls IH]; intros d; [reflexivity|].
  cbn [fold_left filter]. rewrite IH. unfold kw_step.
  destruct (has_key name l) eqn:HK; unfold has_key, line_key in HK;
    destruct (split_first EQC l) as [[k v]|] eqn:SF; try discriminate.
  - apply beqb_eq in HK. subst k. rewrite Hd.
    destruct (filter (has_key name) ls) as [|l2 r] eqn:F.
    + rewrite assoc_get_set, beqb_refl. cbn [last]. unfold line_key. now rewrite SF.
    + reflexivity.
  - destruct (filter (has_key name) ls) as [|l2 r] eqn:F; [|reflexivity].
    destruct (prefixb [ch 36] k); [reflexivity|]. now rewrite assoc_get_set, beqb_sym, HK.
  - reflexivity.
Qed.

Lemma field_lookup name : memb EQC name = false -> forall ls,
  field_of name ls = match filter (has_key name) ls with
                     | [] => None
                     | l :: _ => match line_key l with Some (_, v) => Some v | None => None end
                     end.
Proof.
  intros M. induction ls as [|l ls IH]; [reflexivity|]. cbn [field_of filter]. rewrite (strip_key name l M), IH.
  unfold has_key, line_key. destruct (split_first EQC l) as [[k v]|] eqn:SF; [|reflexivity].
  destruct (beqb k name); [|reflexivity]. unfold line_key. now rewrite SF.
Qed.

Lemma keywords_field name ls : prefixb [ch 36] name = false -> memb EQC name = false -> uniq_key name ls = true ->
  assoc_get name (keywords ls) = field_of name ls.
Proof.
  intros Hd M U. rewrite keywords_fold, (kw_lookup name Hd), (field_lookup name M).
  unfold uniq_key in U. destruct (filter (has_key name) ls) as [|l [|l2 r]]; [reflexivity|reflexivity|].
  cbn [length] in U. discriminate.
Qed.

(* ---- client tokens ---- *)
Definition names {V} (l : list (bytes * V)) : list bytes := map fst l.
Definition tokpairs (cl : list (bytes * option bytes)) : list (bytes * bytes) :=
  flat_map (fun c => match snd c with Some t => [(fst c, t)] | None => [] end) cl.

Lemma nodup_mid : forall A n B, nodup_names (A ++ n :: B) = true ->
  existsb (beqb n) A = false /\ nodup_names (A ++ B) = true /\ nodup_names ((A ++ [n]) ++ B) = true.
Proof.
  induction A as [|a A IH]; intros n B H.
  - cbn [app] in *. split; [reflexivity|]. split; [|exact H]. cbn [nodup_names] in H. now apply andb_true_iff in H as [_ H].
  - cbn [app nodup_names] in H. apply andb_true_iff in H as [H1 H2]. apply negb_true_iff in H1.
    rewrite existsb_app in H1. cbn [existsb] in H1. apply orb_false_iff in H1 as [E1 E2].
    apply orb_false_iff in E2 as [E2 E3]. destruct (IH n B H2) as (I1 & I2 & I3).
    split; [|split].
    + cbn [existsb]. now rewrite beqb_sym, E2, I1.
    + cbn [app nodup_names]. now rewrite existsb_app, E1, E3, I2.
    + cbn [app nodup_names]. rewrite !existsb_app, E1, E3. cbn [existsb]. now rewrite E2, I3.
Qed.

Lemma init_fold : forall (cl : list (bytes * option bytes)) acc,
  nodup_names (names acc ++ names cl) = true ->
  fold_left (fun acc c => match snd c with Some t => assoc_set (fst c) t acc | None => acc end) cl acc
  = acc ++ tokpairs cl.
Proof.
  induction cl as [|[n [t|]] cl IH]; intros acc H; [now rewrite app_nil_r| |].
  - cbn [fold_left fst snd names map] in *. destruct (nodup_mid _ _ _ H) as (E & _ & N).
    rewrite assoc_set_fresh by exact E. rewrite IH.
    + cbn [tokpairs flat_map fst snd app]. now rewrite <- app_assoc.
    + unfold names. now rewrite map_app.
  - cbn [fold_left fst snd names map] in *. destruct (nodup_mid _ _ _ H) as (_ & N & _).
    rewrite IH by exact N. reflexivity.
Qed.

Definition lines_ok (ls : list bytes) : bool :=
  forallb (fun l => match strip_prefix (lit "ClientAuth=") l with
                    | Some v => is_some (split_first COLON v)
                    | None => true
                    end) ls.

Lemma arc_ok : forall ls acc, lines_ok ls = true ->
  nodup_names (names acc ++ names (reply_clients ls)) = true ->
  add_reply_clients ls acc = Some (acc ++ reply_clients ls).
Proof.
  induction ls as [|l ls IH]; intros acc LO ND; [cbn; now rewrite app_nil_r|].
  cbn [lines_ok forallb] in LO. apply andb_true_iff in LO as [L1 L2].
  cbn [add_reply_clients reply_clients flat_map] in *.
  change (G ao_reply_client) with (lit "ClientAuth="). unfold strip_prefix in *.
  destruct (prefixb (lit "ClientAuth=") l).
  - destruct (split_first COLON (skipn (List.length (lit "ClientAuth=")) l)) as [[n b]|]; [|discriminate].
    cbn [app names map fst] in ND. destruct (nodup_mid _ _ _ ND) as (E & _ & N).
    rewrite assoc_set_fresh by exact E. rewrite IH; [cbn [app]; now rewrite <- app_assoc|exact L2|].
    unfold names. now rewrite map_app.
  - cbn [app] in *. now apply IH.
Qed.

Lemma assoc_subset_refl l : assoc_subset l l = true.
Proof.
  unfold assoc_subset. apply forallb_forall. intros x Hx. apply existsb_exists. exists x. split; [exact Hx|].
  unfold pair_eqb. now rewrite !beqb_refl.
Qed.

(* ---- the envelope of the answer ---- *)
Definition reply_ok (q : request) (rp : reply) : bool :=
  match rp with
  | RError => true
  | RLines ls =>
      uniq_key (lit "ServiceID") ls && uniq_key (lit "PrivateKey") ls
      && match field_of (lit "PrivateKey") ls with Some pk => beqb (py_strip pk) pk | None => true end
      && match q_auth q with
         | Some cl => lines_ok ls && nodup_names (names (tokpairs cl) ++ names (reply_clients ls))
         | None => true
         end
  end.

Definition key_after (k : keyst) (pk : option bytes) : keyst :=
  match k with
  | KSDiscard => KSNone
  | KSNone => match pk with Some x => KSText x | None => KSNone end
  | KSText x => KSText x
  end.

Lemma arc_some : forall ls acc, lines_ok ls = true -> exists cl, add_reply_clients ls acc = Some cl.
Proof.
  induction ls as [|l ls IH]; intros acc LO; [eexists; reflexivity|].
  cbn [lines_ok forallb] in LO. apply andb_true_iff in LO as [L1 L2]. cbn [add_reply_clients].
  change (G ao_reply_client) with (lit "ClientAuth="). unfold strip_prefix in L1.
  destruct (prefixb (lit "ClientAuth=") l); [|now apply IH].
  destruct (split_first COLON (skipn (List.length (lit "ClientAuth=")) l)) as [[n b]|]; [|discriminate]. now apply IH.
Qed.

(* a usable answer: the service gets the address, the key and the client tokens *)
Lemma phase_reply_good q ls s sid p2 s2 w :
  reply_ok q (RLines ls) = true ->
  field_of (lit "ServiceID") ls = Some sid ->
  (v_key s = KSNone -> field_of (lit "PrivateKey") ls <> None) ->
  phase_reply q (RLines ls) s = Ok (p2, s2, w) ->
  w = true /\ p2 = [snap s2] /\ v_host s2 = Some (sid ++ lit ".onion") /\
  v_key s2 = key_after (v_key s) (field_of (lit "PrivateKey") ls) /\
  match q_auth q with
  | None => v_clients s2 = v_clients s
  | Some cl => v_clients s = tokpairs cl -> v_clients s2 = v_clients s ++ reply_clients ls
  end.
Proof.
  intros RO FS FK. cbn [phase_reply]. destruct (existsb (memb LF) ls); [discriminate|].
  cbn [reply_ok] in RO. apply andb_true_iff in RO as [RO R4]. apply andb_true_iff in RO as [RO R3].
  apply andb_true_iff in RO as [R1 R2].
  change (G ao_reply_sid) with (lit "ServiceID"). change (G ao_reply_key) with (lit "PrivateKey").
  change (G ao_onion_suffix) with (lit ".onion").
  rewrite (keywords_field (lit "ServiceID") ls eq_refl eq_refl R1), (keywords_field (lit "PrivateKey") ls eq_refl eq_refl R2), FS.
  assert (TAIL : forall s2', v_clients s2' = v_clients s ->
            match q_auth q with
            | Some _ => match add_reply_clients ls (v_clients s2') with
                        | Some cl => Ok ([snap {| v_host := v_host s2'; v_key := v_key s2'; v_clients := cl |}],
                                         {| v_host := v_host s2'; v_key := v_key s2'; v_clients := cl |}, true)
                        | None => Ok ([EFailed ValueError; snap s2'], s2', false)
                        end
            | None => Ok ([snap s2'], s2', true)
            end = Ok (p2, s2, w) ->
            w = true /\ p2 = [snap s2] /\ v_host s2 = v_host s2' /\ v_key s2 = v_key s2' /\
            match q_auth q with
            | None => v_clients s2 = v_clients s
            | Some cl => v_clients s = tokpairs cl -> v_clients s2 = v_clients s ++ reply_clients ls
            end).
  { intros s2' VC. destruct (q_auth q) as [cl|].
    - apply andb_true_iff in R4 as [R4 R5]. rewrite VC. destruct (arc_some ls (v_clients s) R4) as (cl' & A). rewrite A.
      intros [= <- <- <-]. cbn [v_host v_key v_clients]. repeat (split; [reflexivity|]).
      intros Hc. rewrite arc_ok in A by (try exact R4; rewrite Hc; exact R5). now injection A as <-.
    - intros [= <- <- <-]. repeat (split; [reflexivity|]). exact VC. }
  destruct (v_key s) as [| |x] eqn:VK; cbn [key_after].
  - destruct (field_of (lit "PrivateKey") ls) as [pk|] eqn:FP; [|now exfalso; apply FK].
    apply beqb_eq in R3. rewrite R3. intros H. apply TAIL in H; [exact H|reflexivity].
  - intros H. apply TAIL in H; [exact H|reflexivity].
  - intros H. apply TAIL in H; [exact H|reflexivity].
Qed.

Lemma lb_no_crlf s : has_linebreak s = false -> no_crlf s = true.
Proof. unfold has_linebreak, no_crlf. intros H. apply orb_false_iff in H as [-> ->]. reflexivity. Qed.

(* ------------------------------------------------------------------------------------------
   H. the whole drive against the oracle of Spec/C14.v
   ------------------------------------------------------------------------------------------ *)
Definition is_unknown (c : pclass) : bool := match c with PCUnknown => true | _ => false end.
(* every port request is classified by the Spec (numbers are plain digit strings, a free port is
   available for every int entry) *)
Definition no_unknown (q : request) : bool := negb (existsb is_unknown (port_classes (q_ports q) (q_free q))).

Lemma prepare_version q : prepare q <> Out -> q_version q = 2 \/ q_version q = 3.
Proof.
  unfold prepare. destruct ((q_version q =? 2) || (q_version q =? 3)) eqn:V; [|cbn; congruence].
  intros _. now apply version_cases.
Qed.

Definition svc0 (q : request) : svc :=
  {| v_host := None; v_key := normalise_key (q_version q) (q_key q); v_clients := [] |}.

Lemma phase_create_cases q p1 st : phase_create q = Ok (p1, st) ->
  (q_version q = 2 \/ q_version q = 3) /\
  ((exists k, p1 = [EFailed k; ENoService] /\ st = CNone) \/
   (exists k s, p1 = [EFailed k; snap s] /\ st = CSvc s false /\ v_host s = None /\
                v_key s = normalise_key (q_version q) (q_key q)) \/
   (exists cmd d procs, p1 = [ECmd cmd; snap (svc1 q d)] /\ st = CSvc (svc1 q d) true /\ prepare q = Ok (d, procs))).
Proof.
  unfold phase_create. destruct (prepare q) as [[d procs]|k|] eqn:PR; try discriminate.
  - assert (V : q_version q = 2 \/ q_version q = 3) by (apply prepare_version; congruence).
    cbv zeta. destruct ((q_version q =? 3) && _);
      [intros [= <- <-]; split; [exact V|]; right; left; exists ValueError, (svc0 q); repeat split; reflexivity|].
    destruct (existsb _ ao_key_forbidden);
      [intros [= <- <-]; split; [exact V|]; right; left; exists ValueError, (svc0 q); repeat split; reflexivity|].
    destruct (build_cmd _ _ _ _ _) as [c|e|]; try discriminate.
    + destruct (existsb _ ao_cmd_forbidden); intros [= <- <-]; split; try exact V.
      * right; left. exists ValueError, (svc1 q d). repeat split; reflexivity.
      * right; right. exists c, d, procs. repeat split; reflexivity.
    + intros [= <- <-]; split; try exact V. right; left. exists e, (svc0 q). repeat split; reflexivity.
  - intros [= <- <-]. split; [apply prepare_version; congruence|]. left. exists k. split; reflexivity.
Qed.

(* ---- a line break anywhere in the arguments ends up in the assembled command ---- *)
Lemma has_lb_app a b : has_linebreak (a ++ b) = has_linebreak a || has_linebreak b.
Proof.
  unfold has_linebreak. rewrite !memb_app'.
  destruct (memb CR a), (memb CR b), (memb LF a), (memb LF b); reflexivity.
Qed.

Lemma digits_no_lb s : forallb is_digit s = true -> has_linebreak s = false.
Proof. intros H. unfold has_linebreak. now rewrite (digits_no CR s eq_refl H), (digits_no LF s eq_refl H). Qed.

Definition port_hostile (p : preq) : bool :=
  match p with PStr s _ => has_linebreak s | PPair _ (LText t _) => has_linebreak t | _ => false end.

Lemma process_port_hostile p free s loc free' :
  process_port p free = Ok (s, loc, free') -> port_hostile p = true -> has_linebreak s = true.
Proof.
  destruct p as [n | r l | ps fl]; cbn [process_port port_hostile]; [discriminate| |].
  - destruct l as [m|t tfl]; [discriminate|]. intros H HL.
    destruct (match r with NInt n => Ok (Some n) | NStr s0 => py_int s0 end) as [[rn|]|k|]; try discriminate.
    destruct (py_int t) as [[m|]|k|] eqn:PI; try discriminate.
    + apply py_int_ok, parse_dec_some in PI as [_ PI]. rewrite (digits_no_lb _ PI) in HL. discriminate.
    + assert (K : Ok (dec_of_N rn ++ SP :: t, tfl, free) = Ok (s, loc, free')).
      { destruct (prefixb (lit "unix:/") t); [exact H|]. destruct (negb (memb COLON t)); [discriminate|].
        destruct (split_all COLON t) as [|x1 [|x2 [|x3 r3]]]; try discriminate. exact H. }
      injection K as <- _ _. change (SP :: t) with ([SP] ++ t). rewrite !has_lb_app, HL. now rewrite !orb_true_r.
  - destruct (validate_single ps fl) as [[]|k|]; try discriminate. now intros [= <- _ _] HL.
Qed.

Definition lbfst (x : bytes * bool) : bool := has_linebreak (fst x).

Lemma validate_ports_hostile : forall ps free procs, validate_ports ps free = Ok procs ->
  existsb port_hostile ps = true -> existsb lbfst procs = true.
Proof.
  induction ps as [|p ps IH]; intros free procs V H; [discriminate|].
  cbn [validate_ports] in V. destruct (process_port p free) as [[[s loc] fr']|k|] eqn:PP; try discriminate.
  destruct (validate_ports ps fr') as [r|k|] eqn:V'; try discriminate. injection V as <-.
  cbn [existsb] in *. apply orb_true_iff in H as [H|H].
  - unfold lbfst at 1. cbn [fst]. now rewrite (process_port_hostile _ _ _ _ _ PP H).
  - rewrite (IH _ _ V' H). apply orb_true_r.
Qed.

Lemma port_args_hostile : forall procs pa, port_args procs = Ok pa -> existsb lbfst procs = true ->
  has_linebreak pa = true.
Proof.
  induction procs as [|[p loc] procs IH]; intros pa H HL; [discriminate|].
  cbn [port_args] in H. unfold port_arg in H. destruct (split_first SP p) as [[a b]|] eqn:SF; try discriminate.
  destruct (port_args procs) as [r|k|] eqn:PA; try discriminate. apply Ok_inj in H. subst pa.
  cbn [existsb] in HL. rewrite !has_lb_app. apply orb_true_iff in HL as [HL|HL].
  - unfold lbfst in HL. cbn [fst] in HL. apply split_first_some in SF as [-> _].
    change (SP :: b) with ([SP] ++ b) in HL. rewrite !has_lb_app in HL. change (has_linebreak [SP]) with false in HL.
    cbn [orb] in HL. apply orb_true_iff in HL as [HL|HL]; rewrite HL; now rewrite !orb_true_r.
  - rewrite (IH r eq_refl HL). apply orb_true_r.
Qed.

Definition client_hostile (c : bytes * option bytes) : bool :=
  has_linebreak (fst c) || match snd c with Some t => has_linebreak t | None => false end.

Lemma client_args_hostile : forall d, existsb client_hostile d = true -> has_linebreak (client_args d) = true.
Proof.
  induction d as [|[n t] d IH]; intros H; [discriminate|]. cbn [existsb] in H.
  unfold client_args in *. cbn [flat_map fst snd]. rewrite has_lb_app. apply orb_true_iff in H as [H|H].
  - unfold client_hostile in H. cbn [fst snd] in H. destruct t as [t|]; rewrite !has_lb_app.
    + apply orb_true_iff in H as [H|H]; rewrite H; now rewrite !orb_true_r.
    + rewrite orb_false_r in H. rewrite H. now rewrite !orb_true_r.
  - rewrite (IH H). apply orb_true_r.
Qed.

Lemma build_cmd_hostile q ks k procs d cmd : build_cmd q ks k procs d = Ok cmd ->
  existsb lbfst procs = true \/ existsb client_hostile (dlist d) = true -> has_linebreak cmd = true.
Proof.
  unfold build_cmd. destruct (port_args procs) as [pa|e|] eqn:PA; try discriminate. intros E H.
  apply Ok_inj in E. subst cmd. rewrite !has_lb_app. destruct H as [H|H].
  - rewrite (port_args_hostile _ _ PA H). now rewrite !orb_true_r.
  - destruct d as [d|]; [|discriminate]. cbn [dlist] in H. rewrite (client_args_hostile _ H). now rewrite !orb_true_r.
Qed.

(* requests that must be refused never get a command out *)
Lemma refuse_not_sent q cmd evs st : must_refuse q = true -> phase_create q = Ok (ECmd cmd :: evs, st) -> False.
Proof.
  intros MR PC. destruct (phase_create_sent _ _ _ _ PC) as (d & procs & PR & BC & _ & _ & LC & LK).
  destruct (prepare_ok _ _ _ PR) as (_ & HA & VP & _).
  unfold must_refuse in MR. apply orb_true_iff in MR as [MR|MR]; [apply orb_true_iff in MR as [MR|MR]|].
  - destruct (key_expect (q_version q) (q_key q)) eqn:KE; try discriminate.
    destruct (q_key q) as [| |s] eqn:QK; cbn [key_expect] in KE; try (destruct (q_version q =? 3); discriminate).
    destruct (has_linebreak s) eqn:LB.
    2:{ destruct (split_first COLON s) as [[t b]|]; [discriminate|]. destruct s; discriminate. }
    destruct (normalise_text (q_version q) s) as (p & NK). rewrite NK in LK. cbn [keystring] in LK.
    rewrite has_lb_app, LB, orb_true_r in LK. discriminate.
  - exact (ports_refused _ _ _ MR VP).
  - apply andb_true_iff in MR as [HL ND]. unfold hostile_linebreak in HL. unfold names_distinct in ND.
    assert (has_linebreak cmd = true); [|congruence].
    apply (build_cmd_hostile _ _ _ _ _ _ BC). apply orb_true_iff in HL as [HL|HL].
    + left. exact (validate_ports_hostile _ _ _ VP HL).
    + right. destruct HA as [[A ->]|(cl & dd & A & AD & ->)]; rewrite A in *; [discriminate|].
      rewrite (auth_dict_nodup _ _ AD ND). exact HL.
Qed.

Lemma must_refuse_refuses q evs st : must_refuse q = true -> phase_create q = Ok (evs, st) ->
  cmds_of evs = [] /\ failed evs = true.
Proof.
  intros MR PC.
  destruct (phase_create_cases _ _ _ PC) as (_ & [(k & -> & ->)|[(k & s & -> & -> & _)|(cmd & d & procs & -> & -> & _)]]);
    [auto|auto|]. exfalso. exact (refuse_not_sent _ _ _ _ MR PC).
Qed.

Lemma key_unknown v k : key_expect v k = KCUnknown -> k = KText [].
Proof.
  destruct k as [| |s]; cbn [key_expect]; try (destruct (v =? 3); discriminate).
  destruct (has_linebreak s); [discriminate|]. destruct (split_first COLON s) as [[t b]|]; [discriminate|].
  destruct s; [reflexivity|discriminate].
Qed.

Lemma sent_expected q cmd evs st : phase_create q = Ok (ECmd cmd :: evs, st) -> no_unknown q = true ->
  exists e, expected q = Some e.
Proof.
  intros PC NU. destruct (phase_create_sent _ _ _ _ PC) as (d & procs & PR & _).
  destruct (prepare_ok _ _ _ PR) as (_ & _ & VP & _). unfold expected.
  destruct (key_expect (q_version q) (q_key q)) as [kt kb m| |] eqn:KE.
  - match goal with |- context[if ?b then _ else _] => replace b with true end; [eauto|].
    symmetry. apply forallb_forall. intros c Hc. destruct c; try reflexivity; exfalso.
    + apply (ports_refused (q_ports q) (q_free q) procs); [apply existsb_exists; exists PCBad; auto|exact VP].
    + unfold no_unknown in NU. apply negb_true_iff in NU.
      assert (existsb is_unknown (port_classes (q_ports q) (q_free q)) = true) by (apply existsb_exists; eauto).
      congruence.
  - exfalso. assert (MR : must_refuse q = true) by (unfold must_refuse; now rewrite KE).
    destruct (must_refuse_refuses q _ _ MR PC) as [C _]. discriminate.
  - exfalso. apply key_unknown in KE. unfold prepare in PR. rewrite KE in PR.
    destruct (negb _); discriminate.
Qed.

Definition keyrel (k0 k : keyst) : Prop :=
  k = k0 \/ (k0 = KSDiscard /\ k = KSNone) \/ (k0 = KSNone /\ exists x, k = KSText x).

Definition snapsP (P : option bytes -> keyst -> list (bytes * bytes) -> Prop) (evs : list ev) : Prop :=
  forall h k c, In (ESnap h k c) evs -> P h k c.

Lemma snaps_ok_of f evs : snapsP (fun h k c => f h k c = true) evs -> snaps_ok f evs = true.
Proof.
  intros H. unfold snaps_ok. apply forallb_forall. intros e He. destruct e; try reflexivity. now apply H.
Qed.

Lemma reply_facts q rp s p2 s2 w : phase_reply q rp s = Ok (p2, s2, w) ->
  cmds_of p2 = [] /\ keyrel (v_key s) (v_key s2) /\
  snapsP (fun _ k _ => keyrel (v_key s) k) p2 /\
  (v_host s2 = None -> v_host s = None -> failed p2 = true).
Proof.
  assert (K0 : forall k, keyrel k k) by (intros k; left; reflexivity).
  assert (S1 : forall k0 h0 k1 c0 pre, keyrel k0 k1 ->
               (forall h k c, In (ESnap h k c) pre -> False) ->
               snapsP (fun _ k _ => keyrel k0 k) (pre ++ [ESnap h0 k1 c0])).
  { intros k0 h0 k1 c0 pre Hx Hp h k c Hin. apply in_app_or in Hin as [Hin|[Hin|[]]]; [now apply Hp in Hin|].
    now injection Hin as _ <- _. }
  assert (NF : forall k h kk c, In (ESnap h kk c) [EFailed k] -> False) by (intros k h kk c [H|[]]; discriminate).
  destruct rp as [ls|]; cbn [phase_reply].
  2:{ intros [= <- <- <-]. repeat split; [apply K0|apply (S1 _ _ _ _ [EFailed TorProtocolError] (K0 _) (NF _))]. }
  destruct (existsb (memb LF) ls); [discriminate|].
  destruct (assoc_get (G ao_reply_sid) (keywords ls)) as [sid|].
  2:{ intros [= <- <- <-]. repeat split; [apply K0|apply (S1 _ _ _ _ [EFailed RuntimeError] (K0 _) (NF _))]. }
  destruct (v_key s) as [| |x] eqn:VK.
  - destruct (assoc_get (G ao_reply_key) (keywords ls)) as [pk|].
    + assert (KR : keyrel KSNone (KSText (py_strip pk))) by (right; right; eauto).
      destruct (q_auth q).
      * destruct (add_reply_clients ls _) as [cl|].
        -- intros [= <- <- <-]. repeat split; [exact KR|apply (S1 _ _ _ _ [] KR); intros ? ? ? []|discriminate].
        -- intros [= <- <- <-]. repeat split; [exact KR|apply (S1 _ _ _ _ [EFailed ValueError] KR (NF _))].
      * intros [= <- <- <-]. repeat split; [exact KR|apply (S1 _ _ _ _ [] KR); intros ? ? ? []|discriminate].
    + intros [= <- <- <-]. cbn [v_key]. try rewrite VK.
      repeat split; [apply K0|].
      apply (S1 KSNone _ _ _ [EFailed RuntimeError] (K0 _) (NF _)).
  - assert (KR : keyrel KSDiscard KSNone) by (right; left; auto).
    destruct (q_auth q).
    + destruct (add_reply_clients ls _) as [cl|].
      * intros [= <- <- <-]. repeat split; [exact KR|apply (S1 _ _ _ _ [] KR); intros ? ? ? []|discriminate].
      * intros [= <- <- <-]. repeat split; [exact KR|apply (S1 _ _ _ _ [EFailed ValueError] KR (NF _))].
    + intros [= <- <- <-]. repeat split; [exact KR|apply (S1 _ _ _ _ [] KR); intros ? ? ? []|discriminate].
  - assert (KR : keyrel (KSText x) (KSText x)) by apply K0.
    destruct (q_auth q).
    + destruct (add_reply_clients ls _) as [cl|].
      * intros [= <- <- <-]. cbn [v_key]. try rewrite VK.
        repeat split; [exact KR| |discriminate].
        apply (S1 (KSText x) _ _ _ [] KR). intros ? ? ? [].
      * intros [= <- <- <-]. cbn [v_key]. try rewrite VK. repeat split; [exact KR|].
        apply (S1 (KSText x) _ _ _ [EFailed ValueError] KR (NF _)).
    + intros [= <- <- <-]. cbn [v_key]. try rewrite VK. repeat split; [exact KR| |discriminate].
      apply (S1 (KSText x) _ _ _ [] KR). intros ? ? ? [].
Qed.

Lemma oracle_not_sent q rp p1 :
  cmds_of p1 = [] -> failed p1 = true -> must_send q = false ->
  (q_key q = KDiscard -> snaps_ok (fun _ k _ => negb (key_is_text k)) p1 = true) ->
  oracle q rp [p1; []; []; []] = true.
Proof.
  intros C F MS D. unfold oracle, o_count, o_refuse, o_send, o_read, o_discard, o_supplied, o_before, o_after, sent_of.
  rewrite C, F, MS. cbn [app cmds_of flat_map nlen length is_nil forallb N.of_nat N.leb N.compare andb].
  destruct (must_refuse q); cbn [andb].
  - destruct (q_key q) eqn:K; cbn [forallb snaps_ok andb];
      try (destruct (key_expect (q_version q) _)); try reflexivity. now rewrite D.
  - destruct (q_key q) eqn:K; cbn [forallb snaps_ok andb];
      try (destruct (key_expect (q_version q) _)); try reflexivity. now rewrite D.
Qed.

Lemma keyrel_discard k : keyrel KSDiscard k -> key_is_text k = false.
Proof. intros [->|[[_ ->]|[E _]]]; try reflexivity. discriminate. Qed.

Lemma keyrel_text x k : keyrel (KSText x) k -> k = KSText x.
Proof. intros [->|[[E _]|[E _]]]; try reflexivity; discriminate. Qed.

Lemma sid_of_host_app sid : sid_of_host (sid ++ lit ".onion") = sid.
Proof.
  unfold sid_of_host. change (G ao_onion_suffix) with (lit ".onion"). rewrite app_length, Nat.add_sub.
  rewrite firstn_app, Nat.sub_diag, firstn_all. cbn [firstn]. now rewrite app_nil_r.
Qed.

Lemma isspace_no_crlf s : existsb py_isspace s = false -> no_crlf s = true.
Proof.
  intros H. unfold no_crlf. apply andb_true_iff. split; apply negb_true_iff.
  - destruct (memb CR s) eqn:M; [|reflexivity]. apply memb_In' in M.
    now rewrite (existsb_false_In' _ _ H _ M) || (pose proof (existsb_false_In' _ _ H _ M) as X; discriminate).
  - destruct (memb LF s) eqn:M; [|reflexivity]. apply memb_In' in M.
    now rewrite (existsb_false_In' _ _ H _ M) || (pose proof (existsb_false_In' _ _ H _ M) as X; discriminate).
Qed.

Lemma reply_sid_inv q ls sid : reply_sid q (RLines ls) = Some sid ->
  field_of (lit "ServiceID") ls = Some sid /\ (q_key q = KNone -> field_of (lit "PrivateKey") ls <> None).
Proof.
  cbn [reply_sid]. destruct (field_of (lit "ServiceID") ls) as [s|]; [|discriminate].
  destruct (q_key q); destruct (field_of (lit "PrivateKey") ls); try discriminate; intros [= ->]; split; congruence.
Qed.

Lemma svc1_clients q d cl : prepare q = Ok (d, cl) -> True.
Proof. trivial. Qed.

(* the clients known when the command has been built are the ones that came with a token *)
Lemma svc1_clients_tok q d procs cl : prepare q = Ok (d, procs) -> in_scope q = true -> q_auth q = Some cl ->
  init_clients d = tokpairs cl.
Proof.
  intros PR IS QA. destruct (prepare_ok _ _ _ PR) as (_ & HA & _).
  destruct HA as [[A _]|(cl' & dd & A & AD & ->)]; [congruence|]. rewrite QA in A. injection A as <-.
  unfold in_scope in IS. rewrite QA in IS. apply andb_true_iff in IS as [_ IS]. apply andb_true_iff in IS as [_ ND].
  rewrite (auth_dict_nodup _ _ AD ND). cbn [init_clients]. now rewrite (init_fold cl []) by exact ND.
Qed.

Lemma normalise_none_disc v k : normalise_key v k = KSNone -> k = KNone.
Proof.
  destruct k as [| |s]; [reflexivity|discriminate|]. destruct (normalise_text v s) as (p & E). rewrite E. discriminate.
Qed.

Lemma forallb_4 {A} (f : A -> bool) a b c d :
  f a = true -> f b = true -> f c = true -> f d = true -> forallb f [a; b; c; d] = true.
Proof. intros H1 H2 H3 H4. cbn [forallb]. now rewrite H1, H2, H3, H4. Qed.

Theorem oracle_holds q rp tr :
  run q rp = Some tr -> no_unknown q = true -> reply_ok q rp = true ->
  oracle q rp tr = true.
Proof.
  intros R NU RO. unfold run in R.
  destruct (phase_create q) as [[p1 st]|k|] eqn:PC; try discriminate.
  destruct (phase_create_cases _ _ _ PC) as (Hv & [(k & -> & ->)|[(k & s0 & -> & -> & H0 & K0)|(cmd & d & procs & -> & -> & PR)]]).
  - (* refused before a service object exists *)
    injection R as <-. apply oracle_not_sent; try reflexivity.
    destruct (must_send q) eqn:MS; [|reflexivity]. destruct (must_send_sends q Hv MS) as (c & d' & E). congruence.
  - (* refused, the service object stays registered without address *)
    injection R as <-. apply oracle_not_sent; try reflexivity.
    + destruct (must_send q) eqn:MS; [|reflexivity]. destruct (must_send_sends q Hv MS) as (c & d' & E). congruence.
    + intros K. unfold snaps_ok, snap. cbn [forallb]. rewrite K0, K. reflexivity.
  - (* sent *)
    destruct (sent_expected _ _ _ _ PC NU) as (e & EX).
    set (s1 := svc1 q d) in *.
    destruct (phase_reply q rp s1) as [[[p2 s2] w]|k|] eqn:PRp; try discriminate.
    destruct (reply_facts _ _ _ _ _ _ PRp) as (C2 & KR2 & SN2 & HF).
    assert (NR : must_refuse q = false).
    { destruct (must_refuse q) eqn:MR; [|reflexivity]. destruct (must_refuse_refuses _ _ _ MR PC) as [C _]. discriminate. }
    assert (NC : no_crlf cmd = true).
    { destruct (phase_create_sent _ _ _ _ PC) as (d' & procs' & _ & _ & _ & _ & LC & _). now apply lb_no_crlf. }
    (* the part of the trace after the answer *)
    assert (TR : exists p3 p4, tr = [[ECmd cmd; snap s1]; p2; p3; p4] /\
                 cmds_of p3 = [] /\ snapsP (fun _ k _ => k = v_key s2) p3 /\ snapsP (fun _ k _ => k = v_key s2) p4 /\
                 ((v_host s2 = None /\ p3 = [] /\ p4 = []) \/
                  (exists h, v_host s2 = Some h /\ existsb py_isspace (sid_of_host h) = false /\
                     p3 = match q_auth q with None => if w then [EDone true; snap s2] else [] | Some _ => [] end /\
                     p4 = [ECmd (G ao_del_cmd ++ sid_of_host h); ERemoved; snap s2]))).
    { destruct (v_host s2) as [h|] eqn:VH.
      - destruct (negb (negb (is_nil (sid_of_host h)) && negb (existsb py_isspace (sid_of_host h)))) eqn:W; [discriminate|].
        injection R as <-. eexists _, _. split; [reflexivity|].
        apply negb_false_iff in W. apply andb_true_iff in W as [_ W]. apply negb_true_iff in W.
        split; [destruct (q_auth q); [reflexivity|destruct w; reflexivity]|].
        split; [|split].
        + intros h0 k0 c0 Hin. destruct (q_auth q); [destruct Hin|]. destruct w; [|destruct Hin].
          destruct Hin as [Hin|[Hin|[]]]; [discriminate|]. now injection Hin as _ <- _.
        + intros h0 k0 c0 Hin. destruct Hin as [Hin|[Hin|[Hin|[]]]]; try discriminate. now injection Hin as _ <- _.
        + right. exists h. auto.
      - injection R as <-. exists [], []. split; [reflexivity|]. split; [reflexivity|].
        split; [intros ? ? ? []|]. split; [intros ? ? ? []|]. left. auto. }
    destruct TR as (p3 & p4 & -> & C3 & SN3 & SN4 & TAIL).
    unfold oracle.
    assert (SO : sent_of [ECmd cmd; snap s1] = true) by reflexivity.
    assert (C4 : cmds_of p4 = [] \/ exists h, v_host s2 = Some h /\ existsb py_isspace (sid_of_host h) = false
                                              /\ cmds_of p4 = [G ao_del_cmd ++ sid_of_host h]).
    { destruct TAIL as [(_ & _ & ->)|(h & VH & W & _ & ->)]; [left; reflexivity|right; exists h; auto]. }
    assert (O1 : o_count [ECmd cmd; snap s1] p2 p3 p4 = true).
    {
      (* o_count *)
      unfold o_count. rewrite C2, C3. change (cmds_of [ECmd cmd; snap s1]) with [cmd].
      destruct C4 as [->|(h & _ & W & ->)]; cbn [app forallb]; rewrite NC; [reflexivity|].
      change (G ao_del_cmd) with (lit "DEL_ONION "). rewrite no_crlf_app', (isspace_no_crlf _ W). reflexivity.
    }
    assert (O2 : o_refuse q [ECmd cmd; snap s1] = true).
    {
      unfold o_refuse. now rewrite NR.
    }
    assert (O3 : o_send q [ECmd cmd; snap s1] = true).
    {
      unfold o_send. rewrite SO. cbn. now destruct (must_send q).
    }
    assert (O4 : o_read q [ECmd cmd; snap s1] = true).
    {
      unfold o_read. change (cmds_of [ECmd cmd; snap s1]) with [cmd]. rewrite EX.
      destruct (in_scope q) eqn:IS; [|reflexivity].
      destruct (sent_reads_back _ _ _ _ _ PC IS EX) as (a & PA & AE). rewrite PA. exact AE.
    }
    assert (O5 : o_discard q [[ECmd cmd; snap s1]; p2; p3; p4] = true).
    {
      (* o_discard *)
      unfold o_discard. destruct (q_key q) eqn:QK; try reflexivity.
      assert (K1 : v_key s1 = KSDiscard) by (unfold s1, svc1; cbn [v_key]; now rewrite QK).
      rewrite K1 in *. apply forallb_4; apply snaps_ok_of.
      * intros h k c [Hin|[Hin|[]]]; [discriminate|]. injection Hin as _ <- _.
        change (negb (key_is_text (v_key s1)) = true). now rewrite K1.
      * intros h k c Hin. apply negb_true_iff. apply keyrel_discard. now apply (SN2 h k c).
      * intros h k c Hin. rewrite (SN3 h k c Hin). apply negb_true_iff. now apply keyrel_discard.
      * intros h k c Hin. rewrite (SN4 h k c Hin). apply negb_true_iff. now apply keyrel_discard.
    }
    assert (O6 : o_supplied q [ECmd cmd; snap s1] [[ECmd cmd; snap s1]; p2; p3; p4] = true).
    {
      (* o_supplied *)
      unfold o_supplied. destruct (q_key q) as [| |s0] eqn:QK; try reflexivity.
      destruct (key_expect (q_version q) (KText s0)) as [kt kb m| |] eqn:KE; try reflexivity. rewrite SO.
      assert (K1 : v_key s1 = KSText (kt ++ COLON :: kb)).
      { unfold s1, svc1. cbn [v_key]. rewrite QK. destruct (normalise_text (q_version q) s0) as (p & NK).
        pose proof (key_agree _ _ _ _ _ Hv KE) as SF. rewrite NK in SF |- *. cbn [keystring] in SF.
        now apply split_first_some in SF as [-> _]. }
      rewrite K1 in *.
      assert (KT : forall k, keyrel (KSText (kt ++ COLON :: kb)) k -> keyst_eqb k (KSText (kt ++ COLON :: kb)) = true).
      { intros k Hk. rewrite (keyrel_text _ _ Hk). cbn. apply beqb_refl. }
      apply forallb_4; apply snaps_ok_of.
      * intros h k c [Hin|[Hin|[]]]; [discriminate|]. injection Hin as _ <- _.
        change (keyst_eqb (v_key s1) (KSText (kt ++ COLON :: kb)) = true). rewrite K1. now apply KT, or_introl.
      * intros h k c Hin. apply KT. now apply (SN2 h k c).
      * intros h k c Hin. rewrite (SN3 h k c Hin). now apply KT.
      * intros h k c Hin. rewrite (SN4 h k c Hin). now apply KT.
    }
    assert (O7 : o_before q [ECmd cmd; snap s1] = true).
    {
      (* o_before *)
      unfold o_before. rewrite SO. apply snaps_ok_of. intros h k c [Hin|[Hin|[]]]; [discriminate|].
      injection Hin as <- <- _. unfold s1, svc1. cbn [v_host v_key]. destruct (q_key q); reflexivity.
    }
    assert (O8 : o_after q rp [ECmd cmd; snap s1] p2 p3 p4 = true).
    {
      (* o_after *)
      unfold o_after. rewrite SO.
      destruct (reply_sid q rp) as [sid|] eqn:RS; [|reflexivity]. destruct rp as [ls|]; [|reflexivity].
      destruct (reply_sid_inv _ _ _ RS) as [FS FK].
      assert (FK' : v_key s1 = KSNone -> field_of (lit "PrivateKey") ls <> None).
      { intros K1. apply FK. unfold s1, svc1 in K1. cbn [v_key] in K1. now apply normalise_none_disc in K1. }
      destruct (phase_reply_good q ls s1 sid p2 s2 w RO FS FK' PRp) as (-> & -> & VH & VK2 & VC).
      destruct TAIL as [(VN & _)|(h & VH' & W & -> & ->)]; [congruence|].
      assert (h = sid ++ lit ".onion") by congruence. subst h. rewrite sid_of_host_app.
      assert (SNAP : forall (P : option bytes -> keyst -> list (bytes * bytes) -> bool),
                P (v_host s2) (v_key s2) (v_clients s2) = true -> forall evs,
                (forall e, In e evs -> e = snap s2 \/ match e with ESnap _ _ _ => False | _ => True end) ->
                snaps_ok P evs = true).
      { intros P HP evs Hall. unfold snaps_ok. apply forallb_forall. intros e' He.
        destruct (Hall e' He) as [->|Hn]; [exact HP|]. now destruct e'. }
      set (cond := fun (h : option bytes) (k : keyst) (c : list (bytes * bytes)) => _).
      assert (HC : cond (v_host s2) (v_key s2) (v_clients s2) = true).
      { unfold cond. rewrite VH, VK2. cbn [option_eqb]. rewrite beqb_refl. cbn [andb].
        apply andb_true_iff. split.
        - destruct (q_key q) eqn:QK; try reflexivity.
          destruct (field_of (lit "PrivateKey") ls) as [pk|]; [|reflexivity].
          unfold s1, svc1. cbn [v_key]. rewrite QK. cbn. apply beqb_refl.
        - destruct (q_auth q) as [cl|] eqn:QA.
          + destruct (in_scope q) eqn:IS; [|reflexivity].
            assert (CL : v_clients s1 = tokpairs cl).
            { unfold s1, svc1. cbn [v_clients]. now apply (svc1_clients_tok q d procs cl). }
            rewrite (VC CL). unfold expected_clients. rewrite QA, CL. fold (tokpairs cl). now rewrite assoc_subset_refl.
          + rewrite VC. unfold s1, svc1. cbn [v_clients].
            destruct (prepare_ok _ _ _ PR) as (_ & [[_ ->]|(cl' & dd & A & _)] & _); [reflexivity|congruence]. }
      assert (S2a : snaps_ok cond [snap s2] = true)
        by (apply SNAP; [exact HC|intros e' [<-|[]]; left; reflexivity]).
      assert (S2c : snaps_ok cond [ECmd (G ao_del_cmd ++ sid); ERemoved; snap s2] = true)
        by (apply SNAP; [exact HC|intros e' [<-|[<-|[<-|[]]]]; auto]).
      assert (S2b : snaps_ok cond [EDone true; snap s2] = true)
        by (apply SNAP; [exact HC|intros e' [<-|[<-|[]]]; auto]).
      change (negb (failed [snap s2]) && has_snap [snap s2]) with true.
      change (cmds_of [ECmd (G ao_del_cmd ++ sid); ERemoved; snap s2]) with [lit "DEL_ONION " ++ sid].
      cbn [forallb list_eqb]. rewrite S2a, S2c, beqb_refl.
      destruct (q_auth q); cbn [andb]; [reflexivity|]. rewrite S2b. reflexivity.
    }
    now rewrite O1, O2, O3, O4, O5, O6, O7, O8.
Qed.

(* ------------------------------------------------------------------------------------------
   I. the statements of Properties/C14.v
   ------------------------------------------------------------------------------------------ *)
Theorem roundtrip q : (q_version q = 2 \/ q_version q = 3) -> must_send q = true ->
  exists cmd d e a, phase_create q = Ok ([ECmd cmd; snap (svc1 q d)], CSvc (svc1 q d) true) /\
    expected q = Some e /\ parse_add_onion cmd = Some a /\ ao_eqb a e = true.
Proof.
  intros Hv MS. destruct (must_send_sends q Hv MS) as (cmd & d & PC). destruct (must_send_expected q MS) as (e & EX).
  destruct (must_send_inv _ MS) as (IS & _). destruct (sent_reads_back _ _ _ _ _ PC IS EX) as (a & PA & AE).
  exists cmd, d, e, a. auto.
Qed.

Lemma refused_run q rp tr : must_refuse q = true -> run q rp = Some tr ->
  exists p1, tr = [p1; []; []; []] /\ cmds_of p1 = [] /\ failed p1 = true.
Proof.
  intros MR R. unfold run in R. destruct (phase_create q) as [[p1 st]|k|] eqn:PC; try discriminate.
  destruct (must_refuse_refuses _ _ _ MR PC) as [C F].
  destruct (phase_create_cases _ _ _ PC) as (_ & [(k & -> & ->)|[(k & s0 & -> & -> & _ & K0)|(cmd & d & procs & -> & -> & _)]]).
  - injection R as <-. eauto.
  - injection R as <-. eauto.
  - discriminate.
Qed.

Lemma linebreak_key_refused q s : q_key q = KText s -> has_linebreak s = true -> must_refuse q = true.
Proof. intros K L. unfold must_refuse. rewrite K. cbn [key_expect]. now rewrite L. Qed.

Lemma linebreak_anywhere_refused q : hostile_linebreak q = true -> names_distinct q = true -> must_refuse q = true.
Proof. intros H N. unfold must_refuse. rewrite H, N. now rewrite orb_true_r. Qed.

Lemma snapsP_nil P : snapsP P [].
Proof. intros ? ? ? []. Qed.

Lemma run_keys q rp tr : run q rp = Some tr -> forall evs, In evs tr ->
  snapsP (fun _ k _ => keyrel (normalise_key (q_version q) (q_key q)) k) evs.
Proof.
  intros R. unfold run in R. destruct (phase_create q) as [[p1 st]|k|] eqn:PC; try discriminate.
  assert (K0 : forall k, keyrel k k) by (intros k; left; reflexivity).
  destruct (phase_create_cases _ _ _ PC) as (_ & [(k & -> & ->)|[(k & s0 & -> & -> & _ & KS0)|(cmd & d & procs & -> & -> & _)]]).
  - injection R as <-. intros evs [<-|[<-|[<-|[<-|[]]]]]; [|apply snapsP_nil|apply snapsP_nil|apply snapsP_nil].
    intros h k0 c [Hin|[Hin|[]]]; discriminate.
  - injection R as <-. intros evs [<-|[<-|[<-|[<-|[]]]]]; [|apply snapsP_nil|apply snapsP_nil|apply snapsP_nil].
    intros h k0 c [Hin|[Hin|[]]]; [discriminate|]. injection Hin as _ <- _. rewrite KS0. apply K0.
  - destruct (phase_reply q rp (svc1 q d)) as [[[p2 s2] w]|k|] eqn:PRp; try discriminate.
    destruct (reply_facts _ _ _ _ _ _ PRp) as (_ & KR2 & SN2 & _).
    assert (S2 : forall h k0 c, ESnap h k0 c = snap s2 -> keyrel (normalise_key (q_version q) (q_key q)) k0)
      by (intros h k0 c E; injection E as _ -> _; exact KR2).
    assert (P1 : snapsP (fun _ k _ => keyrel (normalise_key (q_version q) (q_key q)) k) [ECmd cmd; snap (svc1 q d)]).
    { intros h k0 c [Hin|[Hin|[]]]; [discriminate|]. injection Hin as _ <- _. apply K0. }
    destruct (v_host s2) as [h|].
    + destruct (negb _); [discriminate|]. injection R as <-.
      intros evs [<-|[<-|[<-|[<-|[]]]]]; [exact P1|exact SN2| |].
      * intros h0 k0 c Hin. destruct (q_auth q); [destruct Hin|]. destruct w; [|destruct Hin].
        destruct Hin as [Hin|[Hin|[]]]; [discriminate|]. now apply (S2 h0 k0 c).
      * intros h0 k0 c [Hin|[Hin|[Hin|[]]]]; try discriminate. now apply (S2 h0 k0 c).
    + injection R as <-. intros evs [<-|[<-|[<-|[<-|[]]]]]; [exact P1|exact SN2|apply snapsP_nil|apply snapsP_nil].
Qed.

Theorem discard_never_stored q rp tr : q_key q = KDiscard -> run q rp = Some tr ->
  forall evs h k c, In evs tr -> In (ESnap h k c) evs -> key_is_text k = false.
Proof.
  intros K R evs h k c He Hin. apply keyrel_discard. pose proof (run_keys q rp tr R evs He h k c Hin) as KR.
  now rewrite K in KR.
Qed.

Theorem supplied_key_kept q rp tr s kt kb m : q_key q = KText s ->
  key_expect (q_version q) (q_key q) = KCExact kt kb m -> run q rp = Some tr ->
  forall evs h k c, In evs tr -> In (ESnap h k c) evs -> k = KSText (kt ++ COLON :: kb).
Proof.
  intros K KE R evs h k c He Hin. pose proof (run_keys q rp tr R evs He h k c Hin) as KR.
  assert (Hv : q_version q = 2 \/ q_version q = 3).
  { unfold run in R. destruct (phase_create q) as [[p1 st]|k0|] eqn:PC; try discriminate.
    now destruct (phase_create_cases _ _ _ PC). }
  pose proof (key_agree _ _ _ _ _ Hv KE) as SF. rewrite K in *.
  destruct (normalise_text (q_version q) s) as (p & NK). rewrite NK in *. cbn [keystring] in SF.
  apply split_first_some in SF as [E _]. rewrite E in KR. now apply keyrel_text.
Qed.

(* the former finding C14-F1 (repaired by 6a4374c): a client named  a CR LF b  is refused *)
Definition f1_request : request :=
  {| q_version := 2; q_key := KNone; q_ports := [PStr (lit "80 127.0.0.1:80") true]; q_detach := false;
     q_single := false; q_auth := Some [([ch 97; CR; LF; ch 98], None)]; q_free := [] |}.

Lemma f1_now_refused :
  hostile_linebreak f1_request = true /\ must_refuse f1_request = true /\
  exists tr, run f1_request RError = Some tr /\ oracle f1_request RError tr = true.
Proof. split; [reflexivity|]. split; [reflexivity|]. eexists. split; vm_compute; reflexivity. Qed.
