(* C20: the model of txtorcon.addrmap simulates the reference semantics of Spec/C20.v.
   Part A: the code's choice of the expiry argument agrees with the control-spec reading of the line.
   Part B: the simulation invariant R and its preservation by every operation.
   Part C: consequences (oracle satisfied; lookups; expiry moves both ways; NEVER persists). *)
From Coq Require Import List Bool Ascii Arith NArith ZArith Lia.
From TxVerif Require Import Lib.Bytes Spec.C20 Model.AddrMap.
Import ListNotations.
Open Scope N_scope.

(* ------------------------------------------------------------------------------------------ *)
(* Part A *)

Lemma beqb_false_neq a b : beqb a b = false -> a <> b.
Proof. intros H E. subst. rewrite beqb_refl in H. discriminate. Qed.

Lemma beqb_neq_false a b : a <> b -> beqb a b = false.
Proof. intros H. destruct (beqb a b) eqn:E; [|reflexivity]. apply beqb_eq in E. contradiction. Qed.

Lemma beqb_sym a b : beqb a b = beqb b a.
Proof.
  destruct (beqb a b) eqn:E.
  - apply beqb_eq in E. subst. symmetry. apply beqb_refl.
  - symmetry. apply beqb_neq_false. intros ->. rewrite beqb_refl in E. discriminate.
Qed.

Lemma lower_a_EQC x : lower_a x = EQC -> x = EQC.
Proof.
  destruct x as [[] [] [] [] [] [] [] []]; vm_compute; intros H; try reflexivity; discriminate H.
Qed.

Lemma expires_prefix_has_eq pre :
  prefixb w_expires_lc (lower pre) = true -> memb EQC pre = true.
Proof.
  destruct pre as [|x1 [|x2 [|x3 [|x4 [|x5 [|x6 [|x7 [|x8 r]]]]]]]];
    unfold w_expires_lc, str, lower; cbn [map prefixb]; intros H;
    repeat (apply andb_true_iff in H; destruct H as [? H]); try discriminate H.
  match goal with H8 : Ascii.eqb (ch 61) (lower_a ?y) = true |- _ =>
    apply Ascii.eqb_eq in H8; symmetry in H8; apply lower_a_EQC in H8; subst y end.
  cbn [memb]. rewrite Ascii.eqb_refl. rewrite !orb_true_r. reflexivity.
Qed.

Lemma plain_no_expires t : plain_word t = true -> prefixb w_expires_lc (lower (t_pre t)) = false.
Proof.
  unfold plain_word. intros H.
  apply andb_true_iff in H as [H _]. apply andb_true_iff in H as [_ H].
  destruct (prefixb w_expires_lc (lower (t_pre t))) eqn:E; [|reflexivity].
  apply expires_prefix_has_eq in E. rewrite E in H. discriminate.
Qed.

Definition scan_f (acc : option tok) (t : tok) : option tok :=
  if prefixb w_expires_lc (lower (t_pre t))
  then Some {| t_pre := skipn 8 (t_pre t); t_time := t_time t |} else acc.

Lemma scan_expires_unfold ts : scan_expires ts = fold_left scan_f ts None.
Proof. reflexivity. Qed.

Lemma EXPIRES_matches : prefixb w_expires_lc (lower w_EXPIRES) = true.
Proof. vm_compute. reflexivity. Qed.

Lemma scan_rest rest : forallb kw_ok rest = true -> forall acc,
  fold_left scan_f rest acc =
  match gmt_of rest with
  | [] => acc
  | l => Some {| t_pre := []; t_time := Some (last l 0%Z) |}
  end.
Proof.
  induction rest as [|t rest IH]; intros K acc; [reflexivity|].
  cbn [forallb] in K. apply andb_true_iff in K as [Kt K].
  cbn [fold_left]. rewrite (IH K). clear IH.
  unfold kw_ok in Kt. apply andb_true_iff in Kt as [_ Kt].
  unfold gmt_of at 2. cbn [flat_map]. fold (gmt_of rest).
  unfold scan_f.
  destruct (prefixb w_expires_lc (lower (t_pre t))) eqn:P.
  - apply andb_true_iff in Kt as [E W]. rewrite E.
    apply beqb_eq in E.
    unfold is_word in W. destruct (t_time t) as [g|] eqn:T; [|discriminate].
    rewrite E. cbn [app].
    destruct (gmt_of rest) as [|g' l]; [reflexivity|]. reflexivity.
  - destruct (beqb (t_pre t) w_EXPIRES) eqn:E.
    + apply beqb_eq in E. rewrite E, EXPIRES_matches in P. discriminate.
    + cbn [app]. reflexivity.
Qed.

(* what Addr.update computes as the new expiry: Some None = never, Some (Some t), None = raises *)
Definition model_exp (ts : list tok) : option (option Z) :=
  match pick_expiry ts with
  | Some g =>
      if is_word g && beqb (upper (t_pre g)) w_NEVER then Some None
      else match strptime g with Some x => Some (Some x) | None => None end
  | None => None
  end.

Lemma parse_agree ts v : parse_ev ts = Some v ->
  exists a b c rest,
    ts = a :: b :: c :: rest /\ is_word a = true /\ is_word b = true /\
    t_pre a = v_name v /\
    v_addr v = (if beqb (t_pre b) w_ERROR then None else Some (t_pre b)) /\
    (exists g, pick_expiry ts = Some g) /\
    model_exp ts = Some (exp_opt (v_exp v)).
Proof.
  unfold parse_ev.
  destruct ts as [|a [|b [|c rest]]]; try discriminate.
  destruct (plain_word a) eqn:Pa; cbn [andb]; [|discriminate].
  destruct (plain_word b) eqn:Pb; cbn [andb]; [|discriminate].
  destruct (forallb kw_ok rest) eqn:K; [|discriminate].
  assert (Wa : is_word a = true).
  { unfold plain_word in Pa. apply andb_true_iff in Pa as [Pa _]. apply andb_true_iff in Pa as [Pa _]. exact Pa. }
  assert (Wb : is_word b = true).
  { unfold plain_word in Pb. apply andb_true_iff in Pb as [Pb _]. apply andb_true_iff in Pb as [Pb _]. exact Pb. }
  assert (Scan : forall c', prefixb w_expires_lc (lower (t_pre c')) = false ->
            scan_expires (a :: b :: c' :: rest) =
            match gmt_of rest with [] => None | l => Some {| t_pre := []; t_time := Some (last l 0%Z) |} end).
  { intros c' Pc. rewrite scan_expires_unfold. cbn [fold_left]. unfold scan_f at 2 3 4.
    rewrite (plain_no_expires a Pa), (plain_no_expires b Pb), Pc. apply scan_rest. exact K. }
  destruct (t_time c) as [l|] eqn:Tc.
  - destruct (t_pre c) as [|x p] eqn:Pc; [|discriminate].
    assert (Pc' : prefixb w_expires_lc (lower (t_pre c)) = false) by (rewrite Pc; reflexivity).
    specialize (Scan c Pc').
    destruct (gmt_of rest) as [|g [|g2 l2]] eqn:G; [| |discriminate].
    + destruct rest as [|d rest']; [|discriminate].
      intros E. injection E as <-. cbn [v_name v_addr v_exp].
      exists a, b, c, []. repeat split; try assumption; try reflexivity.
      * unfold pick_expiry. rewrite Scan. eexists; reflexivity.
      * unfold model_exp, pick_expiry. rewrite Scan.
        unfold is_word. rewrite Tc. cbn [andb]. unfold strptime. rewrite Pc, Tc. reflexivity.
    + intros E. injection E as <-. cbn [v_name v_addr v_exp].
      exists a, b, c, rest. repeat split; try assumption; try reflexivity.
      * unfold pick_expiry. rewrite Scan. eexists; reflexivity.
      * unfold model_exp, pick_expiry. rewrite Scan. cbn [last].
        unfold is_word, strptime. cbn [t_time t_pre andb]. reflexivity.
  - destruct (beqb (t_pre c) w_NEVER) eqn:Nc; [|discriminate].
    apply beqb_eq in Nc.
    assert (Pc' : prefixb w_expires_lc (lower (t_pre c)) = false) by (rewrite Nc; vm_compute; reflexivity).
    specialize (Scan c Pc').
    destruct (gmt_of rest) as [|g l2] eqn:G; [|discriminate].
    intros E. injection E as <-. cbn [v_name v_addr v_exp].
    assert (Pick : pick_expiry (a :: b :: c :: rest) = Some c).
    { unfold pick_expiry. rewrite Scan. destruct rest as [|d rest']; [reflexivity|].
      unfold tok_text_is, is_word. rewrite Tc, Nc, beqb_refl. reflexivity. }
    exists a, b, c, rest. repeat split; try assumption; try reflexivity.
    + eexists; exact Pick.
    + unfold model_exp. rewrite Pick. unfold is_word. rewrite Tc, Nc. vm_compute. reflexivity.
Qed.

(* ------------------------------------------------------------------------------------------ *)
(* Part B1: the clock's call list *)

Fixpoint sorted (cs : list (Z * N)) : Prop :=
  match cs with
  | [] => True
  | c :: cs' => (forall c', In c' cs' -> (fst c <= fst c')%Z) /\ sorted cs'
  end.

Lemma In_cancel t i id cs : In (t, i) (cancel_call id cs) <-> In (t, i) cs /\ i <> id.
Proof.
  unfold cancel_call. rewrite filter_In. cbn [snd]. split; intros [A B]; split; auto.
  - intros ->. rewrite N.eqb_refl in B. discriminate.
  - apply negb_true_iff. apply N.eqb_neq. exact B.
Qed.

Lemma sorted_filter p cs : sorted cs -> sorted (filter p cs).
Proof.
  induction cs as [|c cs IH]; intros S; [exact I|].
  destruct S as [S1 S2]. cbn [filter]. destruct (p c).
  - split; [|auto]. intros c' H. apply filter_In in H as [H _]. auto.
  - auto.
Qed.

Lemma In_insert x c cs : In x (insert_call c cs) <-> x = c \/ In x cs.
Proof.
  induction cs as [|y cs IH]; cbn [insert_call].
  - cbn. intuition.
  - destruct (fst y <=? fst c)%Z.
    + cbn [In]. rewrite IH. intuition.
    + cbn [In]. intuition.
Qed.

Lemma sorted_insert c cs : sorted cs -> sorted (insert_call c cs).
Proof.
  induction cs as [|y cs IH]; intros S; cbn [insert_call].
  - split; [intros ? []|exact I].
  - destruct S as [S1 S2]. destruct (fst y <=? fst c)%Z eqn:E.
    + split; [|auto]. intros c' H. apply In_insert in H as [->|H]; [lia|auto].
    + split; [|split; auto]. intros c' [<-|H]; [lia|]. specialize (S1 c' H). lia.
Qed.

Lemma In_snd_insert i c cs : In i (map snd (insert_call c cs)) <-> i = snd c \/ In i (map snd cs).
Proof.
  rewrite !in_map_iff. split.
  - intros (x & <- & H). apply In_insert in H as [->|H]; [left; reflexivity|right; eauto].
  - intros [->|(x & <- & H)]; [exists c|exists x]; (split; [reflexivity|]); apply In_insert; auto.
Qed.

Lemma nodup_insert c cs : NoDup (map snd cs) -> ~ In (snd c) (map snd cs) -> NoDup (map snd (insert_call c cs)).
Proof.
  induction cs as [|y cs IH]; intros ND NI; cbn [insert_call].
  - cbn. constructor; [intros []|constructor].
  - cbn [map] in ND, NI. inversion ND as [|? ? Hy ND']; subst.
    destruct (fst y <=? fst c)%Z.
    + cbn [map]. constructor.
      * rewrite In_snd_insert. intros [E|H]; [apply NI; left; auto|contradiction].
      * apply IH; [exact ND'|]. intros H. apply NI. right. exact H.
    + cbn [map]. constructor; [exact NI|exact ND].
Qed.

Lemma nodup_cancel id cs : NoDup (map snd cs) -> NoDup (map snd (cancel_call id cs)).
Proof.
  induction cs as [|y cs IH]; intros ND; [constructor|].
  cbn [map] in ND. inversion ND as [|? ? Hy ND']; subst.
  unfold cancel_call. cbn [filter]. fold (cancel_call id cs).
  destruct (negb (snd y =? id)); [|auto].
  cbn [map]. constructor; [|auto].
  intros H. apply Hy. apply in_map_iff in H as ([t i] & E & H). cbn in E. subst i.
  apply In_cancel in H as [H _]. apply in_map_iff. exists (t, snd y). auto.
Qed.

Lemma notin_cancel id cs : ~ In id (map snd (cancel_call id cs)).
Proof.
  intros H. apply in_map_iff in H as ([t i] & E & H). cbn in E. subst i.
  apply In_cancel in H as [_ H]. congruence.
Qed.

Fixpoint due_prefix (nw : Z) (cs : list (Z * N)) : list (Z * N) :=
  match cs with
  | [] => []
  | c :: cs' => if (fst c <=? nw)%Z then c :: due_prefix nw cs' else []
  end.
Fixpoint due_suffix (nw : Z) (cs : list (Z * N)) : list (Z * N) :=
  match cs with
  | [] => []
  | c :: cs' => if (fst c <=? nw)%Z then due_suffix nw cs' else cs
  end.

Lemma due_split nw cs : cs = due_prefix nw cs ++ due_suffix nw cs.
Proof.
  induction cs as [|c cs IH]; [reflexivity|]. cbn [due_prefix due_suffix].
  destruct (fst c <=? nw)%Z; [|reflexivity]. cbn [app]. f_equal. exact IH.
Qed.

Lemma In_due_prefix nw c cs : In c (due_prefix nw cs) -> In c cs /\ (fst c <= nw)%Z.
Proof.
  induction cs as [|y cs IH]; [intros []|]. cbn [due_prefix].
  destruct (fst y <=? nw)%Z eqn:E; [|intros []].
  intros [<-|H]; [split; [left; auto|lia]|]. destruct (IH H). split; [right|]; auto.
Qed.

Lemma due_prefix_all nw c cs : sorted cs -> In c cs -> (fst c <= nw)%Z -> In c (due_prefix nw cs).
Proof.
  induction cs as [|y cs IH]; intros S H L; [destruct H|].
  destruct S as [S1 S2]. cbn [due_prefix].
  destruct H as [->|H].
  - assert (E : (fst c <=? nw)%Z = true) by lia. rewrite E. left. reflexivity.
  - specialize (S1 c H). assert (E : (fst y <=? nw)%Z = true) by lia. rewrite E. right. auto.
Qed.

Lemma In_due_suffix nw c cs : sorted cs -> In c (due_suffix nw cs) -> In c cs /\ (nw < fst c)%Z.
Proof.
  induction cs as [|y cs IH]; intros S H; [destruct H|].
  destruct S as [S1 S2]. cbn [due_suffix] in H.
  destruct (fst y <=? nw)%Z eqn:E.
  - destruct (IH S2 H). split; [right|]; auto.
  - split; [exact H|]. destruct H as [<-|H]; [lia|]. specialize (S1 c H). lia.
Qed.

Lemma due_suffix_all nw c cs : In c cs -> (nw < fst c)%Z -> In c (due_suffix nw cs).
Proof.
  induction cs as [|y cs IH]; intros H L; [destruct H|]. cbn [due_suffix].
  destruct (fst y <=? nw)%Z eqn:E.
  - destruct H as [->|H]; [lia|auto].
  - exact H.
Qed.

Lemma sorted_suffix nw cs : sorted cs -> sorted (due_suffix nw cs).
Proof.
  induction cs as [|y cs IH]; intros S; [exact I|]. cbn [due_suffix].
  destruct (fst y <=? nw)%Z; [apply IH; apply S|exact S].
Qed.

Lemma nodup_app_parts {A} (l l' : list A) : NoDup (l ++ l') -> NoDup l /\ NoDup l'.
Proof.
  induction l as [|x l IH]; cbn [app]; intros H.
  - split; [constructor|exact H].
  - inversion H as [|? ? Hx H']; subst. destruct (IH H') as [A1 A2]. split; [|exact A2].
    constructor; [|exact A1]. intros Hi. apply Hx. apply in_or_app. left. exact Hi.
Qed.

Lemma nodup_suffix nw cs : NoDup (map snd cs) -> NoDup (map snd (due_suffix nw cs)).
Proof.
  intros H. rewrite (due_split nw cs), map_app in H. apply nodup_app_parts in H. apply H.
Qed.

Lemma nodup_prefix nw cs : NoDup (map snd cs) -> NoDup (map snd (due_prefix nw cs)).
Proof.
  intros H. rewrite (due_split nw cs), map_app in H. apply nodup_app_parts in H. apply H.
Qed.

(* ------------------------------------------------------------------------------------------ *)
(* Part B2: Clock.advance in closed form *)

Definition nm (h : N -> option entry) (id : N) : bytes :=
  match h id with Some e => e_name e | None => [] end.

Lemma memN_cons v x l : memN v (x :: l) = (v =? x) || memN v l.
Proof. reflexivity. Qed.

Lemma fire_due_char cs : forall s s' es, fire_due s cs = (s', es) ->
  (forall k, dict s' k = match dict s k with
                         | Some v => if memN v (map snd (due_prefix (now s) cs)) then None else Some v
                         | None => None
                         end) /\
  heap s' = heap s /\ calls s' = due_suffix (now s) cs /\ now s' = now s /\ nid s' = nid s /\
  lst s' = lst s /\
  es = flat_map (fun c => expired_block (lst s) (nm (heap s) (snd c))) (due_prefix (now s) cs).
Proof.
  induction cs as [|c cs IH]; intros s s' es H; cbn [fire_due] in H.
  - injection H as <- <-. cbn. repeat split. intros k. destruct (dict s k); reflexivity.
  - cbn [due_prefix due_suffix]. destruct (fst c <=? now s)%Z eqn:E.
    + unfold expire in H.
      destruct (fire_due (set_dict (set_calls s cs) (ddel_val (snd c) (dict (set_calls s cs)))) cs) as [s2 e2] eqn:F.
      injection H as <- <-.
      apply IH in F. cbn [set_dict set_calls dict heap calls now nid lst] in F.
      destruct F as (D & Hh & Hc & Hn & Hi & Hl & He).
      repeat split; try assumption.
      * intros k. rewrite D. unfold ddel_val. cbn [map].
        destruct (dict s k) as [v|]; [|reflexivity]. rewrite memN_cons.
        destruct (v =? snd c); reflexivity.
      * cbn [flat_map]. rewrite He. reflexivity.
    + injection H as <- <-. cbn. repeat split. intros k. destruct (dict s k); reflexivity.
Qed.

(* ------------------------------------------------------------------------------------------ *)
(* Part B3: what AddrMap.update does to the state, in closed form *)

Definition mk (m : mst) (d : bytes -> option N) (h : N -> option entry) (c : list (Z * N)) (i : N) : mst :=
  {| dict := d; heap := h; calls := c; now := now m; nid := i; lst := lst m |}.

(* cancel the Addr's pending call, schedule the new one if the mapping has an expiry *)
Definition install (m : mst) (id : N) (x : sexp) : list (Z * N) :=
  match x with
  | XNever => cancel_call id (calls m)
  | XAt t => insert_call (Z.max (now m) t, id) (cancel_call id (calls m))
  end.

Definition old_exp (m : mst) (id : N) : option Z :=
  match heap m id with Some e => e_exp e | None => None end.

Definition blank : entry := {| e_name := []; e_ip := []; e_exp := None |}.

Lemma hset_same id e h : hset id e h id = Some e.
Proof. unfold hset. rewrite N.eqb_refl. reflexivity. Qed.

Lemma hset_other id e h i : i <> id -> hset id e h i = h i.
Proof. unfold hset. intros H. destruct (id =? i) eqn:E; [apply N.eqb_eq in E; congruence|reflexivity]. Qed.

Lemma update_char m ts v : parse_ev ts = Some v ->
  let n := v_name v in
  let b := ev_key v in
  update m ts =
  match dict m n, v_addr v with
  | Some id, None =>
      Some (mk m (ddel_val id (dict m))
                 (hset id {| e_name := n; e_ip := b; e_exp := old_exp m id |} (heap m))
                 (cancel_call id (calls m)) (nid m),
            expired_block (lst m) n)
  | Some id, Some a =>
      Some (mk m (dict m)
                 (hset id {| e_name := n; e_ip := a; e_exp := exp_opt (v_exp v) |} (heap m))
                 (install m id (v_exp v)) (nid m),
            [])
  | None, None => Some (m, [])
  | None, Some a =>
      Some (mk m (dset b (nid m) (dset n (nid m) (dict m)))
                 (hset (nid m) {| e_name := n; e_ip := a; e_exp := exp_opt (v_exp v) |} (hset (nid m) blank (heap m)))
                 (install m (nid m) (v_exp v)) (nid m + 1),
            added_block (lst m) n a)
  end.
Proof.
  intros P n b.
  destruct (parse_agree ts v P) as (ta & tb & tc & rest & -> & Wa & Wb & Na & Ad & (g & Pick) & ME).
  unfold model_exp in ME. rewrite Pick in ME.
  unfold update. rewrite Wa, Wb. cbn [andb]. unfold dget. rewrite Na. fold n.
  assert (Kb : b = t_pre tb).
  { unfold b, ev_key. rewrite Ad. destruct (beqb (t_pre tb) w_ERROR) eqn:E; [|reflexivity].
    apply beqb_eq in E. congruence. }
  destruct (dict m n) as [id|] eqn:D.
  - unfold addr_update. rewrite Pick, Wa, Wb. cbn [andb]. rewrite Na. fold n. rewrite <- Kb.
    rewrite Ad, <- Kb. destruct (beqb b w_ERROR) eqn:Eb.
    + unfold expire, notify_expired, name_of, hget, set_dict, set_calls, set_heap, mk, old_exp, expired_block.
      cbn [dict heap calls now nid lst]. rewrite hset_same. cbn [e_name]. reflexivity.
    + rewrite ME. unfold set_calls, set_heap, mk, install, hget. cbn [dict heap calls now nid lst].
      destruct (v_exp v); reflexivity.
  - rewrite <- Kb. rewrite Ad. rewrite <- Kb. destruct (beqb b w_ERROR) eqn:Eb; [reflexivity|].
    unfold addr_update. rewrite Pick, Wa, Wb. cbn [andb]. rewrite Na. fold n. rewrite <- Kb.
    rewrite Eb. cbn [dict heap calls now nid lst].
    + rewrite ME. unfold hget, set_calls, set_heap. cbn [dict heap calls now nid lst].
      destruct (v_exp v) as [|t]; cbn [exp_opt]; cbn [dict heap calls now nid lst]; rewrite hset_same;
        unfold notify_added, mk, install, added_block; cbn [dict heap calls now nid lst e_name e_ip app]; reflexivity.
Qed.

(* ------------------------------------------------------------------------------------------ *)
(* Part B4: the simulation invariant *)

Lemma memB_In k l : memB k l = true <-> In k l.
Proof.
  unfold memB. rewrite existsb_exists. split.
  - intros (x & H & E). apply beqb_eq in E. subst. exact H.
  - intros H. exists k. split; [exact H|apply beqb_refl].
Qed.

Lemma memN_In k l : memN k l = true <-> In k l.
Proof.
  unfold memN. rewrite existsb_exists. split.
  - intros (x & H & E). apply N.eqb_eq in E. subst. exact H.
  - intros H. exists k. split; [exact H|apply N.eqb_refl].
Qed.

Definition names_add (n : bytes) (l : list bytes) : list bytes := if memB n l then l else l ++ [n].

Lemma In_names_add x n l : In x (names_add n l) <-> x = n \/ In x l.
Proof.
  unfold names_add. destruct (memB n l) eqn:E.
  - apply memB_In in E. split; [auto|]. intros [->|H]; auto.
  - rewrite in_app_iff. cbn [In]. intuition.
Qed.

Definition entry_of (n : bytes) (v : mp) : entry :=
  {| e_name := n; e_ip := m_ip v; e_exp := exp_opt (m_exp v) |}.

Section Sim.
  Variable NS : list bytes.      (* the strings used as names; addresses are outside *)

  Record R (m : mst) (s : sst) : Prop := {
    R_now : now m = s_now s;
    R_lst : lst m = s_lst s;
    R_name : forall n, In n NS ->
             match s_map s n with
             | Some v => exists id, dict m n = Some id /\ heap m id = Some (entry_of n v)
             | None => dict m n = None
             end;
    R_held : forall n v, s_map s n = Some v -> In n (s_names s);
    R_names : forall n, In n (s_names s) -> In n NS;
    R_fresh : forall k id, dict m k = Some id -> id < nid m;
    R_cfresh : forall t id, In (t, id) (calls m) -> id < nid m;
    R_inj : forall n1 n2 id, In n1 NS -> In n2 NS -> dict m n1 = Some id -> dict m n2 = Some id -> n1 = n2;
    R_addr : forall k id, dict m k = Some id -> ~ In k NS -> exists n, In n NS /\ dict m n = Some id;
    R_sorted : sorted (calls m);
    R_nodup : NoDup (map snd (calls m));
    R_call : forall t id, In (t, id) (calls m) ->
             exists n v t0, In n NS /\ dict m n = Some id /\ s_map s n = Some v /\ m_exp v = XAt t0 /\
                            (t = t0 \/ (t0 <= t /\ t <= now m))%Z;
    R_hascall : forall n v t0 id, In n NS -> s_map s n = Some v -> m_exp v = XAt t0 ->
                dict m n = Some id -> exists t, In (t, id) (calls m);
    R_lstnd : NoDup (s_lst s)
  }.

  Lemma R_init : R m0 s0.
  Proof.
    constructor; cbn; intros; try reflexivity; try discriminate; try contradiction; try constructor.
  Qed.

  (* a held name has dict entry and vice versa *)
  Lemma R_dict_held m s n : R m s -> In n NS -> forall id, dict m n = Some id -> exists v, s_map s n = Some v /\ heap m id = Some (entry_of n v).
  Proof.
    intros HR Hn id D. pose proof (R_name _ _ HR n Hn) as A.
    destruct (s_map s n) as [v|]; [|congruence].
    destruct A as (id' & D' & Hh). exists v. split; [reflexivity|]. congruence.
  Qed.

  (* ---- the calls after (re)scheduling ---- *)
  Lemma install_facts m id x :
    sorted (calls m) -> NoDup (map snd (calls m)) ->
    sorted (install m id x) /\ NoDup (map snd (install m id x)) /\
    (forall t i, In (t, i) (install m id x) ->
        (i = id /\ exists tx, x = XAt tx /\ t = Z.max (now m) tx) \/ (In (t, i) (calls m) /\ i <> id)) /\
    (forall t i, In (t, i) (calls m) -> i <> id -> In (t, i) (install m id x)) /\
    (forall tx, x = XAt tx -> In (Z.max (now m) tx, id) (install m id x)).
  Proof.
    intros S ND. unfold install. destruct x as [|tx].
    - split; [apply sorted_filter; exact S|]. split; [apply nodup_cancel; exact ND|].
      split; [|split].
      + intros t i H. apply In_cancel in H. right. exact H.
      + intros t i H Hi. apply In_cancel. auto.
      + intros tx E. discriminate.
    - split; [apply sorted_insert, sorted_filter; exact S|].
      split; [apply nodup_insert; [apply nodup_cancel; exact ND|apply notin_cancel]|].
      split; [|split].
      + intros t i H. apply In_insert in H as [E|H].
        * injection E as -> ->. left. split; [reflexivity|]. exists tx. auto.
        * apply In_cancel in H. right. exact H.
      + intros t i H Hi. apply In_insert. right. apply In_cancel. auto.
      + intros tx' E. injection E as <-. apply In_insert. left. reflexivity.
  Qed.

  (* ---- an event for a held name, not an error ---- *)
  Lemma R_upd m s n id a x :
    R m s -> In n NS -> dict m n = Some id ->
    R (mk m (dict m) (hset id {| e_name := n; e_ip := a; e_exp := exp_opt x |} (heap m)) (install m id x) (nid m))
      {| s_now := s_now s; s_map := sset n {| m_ip := a; m_exp := x |} (s_map s);
         s_names := names_add n (s_names s); s_lst := s_lst s |}.
  Proof.
    intros HR Hn D.
    destruct (install_facts m id x (R_sorted _ _ HR) (R_nodup _ _ HR)) as (IS & IN & Ia & Ib & Ic).
    constructor; unfold mk; cbn [dict heap calls now nid lst s_now s_map s_names s_lst].
    - apply HR.
    - apply HR.
    - intros n' Hn'. unfold sset. destruct (beqb n n') eqn:E.
      + apply beqb_eq in E. subst n'. exists id. split; [exact D|]. rewrite hset_same. reflexivity.
      + apply beqb_false_neq in E. pose proof (R_name _ _ HR n' Hn') as A.
        destruct (s_map s n') as [v'|]; [|exact A].
        destruct A as (id' & D' & Hh). exists id'. split; [exact D'|].
        rewrite hset_other; [exact Hh|]. intros ->. apply E. eapply R_inj; eauto.
    - intros n' v'. unfold sset. destruct (beqb n n') eqn:E.
      + apply beqb_eq in E. subst. intros _. apply In_names_add. auto.
      + intros H. apply In_names_add. right. eapply R_held; eauto.
    - intros n' H. apply In_names_add in H as [->|H]; [exact Hn|]. eapply R_names; eauto.
    - apply HR.
    - intros t i H. apply Ia in H as [[-> _]|[H _]]; [eapply R_fresh; eauto|eapply R_cfresh; eauto].
    - apply HR.
    - apply HR.
    - exact IS.
    - exact IN.
    - intros t i H. apply Ia in H as [[-> (tx & -> & ->)]|[H Hi]].
      + exists n, {| m_ip := a; m_exp := XAt tx |}, tx. unfold sset. rewrite beqb_refl.
        repeat split; auto. lia.
      + destruct (R_call _ _ HR t i H) as (n' & v' & t0 & Hn' & D' & Sm & Ex & Tm).
        exists n', v', t0. repeat split; auto. unfold sset.
        destruct (beqb n n') eqn:E; [|exact Sm]. apply beqb_eq in E. subst n'. congruence.
    - intros n' v' t0 id' Hn' Sm Ex D'. unfold sset in Sm. destruct (beqb n n') eqn:E.
      + apply beqb_eq in E. subst n'. injection Sm as <-. cbn [m_exp] in Ex.
        assert (id' = id) by congruence. subst id'. eexists. apply Ic. exact Ex.
      + apply beqb_false_neq in E. destruct (R_hascall _ _ HR n' v' t0 id' Hn' Sm Ex D') as (t & H).
        exists t. apply Ib; [exact H|]. intros ->. apply E. eapply R_inj; eauto.
    - apply HR.
  Qed.

  (* ---- an event for a name that is not held, not an error ---- *)
  Lemma R_new m s n b x :
    R m s -> In n NS -> ~ In b NS -> s_map s n = None ->
    R (mk m (dset b (nid m) (dset n (nid m) (dict m)))
            (hset (nid m) {| e_name := n; e_ip := b; e_exp := exp_opt x |} (hset (nid m) blank (heap m)))
            (install m (nid m) x) (nid m + 1))
      {| s_now := s_now s; s_map := sset n {| m_ip := b; m_exp := x |} (s_map s);
         s_names := names_add n (s_names s); s_lst := s_lst s |}.
  Proof.
    intros HR Hn Hb Sn.
    assert (Dn : dict m n = None).
    { pose proof (R_name _ _ HR n Hn) as A. rewrite Sn in A. exact A. }
    assert (Nb : beqb b n = false) by (apply beqb_neq_false; intros ->; contradiction).
    assert (Dset : forall k, In k NS -> dset b (nid m) (dset n (nid m) (dict m)) k =
                                        if beqb n k then Some (nid m) else dict m k).
    { intros k Hk. unfold dset. rewrite (beqb_neq_false b k); [reflexivity|]. intros ->. contradiction. }
    destruct (install_facts m (nid m) x (R_sorted _ _ HR) (R_nodup _ _ HR)) as (IS & IN & Ia & Ib & Ic).
    constructor; unfold mk; cbn [dict heap calls now nid lst s_now s_map s_names s_lst].
    - apply HR.
    - apply HR.
    - intros n' Hn'. rewrite (Dset n' Hn'). unfold sset. destruct (beqb n n') eqn:E.
      + apply beqb_eq in E. subst n'. exists (nid m). split; [reflexivity|]. rewrite hset_same. reflexivity.
      + pose proof (R_name _ _ HR n' Hn') as A.
        destruct (s_map s n') as [v'|]; [|exact A].
        destruct A as (id' & D' & Hh). exists id'. split; [exact D'|].
        assert (id' <> nid m) by (pose proof (R_fresh _ _ HR _ _ D'); lia).
        rewrite !hset_other; auto.
    - intros n' v'. unfold sset. destruct (beqb n n') eqn:E.
      + apply beqb_eq in E. subst. intros _. apply In_names_add. auto.
      + intros H. apply In_names_add. right. eapply R_held; eauto.
    - intros n' H. apply In_names_add in H as [->|H]; [exact Hn|]. eapply R_names; eauto.
    - intros k i. unfold dset. destruct (beqb b k); [intros E; injection E as <-; lia|].
      destruct (beqb n k); [intros E; injection E as <-; lia|].
      intros H. pose proof (R_fresh _ _ HR _ _ H). lia.
    - intros t i H. apply Ia in H as [[-> _]|[H _]]; [lia|]. pose proof (R_cfresh _ _ HR _ _ H). lia.
    - intros n1 n2 i H1 H2. rewrite (Dset n1 H1), (Dset n2 H2).
      destruct (beqb n n1) eqn:E1; destruct (beqb n n2) eqn:E2.
      + apply beqb_eq in E1, E2. congruence.
      + intros A B. injection A as <-. pose proof (R_fresh _ _ HR _ _ B). lia.
      + intros A B. injection B as <-. pose proof (R_fresh _ _ HR _ _ A). lia.
      + eapply R_inj; eauto.
    - intros k i H Hk. unfold dset in H. destruct (beqb b k) eqn:Ebk.
      + injection H as <-. exists n. split; [exact Hn|]. rewrite (Dset n Hn), beqb_refl. reflexivity.
      + destruct (beqb n k) eqn:Enk; [apply beqb_eq in Enk; subst k; contradiction|].
        destruct (R_addr _ _ HR k i H Hk) as (n' & Hn' & D').
        exists n'. split; [exact Hn'|]. rewrite (Dset n' Hn').
        destruct (beqb n n') eqn:E; [apply beqb_eq in E; subst n'; congruence|exact D'].
    - exact IS.
    - exact IN.
    - intros t i H. apply Ia in H as [[-> (tx & -> & ->)]|[H Hi]].
      + exists n, {| m_ip := b; m_exp := XAt tx |}, tx. rewrite (Dset n Hn). unfold sset. rewrite beqb_refl.
        repeat split; auto. lia.
      + destruct (R_call _ _ HR t i H) as (n' & v' & t0 & Hn' & D' & Sm & Ex & Tm).
        exists n', v', t0. rewrite (Dset n' Hn'). unfold sset.
        destruct (beqb n n') eqn:E; [apply beqb_eq in E; subst n'; congruence|]. repeat split; auto.
    - intros n' v' t0 id' Hn' Sm Ex. rewrite (Dset n' Hn'). unfold sset in Sm. destruct (beqb n n') eqn:E.
      + apply beqb_eq in E. subst n'. injection Sm as <-. cbn [m_exp] in Ex.
        intros A. injection A as <-. eexists. apply Ic. exact Ex.
      + intros D'. destruct (R_hascall _ _ HR n' v' t0 id' Hn' Sm Ex D') as (t & H).
        exists t. apply Ib; [exact H|]. pose proof (R_fresh _ _ HR _ _ D'). lia.
    - apply HR.
  Qed.

  (* ---- an <error> mapping for a held name ---- *)
  Lemma R_herr m s n id e :
    R m s -> In n NS -> dict m n = Some id ->
    R (mk m (ddel_val id (dict m)) (hset id e (heap m)) (cancel_call id (calls m)) (nid m))
      {| s_now := s_now s; s_map := sdel n (s_map s); s_names := names_add n (s_names s); s_lst := s_lst s |}.
  Proof.
    intros HR Hn D.
    assert (Del : forall k i, ddel_val id (dict m) k = Some i <-> dict m k = Some i /\ i <> id).
    { intros k i. unfold ddel_val. destruct (dict m k) as [v|]; [|split; [discriminate|intros [? _]; discriminate]].
      destruct (v =? id) eqn:E.
      - apply N.eqb_eq in E. subst v. split; [discriminate|]. intros [A B]. congruence.
      - apply N.eqb_neq in E. split; [intros A; injection A as <-; auto|intros [A _]; exact A]. }
    constructor; unfold mk; cbn [dict heap calls now nid lst s_now s_map s_names s_lst].
    - apply HR.
    - apply HR.
    - intros n' Hn'. unfold sdel. destruct (beqb n n') eqn:E.
      + apply beqb_eq in E. subst n'. unfold ddel_val. rewrite D, N.eqb_refl. reflexivity.
      + apply beqb_false_neq in E. pose proof (R_name _ _ HR n' Hn') as A.
        destruct (s_map s n') as [v'|].
        * destruct A as (id' & D' & Hh).
          assert (id' <> id) by (intros ->; apply E; eapply R_inj; eauto).
          exists id'. split; [apply Del; auto|]. rewrite hset_other; auto.
        * unfold ddel_val. rewrite A. reflexivity.
    - intros n' v'. unfold sdel. destruct (beqb n n'); [discriminate|].
      intros H. apply In_names_add. right. eapply R_held; eauto.
    - intros n' H. apply In_names_add in H as [->|H]; [exact Hn|]. eapply R_names; eauto.
    - intros k i H. apply Del in H as [H _]. eapply R_fresh; eauto.
    - intros t i H. apply In_cancel in H as [H _]. eapply R_cfresh; eauto.
    - intros n1 n2 i H1 H2 A B. apply Del in A as [A _]. apply Del in B as [B _]. eapply R_inj; eauto.
    - intros k i H Hk. apply Del in H as [H Hi]. destruct (R_addr _ _ HR k i H Hk) as (n' & Hn' & D').
      exists n'. split; [exact Hn'|]. apply Del. auto.
    - apply sorted_filter. apply HR.
    - apply nodup_cancel. apply HR.
    - intros t i H. apply In_cancel in H as [H Hi].
      destruct (R_call _ _ HR t i H) as (n' & v' & t0 & Hn' & D' & Sm & Ex & Tm).
      exists n', v', t0. repeat split; auto.
      + apply Del. auto.
      + unfold sdel. destruct (beqb n n') eqn:E; [apply beqb_eq in E; subst n'; congruence|exact Sm].
    - intros n' v' t0 id' Hn' Sm Ex D'. unfold sdel in Sm. destruct (beqb n n') eqn:E; [discriminate|].
      apply Del in D' as [D' Hi].
      destruct (R_hascall _ _ HR n' v' t0 id' Hn' Sm Ex D') as (t & H).
      exists t. apply In_cancel. auto.
    - apply HR.
  Qed.

  (* ---- an <error> mapping for a name that is not held: nothing changes ---- *)
  Lemma R_nerr m s n :
    R m s -> In n NS -> s_map s n = None ->
    R m {| s_now := s_now s; s_map := sdel n (s_map s); s_names := names_add n (s_names s); s_lst := s_lst s |}.
  Proof.
    intros HR Hn Sn.
    assert (Sd : forall k, sdel n (s_map s) k = s_map s k).
    { intros k. unfold sdel. destruct (beqb n k) eqn:E; [|reflexivity]. apply beqb_eq in E. subst. auto. }
    constructor; cbn [s_now s_map s_names s_lst]; try apply HR.
    - intros n' Hn'. rewrite Sd. apply (R_name _ _ HR n' Hn').
    - intros n' v'. rewrite Sd. intros H. apply In_names_add. right. eapply R_held; eauto.
    - intros n' H. apply In_names_add in H as [->|H]; [exact Hn|]. eapply R_names; eauto.
    - intros t i H. destruct (R_call _ _ HR t i H) as (n' & v' & t0 & A & B & C & D & E).
      exists n', v', t0. rewrite Sd. auto.
    - intros n' v' t0 id' Hn'. rewrite Sd. intros A B C. exact (R_hascall _ _ HR n' v' t0 id' Hn' A B C).
  Qed.

  (* ---- add_listener ---- *)
  Lemma R_addl m s l : R m s -> R (add_listener m l) (spec_step s (OAddL l)).
  Proof.
    intros HR. unfold add_listener. cbn [spec_step].
    constructor; cbn [dict heap calls now nid lst s_now s_map s_names s_lst]; try apply HR.
    - rewrite (R_lst _ _ HR). reflexivity.
    - destruct (memN l (s_lst s)) eqn:E; [apply HR|].
      assert (~ In l (s_lst s)) by (intros H; apply memN_In in H; congruence).
      clear E. pose proof (R_lstnd _ _ HR) as ND. induction (s_lst s) as [|x ls IH]; cbn [app].
      + constructor; [intros []|constructor].
      + inversion ND; subst. constructor.
        * rewrite in_app_iff. cbn [In]. intros [A|[A|[]]]; [contradiction|]. subst. apply H. left. reflexivity.
        * apply IH; auto. intros A. apply H. right. exact A.
  Qed.

  (* ---- Clock.advance ---- *)
  Definition bump (m : mst) (dt : N) : mst :=
    {| dict := dict m; heap := heap m; calls := calls m; now := (now m + Z.of_N dt)%Z; nid := nid m; lst := lst m |}.

  Lemma fired_iff_due m s dt n v id :
    R m s -> In n NS -> s_map s n = Some v -> dict m n = Some id ->
    (In id (map snd (due_prefix (now m + Z.of_N dt) (calls m))) <-> due_exp (s_now s + Z.of_N dt) (m_exp v) = true).
  Proof.
    intros HR Hn Sm D. rewrite <- (R_now _ _ HR). split.
    - intros H. apply in_map_iff in H as ([t i] & E & H). cbn in E. subst i.
      apply In_due_prefix in H as [H L]. cbn [fst] in L.
      destruct (R_call _ _ HR t id H) as (n' & v' & t0 & Hn' & D' & Sm' & Ex & Tm).
      assert (n' = n) by (eapply R_inj; eauto). subst n'.
      assert (v' = v) by congruence. subst v'. rewrite Ex. cbn [due_exp]. lia.
    - intros Du. destruct (m_exp v) as [|t0] eqn:Ex; [discriminate|]. cbn [due_exp] in Du.
      destruct (R_hascall _ _ HR n v t0 id Hn Sm Ex D) as (t & H).
      destruct (R_call _ _ HR t id H) as (n' & v' & t0' & Hn' & D' & Sm' & Ex' & Tm).
      assert (n' = n) by (eapply R_inj; eauto). subst n'.
      assert (v' = v) by congruence. subst v'. assert (t0' = t0) by congruence. subst t0'.
      apply in_map_iff. exists (t, id). split; [reflexivity|].
      apply due_prefix_all; [apply HR|exact H|]. cbn [fst]. lia.
  Qed.

  Lemma flat_map_nil_blocks {A} (f : A -> bytes) (l : list A) :
    flat_map (fun c => expired_block [] (f c)) l = [].
  Proof. induction l; [reflexivity|]. cbn. exact IHl. Qed.

  Lemma flat_map_map {A B C} (g : A -> B) (f : B -> list C) l : flat_map f (map g l) = flat_map (fun x => f (g x)) l.
  Proof. induction l; [reflexivity|]. cbn. now rewrite IHl. Qed.

  Lemma expired_names_app l0 a b : expired_names l0 (a ++ b) = expired_names l0 a ++ expired_names l0 b.
  Proof. unfold expired_names. apply flat_map_app. Qed.

  Lemma expired_names_tail l0 n ls : ~ In l0 ls -> expired_names l0 (map (fun l => EExpired l n) ls) = [].
  Proof.
    induction ls as [|x ls IH]; intros H; [reflexivity|]. cbn [map]. unfold expired_names. cbn [flat_map].
    assert (x =? l0 = false) as -> by (apply N.eqb_neq; intros ->; apply H; left; reflexivity).
    cbn [app]. apply IH. intros A. apply H. right. exact A.
  Qed.

  Lemma expired_names_blocks l0 ls names : ~ In l0 ls ->
    expired_names l0 (flat_map (expired_block (l0 :: ls)) names) = names.
  Proof.
    intros H. induction names as [|n names IH]; [reflexivity|].
    cbn [flat_map]. rewrite expired_names_app, IH. unfold expired_block at 1. cbn [map].
    change (EExpired l0 n :: map (fun l => EExpired l n) ls) with ([EExpired l0 n] ++ map (fun l => EExpired l n) ls).
    rewrite expired_names_app, expired_names_tail by exact H.
    unfold expired_names. cbn [flat_map]. rewrite N.eqb_refl. reflexivity.
  Qed.

  Lemma obs_eqb_refl e : obs_eqb e e = true.
  Proof.
    destruct e; cbn; rewrite ?beqb_refl, ?N.eqb_refl; try reflexivity.
    destruct e as [z|]; cbn; [apply Z.eqb_refl|reflexivity].
  Qed.

  Lemma chunk_eqb_refl es : chunk_eqb es es = true.
  Proof. induction es as [|e es IH]; [reflexivity|]. cbn. rewrite obs_eqb_refl. exact IH. Qed.

  Lemma nodupB_NoDup l : NoDup l -> nodupB l = true.
  Proof.
    induction 1 as [|x l Hx ND IH]; [reflexivity|]. cbn [nodupB]. rewrite IH, andb_true_r.
    apply negb_true_iff. destruct (memB x l) eqn:E; [|reflexivity]. apply memB_In in E. contradiction.
  Qed.

  Lemma NoDup_map_inj {A B} (f : A -> B) l :
    NoDup l -> (forall x y, In x l -> In y l -> f x = f y -> x = y) -> NoDup (map f l).
  Proof.
    induction 1 as [|x l Hx ND IH]; intros Inj; [constructor|]. cbn [map]. constructor.
    - intros H. apply in_map_iff in H as (y & E & Hy). apply Hx.
      assert (y = x) by (apply Inj; [right; exact Hy|left; reflexivity|exact E]). subst. exact Hy.
    - apply IH. intros a b Ha Hb. apply Inj; right; assumption.
  Qed.

  Lemma R_advance m s dt m' es :
    R m s -> advance m dt = (m', es) ->
    R m' (spec_step s (OAdvance dt)) /\ chunk_ok s (OAdvance dt) es = true.
  Proof.
    intros HR Adv. unfold advance in Adv. fold (bump m dt) in Adv.
    apply fire_due_char in Adv. cbn [bump dict heap calls now nid lst] in Adv.
    destruct Adv as (Dm & Hh & Hc & Hn & Hi & Hl & He).
    set (now' := (now m + Z.of_N dt)%Z) in *.
    set (pre := due_prefix now' (calls m)) in *.
    assert (Nw : (s_now s + Z.of_N dt)%Z = now') by (unfold now'; rewrite (R_now _ _ HR); reflexivity).
    assert (Dsub : forall k i, dict m' k = Some i <-> dict m k = Some i /\ ~ In i (map snd pre)).
    { intros k i. rewrite Dm. destruct (dict m k) as [v|]; [|split; [discriminate|intros [A _]; discriminate]].
      destruct (memN v (map snd pre)) eqn:E.
      - apply memN_In in E. split; [discriminate|]. intros [A B]. injection A as ->. contradiction.
      - split; [intros A; injection A as <-|intros [A _]; exact A]. split; [reflexivity|].
        intros A. apply memN_In in A. congruence. }
    assert (Fd : forall n v id, In n NS -> s_map s n = Some v -> dict m n = Some id ->
                 (In id (map snd pre) <-> due_exp now' (m_exp v) = true)).
    { intros n v id Hn' Sm D. rewrite <- Nw. unfold pre, now'. eapply fired_iff_due; eauto. }
    assert (Suf : forall t i, In (t, i) (calls m') -> In (t, i) (calls m) /\ (now' < t)%Z).
    { intros t i H. rewrite Hc in H. apply In_due_suffix in H; [exact H|apply HR]. }
    split.
    - cbn [spec_step]. rewrite Nw.
      constructor; cbn [s_now s_map s_names s_lst].
      + exact Hn.
      + rewrite Hl. apply HR.
      + intros n Hn'. pose proof (R_name _ _ HR n Hn') as A. unfold sweep.
        destruct (s_map s n) as [v|] eqn:Sm.
        * destruct A as (id & D & Hhp). destruct (due_exp now' (m_exp v)) eqn:Du.
          -- destruct (dict m' n) as [i|] eqn:X; [|reflexivity]. apply Dsub in X as [X NI].
             assert (i = id) by congruence. subst i. exfalso. apply NI. eapply Fd; eauto.
          -- exists id. split; [|rewrite Hh; exact Hhp]. apply Dsub. split; [exact D|].
             intros A. eapply Fd in A; eauto. congruence.
        * destruct (dict m' n) as [i|] eqn:X; [|reflexivity]. apply Dsub in X as [X _]. congruence.
      + intros n v. unfold sweep. destruct (s_map s n) as [v'|] eqn:Sm; [|discriminate].
        intros _. eapply R_held; eauto.
      + apply HR.
      + intros k i H. apply Dsub in H as [H _]. rewrite Hi. eapply R_fresh; eauto.
      + intros t i H. apply Suf in H as [H _]. rewrite Hi. eapply R_cfresh; eauto.
      + intros n1 n2 i H1 H2 A B. apply Dsub in A as [A _]. apply Dsub in B as [B _]. eapply R_inj; eauto.
      + intros k i H Hk. apply Dsub in H as [H NI]. destruct (R_addr _ _ HR k i H Hk) as (n & Hn' & D).
        exists n. split; [exact Hn'|]. apply Dsub. auto.
      + rewrite Hc. apply sorted_suffix. apply HR.
      + rewrite Hc. apply nodup_suffix. apply HR.
      + intros t i H. apply Suf in H as [H L].
        destruct (R_call _ _ HR t i H) as (n & v & t0 & Hn' & D & Sm & Ex & Tm).
        assert (T0 : t = t0) by (unfold now' in L; lia). subst t0.
        assert (Du : due_exp now' (m_exp v) = false) by (rewrite Ex; cbn [due_exp]; lia).
        exists n, v, t. repeat split; auto.
        * apply Dsub. split; [exact D|]. intros A. eapply Fd in A; eauto. congruence.
        * unfold sweep. rewrite Sm, Du. reflexivity.
      + intros n v t0 id Hn' Sm Ex D. unfold sweep in Sm.
        destruct (s_map s n) as [v'|] eqn:Sm'; [|discriminate].
        destruct (due_exp now' (m_exp v')) eqn:Du; [discriminate|]. injection Sm as ->.
        apply Dsub in D as [D NI].
        destruct (R_hascall _ _ HR n v t0 id Hn' Sm' Ex D) as (t & H).
        destruct (R_call _ _ HR t id H) as (n' & v'' & t0' & Hn'' & D' & Sm'' & Ex' & Tm).
        assert (n' = n) by (eapply R_inj; eauto). subst n'.
        assert (v'' = v) by congruence. subst v''. assert (t0' = t0) by congruence. subst t0'.
        rewrite Ex in Du. cbn [due_exp] in Du.
        exists t. rewrite Hc. apply due_suffix_all; [exact H|]. cbn [fst]. lia.
      + apply HR.
    - (* what the listeners heard *)
      cbn [chunk_ok]. rewrite Nw. rewrite <- (R_lst _ _ HR).
      set (names := map (fun c => nm (heap m) (snd c)) pre).
      assert (Es : es = flat_map (expired_block (lst m)) names).
      { rewrite He. unfold names. rewrite flat_map_map. reflexivity. }
      (* every fired call belongs to a held, due name, and its Addr carries that name *)
      assert (Own : forall c, In c pre -> exists n v, In n NS /\ s_map s n = Some v /\ dict m n = Some (snd c) /\
                                                nm (heap m) (snd c) = n /\ due_exp now' (m_exp v) = true).
      { intros [t i] H. pose proof H as H0. apply In_due_prefix in H as [H L].
        destruct (R_call _ _ HR t i H) as (n & v & t0 & Hn' & D & Sm & Ex & Tm).
        exists n, v. cbn [snd]. repeat split; auto.
        - pose proof (R_name _ _ HR n Hn') as A. rewrite Sm in A. destruct A as (id & D' & Hhp).
          assert (id = i) by congruence. subst id. unfold nm. rewrite Hhp. reflexivity.
        - eapply Fd; eauto. apply in_map_iff. exists (t, i). auto. }
      destruct (lst m) as [|l0 ls] eqn:Ls.
      + rewrite Es. cbn [flat_map]. clear. induction names; [reflexivity|]. cbn. exact IHnames.
      + assert (NIl : ~ In l0 ls).
        { pose proof (R_lstnd _ _ HR) as ND. rewrite <- (R_lst _ _ HR), Ls in ND. inversion ND; auto. }
        rewrite Es. rewrite expired_names_blocks by exact NIl.
        rewrite chunk_eqb_refl. cbn [andb].
        apply andb_true_iff. split; [apply andb_true_iff; split|].
        * apply nodupB_NoDup. unfold names.
          rewrite <- (map_map snd (nm (heap m))). apply NoDup_map_inj.
          -- apply nodup_prefix. apply HR.
          -- intros i j Hi' Hj E. apply in_map_iff in Hi' as (ci & <- & Hci). apply in_map_iff in Hj as (cj & <- & Hcj).
             destruct (Own ci Hci) as (n1 & v1 & _ & _ & D1 & N1 & _).
             destruct (Own cj Hcj) as (n2 & v2 & _ & _ & D2 & N2 & _). congruence.
        * apply forallb_forall. intros n Hn'. unfold names in Hn'. apply in_map_iff in Hn' as (c & <- & Hc').
          destruct (Own c Hc') as (n & v & Hn'' & Sm & D & -> & Du).
          apply memB_In. apply filter_In. split; [eapply R_held; eauto|]. unfold due_in. rewrite Sm. exact Du.
        * apply forallb_forall. intros n Hn'. apply filter_In in Hn' as [Hn' Du]. unfold due_in in Du.
          destruct (s_map s n) as [v|] eqn:Sm; [|discriminate].
          assert (HnNS : In n NS) by (eapply R_names; eauto).
          pose proof (R_name _ _ HR n HnNS) as A. rewrite Sm in A. destruct A as (id & D & Hhp).
          assert (F : In id (map snd pre)) by (eapply Fd; eauto).
          apply in_map_iff in F as (c & E & Hc'). apply memB_In. unfold names. apply in_map_iff.
          exists c. split; [|exact Hc']. rewrite E. unfold nm. rewrite Hhp. reflexivity.
  Qed.
End Sim.

(* ------------------------------------------------------------------------------------------ *)
(* Part B5: one operation *)

Definition op_within (NS : list bytes) (o : op) : Prop :=
  match o with
  | OEv ts => forall v, parse_ev ts = Some v -> In (v_name v) NS /\ ~ In (ev_key v) NS
  | _ => True
  end.

Lemma oz_eqb_refl e : oz_eqb e e = true.
Proof. destruct e as [z|]; cbn; [apply Z.eqb_refl|reflexivity]. Qed.

Lemma existsb_false {A} (f : A -> bool) l : existsb f l = false -> forall x, In x l -> f x = false.
Proof.
  intros H x Hx. destruct (f x) eqn:E; [|reflexivity].
  assert (existsb f l = true) by (apply existsb_exists; eauto). congruence.
Qed.

Lemma find_chunk NS m s k :
  R NS m s -> stale_lookup_op s (OFind k) = false -> chunk_ok s (OFind k) (find m k) = true.
Proof.
  intros HR St. cbn [stale_lookup_op] in St.
  assert (Nd : forall n v, s_map s n = Some v -> due_exp (s_now s) (m_exp v) = false).
  { intros n v Sm. pose proof (existsb_false _ _ St n (R_held _ _ _ HR n v Sm)) as A.
    unfold due_in in A. rewrite Sm in A. exact A. }
  cbn [chunk_ok]. unfold find, dget, hget.
  destruct (memB k (s_names s)) eqn:Mk.
  - apply memB_In in Mk. assert (Hk : In k NS) by (eapply R_names; eauto).
    pose proof (R_name _ _ _ HR k Hk) as A. unfold live.
    destruct (s_map s k) as [v|] eqn:Sm.
    + destruct A as (id & D & Hh). rewrite D, Hh, (Nd k v Sm). unfold entry_of. cbn [e_name e_ip e_exp].
      apply chunk_eqb_refl.
    + rewrite A. reflexivity.
  - destruct (dict m k) as [id|] eqn:D; [|reflexivity].
    destruct (memB k NS) eqn:Mn.
    + apply memB_In in Mn. destruct (R_dict_held _ _ _ _ HR Mn id D) as (v & Sm & _).
      apply (R_held _ _ _ HR) in Sm. apply memB_In in Sm. congruence.
    + assert (Hk : ~ In k NS) by (intros A; apply memB_In in A; congruence).
      destruct (R_addr _ _ _ HR k id D Hk) as (n & Hn & Dn).
      destruct (R_dict_held _ _ _ _ HR Hn id Dn) as (v & Sm & Hh).
      rewrite Hh. unfold entry_of. cbn [e_name e_ip e_exp]. unfold live. rewrite Sm, (Nd n v Sm).
      rewrite beqb_refl, oz_eqb_refl. reflexivity.
Qed.

Lemma step_sim NS m s o :
  R NS m s -> op_in_scope o = true -> op_within NS o ->
  exists m' es, step m o = Some (m', es) /\ R NS m' (spec_step s o) /\
    (stale_lookup_op s o = false -> chunk_ok s o es = true).
Proof.
  intros HR Sc W. destruct o as [ts|dt|k|l].
  - cbn [op_in_scope] in Sc. destruct (parse_ev ts) as [v|] eqn:P; [|discriminate].
    destruct (W v P) as [Hn Hb]. cbn [step]. rewrite (update_char m ts v P).
    cbn [spec_step chunk_ok]. rewrite P.
    change (if memB (v_name v) (s_names s) then s_names s else s_names s ++ [v_name v])
      with (names_add (v_name v) (s_names s)).
    unfold ev_key in *.
    destruct (dict m (v_name v)) as [id|] eqn:D; destruct (v_addr v) as [a|] eqn:Ad.
    + eexists _, _. split; [reflexivity|]. split; [apply R_upd; assumption|].
      intros _. destruct (R_dict_held _ _ _ _ HR Hn id D) as (v0 & Sm & _). rewrite Sm. reflexivity.
    + eexists _, _. split; [reflexivity|]. split; [apply R_herr; assumption|].
      intros _. destruct (R_dict_held _ _ _ _ HR Hn id D) as (v0 & Sm & _). rewrite Sm.
      rewrite <- (R_lst _ _ _ HR). apply chunk_eqb_refl.
    + assert (Sm : s_map s (v_name v) = None).
      { pose proof (R_name _ _ _ HR _ Hn) as A. destruct (s_map s (v_name v)); [|reflexivity].
        destruct A as (? & A & _). congruence. }
      eexists _, _. split; [reflexivity|]. split; [apply R_new; assumption|].
      intros _. rewrite Sm, <- (R_lst _ _ _ HR). apply chunk_eqb_refl.
    + assert (Sm : s_map s (v_name v) = None).
      { pose proof (R_name _ _ _ HR _ Hn) as A. destruct (s_map s (v_name v)); [|reflexivity].
        destruct A as (? & A & _). congruence. }
      eexists _, _. split; [reflexivity|]. split; [apply R_nerr; assumption|].
      intros _. rewrite Sm. reflexivity.
  - cbn [step]. destruct (advance m dt) as [m' es] eqn:A.
    destruct (R_advance NS m s dt m' es HR A) as [HR' Ck].
    exists m', es. split; [reflexivity|]. split; [exact HR'|]. intros _. exact Ck.
  - cbn [step spec_step]. exists m, (find m k). split; [reflexivity|]. split; [exact HR|].
    intros St. eapply find_chunk; eauto.
  - cbn [step]. eexists _, _. split; [reflexivity|]. split; [apply R_addl; exact HR|].
    intros _. reflexivity.
Qed.

(* ------------------------------------------------------------------------------------------ *)
(* Part B6: whole histories *)

Lemma run_sim NS h : forall m s,
  R NS m s -> in_scope h = true -> Forall (op_within NS) h ->
  exists m' tr, run_from m h = Some (m', tr) /\ R NS m' (fold_left spec_step h s) /\
    (stale_lookup_from s h = false -> oracle_from s h tr = true).
Proof.
  induction h as [|o h IH]; intros m s HR Sc W.
  - exists m, []. split; [reflexivity|]. split; [exact HR|]. reflexivity.
  - cbn [in_scope forallb] in Sc. apply andb_true_iff in Sc as [Sco Sc].
    inversion W as [|? ? Wo W']; subst.
    destruct (step_sim NS m s o HR Sco Wo) as (m1 & es & St & HR1 & Ck).
    destruct (IH m1 (spec_step s o) HR1 Sc W') as (m' & tr & Rn & HR' & Or).
    exists m', (es :: tr). cbn [run_from fold_left]. rewrite St, Rn. split; [reflexivity|]. split; [exact HR'|].
    cbn [stale_lookup_from oracle_from]. intros B.
    apply orb_false_iff in B as [B1 B2].
    rewrite (Ck B1), (Or B2). reflexivity.
Qed.

(* names and address keys of a history *)
Lemma ev_in_names h ts v : In (OEv ts) h -> parse_ev ts = Some v ->
  In (v_name v) (ev_names h) /\ In (ev_key v) (ev_addrs h).
Proof.
  induction h as [|o h IH]; intros H P; [destruct H|].
  destruct H as [->|H].
  - cbn [ev_names ev_addrs]. rewrite P. split; left; reflexivity.
  - destruct (IH H P) as [A B]. destruct o as [ts'| | |]; cbn [ev_names ev_addrs]; try (split; assumption).
    destruct (parse_ev ts'); split; try right; assumption.
Qed.

Lemma within_of_no_collision h NS :
  (forall n, In n (ev_names h) -> In n NS) ->
  (forall n, In n NS -> ~ In n (ev_addrs h)) ->
  Forall (op_within NS) h.
Proof.
  intros Sub Dis. apply Forall_forall. intros o Ho. destruct o as [ts| | |]; cbn [op_within]; auto.
  intros v P. destruct (ev_in_names h ts v Ho P) as [A B]. split; [auto|].
  intros C. exact (Dis _ C B).
Qed.

Lemma no_collision_disjoint h : key_collision h = false ->
  forall n, In n (ev_names h) -> ~ In n (ev_addrs h).
Proof.
  unfold key_collision. intros H n Hn A.
  pose proof (existsb_false _ _ H n Hn) as B. cbn in B. apply memB_In in A. congruence.
Qed.

Lemma within_self h : key_collision h = false -> Forall (op_within (ev_names h)) h.
Proof.
  intros H. apply within_of_no_collision; [auto|]. apply no_collision_disjoint. exact H.
Qed.

(* the main theorem: outside the three finding classes the model's trace satisfies the oracle *)
Lemma model_satisfies_oracle h :
  in_scope h = true -> key_collision h = false -> stale_lookup h = false ->
  exists tr, run h = Some tr /\ oracle h tr = true.
Proof.
  intros Sc Kc Sl.
  destruct (run_sim (ev_names h) h m0 s0 (R_init _) Sc (within_self h Kc)) as (m' & tr & Rn & _ & Or).
  exists tr. unfold run. rewrite Rn. split; [reflexivity|]. apply Or; assumption.
Qed.

(* ------------------------------------------------------------------------------------------ *)
(* Part C: consequences *)

Lemma spec_after_app h1 h2 : spec_after (h1 ++ h2) = fold_left spec_step h2 (spec_after h1).
Proof. unfold spec_after. apply fold_left_app. Qed.

Lemma state_R h m : in_scope h = true -> key_collision h = false -> state_after h = Some m ->
  R (ev_names h) m (spec_after h).
Proof.
  intros Sc Kc St.
  destruct (run_sim (ev_names h) h m0 s0 (R_init _) Sc (within_self h Kc)) as (m' & tr & Rn & HR & _).
  unfold state_after in St. rewrite Rn in St. cbn in St. injection St as <-. exact HR.
Qed.

Lemma state_exists h : in_scope h = true -> key_collision h = false -> exists m, state_after h = Some m.
Proof.
  intros Sc Kc.
  destruct (run_sim (ev_names h) h m0 s0 (R_init _) Sc (within_self h Kc)) as (m' & tr & Rn & _ & _).
  exists m'. unfold state_after. rewrite Rn. reflexivity.
Qed.

(* the map finds exactly the HELD names, with the latest address and expiry *)
Lemma find_name_held h n m :
  in_scope h = true -> key_collision h = false -> In n (ev_names h) -> state_after h = Some m ->
  find m n = match s_map (spec_after h) n with
             | Some v => [EFound n (m_ip v) (exp_opt (m_exp v))]
             | None => [ENotFound]
             end.
Proof.
  intros Sc Kc Hn St. pose proof (state_R h m Sc Kc St) as HR.
  pose proof (R_name _ _ _ HR n Hn) as A. unfold find, dget, hget.
  destruct (s_map (spec_after h) n) as [v|].
  - destruct A as (id & D & Hh). rewrite D, Hh. reflexivity.
  - rewrite A. reflexivity.
Qed.

(* lookup succeeds exactly when the latest mapping has not expired, provided the mapping did not
   arrive already expired with no time passed since (finding C20-F3) *)
Lemma lookup_iff_unexpired h n m :
  in_scope h = true -> key_collision h = false -> In n (ev_names h) -> state_after h = Some m ->
  due_in (s_now (spec_after h)) (s_map (spec_after h)) n = false ->
  find m n = match live (spec_after h) n with
             | Some v => [EFound n (m_ip v) (exp_opt (m_exp v))]
             | None => [ENotFound]
             end.
Proof.
  intros Sc Kc Hn St Nd. rewrite (find_name_held h n m Sc Kc Hn St). unfold live, due_in in *.
  destruct (s_map (spec_after h) n) as [v|]; [|reflexivity]. rewrite Nd. reflexivity.
Qed.

(* once time has passed nothing is stale *)
Lemma after_advance_fresh h dt n :
  due_in (s_now (spec_after (h ++ [OAdvance dt]))) (s_map (spec_after (h ++ [OAdvance dt]))) n = false.
Proof.
  rewrite spec_after_app. cbn [fold_left spec_step s_now s_map]. unfold due_in, sweep.
  destruct (s_map (spec_after h) n) as [v|]; [|reflexivity].
  destruct (due_exp (s_now (spec_after h) + Z.of_N dt) (m_exp v)) eqn:E; [reflexivity|exact E].
Qed.

(* whatever key is looked up (name or address), a mapping that is returned is live: the latest
   mapping of its name, unexpired *)
Lemma found_is_live h k m n ip e :
  in_scope h = true -> key_collision h = false -> state_after h = Some m ->
  existsb (due_in (s_now (spec_after h)) (s_map (spec_after h))) (s_names (spec_after h)) = false ->
  find m k = [EFound n ip e] ->
  exists v, live (spec_after h) n = Some v /\ ip = m_ip v /\ e = exp_opt (m_exp v).
Proof.
  intros Sc Kc St Nd F. pose proof (state_R h m Sc Kc St) as HR.
  assert (Live : forall n v, s_map (spec_after h) n = Some v -> live (spec_after h) n = Some v).
  { intros n' v Sm. unfold live. rewrite Sm.
    pose proof (existsb_false _ _ Nd n' (R_held _ _ _ HR n' v Sm)) as A. unfold due_in in A. rewrite Sm in A.
    rewrite A. reflexivity. }
  unfold find, dget, hget in F. destruct (dict m k) as [id|] eqn:D; [|discriminate].
  destruct (memB k (ev_names h)) eqn:Mk.
  - apply memB_In in Mk. destruct (R_dict_held _ _ _ _ HR Mk id D) as (v & Sm & Hh).
    rewrite Hh in F. injection F as <- <- <-. exists v. auto.
  - assert (Hk : ~ In k (ev_names h)) by (intros A; apply memB_In in A; congruence).
    destruct (R_addr _ _ _ HR k id D Hk) as (n' & Hn' & Dn).
    destruct (R_dict_held _ _ _ _ HR Hn' id Dn) as (v & Sm & Hh).
    rewrite Hh in F. injection F as <- <- <-. exists v. auto.
Qed.

Lemma in_scope_app h1 h2 : in_scope (h1 ++ h2) = in_scope h1 && in_scope h2.
Proof. unfold in_scope. apply forallb_app. Qed.

Lemma ev_names_app h1 h2 : ev_names (h1 ++ h2) = ev_names h1 ++ ev_names h2.
Proof.
  induction h1 as [|o h1 IH]; [reflexivity|]. destruct o as [ts| | |]; cbn [app ev_names]; try exact IH.
  destruct (parse_ev ts); [cbn [app]; f_equal|]; exact IH.
Qed.

Lemma ev_addrs_app h1 h2 : ev_addrs (h1 ++ h2) = ev_addrs h1 ++ ev_addrs h2.
Proof.
  induction h1 as [|o h1 IH]; [reflexivity|]. destruct o as [ts| | |]; cbn [app ev_addrs]; try exact IH.
  destruct (parse_ev ts); [cbn [app]; f_equal|]; exact IH.
Qed.

Lemma key_collision_adv h dt : key_collision (h ++ [OAdvance dt]) = key_collision h.
Proof. unfold key_collision. rewrite ev_names_app, ev_addrs_app. cbn [ev_names ev_addrs]. rewrite !app_nil_r. reflexivity. Qed.

(* a later event for the same name replaces the address and moves the expiry to the new time,
   earlier or later, however far away: after it, and dt ticks, the name is found iff t > now + dt *)
Lemma expiry_moves h ts n a t dt m :
  in_scope h = true -> key_collision (h ++ [OEv ts]) = false ->
  parse_ev ts = Some {| v_name := n; v_addr := Some a; v_exp := XAt t |} ->
  state_after (h ++ [OEv ts; OAdvance dt]) = Some m ->
  find m n = if (t <=? s_now (spec_after h) + Z.of_N dt)%Z then [ENotFound] else [EFound n a (Some t)].
Proof.
  intros Sc Kc P St.
  change (h ++ [OEv ts; OAdvance dt]) with (h ++ [OEv ts] ++ [OAdvance dt]) in St. rewrite app_assoc in St.
  assert (Sc' : in_scope ((h ++ [OEv ts]) ++ [OAdvance dt]) = true).
  { rewrite !in_scope_app, Sc. cbn. rewrite P. reflexivity. }
  assert (Kc' : key_collision ((h ++ [OEv ts]) ++ [OAdvance dt]) = false) by (rewrite key_collision_adv; exact Kc).
  assert (Hn : In n (ev_names ((h ++ [OEv ts]) ++ [OAdvance dt]))).
  { rewrite !ev_names_app. cbn [ev_names]. rewrite P. apply in_or_app. left. apply in_or_app. right. left. reflexivity. }
  rewrite (find_name_held _ n m Sc' Kc' Hn St).
  rewrite !spec_after_app. cbn [fold_left spec_step]. rewrite P. cbn [v_name v_addr v_exp s_now s_map].
  unfold sweep, sset. rewrite beqb_refl. cbn [m_exp due_exp m_ip exp_opt].
  destruct (t <=? s_now (spec_after h) + Z.of_N dt)%Z; reflexivity.
Qed.

(* never-expiring mappings persist: through any later operations that do not mention the name *)
Definition not_about (n : bytes) (o : op) : Prop :=
  match o with OEv ts => forall v, parse_ev ts = Some v -> v_name v <> n | _ => True end.

Lemma never_stays n a h2 : Forall (not_about n) h2 -> forall s,
  s_map s n = Some {| m_ip := a; m_exp := XNever |} ->
  s_map (fold_left spec_step h2 s) n = Some {| m_ip := a; m_exp := XNever |}.
Proof.
  induction 1 as [|o h2 Ho _ IH]; intros s Sm; [exact Sm|]. cbn [fold_left]. apply IH.
  destruct o as [ts|dt|k|l]; cbn [spec_step]; try exact Sm.
  - destruct (parse_ev ts) as [v|] eqn:P; [|exact Sm]. cbn [s_map].
    specialize (Ho v P). destruct (v_addr v); unfold sset, sdel; rewrite (beqb_neq_false _ _ Ho); exact Sm.
  - cbn [s_map]. unfold sweep. rewrite Sm. reflexivity.
Qed.

Lemma never_persists h ts n a h2 m :
  in_scope (h ++ OEv ts :: h2) = true -> key_collision (h ++ OEv ts :: h2) = false ->
  parse_ev ts = Some {| v_name := n; v_addr := Some a; v_exp := XNever |} ->
  Forall (not_about n) h2 ->
  state_after (h ++ OEv ts :: h2) = Some m ->
  find m n = [EFound n a None].
Proof.
  intros Sc Kc P NA St.
  assert (Hn : In n (ev_names (h ++ OEv ts :: h2))).
  { rewrite ev_names_app. cbn [ev_names]. rewrite P. apply in_or_app. right. left. reflexivity. }
  rewrite (find_name_held _ n m Sc Kc Hn St).
  change (h ++ OEv ts :: h2) with (h ++ [OEv ts] ++ h2). rewrite app_assoc, !spec_after_app.
  rewrite (never_stays n a h2 NA); [reflexivity|].
  cbn [fold_left spec_step]. rewrite P. cbn [s_map v_name v_addr v_exp]. unfold sset. rewrite beqb_refl. reflexivity.
Qed.

(* error mappings are dropped at once *)
Lemma error_dropped h ts n x m :
  in_scope h = true -> key_collision (h ++ [OEv ts]) = false ->
  parse_ev ts = Some {| v_name := n; v_addr := None; v_exp := x |} ->
  state_after (h ++ [OEv ts]) = Some m ->
  find m n = [ENotFound].
Proof.
  intros Sc Kc P St.
  assert (Sc' : in_scope (h ++ [OEv ts]) = true) by (rewrite in_scope_app, Sc; cbn; rewrite P; reflexivity).
  assert (Hn : In n (ev_names (h ++ [OEv ts]))).
  { rewrite ev_names_app. cbn [ev_names]. rewrite P. apply in_or_app. right. left. reflexivity. }
  rewrite (find_name_held _ n m Sc' Kc Hn St).
  rewrite spec_after_app. cbn [fold_left spec_step]. rewrite P. cbn [s_map v_name v_addr]. unfold sdel.
  rewrite beqb_refl. reflexivity.
Qed.

(* ---- the full-strength statement is false of the faithful model: two witnesses.
        wit_unheld_error was the witness of C20-F1 (repaired in /repo a1d3211): the oracle now ACCEPTS
        the model's trace on it (unheld_error_accepted) ---- *)
Definition W (l : list N) : tok := {| t_pre := str l; t_time := None |}.
Definition T (t : Z) : tok := {| t_pre := []; t_time := Some t |}.
Definition X (t : Z) : tok := {| t_pre := w_EXPIRES; t_time := Some t |}.
Definition n_a : list N := [97;46;99;111;109].          (* a.com *)
Definition n_b : list N := [98;46;99;111;109].          (* b.com *)
Definition ip1 : list N := [49;48;46;48;46;48;46;49].   (* 10.0.0.1 *)

Definition wit_unheld_error : list op :=
  [OAddL 1; OEv [W n_a; {| t_pre := w_ERROR; t_time := None |}; T 80; W [101;114;114;111;114;61;121;101;115]; X 80]].
Definition wit_collision : list op :=
  [OEv [W n_a; W n_b; {| t_pre := w_NEVER; t_time := None |}]; OEv [W n_b; W ip1; T 40; X 40];
   OAdvance 40; OFind (str n_a)].
Definition wit_stale : list op :=
  [OAdvance 800; OEv [W n_a; W ip1; T 720; X 720]; OFind (str n_a)].

Definition refutes (h : list op) : bool :=
  in_scope h && match run h with Some tr => negb (oracle h tr) | None => false end.

Lemma collision_refuted :
  refutes wit_collision = true /\ stale_lookup wit_collision = false.
Proof. vm_compute. auto. Qed.
Lemma stale_refuted :
  refutes wit_stale = true /\ key_collision wit_stale = false.
Proof. vm_compute. auto. Qed.

Lemma refutes_elim h : refutes h = true ->
  in_scope h = true /\ exists tr, run h = Some tr /\ oracle h tr = false.
Proof.
  unfold refutes. intros A. apply andb_true_iff in A as [A1 A2]. split; [exact A1|].
  destruct (run h) as [tr|]; [|discriminate]. exists tr. split; [reflexivity|]. now apply negb_true_iff in A2.
Qed.

Lemma collision_refuted_ex : exists h,
  in_scope h = true /\ stale_lookup h = false /\
  exists tr, run h = Some tr /\ oracle h tr = false.
Proof.
  exists wit_collision. destruct collision_refuted as (A & B).
  destruct (refutes_elim _ A) as [A1 A2]. auto.
Qed.

Lemma stale_refuted_ex : exists h,
  in_scope h = true /\ key_collision h = false /\
  exists tr, run h = Some tr /\ oracle h tr = false.
Proof.
  exists wit_stale. destruct stale_refuted as (A & B).
  destruct (refutes_elim _ A) as [A1 A2]. auto.
Qed.

(* the former witness of C20-F1 is now inside the proved class *)
Lemma unheld_error_accepted :
  in_scope wit_unheld_error = true /\ key_collision wit_unheld_error = false /\ stale_lookup wit_unheld_error = false /\
  run wit_unheld_error = Some [[]; []].
Proof. vm_compute. auto. Qed.
