(* C20: the model of txtorcon.addrmap simulates the reference semantics of Spec/C20.v.
   Part A: the code's choice of the expiry argument agrees with the control-spec reading of the line
           (EXPIRES= form, all-positional "local" "utc" form, local-only form, NEVER).
   Part B: the simulation invariant R and its preservation by every operation: the four shapes of
           AddrMap.update (also as a nested feed from inside a callback), a listener's script, the
           notify loop with active listeners, the loop of Clock.advance; that the reference state after
           an advance does not depend on the order in which the due names expire (fold_exp_char).
   Part C: consequences (oracle satisfied; lookups; expiry moves both ways; NEVER persists). *)
From Coq Require Import List Bool Ascii Arith NArith ZArith Lia.
From TxVerif Require Import Lib.Bytes Spec.C20 Model.AddrMap.
Import ListNotations.
Open Scope N_scope.

(* ------------------------------------------------------------------------------------------ *)
(* Part A *)

Lemma beqb_false_neq a b : beqb a b = false -> a <> b.
Proof. intros H E. subst. rewrite beqb_refl in H. discriminate. Qed.

Lemma beqb_neq_false a b : a <> b -> beqb a b = false.
Proof. intros H. destruct (beqb a b) eqn:E; [|reflexivity]. apply beqb_eq in E. contradiction. Qed.

Lemma beqb_sym a b : beqb a b = beqb b a.
Proof.
  destruct (beqb a b) eqn:E.
  - apply beqb_eq in E. subst. symmetry. apply beqb_refl.
  - symmetry. apply beqb_neq_false. intros ->. rewrite beqb_refl in E. discriminate.
Qed.

Lemma lower_a_EQC x : lower_a x = EQC -> x = EQC.
Proof.
  destruct x as [[] [] [] [] [] [] [] []]; vm_compute; intros H; try reflexivity; discriminate H.
Qed.

Lemma expires_prefix_has_eq pre :
  prefixb w_expires_lc (lower pre) = true -> memb EQC pre = true.
Proof.
  destruct pre as [|x1 [|x2 [|x3 [|x4 [|x5 [|x6 [|x7 [|x8 r]]]]]]]];
    unfold w_expires_lc, str, lower; cbn [map prefixb]; intros H;
    repeat (apply andb_true_iff in H; destruct H as [? H]); try discriminate H.
  match goal with H8 : Ascii.eqb (ch 61) (lower_a ?y) = true |- _ =>
    apply Ascii.eqb_eq in H8; symmetry in H8; apply lower_a_EQC in H8; subst y end.
  cbn [memb]. rewrite Ascii.eqb_refl. rewrite !orb_true_r. reflexivity.
Qed.

Lemma plain_no_expires t : plain_word t = true -> prefixb w_expires_lc (lower (t_pre t)) = false.
Proof.
  unfold plain_word. intros H.
  apply andb_true_iff in H as [H _]. apply andb_true_iff in H as [_ H].
  destruct (prefixb w_expires_lc (lower (t_pre t))) eqn:E; [|reflexivity].
  apply expires_prefix_has_eq in E. rewrite E in H. discriminate.
Qed.

Definition scan_f (acc : option tok) (t : tok) : option tok :=
  if prefixb w_expires_lc (lower (t_pre t))
  then Some {| t_pre := skipn 8 (t_pre t); t_time := t_time t |} else acc.

Lemma scan_expires_unfold ts : scan_expires ts = fold_left scan_f ts None.
Proof. reflexivity. Qed.

Lemma EXPIRES_matches : prefixb w_expires_lc (lower w_EXPIRES) = true.
Proof. vm_compute. reflexivity. Qed.

Lemma scan_rest rest : forallb kw_ok rest = true -> forall acc,
  fold_left scan_f rest acc =
  match gmt_of rest with
  | [] => acc
  | l => Some {| t_pre := []; t_time := Some (last l 0%Z) |}
  end.
Proof.
  induction rest as [|t rest IH]; intros K acc; [reflexivity|].
  cbn [forallb] in K. apply andb_true_iff in K as [Kt K].
  cbn [fold_left]. rewrite (IH K). clear IH.
  unfold kw_ok in Kt. apply andb_true_iff in Kt as [_ Kt].
  unfold gmt_of at 2. cbn [flat_map]. fold (gmt_of rest).
  unfold scan_f.
  destruct (prefixb w_expires_lc (lower (t_pre t))) eqn:P.
  - apply andb_true_iff in Kt as [E W]. rewrite E.
    apply beqb_eq in E.
    unfold is_word in W. destruct (t_time t) as [g|] eqn:T; [|discriminate].
    rewrite E. cbn [app].
    destruct (gmt_of rest) as [|g' l]; [reflexivity|]. reflexivity.
  - destruct (beqb (t_pre t) w_EXPIRES) eqn:E.
    + apply beqb_eq in E. rewrite E, EXPIRES_matches in P. discriminate.
    + cbn [app]. reflexivity.
Qed.

(* what Addr.update computes as the new expiry: Some None = never, Some (Some t), None = raises *)
Definition model_exp (ts : list tok) : option (option Z) :=
  match pick_expiry ts with
  | Some g =>
      if is_word g && beqb (upper (t_pre g)) w_NEVER then Some None
      else match strptime g with Some x => Some (Some x) | None => None end
  | None => None
  end.

Lemma split_pos_none rest0 rest : split_pos rest0 = (None, rest) -> rest0 = rest.
Proof.
  destruct rest0 as [|d r]; cbn [split_pos].
  - intros E. injection E as <-. reflexivity.
  - destruct (bare_time d); intros E; [discriminate|]. injection E as <-. reflexivity.
Qed.

Lemma split_pos_some rest0 rest g : split_pos rest0 = (Some g, rest) ->
  exists d, rest0 = d :: rest /\ t_pre d = [] /\ t_time d = Some g.
Proof.
  destruct rest0 as [|d r]; cbn [split_pos]; [discriminate|].
  destruct (bare_time d) as [g'|] eqn:B; intros E; [|discriminate]. injection E as -> ->.
  exists d. split; [reflexivity|]. unfold bare_time in B.
  destruct (t_pre d); [|discriminate]. destruct (t_time d); [|discriminate]. injection B as ->. auto.
Qed.

Lemma scan_f_bare acc d : t_pre d = [] -> scan_f acc d = acc.
Proof. intros E. unfold scan_f. rewrite E. reflexivity. Qed.

Lemma parse_agree ts v : parse_ev ts = Some v ->
  exists a b c rest,
    ts = a :: b :: c :: rest /\ is_word a = true /\ is_word b = true /\
    t_pre a = v_name v /\
    v_addr v = (if beqb (t_pre b) w_ERROR then None else Some (t_pre b)) /\
    (exists g, pick_expiry ts = Some g) /\
    model_exp ts = Some (exp_opt (v_exp v)).
Proof.
  unfold parse_ev.
  destruct ts as [|a [|b [|c rest0]]]; try discriminate.
  destruct (split_pos rest0) as [pos rest] eqn:SP.
  destruct (plain_word a) eqn:Pa; cbn [andb]; [|discriminate].
  destruct (plain_word b) eqn:Pb; cbn [andb]; [|discriminate].
  destruct (forallb kw_ok rest) eqn:K; [|discriminate].
  assert (Wa : is_word a = true).
  { unfold plain_word in Pa. apply andb_true_iff in Pa as [Pa _]. apply andb_true_iff in Pa as [Pa _]. exact Pa. }
  assert (Wb : is_word b = true).
  { unfold plain_word in Pb. apply andb_true_iff in Pb as [Pb _]. apply andb_true_iff in Pb as [Pb _]. exact Pb. }
  assert (Scan0 : forall acc, fold_left scan_f rest0 acc = fold_left scan_f rest acc).
  { intros acc. destruct pos as [g|].
    - destruct (split_pos_some _ _ _ SP) as (d & -> & Pd & _). cbn [fold_left]. rewrite scan_f_bare by exact Pd. reflexivity.
    - rewrite (split_pos_none _ _ SP). reflexivity. }
  assert (Scan : forall c', prefixb w_expires_lc (lower (t_pre c')) = false ->
            scan_expires (a :: b :: c' :: rest0) =
            match gmt_of rest with [] => None | l => Some {| t_pre := []; t_time := Some (last l 0%Z) |} end).
  { intros c' Pc. rewrite scan_expires_unfold. cbn [fold_left]. unfold scan_f at 2 3 4.
    rewrite (plain_no_expires a Pa), (plain_no_expires b Pb), Pc. rewrite Scan0. apply scan_rest. exact K. }
  destruct (t_time c) as [l|] eqn:Tc.
  - destruct (t_pre c) as [|x p] eqn:Pc; [|discriminate].
    assert (Pc' : prefixb w_expires_lc (lower (t_pre c)) = false) by (rewrite Pc; reflexivity).
    specialize (Scan c Pc').
    destruct (gmt_of rest) as [|g [|g2 l2]] eqn:G.
    + destruct pos as [g|].
      * (* all-positional form *)
        destruct (split_pos_some _ _ _ SP) as (d & -> & Pd & Td).
        intros E. injection E as <-. cbn [v_name v_addr v_exp].
        assert (Pick : pick_expiry (a :: b :: c :: d :: rest) = Some d).
        { unfold pick_expiry. rewrite Scan. unfold tok_text_is, is_word. rewrite Tc. reflexivity. }
        exists a, b, c, (d :: rest). repeat split; try assumption; try reflexivity.
        -- eexists; exact Pick.
        -- unfold model_exp. rewrite Pick. unfold is_word, strptime. rewrite Td, Pd. reflexivity.
      * rewrite (split_pos_none _ _ SP) in *.
        destruct rest as [|d rest']; [|discriminate].
        intros E. injection E as <-. cbn [v_name v_addr v_exp].
        exists a, b, c, []. repeat split; try assumption; try reflexivity.
        -- unfold pick_expiry. rewrite Scan. eexists; reflexivity.
        -- unfold model_exp, pick_expiry. rewrite Scan.
           unfold is_word. rewrite Tc. cbn [andb]. unfold strptime. rewrite Pc, Tc. reflexivity.
    + intros E. assert (E' : Some {| v_name := t_pre a; v_addr := if beqb (t_pre b) w_ERROR then None else Some (t_pre b); v_exp := XAt g |} = Some v)
        by (destruct pos; exact E). clear E. injection E' as <-. cbn [v_name v_addr v_exp].
      exists a, b, c, rest0. repeat split; try assumption; try reflexivity.
      * unfold pick_expiry. rewrite Scan. eexists; reflexivity.
      * unfold model_exp, pick_expiry. rewrite Scan. cbn [last].
        unfold is_word, strptime. cbn [t_time t_pre andb]. reflexivity.
    + destruct pos; discriminate.
  - destruct (beqb (t_pre c) w_NEVER) eqn:Nc; [|discriminate].
    apply beqb_eq in Nc.
    assert (Pc' : prefixb w_expires_lc (lower (t_pre c)) = false) by (rewrite Nc; vm_compute; reflexivity).
    specialize (Scan c Pc').
    destruct (gmt_of rest) as [|g l2] eqn:G; [|discriminate].
    destruct pos as [g|]; [discriminate|]. rewrite (split_pos_none _ _ SP) in *.
    intros E. injection E as <-. cbn [v_name v_addr v_exp].
    assert (Pick : pick_expiry (a :: b :: c :: rest) = Some c).
    { unfold pick_expiry. rewrite Scan. destruct rest as [|d rest']; [reflexivity|].
      unfold tok_text_is, is_word. rewrite Tc, Nc, beqb_refl. reflexivity. }
    exists a, b, c, rest. repeat split; try assumption; try reflexivity.
    + eexists; exact Pick.
    + unfold model_exp. rewrite Pick. unfold is_word. rewrite Tc, Nc. vm_compute. reflexivity.
Qed.

(* ------------------------------------------------------------------------------------------ *)
(* Part B1: the clock's call list *)

Fixpoint sorted (cs : list (Z * N)) : Prop :=
  match cs with
  | [] => True
  | c :: cs' => (forall c', In c' cs' -> (fst c <= fst c')%Z) /\ sorted cs'
  end.

Lemma In_cancel t i id cs : In (t, i) (cancel_call id cs) <-> In (t, i) cs /\ i <> id.
Proof.
  unfold cancel_call. rewrite filter_In. cbn [snd]. split; intros [A B]; split; auto.
  - intros ->. rewrite N.eqb_refl in B. discriminate.
  - apply negb_true_iff. apply N.eqb_neq. exact B.
Qed.

Lemma sorted_filter p cs : sorted cs -> sorted (filter p cs).
Proof.
  induction cs as [|c cs IH]; intros S; [exact I|].
  destruct S as [S1 S2]. cbn [filter]. destruct (p c).
  - split; [|auto]. intros c' H. apply filter_In in H as [H _]. auto.
  - auto.
Qed.

Lemma In_insert x c cs : In x (insert_call c cs) <-> x = c \/ In x cs.
Proof.
  induction cs as [|y cs IH]; cbn [insert_call].
  - cbn. intuition.
  - destruct (fst y <=? fst c)%Z.
    + cbn [In]. rewrite IH. intuition.
    + cbn [In]. intuition.
Qed.

Lemma sorted_insert c cs : sorted cs -> sorted (insert_call c cs).
Proof.
  induction cs as [|y cs IH]; intros S; cbn [insert_call].
  - split; [intros ? []|exact I].
  - destruct S as [S1 S2]. destruct (fst y <=? fst c)%Z eqn:E.
    + split; [|auto]. intros c' H. apply In_insert in H as [->|H]; [lia|auto].
    + split; [|split; auto]. intros c' [<-|H]; [lia|]. specialize (S1 c' H). lia.
Qed.

Lemma In_snd_insert i c cs : In i (map snd (insert_call c cs)) <-> i = snd c \/ In i (map snd cs).
Proof.
  rewrite !in_map_iff. split.
  - intros (x & <- & H). apply In_insert in H as [->|H]; [left; reflexivity|right; eauto].
  - intros [->|(x & <- & H)]; [exists c|exists x]; (split; [reflexivity|]); apply In_insert; auto.
Qed.

Lemma nodup_insert c cs : NoDup (map snd cs) -> ~ In (snd c) (map snd cs) -> NoDup (map snd (insert_call c cs)).
Proof.
  induction cs as [|y cs IH]; intros ND NI; cbn [insert_call].
  - cbn. constructor; [intros []|constructor].
  - cbn [map] in ND, NI. inversion ND as [|? ? Hy ND']; subst.
    destruct (fst y <=? fst c)%Z.
    + cbn [map]. constructor.
      * rewrite In_snd_insert. intros [E|H]; [apply NI; left; auto|contradiction].
      * apply IH; [exact ND'|]. intros H. apply NI. right. exact H.
    + cbn [map]. constructor; [exact NI|exact ND].
Qed.

Lemma nodup_cancel id cs : NoDup (map snd cs) -> NoDup (map snd (cancel_call id cs)).
Proof.
  induction cs as [|y cs IH]; intros ND; [constructor|].
  cbn [map] in ND. inversion ND as [|? ? Hy ND']; subst.
  unfold cancel_call. cbn [filter]. fold (cancel_call id cs).
  destruct (negb (snd y =? id)); [|auto].
  cbn [map]. constructor; [|auto].
  intros H. apply Hy. apply in_map_iff in H as ([t i] & E & H). cbn in E. subst i.
  apply In_cancel in H as [H _]. apply in_map_iff. exists (t, snd y). auto.
Qed.

Lemma notin_cancel id cs : ~ In id (map snd (cancel_call id cs)).
Proof.
  intros H. apply in_map_iff in H as ([t i] & E & H). cbn in E. subst i.
  apply In_cancel in H as [_ H]. congruence.
Qed.

Fixpoint due_prefix (nw : Z) (cs : list (Z * N)) : list (Z * N) :=
  match cs with
  | [] => []
  | c :: cs' => if (fst c <=? nw)%Z then c :: due_prefix nw cs' else []
  end.
Fixpoint due_suffix (nw : Z) (cs : list (Z * N)) : list (Z * N) :=
  match cs with
  | [] => []
  | c :: cs' => if (fst c <=? nw)%Z then due_suffix nw cs' else cs
  end.

Lemma due_split nw cs : cs = due_prefix nw cs ++ due_suffix nw cs.
Proof.
  induction cs as [|c cs IH]; [reflexivity|]. cbn [due_prefix due_suffix].
  destruct (fst c <=? nw)%Z; [|reflexivity]. cbn [app]. f_equal. exact IH.
Qed.

Lemma In_due_prefix nw c cs : In c (due_prefix nw cs) -> In c cs /\ (fst c <= nw)%Z.
Proof.
  induction cs as [|y cs IH]; [intros []|]. cbn [due_prefix].
  destruct (fst y <=? nw)%Z eqn:E; [|intros []].
  intros [<-|H]; [split; [left; auto|lia]|]. destruct (IH H). split; [right|]; auto.
Qed.

Lemma due_prefix_all nw c cs : sorted cs -> In c cs -> (fst c <= nw)%Z -> In c (due_prefix nw cs).
Proof.
  induction cs as [|y cs IH]; intros S H L; [destruct H|].
  destruct S as [S1 S2]. cbn [due_prefix].
  destruct H as [->|H].
  - assert (E : (fst c <=? nw)%Z = true) by lia. rewrite E. left. reflexivity.
  - specialize (S1 c H). assert (E : (fst y <=? nw)%Z = true) by lia. rewrite E. right. auto.
Qed.

Lemma In_due_suffix nw c cs : sorted cs -> In c (due_suffix nw cs) -> In c cs /\ (nw < fst c)%Z.
Proof.
  induction cs as [|y cs IH]; intros S H; [destruct H|].
  destruct S as [S1 S2]. cbn [due_suffix] in H.
  destruct (fst y <=? nw)%Z eqn:E.
  - destruct (IH S2 H). split; [right|]; auto.
  - split; [exact H|]. destruct H as [<-|H]; [lia|]. specialize (S1 c H). lia.
Qed.

Lemma due_suffix_all nw c cs : In c cs -> (nw < fst c)%Z -> In c (due_suffix nw cs).
Proof.
  induction cs as [|y cs IH]; intros H L; [destruct H|]. cbn [due_suffix].
  destruct (fst y <=? nw)%Z eqn:E.
  - destruct H as [->|H]; [lia|auto].
  - exact H.
Qed.

Lemma sorted_suffix nw cs : sorted cs -> sorted (due_suffix nw cs).
Proof.
  induction cs as [|y cs IH]; intros S; [exact I|]. cbn [due_suffix].
  destruct (fst y <=? nw)%Z; [apply IH; apply S|exact S].
Qed.

Lemma nodup_app_parts {A} (l l' : list A) : NoDup (l ++ l') -> NoDup l /\ NoDup l'.
Proof.
  induction l as [|x l IH]; cbn [app]; intros H.
  - split; [constructor|exact H].
  - inversion H as [|? ? Hx H']; subst. destruct (IH H') as [A1 A2]. split; [|exact A2].
    constructor; [|exact A1]. intros Hi. apply Hx. apply in_or_app. left. exact Hi.
Qed.

Lemma nodup_suffix nw cs : NoDup (map snd cs) -> NoDup (map snd (due_suffix nw cs)).
Proof.
  intros H. rewrite (due_split nw cs), map_app in H. apply nodup_app_parts in H. apply H.
Qed.

Lemma nodup_prefix nw cs : NoDup (map snd cs) -> NoDup (map snd (due_prefix nw cs)).
Proof.
  intros H. rewrite (due_split nw cs), map_app in H. apply nodup_app_parts in H. apply H.
Qed.

(* how many pending calls are due *)
Definition isdue (nw : Z) (c : Z * N) : bool := (fst c <=? nw)%Z.
Definition duecnt (nw : Z) (cs : list (Z * N)) : nat := length (filter (isdue nw) cs).

Lemma duecnt_insert nw c cs :
  duecnt nw (insert_call c cs) = (duecnt nw cs + if isdue nw c then 1 else 0)%nat.
Proof.
  unfold duecnt. induction cs as [|y cs IH]; cbn [insert_call].
  - cbn [filter]. destruct (isdue nw c); reflexivity.
  - destruct (fst y <=? fst c)%Z.
    + cbn [filter]. destruct (isdue nw y); cbn [length]; rewrite IH; reflexivity.
    + cbn [filter]. destruct (isdue nw c); destruct (isdue nw y); cbn [length]; lia.
Qed.

Lemma duecnt_cancel nw id cs : (duecnt nw (cancel_call id cs) <= duecnt nw cs)%nat.
Proof.
  unfold duecnt, cancel_call. induction cs as [|y cs IH]; [cbn; lia|].
  cbn [filter]. destruct (negb (snd y =? id)); cbn [filter]; destruct (isdue nw y); cbn [length]; lia.
Qed.

Lemma cancel_head c rest : ~ In (snd c) (map snd rest) -> cancel_call (snd c) (c :: rest) = rest.
Proof.
  intros NI. unfold cancel_call. cbn [filter]. rewrite N.eqb_refl. cbn [negb].
  induction rest as [|y r IH]; [reflexivity|]. cbn [filter].
  assert (E : (snd y =? snd c) = false).
  { apply N.eqb_neq. intros E. apply NI. left. exact E. }
  rewrite E. cbn [negb]. f_equal. apply IH. intros H. apply NI. right. exact H.
Qed.

(* ------------------------------------------------------------------------------------------ *)
(* Part B3: what AddrMap.update does to the state before its closing notify, in closed form *)

Definition mk (m : mst) (d : bytes -> option N) (h : N -> option entry) (c : list (Z * N)) (i : N) : mst :=
  {| dict := d; heap := h; calls := c; now := now m; nid := i; lst := lst m |}.

(* cancel the Addr's pending call, schedule the new one if the mapping has an expiry *)
Definition install (m : mst) (id : N) (x : sexp) : list (Z * N) :=
  match x with
  | XNever => cancel_call id (calls m)
  | XAt t => insert_call (Z.max (now m) t, id) (cancel_call id (calls m))
  end.

Definition old_exp (m : mst) (id : N) : option Z :=
  match heap m id with Some e => e_exp e | None => None end.

Definition blank : entry := {| e_name := []; e_ip := []; e_exp := None |}.

Lemma hset_same id e h : hset id e h id = Some e.
Proof. unfold hset. rewrite N.eqb_refl. reflexivity. Qed.

Lemma hset_other id e h i : i <> id -> hset id e h i = h i.
Proof. unfold hset. intros H. destruct (id =? i) eqn:E; [apply N.eqb_eq in E; congruence|reflexivity]. Qed.

Lemma duecnt_install m id x : (forall t, x = XAt t -> (now m < t)%Z) ->
  (duecnt (now m) (install m id x) <= duecnt (now m) (calls m))%nat.
Proof.
  intros H. unfold install. destruct x as [|t]; [apply duecnt_cancel|].
  rewrite duecnt_insert. unfold isdue. cbn [fst]. specialize (H t eq_refl).
  assert (E : (Z.max (now m) t <=? now m)%Z = false) by lia. rewrite E.
  pose proof (duecnt_cancel (now m) id (calls m)). lia.
Qed.

Lemma update_char m ts v : parse_ev ts = Some v ->
  let n := v_name v in
  let b := ev_key v in
  update_core m ts =
  match dict m n, v_addr v with
  | Some id, None =>
      Some (mk m (ddel_val id (dict m))
                 (hset id {| e_name := n; e_ip := b; e_exp := old_exp m id |} (heap m))
                 (cancel_call id (calls m)) (nid m),
            NExpired n)
  | Some id, Some a =>
      Some (mk m (dict m)
                 (hset id {| e_name := n; e_ip := a; e_exp := exp_opt (v_exp v) |} (heap m))
                 (install m id (v_exp v)) (nid m),
            NoNote)
  | None, None => Some (m, NoNote)
  | None, Some a =>
      Some (mk m (dset b (nid m) (dset n (nid m) (dict m)))
                 (hset (nid m) {| e_name := n; e_ip := a; e_exp := exp_opt (v_exp v) |} (hset (nid m) blank (heap m)))
                 (install m (nid m) (v_exp v)) (nid m + 1),
            NAdded (nid m))
  end.
Proof.
  intros P n b.
  destruct (parse_agree ts v P) as (ta & tb & tc & rest & -> & Wa & Wb & Na & Ad & (g & Pick) & ME).
  unfold model_exp in ME. rewrite Pick in ME.
  unfold update_core. rewrite Wa, Wb. cbn [andb]. unfold dget. rewrite Na. fold n.
  assert (Kb : b = t_pre tb).
  { unfold b, ev_key. rewrite Ad. destruct (beqb (t_pre tb) w_ERROR) eqn:E; [|reflexivity].
    apply beqb_eq in E. congruence. }
  destruct (dict m n) as [id|] eqn:D.
  - unfold addr_update. rewrite Pick, Wa, Wb. cbn [andb]. rewrite Na. fold n. rewrite <- Kb.
    rewrite Ad, <- Kb. destruct (beqb b w_ERROR) eqn:Eb.
    + unfold expire, name_of, hget, set_dict, set_calls, set_heap, mk, old_exp.
      cbn [dict heap calls now nid lst]. rewrite hset_same. cbn [e_name]. reflexivity.
    + rewrite ME. unfold set_calls, set_heap, mk, install, hget. cbn [dict heap calls now nid lst].
      destruct (v_exp v); reflexivity.
  - rewrite <- Kb. rewrite Ad. rewrite <- Kb. destruct (beqb b w_ERROR) eqn:Eb; [reflexivity|].
    unfold addr_update. rewrite Pick, Wa, Wb. cbn [andb]. rewrite Na. fold n. rewrite <- Kb.
    rewrite Eb. cbn [dict heap calls now nid lst].
    rewrite ME. unfold hget, set_calls, set_heap. cbn [dict heap calls now nid lst].
    destruct (v_exp v) as [|t]; cbn [exp_opt]; unfold mk, install; cbn [dict heap calls now nid lst]; reflexivity.
Qed.

(* ------------------------------------------------------------------------------------------ *)
(* Part B4: the simulation invariant *)

Lemma memB_In k l : memB k l = true <-> In k l.
Proof.
  unfold memB. rewrite existsb_exists. split.
  - intros (x & H & E). apply beqb_eq in E. subst. exact H.
  - intros H. exists k. split; [exact H|apply beqb_refl].
Qed.

Lemma memN_In k l : memN k l = true <-> In k l.
Proof.
  unfold memN. rewrite existsb_exists. split.
  - intros (x & H & E). apply N.eqb_eq in E. subst. exact H.
  - intros H. exists k. split; [exact H|apply N.eqb_refl].
Qed.

Lemma In_names_add x n l : In x (names_add n l) <-> x = n \/ In x l.
Proof.
  unfold names_add. destruct (memB n l) eqn:E.
  - apply memB_In in E. split; [auto|]. intros [->|H]; auto.
  - rewrite in_app_iff. cbn [In]. intuition.
Qed.

Definition entry_of (n : bytes) (v : mp) : entry :=
  {| e_name := n; e_ip := m_ip v; e_exp := exp_opt (m_exp v) |}.

Section Sim.
  Variable NS : list bytes.      (* the strings used as names; addresses are outside *)

  Record R (m : mst) (s : sst) : Prop := {
    R_now : now m = s_now s;
    R_lst : lst m = s_lst s;
    R_name : forall n, In n NS ->
             match s_map s n with
             | Some v => exists id, dict m n = Some id /\ heap m id = Some (entry_of n v)
             | None => dict m n = None
             end;
    R_held : forall n v, s_map s n = Some v -> In n (s_names s);
    R_names : forall n, In n (s_names s) -> In n NS;
    R_fresh : forall k id, dict m k = Some id -> id < nid m;
    R_cfresh : forall t id, In (t, id) (calls m) -> id < nid m;
    R_inj : forall n1 n2 id, In n1 NS -> In n2 NS -> dict m n1 = Some id -> dict m n2 = Some id -> n1 = n2;
    R_addr : forall k id, dict m k = Some id -> ~ In k NS -> exists n, In n NS /\ dict m n = Some id;
    R_sorted : sorted (calls m);
    R_nodup : NoDup (map snd (calls m));
    R_call : forall t id, In (t, id) (calls m) ->
             exists n v t0, In n NS /\ dict m n = Some id /\ s_map s n = Some v /\ m_exp v = XAt t0 /\
                            (t = t0 \/ (t0 <= t /\ t <= now m))%Z;
    R_hascall : forall n v t0 id, In n NS -> s_map s n = Some v -> m_exp v = XAt t0 ->
                dict m n = Some id -> exists t, In (t, id) (calls m);
    R_lstnd : NoDup (map fst (s_lst s))
  }.

  Lemma R_init : R m0 s0.
  Proof.
    constructor; cbn; intros; try reflexivity; try discriminate; try contradiction; try constructor.
  Qed.

  (* a held name has dict entry and vice versa *)
  Lemma R_dict_held m s n : R m s -> In n NS -> forall id, dict m n = Some id -> exists v, s_map s n = Some v /\ heap m id = Some (entry_of n v).
  Proof.
    intros HR Hn id D. pose proof (R_name _ _ HR n Hn) as A.
    destruct (s_map s n) as [v|]; [|congruence].
    destruct A as (id' & D' & Hh). exists v. split; [reflexivity|]. congruence.
  Qed.

  (* ---- the calls after (re)scheduling ---- *)
  Lemma install_facts m id x :
    sorted (calls m) -> NoDup (map snd (calls m)) ->
    sorted (install m id x) /\ NoDup (map snd (install m id x)) /\
    (forall t i, In (t, i) (install m id x) ->
        (i = id /\ exists tx, x = XAt tx /\ t = Z.max (now m) tx) \/ (In (t, i) (calls m) /\ i <> id)) /\
    (forall t i, In (t, i) (calls m) -> i <> id -> In (t, i) (install m id x)) /\
    (forall tx, x = XAt tx -> In (Z.max (now m) tx, id) (install m id x)).
  Proof.
    intros S ND. unfold install. destruct x as [|tx].
    - split; [apply sorted_filter; exact S|]. split; [apply nodup_cancel; exact ND|].
      split; [|split].
      + intros t i H. apply In_cancel in H. right. exact H.
      + intros t i H Hi. apply In_cancel. auto.
      + intros tx E. discriminate.
    - split; [apply sorted_insert, sorted_filter; exact S|].
      split; [apply nodup_insert; [apply nodup_cancel; exact ND|apply notin_cancel]|].
      split; [|split].
      + intros t i H. apply In_insert in H as [E|H].
        * injection E as -> ->. left. split; [reflexivity|]. exists tx. auto.
        * apply In_cancel in H. right. exact H.
      + intros t i H Hi. apply In_insert. right. apply In_cancel. auto.
      + intros tx' E. injection E as <-. apply In_insert. left. reflexivity.
  Qed.

  (* ---- an event for a held name, not an error ---- *)
  Lemma R_upd m s n id a x :
    R m s -> In n NS -> dict m n = Some id ->
    R (mk m (dict m) (hset id {| e_name := n; e_ip := a; e_exp := exp_opt x |} (heap m)) (install m id x) (nid m))
      {| s_now := s_now s; s_map := sset n {| m_ip := a; m_exp := x |} (s_map s);
         s_names := names_add n (s_names s); s_lst := s_lst s |}.
  Proof.
    intros HR Hn D.
    destruct (install_facts m id x (R_sorted _ _ HR) (R_nodup _ _ HR)) as (IS & IN & Ia & Ib & Ic).
    constructor; unfold mk; cbn [dict heap calls now nid lst s_now s_map s_names s_lst].
    - apply HR.
    - apply HR.
    - intros n' Hn'. unfold sset. destruct (beqb n n') eqn:E.
      + apply beqb_eq in E. subst n'. exists id. split; [exact D|]. rewrite hset_same. reflexivity.
      + apply beqb_false_neq in E. pose proof (R_name _ _ HR n' Hn') as A.
        destruct (s_map s n') as [v'|]; [|exact A].
        destruct A as (id' & D' & Hh). exists id'. split; [exact D'|].
        rewrite hset_other; [exact Hh|]. intros ->. apply E. eapply R_inj; eauto.
    - intros n' v'. unfold sset. destruct (beqb n n') eqn:E.
      + apply beqb_eq in E. subst. intros _. apply In_names_add. auto.
      + intros H. apply In_names_add. right. eapply R_held; eauto.
    - intros n' H. apply In_names_add in H as [->|H]; [exact Hn|]. eapply R_names; eauto.
    - apply HR.
    - intros t i H. apply Ia in H as [[-> _]|[H _]]; [eapply R_fresh; eauto|eapply R_cfresh; eauto].
    - apply HR.
    - apply HR.
    - exact IS.
    - exact IN.
    - intros t i H. apply Ia in H as [[-> (tx & -> & ->)]|[H Hi]].
      + exists n, {| m_ip := a; m_exp := XAt tx |}, tx. unfold sset. rewrite beqb_refl.
        repeat split; auto. lia.
      + destruct (R_call _ _ HR t i H) as (n' & v' & t0 & Hn' & D' & Sm & Ex & Tm).
        exists n', v', t0. repeat split; auto. unfold sset.
        destruct (beqb n n') eqn:E; [|exact Sm]. apply beqb_eq in E. subst n'. congruence.
    - intros n' v' t0 id' Hn' Sm Ex D'. unfold sset in Sm. destruct (beqb n n') eqn:E.
      + apply beqb_eq in E. subst n'. injection Sm as <-. cbn [m_exp] in Ex.
        assert (id' = id) by congruence. subst id'. eexists. apply Ic. exact Ex.
      + apply beqb_false_neq in E. destruct (R_hascall _ _ HR n' v' t0 id' Hn' Sm Ex D') as (t & H).
        exists t. apply Ib; [exact H|]. intros ->. apply E. eapply R_inj; eauto.
    - apply HR.
  Qed.

  (* ---- an event for a name that is not held, not an error ---- *)
  Lemma R_new m s n b x :
    R m s -> In n NS -> ~ In b NS -> s_map s n = None ->
    R (mk m (dset b (nid m) (dset n (nid m) (dict m)))
            (hset (nid m) {| e_name := n; e_ip := b; e_exp := exp_opt x |} (hset (nid m) blank (heap m)))
            (install m (nid m) x) (nid m + 1))
      {| s_now := s_now s; s_map := sset n {| m_ip := b; m_exp := x |} (s_map s);
         s_names := names_add n (s_names s); s_lst := s_lst s |}.
  Proof.
    intros HR Hn Hb Sn.
    assert (Dn : dict m n = None).
    { pose proof (R_name _ _ HR n Hn) as A. rewrite Sn in A. exact A. }
    assert (Nb : beqb b n = false) by (apply beqb_neq_false; intros ->; contradiction).
    assert (Dset : forall k, In k NS -> dset b (nid m) (dset n (nid m) (dict m)) k =
                                        if beqb n k then Some (nid m) else dict m k).
    { intros k Hk. unfold dset. rewrite (beqb_neq_false b k); [reflexivity|]. intros ->. contradiction. }
    destruct (install_facts m (nid m) x (R_sorted _ _ HR) (R_nodup _ _ HR)) as (IS & IN & Ia & Ib & Ic).
    constructor; unfold mk; cbn [dict heap calls now nid lst s_now s_map s_names s_lst].
    - apply HR.
    - apply HR.
    - intros n' Hn'. rewrite (Dset n' Hn'). unfold sset. destruct (beqb n n') eqn:E.
      + apply beqb_eq in E. subst n'. exists (nid m). split; [reflexivity|]. rewrite hset_same. reflexivity.
      + pose proof (R_name _ _ HR n' Hn') as A.
        destruct (s_map s n') as [v'|]; [|exact A].
        destruct A as (id' & D' & Hh). exists id'. split; [exact D'|].
        assert (id' <> nid m) by (pose proof (R_fresh _ _ HR _ _ D'); lia).
        rewrite !hset_other; auto.
    - intros n' v'. unfold sset. destruct (beqb n n') eqn:E.
      + apply beqb_eq in E. subst. intros _. apply In_names_add. auto.
      + intros H. apply In_names_add. right. eapply R_held; eauto.
    - intros n' H. apply In_names_add in H as [->|H]; [exact Hn|]. eapply R_names; eauto.
    - intros k i. unfold dset. destruct (beqb b k); [intros E; injection E as <-; lia|].
      destruct (beqb n k); [intros E; injection E as <-; lia|].
      intros H. pose proof (R_fresh _ _ HR _ _ H). lia.
    - intros t i H. apply Ia in H as [[-> _]|[H _]]; [lia|]. pose proof (R_cfresh _ _ HR _ _ H). lia.
    - intros n1 n2 i H1 H2. rewrite (Dset n1 H1), (Dset n2 H2).
      destruct (beqb n n1) eqn:E1; destruct (beqb n n2) eqn:E2.
      + apply beqb_eq in E1, E2. congruence.
      + intros A B. injection A as <-. pose proof (R_fresh _ _ HR _ _ B). lia.
      + intros A B. injection B as <-. pose proof (R_fresh _ _ HR _ _ A). lia.
      + eapply R_inj; eauto.
    - intros k i H Hk. unfold dset in H. destruct (beqb b k) eqn:Ebk.
      + injection H as <-. exists n. split; [exact Hn|]. rewrite (Dset n Hn), beqb_refl. reflexivity.
      + destruct (beqb n k) eqn:Enk; [apply beqb_eq in Enk; subst k; contradiction|].
        destruct (R_addr _ _ HR k i H Hk) as (n' & Hn' & D').
        exists n'. split; [exact Hn'|]. rewrite (Dset n' Hn').
        destruct (beqb n n') eqn:E; [apply beqb_eq in E; subst n'; congruence|exact D'].
    - exact IS.
    - exact IN.
    - intros t i H. apply Ia in H as [[-> (tx & -> & ->)]|[H Hi]].
      + exists n, {| m_ip := b; m_exp := XAt tx |}, tx. rewrite (Dset n Hn). unfold sset. rewrite beqb_refl.
        repeat split; auto. lia.
      + destruct (R_call _ _ HR t i H) as (n' & v' & t0 & Hn' & D' & Sm & Ex & Tm).
        exists n', v', t0. rewrite (Dset n' Hn'). unfold sset.
        destruct (beqb n n') eqn:E; [apply beqb_eq in E; subst n'; congruence|]. repeat split; auto.
    - intros n' v' t0 id' Hn' Sm Ex. rewrite (Dset n' Hn'). unfold sset in Sm. destruct (beqb n n') eqn:E.
      + apply beqb_eq in E. subst n'. injection Sm as <-. cbn [m_exp] in Ex.
        intros A. injection A as <-. eexists. apply Ic. exact Ex.
      + intros D'. destruct (R_hascall _ _ HR n' v' t0 id' Hn' Sm Ex D') as (t & H).
        exists t. apply Ib; [exact H|]. pose proof (R_fresh _ _ HR _ _ D'). lia.
    - apply HR.
  Qed.

  (* ---- an <error> mapping for a held name ---- *)
  Lemma R_herr m s n id h' :
    R m s -> In n NS -> dict m n = Some id -> (forall i, i <> id -> h' i = heap m i) ->
    R (mk m (ddel_val id (dict m)) h' (cancel_call id (calls m)) (nid m))
      {| s_now := s_now s; s_map := sdel n (s_map s); s_names := names_add n (s_names s); s_lst := s_lst s |}.
  Proof.
    intros HR Hn D Hh'.
    assert (Del : forall k i, ddel_val id (dict m) k = Some i <-> dict m k = Some i /\ i <> id).
    { intros k i. unfold ddel_val. destruct (dict m k) as [v|]; [|split; [discriminate|intros [? _]; discriminate]].
      destruct (v =? id) eqn:E.
      - apply N.eqb_eq in E. subst v. split; [discriminate|]. intros [A B]. congruence.
      - apply N.eqb_neq in E. split; [intros A; injection A as <-; auto|intros [A _]; exact A]. }
    constructor; unfold mk; cbn [dict heap calls now nid lst s_now s_map s_names s_lst].
    - apply HR.
    - apply HR.
    - intros n' Hn'. unfold sdel. destruct (beqb n n') eqn:E.
      + apply beqb_eq in E. subst n'. unfold ddel_val. rewrite D, N.eqb_refl. reflexivity.
      + apply beqb_false_neq in E. pose proof (R_name _ _ HR n' Hn') as A.
        destruct (s_map s n') as [v'|].
        * destruct A as (id' & D' & Hh).
          assert (id' <> id) by (intros ->; apply E; eapply R_inj; eauto).
          exists id'. split; [apply Del; auto|]. rewrite Hh'; auto.
        * unfold ddel_val. rewrite A. reflexivity.
    - intros n' v'. unfold sdel. destruct (beqb n n'); [discriminate|].
      intros H. apply In_names_add. right. eapply R_held; eauto.
    - intros n' H. apply In_names_add in H as [->|H]; [exact Hn|]. eapply R_names; eauto.
    - intros k i H. apply Del in H as [H _]. eapply R_fresh; eauto.
    - intros t i H. apply In_cancel in H as [H _]. eapply R_cfresh; eauto.
    - intros n1 n2 i H1 H2 A B. apply Del in A as [A _]. apply Del in B as [B _]. eapply R_inj; eauto.
    - intros k i H Hk. apply Del in H as [H Hi]. destruct (R_addr _ _ HR k i H Hk) as (n' & Hn' & D').
      exists n'. split; [exact Hn'|]. apply Del. auto.
    - apply sorted_filter. apply HR.
    - apply nodup_cancel. apply HR.
    - intros t i H. apply In_cancel in H as [H Hi].
      destruct (R_call _ _ HR t i H) as (n' & v' & t0 & Hn' & D' & Sm & Ex & Tm).
      exists n', v', t0. repeat split; auto.
      + apply Del. auto.
      + unfold sdel. destruct (beqb n n') eqn:E; [apply beqb_eq in E; subst n'; congruence|exact Sm].
    - intros n' v' t0 id' Hn' Sm Ex D'. unfold sdel in Sm. destruct (beqb n n') eqn:E; [discriminate|].
      apply Del in D' as [D' Hi].
      destruct (R_hascall _ _ HR n' v' t0 id' Hn' Sm Ex D') as (t & H).
      exists t. apply In_cancel. auto.
    - apply HR.
  Qed.

  (* ---- an <error> mapping for a name that is not held: nothing changes ---- *)
  Lemma R_nerr m s n :
    R m s -> In n NS -> s_map s n = None ->
    R m {| s_now := s_now s; s_map := sdel n (s_map s); s_names := names_add n (s_names s); s_lst := s_lst s |}.
  Proof.
    intros HR Hn Sn.
    assert (Sd : forall k, sdel n (s_map s) k = s_map s k).
    { intros k. unfold sdel. destruct (beqb n k) eqn:E; [|reflexivity]. apply beqb_eq in E. subst. auto. }
    constructor; cbn [s_now s_map s_names s_lst]; try apply HR.
    - intros n' Hn'. rewrite Sd. apply (R_name _ _ HR n' Hn').
    - intros n' v'. rewrite Sd. intros H. apply In_names_add. right. eapply R_held; eauto.
    - intros n' H. apply In_names_add in H as [->|H]; [exact Hn|]. eapply R_names; eauto.
    - intros t i H. destruct (R_call _ _ HR t i H) as (n' & v' & t0 & A & B & C & D & E).
      exists n', v', t0. rewrite Sd. auto.
    - intros n' v' t0 id' Hn'. rewrite Sd. intros A B C. exact (R_hascall _ _ HR n' v' t0 id' Hn' A B C).
  Qed.

  (* ---- add_listener ---- *)
  Lemma R_addl m s l b : R m s -> R (add_listener m l b) (spec_step s (OAddL l b)).
  Proof.
    intros HR. unfold add_listener, lids. cbn [spec_step]. unfold ids.
    constructor; cbn [dict heap calls now nid lst s_now s_map s_names s_lst]; try apply HR.
    - rewrite (R_lst _ _ HR). reflexivity.
    - destruct (memN l (map fst (s_lst s))) eqn:E; [apply HR|].
      assert (NI : ~ In l (map fst (s_lst s))) by (intros H; apply memN_In in H; congruence).
      clear E. pose proof (R_lstnd _ _ HR) as ND. rewrite map_app. cbn [map fst].
      induction (map fst (s_lst s)) as [|x ls IH]; cbn [app].
      + constructor; [intros []|constructor].
      + inversion ND; subst. constructor.
        * rewrite in_app_iff. cbn [In]. intros [A|[A|[]]]; [contradiction|]. subst. apply NI. left. reflexivity.
        * apply IH; auto. intros A. apply NI. right. exact A.
  Qed.

  (* ---- a mapping fed from inside a callback ---- *)
  Hypothesis NSplain : forall n, In n NS -> plain_bytes n = true.

  Definition fx_ok (x : fexp) : bool := match x with FNever => true | FIn secs => 1 <=? secs end.

  Lemma plain_bytes_word b : plain_bytes b = true -> plain_word (wtok b) = true.
  Proof. unfold plain_bytes, plain_word, wtok, is_word. cbn [t_time t_pre andb]. auto. Qed.

  Lemma parse_feed nw n ip x : plain_bytes n = true -> plain_bytes ip = true ->
    parse_ev (feed_toks nw n ip x) = Some (feed_ev nw n ip x).
  Proof.
    intros Pn Pi. apply plain_bytes_word in Pn, Pi.
    destruct x as [|secs]; unfold feed_toks, parse_ev.
    - cbn [split_pos]. rewrite Pn, Pi. reflexivity.
    - cbn [split_pos bare_time t_pre t_time]. unfold w_EXPIRES at 1, str at 1. cbn [map].
      rewrite Pn, Pi. reflexivity.
  Qed.

  Lemma fexp_fresh nw x t : fx_ok x = true -> fexp_to nw x = XAt t -> (nw < t)%Z.
  Proof.
    destruct x as [|secs]; unfold fx_ok, fexp_to; [discriminate|].
    intros L E. assert (Et : t = (8 * (nw / 8 + Z.of_N secs))%Z) by congruence. clear E. subst t.
    apply N.leb_le in L.
    pose proof (Z.div_mod nw 8 ltac:(lia)). pose proof (Z.mod_pos_bound nw 8 ltac:(lia)). lia.
  Qed.

  Lemma feed_key nw n ip x : ev_key (feed_ev nw n ip x) = ip.
  Proof.
    unfold ev_key, feed_ev. cbn [v_addr]. destruct (beqb ip w_ERROR) eqn:E; [|reflexivity].
    apply beqb_eq in E. auto.
  Qed.

  Lemma feed_sim m s n ip x :
    R m s -> In n NS -> ~ In ip NS -> plain_bytes ip = true -> fx_ok x = true ->
    exists m' nt, update_core m (feed_toks (now m) n ip x) = Some (m', nt) /\
      R m' (ev_step s (feed_ev (s_now s) n ip x)) /\
      passive m' nt = feed_expect s (feed_ev (s_now s) n ip x) /\
      now m' = now m /\ lst m' = lst m /\ (duecnt (now m) (calls m') <= duecnt (now m) (calls m))%nat.
  Proof.
    intros HR Hn Hb Pi Fx.
    replace (feed_toks (now m) n ip x) with (feed_toks (s_now s) n ip x) by (rewrite (R_now _ _ HR); reflexivity).
    set (v := feed_ev (s_now s) n ip x).
    assert (P : parse_ev (feed_toks (s_now s) n ip x) = Some v) by (apply parse_feed; auto).
    assert (Kv : ev_key v = ip) by apply feed_key.
    assert (Nv : v_name v = n) by reflexivity.
    assert (Fr : forall t, v_exp v = XAt t -> (now m < t)%Z).
    { intros t E. rewrite (R_now _ _ HR). eapply fexp_fresh; eauto. }
    assert (Li : lids m = ids s) by (unfold lids, ids; rewrite (R_lst _ _ HR); reflexivity).
    rewrite (update_char m _ v P). cbn zeta. rewrite Nv.
    unfold feed_expect, ev_kind, ev_step. rewrite Nv.
    destruct (dict m n) as [id|] eqn:D; destruct (v_addr v) as [a|] eqn:Ad.
    - destruct (R_dict_held _ _ _ HR Hn id D) as (v0 & Sm & _). rewrite Sm.
      eexists _, _. split; [reflexivity|]. split; [apply R_upd; assumption|].
      split; [reflexivity|]. split; [reflexivity|]. split; [reflexivity|].
      cbn [mk calls]. apply duecnt_install. exact Fr.
    - destruct (R_dict_held _ _ _ HR Hn id D) as (v0 & Sm & _). rewrite Sm.
      eexists _, _. split; [reflexivity|].
      split; [apply R_herr; try assumption; intros i Hi; apply hset_other; exact Hi|].
      split; [unfold passive, mk, lids; cbn [lst]; fold (lids m); rewrite Li; reflexivity|].
      split; [reflexivity|]. split; [reflexivity|]. cbn [mk calls]. apply duecnt_cancel.
    - assert (Sm : s_map s n = None).
      { pose proof (R_name _ _ HR _ Hn) as A. destruct (s_map s n); [|reflexivity].
        destruct A as (? & A & _). congruence. }
      rewrite Sm. rewrite Kv.
      assert (Ea : a = ip).
      { unfold ev_key in Kv. rewrite Ad in Kv. exact Kv. } subst a.
      eexists _, _. split; [reflexivity|]. split; [apply R_new; assumption|].
      split.
      { unfold passive, mk, lids, name_of, ip_of, hget. cbn [lst heap]. rewrite hset_same. cbn [e_name e_ip].
        fold (lids m). rewrite Li. reflexivity. }
      split; [reflexivity|]. split; [reflexivity|]. cbn [mk calls]. apply duecnt_install. exact Fr.
    - assert (Sm : s_map s n = None).
      { pose proof (R_name _ _ HR _ Hn) as A. destruct (s_map s n); [|reflexivity].
        destruct A as (? & A & _). congruence. }
      rewrite Sm.
      eexists _, _. split; [reflexivity|]. split; [apply R_nerr; assumption|].
      split; [reflexivity|]. split; [reflexivity|]. split; [reflexivity|]. lia.
  Qed.

  (* ---- small facts about observations ---- *)
  Lemma oz_eqb_refl e : oz_eqb e e = true.
  Proof. destruct e as [z|]; cbn; [apply Z.eqb_refl|reflexivity]. Qed.

  Lemma obs_eqb_refl e : obs_eqb e e = true.
  Proof.
    induction e; cbn [obs_eqb]; rewrite ?beqb_refl, ?N.eqb_refl, ?oz_eqb_refl; try reflexivity. exact IHe.
  Qed.

  Lemma chunk_eqb_refl es : chunk_eqb es es = true.
  Proof. induction es as [|e es IH]; [reflexivity|]. cbn. rewrite obs_eqb_refl. exact IH. Qed.

  Lemma strip_app p r : strip p (p ++ r) = Some r.
  Proof. induction p as [|x p IH]; [reflexivity|]. cbn [app strip]. rewrite obs_eqb_refl. exact IH. Qed.

  Lemma existsb_false {A} (f : A -> bool) l : existsb f l = false -> forall x, In x l -> f x = false.
  Proof.
    intros H x Hx. destruct (f x) eqn:E; [|reflexivity].
    assert (existsb f l = true) by (apply existsb_exists; eauto). congruence.
  Qed.

  Lemma existsb_false_intro {A} (f : A -> bool) l : (forall x, In x l -> f x = false) -> existsb f l = false.
  Proof.
    induction l as [|y l IH]; intros H; [reflexivity|]. cbn [existsb].
    rewrite (H y (or_introl eq_refl)). apply IH. intros x Hx. apply H. right. exact Hx.
  Qed.

  Lemma expired_names_app l0 a b : expired_names l0 (a ++ b) = expired_names l0 a ++ expired_names l0 b.
  Proof. unfold expired_names. apply flat_map_app. Qed.

  Lemma expired_names_sub l0 es : expired_names l0 (map ESub es) = [].
  Proof. induction es as [|e es IH]; [reflexivity|]. cbn [map]. unfold expired_names in *. cbn [flat_map]. exact IH. Qed.

  (* ---- a lookup, by the caller or from inside a callback ---- *)
  Lemma find_sim m s k : R m s -> any_due s = false -> exists e, find m k = [e] /\ find_ok s k e = true.
  Proof.
    intros HR St. unfold any_due in St.
    assert (Nd : forall n v, s_map s n = Some v -> due_exp (s_now s) (m_exp v) = false).
    { intros n v Sm. pose proof (existsb_false _ _ St n (R_held _ _ HR n v Sm)) as A.
      unfold due_in in A. rewrite Sm in A. exact A. }
    unfold find_ok, find, dget, hget.
    destruct (memB k (s_names s)) eqn:Mk.
    - apply memB_In in Mk. assert (Hk : In k NS) by (eapply R_names; eauto).
      pose proof (R_name _ _ HR k Hk) as A. unfold live.
      destruct (s_map s k) as [v|] eqn:Sm.
      + destruct A as (id & D & Hh). rewrite D, Hh, (Nd k v Sm). unfold entry_of. cbn [e_name e_ip e_exp].
        eexists. split; [reflexivity|]. apply obs_eqb_refl.
      + rewrite A. eexists. split; reflexivity.
    - destruct (dict m k) as [id|] eqn:D; [|eexists; split; reflexivity].
      destruct (memB k NS) eqn:Mn.
      + apply memB_In in Mn. destruct (R_dict_held _ _ _ HR Mn id D) as (v & Sm & _).
        apply (R_held _ _ HR) in Sm. apply memB_In in Sm. congruence.
      + assert (Hk : ~ In k NS) by (intros A; apply memB_In in A; congruence).
        destruct (R_addr _ _ HR k id D Hk) as (n & Hn & Dn).
        destruct (R_dict_held _ _ _ HR Hn id Dn) as (v & Sm & Hh).
        rewrite Hh. unfold entry_of. cbn [e_name e_ip e_exp]. eexists. split; [reflexivity|].
        unfold live. rewrite Sm, (Nd n v Sm). rewrite beqb_refl, oz_eqb_refl. reflexivity.
  Qed.

  (* a mapping fed from inside a callback is never due at once *)
  Lemma any_due_feed s n ip x : any_due s = false -> fx_ok x = true ->
    any_due (ev_step s (feed_ev (s_now s) n ip x)) = false.
  Proof.
    intros St Fx. unfold any_due in *. apply existsb_false_intro. intros k Hk.
    unfold ev_step in *. cbn [s_now s_map s_names v_name v_addr v_exp feed_ev] in *.
    apply In_names_add in Hk. unfold due_in.
    destruct (beqb n k) eqn:E.
    - destruct (beqb ip w_ERROR); unfold sset, sdel; rewrite E; [reflexivity|]. cbn [m_exp].
      destruct (fexp_to (s_now s) x) as [|t] eqn:Fe; [reflexivity|]. cbn [due_exp].
      pose proof (fexp_fresh _ _ _ Fx Fe). lia.
    - assert (Hk' : In k (s_names s)).
      { destruct Hk as [->|Hk]; [rewrite beqb_refl in E; discriminate|exact Hk]. }
      pose proof (existsb_false _ _ St k Hk') as A. unfold due_in in A.
      destruct (beqb ip w_ERROR); unfold sset, sdel; rewrite E; exact A.
  Qed.

  (* ---- a listener's script ---- *)
  Lemma script_sim feeds acts : forall m s n,
    R m s -> In n NS -> forallb (act_ok feeds) acts = true ->
    (forall ip, In ip (feed_keys acts) -> ~ In ip NS) ->
    exists m' es, run_script m n acts = Some (m', es, existsb is_raise acts) /\
      R m' (script_step s n acts) /\ now m' = now m /\ lst m' = lst m /\
      (duecnt (now m) (calls m') <= duecnt (now m) (calls m))%nat /\
      (feeds = false -> m' = m) /\
      (forall l0, expired_names l0 es = []) /\
      (any_due s = false -> any_due (script_step s n acts) = false) /\
      ((existsb is_lookup acts = false \/ any_due s = false) ->
       forall rest, script_ok s n acts (es ++ rest) = Some rest).
  Proof.
    induction acts as [|a r IH]; intros m s n HR Hn Ok Keys.
    - exists m, []. cbn [run_script existsb script_step script_ok app].
      split; [reflexivity|]. split; [exact HR|]. split; [reflexivity|]. split; [reflexivity|]. split; [lia|].
      split; [reflexivity|]. split; [reflexivity|]. split; [auto|]. intros _ rest. reflexivity.
    - cbn [forallb] in Ok. apply andb_true_iff in Ok as [Oa Ok].
      assert (Keys' : forall ip, In ip (feed_keys r) -> ~ In ip NS).
      { intros ip H. apply Keys. unfold feed_keys in *. cbn [flat_map]. apply in_or_app. right. exact H. }
      destruct a as [|k|ip x|].
      + (* find(name) *)
        destruct (IH m s n HR Hn Ok Keys') as (m' & es & Rn & HR' & Nw & Ls & Dc & Fd & En & Ad & Sk).
        exists m', (map ESub (find m n) ++ es). cbn [run_script]. rewrite Rn. cbn [existsb is_raise orb].
        split; [reflexivity|]. split; [exact HR'|]. split; [exact Nw|]. split; [exact Ls|]. split; [exact Dc|].
        split; [exact Fd|]. split; [intros l0; rewrite expired_names_app, expired_names_sub, En; reflexivity|].
        split; [exact Ad|]. intros [H|H]; [cbn in H; discriminate|]. intros rest.
        destruct (find_sim m s n HR H) as (e & Fe & Fo). rewrite Fe. cbn [map app script_ok]. rewrite Fo.
        apply Sk. right. exact H.
      + (* find(k) *)
        destruct (IH m s n HR Hn Ok Keys') as (m' & es & Rn & HR' & Nw & Ls & Dc & Fd & En & Ad & Sk).
        exists m', (map ESub (find m k) ++ es). cbn [run_script]. rewrite Rn. cbn [existsb is_raise orb].
        split; [reflexivity|]. split; [exact HR'|]. split; [exact Nw|]. split; [exact Ls|]. split; [exact Dc|].
        split; [exact Fd|]. split; [intros l0; rewrite expired_names_app, expired_names_sub, En; reflexivity|].
        split; [exact Ad|]. intros [H|H]; [cbn in H; discriminate|]. intros rest.
        destruct (find_sim m s k HR H) as (e & Fe & Fo). rewrite Fe. cbn [map app script_ok]. rewrite Fo.
        apply Sk. right. exact H.
      + (* a newer mapping is fed *)
        unfold act_ok in Oa. apply andb_true_iff in Oa as [Oa Fx]. apply andb_true_iff in Oa as [Ff Pi].
        assert (Hb : ~ In ip NS) by (apply Keys; unfold feed_keys; cbn [flat_map]; left; reflexivity).
        destruct (feed_sim m s n ip x HR Hn Hb Pi Fx) as (m1 & nt & Up & HR1 & Pa & Nw1 & Ls1 & Dc1).
        destruct (IH m1 _ n HR1 Hn Ok Keys') as (m' & es & Rn & HR' & Nw & Ls & Dc & Fd & En & Ad & Sk).
        exists m', (passive m1 nt ++ es). cbn [run_script]. rewrite Up, Rn. cbn [existsb is_raise orb].
        split; [reflexivity|]. split; [exact HR'|]. split; [congruence|]. split; [congruence|].
        split; [rewrite Nw1 in Dc; lia|]. split; [intros F; congruence|].
        split.
        { intros l0. rewrite expired_names_app, En, app_nil_r.
          destruct nt; unfold passive; [reflexivity|apply expired_names_sub|apply expired_names_sub]. }
        split; [intros H; apply Ad; apply any_due_feed; assumption|].
        intros H rest. cbn [script_ok]. rewrite Pa, <- app_assoc, strip_app. apply Sk.
        destruct H as [H|H]; [left; exact H|right; apply any_due_feed; assumption].
      + (* raise *)
        exists m, [ESub ERaised]. cbn [run_script existsb is_raise orb script_step script_ok app].
        split; [reflexivity|]. split; [exact HR|]. split; [reflexivity|]. split; [reflexivity|]. split; [lia|].
        split; [reflexivity|]. split; [reflexivity|]. split; [auto|]. intros _ rest. reflexivity.
  Qed.

  (* ---- AddrMap.notify with active listeners ---- *)
  Definition Lok (ls : list (N * beh)) : Prop :=
    forall lb, In lb ls -> beh_ok (snd lb) = true /\ (forall ip, In ip (beh_keys (snd lb)) -> ~ In ip NS).

  Definition kfeeds (k : kind) : bool := match k with KAdded => false | KExpired => true end.

  Lemma Lok_script k lb ls : Lok ls -> In lb ls ->
    forallb (act_ok (kfeeds k)) (script_of k (snd lb)) = true /\
    (forall ip, In ip (feed_keys (script_of k (snd lb))) -> ~ In ip NS).
  Proof.
    intros L H. destruct (L lb H) as [Ok Keys]. unfold beh_ok in Ok. apply andb_true_iff in Ok as [Oa Oe].
    destruct k; cbn [script_of kfeeds]; (split; [assumption|]); intros ip Hi; apply Keys; unfold beh_keys;
      apply in_or_app; [left|right]; exact Hi.
  Qed.

  Definition nt_for (k : kind) (m : mst) (n ip : bytes) (nt : note) : Prop :=
    match k with
    | KExpired => nt = NExpired n
    | KAdded => exists id, nt = NAdded id /\ name_of m id = n /\ ip_of m id = ip
    end.

  Lemma call_of_for k m n ip nt l : nt_for k m n ip nt -> call_of m nt l = Some (head_of k l n ip, n, k).
  Proof.
    destruct k; cbn [nt_for].
    - intros (id & -> & <- & <-). reflexivity.
    - intros ->. reflexivity.
  Qed.

  Definition heard (n : bytes) (l0 : N) (ls : list (N * beh)) : list bytes :=
    flat_map (fun lb : N * beh => if N.eqb (fst lb) l0 then [n] else []) ls.

  Lemma expired_names_head k l n ip l0 :
    expired_names l0 [head_of k l n ip] = match k with KExpired => if N.eqb l l0 then [n] else [] | KAdded => [] end.
  Proof. destruct k; unfold expired_names; cbn [head_of flat_map]; [reflexivity|]. rewrite app_nil_r. reflexivity. Qed.

  Lemma notify_sim k ls : forall m s n ip nt,
    R m s -> In n NS -> Lok ls -> nt_for k m n ip nt ->
    exists m' es, notify_top ls m nt = Some (m', es) /\
      R m' (note_fold k ls s n) /\ now m' = now m /\ lst m' = lst m /\
      (duecnt (now m) (calls m') <= duecnt (now m) (calls m))%nat /\
      (any_due s = false -> any_due (note_fold k ls s n) = false) /\
      (k = KExpired -> forall l0, expired_names l0 es = heard n l0 ls) /\
      (((forall lb, In lb ls -> existsb is_lookup (script_of k (snd lb)) = false) \/ any_due s = false) ->
       forall rest, notify_ok k ls s n ip (es ++ rest) = Some rest).
  Proof.
    induction ls as [|lb r IH]; intros m s n ip nt HR Hn L NT.
    - exists m, []. cbn [notify_top note_fold]. split; [reflexivity|]. split; [exact HR|].
      split; [reflexivity|]. split; [reflexivity|]. split; [lia|]. split; [auto|].
      split; [intros _ l0; reflexivity|]. intros _ rest. reflexivity.
    - assert (L' : Lok r) by (intros x Hx; apply L; right; exact Hx).
      destruct (Lok_script k lb (lb :: r) L (or_introl eq_refl)) as [Ok Keys].
      destruct (script_sim (kfeeds k) (script_of k (snd lb)) m s n HR Hn Ok Keys)
        as (m1 & es1 & Rn & HR1 & Nw1 & Ls1 & Dc1 & Fd & En & Ad & Sk).
      cbn [notify_top note_fold]. rewrite (call_of_for k m n ip nt (fst lb) NT), Rn.
      assert (NT1 : nt_for k m1 n ip nt).
      { destruct k; [rewrite (Fd eq_refl); exact NT|exact NT]. }
      destruct (IH m1 _ n ip nt HR1 Hn L' NT1) as (m2 & es2 & Nt & HR2 & Nw2 & Ls2 & Dc2 & Ad2 & En2 & Ok2).
      rewrite Nt. exists m2, (head_of k (fst lb) n ip :: es1 ++ es2). split; [reflexivity|]. split; [exact HR2|].
      split; [congruence|]. split; [congruence|]. split; [rewrite Nw1 in Dc2; lia|].
      split; [intros H; apply Ad2, Ad, H|]. split.
      * intros -> l0.
        change (head_of KExpired (fst lb) n ip :: es1 ++ es2) with ([head_of KExpired (fst lb) n ip] ++ es1 ++ es2).
        rewrite !expired_names_app, En, expired_names_head, (En2 eq_refl). unfold heard. cbn [flat_map app]. reflexivity.
      * intros H rest. cbn [app notify_ok]. rewrite obs_eqb_refl. rewrite <- app_assoc.
        rewrite Sk.
        -- apply Ok2. destruct H as [H|H]; [left; intros x Hx; apply H; right; exact Hx|right; apply Ad; exact H].
        -- destruct H as [H|H]; [left; apply H; left; reflexivity|right; exact H].
  Qed.

  (* ---- one ADDRMAP line from Tor ---- *)
  Lemma notify_none ls m : notify_top ls m NoNote = Some (m, []).
  Proof. destruct ls; reflexivity. Qed.

  Lemma lookup_split k (ls : list (N * beh)) d :
    existsb (fun lb => existsb is_lookup (script_of k (snd lb))) ls && d = false ->
    (forall lb, In lb ls -> existsb is_lookup (script_of k (snd lb)) = false) \/ d = false.
  Proof.
    intros H. apply andb_false_iff in H as [H|H]; [left|right; exact H].
    intros lb Hl. exact (existsb_false _ _ H lb Hl).
  Qed.

  Lemma ev_sim m s ts v :
    R m s -> Lok (lst m) -> parse_ev ts = Some v -> In (v_name v) NS -> ~ In (ev_key v) NS ->
    exists m' es, update m ts = Some (m', es) /\ R m' (spec_step s (OEv ts)) /\ lst m' = lst m /\
      (stale_lookup_op s (OEv ts) = false -> chunk_ok s (OEv ts) es = true).
  Proof.
    intros HR L P Hn Hb. unfold update. rewrite (update_char m ts v P). cbn zeta.
    cbn [spec_step chunk_ok stale_lookup_op]. rewrite P.
    assert (Ls : s_lst s = lst m) by (symmetry; apply HR).
    unfold ev_key in *. unfold ev_kind.
    destruct (dict m (v_name v)) as [id|] eqn:D; destruct (v_addr v) as [a|] eqn:Ad.
    - destruct (R_dict_held _ _ _ HR Hn id D) as (v0 & Sm & _). rewrite Sm.
      rewrite notify_none. eexists _, _. split; [reflexivity|].
      split; [unfold ev_step; rewrite Ad; apply R_upd; assumption|]. split; [reflexivity|]. reflexivity.
    - destruct (R_dict_held _ _ _ HR Hn id D) as (v0 & Sm & _). rewrite Sm.
      set (m1 := mk m _ _ _ _). set (s1 := ev_step s v).
      assert (HR1 : R m1 s1).
      { unfold m1, s1, ev_step. rewrite Ad. apply R_herr; try assumption. intros i Hi. apply hset_other. exact Hi. }
      destruct (notify_sim KExpired (lst m1) m1 s1 (v_name v) [] (NExpired (v_name v)) HR1 Hn L eq_refl)
        as (m' & es & Nt & HR' & _ & Ls' & _ & _ & _ & Ok).
      exists m', es. split; [exact Nt|]. unfold note_step. change (s_lst s1) with (s_lst s). rewrite Ls.
      split; [exact HR'|]. split; [exact Ls'|].
      intros Sl. unfold lst_lookup in Sl. rewrite Ls in Sl.
      specialize (Ok (lookup_split _ _ _ Sl) []).
      rewrite app_nil_r in Ok. change (lst m1) with (lst m) in Ok. rewrite Ok. reflexivity.
    - assert (Sm : s_map s (v_name v) = None).
      { pose proof (R_name _ _ HR _ Hn) as A. destruct (s_map s (v_name v)); [|reflexivity].
        destruct A as (? & A & _). congruence. }
      rewrite Sm.
      set (m1 := mk m _ _ _ _). set (s1 := ev_step s v).
      assert (HR1 : R m1 s1).
      { unfold m1, s1, ev_step. rewrite Ad. apply R_new; assumption. }
      assert (NT : nt_for KAdded m1 (v_name v) a (NAdded (nid m))).
      { exists (nid m). split; [reflexivity|]. unfold m1, mk, name_of, ip_of, hget. cbn [heap].
        rewrite hset_same. split; reflexivity. }
      destruct (notify_sim KAdded (lst m1) m1 s1 (v_name v) a _ HR1 Hn L NT)
        as (m' & es & Nt & HR' & _ & Ls' & _ & _ & _ & Ok).
      exists m', es. split; [exact Nt|]. unfold note_step. change (s_lst s1) with (s_lst s). rewrite Ls.
      split; [exact HR'|]. split; [exact Ls'|].
      intros Sl. unfold lst_lookup in Sl. rewrite Ls in Sl.
      specialize (Ok (lookup_split _ _ _ Sl) []).
      rewrite app_nil_r in Ok. change (lst m1) with (lst m) in Ok. rewrite Ok. reflexivity.
    - assert (Sm : s_map s (v_name v) = None).
      { pose proof (R_name _ _ HR _ Hn) as A. destruct (s_map s (v_name v)); [|reflexivity].
        destruct A as (? & A & _). congruence. }
      rewrite Sm. rewrite notify_none. eexists _, _. split; [reflexivity|].
      split; [unfold ev_step; rewrite Ad; apply R_nerr; assumption|]. split; [reflexivity|]. reflexivity.
  Qed.

  (* ---- the reference: what one name's expiry does touches that name's slot only ---- *)
  Definition slot_fresh (nw : Z) (o : option mp) : Prop :=
    match o with Some v => due_exp nw (m_exp v) = false | None => True end.

  Lemma names_add_in n l : In n l -> names_add n l = l.
  Proof. intros H. unfold names_add. apply memB_In in H. rewrite H. reflexivity. Qed.

  Lemma act_step_frame s n a :
    s_now (act_step s n a) = s_now s /\ s_lst (act_step s n a) = s_lst s /\
    (forall k, k <> n -> s_map (act_step s n a) k = s_map s k) /\
    (In n (s_names s) -> s_names (act_step s n a) = s_names s).
  Proof.
    destruct a as [|k0|ip x|]; cbn [act_step]; try (repeat split; reflexivity).
    unfold ev_step, feed_ev. cbn [s_now s_lst s_map s_names v_name v_addr v_exp].
    split; [reflexivity|]. split; [reflexivity|]. split.
    - intros k Hk. destruct (beqb ip w_ERROR); unfold sset, sdel; rewrite (beqb_neq_false n k); auto.
    - apply names_add_in.
  Qed.

  Lemma act_step_slot s s' n a : s_now s = s_now s' -> s_map s n = s_map s' n ->
    s_map (act_step s n a) n = s_map (act_step s' n a) n.
  Proof.
    intros Nw Sl. destruct a as [|k0|ip x|]; cbn [act_step]; try exact Sl.
    unfold ev_step, feed_ev. cbn [s_map v_name v_addr v_exp]. rewrite Nw.
    destruct (beqb ip w_ERROR); unfold sset, sdel; rewrite beqb_refl; reflexivity.
  Qed.

  Lemma act_step_fresh s n a : act_ok true a = true -> slot_fresh (s_now s) (s_map s n) ->
    slot_fresh (s_now s) (s_map (act_step s n a) n).
  Proof.
    intros Ok Fr. destruct a as [|k0|ip x|]; cbn [act_step]; try exact Fr.
    unfold act_ok in Ok. apply andb_true_iff in Ok as [_ Fx].
    unfold ev_step, feed_ev. cbn [s_map v_name v_addr v_exp].
    destruct (beqb ip w_ERROR); unfold sset, sdel; rewrite beqb_refl; cbn [slot_fresh m_exp]; [exact I|].
    destruct (fexp_to (s_now s) x) as [|t] eqn:Fe; [reflexivity|]. cbn [due_exp].
    pose proof (fexp_fresh _ _ _ Fx Fe). lia.
  Qed.

  Lemma script_step_frame acts : forall s n,
    s_now (script_step s n acts) = s_now s /\ s_lst (script_step s n acts) = s_lst s /\
    (forall k, k <> n -> s_map (script_step s n acts) k = s_map s k) /\
    (In n (s_names s) -> s_names (script_step s n acts) = s_names s).
  Proof.
    induction acts as [|a r IH]; intros s n; [repeat split; reflexivity|].
    destruct (act_step_frame s n a) as (A1 & A2 & A3 & A4).
    destruct (IH (act_step s n a) n) as (B1 & B2 & B3 & B4).
    assert (E : script_step s n (a :: r) = match a with ARaise => s | _ => script_step (act_step s n a) n r end)
      by (destruct a; reflexivity).
    rewrite E. destruct a; try (repeat split; reflexivity);
      (split; [congruence|]; split; [congruence|]; split;
       [intros k' Hk; rewrite B3, A3; auto|intros H; rewrite B4, A4; auto; rewrite A4; auto]).
  Qed.

  Lemma script_step_slot acts : forall s s' n, s_now s = s_now s' -> s_map s n = s_map s' n ->
    s_map (script_step s n acts) n = s_map (script_step s' n acts) n.
  Proof.
    induction acts as [|a r IH]; intros s s' n Nw Sl; [exact Sl|].
    destruct (act_step_frame s n a) as (A1 & _). destruct (act_step_frame s' n a) as (A1' & _).
    pose proof (act_step_slot s s' n a Nw Sl) as Sl'.
    destruct a; cbn [script_step]; try exact Sl; apply IH; congruence.
  Qed.

  Lemma script_step_fresh acts : forall s n, forallb (act_ok true) acts = true ->
    slot_fresh (s_now s) (s_map s n) -> slot_fresh (s_now s) (s_map (script_step s n acts) n).
  Proof.
    induction acts as [|a r IH]; intros s n Ok Fr; [exact Fr|].
    cbn [forallb] in Ok. apply andb_true_iff in Ok as [Oa Ok].
    pose proof (act_step_fresh s n a Oa Fr) as Fr'.
    destruct (act_step_frame s n a) as (A1 & _).
    destruct a; cbn [script_step]; try exact Fr; rewrite <- A1; apply IH; try assumption; rewrite A1; exact Fr'.
  Qed.

  Definition exp_ok (ls : list (N * beh)) : Prop :=
    forall lb, In lb ls -> forallb (act_ok true) (b_expired (snd lb)) = true.

  Lemma note_fold_frame kd ls : forall s n,
    s_now (note_fold kd ls s n) = s_now s /\ s_lst (note_fold kd ls s n) = s_lst s /\
    (forall k, k <> n -> s_map (note_fold kd ls s n) k = s_map s k) /\
    (In n (s_names s) -> s_names (note_fold kd ls s n) = s_names s).
  Proof.
    induction ls as [|lb r IH]; intros s n; [repeat split; reflexivity|]. cbn [note_fold].
    destruct (script_step_frame (script_of kd (snd lb)) s n) as (A1 & A2 & A3 & A4).
    destruct (IH (script_step s n (script_of kd (snd lb))) n) as (B1 & B2 & B3 & B4).
    split; [congruence|]. split; [congruence|]. split.
    - intros k Hk. rewrite B3, A3; auto.
    - intros H. rewrite B4, A4; auto. rewrite A4; auto.
  Qed.

  Lemma note_fold_slot kd ls : forall s s' n, s_now s = s_now s' -> s_map s n = s_map s' n ->
    s_map (note_fold kd ls s n) n = s_map (note_fold kd ls s' n) n.
  Proof.
    induction ls as [|lb r IH]; intros s s' n Nw Sl; [exact Sl|]. cbn [note_fold].
    pose proof (script_step_slot (script_of kd (snd lb)) s s' n Nw Sl) as Sl'.
    destruct (script_step_frame (script_of kd (snd lb)) s n) as (A1 & _).
    destruct (script_step_frame (script_of kd (snd lb)) s' n) as (A1' & _).
    apply IH; congruence.
  Qed.

  Lemma note_fold_fresh ls : forall s n, exp_ok ls -> slot_fresh (s_now s) (s_map s n) ->
    slot_fresh (s_now s) (s_map (note_fold KExpired ls s n) n).
  Proof.
    induction ls as [|lb r IH]; intros s n Ok Fr; [exact Fr|]. cbn [note_fold script_of].
    pose proof (script_step_fresh (b_expired (snd lb)) s n (Ok lb (or_introl eq_refl)) Fr) as Fr'.
    destruct (script_step_frame (b_expired (snd lb)) s n) as (A1 & _).
    rewrite <- A1. apply IH; [intros x Hx; apply Ok; right; exact Hx|]. rewrite A1. exact Fr'.
  Qed.

  Lemma sdel_same n (mp0 : smap) : sdel n mp0 n = None.
  Proof. unfold sdel. rewrite beqb_refl. reflexivity. Qed.

  Lemma exp_one_frame s n :
    s_now (exp_one s n) = s_now s /\ s_lst (exp_one s n) = s_lst s /\
    (forall k, k <> n -> s_map (exp_one s n) k = s_map s k) /\
    (In n (s_names s) -> s_names (exp_one s n) = s_names s).
  Proof.
    unfold exp_one, note_step.
    destruct (note_fold_frame KExpired (s_lst (del_name s n)) (del_name s n) n) as (A1 & A2 & A3 & A4).
    split; [exact A1|]. split; [exact A2|]. split; [|exact A4].
    intros k Hk. rewrite A3 by exact Hk. cbn [del_name s_map]. unfold sdel. rewrite (beqb_neq_false n k); auto.
  Qed.

  Lemma exp_one_slot s s' n : s_now s = s_now s' -> s_lst s = s_lst s' ->
    s_map (exp_one s n) n = s_map (exp_one s' n) n.
  Proof.
    intros Nw Ls. unfold exp_one, note_step. cbn [del_name s_lst]. rewrite Ls.
    apply note_fold_slot; [exact Nw|]. cbn [del_name s_map]. rewrite !sdel_same. reflexivity.
  Qed.

  Lemma exp_one_due s n k : exp_ok (s_lst s) ->
    due_in (s_now s) (s_map (exp_one s n)) k = if beqb n k then false else due_in (s_now s) (s_map s) k.
  Proof.
    intros Ok. destruct (beqb n k) eqn:E.
    - apply beqb_eq in E. subst k. unfold due_in.
      pose proof (note_fold_fresh (s_lst s) (del_name s n) n Ok) as Fr. cbn [del_name s_now s_map] in Fr.
      rewrite sdel_same in Fr. specialize (Fr I). unfold exp_one, note_step. cbn [del_name s_lst].
      unfold slot_fresh in Fr. destruct (s_map _ n); [exact Fr|reflexivity].
    - destruct (exp_one_frame s n) as (_ & _ & A3 & _). unfold due_in. rewrite A3; [reflexivity|].
      intros ->. rewrite beqb_refl in E. discriminate.
  Qed.

  Lemma memB_cons k n l : memB k (n :: l) = beqb k n || memB k l.
  Proof. reflexivity. Qed.

  (* the names of L expire one after the other: in closed form, whatever the order *)
  Lemma fold_exp_char L : forall s, (forall n, In n L -> In n (s_names s)) ->
    s_now (fold_left exp_one L s) = s_now s /\ s_lst (fold_left exp_one L s) = s_lst s /\
    s_names (fold_left exp_one L s) = s_names s /\
    forall k, s_map (fold_left exp_one L s) k = if memB k L then s_map (exp_one s k) k else s_map s k.
  Proof.
    induction L as [|n L IH]; intros s Sub; [repeat split; reflexivity|]. cbn [fold_left].
    destruct (exp_one_frame s n) as (A1 & A2 & A3 & A4).
    assert (A4' : s_names (exp_one s n) = s_names s) by (apply A4, Sub; left; reflexivity).
    destruct (IH (exp_one s n)) as (B1 & B2 & B3 & B4).
    { intros x Hx. rewrite A4'. apply Sub. right. exact Hx. }
    split; [congruence|]. split; [congruence|]. split; [congruence|].
    intros k. rewrite B4, memB_cons.
    destruct (memB k L) eqn:Mk.
    - rewrite orb_true_r. apply exp_one_slot; assumption.
    - rewrite orb_false_r. destruct (beqb k n) eqn:E.
      + apply beqb_eq in E. subst k. reflexivity.
      + apply A3. apply beqb_false_neq. exact E.
  Qed.

  Lemma R_ext m s s' : R m s -> s_now s' = s_now s -> s_lst s' = s_lst s -> s_names s' = s_names s ->
    (forall k, s_map s' k = s_map s k) -> R m s'.
  Proof.
    intros HR Nw Ls Nm Mp. constructor.
    - rewrite Nw. apply HR.
    - rewrite Ls. apply HR.
    - intros n Hn. rewrite Mp. apply (R_name _ _ HR n Hn).
    - intros n v. rewrite Mp, Nm. apply (R_held _ _ HR).
    - intros n. rewrite Nm. apply (R_names _ _ HR).
    - apply HR.
    - apply HR.
    - apply HR.
    - apply HR.
    - apply HR.
    - apply HR.
    - intros t id H. destruct (R_call _ _ HR t id H) as (n & v & t0 & A & B & C & D).
      exists n, v, t0. rewrite Mp. auto.
    - intros n v t0 id Hn. rewrite Mp. apply (R_hascall _ _ HR n v t0 id Hn).
    - rewrite Ls. apply HR.
  Qed.

  (* when the clock's first call is not due, no held name is due *)
  Lemma no_due_left m s : R m s ->
    match calls m with [] => True | c :: _ => (now m < fst c)%Z end ->
    forall k, ~ In k (due_names s).
  Proof.
    intros HR Hd k H. unfold due_names in H. apply filter_In in H as [Hk Du]. unfold due_in in Du.
    destruct (s_map s k) as [v|] eqn:Sm; [|discriminate].
    destruct (m_exp v) as [|t0] eqn:Ex; [discriminate|]. cbn [due_exp] in Du.
    assert (HkNS : In k NS) by (eapply R_names; eauto).
    pose proof (R_name _ _ HR k HkNS) as A. rewrite Sm in A. destruct A as (id & D & _).
    destruct (R_hascall _ _ HR k v t0 id HkNS Sm Ex D) as (t & Hc).
    destruct (R_call _ _ HR t id Hc) as (n' & v' & t0' & Hn' & D' & Sm' & Ex' & Tm).
    assert (n' = k) by (eapply R_inj; eauto). subst n'.
    assert (v' = v) by congruence. subst v'. assert (t0' = t0) by congruence. subst t0'.
    rewrite <- (R_now _ _ HR) in Du.
    assert (Tl : (t <= now m)%Z) by lia.
    pose proof (R_sorted _ _ HR) as So.
    destruct (calls m) as [|c rest]; [destruct Hc|]. destruct So as [S1 _].
    destruct Hc as [->|Hc]; [cbn [fst] in Hd; lia|]. specialize (S1 _ Hc). cbn [fst] in S1. lia.
  Qed.

  Lemma heard_notin n l0 ls : ~ In l0 (map fst ls) -> heard n l0 ls = [].
  Proof.
    induction ls as [|lb r IH]; intros H; [reflexivity|]. unfold heard in *. cbn [flat_map].
    assert (E : (fst lb =? l0) = false) by (apply N.eqb_neq; intros E; apply H; left; exact E).
    rewrite E. apply IH. intros A. apply H. right. exact A.
  Qed.

  Lemma filter_len_le {A} (p q : A -> bool) l : (forall x, In x l -> p x = true -> q x = true) ->
    (length (filter p l) <= length (filter q l))%nat.
  Proof.
    induction l as [|x l IH]; intros H; [cbn; lia|]. cbn [filter].
    assert (IH' : (length (filter p l) <= length (filter q l))%nat)
      by (apply IH; intros y Hy; apply H; right; exact Hy).
    destruct (p x) eqn:Px.
    - rewrite (H x (or_introl eq_refl) Px). cbn [length]. lia.
    - destruct (q x); cbn [length]; lia.
  Qed.

  Lemma len1_same {A} (l : list A) a b : (length l <= 1)%nat -> In a l -> In b l -> a = b.
  Proof.
    destruct l as [|x [|y l]]; cbn [length]; intros Hl Ha Hb; try lia; [destruct Ha|].
    destruct Ha as [<-|[]]. destruct Hb as [<-|[]]. reflexivity.
  Qed.

  (* ---- Clock.advance ---- *)
  Lemma Lok_exp_ok ls : Lok ls -> exp_ok ls.
  Proof. intros L lb H. destruct (Lok_script KExpired lb ls L H) as [A _]. exact A. Qed.

  Lemma fire_stop fuel m :
    match calls m with [] => True | c :: _ => (now m < fst c)%Z end -> fire_due fuel m = Some (m, []).
  Proof.
    intros H. destruct fuel; cbn [fire_due]; destruct (calls m) as [|c rest]; try reflexivity;
      (assert (E : (fst c <=? now m)%Z = false) by lia); rewrite E; reflexivity.
  Qed.

  Lemma fire_step f fuel m c rest : calls m = c :: rest -> (fst c <=? now m)%Z = true ->
    fire_due (f :: fuel) m =
    match notify_top (lst m) (mk m (ddel_val (snd c) (dict m)) (heap m) rest (nid m)) (NExpired (name_of m (snd c))) with
    | Some (s2, e1) => match fire_due fuel s2 with Some (s3, e2) => Some (s3, e1 ++ e2) | None => None end
    | None => None
    end.
  Proof. intros Cs Due. cbn [fire_due]. rewrite Cs, Due. reflexivity. Qed.

  Lemma due_names_exp_one s n k : exp_ok (s_lst s) -> In n (s_names s) ->
    In k (due_names (exp_one s n)) <-> In k (due_names s) /\ k <> n.
  Proof.
    intros Ok Hn. destruct (exp_one_frame s n) as (A1 & _ & _ & A4). unfold due_names.
    rewrite A1, (A4 Hn), !filter_In, (exp_one_due s n k Ok).
    destruct (beqb n k) eqn:E.
    - apply beqb_eq in E. subst k. split; [intros [_ H]; discriminate|intros [_ H]; congruence].
    - apply beqb_false_neq in E. split; [intros [A B]; auto|intros [[A B] _]; auto].
  Qed.

  Lemma due_names_exp_one_len s n : exp_ok (s_lst s) -> In n (s_names s) ->
    (length (due_names (exp_one s n)) <= length (due_names s))%nat.
  Proof.
    intros Ok Hn. destruct (exp_one_frame s n) as (A1 & _ & _ & A4). unfold due_names.
    rewrite A1, (A4 Hn). apply filter_len_le. intros k _. rewrite (exp_one_due s n k Ok).
    destruct (beqb n k); [discriminate|auto].
  Qed.

  Definition fire_post (m : mst) (s : sst) (m' : mst) (es : list obs) (L : list bytes) : Prop :=
    R m' (fold_left exp_one L s) /\ lst m' = lst m /\
    NoDup L /\ (forall k, In k L <-> In k (due_names s)) /\ (L = [] -> es = []) /\
    (forall lb0 r, lst m = lb0 :: r -> expired_names (fst lb0) es = L) /\
    ((lst_lookup KExpired s = false \/ (length (due_names s) <= 1)%nat) -> adv_ok L s es = true).

  Lemma fire_stop_sim fuel m s : R m s ->
    match calls m with [] => True | c :: _ => (now m < fst c)%Z end ->
    exists m' es L, fire_due fuel m = Some (m', es) /\ fire_post m s m' es L.
  Proof.
    intros HR Hd. exists m, [], []. split; [apply fire_stop; exact Hd|].
    split; [exact HR|]. split; [reflexivity|]. split; [constructor|]. split; [|split; [reflexivity|]].
    - intros k. split; [intros []|]. intros H. exact (no_due_left m s HR Hd k H).
    - split; [reflexivity|]. intros _. reflexivity.
  Qed.

  Lemma fire_sim fuel : forall m s,
    R m s -> Lok (lst m) -> (duecnt (now m) (calls m) <= length fuel)%nat ->
    exists m' es L, fire_due fuel m = Some (m', es) /\ fire_post m s m' es L.
  Proof.
    induction fuel as [|f fuel IH]; intros m s HR L Dc;
      (destruct (calls m) as [|c rest] eqn:Cs; [apply fire_stop_sim; [exact HR|rewrite Cs; exact I]|]);
      (destruct (fst c <=? now m)%Z eqn:Due; [|apply fire_stop_sim; [exact HR|rewrite Cs; lia]]).
    - exfalso. unfold duecnt in Dc. cbn [filter] in Dc. unfold isdue at 1 in Dc. rewrite Due in Dc.
      cbn [length] in Dc. lia.
    - destruct c as [t id]. cbn [fst snd] in *.
      assert (Hc : In (t, id) (calls m)) by (rewrite Cs; left; reflexivity).
      destruct (R_call _ _ HR t id Hc) as (n & v & t0 & Hn & D & Sm & Ex & Tm).
      assert (Hnm : In n (s_names s)) by (eapply R_held; eauto).
      assert (Nm : name_of m id = n).
      { pose proof (R_name _ _ HR n Hn) as A. rewrite Sm in A. destruct A as (id' & D' & Hh).
        assert (id' = id) by congruence. subst id'. unfold name_of, hget. rewrite Hh. reflexivity. }
      assert (NI : ~ In id (map snd rest)).
      { pose proof (R_nodup _ _ HR) as ND. rewrite Cs in ND. cbn [map snd] in ND. inversion ND; assumption. }
      assert (DueN : In n (due_names s)).
      { unfold due_names. apply filter_In. split; [exact Hnm|]. unfold due_in. rewrite Sm, Ex. cbn [due_exp].
        rewrite <- (R_now _ _ HR). lia. }
      assert (Ok : exp_ok (s_lst s)) by (rewrite <- (R_lst _ _ HR); apply Lok_exp_ok; exact L).
      (* the entry goes ... *)
      pose proof (R_herr m s n id (heap m) HR Hn D (fun i _ => eq_refl)) as HRa.
      pose proof (cancel_head (t, id) rest NI) as CH. cbn [snd] in CH. rewrite Cs, CH in HRa.
      rewrite (names_add_in n _ Hnm) in HRa. change {| s_now := s_now s; s_map := sdel n (s_map s);
        s_names := s_names s; s_lst := s_lst s |} with (del_name s n) in HRa.
      (* ... then the listeners hear of it *)
      destruct (notify_sim KExpired (lst m) _ _ n [] (NExpired n) HRa Hn L eq_refl)
        as (m2 & e1 & Nt & HR2 & Nw2 & Ls2 & Dc2 & _ & En1 & Ok1).
      cbn [mk now lst calls] in Nw2, Ls2, Dc2.
      assert (HR2' : R m2 (exp_one s n)).
      { unfold exp_one, note_step. cbn [del_name s_lst]. rewrite <- (R_lst _ _ HR). exact HR2. }
      assert (Dc' : (duecnt (now m2) (calls m2) <= length fuel)%nat).
      { rewrite Nw2. unfold duecnt in Dc. cbn [filter] in Dc. unfold isdue at 1 in Dc. cbn [fst] in Dc.
        rewrite Due in Dc. cbn [length] in Dc. fold (duecnt (now m) rest) in Dc. lia. }
      assert (L2 : Lok (lst m2)) by (rewrite Ls2; exact L).
      destruct (IH m2 (exp_one s n) HR2' L2 Dc') as (m3 & e2 & L' & Fd & HR3 & Ls3 & ND & Mem & _ & En3 & Ok3).
      exists m3, (e1 ++ e2), (n :: L').
      split; [rewrite (fire_step f fuel m (t, id) rest Cs Due); cbn [snd]; rewrite Nm, Nt, Fd; reflexivity|].
      split; [exact HR3|]. split; [congruence|].
      assert (NL : ~ In n L').
      { intros H. apply Mem in H. apply (due_names_exp_one s n n Ok Hnm) in H. destruct H as [_ H]. congruence. }
      split; [constructor; assumption|]. split.
      { intros k. cbn [In]. split.
        - intros [<-|H]; [exact DueN|]. apply Mem, (due_names_exp_one s n k Ok Hnm) in H. apply H.
        - intros H. destruct (beqb n k) eqn:E; [left; apply beqb_eq; exact E|right].
          apply Mem, (due_names_exp_one s n k Ok Hnm). split; [exact H|].
          intros ->. rewrite beqb_refl in E. discriminate. }
      split; [discriminate|].
      split.
      + intros lb0 r Hl. rewrite expired_names_app, (En1 eq_refl), (En3 lb0 r ltac:(congruence)).
        rewrite Hl. unfold heard at 1. cbn [flat_map]. rewrite N.eqb_refl. fold (heard n (fst lb0) r).
        rewrite heard_notin; [reflexivity|].
        pose proof (R_lstnd _ _ HR) as NDl. rewrite <- (R_lst _ _ HR), Hl in NDl. cbn [map] in NDl.
        inversion NDl; assumption.
      + intros Hs. cbn [adv_ok]. rewrite <- (R_lst _ _ HR). rewrite Ok1.
        * apply Ok3. destruct (exp_one_frame s n) as (_ & A2 & _). destruct Hs as [Hs|Hs].
          -- left. unfold lst_lookup in *. rewrite A2. exact Hs.
          -- right. pose proof (due_names_exp_one_len s n Ok Hnm). lia.
        * destruct Hs as [Hs|Hs].
          -- left. intros lb Hl. unfold lst_lookup in Hs. rewrite <- (R_lst _ _ HR) in Hs.
             exact (existsb_false _ _ Hs lb Hl).
          -- right. unfold any_due. apply existsb_false_intro. intros k Hk. cbn [del_name s_now s_map s_names] in *.
             unfold due_in, sdel. destruct (beqb n k) eqn:E; [reflexivity|].
             destruct (match s_map s k with Some v0 => due_exp (s_now s) (m_exp v0) | None => false end) eqn:Dk;
               [|reflexivity].
             assert (Dn : In k (due_names s)) by (unfold due_names; apply filter_In; split; [exact Hk|exact Dk]).
             pose proof (len1_same _ n k Hs DueN Dn). subst k. rewrite beqb_refl in E. discriminate.
  Qed.

  Definition bump (m : mst) (dt : N) : mst :=
    {| dict := dict m; heap := heap m; calls := calls m; now := (now m + Z.of_N dt)%Z; nid := nid m; lst := lst m |}.

  Lemma R_bump m s dt : R m s -> R (bump m dt) (bump_s s dt).
  Proof.
    intros HR. constructor; unfold bump, bump_s; cbn [dict heap calls now nid lst s_now s_map s_names s_lst];
      try apply HR.
    - rewrite (R_now _ _ HR). reflexivity.
    - intros t id H. destruct (R_call _ _ HR t id H) as (n & v & t0 & A & B & C & D & E).
      exists n, v, t0. repeat split; auto. lia.
  Qed.

  Lemma duecnt_le_len nw cs : (duecnt nw cs <= length cs)%nat.
  Proof.
    unfold duecnt. induction cs as [|c cs IH]; [cbn; lia|]. cbn [filter]. destruct (isdue nw c); cbn [length]; lia.
  Qed.

  Lemma memB_ext k (l1 l2 : list bytes) : (forall x, In x l1 <-> In x l2) -> memB k l1 = memB k l2.
  Proof.
    intros H. destruct (memB k l1) eqn:E1; destruct (memB k l2) eqn:E2; try reflexivity.
    - apply memB_In, H, memB_In in E1. congruence.
    - apply memB_In, H, memB_In in E2. congruence.
  Qed.

  Lemma nodupB_NoDup l : NoDup l -> nodupB l = true.
  Proof.
    induction 1 as [|x l Hx ND IH]; [reflexivity|]. cbn [nodupB]. rewrite IH, andb_true_r.
    apply negb_true_iff. destruct (memB x l) eqn:E; [|reflexivity]. apply memB_In in E. contradiction.
  Qed.

  Lemma adv_ok_nolst L : forall s es, s_lst s = [] -> adv_ok L s es = true -> es = [].
  Proof.
    induction L as [|n L IH]; intros s es Ls H.
    - cbn [adv_ok] in H. destruct es; [reflexivity|discriminate].
    - cbn [adv_ok] in H. rewrite Ls in H. cbn [notify_ok] in H. apply IH in H; [exact H|].
      destruct (exp_one_frame s n) as (_ & A2 & _). congruence.
  Qed.

  Lemma adv_sim m s dt : R m s -> Lok (lst m) ->
    exists m' es, advance m dt = Some (m', es) /\ R m' (spec_step s (OAdvance dt)) /\ lst m' = lst m /\
      (stale_lookup_op s (OAdvance dt) = false -> chunk_ok s (OAdvance dt) es = true).
  Proof.
    intros HR L. change (advance m dt) with (fire_due (calls (bump m dt)) (bump m dt)).
    pose proof (R_bump m s dt HR) as HR1. set (m1 := bump m dt) in *. set (s1 := bump_s s dt) in *.
    destruct (fire_sim (calls m1) m1 s1 HR1 L (duecnt_le_len _ _)) as (m' & es & L0 & Fd & HR' & Ls' & ND & Mem & Nil & En & Ok).
    exists m', es. split; [exact Fd|].
    assert (Sub0 : forall n, In n L0 -> In n (s_names s1)).
    { intros n H. apply Mem in H. unfold due_names in H. apply filter_In in H. apply H. }
    assert (Sub1 : forall n, In n (due_names s1) -> In n (s_names s1)).
    { intros n H. unfold due_names in H. apply filter_In in H. apply H. }
    destruct (fold_exp_char L0 s1 Sub0) as (A1 & A2 & A3 & A4).
    destruct (fold_exp_char (due_names s1) s1 Sub1) as (B1 & B2 & B3 & B4).
    split.
    { cbn [spec_step]. fold s1. eapply R_ext; [exact HR'|congruence|congruence|congruence|].
      intros k. rewrite A4, B4, (memB_ext k _ _ Mem). reflexivity. }
    split; [exact Ls'|].
    cbn [stale_lookup_op chunk_ok]. fold s1. intros Sl.
    destruct (is_nil (due_names s1)) eqn:Dn.
    - (* nothing is due *)
      destruct (due_names s1) as [|x dn] eqn:Dn'; [|discriminate].
      assert (L0 = []).
      { destruct L0 as [|x r]; [reflexivity|]. exfalso. apply (Mem x). left. reflexivity. }
      subst L0. rewrite (Nil eq_refl). destruct (s_lst s); reflexivity.
    - assert (Hs : lst_lookup KExpired s1 = false \/ (length (due_names s1) <= 1)%nat).
      { apply andb_false_iff in Sl as [Sl|Sl]; [left; exact Sl|right]. apply N.leb_gt in Sl. lia. }
      specialize (Ok Hs).
      destruct (s_lst s) as [|lb0 r] eqn:Ll.
      + assert (es = []) by (eapply adv_ok_nolst; [|exact Ok]; exact Ll). subst es. reflexivity.
      + rewrite (En lb0 r ltac:(unfold m1; cbn [bump lst]; rewrite (R_lst _ _ HR); exact Ll)).
        rewrite (nodupB_NoDup _ ND), Ok. cbn [andb]. rewrite andb_true_r.
        apply andb_true_iff. split; apply forallb_forall; intros n H; apply memB_In; apply Mem; exact H.
  Qed.
End Sim.

(* ------------------------------------------------------------------------------------------ *)
(* Part B5: one operation *)

Definition op_within (NS : list bytes) (o : op) : Prop :=
  match o with
  | OEv ts => forall v, parse_ev ts = Some v -> In (v_name v) NS /\ ~ In (ev_key v) NS
  | OAddL _ b => forall ip, In ip (beh_keys b) -> ~ In ip NS
  | _ => True
  end.

Definition plainNS (NS : list bytes) : Prop := forall n, In n NS -> plain_bytes n = true.

Lemma step_sim NS (NSp : plainNS NS) m s o :
  R NS m s -> Lok NS (lst m) -> op_in_scope o = true -> op_within NS o ->
  exists m' es, step m o = Some (m', es) /\ R NS m' (spec_step s o) /\ Lok NS (lst m') /\
    (stale_lookup_op s o = false -> chunk_ok s o es = true).
Proof.
  intros HR L Sc W. destruct o as [ts|dt|k|l b].
  - cbn [op_in_scope] in Sc. destruct (parse_ev ts) as [v|] eqn:P; [|discriminate].
    destruct (W v P) as [Hn Hb].
    destruct (ev_sim NS NSp m s ts v HR L P Hn Hb) as (m' & es & St & HR' & Ls & Ck).
    exists m', es. split; [exact St|]. split; [exact HR'|]. split; [rewrite Ls; exact L|exact Ck].
  - destruct (adv_sim NS NSp m s dt HR L) as (m' & es & St & HR' & Ls & Ck).
    exists m', es. split; [exact St|]. split; [exact HR'|]. split; [rewrite Ls; exact L|exact Ck].
  - cbn [step spec_step]. exists m, (find m k). split; [reflexivity|]. split; [exact HR|]. split; [exact L|].
    intros St. cbn [stale_lookup_op] in St. destruct (find_sim NS m s k HR St) as (e & Fe & Fo).
    rewrite Fe. exact Fo.
  - cbn [step]. eexists _, _. split; [reflexivity|]. split; [apply R_addl; exact HR|]. split.
    + unfold add_listener. cbn [lst]. destruct (memN l (lids m)); [exact L|].
      intros lb H. apply in_app_iff in H as [H|[<-|[]]]; [apply L; exact H|]. cbn [snd].
      split; [exact Sc|exact W].
    + intros _. reflexivity.
Qed.

(* ------------------------------------------------------------------------------------------ *)
(* Part B6: whole histories *)

Lemma run_sim NS (NSp : plainNS NS) h : forall m s,
  R NS m s -> Lok NS (lst m) -> in_scope h = true -> Forall (op_within NS) h ->
  exists m' tr, run_from m h = Some (m', tr) /\ R NS m' (fold_left spec_step h s) /\
    (stale_lookup_from s h = false -> oracle_from s h tr = true).
Proof.
  induction h as [|o h IH]; intros m s HR L Sc W.
  - exists m, []. split; [reflexivity|]. split; [exact HR|]. reflexivity.
  - cbn [in_scope forallb] in Sc. apply andb_true_iff in Sc as [Sco Sc].
    inversion W as [|? ? Wo W']; subst.
    destruct (step_sim NS NSp m s o HR L Sco Wo) as (m1 & es & St & HR1 & L1 & Ck).
    destruct (IH m1 (spec_step s o) HR1 L1 Sc W') as (m' & tr & Rn & HR' & Or).
    exists m', (es :: tr). cbn [run_from fold_left]. rewrite St, Rn. split; [reflexivity|]. split; [exact HR'|].
    cbn [stale_lookup_from oracle_from]. intros B.
    apply orb_false_iff in B as [B1 B2].
    rewrite (Ck B1), (Or B2). reflexivity.
Qed.

(* names and address keys of a history *)
Lemma ev_in_names h ts v : In (OEv ts) h -> parse_ev ts = Some v ->
  In (v_name v) (ev_names h) /\ In (ev_key v) (ev_addrs h).
Proof.
  induction h as [|o h IH]; intros H P; [destruct H|].
  destruct H as [->|H].
  - cbn [ev_names ev_addrs]. rewrite P. split; left; reflexivity.
  - destruct (IH H P) as [A B]. destruct o as [ts'| | |l b]; cbn [ev_names ev_addrs]; try (split; assumption).
    + destruct (parse_ev ts'); split; try right; assumption.
    + split; [assumption|]. apply in_or_app. right. exact B.
Qed.

Lemma addl_in_addrs h l b ip : In (OAddL l b) h -> In ip (beh_keys b) -> In ip (ev_addrs h).
Proof.
  induction h as [|o h IH]; intros H Hi; [destruct H|].
  destruct H as [->|H].
  - cbn [ev_addrs]. apply in_or_app. left. exact Hi.
  - specialize (IH H Hi). destruct o as [ts'| | |l' b']; cbn [ev_addrs]; try assumption.
    + destruct (parse_ev ts'); [right|]; assumption.
    + apply in_or_app. right. exact IH.
Qed.

Lemma within_of_no_collision h NS :
  (forall n, In n (ev_names h) -> In n NS) ->
  (forall n, In n NS -> ~ In n (ev_addrs h)) ->
  Forall (op_within NS) h.
Proof.
  intros Sub Dis. apply Forall_forall. intros o Ho. destruct o as [ts| | |l b]; cbn [op_within]; auto.
  - intros v P. destruct (ev_in_names h ts v Ho P) as [A B]. split; [auto|].
    intros C. exact (Dis _ C B).
  - intros ip Hi C. exact (Dis _ C (addl_in_addrs h l b ip Ho Hi)).
Qed.

Lemma no_collision_disjoint h : key_collision h = false ->
  forall n, In n (ev_names h) -> ~ In n (ev_addrs h).
Proof.
  unfold key_collision. intros H n Hn A.
  pose proof (existsb_false _ _ H n Hn) as B. cbn in B. apply memB_In in A. congruence.
Qed.

Lemma within_self h : key_collision h = false -> Forall (op_within (ev_names h)) h.
Proof.
  intros H. apply within_of_no_collision; [auto|]. apply no_collision_disjoint. exact H.
Qed.

Lemma parse_name_plain ts v : parse_ev ts = Some v -> plain_bytes (v_name v) = true.
Proof.
  intros P. destruct (parse_agree ts v P) as (a & b & c & rest & -> & _ & _ & Na & _).
  unfold parse_ev in P. destruct (split_pos rest) as [pos r].
  destruct (plain_word a) eqn:Pa; cbn [andb] in P; [|discriminate].
  rewrite <- Na. unfold plain_word in Pa. unfold plain_bytes.
  apply andb_true_iff in Pa as [Pa P3]. apply andb_true_iff in Pa as [_ P2]. rewrite P2, P3. reflexivity.
Qed.

Lemma ev_names_plain h : plainNS (ev_names h).
Proof.
  induction h as [|o h IH]; intros n H; [destruct H|]. destruct o as [ts| | |]; cbn [ev_names] in H; auto.
  destruct (parse_ev ts) as [v|] eqn:P; auto. destruct H as [<-|H]; [eapply parse_name_plain; eauto|auto].
Qed.

Lemma Lok_init NS : Lok NS (lst m0).
Proof. intros lb []. Qed.

(* the main theorem: outside the two finding classes the model's trace satisfies the oracle *)
Lemma model_satisfies_oracle h :
  in_scope h = true -> key_collision h = false -> stale_lookup h = false ->
  exists tr, run h = Some tr /\ oracle h tr = true.
Proof.
  intros Sc Kc Sl.
  destruct (run_sim (ev_names h) (ev_names_plain h) h m0 s0 (R_init _) (Lok_init _) Sc (within_self h Kc))
    as (m' & tr & Rn & _ & Or).
  exists tr. unfold run. rewrite Rn. split; [reflexivity|]. apply Or; assumption.
Qed.

(* ------------------------------------------------------------------------------------------ *)
(* Part C1: invariants of the reference semantics alone *)

Lemma spec_after_app h1 h2 : spec_after (h1 ++ h2) = fold_left spec_step h2 (spec_after h1).
Proof. unfold spec_after. apply fold_left_app. Qed.

(* a held name has been mentioned *)
Definition named (s : sst) : Prop := forall k v, s_map s k = Some v -> In k (s_names s).

Lemma named_ev_step s v : named s -> named (ev_step s v).
Proof.
  intros H k w. unfold ev_step. cbn [s_map s_names]. rewrite In_names_add.
  destruct (v_addr v); unfold sset, sdel; (destruct (beqb (v_name v) k) eqn:E;
    [apply beqb_eq in E; subst; auto|intros A; right; eapply H; eauto]).
Qed.

Lemma named_script acts : forall s n, named s -> named (script_step s n acts).
Proof.
  induction acts as [|a r IH]; intros s n H; [exact H|].
  destruct a; cbn [script_step act_step]; auto. apply IH. apply named_ev_step. exact H.
Qed.

Lemma named_note kd ls : forall s n, named s -> named (note_fold kd ls s n).
Proof.
  induction ls as [|lb r IH]; intros s n H; [exact H|]. cbn [note_fold].
  apply IH, named_script, H.
Qed.

Lemma named_exp_one s n : named s -> named (exp_one s n).
Proof.
  intros H. unfold exp_one, note_step. apply named_note. intros k v. cbn [del_name s_map s_names].
  unfold sdel. destruct (beqb n k); [discriminate|apply H].
Qed.

Lemma named_fold_exp L : forall s, named s -> named (fold_left exp_one L s).
Proof. induction L as [|n L IH]; intros s H; [exact H|]. cbn [fold_left]. apply IH, named_exp_one, H. Qed.

Lemma named_step s o : named s -> named (spec_step s o).
Proof.
  intros H. destruct o as [ts|dt|k|l b]; cbn [spec_step]; auto.
  - destruct (parse_ev ts) as [v|]; [|exact H]. destruct (ev_kind s v); [unfold note_step; apply named_note|];
      apply named_ev_step; exact H.
  - apply named_fold_exp. exact H.
Qed.

Lemma named_after h : named (spec_after h).
Proof.
  unfold spec_after. assert (G : forall s, named s -> named (fold_left spec_step h s)).
  { induction h as [|o h IH]; intros s H; [exact H|]. cbn [fold_left]. apply IH, named_step, H. }
  apply G. intros k v. discriminate.
Qed.

(* the listeners of the reference state are those the history registered *)
Definition lst_all (Pb : beh -> Prop) (s : sst) : Prop := forall lb, In lb (s_lst s) -> Pb (snd lb).

Lemma fold_exp_lst L : forall s, s_lst (fold_left exp_one L s) = s_lst s.
Proof.
  induction L as [|n L IH]; intros s; [reflexivity|]. cbn [fold_left]. rewrite IH.
  destruct (exp_one_frame s n) as (_ & A2 & _). exact A2.
Qed.

Lemma spec_step_lst s o : s_lst (spec_step s o) =
  match o with OAddL l b => if memN l (ids s) then s_lst s else s_lst s ++ [(l, b)] | _ => s_lst s end.
Proof.
  destruct o as [ts|dt|k|l b]; cbn [spec_step]; try reflexivity.
  - destruct (parse_ev ts) as [v|]; [|reflexivity]. destruct (ev_kind s v); [|reflexivity].
    unfold note_step. destruct (note_fold_frame k (s_lst (ev_step s v)) (ev_step s v) (v_name v)) as (_ & A2 & _).
    exact A2.
  - rewrite fold_exp_lst. reflexivity.
Qed.

Lemma lst_after (Pb : beh -> Prop) h : (forall l b, In (OAddL l b) h -> Pb b) -> lst_all Pb (spec_after h).
Proof.
  unfold spec_after.
  assert (G : forall s, lst_all Pb s -> (forall l b, In (OAddL l b) h -> Pb b) -> lst_all Pb (fold_left spec_step h s)).
  { induction h as [|o h IH]; intros s H Hb; [exact H|]. cbn [fold_left]. apply IH.
    - intros lb Hl. rewrite spec_step_lst in Hl. destruct o as [ts|dt|k|l b]; try (apply H; exact Hl).
      destruct (memN l (ids s)); [apply H; exact Hl|]. apply in_app_iff in Hl as [Hl|[<-|[]]]; [apply H; exact Hl|].
      cbn [snd]. apply (Hb l b). left. reflexivity.
    - intros l b Hl. apply (Hb l b). right. exact Hl. }
  intros Hb. apply G; [intros lb []|exact Hb].
Qed.

Lemma in_scope_addl h l b : in_scope h = true -> In (OAddL l b) h -> beh_ok b = true.
Proof. intros Sc H. unfold in_scope in Sc. rewrite forallb_forall in Sc. exact (Sc _ H). Qed.

Lemma feedless_addl h l b : feedless h = true -> In (OAddL l b) h -> beh_keys b = [].
Proof.
  induction h as [|o h IH]; intros F H; [destruct H|]. destruct H as [->|H].
  - cbn [feedless] in F. apply andb_true_iff in F as [F _]. destruct (beh_keys b); [reflexivity|discriminate].
  - apply IH; [|exact H]. destruct o; cbn [feedless] in F; try exact F. apply andb_true_iff in F as [_ F]. exact F.
Qed.

Lemma exp_ok_after h : in_scope h = true -> exp_ok (s_lst (spec_after h)).
Proof.
  intros Sc lb Hl. pose proof (lst_after (fun b => beh_ok b = true) h (fun l b => in_scope_addl h l b Sc) lb Hl) as A.
  cbn beta in A. unfold beh_ok in A. apply andb_true_iff in A as [_ A]. exact A.
Qed.

(* listeners that feed nothing leave the reference state alone *)
Lemma script_step_nofeed acts : feed_keys acts = [] -> forall s n, script_step s n acts = s.
Proof.
  induction acts as [|a r IH]; intros F s n; [reflexivity|].
  destruct a; cbn [script_step act_step]; try reflexivity; try (apply IH; exact F).
  unfold feed_keys in F. cbn [flat_map app] in F. discriminate.
Qed.

Lemma note_fold_nofeed kd ls : (forall lb, In lb ls -> beh_keys (snd lb) = []) -> forall s n, note_fold kd ls s n = s.
Proof.
  induction ls as [|lb r IH]; intros F s n; [reflexivity|]. cbn [note_fold].
  assert (E : feed_keys (script_of kd (snd lb)) = []).
  { pose proof (F lb (or_introl eq_refl)) as A. unfold beh_keys in A. apply app_eq_nil in A as [A1 A2].
    destruct kd; assumption. }
  rewrite (script_step_nofeed _ E).
  apply IH. intros x Hx. apply F. right. exact Hx.
Qed.

(* ------------------------------------------------------------------------------------------ *)
(* Part C2: consequences *)

Lemma state_R h m : in_scope h = true -> key_collision h = false -> state_after h = Some m ->
  R (ev_names h) m (spec_after h).
Proof.
  intros Sc Kc St.
  destruct (run_sim (ev_names h) (ev_names_plain h) h m0 s0 (R_init _) (Lok_init _) Sc (within_self h Kc))
    as (m' & tr & Rn & HR & _).
  unfold state_after in St. rewrite Rn in St. cbn in St. injection St as <-. exact HR.
Qed.

Lemma state_exists h : in_scope h = true -> key_collision h = false -> exists m, state_after h = Some m.
Proof.
  intros Sc Kc.
  destruct (run_sim (ev_names h) (ev_names_plain h) h m0 s0 (R_init _) (Lok_init _) Sc (within_self h Kc))
    as (m' & tr & Rn & _ & _).
  exists m'. unfold state_after. rewrite Rn. reflexivity.
Qed.

(* the map finds exactly the HELD names, with the latest address and expiry *)
Lemma find_name_held h n m :
  in_scope h = true -> key_collision h = false -> In n (ev_names h) -> state_after h = Some m ->
  find m n = match s_map (spec_after h) n with
             | Some v => [EFound n (m_ip v) (exp_opt (m_exp v))]
             | None => [ENotFound]
             end.
Proof.
  intros Sc Kc Hn St. pose proof (state_R h m Sc Kc St) as HR.
  pose proof (R_name _ _ _ HR n Hn) as A. unfold find, dget, hget.
  destruct (s_map (spec_after h) n) as [v|].
  - destruct A as (id & D & Hh). rewrite D, Hh. reflexivity.
  - rewrite A. reflexivity.
Qed.

(* lookup succeeds exactly when the latest mapping has not expired, provided the mapping did not
   arrive already expired with no time passed since (finding C20-F3) *)
Lemma lookup_iff_unexpired h n m :
  in_scope h = true -> key_collision h = false -> In n (ev_names h) -> state_after h = Some m ->
  due_in (s_now (spec_after h)) (s_map (spec_after h)) n = false ->
  find m n = match live (spec_after h) n with
             | Some v => [EFound n (m_ip v) (exp_opt (m_exp v))]
             | None => [ENotFound]
             end.
Proof.
  intros Sc Kc Hn St Nd. rewrite (find_name_held h n m Sc Kc Hn St). unfold live, due_in in *.
  destruct (s_map (spec_after h) n) as [v|]; [|reflexivity]. rewrite Nd. reflexivity.
Qed.

(* once time has passed nothing is stale, whatever the listeners fed from inside their callbacks *)
Lemma after_advance_fresh h dt n : in_scope h = true ->
  due_in (s_now (spec_after (h ++ [OAdvance dt]))) (s_map (spec_after (h ++ [OAdvance dt]))) n = false.
Proof.
  intros Sc. rewrite spec_after_app. cbn [fold_left spec_step].
  set (s1 := bump_s (spec_after h) dt).
  assert (Nm : named s1) by (intros k v; apply (named_after h)).
  assert (Ok : exp_ok (s_lst s1)) by (apply (exp_ok_after h Sc)).
  assert (Sub1 : forall x, In x (due_names s1) -> In x (s_names s1)).
  { intros x H. unfold due_names in H. apply filter_In in H. apply H. }
  destruct (fold_exp_char (due_names s1) s1 Sub1) as (B1 & _ & _ & B4).
  rewrite B1. unfold due_in. rewrite B4. destruct (memB n (due_names s1)) eqn:Mb.
  - pose proof (exp_one_due s1 n n Ok) as A. rewrite beqb_refl in A. exact A.
  - destruct (s_map s1 n) as [v|] eqn:Sm; [|reflexivity].
    destruct (due_exp (s_now s1) (m_exp v)) eqn:Du; [|reflexivity].
    assert (In n (due_names s1)).
    { unfold due_names. apply filter_In. split; [eapply Nm; eauto|]. unfold due_in. rewrite Sm. exact Du. }
    apply memB_In in H. congruence.
Qed.

(* whatever key is looked up (name or address), a mapping that is returned is live: the latest
   mapping of its name, unexpired *)
Lemma found_is_live h k m n ip e :
  in_scope h = true -> key_collision h = false -> state_after h = Some m ->
  existsb (due_in (s_now (spec_after h)) (s_map (spec_after h))) (s_names (spec_after h)) = false ->
  find m k = [EFound n ip e] ->
  exists v, live (spec_after h) n = Some v /\ ip = m_ip v /\ e = exp_opt (m_exp v).
Proof.
  intros Sc Kc St Nd F. pose proof (state_R h m Sc Kc St) as HR.
  assert (Live : forall n v, s_map (spec_after h) n = Some v -> live (spec_after h) n = Some v).
  { intros n' v Sm. unfold live. rewrite Sm.
    pose proof (existsb_false _ _ Nd n' (R_held _ _ _ HR n' v Sm)) as A. unfold due_in in A. rewrite Sm in A.
    rewrite A. reflexivity. }
  unfold find, dget, hget in F. destruct (dict m k) as [id|] eqn:D; [|discriminate].
  destruct (memB k (ev_names h)) eqn:Mk.
  - apply memB_In in Mk. destruct (R_dict_held _ _ _ _ HR Mk id D) as (v & Sm & Hh).
    rewrite Hh in F. injection F as <- <- <-. exists v. auto.
  - assert (Hk : ~ In k (ev_names h)) by (intros A; apply memB_In in A; congruence).
    destruct (R_addr _ _ _ HR k id D Hk) as (n' & Hn' & Dn).
    destruct (R_dict_held _ _ _ _ HR Hn' id Dn) as (v & Sm & Hh).
    rewrite Hh in F. injection F as <- <- <-. exists v. auto.
Qed.

Lemma in_scope_app h1 h2 : in_scope (h1 ++ h2) = in_scope h1 && in_scope h2.
Proof. unfold in_scope. apply forallb_app. Qed.

Lemma ev_names_app h1 h2 : ev_names (h1 ++ h2) = ev_names h1 ++ ev_names h2.
Proof.
  induction h1 as [|o h1 IH]; [reflexivity|]. destruct o as [ts| | |]; cbn [app ev_names]; try exact IH.
  destruct (parse_ev ts); [cbn [app]; f_equal|]; exact IH.
Qed.

Lemma ev_addrs_app h1 h2 : ev_addrs (h1 ++ h2) = ev_addrs h1 ++ ev_addrs h2.
Proof.
  induction h1 as [|o h1 IH]; [reflexivity|]. destruct o as [ts| | |l b]; cbn [app ev_addrs]; try exact IH.
  - destruct (parse_ev ts); [cbn [app]; f_equal|]; exact IH.
  - rewrite IH, app_assoc. reflexivity.
Qed.

Lemma key_collision_adv h dt : key_collision (h ++ [OAdvance dt]) = key_collision h.
Proof. unfold key_collision. rewrite ev_names_app, ev_addrs_app. cbn [ev_names ev_addrs]. rewrite !app_nil_r. reflexivity. Qed.

(* ---- with listeners that feed nothing: one event, one advance, in closed form ---- *)
Definition nofeed (s : sst) : Prop := forall lb, In lb (s_lst s) -> beh_keys (snd lb) = [].

Lemma nofeed_after h : feedless h = true -> nofeed (spec_after h).
Proof. intros F. exact (lst_after (fun b => beh_keys b = []) h (fun l b => feedless_addl h l b F)). Qed.

Lemma ev_nofeed s ts v : nofeed s -> parse_ev ts = Some v -> spec_step s (OEv ts) = ev_step s v.
Proof.
  intros NF P. cbn [spec_step]. rewrite P. destruct (ev_kind s v); [|reflexivity].
  unfold note_step. apply note_fold_nofeed. exact NF.
Qed.

Lemma adv_nofeed s dt k : nofeed s -> named s ->
  s_map (spec_step s (OAdvance dt)) k =
  if due_in (s_now s + Z.of_N dt) (s_map s) k then None else s_map s k.
Proof.
  intros NF Nm. cbn [spec_step]. set (s1 := bump_s s dt).
  assert (Sub1 : forall x, In x (due_names s1) -> In x (s_names s1)).
  { intros x H. unfold due_names in H. apply filter_In in H. apply H. }
  destruct (fold_exp_char (due_names s1) s1 Sub1) as (_ & _ & _ & B4). rewrite B4.
  change (due_in (s_now s + Z.of_N dt) (s_map s) k) with (due_in (s_now s1) (s_map s1) k).
  destruct (memB k (due_names s1)) eqn:Mb.
  - apply memB_In in Mb. unfold due_names in Mb. apply filter_In in Mb as [_ Du]. rewrite Du.
    unfold exp_one, note_step. rewrite note_fold_nofeed by exact NF. cbn [del_name s_map]. apply sdel_same.
  - destruct (due_in (s_now s1) (s_map s1) k) eqn:Du; [|reflexivity]. exfalso.
    assert (In k (due_names s1)).
    { unfold due_names. apply filter_In. split; [|exact Du]. unfold due_in in Du.
      destruct (s_map s1 k) as [v|] eqn:Sm; [|discriminate]. exact (Nm k v Sm). }
    apply memB_In in H. congruence.
Qed.

(* a later event for the same name replaces the address and moves the expiry to the new time,
   earlier or later, however far away: after it, and dt ticks, the name is found iff t > now + dt *)
Lemma expiry_moves h ts n a t dt m :
  in_scope h = true -> key_collision (h ++ [OEv ts]) = false -> feedless h = true ->
  parse_ev ts = Some {| v_name := n; v_addr := Some a; v_exp := XAt t |} ->
  state_after (h ++ [OEv ts; OAdvance dt]) = Some m ->
  find m n = if (t <=? s_now (spec_after h) + Z.of_N dt)%Z then [ENotFound] else [EFound n a (Some t)].
Proof.
  intros Sc Kc Fl P St.
  change (h ++ [OEv ts; OAdvance dt]) with (h ++ [OEv ts] ++ [OAdvance dt]) in St. rewrite app_assoc in St.
  assert (Sc' : in_scope ((h ++ [OEv ts]) ++ [OAdvance dt]) = true).
  { rewrite !in_scope_app, Sc. cbn. rewrite P. reflexivity. }
  assert (Kc' : key_collision ((h ++ [OEv ts]) ++ [OAdvance dt]) = false) by (rewrite key_collision_adv; exact Kc).
  assert (Hn : In n (ev_names ((h ++ [OEv ts]) ++ [OAdvance dt]))).
  { rewrite !ev_names_app. cbn [ev_names]. rewrite P. apply in_or_app. left. apply in_or_app. right. left. reflexivity. }
  rewrite (find_name_held _ n m Sc' Kc' Hn St).
  rewrite spec_after_app. cbn [fold_left].
  assert (E : spec_after (h ++ [OEv ts]) = ev_step (spec_after h) {| v_name := n; v_addr := Some a; v_exp := XAt t |}).
  { rewrite spec_after_app. cbn [fold_left]. apply ev_nofeed; [apply nofeed_after; exact Fl|exact P]. }
  rewrite adv_nofeed.
  - rewrite E. unfold ev_step, due_in. cbn [s_now s_map v_name v_addr v_exp]. unfold sset. rewrite beqb_refl.
    cbn [m_exp due_exp m_ip exp_opt]. destruct (t <=? s_now (spec_after h) + Z.of_N dt)%Z; reflexivity.
  - rewrite E. intros lb Hl. exact (nofeed_after h Fl lb Hl).
  - apply named_after.
Qed.

(* never-expiring mappings persist: through any later operations that do not mention the name,
   whatever the listeners do in their callbacks *)
Definition not_about (n : bytes) (o : op) : Prop :=
  match o with OEv ts => forall v, parse_ev ts = Some v -> v_name v <> n | _ => True end.

Lemma never_stays n a h2 : Forall (not_about n) h2 -> forall s,
  s_map s n = Some {| m_ip := a; m_exp := XNever |} ->
  s_map (fold_left spec_step h2 s) n = Some {| m_ip := a; m_exp := XNever |}.
Proof.
  induction 1 as [|o h2 Ho _ IH]; intros s Sm; [exact Sm|]. cbn [fold_left]. apply IH.
  destruct o as [ts|dt|k|l b]; cbn [spec_step]; try exact Sm.
  - destruct (parse_ev ts) as [v|] eqn:P; [|exact Sm]. specialize (Ho v P).
    assert (E : s_map (ev_step s v) n = s_map s n).
    { unfold ev_step. cbn [s_map]. destruct (v_addr v); unfold sset, sdel; rewrite (beqb_neq_false _ _ Ho); reflexivity. }
    destruct (ev_kind s v) as [kd|]; [|rewrite E; exact Sm]. unfold note_step.
    destruct (note_fold_frame kd (s_lst (ev_step s v)) (ev_step s v) (v_name v)) as (_ & _ & A3 & _).
    rewrite A3 by (intros X; apply Ho; symmetry; exact X). rewrite E. exact Sm.
  - set (s1 := bump_s s dt).
    assert (Sub1 : forall x, In x (due_names s1) -> In x (s_names s1)).
    { intros x H. unfold due_names in H. apply filter_In in H. apply H. }
    destruct (fold_exp_char (due_names s1) s1 Sub1) as (_ & _ & _ & B4). rewrite B4.
    destruct (memB n (due_names s1)) eqn:Mb; [|exact Sm]. exfalso.
    apply memB_In in Mb. unfold due_names in Mb. apply filter_In in Mb as [_ Du].
    unfold due_in in Du. change (s_map s1 n) with (s_map s n) in Du. rewrite Sm in Du. discriminate.
Qed.

Lemma never_persists h ts n a h2 m :
  in_scope (h ++ OEv ts :: h2) = true -> key_collision (h ++ OEv ts :: h2) = false ->
  parse_ev ts = Some {| v_name := n; v_addr := Some a; v_exp := XNever |} ->
  Forall (not_about n) h2 ->
  state_after (h ++ OEv ts :: h2) = Some m ->
  find m n = [EFound n a None].
Proof.
  intros Sc Kc P NA St.
  assert (Hn : In n (ev_names (h ++ OEv ts :: h2))).
  { rewrite ev_names_app. cbn [ev_names]. rewrite P. apply in_or_app. right. left. reflexivity. }
  rewrite (find_name_held _ n m Sc Kc Hn St).
  change (h ++ OEv ts :: h2) with (h ++ [OEv ts] ++ h2). rewrite app_assoc, !spec_after_app.
  rewrite (never_stays n a h2 NA); [reflexivity|].
  cbn [fold_left spec_step]. rewrite P.
  set (s := spec_after h). set (v := {| v_name := n; v_addr := Some a; v_exp := XNever |}).
  assert (E : s_map (ev_step s v) n = Some {| m_ip := a; m_exp := XNever |}).
  { unfold ev_step, v. cbn [s_map v_name v_addr v_exp]. unfold sset. rewrite beqb_refl. reflexivity. }
  assert (Ek : ev_kind s v = None \/ ev_kind s v = Some KAdded).
  { unfold ev_kind, v. cbn [v_addr v_name]. destruct (s_map s n); auto. }
  destruct Ek as [Ek|Ek]; rewrite Ek; [exact E|].
  (* a new name: the listeners' added-scripts feed nothing (envelope) *)
  assert (Sc0 : in_scope h = true) by (rewrite in_scope_app in Sc; apply andb_true_iff in Sc; apply Sc).
  unfold note_step. change (s_lst (ev_step s v)) with (s_lst s).
  assert (G : forall ls s1, (forall lb, In lb ls -> beh_ok (snd lb) = true) ->
              s_map s1 n = Some {| m_ip := a; m_exp := XNever |} ->
              s_map (note_fold KAdded ls s1 n) n = Some {| m_ip := a; m_exp := XNever |}).
  { induction ls as [|lb r IHr]; intros s1 Okl S1; [exact S1|]. cbn [note_fold script_of].
    assert (F : script_step s1 n (b_added (snd lb)) = s1).
    { pose proof (Okl lb (or_introl eq_refl)) as A. unfold beh_ok in A. apply andb_true_iff in A as [A _].
      clear -A. revert s1. induction (b_added (snd lb)) as [|x acts IHa]; intros s1; [reflexivity|].
      cbn [forallb] in A. apply andb_true_iff in A as [Ax A].
      destruct x; cbn [script_step act_step]; try reflexivity; try (apply IHa; exact A).
      cbn in Ax. discriminate. }
    rewrite F.
    apply IHr; auto. intros x Hx. apply Okl. right. exact Hx. }
  apply G; [|exact E].
  exact (lst_after (fun b => beh_ok b = true) h (fun l b => in_scope_addl h l b Sc0)).
Qed.

(* error mappings are dropped at once (listeners that feed nothing: a listener that answers the
   'expired' call with a newer mapping makes the name findable again, rightly) *)
Lemma error_dropped h ts n x m :
  in_scope h = true -> key_collision (h ++ [OEv ts]) = false -> feedless h = true ->
  parse_ev ts = Some {| v_name := n; v_addr := None; v_exp := x |} ->
  state_after (h ++ [OEv ts]) = Some m ->
  find m n = [ENotFound].
Proof.
  intros Sc Kc Fl P St.
  assert (Sc' : in_scope (h ++ [OEv ts]) = true) by (rewrite in_scope_app, Sc; cbn; rewrite P; reflexivity).
  assert (Hn : In n (ev_names (h ++ [OEv ts]))).
  { rewrite ev_names_app. cbn [ev_names]. rewrite P. apply in_or_app. right. left. reflexivity. }
  rewrite (find_name_held _ n m Sc' Kc Hn St).
  rewrite spec_after_app. cbn [fold_left]. rewrite (ev_nofeed _ ts _ (nofeed_after h Fl) P).
  unfold ev_step. cbn [s_map v_name v_addr]. rewrite sdel_same. reflexivity.
Qed.

(* ---- the full-strength statement is false of the faithful model: two witnesses.
        wit_unheld_error was the witness of C20-F1 (repaired in /repo a1d3211): the oracle now ACCEPTS
        the model's trace on it (unheld_error_accepted) ---- *)
Definition W (l : list N) : tok := {| t_pre := str l; t_time := None |}.
Definition T (t : Z) : tok := {| t_pre := []; t_time := Some t |}.
Definition X (t : Z) : tok := {| t_pre := w_EXPIRES; t_time := Some t |}.
Definition n_a : list N := [97;46;99;111;109].          (* a.com *)
Definition n_b : list N := [98;46;99;111;109].          (* b.com *)
Definition ip1 : list N := [49;48;46;48;46;48;46;49].   (* 10.0.0.1 *)
Definition ip2 : list N := [49;48;46;48;46;48;46;50].   (* 10.0.0.2 *)
Definition passive_l : beh := {| b_added := []; b_expired := [] |}.

Definition wit_unheld_error : list op :=
  [OAddL 1 passive_l; OEv [W n_a; {| t_pre := w_ERROR; t_time := None |}; T 80; W [101;114;114;111;114;61;121;101;115]; X 80]].
Definition wit_collision : list op :=
  [OEv [W n_a; W n_b; {| t_pre := w_NEVER; t_time := None |}]; OEv [W n_b; W ip1; T 40; X 40];
   OAdvance 40; OFind (str n_a)].
Definition wit_stale : list op :=
  [OAdvance 800; OEv [W n_a; W ip1; T 720; X 720]; OFind (str n_a)].
(* listener 1 raises inside addrmap_expired: listener 2 must still hear that a.com expired.  The
   witness of C20-F4 (repaired in /repo a2f579a): the oracle now ACCEPTS the model's trace (starve_accepted) *)
Definition wit_starve : list op :=
  [OAddL 1 {| b_added := []; b_expired := [ARaise] |}; OAddL 2 passive_l;
   OEv [W n_a; W ip1; T 80; X 80]; OAdvance 80].

Definition refutes (h : list op) : bool :=
  in_scope h && match run h with Some tr => negb (oracle h tr) | None => false end.

Lemma collision_refuted :
  refutes wit_collision = true /\ stale_lookup wit_collision = false.
Proof. vm_compute. auto. Qed.
Lemma stale_refuted :
  refutes wit_stale = true /\ key_collision wit_stale = false.
Proof. vm_compute. auto. Qed.
Lemma refutes_elim h : refutes h = true ->
  in_scope h = true /\ exists tr, run h = Some tr /\ oracle h tr = false.
Proof.
  unfold refutes. intros A. apply andb_true_iff in A as [A1 A2]. split; [exact A1|].
  destruct (run h) as [tr|]; [|discriminate]. exists tr. split; [reflexivity|]. now apply negb_true_iff in A2.
Qed.

Lemma collision_refuted_ex : exists h,
  in_scope h = true /\ stale_lookup h = false /\
  exists tr, run h = Some tr /\ oracle h tr = false.
Proof.
  exists wit_collision. destruct collision_refuted as (A & B).
  destruct (refutes_elim _ A) as [A1 A2]. auto.
Qed.

Lemma stale_refuted_ex : exists h,
  in_scope h = true /\ key_collision h = false /\
  exists tr, run h = Some tr /\ oracle h tr = false.
Proof.
  exists wit_stale. destruct stale_refuted as (A & B).
  destruct (refutes_elim _ A) as [A1 A2]. auto.
Qed.

(* the former witness of C20-F4 is now inside the proved class: both listeners hear the expiry *)
Lemma starve_accepted :
  in_scope wit_starve = true /\ key_collision wit_starve = false /\ stale_lookup wit_starve = false /\
  run wit_starve = Some [[]; []; [EAdded 1 (str n_a) (str ip1); EAdded 2 (str n_a) (str ip1)];
                         [EExpired 1 (str n_a); ESub ERaised; EExpired 2 (str n_a)]] /\
  match run wit_starve with Some tr => oracle wit_starve tr | None => false end = true.
Proof. vm_compute. auto 6. Qed.

(* the former witness of C20-F1 is now inside the proved class *)
Lemma unheld_error_accepted :
  in_scope wit_unheld_error = true /\ key_collision wit_unheld_error = false /\ stale_lookup wit_unheld_error = false /\
  run wit_unheld_error = Some [[]; []].
Proof. vm_compute. auto 6. Qed.
