(* L2: the line machine of Model/CtlProto.v, stepped through the regenerated transition table,
   reads back every reply item that Spec/Ctl.v renders (control-spec 2.3). *)
From Coq Require Import List Bool Ascii Arith NArith ZArith Lia ZifyBool.
From TxVerif Require Import Lib.Bytes Spec.Ctl Model.CtlTypes Gen.CtlFsmTable Model.Framing Model.CtlProto.
Import ListNotations.
Open Scope N_scope.

Ltac Zify.zify_post_hook ::= Z.to_euclidean_division_equations.

(* ---- three-digit codes ---- *)
Lemma code_ch n : n < 256 -> code (ch n) = n.
Proof. intros H. unfold code, ch. now apply N_ascii_embedding. Qed.

Lemma digitv_digit x : x <= 9 -> digitv (digit x) = Some x.
Proof.
  intros H. unfold digitv, digit. rewrite code_ch by lia.
  replace ((48 <=? 48 + x) && (48 + x <=? 57)) with true.
  - f_equal. lia.
  - symmetry. apply andb_true_iff. split; apply N.leb_le; lia.
Qed.

Lemma code3_head c s t : c < 1000 -> code3 (head3 c ++ s :: t) = Some c.
Proof.
  intros H. unfold head3. cbn [app code3].
  rewrite !digitv_digit.
  - f_equal. lia.
  - lia.
  - lia.
  - lia.
Qed.

Lemma sep_is_head c s t x : sep_is (head3 c ++ s :: t) x = Ascii.eqb s x.
Proof. reflexivity. Qed.
Lemma rest4_head c s t : rest4 (head3 c ++ s :: t) = t.
Proof. reflexivity. Qed.
Lemma nth3_head c s t : nth_error (head3 c ++ s :: t) 3 = Some s.
Proof. reflexivity. Qed.
Lemma nlen_head c s t : 3 <? nlen (head3 c ++ s :: t) = true.
Proof. unfold nlen, head3. cbn [app length]. apply N.ltb_lt. lia. Qed.

Lemma seps :
  Ascii.eqb DASH SP = false /\ Ascii.eqb DASH PLUS = false /\ Ascii.eqb DASH DASH = true /\
  Ascii.eqb PLUS SP = false /\ Ascii.eqb PLUS PLUS = true /\ Ascii.eqb SP SP = true /\
  Ascii.eqb PLUS DASH = false /\ Ascii.eqb SP PLUS = false /\ Ascii.eqb SP DASH = false.
Proof. repeat split; vm_compute; reflexivity. Qed.

(* the digits of a status code are 7-bit, not a dot *)
Lemma digit_ascii x : x <= 9 -> code (digit x) <? 128 = true.
Proof. intros H. unfold digit. rewrite code_ch by lia. apply N.ltb_lt. lia. Qed.

Lemma head3_first_not_dot c s t : c < 1000 ->
  match head3 c ++ s :: t with x :: _ => Ascii.eqb x DOT | [] => true end = false.
Proof.
  intros H. unfold head3. cbn [app].
  apply Ascii.eqb_neq. intros E.
  assert (code (digit (c / 100)) = code DOT) by now rewrite E.
  unfold digit in H0. rewrite code_ch in H0 by lia.
  replace (code DOT) with 46 in H0 by reflexivity. lia.
Qed.

(* ---- one lemma per (state, kind of line) ---- *)
Definition ascii7 (l : bytes) : bool := forallb (fun c => code c <? 128) l.

Lemma wf_text_ascii7 t : wf_text t = true -> ascii7 t = true.
Proof.
  unfold wf_text, ascii7. intros H. rewrite forallb_forall in *. intros x Hx.
  specialize (H x Hx). apply andb_true_iff in H as [H _]. apply andb_true_iff in H as [H _]. exact H.
Qed.

Lemma ascii7_head c s t : c < 1000 -> code s <? 128 = true -> ascii7 t = true ->
  ascii7 (head3 c ++ s :: t) = true.
Proof.
  intros Hc Hs Ht. unfold ascii7, head3. cbn [app forallb].
  rewrite !digit_ascii by lia. rewrite Hs. exact Ht.
Qed.

Lemma sp_ascii : code SP <? 128 = true /\ code DASH <? 128 = true /\ code PLUS <? 128 = true /\ code DOT <? 128 = true.
Proof. repeat split; vm_compute; reflexivity. Qed.

Section Lines.
  Variable lbehs : list (N * lbeh).
  Notation line_received := (line_received lbehs).
  Notation deliver := (deliver).
  Notation broadcast := (broadcast lbehs).

  Definition set_line (s : pstate) (f : fstate) (c : option N) : pstate := upd_fsm s f c (p_resp s).

  Local Opaque CtlProto.deliver CtlProto.broadcast head3.

  Lemma idle_cont s c t : p_fsm s = IDLE -> p_code s = None -> c < 1000 -> ascii7 t = true ->
    line_received s (head3 c ++ DASH :: t) =
    andthen (deliver (set_line s IDLE (Some c)) t true) (fun s2 => ret (set_line s2 RECV (p_code s2))).
  Proof.
    intros Hf Hc Hlt Ht. destruct sp_ascii as (A1 & A2 & A3 & A4). destruct seps as (E1 & E2 & E3 & E4 & E5 & E6 & E7 & E8 & E9).
    unfold line_received. fold (ascii7 (head3 c ++ DASH :: t)). rewrite ascii7_head by assumption.
    destruct s as [b f cd r i q e l w d]. cbn in Hf, Hc. subst f cd.
    unfold ctl_table. cbn [try_trans f_from f_to f_match f_handle fstate_eqb p_fsm].
    unfold eval_match at 1. rewrite code3_head by assumption. rewrite sep_is_head, E1.
    unfold eval_match at 1. unfold check_code. rewrite code3_head by assumption. cbn [p_code].
    rewrite nth3_head, E2.
    unfold eval_match at 1. unfold check_code. rewrite code3_head by assumption. cbn [p_code].
    rewrite nth3_head, E3.
    cbn [run_handler]. rewrite code3_head by assumption. rewrite rest4_head. reflexivity.
  Qed.

  Lemma idle_plus s c t : p_fsm s = IDLE -> p_code s = None -> c < 1000 -> ascii7 t = true ->
    line_received s (head3 c ++ PLUS :: t) =
    andthen (deliver (set_line s IDLE (Some c)) t true) (fun s2 => ret (set_line s2 RECV_PLUS (p_code s2))).
  Proof.
    intros Hf Hc Hlt Ht. destruct sp_ascii as (A1 & A2 & A3 & A4). destruct seps as (E1 & E2 & E3 & E4 & E5 & E6 & E7 & E8 & E9).
    unfold line_received. fold (ascii7 (head3 c ++ PLUS :: t)). rewrite ascii7_head by assumption.
    destruct s as [b f cd r i q e l w d]. cbn in Hf, Hc. subst f cd.
    unfold ctl_table. cbn [try_trans f_from f_to f_match f_handle fstate_eqb p_fsm].
    unfold eval_match at 1. rewrite code3_head by assumption. rewrite sep_is_head, E4.
    unfold eval_match at 1. unfold check_code. rewrite code3_head by assumption. cbn [p_code].
    rewrite nth3_head, E5.
    cbn [run_handler]. rewrite code3_head by assumption. rewrite rest4_head. reflexivity.
  Qed.

  Lemma idle_final s c t : p_fsm s = IDLE -> c < 1000 -> ascii7 t = true ->
    line_received s (head3 c ++ SP :: t) =
    andthen (broadcast (set_line s IDLE (Some c)) (head3 c ++ SP :: t))
            (fun s2 => ret (set_line s2 IDLE (p_code s2))).
  Proof.
    intros Hf Hlt Ht. destruct sp_ascii as (A1 & A2 & A3 & A4). destruct seps as (E1 & E2 & E3 & E4 & E5 & E6 & E7 & E8 & E9).
    unfold line_received. fold (ascii7 (head3 c ++ SP :: t)). rewrite ascii7_head by assumption.
    destruct s as [b f cd r i q e l w d]. cbn in Hf. subst f.
    unfold ctl_table. cbn [try_trans f_from f_to f_match f_handle fstate_eqb p_fsm].
    unfold eval_match at 1. rewrite code3_head by assumption. rewrite sep_is_head, E6.
    cbn [run_handler]. reflexivity.
  Qed.

  (* inside a reply: the code is known and non-zero *)
  Lemma recv_cont s c t : p_fsm s = RECV -> p_code s = Some c -> 0 < c -> c < 1000 -> ascii7 t = true ->
    line_received s (head3 c ++ DASH :: t) =
    andthen (deliver s t false) (fun s2 => ret (set_line s2 RECV (p_code s2))).
  Proof.
    intros Hf Hc Hpos Hlt Ht. destruct sp_ascii as (A1 & A2 & A3 & A4). destruct seps as (E1 & E2 & E3 & E4 & E5 & E6 & E7 & E8 & E9).
    unfold line_received. fold (ascii7 (head3 c ++ DASH :: t)). rewrite ascii7_head by assumption.
    destruct s as [b f cd r i q e l w d]. cbn in Hf, Hc. subst f cd.
    unfold ctl_table. cbn [try_trans f_from f_to f_match f_handle fstate_eqb p_fsm].
    assert (Z : (c =? 0) = false) by (apply N.eqb_neq; lia).
    unfold eval_match at 1. unfold check_code. rewrite code3_head by assumption. cbn [p_code].
    rewrite Z, N.eqb_refl. cbn [negb andb]. rewrite nth3_head, E2.
    unfold eval_match at 1. unfold check_code. rewrite code3_head by assumption. cbn [p_code].
    rewrite Z, N.eqb_refl. cbn [negb andb]. rewrite nth3_head, E3.
    cbn [run_handler]. rewrite rest4_head. reflexivity.
  Qed.

  Lemma recv_plus s c t : p_fsm s = RECV -> p_code s = Some c -> 0 < c -> c < 1000 -> ascii7 t = true ->
    line_received s (head3 c ++ PLUS :: t) =
    andthen (deliver s t false) (fun s2 => ret (set_line s2 RECV_PLUS (p_code s2))).
  Proof.
    intros Hf Hc Hpos Hlt Ht. destruct sp_ascii as (A1 & A2 & A3 & A4). destruct seps as (E1 & E2 & E3 & E4 & E5 & E6 & E7 & E8 & E9).
    unfold line_received. fold (ascii7 (head3 c ++ PLUS :: t)). rewrite ascii7_head by assumption.
    destruct s as [b f cd r i q e l w d]. cbn in Hf, Hc. subst f cd.
    unfold ctl_table. cbn [try_trans f_from f_to f_match f_handle fstate_eqb p_fsm].
    assert (Z : (c =? 0) = false) by (apply N.eqb_neq; lia).
    unfold eval_match at 1. unfold check_code. rewrite code3_head by assumption. cbn [p_code].
    rewrite Z, N.eqb_refl. cbn [negb andb]. rewrite nth3_head, E5.
    cbn [run_handler]. rewrite rest4_head. reflexivity.
  Qed.

  Lemma recv_final s c t : p_fsm s = RECV -> p_code s = Some c -> 0 < c -> c < 1000 -> ascii7 t = true ->
    line_received s (head3 c ++ SP :: t) =
    andthen (broadcast s (head3 c ++ SP :: t)) (fun s2 => ret (set_line s2 IDLE (p_code s2))).
  Proof.
    intros Hf Hc Hpos Hlt Ht. destruct sp_ascii as (A1 & A2 & A3 & A4). destruct seps as (E1 & E2 & E3 & E4 & E5 & E6 & E7 & E8 & E9).
    unfold line_received. fold (ascii7 (head3 c ++ SP :: t)). rewrite ascii7_head by assumption.
    destruct s as [b f cd r i q e l w d]. cbn in Hf, Hc. subst f cd.
    unfold ctl_table. cbn [try_trans f_from f_to f_match f_handle fstate_eqb p_fsm].
    assert (Z : (c =? 0) = false) by (apply N.eqb_neq; lia).
    unfold eval_match at 1. unfold check_code. rewrite code3_head by assumption. cbn [p_code].
    rewrite Z, N.eqb_refl. cbn [negb andb]. rewrite nth3_head, E8.
    unfold eval_match at 1. unfold check_code. rewrite code3_head by assumption. cbn [p_code].
    rewrite Z, N.eqb_refl. cbn [negb andb]. rewrite nth3_head, E9.
    unfold eval_match at 1.
    pose proof (head3_first_not_dot c SP t Hlt) as Hd.
    Local Transparent head3. unfold head3 in *. cbn [app] in *. Local Opaque head3.
    rewrite Hd. change (sep_is (digit (c / 100) :: digit ((c / 10) mod 10) :: digit (c mod 10) :: SP :: t) SP) with (Ascii.eqb SP SP).
    rewrite E6. cbn [run_handler]. reflexivity.
  Qed.

  (* data block: every stuffed line is appended un-stuffed; "." ends the block *)
  Lemma plus_data s d : p_fsm s = RECV_PLUS -> ascii7 d = true ->
    line_received s (stuff d) =
    andthen (deliver s d false) (fun s2 => ret (set_line s2 RECV_PLUS (p_code s2))).
  Proof.
    intros Hf Hd. destruct sp_ascii as (A1 & A2 & A3 & A4).
    unfold line_received.
    assert (Hs : forallb (fun c => code c <? 128) (stuff d) = true).
    { unfold stuff. destruct d as [|a r]; [reflexivity|]. destruct (Ascii.eqb a DOT); [|exact Hd].
      cbn [forallb]. now rewrite A4. }
    rewrite Hs.
    destruct s as [b f cd r i q e l w dd]. cbn in Hf. subst f.
    unfold ctl_table. cbn [try_trans f_from f_to f_match f_handle fstate_eqb p_fsm].
    assert (Hne : beqb (stuff d) [DOT] = false).
    { unfold stuff. destruct d as [|a r0]; [reflexivity|]. destruct (Ascii.eqb a DOT) eqn:E.
      - cbn [beqb]. now rewrite Ascii.eqb_refl.
      - cbn [beqb]. now rewrite E. }
    unfold eval_match at 1. rewrite Hne. unfold eval_match at 1. rewrite Hne.
    cbn [run_handler].
    assert (Hun : match stuff d with c :: t => if Ascii.eqb c DOT then t else stuff d | [] => stuff d end = d).
    { unfold stuff. destruct d as [|a r0]; [reflexivity|]. destruct (Ascii.eqb a DOT) eqn:E.
      - now rewrite Ascii.eqb_refl.
      - now rewrite E. }
    rewrite Hun. reflexivity.
  Qed.

  Lemma plus_end s : p_fsm s = RECV_PLUS ->
    line_received s [DOT] = ret (set_line s RECV (p_code s)).
  Proof.
    intros Hf. destruct sp_ascii as (A1 & A2 & A3 & A4).
    unfold line_received. cbn [forallb]. rewrite A4. cbn [andb].
    destruct s as [b f cd r i q e l w dd]. cbn in Hf. subst f.
    unfold ctl_table. cbn [try_trans f_from f_to f_match f_handle fstate_eqb p_fsm].
    unfold eval_match at 1. cbn [beqb]. rewrite Ascii.eqb_refl. cbn [andb run_handler].
    reflexivity.
  Qed.
End Lines.

(* ---- sequencing laws ---- *)
Lemma andthen_ret_l s f : andthen (ret s) f = f s.
Proof. unfold andthen, ret. destruct (f s) as [[s2 o2] ok2]. reflexivity. Qed.

Lemma andthen_ret_r r : andthen r ret = r.
Proof. unfold andthen, ret. destruct r as [[s o] ok]. destruct ok; [now rewrite app_nil_r|reflexivity]. Qed.

Lemma andthen_assoc r f g :
  andthen (andthen r f) g = andthen r (fun s => andthen (f s) g).
Proof.
  unfold andthen. destruct r as [[s o] ok]. destruct ok; [|reflexivity].
  destruct (f s) as [[s2 o2] ok2]. destruct ok2; [|reflexivity].
  destruct (g s2) as [[s3 o3] ok3]. now rewrite app_assoc.
Qed.

Lemma andthen_emit s o f :
  andthen (emit s o) f = let '(s2, o2, ok2) := f s in (s2, o ++ o2, ok2).
Proof. reflexivity. Qed.

Lemma andthen_ext r f g : (forall s, f s = g s) -> andthen r f = andthen r g.
Proof. intros H. unfold andthen. destruct r as [[s o] ok]. destruct ok; [now rewrite H|reflexivity]. Qed.

Section Items.
  Variable lbehs : list (N * lbeh).
  Notation lines_received := (lines_received lbehs).
  Notation line_received := (line_received lbehs).
  Notation broadcast := (broadcast lbehs).

  Lemma lines_received_app s l1 l2 :
    lines_received s (l1 ++ l2) = andthen (lines_received s l1) (fun s1 => lines_received s1 l2).
  Proof.
    revert s. induction l1 as [|l l1 IH]; intros s; cbn [app CtlProto.lines_received].
    - now rewrite andthen_ret_l.
    - destruct (p_disc s) eqn:D.
      + rewrite andthen_ret_l. destruct l2; cbn [CtlProto.lines_received]; [reflexivity|now rewrite D].
      + destruct (MAX_LENGTH <? nlen l).
        * rewrite andthen_emit. destruct l2; cbn [CtlProto.lines_received p_disc upd_buf]; now rewrite ?app_nil_r.
        * rewrite andthen_assoc. apply andthen_ext. intros s1. apply IH.
  Qed.

  Definition line_fits (l : bytes) : bool := negb (MAX_LENGTH <? nlen l).

  Lemma lines_received_one s l : p_disc s = false -> line_fits l = true ->
    lines_received s [l] = line_received s l.
  Proof.
    intros D F. cbn [CtlProto.lines_received]. rewrite D. unfold line_fits in F.
    destruct (MAX_LENGTH <? nlen l); [discriminate|]. apply andthen_ret_r.
  Qed.

  (* the per-line callback in force while an item with code c is being received *)
  Definition cb_of (s : pstate) (c : N) : option N :=
    if is_6xx c then None
    else match p_inflight s with
         | Some cm => if ccb (cl cm) then Some (cid (cl cm)) else None
         | None => None
         end.

  Lemma line_cb_acc s f c r : line_cb (upd_fsm s f (Some c) r) = cb_of s c.
  Proof. unfold line_cb, cb_of. cbn [p_inflight p_code upd_fsm]. destruct (is_6xx c); reflexivity. Qed.

  (* the accumulator after some text lines: response text when there is no callback, callback
     calls otherwise *)
  Definition acc_resp (cbo : option N) (r : bytes) (ls : list bytes) : bytes :=
    match cbo with Some _ => r | None => r ++ concat (map (fun l => l ++ [LF]) ls) end.
  Definition acc_obs (cbo : option N) (ls : list bytes) : list obs :=
    match cbo with Some id => concat (map (call_cb id) ls) | None => [] end.

  Lemma deliver_acc s f c r t :
    deliver (upd_fsm s f (Some c) r) t false =
    (upd_fsm s f (Some c) (acc_resp (cb_of s c) r [t]), acc_obs (cb_of s c) [t], true).
  Proof.
    unfold deliver. rewrite line_cb_acc. unfold acc_resp, acc_obs. destruct (cb_of s c).
    - unfold emit. cbn [concat map]. now rewrite app_nil_r.
    - unfold ret. cbn [upd_fsm p_fsm p_code p_resp concat map]. now rewrite app_nil_r.
  Qed.

  Lemma deliver_fresh s c t : p_resp s = [] ->
    deliver (set_line s IDLE (Some c)) t true =
    (upd_fsm s IDLE (Some c) (acc_resp (cb_of s c) [] [t]), acc_obs (cb_of s c) [t], true).
  Proof.
    intros R. unfold set_line. rewrite R. unfold deliver. rewrite line_cb_acc.
    unfold acc_resp, acc_obs. destruct (cb_of s c).
    - unfold emit. cbn [concat map]. now rewrite app_nil_r.
    - unfold ret. cbn [upd_fsm p_fsm p_code p_resp concat map]. now rewrite app_nil_r.
  Qed.

  Lemma acc_resp_app cbo r l1 l2 : acc_resp cbo (acc_resp cbo r l1) l2 = acc_resp cbo r (l1 ++ l2).
  Proof. unfold acc_resp. destruct cbo; [reflexivity|]. now rewrite map_app, concat_app, app_assoc. Qed.
  Lemma acc_obs_app cbo l1 l2 : acc_obs cbo l1 ++ acc_obs cbo l2 = acc_obs cbo (l1 ++ l2).
  Proof. unfold acc_obs. destruct cbo; [|reflexivity]. now rewrite map_app, concat_app. Qed.

  Lemma upd_fsm_idem s f c r f' c' r' : upd_fsm (upd_fsm s f c r) f' c' r' = upd_fsm s f' c' r'.
  Proof. reflexivity. Qed.
  Lemma cb_of_upd s f c0 r c : cb_of (upd_fsm s f c0 r) c = cb_of s c.
  Proof. reflexivity. Qed.

  (* data lines of one block, then the terminating "." *)
  Lemma run_data s c r ds : p_disc s = false -> forallb ascii7 ds = true ->
    forallb line_fits (map stuff ds ++ [[DOT]]) = true ->
    lines_received (upd_fsm s RECV_PLUS (Some c) r) (map stuff ds ++ [[DOT]]) =
    (upd_fsm s RECV (Some c) (acc_resp (cb_of s c) r ds), acc_obs (cb_of s c) ds, true).
  Proof.
    intros D. revert r. induction ds as [|d ds IH]; intros r Ha Hf.
    - cbn [map app]. rewrite lines_received_one; [|exact D|reflexivity].
      rewrite plus_end by reflexivity. unfold ret, set_line. cbn [upd_fsm p_code p_resp].
      unfold acc_resp, acc_obs. destruct (cb_of s c); cbn; now rewrite ?app_nil_r.
    - cbn [map app forallb] in *. apply andb_true_iff in Ha as [Ha1 Ha2]. apply andb_true_iff in Hf as [Hf1 Hf2].
      change (stuff d :: map stuff ds ++ [[DOT]]) with ([stuff d] ++ (map stuff ds ++ [[DOT]])).
      rewrite lines_received_app. rewrite lines_received_one by assumption.
      rewrite plus_data by (reflexivity || assumption).
      rewrite deliver_acc. unfold andthen at 2. unfold ret, set_line. cbn [upd_fsm p_code p_resp p_fsm].
      unfold andthen. rewrite upd_fsm_idem. rewrite app_nil_r.
      specialize (IH (acc_resp (cb_of s c) r [d]) Ha2 Hf2).
      rewrite IH. rewrite acc_resp_app. rewrite acc_obs_app. reflexivity.
  Qed.

  Definition wf_code (c : N) : Prop := 0 < c /\ c < 1000.
  Definition part_ascii (p : part) : bool :=
    match p with Mid t => ascii7 t | Data t ds => ascii7 t && forallb ascii7 ds end.

  (* one part, in the middle of a reply *)
  Lemma run_part s c r p : p_disc s = false -> wf_code c -> part_ascii p = true ->
    forallb line_fits (render_part c p) = true ->
    lines_received (upd_fsm s RECV (Some c) r) (render_part c p) =
    (upd_fsm s RECV (Some c) (acc_resp (cb_of s c) r (part_lines p)), acc_obs (cb_of s c) (part_lines p), true).
  Proof.
    intros D [Hc0 Hc] Ha Hf. destruct p as [t|t ds]; cbn [render_part part_lines part_ascii] in *.
    - cbn [forallb] in Hf. apply andb_true_iff in Hf as [Hf _].
      rewrite lines_received_one by assumption.
      rewrite recv_cont by (reflexivity || assumption).
      rewrite deliver_acc. unfold andthen, ret, set_line. cbn [upd_fsm p_code p_resp p_fsm].
      now rewrite app_nil_r.
    - apply andb_true_iff in Ha as [Ha1 Ha2]. cbn [forallb] in Hf. apply andb_true_iff in Hf as [Hf1 Hf2].
      change ((head3 c ++ PLUS :: t) :: map stuff ds ++ [[DOT]])
        with ([head3 c ++ PLUS :: t] ++ (map stuff ds ++ [[DOT]])).
      rewrite lines_received_app. rewrite lines_received_one by assumption.
      rewrite recv_plus by (reflexivity || assumption).
      rewrite deliver_acc. unfold andthen at 2. unfold ret, set_line. cbn [upd_fsm p_code p_resp p_fsm].
      unfold andthen. rewrite upd_fsm_idem, app_nil_r.
      rewrite run_data by assumption.
      rewrite acc_resp_app, acc_obs_app. reflexivity.
  Qed.

  Lemma run_parts s c r ps : p_disc s = false -> wf_code c -> forallb part_ascii ps = true ->
    forallb line_fits (concat (map (render_part c) ps)) = true ->
    lines_received (upd_fsm s RECV (Some c) r) (concat (map (render_part c) ps)) =
    (upd_fsm s RECV (Some c) (acc_resp (cb_of s c) r (concat (map part_lines ps))),
     acc_obs (cb_of s c) (concat (map part_lines ps)), true).
  Proof.
    intros D Hc. revert r. induction ps as [|p ps IH]; intros r Ha Hf; cbn [map concat] in *.
    - cbn [CtlProto.lines_received]. unfold ret. unfold acc_resp, acc_obs.
      destruct (cb_of s c); cbn; now rewrite ?app_nil_r.
    - cbn [forallb] in Ha. apply andb_true_iff in Ha as [Ha1 Ha2].
      rewrite forallb_app in Hf. apply andb_true_iff in Hf as [Hf1 Hf2].
      rewrite lines_received_app. rewrite run_part by assumption.
      unfold andthen. rewrite IH by assumption.
      now rewrite acc_resp_app, acc_obs_app.
  Qed.

  (* the first part of an item, from the resting state *)
  Definition at_rest (s : pstate) : Prop :=
    p_fsm s = IDLE /\ p_code s = None /\ p_resp s = [] /\ p_disc s = false.

  Lemma run_first_part s c p : at_rest s -> wf_code c -> part_ascii p = true ->
    forallb line_fits (render_part c p) = true ->
    lines_received s (render_part c p) =
    (upd_fsm s RECV (Some c) (acc_resp (cb_of s c) [] (part_lines p)), acc_obs (cb_of s c) (part_lines p), true).
  Proof.
    intros (Hf0 & Hc0 & Hr0 & D) [Hcp Hc] Ha Hf. destruct p as [t|t ds]; cbn [render_part part_lines part_ascii] in *.
    - cbn [forallb] in Hf. apply andb_true_iff in Hf as [Hf _].
      rewrite lines_received_one by assumption.
      rewrite idle_cont by assumption.
      rewrite deliver_fresh by assumption. unfold andthen, ret, set_line. cbn [upd_fsm p_code p_resp p_fsm].
      now rewrite app_nil_r.
    - apply andb_true_iff in Ha as [Ha1 Ha2]. cbn [forallb] in Hf. apply andb_true_iff in Hf as [Hf1 Hf2].
      change ((head3 c ++ PLUS :: t) :: map stuff ds ++ [[DOT]])
        with ([head3 c ++ PLUS :: t] ++ (map stuff ds ++ [[DOT]])).
      rewrite lines_received_app. rewrite lines_received_one by assumption.
      rewrite idle_plus by assumption.
      rewrite deliver_fresh by assumption. unfold andthen at 2. unfold ret, set_line. cbn [upd_fsm p_code p_resp p_fsm].
      unfold andthen. rewrite upd_fsm_idem, app_nil_r.
      rewrite run_data by (assumption || (split; assumption)).
      rewrite acc_resp_app, acc_obs_app. reflexivity.
  Qed.

  Definition item_ascii (i : item) : bool := forallb part_ascii (iparts i) && ascii7 (ifinal i).
  Definition item_fits (i : item) : bool := forallb line_fits (render_lines i).
  Definition body_lines (i : item) : list bytes := concat (map part_lines (iparts i)).

  (* all lines of an item but the last: the accumulator; then the last line is broadcast *)
  Theorem reads_item_lines s i : at_rest s -> wf_code (icode i) -> item_ascii i = true -> item_fits i = true ->
    lines_received s (render_lines i) =
    let c := icode i in
    let cbo := cb_of s c in
    let f := match iparts i with [] => IDLE | _ => RECV end in
    andthen (emit (upd_fsm s f (Some c) (acc_resp cbo [] (body_lines i))) (acc_obs cbo (body_lines i)))
      (fun s1 => andthen (broadcast s1 (head3 c ++ SP :: ifinal i))
                         (fun s2 => ret (set_line s2 IDLE (p_code s2)))).
  Proof.
    intros R Hc Ha Hf. pose proof R as (Hf0 & Hc0 & Hr0 & D). destruct Hc as [Hcp Hcl].
    unfold item_ascii in Ha. apply andb_true_iff in Ha as [Ha1 Ha2].
    unfold item_fits, render_lines in Hf. rewrite forallb_app in Hf. apply andb_true_iff in Hf as [Hf1 Hf2].
    cbn [forallb] in Hf2. apply andb_true_iff in Hf2 as [Hf2 _].
    unfold render_lines, body_lines. cbv zeta.
    destruct (iparts i) as [|p ps] eqn:Ep.
    - cbn [map concat app]. rewrite lines_received_one by assumption.
      rewrite idle_final by assumption.
      rewrite andthen_emit. unfold set_line at 1. rewrite Hr0.
      unfold acc_resp, acc_obs. destruct (cb_of s (icode i)); cbn [concat map app];
        destruct (andthen _ _) as [[s2 o2] ok2]; reflexivity.
    - cbn [map concat] in *. cbn [forallb] in Ha1. apply andb_true_iff in Ha1 as [Ha1 Ha1'].
      rewrite forallb_app in Hf1. apply andb_true_iff in Hf1 as [Hf1 Hf1'].
      rewrite <- app_assoc. rewrite lines_received_app.
      rewrite run_first_part by (assumption || (split; assumption)).
      unfold andthen at 1. rewrite lines_received_app.
      rewrite run_parts by (assumption || (split; assumption)).
      unfold andthen at 1. rewrite lines_received_one by assumption.
      rewrite recv_final by (reflexivity || assumption).
      rewrite acc_resp_app.
      rewrite andthen_emit.
      destruct (andthen _ _) as [[s2 o2] ok2]. now rewrite app_assoc, acc_obs_app.
  Qed.
End Items.
