(* lemmas about Lib/NList.v *)
From Coq Require Import List Bool Arith NArith Lia.
From TxVerif Require Import Lib.Bytes Lib.NList.
Import ListNotations.
Open Scope N_scope.

Lemma memN_In x l : memN x l = true <-> In x l.
Proof.
  induction l as [|y t IH]; cbn [memN In].
  - split; [discriminate | tauto].
  - rewrite orb_true_iff, IH, N.eqb_eq. split; intros [H|H]; auto.
Qed.

Lemma memN_false x l : memN x l = false <-> ~ In x l.
Proof. rewrite <- memN_In. destruct (memN x l); split; congruence. Qed.

Lemma countN_notin x l : ~ In x l -> countN x l = O.
Proof.
  induction l as [|y t IH]; cbn [countN In]; intros H; [reflexivity|].
  destruct (N.eqb_spec x y); [subst; tauto | apply IH; tauto].
Qed.

Lemma countN_pos_In x l : countN x l <> O -> In x l.
Proof.
  intros H. destruct (in_dec N.eq_dec x l) as [i|n]; [exact i|]. now rewrite countN_notin in H.
Qed.

Lemma countN_In_pos x l : In x l -> (1 <= countN x l)%nat.
Proof.
  induction l as [|y t IH]; cbn [countN In]; [tauto|].
  intros [->|H]; [rewrite N.eqb_refl; lia|].
  destruct (x =? y); [lia | auto].
Qed.

Lemma countN_app x a b : countN x (a ++ b) = (countN x a + countN x b)%nat.
Proof. induction a as [|y t IH]; cbn [countN app]; [reflexivity|]. destruct (x =? y); rewrite IH; lia. Qed.

Lemma nodupN_NoDup l : nodupN l = true <-> NoDup l.
Proof.
  induction l as [|x t IH]; cbn [nodupN].
  - split; [constructor | reflexivity].
  - rewrite andb_true_iff, negb_true_iff, memN_false, IH. split.
    + intros [A B]. now constructor.
    + intros H. inversion H; subst. auto.
Qed.

Lemma NoDup_count1 x l : NoDup l -> In x l -> countN x l = 1%nat.
Proof.
  induction 1 as [|y t Hn Hd IH]; cbn [countN In]; [tauto|].
  intros [->|H].
  - rewrite N.eqb_refl. now rewrite countN_notin.
  - destruct (N.eqb_spec x y); [subst; tauto | auto].
Qed.

Lemma remove1_In y x l : In y (remove1 x l) -> In y l.
Proof.
  induction l as [|z t IH]; cbn [remove1 In]; [tauto|].
  destruct (x =? z); cbn [In]; [auto | intros [H|H]; auto].
Qed.

Lemma remove1_In_other y x l : y <> x -> In y l -> In y (remove1 x l).
Proof.
  intros Hne. induction l as [|z t IH]; cbn [remove1 In]; [tauto|].
  destruct (N.eqb_spec x z).
  - subst. intros [H|H]; [congruence | exact H].
  - cbn [In]. intros [H|H]; auto.
Qed.

Lemma countN_remove1_same x l : countN x (remove1 x l) = pred (countN x l).
Proof.
  induction l as [|z t IH]; cbn [remove1 countN]; [reflexivity|].
  destruct (N.eqb_spec x z) as [E|E]; [reflexivity|].
  cbn [countN]. destruct (N.eqb_spec x z); [congruence | exact IH].
Qed.

Lemma countN_remove1_other y x l : y <> x -> countN y (remove1 x l) = countN y l.
Proof.
  intros Hne. induction l as [|z t IH]; cbn [remove1 countN]; [reflexivity|].
  destruct (N.eqb_spec x z) as [E|E].
  - subst. destruct (N.eqb_spec y z); [congruence | reflexivity].
  - cbn [countN]. now rewrite IH.
Qed.

Lemma remove1_notin x l : ~ In x l -> remove1 x l = l.
Proof.
  induction l as [|z t IH]; cbn [remove1 In]; [reflexivity|]. intros H.
  destruct (N.eqb_spec x z); [subst; tauto|]. f_equal. apply IH. tauto.
Qed.

Lemma NoDup_remove1 x l : NoDup l -> NoDup (remove1 x l).
Proof.
  induction 1 as [|y t Hn Hd IH]; cbn [remove1]; [constructor|].
  destruct (x =? y); [exact Hd|]. constructor; [|exact IH].
  intros H. apply Hn. eapply remove1_In; eauto.
Qed.

Lemma NoDup_remove1_notin x l : NoDup l -> ~ In x (remove1 x l).
Proof.
  induction 1 as [|y t Hn Hd IH]; cbn [remove1]; [tauto|].
  destruct (N.eqb_spec x y); [subst; exact Hn|]. cbn [In]. intros [H|H]; [congruence | tauto].
Qed.

Lemma prefixN_nil p : prefixN p [] = true -> p = [].
Proof. destruct p; [reflexivity | discriminate]. Qed.

Lemma sum_nat_app a b : sum_nat (a ++ b) = (sum_nat a + sum_nat b)%nat.
Proof. unfold sum_nat. induction a; cbn; [reflexivity | rewrite IHa; lia]. Qed.

Section Keyed.
  Context {A : Type} (key : A -> N).

  Lemma kfind_Some k l x : kfind key k l = Some x -> key x = k /\ In x l.
  Proof.
    induction l as [|y t IH]; cbn [kfind]; [discriminate|].
    destruct (N.eqb_spec (key y) k).
    - intros [= <-]. split; [assumption | now left].
    - intros H. destruct (IH H). split; [assumption | now right].
  Qed.

  Lemma kfind_None k l : kfind key k l = None <-> ~ In k (map key l).
  Proof.
    induction l as [|y t IH]; cbn [kfind map In]; [tauto|].
    destruct (N.eqb_spec (key y) k).
    - split; [discriminate | intros H; exfalso; apply H; now left].
    - rewrite IH. tauto.
  Qed.

  Lemma kfind_In_key k l : In k (map key l) -> exists x, kfind key k l = Some x.
  Proof.
    intros H. destruct (kfind key k l) eqn:E; [eauto|]. apply kfind_None in E. tauto.
  Qed.

  Lemma kfind_NoDup_In l x : NoDup (map key l) -> In x l -> kfind key (key x) l = Some x.
  Proof.
    induction l as [|y t IH]; cbn [kfind map In]; [tauto|].
    intros Hnd [->|Hin].
    - now rewrite N.eqb_refl.
    - inversion Hnd as [|? ? Hn Hd]; subst.
      destruct (N.eqb_spec (key y) (key x)) as [E|E].
      + exfalso. apply Hn. rewrite E. now apply in_map.
      + auto.
  Qed.

  Lemma kfind_app k l l' :
    kfind key k (l ++ l') = match kfind key k l with Some x => Some x | None => kfind key k l' end.
  Proof.
    induction l as [|y t IH]; cbn [kfind app]; [reflexivity|].
    destruct (key y =? k); [reflexivity | exact IH].
  Qed.

  Lemma kfind_kset k x l :
    kfind key k (kset key x l) = if key x =? k then Some x else kfind key k l.
  Proof.
    induction l as [|y t IH]; cbn [kset kfind].
    - reflexivity.
    - destruct (N.eqb_spec (key y) (key x)) as [E|E]; cbn [kfind].
      + rewrite E. destruct (key x =? k); reflexivity.
      + destruct (N.eqb_spec (key y) k) as [E2|E2].
        * destruct (N.eqb_spec (key x) k); [congruence | reflexivity].
        * exact IH.
  Qed.

  Lemma kset_in x l : In (key x) (map key l) -> map key (kset key x l) = map key l.
  Proof.
    induction l as [|y t IH]; cbn [kset map In]; [tauto|].
    destruct (N.eqb_spec (key y) (key x)) as [E|E]; cbn [map].
    - intros _. now rewrite E.
    - intros [H|H]; [congruence|]. now rewrite IH.
  Qed.

  Lemma kset_notin x l : ~ In (key x) (map key l) -> kset key x l = l ++ [x].
  Proof.
    induction l as [|y t IH]; cbn [kset map In app]; [reflexivity|]. intros H.
    destruct (N.eqb_spec (key y) (key x)); [tauto|]. f_equal. apply IH. tauto.
  Qed.

  Lemma kset_length_in x l : In (key x) (map key l) -> length (kset key x l) = length l.
  Proof. intros H. rewrite <- (map_length key), kset_in by exact H. now rewrite map_length. Qed.

  Lemma kdel_notin k l : ~ In k (map key l) -> kdel key k l = l.
  Proof.
    induction l as [|y t IH]; cbn [kdel map In]; [reflexivity|]. intros H.
    destruct (N.eqb_spec (key y) k); [tauto|]. f_equal. apply IH. tauto.
  Qed.

  Lemma map_key_kdel k l : map key (kdel key k l) = remove1 k (map key l).
  Proof.
    induction l as [|y t IH]; cbn [kdel map remove1]; [reflexivity|].
    rewrite (N.eqb_sym k (key y)). destruct (key y =? k); cbn [map]; [reflexivity | now rewrite IH].
  Qed.

  Lemma kdel_In x k l : In x (kdel key k l) -> In x l.
  Proof.
    induction l as [|y t IH]; cbn [kdel In]; [tauto|].
    destruct (key y =? k); cbn [In]; [auto | intros [H|H]; auto].
  Qed.

  Lemma kdel_In_other x k l : key x <> k -> In x l -> In x (kdel key k l).
  Proof.
    intros Hne. induction l as [|y t IH]; cbn [kdel In]; [tauto|].
    destruct (N.eqb_spec (key y) k).
    - intros [H|H]; [subst; congruence | exact H].
    - cbn [In]. intros [H|H]; auto.
  Qed.

  Lemma kfind_kdel_other k k' l : k <> k' -> kfind key k (kdel key k' l) = kfind key k l.
  Proof.
    intros Hne. induction l as [|y t IH]; cbn [kdel kfind]; [reflexivity|].
    destruct (N.eqb_spec (key y) k') as [E|E].
    - destruct (N.eqb_spec (key y) k); [congruence | reflexivity].
    - cbn [kfind]. now rewrite IH.
  Qed.

  Lemma kfind_kdel_same k l : NoDup (map key l) -> kfind key k (kdel key k l) = None.
  Proof.
    intros H. apply kfind_None. rewrite map_key_kdel. now apply NoDup_remove1_notin.
  Qed.

  Lemma kdel_length_in k l : In k (map key l) -> S (length (kdel key k l)) = length l.
  Proof.
    induction l as [|y t IH]; cbn [kdel map In length]; [tauto|].
    destruct (N.eqb_spec (key y) k); [reflexivity|]. intros [H|H]; [congruence|]. cbn [length]. now rewrite IH.
  Qed.
End Keyed.

(* two keys on the same list (a dict id -> object number, both columns without duplicates) *)
Lemma kfind_snd_kdel_fst (d : list (N * N)) id oid coid :
  NoDup (map fst d) -> In (id, oid) d -> coid <> oid ->
  kfind snd coid (kdel fst id d) = kfind snd coid d.
Proof.
  intros Hnd Hin Hne. induction d as [|[a b] t IH]; cbn [kdel kfind fst snd]; [reflexivity|].
  cbn [map fst] in Hnd. inversion Hnd as [|? ? Hn Hd]; subst.
  destruct (N.eqb_spec a id) as [E|E].
  - subst a. destruct Hin as [H|H].
    + injection H as ->. destruct (N.eqb_spec oid coid); [congruence | reflexivity].
    + exfalso. apply Hn. change id with (fst (id, oid)). now apply in_map.
  - cbn [kfind snd]. destruct (b =? coid); [reflexivity|].
    apply IH; [assumption|]. destruct Hin as [H|H]; [congruence | exact H].
Qed.

Section Keyed2.
  Context {A : Type} (key : A -> N).

  Lemma kset_In_inv x y l : In y (kset key x l) -> y = x \/ In y l.
  Proof.
    induction l as [|z t IH]; cbn [kset In].
    - intros [H|[]]; auto.
    - destruct (key z =? key x); cbn [In]; intros [H|H]; auto.
      destruct (IH H); auto.
  Qed.

  Lemma kset_In_new x l : In x (kset key x l).
  Proof.
    induction l as [|z t IH]; cbn [kset]; [now left|].
    destruct (key z =? key x); [now left | now right].
  Qed.

  Lemma kset_In_old x y l : In y l -> key y <> key x -> In y (kset key x l).
  Proof.
    intros Hin Hne. induction l as [|z t IH]; cbn [kset]; [destruct Hin|].
    destruct (N.eqb_spec (key z) (key x)) as [E|E]; destruct Hin as [H|H]; cbn [In]; subst; auto; congruence.
  Qed.

  Lemma kset_kset x y l : key x = key y -> kset key y (kset key x l) = kset key y l.
  Proof.
    intros E. induction l as [|z t IH]; cbn [kset].
    - rewrite E, N.eqb_refl. reflexivity.
    - rewrite E. destruct (N.eqb_spec (key z) (key y)) as [E2|E2]; cbn [kset].
      + now rewrite E, N.eqb_refl.
      + destruct (N.eqb_spec (key z) (key y)); [congruence|]. now rewrite IH.
  Qed.

  Lemma kdel_kset x l : kdel key (key x) (kset key x l) = kdel key (key x) l.
  Proof.
    induction l as [|z t IH]; cbn [kset kdel].
    - now rewrite N.eqb_refl.
    - destruct (N.eqb_spec (key z) (key x)) as [E|E]; cbn [kdel].
      + now rewrite N.eqb_refl.
      + destruct (N.eqb_spec (key z) (key x)); [congruence|]. now rewrite IH.
  Qed.

  Lemma kset_app_blank x b l : key b = key x -> ~ In (key x) (map key l) ->
    kset key x (l ++ [b]) = l ++ [x].
  Proof.
    intros E Hn. induction l as [|z t IH]; cbn [kset app map In] in *.
    - now rewrite E, N.eqb_refl.
    - destruct (N.eqb_spec (key z) (key x)); [tauto|]. f_equal. apply IH. tauto.
  Qed.

  Lemma kdel_app_last b l : ~ In (key b) (map key l) -> kdel key (key b) (l ++ [b]) = l.
  Proof.
    intros Hn. induction l as [|z t IH]; cbn [kdel app map In] in *.
    - now rewrite N.eqb_refl.
    - destruct (N.eqb_spec (key z) (key b)); [tauto|]. f_equal. apply IH. tauto.
  Qed.

  Lemma kfind_app_last k b l : ~ In k (map key l) -> kfind key k (l ++ [b]) = if key b =? k then Some b else None.
  Proof.
    intros Hn. rewrite kfind_app. apply kfind_None in Hn. rewrite Hn. reflexivity.
  Qed.
End Keyed2.

(* map over a dict and the keyed operations on the image *)
Section MapKeyed.
  Context {B : Type} (keyB : B -> N).

  Lemma map_kset_pointwise (d : list (N * N)) (f g : N * N -> B) id o X :
    NoDup (map fst d) -> In (id, o) d ->
    (forall p, In p d -> g p = if fst p =? id then X else f p) ->
    keyB X = id -> (forall p, keyB (f p) = fst p) ->
    map g d = kset keyB X (map f d).
  Proof.
    intros Hnd Hin Hg HX Hf. induction d as [|q t IH]; [destruct Hin|].
    cbn [map kset]. cbn [map] in Hnd. inversion Hnd as [|? ? Hn Hd]; subst.
    rewrite Hf, (Hg q (or_introl eq_refl)).
    destruct (N.eqb_spec (fst q) (keyB X)) as [E|E].
    - f_equal. apply map_ext_in. intros p Hp. rewrite (Hg p (or_intror Hp)).
      destruct (N.eqb_spec (fst p) (keyB X)) as [E2|E2]; [|reflexivity].
      exfalso. apply Hn. rewrite E, <- E2. now apply in_map.
    - f_equal. destruct Hin as [H|H]; [subst q; cbn in E; congruence|].
      apply IH; auto. intros p Hp. apply Hg. now right.
  Qed.

  Lemma map_kdel_pointwise (d : list (N * N)) (f g : N * N -> B) id :
    NoDup (map fst d) ->
    (forall p, In p d -> fst p <> id -> g p = f p) ->
    (forall p, keyB (f p) = fst p) ->
    map g (kdel fst id d) = kdel keyB id (map f d).
  Proof.
    intros Hnd Hg Hf. induction d as [|q t IH]; [reflexivity|].
    cbn [map] in Hnd. inversion Hnd as [|? ? Hn Hd]; subst.
    cbn [kdel map]. rewrite Hf. destruct (N.eqb_spec (fst q) id) as [E|E].
    - apply map_ext_in. intros p Hp. apply Hg; [now right|].
      intros E2. apply Hn. rewrite E, <- E2. now apply in_map.
    - cbn [map]. f_equal; [apply Hg; [now left | exact E]|]. apply IH; [exact Hd|]. intros p Hp. apply Hg. now right.
  Qed.
End MapKeyed.

Lemma NoDup_app_end {A} (l : list A) (x : A) : NoDup l -> ~ In x l -> NoDup (l ++ [x]).
Proof.
  intros H Hn. induction H as [|y t Hy Hd IH]; cbn [app].
  - constructor; [intros [] | constructor].
  - constructor.
    + intros Hi. apply in_app_or in Hi as [Hi|[Hi|[]]]; [tauto|]. subst. apply Hn. now left.
    + apply IH. intros Hi. apply Hn. now right.
Qed.

Section KdelMap.
  Context {A B : Type} (key : A -> N) (g : A -> B).
  Lemma kdel_map_In k l y : In y (map g (kdel key k l)) -> In y (map g l).
  Proof.
    intros H. apply in_map_iff in H as [x [E Hx]]. apply in_map_iff. exists x. split; [exact E|].
    eapply kdel_In; eauto.
  Qed.
  Lemma kdel_NoDup_map k l : NoDup (map g l) -> NoDup (map g (kdel key k l)).
  Proof.
    induction l as [|y t IH]; cbn [kdel map]; [constructor|]. intros H. inversion H as [|? ? Hn Hd]; subst.
    destruct (key y =? k); [exact Hd|]. cbn [map]. constructor; [|now apply IH].
    intros Hi. apply Hn. eapply kdel_map_In; eauto.
  Qed.
End KdelMap.

Lemma kdel_fst_snd_notin (d : list (N * N)) id oid :
  NoDup (map fst d) -> NoDup (map snd d) -> In (id, oid) d -> ~ In oid (map snd (kdel fst id d)).
Proof.
  intros Hf Hs Hin. induction d as [|[a b] t IH]; [destruct Hin|].
  cbn [map fst snd] in Hf, Hs. inversion Hf as [|? ? Hfn Hfd]; inversion Hs as [|? ? Hsn Hsd]; subst.
  cbn [kdel fst]. destruct (N.eqb_spec a id) as [E|E].
  - subst a. destruct Hin as [H|H].
    + injection H as ->. exact Hsn.
    + exfalso. apply Hfn. change id with (fst (id, oid)). now apply in_map.
  - destruct Hin as [H|H]; [congruence|]. cbn [map snd In]. intros [H2|H2].
    + subst b. apply Hsn. change oid with (snd (id, oid)). now apply in_map.
    + now apply IH.
Qed.

Lemma kfind_map {A B} (key : A -> N) (keyB : B -> N) (f : A -> B) k l :
  (forall p, keyB (f p) = key p) -> kfind keyB k (map f l) = option_map f (kfind key k l).
Proof.
  intros H. induction l as [|y t IH]; cbn [map kfind]; [reflexivity|].
  rewrite H. destruct (key y =? k); [reflexivity | exact IH].
Qed.

Lemma kset_In_inv_strong {A} (key : A -> N) x y l :
  NoDup (map key l) -> In y (kset key x l) -> y = x \/ (In y l /\ key y <> key x).
Proof.
  induction l as [|z t IH]; cbn [kset map In]; intros Hnd.
  - intros [H|[]]; auto.
  - inversion Hnd as [|? ? Hn Hd]; subst.
    destruct (N.eqb_spec (key z) (key x)) as [E|E]; cbn [In]; intros [H|H]; auto.
    + right. split; [now right|]. intros E2. apply Hn. rewrite E, <- E2. now apply in_map.
    + subst. right. split; [now left | exact E].
    + destruct (IH Hd H) as [->|[H1 H2]]; auto.
Qed.

Lemma kfind_map_in {A B} (key : A -> N) (keyB : B -> N) (f : A -> B) k l :
  (forall p, In p l -> keyB (f p) = key p) -> kfind keyB k (map f l) = option_map f (kfind key k l).
Proof.
  induction l as [|y t IH]; intros H; cbn [map kfind]; [reflexivity|].
  rewrite H by now left. destruct (key y =? k); [reflexivity|]. apply IH. intros p Hp. apply H. now right.
Qed.

Lemma NoDup_map_filter {A} (g : A -> N) (f : A -> bool) l : NoDup (map g l) -> NoDup (map g (filter f l)).
Proof.
  induction l as [|y t IH]; cbn [map filter]; [constructor|]. intros H. inversion H as [|? ? Hn Hd]; subst.
  destruct (f y); [|now apply IH]. cbn [map]. constructor; [|now apply IH].
  intros Hi. apply Hn. apply in_map_iff in Hi as [z [E Hz]]. apply filter_In in Hz as [Hz _].
  apply in_map_iff. eauto.
Qed.

Lemma listN_eqb_refl l : list_eqb N.eqb l l = true.
Proof. induction l; cbn; [reflexivity|]. now rewrite N.eqb_refl. Qed.
Lemma optN_eqb_refl o : option_eqb N.eqb o o = true.
Proof. destruct o; cbn; [apply N.eqb_refl | reflexivity]. Qed.
Lemma pairs_eqb_refl (l : list (N * N)) : list_eqb pair_eqb l l = true.
Proof. induction l as [|[a b] t IH]; cbn; [reflexivity|]. unfold pair_eqb; cbn. now rewrite !N.eqb_refl. Qed.

Lemma NoDup_of_count l : (forall x, In x l -> countN x l = 1%nat) -> NoDup l.
Proof.
  induction l as [|y t IH]; intros H; [constructor|]. constructor.
  - intros Hi. pose proof (H y (or_introl eq_refl)) as E. cbn [countN] in E. rewrite N.eqb_refl in E.
    pose proof (countN_In_pos _ _ Hi). lia.
  - apply IH. intros x Hx. pose proof (H x (or_intror Hx)) as E. cbn [countN] in E.
    destruct (x =? y); [|exact E]. pose proof (countN_In_pos _ _ Hx). lia.
Qed.

Lemma NoDup_app_intro {A} (a b : list A) : NoDup a -> NoDup b -> (forall x, In x b -> In x a -> False) -> NoDup (a ++ b).
Proof.
  intros Ha Hb Hd. induction Ha as [|x t Hn Ht IH]; cbn [app]; [exact Hb|].
  constructor.
  - intros Hi. apply in_app_or in Hi as [Hi|Hi]; [tauto|]. apply (Hd x Hi). now left.
  - apply IH. intros y Hy Hy'. apply (Hd y Hy). now right.
Qed.
