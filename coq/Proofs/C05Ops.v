(* C05 refinement, part 4: what one dataReceived / connectionLost does in each reachable state *)
From Coq Require Import String List Bool Ascii Arith NArith ZArith Lia.
From TxVerif Require Import Lib.Bytes Model.Struct Model.SocksTypes Gen.SocksTable Gen.SocksConsts
  Spec.Rfc1928 Spec.C06 Spec.C05 Model.SocksEnc Model.Socks Proofs.C05Proofs.
From TxVerif Require Import Proofs.C05Status Proofs.C05Parse.
Import ListNotations.
Open Scope N_scope.

Section Ops.
  Variable c : cfg.
  Variable req : bytes.
  Hypothesis Henc : encode (c_ty c) (c_target c) (c_port c) = Some req.

  Notation mk s b h f := {| st := s; buf := b; has_sender := h; fired := f |} (only parsing).

  Lemma after_parse_ok d : snd (after_parse c d) = true.
  Proof. unfold after_parse. destruct (parse_dec (c_ty c) d); reflexivity. Qed.

  Lemma recv_version_short b chunk : (length (b ++ chunk) < 2)%nat ->
    op_recv c (mk sent_version b false false) chunk = (mk sent_version (b ++ chunk) false false, [], true).
  Proof.
    intros H. unfold op_recv. cbn [buf set_buf st has_sender fired].
    destruct (b ++ chunk) as [|x [|y r]] eqn:E; cbn [length] in H; try lia; reflexivity.
  Qed.

  Lemma recv_version_selected b chunk v m rest :
    b ++ chunk = v :: m :: rest -> (code v =? 5) && (code m =? 0) = true ->
    op_recv c (mk sent_version b false false) chunk =
    (fst (fst (after_parse c rest)), EWrote req :: snd (fst (after_parse c rest)), true).
  Proof.
    intros E H. unfold op_recv. cbn [buf set_buf st has_sender fired]. rewrite E. unfold FUEL.
    change (fire c 12 ?s got_data ANone) with
      (outputs (output_body c (fire c 11)) (set_st s sent_version) [_parse_version_reply] ANone).
    cbn [outputs]. unfold output_body at 1. cbn [buf set_st st has_sender fired set_buf].
    apply andb_prop in H. destruct H as [Hv Hm]. rewrite Hv, Hm. cbn [andb orb].
    apply N.eqb_eq in Hm. rewrite Hm.
    change (fire c 11 ?s version_reply ?a) with
      (outputs (output_body c (fire c 10)) (set_st s sent_request) [_send_request] a).
    cbn [outputs]. unfold output_body at 1. rewrite Henc.
    unfold set_st, set_buf. cbn [st buf has_sender fired].
    unfold andthen at 3. unfold ret at 1. cbn [app].
    unfold andthen at 2. cbn [buf].
    assert (Hx : match rest with
                 | [] => ret (mk sent_request rest false false)
                 | _ :: _ => fire c 11 (mk sent_request rest false false) got_data ANone
                 end = after_parse c rest).
    { destruct rest as [|r0 rest']; [reflexivity|]. apply (got_data_sent_request c 8). }
    rewrite Hx. pose proof (after_parse_ok rest) as Hok.
    destruct (after_parse c rest) as [[s2 e2] ok2]. cbn [fst snd] in Hok |- *. subst ok2.
    unfold andthen, ret. rewrite app_nil_r. reflexivity.
  Qed.

  (* method 2 is accepted by the reply parser and refused by the assertion in _send_request *)
  Lemma recv_version_method2 b chunk v m rest :
    b ++ chunk = v :: m :: rest -> (code v =? 5) = true -> (code m =? 2) = true ->
    op_recv c (mk sent_version b false false) chunk =
    (mk abort rest false true, [ERaised K_Assert; ELoseConn; EDone generic], false).
  Proof.
    intros E Hv Hm. unfold op_recv. cbn [buf set_buf st has_sender fired]. rewrite E. unfold FUEL.
    change (fire c 12 ?s got_data ANone) with
      (outputs (output_body c (fire c 11)) (set_st s sent_version) [_parse_version_reply] ANone).
    cbn [outputs]. unfold output_body at 1. cbn [buf set_st st has_sender fired set_buf].
    rewrite Hv, Hm. rewrite orb_true_r. cbn [andb].
    apply N.eqb_eq in Hm. rewrite Hm. reflexivity.
  Qed.

  Lemma recv_version_refused b chunk v m rest :
    b ++ chunk = v :: m :: rest -> (code v =? 5) && ((code m =? 0) || (code m =? 2)) = false ->
    op_recv c (mk sent_version b false false) chunk =
    (mk abort rest false true, [ELoseConn; EDone generic], true).
  Proof.
    intros E H. unfold op_recv. cbn [buf set_buf st has_sender fired]. rewrite E. unfold FUEL.
    change (fire c 12 ?s got_data ANone) with
      (outputs (output_body c (fire c 11)) (set_st s sent_version) [_parse_version_reply] ANone).
    cbn [outputs]. unfold output_body at 1. cbn [buf set_st st has_sender fired set_buf].
    rewrite H. reflexivity.
  Qed.

  Lemma recv_request b chunk :
    op_recv c (mk sent_request b false false) chunk =
    (fst (fst (after_parse c (b ++ chunk))), snd (fst (after_parse c (b ++ chunk))), true).
  Proof.
    unfold op_recv, set_buf. cbn [buf st has_sender fired]. unfold FUEL.
    rewrite (got_data_sent_request c 9). pose proof (after_parse_ok (b ++ chunk)) as Hok.
    destruct (after_parse c (b ++ chunk)) as [[s2 e2] ok2]. cbn [fst snd] in Hok |- *. now subst ok2.
  Qed.

  Lemma recv_relaying chunk :
    op_recv c (mk relaying [] true true) chunk =
    (mk relaying [] true true, match chunk with [] => [] | _ => [EAppData chunk] end, true).
  Proof. destruct chunk; reflexivity. Qed.

  Lemma recv_abort b chunk :
    op_recv c (mk abort b false true) chunk = (mk abort (b ++ chunk) false true, [], true).
  Proof. reflexivity. Qed.

  Lemma recv_done b chunk :
    op_recv c (mk done b false true) chunk = (mk done (b ++ chunk) false true, [ERaised K_NoTransition], false).
  Proof. reflexivity. Qed.

  Lemma lose_version b : lose c (mk sent_version b false false) = (mk unconnected b false true, [ELoseConn; EDone generic], true).
  Proof. reflexivity. Qed.
  Lemma lose_request b : lose c (mk sent_request b false false) = (mk abort b false true, [ELoseConn; EDone generic], true).
  Proof. reflexivity. Qed.
  Lemma lose_relaying : lose c (mk relaying [] true true) = (mk done [] true true, [ELoseConn; EAppLost], true).
  Proof. reflexivity. Qed.
  Lemma lose_abort b : lose c (mk abort b false true) = (mk abort b false true, [], true).
  Proof. reflexivity. Qed.
  Lemma lose_done b : lose c (mk done b false true) = (mk done b false true, [], true).
  Proof. reflexivity. Qed.

  Lemma connected : op_connected c init = (mk sent_version [] false false, [EWrote greeting_noauth], true).
  Proof. reflexivity. Qed.
End Ops.
