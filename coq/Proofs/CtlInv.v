(* Invariants of the protocol model that do not depend on parsing: what can change the
   connection-lost flag, what happens to the queue after the loss, who may write. *)
From Coq Require Import List Bool Ascii Arith NArith ZArith Lia.
From TxVerif Require Import Lib.Bytes Spec.Ctl Model.CtlTypes Gen.CtlFsmTable Model.Framing Model.CtlProto
  Proofs.CtlParse.
Import ListNotations.
Open Scope N_scope.

Definition is_wrote (o : obs) : bool := match o with Wrote _ => true | _ => false end.
Definition no_wrote (os : list obs) : bool := forallb (fun o => negb (is_wrote o)) os.
Definition is_evcb (o : obs) : bool := match o with EventCb _ _ => true | _ => false end.

Lemma no_wrote_app a b : no_wrote (a ++ b) = no_wrote a && no_wrote b.
Proof. unfold no_wrote. apply forallb_app. Qed.

(* "quiet": the call keeps the lost flag, the waiters and all line-level fields; and once the
   connection is lost (nothing in flight, nothing queued) it keeps the queue empty and writes nothing *)
Definition idle_lost (s : pstate) : Prop := p_lost s = true /\ p_inflight s = None /\ p_queue s = [].

Definition quiet (s : pstate) (r : res) : Prop :=
  let '(s', o, _) := r in
  p_lost s' = p_lost s /\
  p_fsm s' = p_fsm s /\ p_code s' = p_code s /\ p_resp s' = p_resp s /\ p_buf s' = p_buf s /\ p_disc s' = p_disc s /\
  (idle_lost s -> idle_lost s' /\ no_wrote o = true).

Ltac qsolve := intuition (auto; try reflexivity).

Lemma quiet_ret s : quiet s (ret s).
Proof. unfold quiet, ret. qsolve. Qed.
Lemma quiet_raise s k : quiet s (raise s k).
Proof. unfold quiet, raise. qsolve. Qed.
Lemma quiet_oos s : quiet s (oos s).
Proof. unfold quiet, oos. qsolve. Qed.
Lemma quiet_emit s o : no_wrote o = true -> quiet s (emit s o).
Proof. intros N. unfold quiet, emit. qsolve. Qed.

Lemma quiet_andthen s r f : quiet s r -> (forall s1, quiet s1 (f s1)) -> quiet s (andthen r f).
Proof.
  unfold andthen. destruct r as [[s1 o1] ok]. intros Q Hf. destruct ok; [|exact Q].
  specialize (Hf s1). destruct (f s1) as [[s2 o2] ok2].
  unfold quiet in *. destruct Q as (A1 & A3 & A4 & A5 & A6 & A7 & A8).
  destruct Hf as (B1 & B3 & B4 & B5 & B6 & B7 & B8).
  do 6 (split; [congruence|]).
  intros H. destruct (A8 H) as [I1 N1]. destruct (B8 I1) as [I2 N2]. split; [exact I2|].
  rewrite no_wrote_app, N1, N2. reflexivity.
Qed.

(* same state up to the queue / event table *)
Lemma quiet_same s s0 r :
  p_lost s0 = p_lost s -> p_fsm s0 = p_fsm s -> p_code s0 = p_code s ->
  p_resp s0 = p_resp s -> p_buf s0 = p_buf s -> p_disc s0 = p_disc s ->
  (idle_lost s -> idle_lost s0) -> quiet s0 r -> quiet s r.
Proof.
  destruct r as [[s' o] ok]. unfold quiet. intros E1 E3 E4 E5 E6 E7 HI (A1 & A3 & A4 & A5 & A6 & A7 & A8).
  do 6 (split; [congruence|]).
  intros H. exact (A8 (HI H)).
Qed.

Lemma quiet_submit0 s c : quiet s (submit0 s c).
Proof.
  unfold submit0, submit. destruct (p_lost s) eqn:L.
  - destruct (p_inflight s) eqn:I; [apply quiet_oos|]. destruct (p_queue s) eqn:Q; [|apply quiet_oos].
    unfold resolve. apply quiet_andthen; [now apply quiet_emit|].
    intros s1. unfold no_script. destruct (cscript c); [apply quiet_ret|apply quiet_oos].
  - unfold maybe_issue. cbn [p_inflight upd_q p_queue p_lost].
    destruct (p_inflight s) eqn:I.
    + unfold quiet, ret, idle_lost. cbn. intuition (auto; try congruence).
    + destruct (p_queue s ++ [c]) eqn:Q.
      * unfold quiet, ret, idle_lost. cbn. intuition (auto; try congruence).
      * rewrite L. unfold quiet, emit, idle_lost. cbn. intuition (auto; try congruence).
Qed.

Lemma quiet_add s n l c : quiet s (add_listener submit0 s n l c).
Proof.
  unfold add_listener. destruct (find_ev (p_events s) n).
  - unfold quiet, ret, idle_lost. cbn. qsolve.
  - apply quiet_andthen.
    + eapply quiet_same; [| | | | | | |apply quiet_submit0]; auto.
    + intros s1. unfold quiet, ret, idle_lost. cbn. qsolve.
Qed.

Lemma quiet_rem s n l c : quiet s (rem_listener submit0 s n l c).
Proof.
  unfold rem_listener. destruct (find_ev (p_events s) n); [|apply quiet_raise].
  destruct (remove_first l l0) as [[|x l']|]; [| |apply quiet_raise].
  - eapply quiet_same; [| | | | | | |apply quiet_submit0]; auto.
  - unfold quiet, ret, idle_lost. cbn. qsolve.
Qed.

Lemma quiet_sop s o : quiet s (run_sop0 s o).
Proof. destruct o; cbn [run_sop0]; [apply quiet_submit0|apply quiet_add|apply quiet_rem]. Qed.

Lemma quiet_script s sc : quiet s (run_script1 s sc).
Proof.
  revert s. induction sc as [|o sc IH]; intros s; cbn [run_script1]; [apply quiet_ret|].
  apply quiet_andthen; [apply quiet_sop|exact IH].
Qed.

Lemma quiet_resolve1 s c o : quiet s (resolve1 s c o).
Proof.
  unfold resolve1, resolve. apply quiet_andthen; [now apply quiet_emit|]. intros s1. apply quiet_script.
Qed.

Lemma quiet_submit1 s c : quiet s (submit1 s c).
Proof.
  unfold submit1, submit. destruct (p_lost s) eqn:L.
  - destruct (p_inflight s) eqn:I; [apply quiet_oos|]. destruct (p_queue s) eqn:Q; [|apply quiet_oos].
    apply quiet_resolve1.
  - unfold maybe_issue. cbn [p_inflight upd_q p_queue p_lost].
    destruct (p_inflight s) eqn:I.
    + unfold quiet, ret, idle_lost. cbn. intuition (auto; try congruence).
    + destruct (p_queue s ++ [c]) eqn:Q.
      * unfold quiet, ret, idle_lost. cbn. intuition (auto; try congruence).
      * rewrite L. unfold quiet, emit, idle_lost. cbn. intuition (auto; try congruence).
Qed.

(* ---- the C03 statements ---- *)

(* after the loss every submission fails at once, exactly like this: *)
Lemma submit_after_loss s c : idle_lost s -> submit1 s c = resolve1 s c RDisc.
Proof. intros (L & I & Q). unfold submit1, submit. now rewrite L, I, Q. Qed.

Lemma resolve1_head s c o : exists s' os ok, resolve1 s c o = (s', Resolved (cid (cl c)) o :: os, ok).
Proof.
  unfold resolve1, resolve, andthen, emit. destruct (run_script1 s (cscript c)) as [[s' os] ok].
  now exists s', os, ok.
Qed.

Section Loss.
  Variable lbehs : list (N * lbeh).

  Lemma quiet_fail_all s cs : quiet s (fail_all s cs).
  Proof.
    revert s. induction cs as [|c cs IH]; intros s; cbn [fail_all]; [apply quiet_ret|].
    apply quiet_andthen; [apply quiet_resolve1|exact IH].
  Qed.

  (* the loss itself: afterwards nothing is in flight or queued, and nothing was written *)
  Lemma connection_lost_idle s :
    let '(s', o, _) := connection_lost s in idle_lost s' /\ no_wrote o = true.
  Proof.
    unfold connection_lost.
    set (out := match p_inflight s with Some c => c :: p_queue s | None => p_queue s end).
    set (s1 := upd_q (upd_lost s []) None []).
    assert (I1 : idle_lost s1) by (unfold idle_lost, s1; cbn; auto).
    assert (Q : quiet s1 (andthen (emit s1 (map DiscNotified (p_waiters s))) (fun s2 => fail_all s2 out))).
    { apply quiet_andthen; [|intros; apply quiet_fail_all].
      apply quiet_emit. unfold no_wrote. rewrite forallb_forall. intros x Hx.
      apply in_map_iff in Hx as (w & <- & _). reflexivity. }
    destruct (andthen _ _) as [[s' o] ok]. unfold quiet in Q.
    destruct Q as (_ & _ & _ & _ & _ & _ & Q). exact (Q I1).
  Qed.

  (* every outstanding command without a callback script fails exactly once, in order, after the
     disconnect observers were told *)
  Lemma connection_lost_plain s :
    forallb (fun c => match cscript c with [] => true | _ => false end)
            (match p_inflight s with Some c => c :: p_queue s | None => p_queue s end) = true ->
    let out := match p_inflight s with Some c => c :: p_queue s | None => p_queue s end in
    connection_lost s =
    (upd_q (upd_lost s []) None [],
     map DiscNotified (p_waiters s) ++ map (fun c => Resolved (cid (cl c)) RDisc) out, true).
  Proof.
    intros H. cbv zeta. unfold connection_lost.
    set (out := match p_inflight s with Some c => c :: p_queue s | None => p_queue s end) in *.
    set (s1 := upd_q (upd_lost s []) None []).
    assert (F : fail_all s1 out = (s1, map (fun c => Resolved (cid (cl c)) RDisc) out, true)).
    { clearbody s1. induction out as [|c cs IH]; [reflexivity|].
      cbn [forallb] in H. apply andb_true_iff in H as [H1 H2].
      cbn [fail_all map]. unfold resolve1, resolve. destruct (cscript c); [|discriminate].
      cbn [run_script1]. rewrite andthen_emit. unfold ret.
      unfold andthen. rewrite (IH H2). reflexivity. }
    rewrite andthen_emit. now rewrite F.
  Qed.
End Loss.

(* ---- whole histories after the loss ---- *)
Section AfterLoss.
  Variable lbehs : list (N * lbeh).

  Definition app_op (o : op) : bool :=     (* what the application can still do once the connection is gone *)
    match o with ORecv _ | OLose => false | _ => true end.

  Lemma quiet_step s o : app_op o = true -> quiet s (step lbehs s o).
  Proof.
    destruct o; cbn [app_op step]; intros H; try discriminate.
    - apply quiet_submit1.
    - apply quiet_add.
    - apply quiet_rem.
    - destruct (p_lost s) eqn:L.
      + now apply quiet_emit.
      + unfold quiet, ret, idle_lost. cbn. intuition (auto; try congruence).
  Qed.

  Theorem nothing_written_after_loss s ops : idle_lost s -> forallb app_op ops = true ->
    no_wrote (concat (run lbehs s ops)) = true.
  Proof.
    revert s. induction ops as [|o ops IH]; intros s I H; [reflexivity|].
    cbn [forallb] in H. apply andb_true_iff in H as [H1 H2].
    cbn [run]. pose proof (quiet_step s o H1) as Q.
    destruct (step lbehs s o) as [[s1 o1] ok]. unfold quiet in Q.
    destruct Q as (_ & _ & _ & _ & _ & _ & Q). destruct (Q I) as [I1 N1].
    destruct ok; cbn [concat].
    - rewrite no_wrote_app, N1. cbn [andb]. now apply IH.
    - now rewrite app_nil_r.
  Qed.
End AfterLoss.
