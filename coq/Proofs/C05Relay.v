(* C05: prompt relay.  Once relaying, every chunk is handed over whole and at once; a success reply
   that shares its segment with payload creates the application and hands the payload over in the
   same operation (nothing is withheld waiting for further input). *)
From Coq Require Import String List Bool Ascii Arith NArith Lia.
From TxVerif Require Import Lib.Bytes Model.Struct Model.SocksTypes Gen.SocksTable Gen.SocksConsts
  Spec.Rfc1928 Spec.C06 Spec.C05 Model.SocksEnc Model.Socks.
Import ListNotations.
Open Scope N_scope.

Section Relay.
  Variable c : cfg.

  Definition relaying_state : mstate := {| st := relaying; buf := []; has_sender := true; fired := true |}.

  (* in the relaying state with an empty buffer: exactly the chunk, immediately, state unchanged *)
  Lemma relaying_relays_chunk b bs :
    op_recv c relaying_state (b :: bs) = (relaying_state, [EAppData (b :: bs)], true).
  Proof. reflexivity. Qed.

  Lemma relaying_empty_chunk : op_recv c relaying_state [] = (relaying_state, [], true).
  Proof. reflexivity. Qed.

  (* waiting for the request reply, nothing buffered *)
  Definition awaiting_reply : mstate := {| st := sent_request; buf := []; has_sender := false; fired := false |}.

  Lemma nlen_ge_10 (a b cc d e f g h i j : ascii) (t : bytes) : (10 <=? nlen (a :: b :: cc :: d :: e :: f :: g :: h :: i :: j :: t)) = true.
  Proof. unfold nlen. cbn [length]. apply N.leb_le. lia. Qed.
  Lemma nlen_ge_8 (a b cc d e f g h : ascii) (t : bytes) : (nlen (a :: b :: cc :: d :: e :: f :: g :: h :: t) <? c_MIN_REPLY) = false.
  Proof. unfold nlen. cbn [length]. apply N.ltb_ge. change c_MIN_REPLY with 7. lia. Qed.

  (* the parser on a complete IPv4 success reply (CONNECT): consume 10 bytes, fire reply_ipv4 *)
  Lemma parse_ipv4_success rec s rsv a1 a2 a3 a4 p1 p2 payload a :
    c_ty c = RConnect ->
    buf s = ch 5 :: ch 0 :: rsv :: ch 1 :: a1 :: a2 :: a3 :: a4 :: p1 :: p2 :: payload ->
    output_body c rec s _parse_request_reply a = rec (set_buf s payload) reply_ipv4 AConn.
  Proof.
    intros Hty Hb. unfold output_body. rewrite Hb. rewrite nlen_ge_8, nlen_ge_10.
    replace (code (ch 5) =? 5) with true by reflexivity.
    replace (code (ch 0) =? c_SUCCEEDED) with true by reflexivity.
    replace (code (ch 1) =? c_REPLY_IPV4) with true by reflexivity.
    cbn [negb]. rewrite Hty. reflexivity.
  Qed.

  Lemma make_connection_relays rec s payload a :
    buf s = payload -> fired s = false ->
    output_body c rec s _make_connection a =
    ({| st := st s; buf := []; has_sender := true; fired := true |},
     [EAppCreated true; EDone RProto] ++ match payload with [] => [] | _ => [EAppData payload] end, true).
  Proof.
    intros Hb Hf. unfold output_body, fire_done. cbn [fired st buf has_sender]. rewrite Hf, Hb.
    destruct payload; reflexivity.
  Qed.

  (* CONNECT: an IPv4 success reply followed, in the same segment, by any payload *)
  Lemma success_reply_with_payload rsv a1 a2 a3 a4 p1 p2 payload :
    c_ty c = RConnect ->
    op_recv c awaiting_reply (ch 5 :: ch 0 :: rsv :: ch 1 :: a1 :: a2 :: a3 :: a4 :: p1 :: p2 :: payload) =
    (relaying_state,
     [EAppCreated true; EDone RProto] ++ match payload with [] => [] | _ => [EAppData payload] end, true).
  Proof.
    intros Hty. unfold op_recv, awaiting_reply. cbn [buf app set_buf st has_sender fired].
    unfold FUEL.
    change (fire c 12 ?s got_data ANone) with
      (outputs (output_body c (fire c 11)) (set_st s sent_request) [_parse_request_reply] ANone).
    cbn [outputs]. rewrite (parse_ipv4_success _ _ rsv a1 a2 a3 a4 p1 p2 payload) by (exact Hty || reflexivity).
    change (fire c 11 ?s reply_ipv4 AConn) with
      (outputs (output_body c (fire c 10)) (set_st s relaying) [_make_connection] AConn).
    cbn [outputs]. rewrite (make_connection_relays _ _ payload) by reflexivity.
    cbn [set_st set_buf st buf has_sender fired]. unfold andthen, ret.
    destruct payload; reflexivity.
  Qed.
End Relay.

(* C06: nothing is written in answer to a method-selection reply that does not select method 0 *)
Section Selection.
  Variable c : cfg.
  Definition awaiting_method : mstate := {| st := sent_version; buf := []; has_sender := false; fired := false |}.
  Definition no_write (es : list ev) : bool :=
    forallb (fun e => match e with EWrote _ => false | _ => true end) es.

  Lemma no_request_unless_selected v m rest :
    (code v =? 5) && (code m =? 0) = false ->
    let '(_, es, _) := op_recv c awaiting_method (v :: m :: rest) in no_write es = true.
  Proof.
    intros H. unfold op_recv, awaiting_method. cbn [buf app set_buf st has_sender fired].
    unfold FUEL.
    change (fire c 12 ?s got_data ANone) with
      (outputs (output_body c (fire c 11)) (set_st s sent_version) [_parse_version_reply] ANone).
    cbn [outputs]. unfold output_body at 1. cbn [buf set_st st has_sender fired set_buf].
    destruct (code v =? 5) eqn:Ev; cbn [andb] in H |- *.
    - rewrite H. cbn [orb]. destruct (code m =? 2) eqn:E2.
      + (* method 2: accepted by the parser, refused by the assertion in _send_request *)
        change (fire c 11 ?s version_reply ?a) with
          (outputs (output_body c (fire c 10)) (set_st s sent_request) [_send_request] a).
        cbn [outputs]. unfold output_body at 1.
        apply N.eqb_eq in E2. rewrite E2. cbn. reflexivity.
      + change (fire c 11 ?s version_error ?a) with
          (outputs (output_body c (fire c 10)) (set_st s abort) [_disconnect] a).
        cbn. reflexivity.
    - change (fire c 11 ?s version_error ?a) with
        (outputs (output_body c (fire c 10)) (set_st s abort) [_disconnect] a).
      cbn. reflexivity.
  Qed.
End Selection.
