(* C04 clauses, part 3: method preference, password only without a cookie, 32-byte cookie,
   proof only after the server hash was checked. *)
From Coq Require Import List Bool Ascii Arith NArith Lia String.
From TxVerif Require Import Lib.Bytes Lib.Hex Spec.C04 Spec.C04Oracle Gen.AuthConsts Model.Auth
  Proofs.C04Unescape Proofs.C04Parse Proofs.C04Auth Proofs.C04Sim Proofs.C04Sim2 Proofs.C04Sim4.
Import ListNotations.
Open Scope N_scope.

Lemma good_cookie_32 e c : good_cookie e = Some c -> nlen c = 32.
Proof.
  unfold good_cookie. destruct (cookie_advertised e); [|discriminate].
  destruct (pi_cookiefile (e_pi e)); [|discriminate].
  destruct (lookup _ _) as [| |d]; try discriminate.
  destruct (nlen d =? 32) eqn:E; [|discriminate]. intros [= <-]. now apply N.eqb_eq.
Qed.

(* what the model does when PROTOCOLINFO is answered, method by method (C04_preference) *)
Theorem preference e : wf e -> pi_auth (e_pi e) = true ->
  exists r, do_authenticate e = Some r /\
  match expected e with
  | Some MSafe => exists c, good_cookie e = Some c /\ r = (PhChal c, [chal_line e])
  | Some MCookie => exists c, good_cookie e = Some c /\ r = (PhAuth, [auth_line c])
  | Some MPassword => r = fail 1 0 /\ cookie_advertised e = true \/ r = pw_action e
  | Some MNull => r = fail 1 0 /\ cookie_advertised e = true
                  \/ r = (PhAuth, [line (bs "AUTHENTICATE")])
  | None => r = fail 1 0
  end.
Proof.
  intros Hwf Hauth. eexists. split; [apply do_authenticate_spec; assumption|].
  unfold authenticate_spec.
  destruct (expected e) as [[| | |]|] eqn:Eexp.
  - destruct (expected_cookie_good e _ Eexp (or_introl eq_refl)) as [c Egc]. rewrite Egc. eauto.
  - destruct (expected_cookie_good e _ Eexp (or_intror eq_refl)) as [c Egc]. rewrite Egc. eauto.
  - destruct (pw_gives_up e) eqn:Eg; [left; split; [reflexivity|now apply pw_gives_up_adv]|right; reflexivity].
  - destruct (cookie_advertised e); [left; auto|right; reflexivity].
  - reflexivity.
Qed.

(* the provider is consulted only when no cookie method is usable *)
Theorem password_only_without_cookie e r : wf e -> do_authenticate e = Some r ->
  In EPwCall (snd r) -> good_cookie e = None /\ expected e = Some MPassword.
Proof.
  intros Hwf Hr Hin.
  destruct (pi_auth (e_pi e)) eqn:Hauth.
  2:{ unfold do_authenticate in Hr. rewrite Hauth in Hr. injection Hr as <-.
      cbn in Hin. intuition discriminate. }
  rewrite (do_authenticate_spec e Hwf Hauth) in Hr. injection Hr as <-.
  unfold authenticate_spec in Hin.
  destruct (expected e) as [[| | |]|] eqn:Eexp.
  - destruct (good_cookie e); cbn in Hin; intuition discriminate.
  - destruct (good_cookie e); cbn in Hin; intuition discriminate.
  - split; [now apply expected_pw_nocookie|reflexivity].
  - destruct (cookie_advertised e); cbn in Hin; intuition discriminate.
  - cbn in Hin; intuition discriminate.
Qed.

(* a cookie leaves the client (raw, or as the key of the challenge) only if it has 32 bytes *)
Theorem cookie_is_32 e r : wf e -> do_authenticate e = Some r ->
  (forall c, fst r = PhChal c -> nlen c = 32) /\
  (forall c, good_cookie e = Some c -> In (auth_line c) (snd r) -> nlen c = 32) /\
  (fst r = PhAuth -> expected e = Some MCookie ->
   exists c, nlen c = 32 /\ snd r = [auth_line c] /\ good_cookie e = Some c).
Proof.
  intros Hwf Hr.
  split; [|split].
  - intros c Hc. destruct (pi_auth (e_pi e)) eqn:Hauth.
    2:{ unfold do_authenticate in Hr. rewrite Hauth in Hr. injection Hr as <-. discriminate. }
    rewrite (do_authenticate_spec e Hwf Hauth) in Hr. injection Hr as <-.
    unfold authenticate_spec in Hc.
    destruct (expected e) as [[| | |]|] eqn:Eexp.
    + destruct (good_cookie e) as [c'|] eqn:Egc; [|discriminate].
      injection Hc as <-. now apply (good_cookie_32 e).
    + destruct (good_cookie e); discriminate.
    + destruct (pw_gives_up e); [discriminate|]. unfold pw_action, do_password in Hc.
      destruct (e_provider e) as [| |pw|pw|pw|]; try destruct pw; discriminate.
    + destruct (cookie_advertised e); discriminate.
    + discriminate.
  - intros c Hgc _. now apply (good_cookie_32 e).
  - intros Hp Hexp. destruct (pi_auth (e_pi e)) eqn:Hauth.
    2:{ unfold do_authenticate in Hr. rewrite Hauth in Hr. injection Hr as <-. discriminate. }
    rewrite (do_authenticate_spec e Hwf Hauth) in Hr. injection Hr as <-.
    unfold authenticate_spec in *. rewrite Hexp in *.
    destruct (good_cookie e) as [c|] eqn:Egc; [|discriminate].
    exists c. split; [now apply (good_cookie_32 e)|split; reflexivity].
Qed.

(* SAFECOOKIE: the proof is written only in answer to a challenge reply whose hash passes the
   client's comparison against hmac(server key, cookie ++ client nonce ++ server nonce); every
   other answer writes nothing at all *)
Theorem proof_after_check hmac e ck o s' evs : wf e ->
  Auth.step hmac e {| ph := PhChal ck; lost := false |} o = Some (s', evs) ->
  forall b, In (EWrote b) evs ->
  exists ch ht nt sh sn,
    o = OOk (DChal ch) /\ ch_hash ch = Some ht /\ ch_nonce ch = Some nt /\
    b16decode ht = Some sh /\ b16decode nt = Some sn /\
    let msg := ck ++ e_nonce e ++ sn in
    hmac (e_cmpkey e) (hmac SERVER_KEY msg) = hmac (e_cmpkey e) sh /\
    evs = [proof_line (hmac CLIENT_KEY msg)].
Proof.
  intros Hwf Hs b Hin.
  destruct o as [d|c| |]; cbn [Auth.step ph lost in_flight orb negb] in Hs; try discriminate.
  - destruct d as [| |ch|k]; cbn [Auth.on_reply] in Hs;
      try (injection Hs as <- <-; cbn in Hin; intuition discriminate).
    unfold do_challenge in Hs. rewrite (nonce_firstn e Hwf) in Hs.
    change (bs server_key) with SERVER_KEY in Hs. change (bs client_key) with CLIENT_KEY in Hs.
    destruct (ch_hash ch) as [ht|] eqn:E1; [|injection Hs as <- <-; cbn in Hin; intuition discriminate].
    destruct (b16decode ht) as [sh|] eqn:E2; [|injection Hs as <- <-; cbn in Hin; intuition discriminate].
    destruct (ch_nonce ch) as [nt|] eqn:E3; [|injection Hs as <- <-; cbn in Hin; intuition discriminate].
    destruct (b16decode nt) as [sn|] eqn:E4; [|injection Hs as <- <-; cbn in Hin; intuition discriminate].
    match type of Hs with context[if ?x then _ else _] => destruct x eqn:E5 end;
      [|injection Hs as <- <-; cbn in Hin; intuition discriminate].
    injection Hs as <- <-. apply beqb_eq in E5.
    exists ch, ht, nt, sh, sn. repeat split; auto.
  - destruct (negb _); [discriminate|]. cbn [Auth.on_reply] in Hs. injection Hs as <- <-.
    cbn in Hin; intuition discriminate.
  - injection Hs as <- <-. cbn in Hin; intuition discriminate.
Qed.
