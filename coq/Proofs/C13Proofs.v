(* C13: parse_keywords on Tor's GETINFO / GETCONF replies (proofs) *)
From Coq Require Import List Bool Ascii Arith NArith ZArith Lia.
From TxVerif Require Import Lib.Bytes Spec.Ctl Spec.C13 Model.CtlProto Model.Keywords Proofs.CtlText Proofs.C13Lemmas.
Import ListNotations.
Open Scope N_scope.

Lemma beqb_sym a b : beqb a b = beqb b a.
Proof.
  destruct (beqb a b) eqn:E.
  - apply beqb_eq in E. subst. now rewrite beqb_refl.
  - destruct (beqb b a) eqn:E2; [|reflexivity]. apply beqb_eq in E2. subst. now rewrite beqb_refl in E.
Qed.

Lemma distinct_mid A k B : distinct (A ++ k :: B) = true ->
  existsb (beqb k) A = false /\ existsb (beqb k) B = false.
Proof.
  induction A as [|a A IH]; cbn [app distinct existsb].
  - intros H. apply andb_true_iff in H as [H _]. split; [reflexivity|]. now destruct (existsb (beqb k) B).
  - intros H. apply andb_true_iff in H as [H1 H2]. destruct (IH H2) as [I1 I2]. split; [|exact I2].
    rewrite I1, orb_false_r. rewrite existsb_app in H1. cbn [existsb] in H1.
    destruct (beqb a k) eqn:E; [now rewrite orb_true_r in H1|]. now rewrite beqb_sym.
Qed.

Lemma memb_false a k : (forall c, In c k -> Ascii.eqb a c = false) -> memb a k = false.
Proof.
  induction k as [|c k IH]; intros H; [reflexivity|]. cbn [memb].
  rewrite (H c (or_introl eq_refl)). cbn [orb]. apply IH. intros x Hx. apply H. now right.
Qed.

(* facts that follow from wf_key *)
Lemma wf_key_facts k : wf_key k = true ->
  k <> [] /\ no_eq k = true /\ memb SP k = false /\ strip k = k /\ no_lf k = true /\ beqb k OKs = false.
Proof.
  unfold wf_key. intros H. apply andb_true_iff in H as [H Hc]. apply andb_true_iff in H as [Hne Hok].
  assert (F : forall c, In c k -> Ascii.eqb c EQC = false /\ is_ws c = false).
  { rewrite forallb_forall in Hc. intros c Hin. specialize (Hc c Hin).
    apply andb_true_iff in Hc as [Hc _]. apply andb_true_iff in Hc as [H1 H2].
    split; [now destruct (Ascii.eqb c EQC)|now destruct (is_ws c)]. }
  split; [intros E; subst k; discriminate|].
  split; [unfold no_eq; rewrite forallb_forall; intros c Hin; now rewrite (proj1 (F c Hin))|].
  split.
  { apply memb_false. intros c Hin. destruct (Ascii.eqb SP c) eqn:E; [|reflexivity].
    apply Ascii.eqb_eq in E. subst c. destruct (F SP Hin) as [_ W]. vm_compute in W. discriminate. }
  split; [apply strip_nows; rewrite forallb_forall; intros c Hin; now rewrite (proj2 (F c Hin))|].
  split; [|now destruct (beqb k OKs)].
  unfold no_lf. rewrite forallb_forall. intros c Hin.
  destruct (Ascii.eqb c LF) eqn:E; [|reflexivity]. apply Ascii.eqb_eq in E. subst c.
  destruct (F LF Hin) as [_ W]. vm_compute in W. discriminate.
Qed.

Definition kvline (k v : bytes) : bytes := k ++ EQC :: v.

Lemma pk_step_kv hints s k v :
  wf_key k = true -> (match hints with [] => true | _ => existsb (beqb k) hints end) = true ->
  pk_step true hints s (kvline k v) =
  {| k_rtn := if truthy (k_key s)
              then match k_key s with Some k0 => store (k_rtn s) k0 (unquote (k_val s)) | None => k_rtn s end
              else k_rtn s;
     k_key := Some k; k_val := v |}.
Proof.
  intros Hk Hh. destruct (wf_key_facts k Hk) as (_ & Hne & Hsp & _).
  unfold pk_step, kvline. rewrite strip_with_eq_not_OK by (apply in_or_app; right; now left).
  rewrite split_eq_key by exact Hne. cbn [rev app]. rewrite Hsp, Hh. reflexivity.
Qed.

Definition sval (kv : bytes * bytes) : bytes * pval := (fst kv, PStr (snd kv)).

(* the fold over the remaining key=value lines, from a state that holds one pending pair *)
Lemma fold_kvs hints (kvs : list (bytes * bytes)) : forall rtn k0 v0,
  wf_key k0 = true -> quote_wrapped v0 = false ->
  forallb (fun kv => wf_key (fst kv) && negb (quote_wrapped (snd kv))
                     && (match hints with [] => true | _ => existsb (beqb (fst kv)) hints end)) kvs = true ->
  distinct (map fst rtn ++ k0 :: map fst kvs) = true ->
  pk_finish (fold_left (pk_step true hints) (map (fun kv => kvline (fst kv) (snd kv)) kvs)
                       {| k_rtn := rtn; k_key := Some k0; k_val := v0 |})
  = rtn ++ (k0, PStr v0) :: map sval kvs.
Proof.
  induction kvs as [|[k v] kvs IH]; intros rtn k0 v0 Hk0 Hq0 Hall Hd.
  - cbn [map fold_left]. unfold pk_finish. cbn [k_key k_rtn k_val].
    destruct (wf_key_facts k0 Hk0) as (Hne & _). destruct k0 as [|c k0']; [congruence|]. cbn [truthy].
    rewrite unquote_id by exact Hq0. cbn [map] in Hd. destruct (distinct_mid _ _ _ Hd) as [D1 _].
    now rewrite store_absent.
  - cbn [forallb fst snd] in Hall. apply andb_true_iff in Hall as [H1 Hall].
    apply andb_true_iff in H1 as [H1 Hh]. apply andb_true_iff in H1 as [Hk Hq].
    cbn [map fold_left fst snd]. rewrite pk_step_kv by assumption. cbn [k_key k_rtn k_val].
    destruct (wf_key_facts k0 Hk0) as (Hne & _). destruct k0 as [|c k0']; [congruence|]. cbn [truthy].
    rewrite unquote_id by exact Hq0. cbn [map] in Hd. destruct (distinct_mid _ _ _ Hd) as [D1 _].
    rewrite store_absent by exact D1.
    rewrite IH; try assumption.
    + now rewrite <- app_assoc.
    + now destruct (quote_wrapped v).
    + rewrite map_app. cbn [map fst]. rewrite <- app_assoc. exact Hd.
Qed.

Lemma parse_kv_lines hints (kvs : list (bytes * bytes)) : kvs <> [] ->
  forallb (fun kv => wf_key (fst kv) && negb (quote_wrapped (snd kv))
                     && (match hints with [] => true | _ => existsb (beqb (fst kv)) hints end)) kvs = true ->
  distinct (map fst kvs) = true ->
  parse_lines true hints (map (fun kv => kvline (fst kv) (snd kv)) kvs) = map sval kvs.
Proof.
  destruct kvs as [|[k v] kvs]; [congruence|]. intros _ Hall Hd.
  unfold parse_lines. cbn [map fold_left fst snd].
  cbn [forallb fst snd] in Hall. apply andb_true_iff in Hall as [H1 Hall].
  apply andb_true_iff in H1 as [H1 Hh]. apply andb_true_iff in H1 as [Hk Hq].
  rewrite pk_step_kv by assumption. cbn [k_key truthy k_rtn].
  rewrite (fold_kvs hints kvs [] k v); try assumption.
  - reflexivity.
  - now destruct (quote_wrapped v).
Qed.

(* ---- GETINFO with single-line values ---- *)
Definition singles (skvs : list (bytes * bytes)) : list (bytes * ival) :=
  map (fun kv => (fst kv, ISingle (snd kv))) skvs.

Lemma no_lf_kvline k v : wf_key k = true -> wf_text v = true -> no_lf (kvline k v) = true.
Proof.
  intros Hk Hv. destruct (wf_key_facts k Hk) as (_ & _ & _ & _ & Hl & _).
  unfold kvline, no_lf in *. rewrite forallb_app. rewrite Hl. cbn [forallb andb].
  replace (Ascii.eqb EQC LF) with false by (vm_compute; reflexivity). cbn [negb andb].
  exact (wf_text_no_lf v Hv).
Qed.

Lemma existsb_self k (ks : list bytes) : In k ks -> existsb (beqb k) ks = true.
Proof. intros H. apply existsb_exists. exists k. split; [exact H|apply beqb_refl]. Qed.

Lemma text_of_lines (ls : list bytes) : ls <> [] ->
  join [LF] (strip_suffix_OK (ls ++ [OKs])) = join [LF] ls.
Proof.
  destruct ls as [|l0 init]; [congruence|]. intros _. rewrite strip_suffix_snoc, beqb_refl. reflexivity.
Qed.

Theorem getinfo_singles_roundtrip (skvs : list (bytes * bytes)) :
  skvs <> [] ->
  forallb (fun kv => wf_key (fst kv) && wf_text (snd kv) && negb (quote_wrapped (snd kv))) skvs = true ->
  distinct (map fst skvs) = true ->
  model_obs (RGetInfo (singles skvs)) = OResult (expected (RGetInfo (singles skvs))).
Proof.
  intros Hne Hall Hd.
  set (lines := map (fun kv => kvline (fst kv) (snd kv)) skvs).
  assert (Hlines : item_lines (render_request (RGetInfo (singles skvs))) = lines ++ [OKs]).
  { unfold item_lines, render_request, singles. cbn [iparts ifinal]. f_equal.
    rewrite map_map. cbn [fst snd]. unfold lines. clear. induction skvs as [|[k v] r IH]; [reflexivity|].
    cbn [map concat part_lines fst snd]. rewrite IH. reflexivity. }
  assert (Htext : reply_text_ok (render_request (RGetInfo (singles skvs))) = join [LF] lines).
  { unfold reply_text_ok. rewrite Hlines. apply text_of_lines. unfold lines. destruct skvs; [congruence|discriminate]. }
  assert (Hkeys : map fst (singles skvs) = map fst skvs).
  { unfold singles. rewrite map_map. reflexivity. }
  assert (Hparse : parse_keywords (join [LF] lines) true (map fst skvs) = map sval skvs).
  { unfold parse_keywords. rewrite split_lf_join.
    - apply parse_kv_lines; [exact Hne| |exact Hd].
      rewrite forallb_forall in *. intros kv Hin. specialize (Hall kv Hin).
      apply andb_true_iff in Hall as [H1 H3]. apply andb_true_iff in H1 as [H1 H2].
      rewrite H1, H3. cbn [andb].
      destruct (map fst skvs) eqn:E; [reflexivity|]. rewrite <- E. apply existsb_self. now apply in_map.
    - unfold lines. destruct skvs; [congruence|discriminate].
    - unfold lines. rewrite forallb_forall. intros l Hl. apply in_map_iff in Hl as (kv & <- & Hin).
      rewrite forallb_forall in Hall. specialize (Hall kv Hin).
      apply andb_true_iff in Hall as [H1 _]. apply andb_true_iff in H1 as [H1 H2]. now apply no_lf_kvline. }
  assert (Hexp : expected (RGetInfo (singles skvs)) = map sval skvs).
  { unfold expected, singles. rewrite map_map. reflexivity. }
  rewrite Hexp. unfold model_obs. rewrite Htext.
  destruct skvs as [|[k1 v1] [|kv2 r]]; [congruence| |].
  - cbn [singles map fst snd]. unfold m_get_info. cbn [map fst]. f_equal. exact Hparse.
  - unfold m_get_info. rewrite Hkeys. cbn [singles map fst snd]. f_equal. exact Hparse.
Qed.

(* ---- GETCONF of one option ---- *)
Theorem getconf_unset key : wf_key key = true ->
  model_obs (RGetConf key None) = OResult (expected (RGetConf key None)).
Proof.
  intros Hk. destruct (wf_key_facts key Hk) as (Hne & Hnoeq & _ & Hstrip & Hl & Hok).
  unfold model_obs, m_get_conf_single. cbn [render_request expected].
  unfold reply_text_ok, item_lines. cbn [iparts ifinal map concat app strip_suffix_OK join].
  unfold parse_keywords. rewrite <- (app_nil_r key) at 1.
  unfold split_lf. rewrite split_lf_go_nolf by exact Hl. cbn [rev app].
  unfold parse_lines. cbn [fold_left]. unfold pk_step. rewrite Hstrip, Hok.
  rewrite split_eq_none by exact Hnoeq. cbn [k_key k_rtn dict_set]. unfold pk_finish. cbn [k_key truthy k_rtn].
  reflexivity.
Qed.

Lemma kvlines_same_key key (vs : list bytes) :
  map (fun kv => kvline (fst kv) (snd kv)) (map (fun v => (key, v)) vs) = map (kvline key) vs.
Proof. rewrite map_map. reflexivity. Qed.

(* all lines carry the same key: the values accumulate into a list, in order *)
Lemma fold_same_key key (vs : list bytes) : forall acc v0,
  wf_key key = true -> forallb (fun v => negb (quote_wrapped v)) (v0 :: vs) = true ->
  pk_finish (fold_left (pk_step true []) (map (kvline key) vs)
              {| k_rtn := match acc with [] => [] | [x] => [(key, PStr x)] | _ => [(key, PList acc)] end;
                 k_key := Some key; k_val := v0 |})
  = [(key, match acc ++ v0 :: vs with [x] => PStr x | l => PList l end)].
Proof.
  induction vs as [|v vs IH]; intros acc v0 Hk Hq.
  - cbn [map fold_left]. unfold pk_finish. cbn [k_key k_rtn k_val].
    destruct (wf_key_facts key Hk) as (Hne & _). destruct key as [|c key']; [congruence|]. cbn [truthy].
    cbn [forallb] in Hq. apply andb_true_iff in Hq as [Hq _].
    rewrite unquote_id by (now destruct (quote_wrapped v0)).
    destruct acc as [|a [|b acc']]; unfold store; cbn [dict_get dict_set app]; rewrite ?beqb_refl; cbn [app]; reflexivity.
  - cbn [map fold_left]. rewrite pk_step_kv by (exact Hk || reflexivity). cbn [k_key k_rtn k_val].
    destruct (wf_key_facts key Hk) as (Hne & _). destruct key as [|c key'] eqn:Ek; [congruence|]. cbn [truthy].
    rewrite <- Ek in *.
    cbn [forallb] in Hq. apply andb_true_iff in Hq as [Hq0 Hq].
    rewrite unquote_id by (now destruct (quote_wrapped v0)).
    specialize (IH (acc ++ [v0]) v Hk Hq).
    replace ((acc ++ [v0]) ++ v :: vs) with (acc ++ v0 :: v :: vs) in IH by (now rewrite <- app_assoc).
    rewrite <- IH. f_equal. f_equal.
    destruct acc as [|a [|b acc']]; unfold store; cbn [dict_get dict_set app]; rewrite ?beqb_refl; cbn [app]; reflexivity.
Qed.

Lemma strip_suffix_noOK (ls : list bytes) : (forall l, In l ls -> beqb l OKs = false) -> strip_suffix_OK ls = ls.
Proof.
  induction ls as [|x ls IH]; intros H; [reflexivity|].
  destruct ls as [|y [|z r]].
  - reflexivity.
  - cbn [strip_suffix_OK]. rewrite (H y); [reflexivity|]. right. now left.
  - change (strip_suffix_OK (x :: y :: z :: r)) with (x :: strip_suffix_OK (y :: z :: r)).
    rewrite IH; [reflexivity|]. intros l Hl. apply H. now right.
Qed.

Lemma map_snoc_last {A B} (f : A -> B) (d : A) (l : list A) : l <> [] ->
  map f l = map f (removelast l) ++ [f (last l d)].
Proof. intros H. rewrite (app_removelast_last d H) at 1. now rewrite map_app. Qed.

Theorem getconf_values key (vs : list bytes) : wf_key key = true -> vs <> [] ->
  forallb (fun v => wf_text v && negb (quote_wrapped v)) vs = true ->
  model_obs (RGetConf key (Some vs)) = OResult (expected (RGetConf key (Some vs))).
Proof.
  intros Hk Hne Hall.
  assert (Hlines : item_lines (render_request (RGetConf key (Some vs))) = map (kvline key) vs).
  { unfold item_lines, render_request. cbn [iparts ifinal]. rewrite map_map. cbn [part_lines].
    rewrite (map_snoc_last (kvline key) [] vs Hne). f_equal.
    clear. induction (removelast vs) as [|v r IH]; [reflexivity|]. cbn [map concat app]. now rewrite IH. }
  assert (Hnotok : forall l, In l (map (kvline key) vs) -> beqb l OKs = false).
  { intros l Hl. apply in_map_iff in Hl as (v & <- & _).
    destruct (beqb (kvline key v) OKs) eqn:E; [|reflexivity]. apply beqb_eq in E.
    assert (Hin : In EQC (kvline key v)) by (apply in_or_app; right; now left).
    rewrite E in Hin. cbn in Hin. exfalso. destruct Hin as [Hx|[Hx|[]]];
      apply (f_equal code) in Hx; vm_compute in Hx; discriminate. }
  assert (Hstrip : strip_suffix_OK (map (kvline key) vs) = map (kvline key) vs) by (now apply strip_suffix_noOK).
  unfold model_obs, m_get_conf_single, reply_text_ok. rewrite Hlines, Hstrip.
  unfold parse_keywords. rewrite split_lf_join.
  2:{ destruct vs; [congruence|discriminate]. }
  2:{ rewrite forallb_forall. intros l Hl. apply in_map_iff in Hl as (v & <- & Hin).
      rewrite forallb_forall in Hall. specialize (Hall v Hin). apply andb_true_iff in Hall as [H1 _].
      now apply no_lf_kvline. }
  destruct vs as [|v0 vs']; [congruence|].
  unfold parse_lines. cbn [map fold_left]. rewrite pk_step_kv by (exact Hk || reflexivity).
  cbn [k_key truthy k_rtn].
  assert (Hq : forallb (fun v => negb (quote_wrapped v)) (v0 :: vs') = true).
  { rewrite forallb_forall in *. intros v Hin. specialize (Hall v Hin). now apply andb_true_iff in Hall as [_ H]. }
  pose proof (fold_same_key key vs' [] v0 Hk Hq) as F. cbn [app] in F. rewrite F.
  cbn [expected]. destruct vs'; reflexivity.
Qed.

(* ---- GETINFO of one key with a multi-line value ---- *)
Definition own_key (k l : bytes) : bool :=
  match split_eq [] l with Some (k', _) => negb (memb SP k') && beqb k' k | None => false end.
Definition plain_line (k l : bytes) : bool := negb (beqb (strip l) OKs) && negb (own_key k l).

Lemma pk_step_data k s l : plain_line k l = true -> k_key s = Some k ->
  pk_step true [k] s l = {| k_rtn := k_rtn s; k_key := Some k; k_val := k_val s ++ LF :: l |}.
Proof.
  unfold plain_line, own_key. intros H Hk. apply andb_true_iff in H as [H1 H2].
  unfold pk_step. destruct (beqb (strip l) OKs); [discriminate|].
  destruct (split_eq [] l) as [[k' v']|].
  - cbn [existsb]. rewrite orb_false_r. destruct (negb (memb SP k') && beqb k' k); [discriminate|].
    rewrite Hk. reflexivity.
  - rewrite Hk. reflexivity.
Qed.

Lemma fold_data k (ls : list bytes) : forall rtn v0,
  forallb (plain_line k) ls = true ->
  fold_left (pk_step true [k]) ls {| k_rtn := rtn; k_key := Some k; k_val := v0 |}
  = {| k_rtn := rtn; k_key := Some k; k_val := v0 ++ concat (map (fun l => LF :: l) ls) |}.
Proof.
  induction ls as [|l ls IH]; intros rtn v0 H; cbn [fold_left map concat].
  - now rewrite app_nil_r.
  - cbn [forallb] in H. apply andb_true_iff in H as [H1 H2].
    rewrite pk_step_data by (exact H1 || reflexivity). cbn [k_rtn k_val].
    rewrite IH by exact H2. now rewrite <- app_assoc.
Qed.

Lemma join_tail (r : list bytes) : forall l, l ++ concat (map (fun x => LF :: x) r) = join [LF] (l :: r).
Proof.
  induction r as [|l2 r IH]; intros l; cbn [map concat].
  - cbn [join]. now rewrite app_nil_r.
  - rewrite join_cons2. cbn [app]. now rewrite <- IH.
Qed.

Lemma join_lead (ls : list bytes) : concat (map (fun l => LF :: l) ls) = join [LF] ([] :: ls).
Proof.
  destruct ls as [|l r]; [reflexivity|]. rewrite join_cons2. cbn [app map concat]. f_equal. apply join_tail.
Qed.

Theorem getinfo_multiline_intact k (ls : list bytes) :
  wf_key k = true -> forallb wf_text ls = true -> forallb (plain_line k) ls = true ->
  model_obs (RGetInfo [(k, IMulti ls)]) = OResult (expected (RGetInfo [(k, IMulti ls)])).
Proof.
  intros Hk Hwf Hpl. destruct (wf_key_facts k Hk) as (Hne & _ & _ & _ & Hl & _).
  assert (Hlines : item_lines (render_request (RGetInfo [(k, IMulti ls)])) = (kvline k [] :: ls) ++ [OKs]).
  { unfold item_lines, render_request. cbn [iparts ifinal map fst snd concat part_lines]. now rewrite app_nil_r. }
  unfold model_obs. unfold reply_text_ok. rewrite Hlines.
  rewrite strip_suffix_snoc, beqb_refl.
  unfold m_get_info_single, parse_keywords. rewrite split_lf_join.
  2:{ discriminate. }
  2:{ cbn [forallb]. rewrite no_lf_kvline by (exact Hk || reflexivity). cbn [andb].
      rewrite forallb_forall in *. intros l Hin. apply wf_text_no_lf. now apply Hwf. }
  unfold parse_lines. cbn [fold_left]. rewrite pk_step_kv; [|exact Hk|cbn [existsb]; now rewrite beqb_refl].
  cbn [k_key truthy k_rtn]. rewrite fold_data by exact Hpl. cbn [app].
  unfold pk_finish. cbn [k_key k_rtn k_val]. destruct k as [|c k'] eqn:Ek; [congruence|]. cbn [truthy]. rewrite <- Ek in *.
  rewrite join_lead.
  assert (Hu : unquote (join [LF] ([] :: ls)) = join [LF] ([] :: ls)).
  { apply unquote_id. destruct ls as [|l r]; [reflexivity|]. rewrite join_cons2. cbn [app].
    unfold quote_wrapped. destruct (rev (LF :: join [LF] (l :: r))); [reflexivity|].
    replace (Ascii.eqb LF DQ) with false by (vm_compute; reflexivity).
    replace (Ascii.eqb LF (ch 39)) with false by (vm_compute; reflexivity). reflexivity. }
  rewrite Hu. unfold store. cbn [dict_get dict_set]. rewrite beqb_refl. reflexivity.
Qed.

(* ---- the findings: the full statements fail on the faithful model ---- *)
Lemma quote_wrapped_refuted :
  exists r, wf_request r = true /\ oracle r (model_obs r) = false.
Proof. exists (RGetInfo [(map ch [107], ISingle (map ch [34; 120; 34]))]). split; vm_compute; reflexivity. Qed.

Lemma data_line_ok_refuted :
  exists r, wf_request r = true /\ oracle r (model_obs r) = false.
Proof. exists (RGetInfo [(map ch [107], IMulti [map ch [97]; map ch [79; 75]; map ch [98]])]). split; vm_compute; reflexivity. Qed.

Lemma data_line_own_key_refuted :
  exists r, wf_request r = true /\ oracle r (model_obs r) = false.
Proof. exists (RGetInfo [(map ch [107], IMulti [map ch [97]; map ch [107; 61; 98]])]). split; vm_compute; reflexivity. Qed.
