(* C16, state: TorState's relay indexes after any sequence of well-formed documents.
   Part 1: dictionaries, what _create_router does with one well-formed entry. *)
From Coq Require Import List Bool Ascii Arith NArith ZArith Lia String.
From TxVerif Require Import Lib.Bytes Spec.C16 Model.MicrodescTypes Gen.MicrodescTable Model.Microdesc
  Model.IdCodec Model.Consensus Proofs.C16Codec Proofs.C16Parse.
Import ListNotations.
Open Scope list_scope.
Open Scope nat_scope.

(* ---- dictionaries ---- *)
Lemma beqb_neq a b : a <> b -> beqb a b = false.
Proof. intros H. destruct (beqb a b) eqn:E; [apply beqb_eq in E; congruence|reflexivity]. Qed.

Lemma aget_aset_same {V} k (v : V) m : aget k (aset k v m) = Some v.
Proof.
  induction m as [|[k' v'] m IH]; cbn [aset aget].
  - now rewrite beqb_refl.
  - destruct (beqb k k') eqn:E; cbn [aget]; rewrite E; [reflexivity|exact IH].
Qed.

Lemma aget_aset_other {V} k k' (v : V) m : k <> k' -> aget k' (aset k v m) = aget k' m.
Proof.
  intros H. induction m as [|[k2 v2] m IH]; cbn [aset aget].
  - rewrite beqb_neq by congruence. reflexivity.
  - destruct (beqb k k2) eqn:E; cbn [aget].
    + apply beqb_eq in E. subst k2. rewrite (beqb_neq k' k) by congruence. reflexivity.
    + now rewrite IH.
Qed.

Lemma aget_none_keys {V} k (m : list (bytes * V)) : aget k m = None <-> ~ In k (keys m).
Proof.
  induction m as [|[k' v'] m IH]; cbn [aget keys map fst In].
  - tauto.
  - destruct (beqb k k') eqn:E.
    + apply beqb_eq in E. subst. split; [discriminate|tauto].
    + rewrite IH. unfold keys. split; [intros H [H1|H1]; [subst; rewrite beqb_refl in E; discriminate|tauto]|tauto].
Qed.

Lemma aget_some_keys {V} k (v : V) m : aget k m = Some v -> In k (keys m).
Proof.
  intros H. destruct (in_dec (list_eq_dec ascii_dec) k (keys m)) as [|N]; [assumption|].
  apply aget_none_keys in N. congruence.
Qed.

Lemma aset_absent {V} k (v : V) m : aget k m = None -> aset k v m = m ++ [(k, v)].
Proof.
  induction m as [|[k' v'] m IH]; cbn [aset aget app]; [reflexivity|].
  destruct (beqb k k'); [discriminate|]. intros H. now rewrite IH.
Qed.

Lemma keys_aset_in {V} k (v : V) m k0 : In k0 (keys (aset k v m)) -> k0 = k \/ In k0 (keys m).
Proof.
  induction m as [|[k' v'] m IH]; cbn [aset keys map fst In].
  - intros [H|[]]. now left.
  - destruct (beqb k k') eqn:E; cbn [map fst In].
    + tauto.
    + intros [H|H]; [tauto|]. apply IH in H. tauto.
Qed.

Lemma keys_aset_nodup {V} k (v : V) m : NoDup (keys m) -> NoDup (keys (aset k v m)).
Proof.
  induction m as [|[k' v'] m IH]; cbn [aset keys map fst]; intros H.
  - constructor; [intros []|constructor].
  - inversion H as [|? ? Hn Hd]; subst. destruct (beqb k k') eqn:E; cbn [map fst].
    + constructor; assumption.
    + constructor; [|now apply IH]. intros Hin. apply keys_aset_in in Hin as [Hin|Hin]; [|contradiction].
      subst. rewrite beqb_refl in E. discriminate.
Qed.

Lemma aget_app_l {V} k (m1 m2 : list (bytes * V)) v : aget k m1 = Some v -> aget k (m1 ++ m2) = Some v.
Proof.
  induction m1 as [|[k' v'] m1 IH]; cbn [aget app]; [discriminate|]. destruct (beqb k k'); auto.
Qed.

Lemma aget_app_r {V} k (m1 m2 : list (bytes * V)) : aget k m1 = None -> aget k (m1 ++ m2) = aget k m2.
Proof.
  induction m1 as [|[k' v'] m1 IH]; cbn [aget app]; [reflexivity|]. destruct (beqb k k'); [discriminate|auto].
Qed.

Lemma nodupb_NoDup l : nodupb l = true <-> NoDup l.
Proof.
  induction l as [|x l IH]; cbn [nodupb].
  - split; [constructor|reflexivity].
  - rewrite andb_true_iff, negb_true_iff, IH. split.
    + intros [H1 H2]. constructor; [|assumption]. intros Hin.
      assert (existsb (beqb x) l = true) by (apply existsb_exists; exists x; split; [assumption|apply beqb_refl]).
      congruence.
    + intros H. inversion H as [|? ? Hn Hd]; subst. split; [|assumption].
      destruct (existsb (beqb x) l) eqn:E; [|reflexivity].
      apply existsb_exists in E as [y [Hy E]]. apply beqb_eq in E. subst. contradiction.
Qed.

Lemma memn_In n l : memn n l = true <-> In n l.
Proof.
  unfold memn. rewrite existsb_exists. split.
  - intros [x [Hx E]]. apply Nat.eqb_eq in E. now subst.
  - intros H. exists n. split; [assumption|apply Nat.eqb_refl].
Qed.

Lemma nodupn_NoDup l : nodupn l = true <-> NoDup l.
Proof.
  induction l as [|x l IH]; cbn [nodupn].
  - split; [constructor|reflexivity].
  - rewrite andb_true_iff, negb_true_iff, IH. split.
    + intros [H1 H2]. constructor; [|assumption]. intros Hin. apply memn_In in Hin. congruence.
    + intros H. inversion H as [|? ? Hn Hd]; subst. split; [|assumption].
      destruct (memn x l) eqn:E; [|reflexivity]. apply memn_In in E. contradiction.
Qed.

Lemma same_set_refl l : same_set l l = true.
Proof.
  unfold same_set. rewrite Nat.eqb_refl. cbn [andb].
  assert (H : forallb (fun x => memn x l) l = true) by (apply forallb_forall; intros x Hx; now apply memn_In).
  now rewrite H.
Qed.

(* ---- heap ---- *)
Lemma set_nth_length {A} n (x : A) l : List.length (set_nth n x l) = List.length l.
Proof. revert n. induction l as [|y l IH]; intros [|n]; cbn; auto. Qed.

Lemma nth_set_nth_same {A} n (x : A) l : n < List.length l -> nth_error (set_nth n x l) n = Some x.
Proof.
  revert n. induction l as [|y l IH]; intros [|n] H; cbn in *; try lia; [reflexivity|]. apply IH. lia.
Qed.

Lemma nth_set_nth_other {A} n m (x : A) l : n <> m -> nth_error (set_nth n x l) m = nth_error l m.
Proof.
  revert n m. induction l as [|y l IH]; intros [|n] [|m] H; cbn; try reflexivity; try congruence.
  apply IH. congruence.
Qed.

(* ---- the cell a well-formed entry stands for ---- *)
Definition cell_of (e : entry) : cell :=
  {| c_name := e_nick e; c_idhash := identity_text (e_id e); c_idhex := hexid e; c_ip := e_ip e;
     c_orport := e_orport e; c_dirport := e_dirport e; c_v6 := e_v6 e; c_flags := map lower_b (e_flags e);
     c_bw := bw_of e; c_fromc := true |}.

Lemma lower_flags fl : map (map lower_m) fl = map lower_b fl.
Proof. reflexivity. Qed.

Lemma flag_guard f : flag_ok f = true -> beqb G_GUARD (lower_b f) = beqb F_GUARD f.
Proof.
  unfold flag_ok. intros H. apply andb_true_iff in H as [H _]. apply andb_true_iff in H as [_ H].
  apply orb_true_iff in H as [H|H].
  - apply negb_true_iff in H. change (lower_b F_GUARD) with G_GUARD in H.
    destruct (beqb G_GUARD (lower_b f)) eqn:E.
    + apply beqb_eq in E. rewrite <- E in H. rewrite beqb_refl in H. discriminate.
    + destruct (beqb F_GUARD f) eqn:E2; [|reflexivity]. apply beqb_eq in E2. subst f. discriminate.
  - apply beqb_eq in H. subst f. reflexivity.
Qed.

Lemma flag_authority f : flag_ok f = true -> beqb G_AUTHORITY (lower_b f) = beqb F_AUTHORITY f.
Proof.
  unfold flag_ok. intros H. apply andb_true_iff in H as [_ H].
  apply orb_true_iff in H as [H|H].
  - apply negb_true_iff in H. change (lower_b F_AUTHORITY) with G_AUTHORITY in H.
    destruct (beqb G_AUTHORITY (lower_b f)) eqn:E.
    + apply beqb_eq in E. rewrite <- E in H. rewrite beqb_refl in H. discriminate.
    + destruct (beqb F_AUTHORITY f) eqn:E2; [|reflexivity]. apply beqb_eq in E2. subst f. discriminate.
  - apply beqb_eq in H. subst f. reflexivity.
Qed.

Lemma wf_flags_ok e : wf_entry e = true -> forallb flag_ok (e_flags e) = true.
Proof.
  unfold wf_entry. intros H.
  repeat match type of H with (_ && _) = true => let H' := fresh "W" in apply andb_true_iff in H as [H H'] end.
  assumption.
Qed.

Lemma memb_guard e : wf_entry e = true -> memb_l G_GUARD (map lower_b (e_flags e)) = has_flag F_GUARD e.
Proof.
  intros W. apply wf_flags_ok in W. unfold memb_l, has_flag.
  induction (e_flags e) as [|f fl IH]; [reflexivity|].
  cbn [forallb] in W. apply andb_true_iff in W as [Wf Wl].
  cbn [map existsb]. rewrite flag_guard by assumption. now rewrite IH.
Qed.

Lemma memb_authority e : wf_entry e = true -> memb_l G_AUTHORITY (map lower_b (e_flags e)) = has_flag F_AUTHORITY e.
Proof.
  intros W. apply wf_flags_ok in W. unfold memb_l, has_flag.
  induction (e_flags e) as [|f fl IH]; [reflexivity|].
  cbn [forallb] in W. apply andb_true_iff in W as [Wf Wl].
  cbn [map existsb]. rewrite flag_authority by assumption. now rewrite IH.
Qed.

Lemma wf_id_len e : wf_entry e = true -> List.length (e_id e) = 20.
Proof.
  unfold wf_entry. intros H.
  repeat match type of H with (_ && _) = true => let H' := fresh "W" in apply andb_true_iff in H as [H H'] end.
  now apply Nat.eqb_eq.
Qed.

Lemma wf_bw_digits e : wf_entry e = true -> match e_bw e with Some d => all_digits d = true | None => True end.
Proof.
  unfold wf_entry. intros H.
  repeat match type of H with (_ && _) = true => let H' := fresh "W" in apply andb_true_iff in H as [H H'] end.
  destruct (e_bw e); [|exact I]. exact W2.
Qed.

Lemma wf_nick e : wf_entry e = true ->
  e_nick e <> [] /\ forallb is_alnum (e_nick e) = true /\ List.length (e_nick e) <= 19.
Proof.
  unfold wf_entry. intros H.
  repeat match type of H with (_ && _) = true => let H' := fresh "W" in apply andb_true_iff in H as [H H'] end.
  repeat split; try assumption.
  - destruct (e_nick e); [discriminate|congruence].
  - now apply Nat.leb_le.
Qed.

(* a fingerprint is never a nickname *)
Lemma nick_not_fp e x : wf_entry e = true -> e_nick e <> fingerprint x.
Proof.
  intros W E. destruct (wf_nick e W) as [_ [H _]]. rewrite E in H. discriminate.
Qed.

Lemma hexid_inj e1 e2 : hexid e1 = hexid e2 -> e_id e1 = e_id e2.
Proof. apply fingerprint_inj. Qed.

(* _create_router on the keyword record of a well-formed entry *)
Definition created (st : tstate) (e : entry) (n : nat) : tstate :=
  let id_hex := hexid e in
  let c := cell_of e in
  let found := aget id_hex (old_routers st) in
  let r1 := aset id_hex (Some n) (routers st) in
  let r2 := if ahas (e_nick e) r1 then aset (e_nick e) None r1 else aset (e_nick e) (Some n) r1 in
  {| heap := match found with Some (Some _) => set_nth n c (heap st) | _ => heap st ++ [c] end;
     routers := aset id_hex (Some n) r2; old_routers := old_routers st;
     all_routers := if memn n (all_routers st) then all_routers st else all_routers st ++ [n];
     by_hash := aset id_hex n (by_hash st);
     by_name := match aget (e_nick e) (by_name st) with
                | Some l => aset (e_nick e) (l ++ [n]) (by_name st)
                | None => aset (e_nick e) [n] (by_name st)
                end;
     guards := if has_flag F_GUARD e then aset id_hex n (guards st) else guards st;
     auths := if has_flag F_AUTHORITY e then aset (e_nick e) n (auths st) else auths st;
     parser := parser st |}.

Definition num_for (st : tstate) (e : entry) : nat :=
  match aget (hexid e) (old_routers st) with Some (Some n) => n | _ => List.length (heap st) end.

Lemma create_router_wf st e : wf_entry e = true -> aget (hexid e) (old_routers st) <> Some None ->
  create_router st (kw_of e) = Some (created st e (num_for st e)).
Proof.
  intros W Hn. unfold create_router, kw_of. cbn [k_idhash k_nick k_ip k_orport k_dirport k_flags k_v6 k_bw].
  rewrite hexIdFromHash_identity by now apply wf_id_len.
  change (fingerprint (e_id e)) with (hexid e).
  pose proof (wf_bw_digits e W) as Hbw.
  assert (Hok : match e_bw e with Some d => all_digits d | None => true end = true) by (destruct (e_bw e); auto).
  unfold created, num_for.
  destruct (aget (hexid e) (old_routers st)) as [[m|]|] eqn:Eo; [|congruence|];
    rewrite Hok; cbn [negb]; rewrite lower_flags, memb_guard, memb_authority by assumption;
    f_equal; f_equal; unfold cell_of, bw_of; f_equal; destruct (e_v6 e); reflexivity.
Qed.

(* ================================================================ Part 2: the invariant *)
Notation ent := (entry * nat)%type (only parsing).
Definition hk (x : ent) : bytes * nat := (hexid (fst x), snd x).
Definition nk (x : ent) : bytes * nat := (e_nick (fst x), snd x).
Definition isg (x : ent) : bool := has_flag F_GUARD (fst x).
Definition isa (x : ent) : bool := has_flag F_AUTHORITY (fst x).
Definition samen (e : entry) (x : ent) : bool := beqb (e_nick (fst x)) (e_nick e).
Definition idof (x : ent) : bytes := e_id (fst x).

(* what the previous `routers` dict (now _old_routers) must satisfy *)
Record Ocond (O : list (bytes * option nat)) (h0 : nat) : Prop := {
  oc_lt : forall k m, aget k O = Some (Some m) -> m < h0;
  oc_inj : forall d1 d2 m, aget (fingerprint d1) O = Some (Some m) -> aget (fingerprint d2) O = Some (Some m) -> d1 = d2;
  oc_some : forall d, aget (fingerprint d) O <> Some None }.

Record Inv (cl : bool) (O : list (bytes * option nat)) (h0 : nat) (st : tstate) (pn : list ent) : Prop := {
  i_old : old_routers st = O;
  i_wf : forall x, In x pn -> wf_entry (fst x) = true;
  i_ids : NoDup (map idof pn);
  i_byhash : by_hash st = map hk pn;
  i_all : all_routers st = map snd pn;
  i_guards : guards st = map hk (filter isg pn);
  i_auths : auths st = map nk (filter isa pn);
  i_heap : forall e n, In (e, n) pn -> nth_error (heap st) n = Some (cell_of e);
  i_nodup : NoDup (map snd pn);
  i_lt : forall e n, In (e, n) pn -> n < List.length (heap st);
  i_hlen : h0 <= List.length (heap st);
  i_reuse : forall e n, In (e, n) pn ->
            match aget (hexid e) O with Some (Some m) => n = m | _ => h0 <= n end;
  i_rnodup : NoDup (keys (routers st));
  i_rkeys : forall k, In k (keys (routers st)) -> exists x, In x pn /\ (k = hexid (fst x) \/ k = e_nick (fst x));
  i_rid : forall e n, In (e, n) pn -> aget (hexid e) (routers st) = Some (Some n);
  i_rnick : forall e n, In (e, n) pn ->
            aget (e_nick e) (routers st) = if nick_unique e (map fst pn) then Some (Some n)
                                            else if cl then None else Some None;
  i_bnodup : NoDup (keys (by_name st));
  i_bnkeys : forall k, In k (keys (by_name st)) -> exists x, In x pn /\ k = e_nick (fst x);
  i_bn : forall e n, In (e, n) pn -> aget (e_nick e) (by_name st) = Some (map snd (filter (samen e) pn)) }.

Lemma NoDup_snoc {A} (l : list A) x : NoDup l -> ~ In x l -> NoDup (l ++ [x]).
Proof.
  induction l as [|a l IH]; intros Hd Hn; cbn [app].
  - constructor; [intros []|constructor].
  - inversion Hd; subst. constructor.
    + rewrite in_app_iff. cbn [In]. intros [H|[H|[]]]; [contradiction|]. subst. apply Hn. now left.
    + apply IH; [assumption|]. intros H. apply Hn. now right.
Qed.

Lemma filter_snoc {A} (f : A -> bool) l x : filter f (l ++ [x]) = filter f l ++ (if f x then [x] else []).
Proof. rewrite filter_app. cbn [filter]. destruct (f x); reflexivity. Qed.

Lemma keys_map_hk l : keys (map hk l) = map (fun x => hexid (fst x)) l.
Proof. unfold keys. rewrite map_map. reflexivity. Qed.
Lemma keys_map_nk l : keys (map nk l) = map (fun x => e_nick (fst x)) l.
Proof. unfold keys. rewrite map_map. reflexivity. Qed.

Lemma hexid_not_in (pn : list ent) e : ~ In (e_id e) (map idof pn) -> ~ In (hexid e) (map (fun x => hexid (fst x)) pn).
Proof.
  intros H Hin. apply in_map_iff in Hin as [x [E Hx]]. apply hexid_inj in E.
  apply H. apply in_map_iff. exists x. split; [exact E|assumption].
Qed.

Lemma in_filter_sub {A} (f : A -> bool) l x : In x (filter f l) -> In x l.
Proof. intros H. now apply filter_In in H as [H _]. Qed.

(* nickname bookkeeping *)
Lemma same_nick_snoc e1 l e : same_nick e1 (l ++ [e]) = same_nick e1 l ++ (if beqb (e_nick e) (e_nick e1) then [e] else []).
Proof. unfold same_nick. rewrite filter_snoc. reflexivity. Qed.

Lemma same_nick_self e l : In e l -> In e (same_nick e l).
Proof. intros H. unfold same_nick. apply filter_In. split; [assumption|apply beqb_refl]. Qed.

Lemma same_nick_none e (pn : list ent) : existsb (samen e) pn = false -> same_nick e (map fst pn) = [].
Proof.
  intros H. unfold same_nick. induction pn as [|x pn IH]; [reflexivity|].
  cbn [existsb] in H. apply orb_false_iff in H as [H1 H2]. cbn [map filter].
  unfold samen in H1. rewrite H1. now apply IH.
Qed.

Lemma filter_samen_none e (pn : list ent) : existsb (samen e) pn = false -> filter (samen e) pn = [].
Proof.
  intros H. induction pn as [|x pn IH]; [reflexivity|].
  cbn [existsb] in H. apply orb_false_iff in H as [H1 H2]. cbn [filter]. rewrite H1. now apply IH.
Qed.

Lemma samen_ext e e1 : e_nick e = e_nick e1 -> forall pn : list ent, filter (samen e) pn = filter (samen e1) pn.
Proof. intros E pn. apply filter_ext. intros x. unfold samen. now rewrite E. Qed.

Section Step.
  Variables (O : list (bytes * option nat)) (h0 : nat) (st : tstate) (pn : list ent) (e : entry).
  Hypothesis HO : Ocond O h0.
  Hypothesis HI : Inv false O h0 st pn.
  Hypothesis We : wf_entry e = true.
  Hypothesis Hid : ~ In (e_id e) (map idof pn).
  Hypothesis Hauth : has_flag F_AUTHORITY e = true -> ~ In (e_nick e) (map (fun x => e_nick (fst x)) (filter isa pn)).

  Let n' := num_for st e.

  Lemma step_not_none : aget (hexid e) (old_routers st) <> Some None.
  Proof. rewrite (i_old _ _ _ _ _ HI). apply (oc_some _ _ HO). Qed.

  Lemma step_fresh : ~ In n' (map snd pn).
  Proof.
    intros Hin. apply in_map_iff in Hin as [[e1 n1] [E Hx]]. cbn [snd] in E. subst n1.
    pose proof (i_reuse _ _ _ _ _ HI e1 n' Hx) as R1. pose proof (i_lt _ _ _ _ _ HI e1 n' Hx) as L1.
    unfold n', num_for in *. rewrite (i_old _ _ _ _ _ HI) in *.
    destruct (aget (hexid e) O) as [[m|]|] eqn:Eo; try lia.
    pose proof (oc_lt _ _ HO _ _ Eo) as Lm.
    destruct (aget (hexid e1) O) as [[m1|]|] eqn:Eo1; try lia.
    subst m1. unfold hexid in Eo, Eo1. pose proof (oc_inj _ _ HO _ _ _ Eo1 Eo) as E.
    apply Hid. apply in_map_iff. exists (e1, m). split; [exact E|assumption].
  Qed.

  Lemma step_lt : n' < List.length (heap (created st e n')).
  Proof.
    unfold created, n', num_for. cbn [heap]. pose proof (i_hlen _ _ _ _ _ HI). rewrite (i_old _ _ _ _ _ HI).
    destruct (aget (hexid e) O) as [[m|]|] eqn:Eo.
    - rewrite set_nth_length. pose proof (oc_lt _ _ HO _ _ Eo). lia.
    - rewrite app_length. cbn. lia.
    - rewrite app_length. cbn. lia.
  Qed.

  Lemma step_heap_len : List.length (heap st) <= List.length (heap (created st e n')).
  Proof.
    unfold created. cbn [heap]. destruct (aget (hexid e) (old_routers st)) as [[m|]|].
    - rewrite set_nth_length. lia.
    - rewrite app_length. lia.
    - rewrite app_length. lia.
  Qed.

  Lemma step_heap_old e1 n1 : In (e1, n1) pn -> nth_error (heap (created st e n')) n1 = Some (cell_of e1).
  Proof.
    intros Hx. assert (Hne : n' <> n1).
    { intros E. apply step_fresh. rewrite E. apply in_map_iff. exists (e1, n1). auto. }
    pose proof (i_heap _ _ _ _ _ HI e1 n1 Hx) as Hh. pose proof (i_lt _ _ _ _ _ HI e1 n1 Hx) as Hl.
    unfold created. cbn [heap]. destruct (aget (hexid e) (old_routers st)) as [[m|]|].
    - rewrite nth_set_nth_other by assumption. exact Hh.
    - rewrite nth_error_app1 by assumption. exact Hh.
    - rewrite nth_error_app1 by assumption. exact Hh.
  Qed.

  Lemma step_heap_new : nth_error (heap (created st e n')) n' = Some (cell_of e).
  Proof.
    unfold created, n', num_for. cbn [heap]. pose proof (i_hlen _ _ _ _ _ HI). rewrite (i_old _ _ _ _ _ HI).
    destruct (aget (hexid e) O) as [[m|]|] eqn:Eo.
    - apply nth_set_nth_same. pose proof (oc_lt _ _ HO _ _ Eo). lia.
    - rewrite nth_error_app2 by lia. rewrite Nat.sub_diag. reflexivity.
    - rewrite nth_error_app2 by lia. rewrite Nat.sub_diag. reflexivity.
  Qed.

  (* keys *)
  Lemma nick_ne_hexid e1 e2 : wf_entry e1 = true -> e_nick e1 <> hexid e2.
  Proof. intros W. apply nick_not_fp. exact W. Qed.

  Lemma old_hexid_ne e1 n1 : In (e1, n1) pn -> hexid e <> hexid e1.
  Proof.
    intros Hx E. apply hexid_inj in E. apply Hid. apply in_map_iff. exists (e1, n1). split; [now symmetry|assumption].
  Qed.

  Lemma routers_has_nick : ahas (e_nick e) (routers st) = existsb (samen e) pn.
  Proof.
    unfold ahas. destruct (existsb (samen e) pn) eqn:Ex.
    - apply existsb_exists in Ex as [[e1 n1] [Hx Hs]]. unfold samen in Hs. cbn [fst] in Hs. apply beqb_eq in Hs.
      rewrite <- Hs. rewrite (i_rnick _ _ _ _ _ HI e1 n1 Hx). destruct (nick_unique e1 (map fst pn)); reflexivity.
    - assert (Hn : aget (e_nick e) (routers st) = None); [|now rewrite Hn].
      apply aget_none_keys. intros Hin. apply (i_rkeys _ _ _ _ _ HI) in Hin as [[e1 n1] [Hx [E|E]]]; cbn [fst] in E.
      + apply (nick_ne_hexid e e1 We). exact E.
      + assert (existsb (samen e) pn = true).
        { apply existsb_exists. exists (e1, n1). split; [assumption|]. unfold samen. cbn [fst]. rewrite E. apply beqb_refl. }
        congruence.
  Qed.

  Lemma byname_nick_lookup :
    aget (e_nick e) (by_name st) = if existsb (samen e) pn then Some (map snd (filter (samen e) pn)) else None.
  Proof.
    destruct (existsb (samen e) pn) eqn:Ex.
    - apply existsb_exists in Ex as [[e1 n1] [Hx Hs]]. unfold samen in Hs. cbn [fst] in Hs. apply beqb_eq in Hs.
      rewrite <- Hs. rewrite (i_bn _ _ _ _ _ HI e1 n1 Hx). f_equal. f_equal. apply samen_ext. now symmetry.
    - apply aget_none_keys. intros Hin. apply (i_bnkeys _ _ _ _ _ HI) in Hin as [[e1 n1] [Hx E]]. cbn [fst] in E.
      assert (existsb (samen e) pn = true).
      { apply existsb_exists. exists (e1, n1). split; [assumption|]. unfold samen. cbn [fst]. rewrite E. apply beqb_refl. }
      congruence.
  Qed.
End Step.

Lemma in_snoc {A} (l : list A) x y : In y (l ++ [x]) <-> In y l \/ y = x.
Proof. rewrite in_app_iff. cbn [In]. split; intros [H|H]; auto. destruct H as [H|[]]; auto. Qed.

Lemma inv_step O h0 st pn e :
  Ocond O h0 -> Inv false O h0 st pn -> wf_entry e = true -> ~ In (e_id e) (map idof pn) ->
  (has_flag F_AUTHORITY e = true -> ~ In (e_nick e) (map (fun x => e_nick (fst x)) (filter isa pn))) ->
  Inv false O h0 (created st e (num_for st e)) (pn ++ [(e, num_for st e)]).
Proof.
  intros HO HI We Hid Hauth. set (n' := num_for st e).
  pose proof (step_fresh O h0 st pn e HO HI Hid) as Hfresh. fold n' in Hfresh.
  assert (Hidne : forall e1 n1, In (e1, n1) pn -> hexid e <> hexid e1) by (intros; eapply old_hexid_ne; eauto).
  assert (Hnkid : forall e1 n1, In (e1, n1) pn -> e_nick e1 <> hexid e).
  { intros e1 n1 Hx. apply nick_not_fp. apply (i_wf _ _ _ _ _ HI (e1, n1) Hx). }
  assert (Hnkid' : forall e1, e_nick e <> hexid e1) by (intros; now apply nick_not_fp).
  assert (Hhas : ahas (e_nick e) (aset (hexid e) (Some n') (routers st)) = existsb (samen e) pn).
  { unfold ahas. rewrite aget_aset_other by (intros E; apply (Hnkid' e); now symmetry).
    apply (routers_has_nick O h0 st pn e HI We). }
  constructor.
  - (* old *) cbn [created old_routers]. apply HI.
  - (* wf *) intros x Hx. apply in_snoc in Hx as [Hx| ->]; [now apply (i_wf _ _ _ _ _ HI)|exact We].
  - (* ids *) rewrite map_app. cbn [map]. apply NoDup_snoc; [apply HI|exact Hid].
  - (* by_hash *) cbn [created by_hash]. rewrite (i_byhash _ _ _ _ _ HI), map_app. cbn [map].
    apply aset_absent. apply aget_none_keys. rewrite keys_map_hk. now apply hexid_not_in.
  - (* all_routers *) cbn [created all_routers]. rewrite (i_all _ _ _ _ _ HI).
    destruct (memn n' (map snd pn)) eqn:E; [apply memn_In in E; contradiction|]. now rewrite map_app.
  - (* guards *) cbn [created guards]. rewrite filter_snoc. unfold isg at 2. cbn [fst].
    destruct (has_flag F_GUARD e).
    + rewrite map_app. cbn [map]. rewrite (i_guards _ _ _ _ _ HI). apply aset_absent. apply aget_none_keys.
      rewrite keys_map_hk. intros Hin. apply (hexid_not_in pn e Hid).
      apply in_map_iff in Hin as [x [E Hx]]. apply in_map_iff. exists x. split; [exact E|now apply in_filter_sub in Hx].
    + rewrite app_nil_r. apply HI.
  - (* authorities *) cbn [created auths]. rewrite filter_snoc. unfold isa at 2. cbn [fst].
    destruct (has_flag F_AUTHORITY e) eqn:Ea.
    + rewrite map_app. cbn [map]. rewrite (i_auths _ _ _ _ _ HI). apply aset_absent. apply aget_none_keys.
      rewrite keys_map_nk. now apply Hauth.
    + rewrite app_nil_r. apply HI.
  - (* heap *) intros e1 n1 Hx. apply in_snoc in Hx as [Hx|Hx].
    + now apply (step_heap_old O h0 st pn e HO HI Hid).
    + injection Hx as -> ->. apply (step_heap_new O h0 st pn e HO HI).
  - (* nodup nums *) rewrite map_app. cbn [map]. apply NoDup_snoc; [apply HI|exact Hfresh].
  - (* lt *) intros e1 n1 Hx. apply in_snoc in Hx as [Hx|Hx].
    + pose proof (i_lt _ _ _ _ _ HI e1 n1 Hx). pose proof (step_heap_len st e) as Hsl. unfold n'. lia.
    + injection Hx as -> ->. apply (step_lt O h0 st pn e HO HI).
  - (* hlen *) pose proof (i_hlen _ _ _ _ _ HI). pose proof (step_heap_len st e) as Hsl. unfold n'. lia.
  - (* reuse *) intros e1 n1 Hx. apply in_snoc in Hx as [Hx|Hx]; [now apply (i_reuse _ _ _ _ _ HI)|].
    injection Hx as -> ->. unfold n', num_for. rewrite (i_old _ _ _ _ _ HI). pose proof (i_hlen _ _ _ _ _ HI).
    destruct (aget (hexid e) O) as [[m|]|]; auto.
  - (* routers: keys distinct *) cbn [created routers]. apply keys_aset_nodup.
    destruct (ahas _ _); apply keys_aset_nodup; apply keys_aset_nodup; apply HI.
  - (* routers: keys *) cbn [created routers]. intros k Hk.
    assert (Hk' : k = hexid e \/ k = e_nick e \/ In k (keys (routers st))).
    { apply keys_aset_in in Hk as [Hk|Hk]; [auto|].
      destruct (ahas _ _); apply keys_aset_in in Hk as [Hk|Hk]; auto; apply keys_aset_in in Hk as [Hk|Hk]; auto. }
    destruct Hk' as [Hk'|[Hk'|Hk']].
    + exists (e, n'). split; [apply in_snoc; auto|now left].
    + exists (e, n'). split; [apply in_snoc; auto|now right].
    + apply (i_rkeys _ _ _ _ _ HI) in Hk' as [x [Hx Hk']]. exists x. split; [apply in_snoc; auto|assumption].
  - (* routers: by identity *) intros e1 n1 Hx. cbn [created routers]. apply in_snoc in Hx as [Hx|Hx].
    + rewrite aget_aset_other by (eapply Hidne; eauto).
      assert (E : forall v, aget (hexid e1) (aset (e_nick e) v (aset (hexid e) (Some n') (routers st))) = Some (Some n1)).
      { intros v. rewrite aget_aset_other by apply Hnkid'. rewrite aget_aset_other by (eapply Hidne; eauto).
        now apply (i_rid _ _ _ _ _ HI). }
      destruct (ahas _ _); apply E.
    + injection Hx as -> ->. apply aget_aset_same.
  - (* routers: by nickname *) intros e1 n1 Hx. cbn [created routers].
    rewrite aget_aset_other by (intros E; apply in_snoc in Hx as [Hx|Hx];
                                 [apply (Hnkid e1 n1 Hx); now symmetry|injection Hx as -> ->; apply (Hnkid' e); now symmetry]).
    rewrite Hhas. rewrite map_app. cbn [map fst]. unfold nick_unique. rewrite same_nick_snoc.
    apply in_snoc in Hx as [Hx|Hx].
    + destruct (beqb (e_nick e) (e_nick e1)) eqn:En.
      * apply beqb_eq in En.
        assert (Hex : existsb (samen e) pn = true).
        { apply existsb_exists. exists (e1, n1). split; [assumption|]. unfold samen. cbn [fst]. rewrite En. apply beqb_refl. }
        rewrite Hex. rewrite En. rewrite aget_aset_same.
        assert (Hin : In e1 (same_nick e1 (map fst pn))).
        { apply same_nick_self. apply in_map_iff. exists (e1, n1). auto. }
        rewrite app_length. cbn [List.length].
        destruct (same_nick e1 (map fst pn)) as [|y l]; [destruct Hin|]. cbn [List.length].
        replace (S (List.length l) + 1 =? 1) with false by (symmetry; apply Nat.eqb_neq; lia). reflexivity.
      * rewrite app_nil_r.
        assert (Hne : e_nick e <> e_nick e1) by (intros E; rewrite E, beqb_refl in En; discriminate).
        assert (E : forall v, aget (e_nick e1) (aset (e_nick e) v (aset (hexid e) (Some n') (routers st)))
                              = aget (e_nick e1) (routers st)).
        { intros v. rewrite aget_aset_other by assumption. apply aget_aset_other.
          intros E. apply (Hnkid e1 n1 Hx). now symmetry. }
        destruct (existsb (samen e) pn); rewrite E; now apply (i_rnick _ _ _ _ _ HI).
    + injection Hx as -> ->. rewrite beqb_refl.
      destruct (existsb (samen e) pn) eqn:Ex; rewrite aget_aset_same.
      * apply existsb_exists in Ex as [[e2 n2] [Hx2 Hs]]. unfold samen in Hs. cbn [fst] in Hs.
        assert (Hin : In e2 (same_nick e (map fst pn))).
        { unfold same_nick. apply filter_In. split; [apply in_map_iff; exists (e2, n2); auto|exact Hs]. }
        rewrite app_length. cbn [List.length].
        destruct (same_nick e (map fst pn)) as [|y l]; [destruct Hin|]. cbn [List.length].
        replace (S (List.length l) + 1 =? 1) with false by (symmetry; apply Nat.eqb_neq; lia). reflexivity.
      * rewrite (same_nick_none e pn Ex). reflexivity.
  - (* by_name: keys distinct *) cbn [created by_name]. destruct (aget _ _); apply keys_aset_nodup; apply HI.
  - (* by_name: keys *) cbn [created by_name]. intros k Hk.
    assert (Hk' : k = e_nick e \/ In k (keys (by_name st))) by (destruct (aget _ _); apply keys_aset_in in Hk; exact Hk).
    destruct Hk' as [Hk'|Hk'].
    + exists (e, n'). split; [apply in_snoc; auto|assumption].
    + apply (i_bnkeys _ _ _ _ _ HI) in Hk' as [x [Hx Hk']]. exists x. split; [apply in_snoc; auto|assumption].
  - (* by_name: values *) intros e1 n1 Hx. cbn [created by_name].
    rewrite (byname_nick_lookup O h0 st pn e HI). rewrite filter_snoc.
    change (samen e1 (e, n')) with (beqb (e_nick e) (e_nick e1)).
    apply in_snoc in Hx as [Hx|Hx].
    + destruct (beqb (e_nick e) (e_nick e1)) eqn:En.
      * apply beqb_eq in En.
        assert (Hex : existsb (samen e) pn = true).
        { apply existsb_exists. exists (e1, n1). split; [assumption|]. unfold samen. cbn [fst]. rewrite En. apply beqb_refl. }
        rewrite Hex. rewrite (samen_ext e1 e (eq_sym En)). rewrite <- En. rewrite aget_aset_same.
        rewrite map_app. reflexivity.
      * rewrite app_nil_r.
        assert (Hne : e_nick e <> e_nick e1) by (intros E; rewrite E, beqb_refl in En; discriminate).
        destruct (existsb (samen e) pn); rewrite aget_aset_other by assumption; apply (i_bn _ _ _ _ _ HI e1 n1 Hx).
    + injection Hx as -> ->. rewrite beqb_refl.
      destruct (existsb (samen e) pn) eqn:Ex; rewrite aget_aset_same.
      * rewrite map_app. reflexivity.
      * rewrite (filter_samen_none e pn Ex). reflexivity.
Qed.

(* ================================================================ Part 3: a whole document *)
Lemma map_nick_filter_isa (pn : list ent) :
  map e_nick (filter (has_flag F_AUTHORITY) (map fst pn)) = map (fun x => e_nick (fst x)) (filter isa pn).
Proof.
  induction pn as [|x pn IH]; [reflexivity|]. cbn [map filter]. unfold isa at 1.
  destruct (has_flag F_AUTHORITY (fst x)); cbn [map]; now rewrite IH.
Qed.

Lemma map_id_fst (pn : list ent) : map e_id (map fst pn) = map idof pn.
Proof. now rewrite map_map. Qed.

Lemma create_all_inv O h0 : Ocond O h0 -> forall d st pn,
  Inv false O h0 st pn -> forallb wf_entry d = true ->
  NoDup (map e_id (map fst pn ++ d)) ->
  NoDup (map e_nick (filter (has_flag F_AUTHORITY) (map fst pn ++ d))) ->
  exists st' pn', create_all st (map kw_of d) = Some st' /\ Inv false O h0 st' (pn ++ pn') /\ map fst pn' = d
                  /\ parser st' = parser st.
Proof.
  intros HO. induction d as [|e d IH]; intros st pn HI W Hd Ha.
  - exists st, []. rewrite app_nil_r. auto.
  - cbn [forallb] in W. apply andb_true_iff in W as [We Wd].
    assert (Hid : ~ In (e_id e) (map idof pn)).
    { rewrite map_app in Hd. cbn [map] in Hd. apply NoDup_remove_2 in Hd. rewrite <- map_id_fst.
      intros H. apply Hd. apply in_app_iff. now left. }
    assert (Hauth : has_flag F_AUTHORITY e = true -> ~ In (e_nick e) (map (fun x => e_nick (fst x)) (filter isa pn))).
    { intros Hf. rewrite filter_app in Ha. cbn [filter] in Ha. rewrite Hf in Ha. rewrite map_app in Ha. cbn [map] in Ha.
      apply NoDup_remove_2 in Ha. rewrite <- map_nick_filter_isa. intros H. apply Ha. apply in_app_iff. now left. }
    pose proof (inv_step O h0 st pn e HO HI We Hid Hauth) as HI'.
    cbn [map create_all]. rewrite create_router_wf by (assumption || apply (step_not_none O h0 st pn e HO HI)).
    destruct (IH (created st e (num_for st e)) (pn ++ [(e, num_for st e)]) HI' Wd) as [st' [pn' [E [HI2 [Hm Hp]]]]].
    + replace (map fst (pn ++ [(e, num_for st e)]) ++ d) with (map fst pn ++ e :: d)
        by (rewrite (map_app fst); cbn [map fst]; now rewrite <- app_assoc). exact Hd.
    + replace (map fst (pn ++ [(e, num_for st e)]) ++ d) with (map fst pn ++ e :: d)
        by (rewrite (map_app fst); cbn [map fst]; now rewrite <- app_assoc). exact Ha.
    + exists st', ((e, num_for st e) :: pn'). rewrite E. split; [reflexivity|]. split; [|split].
      * rewrite <- app_assoc in HI2. exact HI2.
      * cbn [map fst]. now rewrite Hm.
      * exact Hp.
Qed.

(* the state with the five indexes emptied (what _update_network_status does first; also the
   state of a fresh TorState) satisfies the invariant for the empty prefix *)
Lemma inv_empty O H0 p :
  Inv false O (List.length H0)
      {| heap := H0; routers := []; old_routers := O; all_routers := []; by_hash := []; by_name := [];
         guards := []; auths := []; parser := p |} [].
Proof.
  constructor; cbn; try reflexivity; try (intros; contradiction); try constructor; try lia.
Qed.

(* removal of the None entries *)
Lemma aget_drop_none k m : NoDup (keys m) ->
  aget k (drop_none m) = match aget k m with Some None => None | x => x end.
Proof.
  induction m as [|[k' v'] m IH]; intros Hd; [reflexivity|].
  cbn [keys map fst] in Hd. inversion Hd as [|? ? Hn Hd']; subst. cbn [drop_none filter snd aget].
  destruct v' as [n|]; cbn [aget].
  - destruct (beqb k k'); [reflexivity|]. now apply IH.
  - destruct (beqb k k') eqn:E.
    + apply beqb_eq in E. subst k'. unfold drop_none in IH. rewrite IH by assumption.
      apply aget_none_keys in Hn. unfold keys in Hn. now rewrite Hn.
    + now apply IH.
Qed.

Lemma keys_drop_none k m : In k (keys (drop_none m)) -> In k (keys m).
Proof.
  unfold keys, drop_none. intros H. apply in_map_iff in H as [x [E Hx]]. apply filter_In in Hx as [Hx _].
  apply in_map_iff. now exists x.
Qed.

Lemma nodup_keys_filter {V} (f : bytes * V -> bool) m : NoDup (keys m) -> NoDup (keys (filter f m)).
Proof.
  unfold keys. induction m as [|x m IH]; intros H; [constructor|].
  cbn [map] in H. inversion H as [|? ? Hn Hd]; subst. cbn [filter]. destruct (f x); [|now apply IH].
  cbn [map]. constructor; [|now apply IH]. intros Hin. apply Hn.
  apply in_map_iff in Hin as [y [E Hy]]. apply filter_In in Hy as [Hy _]. apply in_map_iff. now exists y.
Qed.

Definition cleaned (st : tstate) : tstate :=
  {| heap := heap st; routers := drop_none (routers st); old_routers := old_routers st;
     all_routers := all_routers st; by_hash := by_hash st; by_name := by_name st;
     guards := guards st; auths := auths st; parser := parser st |}.

Lemma inv_cleaned O h0 st pn : Inv false O h0 st pn -> Inv true O h0 (cleaned st) pn.
Proof.
  intros HI. constructor; cbn [cleaned heap routers old_routers all_routers by_hash by_name guards auths];
    try apply HI.
  - apply nodup_keys_filter. apply HI.
  - intros k Hk. apply keys_drop_none in Hk. now apply (i_rkeys _ _ _ _ _ HI).
  - intros e n Hx. rewrite aget_drop_none by apply HI. now rewrite (i_rid _ _ _ _ _ HI e n Hx).
  - intros e n Hx. rewrite aget_drop_none by apply HI. rewrite (i_rnick _ _ _ _ _ HI e n Hx).
    destruct (nick_unique e (map fst pn)); reflexivity.
Qed.

Lemma set_parser_inv cl O h0 st pn p : Inv cl O h0 st pn -> Inv cl O h0 (set_parser st p) pn.
Proof. intros HI. constructor; cbn [set_parser heap routers old_routers all_routers by_hash by_name guards auths]; apply HI. Qed.

(* the routers dict of a finished document is a legitimate _old_routers for the next one *)
Lemma NoDup_snd_inj (pn : list ent) e1 e2 n : NoDup (map snd pn) -> In (e1, n) pn -> In (e2, n) pn -> e1 = e2.
Proof.
  induction pn as [|[e0 n0] pn IH]; intros Hd H1 H2; [destruct H1|].
  cbn [map snd] in Hd. inversion Hd as [|? ? Hn Hd']; subst.
  destruct H1 as [H1|H1], H2 as [H2|H2].
  - congruence.
  - injection H1 as -> ->. exfalso. apply Hn. apply in_map_iff. exists (e2, n). auto.
  - injection H2 as -> ->. exfalso. apply Hn. apply in_map_iff. exists (e1, n). auto.
  - now apply IH.
Qed.

Lemma inv_ocond cl O h0 st pn : Inv cl O h0 st pn -> Ocond (routers st) (List.length (heap st)).
Proof.
  intros HI.
  assert (Hval : forall k v, aget k (routers st) = Some v ->
                 exists e n, In (e, n) pn /\ ((k = hexid e /\ v = Some n) \/ (k = e_nick e /\ (v = Some n \/ v = None)))).
  { intros k v Hk. pose proof (aget_some_keys _ _ _ Hk) as Hin.
    apply (i_rkeys _ _ _ _ _ HI) in Hin as [[e n] [Hx [E|E]]]; cbn [fst] in E; subst k; exists e, n; split; auto.
    - left. rewrite (i_rid _ _ _ _ _ HI e n Hx) in Hk. split; congruence.
    - right. rewrite (i_rnick _ _ _ _ _ HI e n Hx) in Hk. split; [reflexivity|].
      destruct (nick_unique e (map fst pn)); [left; congruence|]. destruct cl; [discriminate|right; congruence]. }
  constructor.
  - intros k m Hk. apply Hval in Hk as [e [n [Hx [[_ E]|[_ [E|E]]]]]]; try discriminate;
      injection E as <-; now apply (i_lt _ _ _ _ _ HI e).
  - intros d1 d2 m H1 H2.
    apply Hval in H1 as [e1 [n1 [Hx1 [[K1 E1]|[K1 _]]]]];
      [|exfalso; symmetry in K1; revert K1; apply nick_not_fp; apply (i_wf _ _ _ _ _ HI (e1, n1) Hx1)].
    apply Hval in H2 as [e2 [n2 [Hx2 [[K2 E2]|[K2 _]]]]];
      [|exfalso; symmetry in K2; revert K2; apply nick_not_fp; apply (i_wf _ _ _ _ _ HI (e2, n2) Hx2)].
    injection E1 as <-. injection E2 as <-.
    pose proof (NoDup_snd_inj pn e1 e2 m (i_nodup _ _ _ _ _ HI) Hx1 Hx2) as <-.
    apply fingerprint_inj in K1, K2. congruence.
  - intros d Hk. apply Hval in Hk as [e [n [Hx [[_ E]|[K _]]]]]; [discriminate|].
    symmetry in K. revert K. apply nick_not_fp. apply (i_wf _ _ _ _ _ HI (e, n) Hx).
Qed.

Lemma ocond_nil : Ocond [] 0.
Proof. constructor; cbn; intros; discriminate. Qed.

(* ================================================================ Part 4: the view satisfies the oracle *)
Lemma list_eqb_refl (l : list bytes) : list_eqb beqb l l = true.
Proof. induction l as [|x l IH]; [reflexivity|]. cbn. now rewrite beqb_refl, IH. Qed.

Lemma dedup_in l : forall seen x, In x l -> ~ In x seen -> In x (dedup seen l).
Proof.
  induction l as [|y l IH]; intros seen x Hin Hs; [destruct Hin|].
  cbn [dedup]. destruct (memn y seen) eqn:E.
  - destruct Hin as [->|Hin]; [apply memn_In in E; contradiction|]. now apply IH.
  - destruct (Nat.eq_dec x y) as [->|Hne]; [now left|]. right.
    destruct Hin as [->|Hin]; [congruence|]. apply IH; [assumption|]. intros [H|H]; [congruence|contradiction].
Qed.

Lemma obj_found hp l n c : In n l -> nth_error hp n = Some c ->
  find (fun o => Nat.eqb (o_num o) n)
       (flat_map (fun m => match nth_error hp m with Some c => [cell_obs m c] | None => [] end) l)
  = Some (cell_obs n c).
Proof.
  intros Hin Hn. induction l as [|m l IH]; [destruct Hin|].
  cbn [flat_map]. destruct (Nat.eq_dec m n) as [->|Hne].
  - rewrite Hn. cbn [app find cell_obs o_num]. now rewrite Nat.eqb_refl.
  - destruct Hin as [Hin|Hin]; [congruence|].
    destruct (nth_error hp m) as [cm|]; cbn [app find cell_obs o_num]; [|now apply IH].
    replace (m =? n) with false by (symmetry; now apply Nat.eqb_neq). now apply IH.
Qed.

Lemma aget_hk (l : list ent) e n : NoDup (map idof l) -> In (e, n) l -> aget (hexid e) (map hk l) = Some n.
Proof.
  induction l as [|[e0 n0] l IH]; intros Hd Hin; [destruct Hin|].
  cbn [map idof fst] in Hd. inversion Hd as [|? ? Hn Hd']; subst.
  cbn [map hk fst snd aget]. destruct Hin as [Hin|Hin].
  - injection Hin as -> ->. now rewrite beqb_refl.
  - destruct (beqb (hexid e) (hexid e0)) eqn:E; [|now apply IH].
    apply beqb_eq, hexid_inj in E. exfalso. apply Hn. apply in_map_iff. exists (e, n). split; [now symmetry|assumption].
Qed.

Lemma aget_nk (l : list ent) e n : NoDup (map (fun x : ent => e_nick (fst x)) l) -> In (e, n) l -> aget (e_nick e) (map nk l) = Some n.
Proof.
  induction l as [|[e0 n0] l IH]; intros Hd Hin; [destruct Hin|].
  cbn [map fst] in Hd. inversion Hd as [|? ? Hn Hd']; subst.
  cbn [map nk fst snd aget]. destruct Hin as [Hin|Hin].
  - injection Hin as -> ->. now rewrite beqb_refl.
  - destruct (beqb (e_nick e) (e_nick e0)) eqn:E; [|now apply IH].
    apply beqb_eq in E. exfalso. apply Hn. apply in_map_iff. exists (e, n). split; [now symmetry|assumption].
Qed.

Lemma NoDup_map_filter {A B} (g : A -> B) (f : A -> bool) l : NoDup (map g l) -> NoDup (map g (filter f l)).
Proof.
  induction l as [|x l IH]; intros H; [constructor|]. cbn [map] in H. inversion H as [|? ? Hn Hd]; subst.
  cbn [filter]. destruct (f x); [|now apply IH]. cbn [map]. constructor; [|now apply IH].
  intros Hin. apply Hn. apply in_map_iff in Hin as [y [E Hy]]. apply filter_In in Hy as [Hy _]. apply in_map_iff. now exists y.
Qed.

Lemma filter_map_fst (f : entry -> bool) (pn : list ent) : filter f (map fst pn) = map fst (filter (fun x => f (fst x)) pn).
Proof. induction pn as [|x pn IH]; [reflexivity|]. cbn [map filter]. destruct (f (fst x)); cbn [map]; now rewrite IH. Qed.

Lemma aget_map_self (f : bytes -> lres) l k : In k l -> aget k (map (fun k => (k, f k)) l) = Some (f k).
Proof.
  induction l as [|y l IH]; intros H; [destruct H|]. cbn [map aget].
  destruct (beqb k y) eqn:E; [apply beqb_eq in E; now subst|].
  destruct H as [->|H]; [rewrite beqb_refl in E; discriminate|now apply IH].
Qed.

Lemma hexid_length e : List.length (e_id e) = 20 -> List.length (hexid e) = 41.
Proof. intros H. unfold hexid. rewrite fingerprint_length, H. reflexivity. Qed.

Lemma nick_no_dollar e : wf_entry e = true -> prefixb [DOLLAR] (e_nick e) = false.
Proof.
  intros W. destruct (wf_nick e W) as [Hne [Ha _]]. destruct (e_nick e) as [|a r]; [congruence|].
  cbn [forallb] in Ha. apply andb_true_iff in Ha as [Ha _]. cbn [prefixb].
  destruct (Ascii.eqb DOLLAR a) eqn:E; [|reflexivity]. apply Ascii.eqb_eq in E. subst a. discriminate.
Qed.


Ltac sa := apply andb_true_iff; split.
Ltac split3 := sa; [sa|].
Ltac split5 := sa; [sa; [sa; [sa|]|]|].

Section ViewOk.
  Variables (cl : bool) (O : list (bytes * option nat)) (h0 : nat) (st : tstate) (pn : list ent).
  Variable extra : list bytes.
  Hypothesis HI : Inv cl O h0 st pn.
  Let d := map fst pn.
  Hypothesis Ha : doc_dup_authority_nick d = false.
  Hypothesis Hx : extra_ok d extra = true.
  Let v := view_of st (doc_keys d ++ extra) None.

  Lemma vo_num e n : In (e, n) pn -> num_of v e = Some n.
  Proof. intros H. unfold num_of, v, view_of. cbn [v_byhash]. rewrite (i_byhash _ _ _ _ _ HI). apply aget_hk; [apply HI|assumption]. Qed.

  Lemma vo_num0 e n : In (e, n) pn -> num_or0 v e = n.
  Proof. intros H. unfold num_or0. now rewrite (vo_num e n H). Qed.

  Lemma vo_nums (l : list ent) : incl l pn -> map (num_or0 v) (map fst l) = map snd l.
  Proof.
    induction l as [|[e n] l IH]; intros Hl; [reflexivity|]. cbn [map fst snd].
    rewrite (vo_num0 e n) by (apply Hl; now left). rewrite IH; [reflexivity|]. intros x Hx0. apply Hl. now right.
  Qed.

  Lemma vo_in_d e : In e d -> exists n, In (e, n) pn.
  Proof. unfold d. intros H. apply in_map_iff in H as [[e0 n] [E H]]. cbn [fst] in E. subst. now exists n. Qed.

  Lemma vo_reach e n : In (e, n) pn -> In n (reachable st).
  Proof.
    intros H. unfold reachable. apply dedup_in; [|intros []]. apply in_app_iff. left.
    rewrite (i_byhash _ _ _ _ _ HI). rewrite map_map. apply in_map_iff. exists (e, n). auto.
  Qed.

  Lemma vo_obj e n : In (e, n) pn -> obj v n = Some (cell_obs n (cell_of e)).
  Proof.
    intros H. unfold obj, v, view_of. cbn [v_objs]. apply obj_found; [now apply (vo_reach e)|now apply (i_heap _ _ _ _ _ HI)].
  Qed.

  Lemma vo_matches e n : obj_matches e (cell_obs n (cell_of e)) = true.
  Proof.
    unfold obj_matches, cell_obs, cell_of. cbn. rewrite !beqb_refl, !list_eqb_refl, N.eqb_refl. reflexivity.
  Qed.

  Lemma vo_relays : c_relays d v = true.
  Proof.
    unfold c_relays. split5.
    - apply forallb_forall. intros e He. destruct (vo_in_d e He) as [n Hn].
      rewrite (vo_num e n Hn), (vo_obj e n Hn). apply vo_matches.
    - unfold v, view_of. cbn [v_byhash]. rewrite (i_byhash _ _ _ _ _ HI). unfold d. rewrite !map_length. apply Nat.eqb_refl.
    - unfold v, view_of. cbn [v_byhash]. rewrite (i_byhash _ _ _ _ _ HI). apply nodupb_NoDup. rewrite keys_map_hk.
      pose proof (i_ids _ _ _ _ _ HI) as Hd. clear -Hd. induction pn as [|x l IH]; [constructor|].
      cbn [map] in *. inversion Hd as [|? ? Hn Hd']; subst. constructor; [|now apply IH].
      intros Hin. apply Hn. apply in_map_iff in Hin as [y [E Hy]]. apply hexid_inj in E. apply in_map_iff. now exists y.
    - unfold d. rewrite (vo_nums pn (incl_refl _)). apply nodupn_NoDup. apply HI.
    - unfold d. rewrite (vo_nums pn (incl_refl _)). unfold v, view_of. cbn [v_all]. rewrite (i_all _ _ _ _ _ HI).
      apply same_set_refl.
  Qed.

  Lemma vo_routers : c_routers d v = true.
  Proof.
    unfold c_routers. split3.
    - apply nodupb_NoDup. apply HI.
    - apply forallb_forall. intros e He. destruct (vo_in_d e He) as [n Hn].
      unfold v at 1 3, view_of. cbn [v_routers]. rewrite (vo_num0 e n Hn).
      rewrite (i_rid _ _ _ _ _ HI e n Hn), (i_rnick _ _ _ _ _ HI e n Hn). fold d.
      cbn [option_eqb]. rewrite Nat.eqb_refl. cbn [andb].
      destruct (nick_unique e d); [now rewrite Nat.eqb_refl|destruct cl; reflexivity].
    - apply forallb_forall. intros k Hk. unfold v, view_of in Hk. cbn [v_routers] in Hk.
      apply (i_rkeys _ _ _ _ _ HI) in Hk as [[e n] [Hin E]]. cbn [fst] in E. apply existsb_exists. exists e. split.
      + unfold d. apply in_map_iff. now exists (e, n).
      + destruct E as [-> | ->]; rewrite beqb_refl; [reflexivity|apply orb_true_r].
  Qed.

  Lemma vo_byname : c_byname d v = true.
  Proof.
    unfold c_byname. split3.
    - apply nodupb_NoDup. apply HI.
    - apply forallb_forall. intros e He. destruct (vo_in_d e He) as [n Hn].
      unfold v at 1, view_of. cbn [v_byname]. rewrite (i_bn _ _ _ _ _ HI e n Hn).
      unfold same_nick, d. rewrite (filter_map_fst (fun x => beqb (e_nick x) (e_nick e))).
      rewrite vo_nums by (intros x Hx0; now apply in_filter_sub in Hx0). apply same_set_refl.
    - apply forallb_forall. intros k Hk. unfold v, view_of in Hk. cbn [v_byname] in Hk.
      apply (i_bnkeys _ _ _ _ _ HI) in Hk as [[e n] [Hin E]]. cbn [fst] in E. apply existsb_exists. exists e. split.
      + unfold d. apply in_map_iff. now exists (e, n).
      + subst k. apply beqb_refl.
  Qed.

  Lemma vo_guards : c_guards d v = true.
  Proof.
    unfold c_guards. change (v_guards v) with (guards st). rewrite (i_guards _ _ _ _ _ HI).
    unfold d. rewrite (filter_map_fst (has_flag F_GUARD)). fold isg.
    split3.
    - apply nodupb_NoDup. rewrite keys_map_hk.
      assert (Hd : NoDup (map idof (filter isg pn))) by (apply NoDup_map_filter; apply HI).
      clear -Hd. induction (filter isg pn) as [|x l IH]; [constructor|].
      cbn [map] in *. inversion Hd as [|? ? Hn Hd']; subst. constructor; [|now apply IH].
      intros Hin. apply Hn. apply in_map_iff in Hin as [y [E Hy]]. apply hexid_inj in E. apply in_map_iff. now exists y.
    - rewrite !map_length. apply Nat.eqb_refl.
    - apply forallb_forall. intros e He. apply in_map_iff in He as [[e0 n] [E Hin]]. cbn [fst] in E. subst e0.
      rewrite (vo_num0 e n) by now apply in_filter_sub in Hin.
      rewrite (aget_hk (filter isg pn) e n); [cbn; apply Nat.eqb_refl| |assumption].
      apply NoDup_map_filter. apply HI.
  Qed.

  Lemma vo_auths : c_auths d v = true.
  Proof.
    unfold c_auths. change (v_auths v) with (auths st). rewrite (i_auths _ _ _ _ _ HI).
    unfold d. rewrite (filter_map_fst (has_flag F_AUTHORITY)). fold isa.
    split3.
    - rewrite keys_map_nk. rewrite <- map_nick_filter_isa. fold d.
      unfold doc_dup_authority_nick in Ha. now apply negb_false_iff in Ha.
    - rewrite map_map. cbn [nk snd].
      rewrite vo_nums by (intros x Hx0; now apply in_filter_sub in Hx0). apply same_set_refl.
    - apply forallb_forall. intros kn Hk. apply in_map_iff in Hk as [[e n] [E Hin]]. subst kn. cbn [nk fst snd].
      rewrite (vo_obj e n) by now apply in_filter_sub in Hin. cbn. apply beqb_refl.
  Qed.

  Lemma vo_lookup_id e n : In (e, n) pn -> lookup st (hexid e) = LFound n.
  Proof.
    intros H. unfold lookup. rewrite firstn_all2 by (rewrite hexid_length; [lia|apply wf_id_len; apply (i_wf _ _ _ _ _ HI (e, n) H)]).
    now rewrite (i_rid _ _ _ _ _ HI e n H).
  Qed.

  Lemma vo_lookup_nick e n : In (e, n) pn ->
    lookup st (e_nick e) = if nick_unique e d then LFound n else if cl then LMissing else LNoneVal.
  Proof.
    intros H. pose proof (i_wf _ _ _ _ _ HI (e, n) H) as W. cbn [fst] in W. unfold lookup.
    rewrite firstn_all2 by (destruct (wf_nick e W) as [_ [_ L]]; lia).
    rewrite (i_rnick _ _ _ _ _ HI e n H). fold d. destruct (nick_unique e d); [reflexivity|].
    destruct cl; [|reflexivity]. now rewrite nick_no_dollar.
  Qed.

  Lemma vo_lookups : c_lookups d v = true.
  Proof.
    unfold c_lookups. change (v_lookups v) with (map (fun k => (k, lookup st k)) (doc_keys d ++ extra)). sa.
    - apply forallb_forall. intros e He. destruct (vo_in_d e He) as [n Hn].
      rewrite (vo_num0 e n Hn).
      rewrite aget_map_self by (apply in_app_iff; left; unfold doc_keys; apply in_app_iff; left; now apply in_map).
      rewrite aget_map_self by (apply in_app_iff; left; unfold doc_keys; apply in_app_iff; right; now apply in_map).
      rewrite (vo_lookup_id e n Hn), (vo_lookup_nick e n Hn), Nat.eqb_refl. cbn [andb].
      destruct (nick_unique e d); [now rewrite Nat.eqb_refl|destruct cl; reflexivity].
    - apply forallb_forall. intros kr Hk. apply in_map_iff in Hk as [k [E Hk]]. subst kr. cbn [fst snd].
      destruct (find (fun e => beqb (firstn 41 k) (hexid e)) d) as [e|] eqn:Ef.
      + apply find_some in Ef as [He Ee]. apply beqb_eq in Ee. destruct (vo_in_d e He) as [n Hn].
        unfold lookup. rewrite Ee, (i_rid _ _ _ _ _ HI e n Hn), (vo_num0 e n Hn). apply Nat.eqb_refl.
      + assert (Hnf : forall e, In e d -> firstn 41 k <> hexid e).
        { intros e He E. pose proof (find_none _ _ Ef e He) as F. cbv beta in F. rewrite E, beqb_refl in F. discriminate. }
        destruct (existsb (fun e => beqb k (e_nick e)) d) eqn:Ex; [reflexivity|]. cbn [orb].
        assert (Hnn : forall e, In e d -> k <> e_nick e).
        { intros e He E. assert (existsb (fun e => beqb k (e_nick e)) d = true); [|congruence].
          apply existsb_exists. exists e. split; [assumption|]. rewrite E. apply beqb_refl. }
        assert (Hnd : prefixb [DOLLAR] k = false).
        { apply in_app_iff in Hk as [Hk|Hk].
          - unfold doc_keys in Hk. apply in_app_iff in Hk as [Hk|Hk]; apply in_map_iff in Hk as [e [E He]].
            + exfalso. apply (Hnf e He). subst k. destruct (vo_in_d e He) as [n Hn].
              apply firstn_all2. rewrite hexid_length; [lia|apply wf_id_len; apply (i_wf _ _ _ _ _ HI (e, n) Hn)].
            + exfalso. apply (Hnn e He). now symmetry.
          - unfold extra_ok in Hx. rewrite forallb_forall in Hx. specialize (Hx k Hk).
            apply orb_true_iff in Hx as [Hx|Hx]; [now apply negb_true_iff in Hx|].
            apply existsb_exists in Hx as [e [He E]]. apply beqb_eq in E. exfalso. now apply (Hnf e He). }
        unfold lookup. rewrite Hnd.
        destruct (aget (firstn 41 k) (routers st)) as [r|] eqn:Eg; [|reflexivity]. exfalso.
        apply aget_some_keys in Eg. apply (i_rkeys _ _ _ _ _ HI) in Eg as [[e n] [Hin [E|E]]]; cbn [fst] in E.
        * apply (Hnf e); [unfold d; apply in_map_iff; now exists (e, n)|exact E].
        * assert (He : In e d) by (unfold d; apply in_map_iff; now exists (e, n)).
          apply (Hnn e He). pose proof (i_wf _ _ _ _ _ HI (e, n) Hin) as W. cbn [fst] in W.
          destruct (wf_nick e W) as [_ [_ L]].
          destruct (Nat.le_gt_cases (List.length k) 41) as [Hl|Hl].
          -- rewrite firstn_all2 in E by assumption. exact E.
          -- assert (List.length (firstn 41 k) = 41) by (rewrite firstn_length; lia). rewrite E in H. lia.
  Qed.

  Lemma view_ok_holds : view_ok d v = true.
  Proof.
    unfold view_ok. rewrite vo_relays, vo_routers, vo_byname, vo_guards, vo_auths, vo_lookups. reflexivity.
  Qed.
End ViewOk.

(* ================================================================ Part 5: histories *)
Lemma create_all_app st a b :
  create_all st (a ++ b) = match create_all st a with Some s => create_all s b | None => None end.
Proof.
  revert st. induction a as [|k a IH]; intros st; [reflexivity|].
  cbn [app create_all]. destruct (create_router st k); [apply IH|reflexivity].
Qed.

Lemma take_lines_gen st lines p1 ks : feed (parser st) lines = (p1, ks, None) ->
  take_lines st lines = match create_all st (ks ++ emit_pending (attrs p1)) with
                        | Some s => Some (set_parser s {| ps := ps p1; attrs := None |}, None)
                        | None => None
                        end.
Proof.
  intros H. unfold take_lines. rewrite H. rewrite create_all_app.
  destruct (create_all st ks) as [st1|]; [|reflexivity]. unfold finish.
  destruct (create_all st1 (emit_pending (attrs p1))); reflexivity.
Qed.

Lemma wf_doc_parts d : forallb wf_entry d = true -> Forall wf_parts d.
Proof.
  intros H. apply Forall_forall. intros e He. apply wf_entry_parts. rewrite forallb_forall in H. now apply H.
Qed.

(* the state between two documents *)
Record Ready (st : tstate) (pd : doc) : Prop := {
  r_good : good_state (ps (parser st)) = true;
  r_attrs : attrs (parser st) = None;
  r_ocond : Ocond (routers st) (List.length (heap st));
  r_prev : exists pn : list ent, map fst pn = pd /\ by_hash st = map hk pn /\ NoDup (map idof pn)
                        /\ forall e n, In (e, n) pn -> aget (hexid e) (routers st) = Some (Some n) }.

Definition case_ok (dx : doc * list bytes) : bool :=
  wf_doc (fst dx) && negb (doc_dup_authority_nick (fst dx))
  && extra_ok (fst dx) (snd dx).

Lemma ready_of_inv cl O h0 st pn :
  Inv cl O h0 st pn -> good_state (ps (parser st)) = true -> attrs (parser st) = None -> Ready st (map fst pn).
Proof.
  intros HI Hg Ha. constructor; [assumption|assumption|now apply (inv_ocond cl O h0 st pn)|].
  exists pn. split; [reflexivity|]. split; [apply HI|]. split; [apply HI|]. intros e n H. now apply (i_rid _ _ _ _ _ HI).
Qed.

(* identity preservation against the previous state *)
Lemma identity_holds cl st pd st' pn keys (pv : view) :
  Ready st pd -> Inv cl (routers st) (List.length (heap st)) st' pn -> v_byhash pv = by_hash st ->
  c_identity pd pv (map fst pn) (view_of st' keys None) = true.
Proof.
  intros HR HI Hpv. unfold c_identity. apply forallb_forall. intros e He.
  apply in_map_iff in He as [[e0 n] [E Hin]]. cbn [fst] in E. subst e0.
  destruct (find (fun x => beqb (e_id x) (e_id e)) pd) as [x|] eqn:Ef; [|reflexivity].
  apply find_some in Ef as [Hx Ex]. apply beqb_eq in Ex.
  destruct (r_prev _ _ HR) as [ppn [Hm [Hb [Hd Hr]]]].
  rewrite <- Hm in Hx. apply in_map_iff in Hx as [[x0 nx] [E Hxin]]. cbn [fst] in E. subst x0.
  unfold num_of. rewrite Hpv, Hb. rewrite (aget_hk ppn x nx Hd Hxin).
  change (v_byhash (view_of st' keys None)) with (by_hash st'). rewrite (i_byhash _ _ _ _ _ HI).
  rewrite (aget_hk pn e n (i_ids _ _ _ _ _ HI) Hin). cbn [option_eqb].
  pose proof (i_reuse _ _ _ _ _ HI e n Hin) as R.
  assert (Eh : hexid e = hexid x) by (unfold hexid; now rewrite Ex).
  rewrite Eh, (Hr x nx Hxin) in R. subst. apply Nat.eqb_refl.
Qed.

Lemma case_ok_parts d extra : case_ok (d, extra) = true ->
  forallb wf_entry d = true /\ NoDup (map e_id d)
  /\ doc_dup_authority_nick d = false /\ extra_ok d extra = true.
Proof.
  unfold case_ok, wf_doc. cbn [fst snd]. intros H.
  repeat match type of H with (_ && _) = true => let H' := fresh "K" in apply andb_true_iff in H as [H H'] end.
  apply negb_true_iff in K0. apply nodupb_NoDup in K1. auto.
Qed.

Lemma dup_auth_nodup d : doc_dup_authority_nick d = false -> NoDup (map e_nick (filter (has_flag F_AUTHORITY) d)).
Proof. unfold doc_dup_authority_nick. intros H. apply negb_false_iff in H. now apply nodupb_NoDup. Qed.

Lemma event_doc_ok st pd d extra (pv : view) :
  Ready st pd -> v_byhash pv = by_hash st -> case_ok (d, extra) = true ->
  exists st', event_doc st (render_doc d) = Some (st', None) /\ Ready st' d
              /\ view_ok d (view_of st' (doc_keys d ++ extra) None) = true
              /\ c_identity pd pv d (view_of st' (doc_keys d ++ extra) None) = true.
Proof.
  intros HR Hpv Hc. destruct (case_ok_parts d extra Hc) as [W [Hd [Ha Hx]]].
  unfold event_doc.
  set (st0 := {| heap := heap st; routers := []; old_routers := routers st; all_routers := []; by_hash := [];
                 by_name := []; guards := []; auths := []; parser := parser st |}).
  pose proof (inv_empty (routers st) (heap st) (parser st)) as HI0. fold st0 in HI0.
  destruct (create_all_inv (routers st) (List.length (heap st)) (r_ocond _ _ HR) d st0 [] HI0 W Hd (dup_auth_nodup d Ha))
    as [stF [pn [Ec [HI [Hm Hp]]]]]. cbn [app] in HI.
  (* the parser *)
  pose proof (r_good _ _ HR) as Hq. pose proof (r_attrs _ _ HR) as Hat.
  assert (Hfeed : feed (parser st0) (render_doc d ++ [OKL]) =
                  ({| ps := waiting_r; attrs := attrs (doc_end (parser st) d) |}, doc_out None d, None)).
  { cbn [st0 parser]. destruct (parser st) as [q a]. cbn [ps attrs] in Hq, Hat. subst a.
    rewrite (feed_doc d q None [OKL] (wf_doc_parts d W) Hq).
    cbn [feed]. destruct (doc_end {| ps := q; attrs := None |} d) as [q2 a2]. unfold OKL. rewrite step_ok.
    cbn [attrs]. now rewrite app_nil_r. }
  pose proof (doc_out_all d (parser st)) as Hall. rewrite Hat in Hall. cbn [emit_pending app] in Hall.
  rewrite (take_lines_gen st0 _ _ _ Hfeed). cbn [attrs ps]. rewrite Hall, Ec.
  eexists. split; [reflexivity|].
  set (p2 := {| ps := waiting_r; attrs := None |}).
  assert (HI2 : Inv true (routers st) (List.length (heap st)) (cleaned (set_parser stF p2)) pn)
    by (apply inv_cleaned, set_parser_inv, HI).
  change {| heap := heap (set_parser stF p2); routers := drop_none (routers (set_parser stF p2));
            old_routers := old_routers (set_parser stF p2); all_routers := all_routers (set_parser stF p2);
            by_hash := by_hash (set_parser stF p2); by_name := by_name (set_parser stF p2);
            guards := guards (set_parser stF p2); auths := auths (set_parser stF p2);
            parser := parser (set_parser stF p2) |} with (cleaned (set_parser stF p2)).
  rewrite <- Hm. split; [|split].
  - apply (ready_of_inv _ _ _ _ _ HI2); reflexivity.
  - apply (view_ok_holds true _ _ _ pn extra HI2); now rewrite Hm.
  - now apply (identity_holds true st pd _ pn _ pv HR HI2).
Qed.

Lemma boot_doc_ok d extra : case_ok (d, extra) = true ->
  exists st', boot_doc tinit (render_doc d) = Some (st', None) /\ Ready st' d
              /\ view_ok d (view_of st' (doc_keys d ++ extra) None) = true.
Proof.
  intros Hc. destruct (case_ok_parts d extra Hc) as [W [Hd [Ha Hx]]].
  pose proof (inv_empty [] [] pinit) as HI0. change (Inv false [] 0 tinit []) in HI0.
  destruct (create_all_inv [] 0 ocond_nil d tinit [] HI0 W Hd (dup_auth_nodup d Ha)) as [stF [pn [Ec [HI [Hm Hp]]]]].
  cbn [app] in HI.
  assert (Hfeed : feed (parser tinit) (NSALL :: render_doc d) =
                  (doc_end {| ps := waiting_r; attrs := None |} d, doc_out None d, None)).
  { cbn [tinit parser]. unfold pinit, NSALL. cbn [feed]. change md_initial with waiting_r. rewrite step_nsall.
    rewrite <- (app_nil_r (render_doc d)).
    rewrite (feed_doc d waiting_r None [] (wf_doc_parts d W) eq_refl).
    cbn [feed app]. destruct (doc_end _ d). now rewrite app_nil_r. }
  pose proof (doc_out_all d {| ps := waiting_r; attrs := None |}) as Hall. cbn [attrs emit_pending app] in Hall.
  unfold boot_doc. rewrite (take_lines_gen tinit _ _ _ Hfeed). rewrite Hall, Ec.
  eexists. split; [reflexivity|].
  set (p2 := {| ps := ps (doc_end {| ps := waiting_r; attrs := None |} d); attrs := None |}).
  assert (HI2 : Inv false [] 0 (set_parser stF p2) pn) by (apply set_parser_inv, HI).
  rewrite <- Hm. split.
  - apply (ready_of_inv _ _ _ _ _ HI2); [|reflexivity]. cbn [set_parser parser p2 ps].
    apply (doc_end_good d {| ps := waiting_r; attrs := None |}). reflexivity.
  - apply (view_ok_holds false _ _ _ pn extra HI2); now rewrite Hm.
Qed.

Lemma run_events_ok : forall ds st pd (pv : view),
  Ready st pd -> v_byhash pv = by_hash st -> forallb case_ok ds = true ->
  exists vs, run_events st ds = Some vs /\ oracle_from pd pv (map fst ds) vs = true.
Proof.
  induction ds as [|[d extra] ds IH]; intros st pd pv HR Hpv Hc.
  - exists []. split; reflexivity.
  - cbn [forallb] in Hc. apply andb_true_iff in Hc as [Hc1 Hc2].
    destruct (event_doc_ok st pd d extra pv HR Hpv Hc1) as [st' [E [HR' [Hv Hi]]]].
    destruct (IH st' d (view_of st' (doc_keys d ++ extra) None) HR' eq_refl Hc2) as [vs [E2 Ho]].
    exists (view_of st' (doc_keys d ++ extra) None :: vs). cbn [run_events map fst oracle_from].
    rewrite E, E2. cbn [option_map]. split; [reflexivity|]. now rewrite Hv, Hi, Ho.
Qed.

Theorem run_oracle_ok ds : ds <> [] -> forallb case_ok ds = true ->
  exists vs, run ds = Some vs /\ oracle (map fst ds) vs = true.
Proof.
  intros Hne Hc. destruct ds as [|[d extra] ds]; [congruence|].
  cbn [forallb] in Hc. apply andb_true_iff in Hc as [Hc1 Hc2].
  destruct (boot_doc_ok d extra Hc1) as [st' [E [HR' Hv]]].
  destruct (run_events_ok ds st' d (view_of st' (doc_keys d ++ extra) None) HR' eq_refl Hc2) as [vs [E2 Ho]].
  exists (view_of st' (doc_keys d ++ extra) None :: vs). cbn [run map fst oracle].
  rewrite E, E2. cbn [option_map]. split; [reflexivity|]. now rewrite Hv, Ho.
Qed.
