(* C01: protocol-level segmentation independence.  Receiving a ++ b in one piece is the same as
   receiving a and then b: same observations, same final state -- for every reachable receive
   buffer, every state of the queue / FSM / listeners, every split point (also inside CR LF). *)
From Coq Require Import List Bool Ascii Arith NArith ZArith Lia.
From TxVerif Require Import Lib.Bytes Spec.Ctl Model.CtlTypes Gen.CtlFsmTable Model.Framing Model.CtlProto
  Proofs.FramingProofs Proofs.CtlParse Proofs.CtlFrame.
Import ListNotations.
Open Scope N_scope.

Section Seg.
  Variable lbehs : list (N * lbeh).
  Notation line_received := (line_received lbehs).
  Notation lines_received := (lines_received lbehs).
  Notation data_received := (data_received lbehs).

  (* processing lines without the length / disconnecting checks *)
  Fixpoint lr (s : pstate) (ls : list bytes) : res :=
    match ls with
    | [] => ret s
    | l :: ls' => andthen (line_received s l) (fun s1 => lr s1 ls')
    end.

  Lemma sb_self s : sb (p_buf s) (p_disc s) s = s.
  Proof. destruct s. reflexivity. Qed.

  Lemma line_received_keeps s l :
    let '(s1, _, _) := line_received s l in p_buf s1 = p_buf s /\ p_disc s1 = p_disc s.
  Proof.
    pose proof (line_received_fr lbehs (p_buf s) (p_disc s) s l) as H. rewrite sb_self in H.
    destruct (line_received s l) as [[s1 o] ok]. cbn [fr] in H. injection H as H.
    rewrite H. split; reflexivity.
  Qed.

  Lemma lr_fr b d ls : forall s, lr (sb b d s) ls = fr b d (lr s ls).
  Proof.
    induction ls as [|l ls IH]; intros s; cbn [lr]; [reflexivity|].
    rewrite line_received_fr. apply fr_andthen. exact IH.
  Qed.

  Lemma lr_app l1 l2 : forall s, lr s (l1 ++ l2) = andthen (lr s l1) (fun s1 => lr s1 l2).
  Proof.
    induction l1 as [|l l1 IH]; intros s; cbn [app lr].
    - now rewrite andthen_ret_l.
    - rewrite andthen_assoc. apply andthen_ext. exact IH.
  Qed.

  Lemma lr_keeps ls : forall s, let '(s1, _, _) := lr s ls in p_buf s1 = p_buf s /\ p_disc s1 = p_disc s.
  Proof.
    induction ls as [|l ls IH]; intros s; cbn [lr]; [split; reflexivity|].
    pose proof (line_received_keeps s l) as K. destruct (line_received s l) as [[s1 o1] ok1].
    unfold andthen. destruct ok1; [|exact K].
    specialize (IH s1). destruct (lr s1 ls) as [[s2 o2] ok2]. destruct K, IH. split; congruence.
  Qed.

  Lemma lines_received_lr ls : forall s, p_disc s = false -> forallb line_fits ls = true ->
    lines_received s ls = lr s ls.
  Proof.
    induction ls as [|l ls IH]; intros s D F; cbn [CtlProto.lines_received lr]; [reflexivity|].
    cbn [forallb] in F. apply andb_true_iff in F as [F1 F2]. rewrite D.
    unfold line_fits in F1. destruct (MAX_LENGTH <? nlen l); [discriminate|].
    pose proof (line_received_keeps s l) as K. destruct (line_received s l) as [[s1 o1] ok1].
    unfold andthen. destruct ok1; [|reflexivity]. destruct K as [_ K]. rewrite IH; [reflexivity|congruence|exact F2].
  Qed.

  (* one dataReceived call when nothing is too long *)
  Lemma data_received_lr s chunk ls b : p_disc s = false -> feed (p_buf s) chunk = (ls, b) ->
    forallb line_fits ls = true -> line_fits b = true ->
    data_received s chunk = fr b false (lr s ls).
  Proof.
    intros D F Hl Hb. unfold CtlProto.data_received. rewrite F, D.
    rewrite lines_received_lr by (exact Hl || reflexivity).
    change (upd_buf s b false) with (sb b false s). rewrite lr_fr.
    pose proof (lr_keeps ls s) as K. destruct (lr s ls) as [[s1 o1] ok1]. destruct K as [_ K].
    unfold fr, andthen. destruct ok1; [|reflexivity].
    cbn [sb upd_buf p_disc p_buf]. unfold line_fits in Hb. destruct (MAX_LENGTH <? nlen b); [discriminate|].
    cbn [negb andb]. unfold ret. now rewrite app_nil_r.
  Qed.

  Lemma feed_split c a b : stable c ->
    feed (rev c) (a ++ b) =
    (let '(l1, b1) := feed (rev c) a in let '(l2, b2) := feed b1 b in (l1 ++ l2, b2)).
  Proof.
    intros H. pose proof (feed_all_concat_gen c [a; b] H) as E1.
    pose proof (feed_all_concat_gen c [a ++ b] H) as E2.
    cbn [concat] in E1, E2. rewrite app_nil_r in E1, E2. rewrite <- E1 in E2. clear E1.
    cbn [feed_all] in E2. destruct (feed (rev c) (a ++ b)) as [l12 b12].
    destruct (feed (rev c) a) as [l1 b1]. destruct (feed b1 b) as [l2 b2].
    rewrite !app_nil_r in E2. exact E2.
  Qed.

  Lemma feed_keeps_stable c a : stable c -> stable (rev (snd (feed (rev c) a))).
  Proof.
    intros H. rewrite (feed_stable c a H). cbn [snd]. rewrite rev_involutive.
    apply (stable_scan [] c a H).
  Qed.

  (* same observations, same success flag, and the same state unless an exception escaped
     (after which the connection is dropped and the state is never used again) *)
  Definition same_outcome (r1 r2 : res) : Prop :=
    snd (fst r1) = snd (fst r2) /\ snd r1 = snd r2 /\ (snd r1 = true -> fst (fst r1) = fst (fst r2)).

  Theorem data_received_split s a b l1 b1 l2 b2 :
    stable (rev (p_buf s)) -> p_disc s = false ->
    feed (p_buf s) a = (l1, b1) -> feed b1 b = (l2, b2) ->
    forallb line_fits (l1 ++ l2) = true -> line_fits b1 = true -> line_fits b2 = true ->
    same_outcome (data_received s (a ++ b)) (andthen (data_received s a) (fun s1 => data_received s1 b)).
  Proof.
    intros St D F1 F2 Hl Hb1 Hb2.
    rewrite forallb_app in Hl. apply andb_true_iff in Hl as [Hl1 Hl2].
    assert (F12 : feed (p_buf s) (a ++ b) = (l1 ++ l2, b2)).
    { rewrite <- (rev_involutive (p_buf s)). rewrite feed_split by exact St.
      rewrite (rev_involutive (p_buf s)). now rewrite F1, F2. }
    rewrite (data_received_lr s (a ++ b) (l1 ++ l2) b2 D F12) by (rewrite ?forallb_app, ?Hl1, ?Hl2; auto).
    rewrite (data_received_lr s a l1 b1 D F1 Hl1 Hb1).
    rewrite lr_app.
    pose proof (lr_keeps l1 s) as K. destruct (lr s l1) as [[s1 o1] ok1]. destruct K as [_ K].
    destruct ok1.
    - cbn [fr andthen].
      assert (D1 : p_disc (sb b1 false s1) = false) by reflexivity.
      assert (Fb : feed (p_buf (sb b1 false s1)) b = (l2, b2)) by exact F2.
      rewrite (data_received_lr (sb b1 false s1) b l2 b2 D1 Fb Hl2 Hb2).
      rewrite lr_fr. destruct (lr s1 l2) as [[s2 o2] ok2]. unfold same_outcome. cbn. auto.
    - unfold same_outcome. cbn. repeat split; auto. discriminate.
  Qed.
End Seg.

(* ---- session level: splitting any chunk of a history in two leaves the flattened trace unchanged ---- *)
Section SessionSplit.
  Variable lbehs : list (N * lbeh).

  Theorem run_split s a b l1 b1 l2 b2 ops :
    stable (rev (p_buf s)) -> p_disc s = false ->
    feed (p_buf s) a = (l1, b1) -> feed b1 b = (l2, b2) ->
    forallb line_fits (l1 ++ l2) = true -> line_fits b1 = true -> line_fits b2 = true ->
    concat (run lbehs s (ORecv (a ++ b) :: ops)) = concat (run lbehs s (ORecv a :: ORecv b :: ops)).
  Proof.
    intros St D F1 F2 Hl Hb1 Hb2.
    pose proof (data_received_split lbehs s a b l1 b1 l2 b2 St D F1 F2 Hl Hb1 Hb2) as (Ho & Hk & Hs).
    cbn [run step]. unfold andthen in *.
    destruct (data_received lbehs s (a ++ b)) as [[s12 o12] ok12].
    destruct (data_received lbehs s a) as [[s1 o1] ok1].
    destruct ok1.
    - destruct (data_received lbehs s1 b) as [[s2 o2] ok2]. cbn [fst snd] in *. subst o12 ok12.
      destruct ok2.
      + rewrite (Hs eq_refl). cbn [concat]. now rewrite app_assoc.
      + cbn [concat]. now rewrite !app_nil_r.
    - cbn [fst snd] in *. subst o12 ok12. reflexivity.
  Qed.
End SessionSplit.
