(* C08: lemmas about the waits shared by Proofs/C08Close.v and Proofs/C08Full.v *)
From Coq Require Import List Bool Arith NArith Lia.
From TxVerif Require Import Lib.Bytes Lib.NList Spec.C07 Spec.C08 Model.State Model.StateNotify
  Proofs.NListProofs Proofs.C07Proofs Proofs.StateShape Proofs.C08Proofs Proofs.C08Refine.
Import ListNotations.
Open Scope N_scope.

(* ---------------------------------------------------------------- dones of the model's outputs *)
Lemma dones_app a b : dones (a ++ b) = dones a ++ dones b.
Proof. unfold dones. now rewrite map_app, concat_app. Qed.
Lemma dones_tell_c ls m o a fl : dones (tell_c ls m o a fl) = [].
Proof. unfold dones, tell_c. induction ls; cbn; auto. Qed.
Lemma dones_tell_s ls m o a fl : dones (tell_s ls m o a fl) = [].
Proof. unfold dones, tell_s. induction ls; cbn; auto. Qed.
Lemma dones_concat_quiet {A} (f : A -> list nev) l : (forall x, dones (f x) = []) -> dones (concat (map f l)) = [].
Proof. intros H. induction l as [|x t IH]; cbn [map concat]; [reflexivity|]. now rewrite dones_app, H, IH. Qed.
Lemma dones_map r ws : dones (map (fun w => NDone w r) ws) = map (fun w => (w, r)) ws.
Proof. unfold dones. induction ws as [|x t IH]; cbn in *; [reflexivity | now rewrite IH]. Qed.

Definition P0 : oneshot := OSPending [].

Lemma fire_spec t o r t' out : fire t o r = (t', out) ->
  (forall o', tget P0 t' o' = if o =? o' then match tget P0 t o with OSPending _ => OSFired r | f => f end else tget P0 t o') /\
  dones out = match tget P0 t o with OSPending ws => map (fun w => (w, r)) ws | OSFired _ => [] end.
Proof.
  unfold fire. fold P0. destruct (tget P0 t o) as [ws|r0] eqn:E; intros [= <- <-].
  - split; [|apply dones_map]. intros o'. rewrite tget_tset. reflexivity.
  - split; [|reflexivity]. intros o'. destruct (N.eqb_spec o o') as [<-|]; [exact E | reflexivity].
Qed.

Lemma dones_new (first : bool) ls o : dones (if first then tell_c ls M_NEW o 0 [] else []) = [].
Proof. destruct first; [apply dones_tell_c | reflexivity]. Qed.
Lemma dones_pathmatch ls o (oldpath : list (N * N)) (path : list hop) (kw : kws) :
  dones (match path, kw with
         | [], [] => []
         | _, _ => concat (map (fun h => tell_c ls M_EXTEND o (h_rid h) []) (skipn (length oldpath) path))
         end) = [].
Proof. destruct path; destruct kw; try reflexivity; apply dones_concat_quiet; intros; apply dones_tell_c. Qed.

Ltac dq := repeat (rewrite ?dones_app, ?dones_new, ?dones_pathmatch, ?dones_tell_c, ?dones_tell_s, ?app_nil_r, ?app_nil_l).

(* what a CIRC event does to the waits, when no close request is outstanding *)


(* ---------------------------------------------------------------- done_ok from membership facts *)
Lemma kfind_unique {V} (l : list (N * V)) w x :
  In (w, x) l -> (forall x', In (w, x') l -> x' = x) -> kfind fst w l = Some (w, x).
Proof.
  induction l as [|[a b] t IH]; intros Hin Hu; [destruct Hin|]. cbn [kfind fst].
  destruct (N.eqb_spec a w) as [->|E].
  - rewrite (Hu b (or_introl eq_refl)). reflexivity.
  - destruct Hin as [H|H]; [congruence|]. apply IH; [exact H|]. intros x' Hx'. apply Hu. now right.
Qed.

Lemma done_ok_intro must may es :
  NoDup (map fst (dones es)) ->
  (forall w r, In (w, r) (dones es) ->
     exists x, In (w, x) (must ++ may) /\ res_ok x r = true /\ (forall x', In (w, x') (must ++ may) -> x' = x)) ->
  (forall w x, In (w, x) must -> In w (map fst (dones es))) ->
  done_ok must may es = true.
Proof.
  intros Hnd Hd Hm. unfold done_ok. rewrite !andb_true_iff. split; [split|].
  - now apply nodupN_NoDup.
  - apply forallb_forall. intros [w r] Hin. destruct (Hd w r Hin) as [x [A [B C]]]. cbn [fst snd].
    now rewrite (kfind_unique _ w x A C).
  - apply forallb_forall. intros [w x] Hin. cbn [fst]. apply memN_In. eapply Hm; eauto.
Qed.

Lemma done_ok_none es : dones es = [] -> done_ok [] [] es = true.
Proof. intros H. unfold done_ok. now rewrite H. Qed.

(* ---------------------------------------------------------------- the refinement with waits (no close requests) *)

Definition info_ok (ss : sstate) (xs : xstate) (o : N) (c : ccell) : Prop :=
  let info := tget (info0 0) (l_cinfo (s_l ss)) o in
  let al := alive (l_cdict (s_l ss)) o in
  (c_state c = Some CBuilt -> oi_built info = true) /\
  (al = false <-> (c_state c = Some CClosed \/ c_state c = Some CFailed)) /\
  match tget P0 (wbs xs) o with
  | OSPending _ => oi_built info = false /\ al = true
  | OSFired (WOkC o') => o' = o /\ oi_built info = true
  | OSFired (WFail _ _ _) => oi_built info = false /\ al = false
  | OSFired _ => False
  end /\
  match tget P0 (wcs xs) o with
  | OSPending _ => al = true
  | OSFired r => r = WOkC o /\ al = false
  end.



(* holders without close machinery: just the two waiter tables *)

(* ---------------------------------------------------------------- ids in the waiter tables *)
Lemma count_tget_le {V} (h : V -> list N) (d : V) (w : N) t k : h d = [] ->
  (countN w (h (tget d t k)) <= countN w (tholders h t))%nat.
Proof.
  intros Hd. unfold tholders. induction t as [|p t IH]; cbn [map concat].
  - unfold tget; cbn [kfind]. rewrite Hd. cbn. lia.
  - rewrite (tget_cons d k p t), countN_app. destruct (fst p =? k); lia.
Qed.

Lemma count_tget_two {V} (h : V -> list N) (d : V) (w : N) t k k' : h d = [] -> k <> k' ->
  (countN w (h (tget d t k)) + countN w (h (tget d t k')) <= countN w (tholders h t))%nat.
Proof.
  intros Hd Hne. unfold tholders. induction t as [|p t IH]; cbn [map concat].
  - unfold tget; cbn [kfind]. rewrite Hd. cbn. lia.
  - rewrite !(tget_cons d _ p t), countN_app.
    destruct (N.eqb_spec (fst p) k) as [E1|E1]; destruct (N.eqb_spec (fst p) k') as [E2|E2]; try congruence.
    + pose proof (count_tget_le h d w t k' Hd). unfold tholders in H. lia.
    + pose proof (count_tget_le h d w t k Hd). unfold tholders in H. lia.
    + lia.
Qed.

Definition pend (t : list (N * oneshot)) (o : N) : list N := os_holders (tget P0 t o).


(* ---------------------------------------------------------------- generic consequences of the conservation law *)
Lemma hold_step xs o xs' es (used : list N) : x_op xs o = Some (xs', es) ->
  (forall w, (countN w (holders xs) <= 1)%nat) -> (forall w, In w (holders xs) -> In w used) ->
  (forall w, In w (req_id o) -> ~ In w used) ->
  (forall w, (countN w (holders xs') <= 1)%nat) /\ (forall w, In w (holders xs') -> In w (req_id o ++ used)).
Proof.
  intros X Hc Hu Hf.
  assert (B : forall w, (countN w (holders xs') <= countN w (holders xs) + countN w (req_id o))%nat).
  { intros w. pose proof (conservation xs o xs' es w X). lia. }
  assert (R1 : forall w, (countN w (req_id o) <= 1)%nat) by (intros w; destruct o; cbn; try lia; destruct (w =? _); lia).
  split.
  - intros w. specialize (B w). destruct (in_dec N.eq_dec w (req_id o)) as [i|n].
    + assert (countN w (holders xs) = O) by (apply countN_notin; intros H; apply (Hf w i); now apply Hu). specialize (R1 w). lia.
    + rewrite (countN_notin _ _ n) in B. specialize (Hc w). lia.
  - intros w Hw. apply in_or_app. destruct (in_dec N.eq_dec w (req_id o)) as [i|n]; [now left|right].
    apply Hu. apply countN_pos_In. pose proof (countN_In_pos _ _ Hw). specialize (B w). rewrite (countN_notin _ _ n) in B. lia.
Qed.

(* operations that only touch the listener tables *)
Definition listener_op (o : op) : bool :=
  match o with OAddCL _ | OAddSL _ | OCListen _ _ | OCUnlisten _ _ | OSListen _ _ | OSUnlisten _ _ => true | _ => false end.

Lemma x_op_listener xs o xs' es : listener_op o = true -> x_op xs o = Some (xs', es) ->
  base xs' = base xs /\ wbs xs' = wbs xs /\ wcs xs' = wcs xs /\ cclosing xs' = cclosing xs /\ sclosing xs' = sclosing xs /\
  cmds xs' = cmds xs /\ es = [].
Proof.
  destruct o; try discriminate; intros _; cbn [x_op].
  - intros [= <- <-]. repeat split.
  - intros [= <- <-]. repeat split.
  - destruct (get_c o (base xs)); [|discriminate]. intros [= <- <-]. repeat split.
  - destruct (get_c o (base xs)); [|discriminate]. destruct (memN l (tget [] (cls xs) o)); [|discriminate]. intros [= <- <-]. repeat split.
  - destruct (get_s o (base xs)); [|discriminate]. intros [= <- <-]. repeat split.
  - destruct (get_s o (base xs)); [|discriminate]. destruct (memN l (tget [] (sls xs) o)); [|discriminate]. intros [= <- <-]. repeat split.
Qed.

Lemma lstep_listener ls o ls' : listener_op o = true -> lstep ls o = Some ls' ->
  l_tv ls' = l_tv ls /\ l_cdict ls' = l_cdict ls /\ l_sdict ls' = l_sdict ls /\ l_nc ls' = l_nc ls /\ l_ns ls' = l_ns ls /\
  l_cinfo ls' = l_cinfo ls /\ l_sinfo ls' = l_sinfo ls /\ l_used ls' = l_used ls /\ l_nb ls' = l_nb ls /\ l_ncl ls' = l_ncl ls.
Proof.
  destruct o; try discriminate; intros _; cbn [lstep].
  - intros [= <-]. repeat split.
  - intros [= <-]. repeat split.
  - destruct (o <? l_nc ls); [|discriminate]. intros [= <-]. repeat split.
  - destruct ((o <? l_nc ls) && memN l (tget [] (l_cregs ls) o)); [|discriminate]. intros [= <-]. repeat split.
  - destruct (o <? l_ns ls); [|discriminate]. intros [= <-]. repeat split.
  - destruct ((o <? l_ns ls) && memN l (tget [] (l_sregs ls) o)); [|discriminate]. intros [= <-]. repeat split.
Qed.


Lemma info_ok_ext ss ss' xs xs' o c :
  l_cinfo (s_l ss') = l_cinfo (s_l ss) -> l_cdict (s_l ss') = l_cdict (s_l ss) -> wbs xs' = wbs xs -> wcs xs' = wcs xs ->
  info_ok ss xs o c -> info_ok ss' xs' o c.
Proof. intros A B C D. unfold info_ok. now rewrite A, B, C, D. Qed.



(* ---------------------------------------------------------------- when_built / when_closed requests *)
Definition use_w (ls : lstate) (w : N) : lstate := use_q ls w (l_nb ls) (l_ncl ls).

Lemma done_ok_single w x r : done_ok [(w, x)] [] [NDone w r] = res_ok x r.
Proof.
  unfold done_ok. cbn [dones map concat app fst snd nodupN memN negb andb forallb kfind].
  rewrite N.eqb_refl. cbn [orb andb]. now rewrite !andb_true_r.
Qed.



(* a when_built / when_closed request that has to wait: the id joins the waiter list of the object *)



(* ---------------------------------------------------------------- events *)
Lemma has_cmd_app a b : has_cmd (a ++ b) = has_cmd a || has_cmd b.
Proof. unfold has_cmd. apply existsb_app. Qed.
Lemma raised_app a b : raised (a ++ b) = raised a || raised b.
Proof. unfold raised. apply existsb_app. Qed.

Lemma only_dones_plain a : only_dones a -> has_cmd a = false /\ raised a = false.
Proof.
  induction a as [|e t IH]; intros H; [split; reflexivity|].
  destruct (H e (or_introl eq_refl)) as [w [r ->]]. destruct IH as [A B]; [intros e' He'; apply H; now right|].
  split; cbn; assumption.
Qed.
Lemma tell_c_plain ls m o a fl : has_cmd (tell_c ls m o a fl) = false /\ raised (tell_c ls m o a fl) = false.
Proof. unfold tell_c. induction ls as [|x t [A B]]; split; cbn; auto. Qed.
Lemma tell_s_plain ls m o a fl : has_cmd (tell_s ls m o a fl) = false /\ raised (tell_s ls m o a fl) = false.
Proof. unfold tell_s. induction ls as [|x t [A B]]; split; cbn; auto. Qed.
Lemma tells_c_plain ls sc : has_cmd (tells_c ls sc) = false /\ raised (tells_c ls sc) = false.
Proof.
  unfold tells_c. induction sc as [|[[[m o] a] fl] t [A B]]; [split; reflexivity|]. cbn [map concat].
  destruct (tell_c_plain ls m o a fl) as [C D]. rewrite has_cmd_app, raised_app, A, B, C, D. split; reflexivity.
Qed.
Lemma tells_s_plain ls sc : has_cmd (tells_s ls sc) = false /\ raised (tells_s ls sc) = false.
Proof.
  unfold tells_s. induction sc as [|[[[m o] a] fl] t [A B]]; [split; reflexivity|]. cbn [map concat].
  destruct (tell_s_plain ls m o a fl) as [C D]. rewrite has_cmd_app, raised_app, A, B, C, D. split; reflexivity.
Qed.
Lemma told_c_plain ls es sc : told_c ls es sc -> has_cmd es = false /\ raised es = false.
Proof.
  induction 1 as [|script rest sc T [A B]|a rest sc Ha T [A B]]; [split; reflexivity| |].
  - destruct (tells_c_plain ls script) as [C D]. rewrite has_cmd_app, raised_app, A, B, C, D. split; reflexivity.
  - destruct (only_dones_plain a Ha) as [C D]. rewrite has_cmd_app, raised_app, A, B, C, D. split; reflexivity.
Qed.
Lemma told_s_plain ls es sc : told_s ls es sc -> has_cmd es = false /\ raised es = false.
Proof.
  induction 1 as [|script rest sc T [A B]|a rest sc Ha T [A B]]; [split; reflexivity| |].
  - destruct (tells_s_plain ls script) as [C D]. rewrite has_cmd_app, raised_app, A, B, C, D. split; reflexivity.
  - destruct (only_dones_plain a Ha) as [C D]. rewrite has_cmd_app, raised_app, A, B, C, D. split; reflexivity.
Qed.

Lemma drop_done_nil ws : drop_done [] ws = ws.
Proof. unfold drop_done. cbn. induction ws; cbn; congruence. Qed.
Lemma mark_gone_other circ o ws : (forall w, In w ws -> w_circ w = negb circ) -> mark_gone circ o [] ws = ws.
Proof.
  unfold mark_gone. induction ws as [|w t IH]; intros H; cbn [map concat]; [reflexivity|].
  cbn [memN map]. rewrite (H w (or_introl eq_refl)). destruct circ; cbn [negb Bool.eqb andb app]; f_equal; apply IH; intros w' Hw'; apply H; now right.
Qed.

Lemma concat_map_nil {A B} (f : A -> list B) l : (forall x, In x l -> f x = []) -> concat (map f l) = [].
Proof. induction l as [|x t IH]; intros H; cbn; [reflexivity|]. rewrite (H x (or_introl eq_refl)), IH; auto. intros y Hy. apply H. now right. Qed.


(* ---- which object numbers a dict lists, after the event's own change ---- *)
Lemma alive_app d id o o' : alive (d ++ [(id, o)]) o' = alive d o' || (o' =? o).
Proof. unfold alive. rewrite map_app. cbn [map snd]. induction (map snd d) as [|x t IH]; cbn [memN app]; [now rewrite orb_false_r|]. rewrite IH. now rewrite orb_assoc. Qed.

Lemma alive_kdel_other d id o o' : NoDup (map fst d) -> In (id, o) d -> o' <> o ->
  alive (kdel fst id d) o' = alive d o'.
Proof.
  intros Hnd Hin Hne. unfold alive. induction d as [|[a b] t IH]; [destruct Hin|].
  cbn [map fst] in Hnd. inversion Hnd as [|? ? Hn Hd]; subst. cbn [kdel fst].
  destruct (N.eqb_spec a id) as [->|E].
  - destruct Hin as [H|H].
    + injection H as ->. cbn [map snd memN]. destruct (N.eqb_spec o' o); [congruence | reflexivity].
    + exfalso. apply Hn. change id with (fst (id, o)). now apply in_map.
  - destruct Hin as [H|H]; [congruence|]. cbn [map snd memN]. now rewrite IH.
Qed.

Lemma alive_kdel_self d id o : NoDup (map fst d) -> NoDup (map snd d) -> In (id, o) d -> alive (kdel fst id d) o = false.
Proof. intros A B C. unfold alive. apply memN_false. now apply kdel_fst_snd_notin. Qed.

Lemma alive_In d id o : In (id, o) d -> alive d o = true.
Proof. intros H. unfold alive. apply memN_In. change o with (snd (id, o)). now apply in_map. Qed.

Lemma oi_built_default a b t o : oi_built (tget (info0 a) t o) = oi_built (tget (info0 b) t o).
Proof. unfold tget. destruct (kfind fst o t); reflexivity. Qed.

(* ---- membership in the lists the specification builds from the open waits ---- *)
Lemma in_concat_map {A B} (f : A -> list B) l y : In y (concat (map f l)) <-> exists x, In x l /\ In y (f x).
Proof.
  rewrite in_concat. split.
  - intros [ys [H1 H2]]. apply in_map_iff in H1 as [x [<- Hx]]. eauto.
  - intros [x [Hx Hy]]. exists (f x). split; [now apply in_map | exact Hy].
Qed.

Lemma drop_done_In ds ws wr : In wr (drop_done ds ws) <-> In wr ws /\ ~ In (w_id wr) (map fst ds).
Proof. unfold drop_done. rewrite filter_In, negb_true_iff, memN_false. tauto. Qed.

Lemma mark_gone_In circ o ds ws wr :
  In wr (mark_gone circ o ds ws) <->
  exists w0, In w0 ws /\ ~ In (w_id w0) (map fst ds) /\
             wr = (if Bool.eqb (w_circ w0) circ && (w_obj w0 =? o)
                   then {| w_id := w_id w0; w_kind := w_kind w0; w_circ := w_circ w0; w_obj := w_obj w0;
                           w_gone_seen := true; w_pending_cmd := w_pending_cmd w0 |} else w0).
Proof.
  unfold mark_gone. rewrite in_concat_map. split.
  - intros [w0 [H0 H1]]. exists w0. split; [exact H0|].
    destruct (memN (w_id w0) (map fst ds)) eqn:M; [destruct H1|]. apply memN_false in M. split; [exact M|].
    destruct (Bool.eqb (w_circ w0) circ && (w_obj w0 =? o)); destruct H1 as [<-|[]]; reflexivity.
  - intros [w0 [H0 [H1 ->]]]. exists w0. split; [exact H0|]. apply memN_false in H1. rewrite H1.
    destruct (Bool.eqb (w_circ w0) circ && (w_obj w0 =? o)); now left.
Qed.

Lemma drop_done_ids_nodup ds ws : NoDup (map w_id ws) -> NoDup (map w_id (drop_done ds ws)).
Proof. unfold drop_done. apply NoDup_map_filter. Qed.

Lemma mark_gone_ids circ o ds ws : map w_id (mark_gone circ o ds ws) = map w_id (drop_done ds ws).
Proof.
  unfold mark_gone, drop_done. induction ws as [|w t IH]; [reflexivity|]. cbn [map concat filter].
  destruct (memN (w_id w) (map fst ds)); cbn [negb]; [exact IH|].
  rewrite map_app, IH. destruct (Bool.eqb (w_circ w) circ && (w_obj w =? o)); reflexivity.
Qed.

(* ---- the waits decided by a CIRC event ---- *)
Definition must_c (st : cstatus) (o : N) (ws : list wait) : list (N * want) :=
  let built := match st with CBuilt => true | _ => false end in
  let gone := c_terminal st in
  concat (map (fun w => match w_kind w with
                        | KBuilt => if built then [(w_id w, WantOkC o)] else if gone then [(w_id w, WantFail)] else []
                        | KClosed => if gone then [(w_id w, WantOkC o)] else []
                        | KClose => if gone && negb (w_pending_cmd w) then [(w_id w, WantOk)] else []
                        end) (filter (fun w => w_circ w && (w_obj w =? o)) ws)).
Definition may_c (st : cstatus) (o : N) (ws : list wait) : list (N * want) :=
  let gone := c_terminal st in
  concat (map (fun w => match w_kind w with
                        | KClose => if gone && w_pending_cmd w then [(w_id w, WantOk)] else []
                        | _ => []
                        end) (filter (fun w => w_circ w && (w_obj w =? o)) ws)).


Definition is_built (st : cstatus) : bool := match st with CBuilt => true | _ => false end.



Lemma map_fst_pairs {B} (r : B) (l : list N) : map fst (map (fun w => (w, r)) l) = l.
Proof. rewrite map_map. cbn [fst]. apply map_id. Qed.


(* ---------------------------------------------------------------- histories without close requests *)


Lemma spec_op_l ss o es ss' : spec_op ss o es = Some ss' -> lstep (s_l ss) o = Some (s_l ss').
Proof.
  unfold spec_op. destruct (lstep (s_l ss) o) as [ls'|]; [|discriminate].
  destruct (match o with OEv e => _ | _ => _ end) as [[ok op'] cq]. destruct ok; [|discriminate]. now intros [= <-].
Qed.


