(* C08: the wait clauses of the oracle on histories without close requests, and
   "a close wait never succeeds before its object is gone" on all legal histories *)
From Coq Require Import List Bool Arith NArith Lia.
From TxVerif Require Import Lib.Bytes Lib.NList Spec.C07 Spec.C08 Model.State Model.StateNotify
  Proofs.NListProofs Proofs.C07Proofs Proofs.StateShape Proofs.C08Proofs Proofs.C08Refine.
Import ListNotations.
Open Scope N_scope.

(* ---------------------------------------------------------------- dones of the model's outputs *)
Lemma dones_app a b : dones (a ++ b) = dones a ++ dones b.
Proof. unfold dones. now rewrite map_app, concat_app. Qed.
Lemma dones_tell_c ls m o a fl : dones (tell_c ls m o a fl) = [].
Proof. unfold dones, tell_c. induction ls; cbn; auto. Qed.
Lemma dones_tell_s ls m o a fl : dones (tell_s ls m o a fl) = [].
Proof. unfold dones, tell_s. induction ls; cbn; auto. Qed.
Lemma dones_concat_quiet {A} (f : A -> list nev) l : (forall x, dones (f x) = []) -> dones (concat (map f l)) = [].
Proof. intros H. induction l as [|x t IH]; cbn [map concat]; [reflexivity|]. now rewrite dones_app, H, IH. Qed.
Lemma dones_map r ws : dones (map (fun w => NDone w r) ws) = map (fun w => (w, r)) ws.
Proof. unfold dones. induction ws as [|x t IH]; cbn in *; [reflexivity | now rewrite IH]. Qed.

Definition P0 : oneshot := OSPending [].

Lemma fire_spec t o r t' out : fire t o r = (t', out) ->
  (forall o', tget P0 t' o' = if o =? o' then match tget P0 t o with OSPending _ => OSFired r | f => f end else tget P0 t o') /\
  dones out = match tget P0 t o with OSPending ws => map (fun w => (w, r)) ws | OSFired _ => [] end.
Proof.
  unfold fire. fold P0. destruct (tget P0 t o) as [ws|r0] eqn:E; intros [= <- <-].
  - split; [|apply dones_map]. intros o'. rewrite tget_tset. reflexivity.
  - split; [|reflexivity]. intros o'. destruct (N.eqb_spec o o') as [<-|]; [exact E | reflexivity].
Qed.

Lemma dones_new (first : bool) ls o : dones (if first then tell_c ls M_NEW o 0 [] else []) = [].
Proof. destruct first; [apply dones_tell_c | reflexivity]. Qed.
Lemma dones_pathmatch ls o (oldpath : list (N * N)) (path : list hop) (kw : kws) :
  dones (match path, kw with
         | [], [] => []
         | _, _ => concat (map (fun h => tell_c ls M_EXTEND o (h_rid h) []) (skipn (length oldpath) path))
         end) = [].
Proof. destruct path; destruct kw; try reflexivity; apply dones_concat_quiet; intros; apply dones_tell_c. Qed.

Ltac dq := repeat (rewrite ?dones_app, ?dones_new, ?dones_pathmatch, ?dones_tell_c, ?dones_tell_s, ?app_nil_r, ?app_nil_l).

(* what a CIRC event does to the waits, when no close request is outstanding *)
Lemma x_circ_waits s id st path kw s' es : cclosing s = [] ->
  x_circ s id st path kw = Some (s', es) ->
  let o := xc_obj s id in
  cclosing s' = [] /\ sclosing s' = sclosing s /\ cmds s' = cmds s /\
  match st with
  | CBuilt =>
      wcs s' = wcs s /\
      (forall o', tget P0 (wbs s') o' = if o =? o' then match tget P0 (wbs s) o with OSPending _ => OSFired (WOkC o) | f => f end
                                        else tget P0 (wbs s) o') /\
      dones es = match tget P0 (wbs s) o with OSPending ws => map (fun w => (w, WOkC o)) ws | OSFired _ => [] end
  | CClosed | CFailed =>
      exists cls r1 r2,
      (forall o', tget P0 (wcs s') o' = if o =? o' then match tget P0 (wcs s) o with OSPending _ => OSFired (WOkC o) | f => f end
                                        else tget P0 (wcs s) o') /\
      (forall o', tget P0 (wbs s') o' = if o =? o' then match tget P0 (wbs s) o with OSPending _ => OSFired (WFail cls r1 r2) | f => f end
                                        else tget P0 (wbs s) o') /\
      dones es = (match tget P0 (wcs s) o with OSPending ws => map (fun w => (w, WOkC o)) ws | OSFired _ => [] end)
                 ++ (match tget P0 (wbs s) o with OSPending ws => map (fun w => (w, WFail cls r1 r2)) ws | OSFired _ => [] end)
  | _ => wbs s' = wbs s /\ wcs s' = wcs s /\ dones es = []
  end.
Proof.
  intros Hc. unfold x_circ, xc_obj.
  destruct (step (base s) (ECirc id st path kw)) as [post|]; [|discriminate].
  set (o := match kfind fst id (circuits (base s)) with Some p => snd p | None => N.of_nat (length (cheap (base s))) end).
  assert (E : exists first oldpath, match kfind fst id (circuits (base s)) with
              | Some p => (false, snd p, match get_c (snd p) (base s) with Some c => c_path c | None => [] end)
              | None => (true, N.of_nat (length (cheap (base s))), [])
              end = (first, o, oldpath)).
  { unfold o. destruct (kfind fst id (circuits (base s))); eexists; eexists; reflexivity. }
  destruct E as [first [oldpath E]]. rewrite E. clear E.
  destruct st; cbv iota beta.
  - intros [= <- <-]. cbn [wbs wcs cclosing sclosing cmds]. repeat split; auto. now dq.
  - destruct (fire (wbs s) o (WOkC o)) as [wbs1 fired] eqn:F. intros [= <- <-]. cbn [wbs wcs cclosing sclosing cmds].
    destruct (fire_spec _ _ _ _ _ F) as [F1 F2]. repeat split; auto. dq. exact F2.
  - intros [= <- <-]. cbn [wbs wcs cclosing sclosing cmds]. repeat split; auto. now dq.
  - intros [= <- <-]. cbn [wbs wcs cclosing sclosing cmds]. repeat split; auto. now dq.
  - destruct (fire (wcs s) o (WOkC o)) as [wcs1 o_wc] eqn:F1. destruct (reason_of kw) as [r1 r2].
    destruct (fire (wbs s) o (WFail 2 r1 r2)) as [wbs1 o_wb] eqn:F2. intros [= <- <-]. cbn [wbs wcs cclosing sclosing cmds].
    destruct (fire_spec _ _ _ _ _ F1) as [A1 A2]. destruct (fire_spec _ _ _ _ _ F2) as [B1 B2].
    rewrite Hc. split; [reflexivity|]. split; [reflexivity|]. split; [reflexivity|].
    exists 2, r1, r2. split; [exact A1|]. split; [exact B1|]. dq. cbn [tfind kfind option_map dones map concat app].
    now rewrite A2, B2.
  - destruct (fire (wcs s) o (WOkC o)) as [wcs1 o_wc] eqn:F1. destruct (reason_of kw) as [r1 r2].
    destruct (fire (wbs s) o (WFail 1 r1 r2)) as [wbs1 o_wb] eqn:F2. intros [= <- <-]. cbn [wbs wcs cclosing sclosing cmds].
    destruct (fire_spec _ _ _ _ _ F1) as [A1 A2]. destruct (fire_spec _ _ _ _ _ F2) as [B1 B2].
    rewrite Hc. split; [reflexivity|]. split; [reflexivity|]. split; [reflexivity|].
    exists 1, r1, r2. split; [exact A1|]. split; [exact B1|]. dq. cbn [tfind kfind option_map dones map concat app].
    now rewrite A2, B2.
Qed.

Lemma x_stream_waits s id st cid host port kw s' es : sclosing s = [] ->
  x_stream s id st cid host port kw = Some (s', es) ->
  sclosing s' = [] /\ cclosing s' = cclosing s /\ cmds s' = cmds s /\ wbs s' = wbs s /\ wcs s' = wcs s /\ dones es = [].
Proof.
  intros Hc. unfold x_stream.
  destruct (step (base s) (EStream id st cid host port kw)) as [post|]; [|discriminate].
  destruct (match kfind fst id (streams (base s)) with Some p => _ | None => _ end) as [[first o] pc].
  intros [= <- <-]. cbn [wbs wcs cclosing sclosing cmds]. rewrite Hc.
  split; [now destruct (s_terminal st)|]. repeat split.
  rewrite dones_app.
  assert (A : dones (match st with
                     | SClosed | SFailed | SDetached => []
                     | _ => if cid =? 0 then [] else
                            match pc with
                            | Some _ => []
                            | None => match kfind fst cid (circuits (base s)) with
                                      | Some p => match get_c (snd p) (base s) with
                                                  | Some c => if memN o (c_streams c) then []
                                                              else tell_s (if first then dedupe (gsl s) else tget [] (sls s) o) MS_ATTACH o (snd p + 1) []
                                                  | None => []
                                                  end
                                      | None => []
                                      end
                            end
                     end) = []).
  { destruct st; try reflexivity; destruct (cid =? 0); try reflexivity; destruct pc; try reflexivity;
      destruct (kfind fst cid (circuits (base s))) as [p|]; try reflexivity; destruct (get_c (snd p) (base s)) as [c|]; try reflexivity;
      destruct (memN o (c_streams c)); try reflexivity; apply dones_tell_s. }
  rewrite A, app_nil_r. destruct st; cbn [tfind kfind option_map]; dq; reflexivity.
Qed.

(* ---------------------------------------------------------------- done_ok from membership facts *)
Lemma kfind_unique {V} (l : list (N * V)) w x :
  In (w, x) l -> (forall x', In (w, x') l -> x' = x) -> kfind fst w l = Some (w, x).
Proof.
  induction l as [|[a b] t IH]; intros Hin Hu; [destruct Hin|]. cbn [kfind fst].
  destruct (N.eqb_spec a w) as [->|E].
  - rewrite (Hu b (or_introl eq_refl)). reflexivity.
  - destruct Hin as [H|H]; [congruence|]. apply IH; [exact H|]. intros x' Hx'. apply Hu. now right.
Qed.

Lemma done_ok_intro must may es :
  NoDup (map fst (dones es)) ->
  (forall w r, In (w, r) (dones es) ->
     exists x, In (w, x) (must ++ may) /\ res_ok x r = true /\ (forall x', In (w, x') (must ++ may) -> x' = x)) ->
  (forall w x, In (w, x) must -> In w (map fst (dones es))) ->
  done_ok must may es = true.
Proof.
  intros Hnd Hd Hm. unfold done_ok. rewrite !andb_true_iff. split; [split|].
  - now apply nodupN_NoDup.
  - apply forallb_forall. intros [w r] Hin. destruct (Hd w r Hin) as [x [A [B C]]]. cbn [fst snd].
    now rewrite (kfind_unique _ w x A C).
  - apply forallb_forall. intros [w x] Hin. cbn [fst]. apply memN_In. eapply Hm; eauto.
Qed.

Lemma done_ok_none es : dones es = [] -> done_ok [] [] es = true.
Proof. intros H. unfold done_ok. now rewrite H. Qed.

(* ---------------------------------------------------------------- the refinement with waits (no close requests) *)
Definition good_wr (xs : xstate) (wr : wait) : Prop :=
  w_circ wr = true /\ w_gone_seen wr = false /\ w_pending_cmd wr = false /\
  match w_kind wr with
  | KBuilt => In (w_id wr) (os_holders (tget P0 (wbs xs) (w_obj wr)))
  | KClosed => In (w_id wr) (os_holders (tget P0 (wcs xs) (w_obj wr)))
  | KClose => False
  end.

Definition info_ok (ss : sstate) (xs : xstate) (o : N) (c : ccell) : Prop :=
  let info := tget (info0 0) (l_cinfo (s_l ss)) o in
  let al := alive (l_cdict (s_l ss)) o in
  (c_state c = Some CBuilt -> oi_built info = true) /\
  (al = false <-> (c_state c = Some CClosed \/ c_state c = Some CFailed)) /\
  match tget P0 (wbs xs) o with
  | OSPending _ => oi_built info = false /\ al = true
  | OSFired (WOkC o') => o' = o /\ oi_built info = true
  | OSFired (WFail _ _ _) => oi_built info = false /\ al = false
  | OSFired _ => False
  end /\
  match tget P0 (wcs xs) o with
  | OSPending _ => al = true
  | OSFired r => r = WOkC o /\ al = false
  end.

Record Rel2 (ss : sstate) (xs : xstate) : Prop := {
  q_rel : Rel (s_l ss) xs;
  q_cmdq : s_cmdq ss = []; q_cmds : cmds xs = []; q_cc : cclosing xs = []; q_sc : sclosing xs = [];
  q_info : forall o c, get_c o (base xs) = Some c -> info_ok ss xs o c;
  q_fresh : forall o, l_nc (s_l ss) <= o ->
            tget P0 (wbs xs) o = P0 /\ tget P0 (wcs xs) o = P0 /\ tget (info0 0) (l_cinfo (s_l ss)) o = info0 0;
  q_open : forall wr, In wr (s_open ss) <-> good_wr xs wr;
  q_open_nd : NoDup (map w_id (s_open ss));
  q_hold_cnt : forall w, (countN w (holders xs) <= 1)%nat;
  q_hold_used : forall w, In w (holders xs) -> In w (l_used (s_l ss))
}.

Lemma Rel2_init rts : Rel2 ss0 (xinit rts).
Proof.
  constructor; try reflexivity.
  - apply Rel_init.
  - intros o c H. discriminate H.
  - intros o _. repeat split.
  - intros wr. split; [intros [] |]. intros [_ [_ [_ H]]]. destruct (w_kind wr); cbn in H; tauto.
  - constructor.
  - intros w. cbn. lia.
  - intros w [].
Qed.

(* holders without close machinery: just the two waiter tables *)
Lemma holders_simple xs : cclosing xs = [] -> sclosing xs = [] -> cmds xs = [] ->
  holders xs = tholders os_holders (wbs xs) ++ tholders os_holders (wcs xs).
Proof. intros A B C. unfold holders. rewrite A, B, C. cbn. now rewrite !app_nil_r. Qed.

(* ---------------------------------------------------------------- ids in the waiter tables *)
Lemma count_tget_le {V} (h : V -> list N) (d : V) (w : N) t k : h d = [] ->
  (countN w (h (tget d t k)) <= countN w (tholders h t))%nat.
Proof.
  intros Hd. unfold tholders. induction t as [|p t IH]; cbn [map concat].
  - unfold tget; cbn [kfind]. rewrite Hd. cbn. lia.
  - rewrite (tget_cons d k p t), countN_app. destruct (fst p =? k); lia.
Qed.

Lemma count_tget_two {V} (h : V -> list N) (d : V) (w : N) t k k' : h d = [] -> k <> k' ->
  (countN w (h (tget d t k)) + countN w (h (tget d t k')) <= countN w (tholders h t))%nat.
Proof.
  intros Hd Hne. unfold tholders. induction t as [|p t IH]; cbn [map concat].
  - unfold tget; cbn [kfind]. rewrite Hd. cbn. lia.
  - rewrite !(tget_cons d _ p t), countN_app.
    destruct (N.eqb_spec (fst p) k) as [E1|E1]; destruct (N.eqb_spec (fst p) k') as [E2|E2]; try congruence.
    + pose proof (count_tget_le h d w t k' Hd). unfold tholders in H. lia.
    + pose proof (count_tget_le h d w t k Hd). unfold tholders in H. lia.
    + lia.
Qed.

Definition pend (t : list (N * oneshot)) (o : N) : list N := os_holders (tget P0 t o).

Section Ids.
  Variable xs : xstate.
  Hypothesis Hc : cclosing xs = [].
  Hypothesis Hs : sclosing xs = [].
  Hypothesis Hm : cmds xs = [].
  Hypothesis Hcnt : forall w, (countN w (holders xs) <= 1)%nat.

  Lemma hold_split (w : N) :
    countN w (holders xs) = (countN w (tholders os_holders (wbs xs)) + countN w (tholders os_holders (wcs xs)))%nat.
  Proof. rewrite (holders_simple xs Hc Hs Hm). apply countN_app. Qed.

  Lemma pend_b_in_holders w o : In w (pend (wbs xs) o) -> In w (holders xs).
  Proof.
    intros H. apply countN_pos_In. rewrite hold_split.
    pose proof (count_tget_le os_holders P0 w (wbs xs) o eq_refl). pose proof (countN_In_pos _ _ H). unfold pend in *. lia.
  Qed.
  Lemma pend_c_in_holders w o : In w (pend (wcs xs) o) -> In w (holders xs).
  Proof.
    intros H. apply countN_pos_In. rewrite hold_split.
    pose proof (count_tget_le os_holders P0 w (wcs xs) o eq_refl). pose proof (countN_In_pos _ _ H). unfold pend in *. lia.
  Qed.
  Lemma pend_b_nodup o : NoDup (pend (wbs xs) o).
  Proof.
    apply NoDup_of_count. intros w H. pose proof (countN_In_pos _ _ H).
    pose proof (count_tget_le os_holders P0 w (wbs xs) o eq_refl). pose proof (Hcnt w). rewrite hold_split in *. unfold pend in *. lia.
  Qed.
  Lemma pend_c_nodup o : NoDup (pend (wcs xs) o).
  Proof.
    apply NoDup_of_count. intros w H. pose proof (countN_In_pos _ _ H).
    pose proof (count_tget_le os_holders P0 w (wcs xs) o eq_refl). pose proof (Hcnt w). rewrite hold_split in *. unfold pend in *. lia.
  Qed.
  Lemma pend_b_b w o o' : In w (pend (wbs xs) o) -> In w (pend (wbs xs) o') -> o = o'.
  Proof.
    intros A B. destruct (N.eq_dec o o') as [E|E]; [exact E|exfalso].
    pose proof (countN_In_pos _ _ A). pose proof (countN_In_pos _ _ B).
    pose proof (count_tget_two os_holders P0 w (wbs xs) o o' eq_refl E). pose proof (Hcnt w). rewrite hold_split in *. unfold pend in *. lia.
  Qed.
  Lemma pend_c_c w o o' : In w (pend (wcs xs) o) -> In w (pend (wcs xs) o') -> o = o'.
  Proof.
    intros A B. destruct (N.eq_dec o o') as [E|E]; [exact E|exfalso].
    pose proof (countN_In_pos _ _ A). pose proof (countN_In_pos _ _ B).
    pose proof (count_tget_two os_holders P0 w (wcs xs) o o' eq_refl E). pose proof (Hcnt w). rewrite hold_split in *. unfold pend in *. lia.
  Qed.
  Lemma pend_b_c w o o' : In w (pend (wbs xs) o) -> In w (pend (wcs xs) o') -> False.
  Proof.
    intros A B. pose proof (countN_In_pos _ _ A). pose proof (countN_In_pos _ _ B).
    pose proof (count_tget_le os_holders P0 w (wbs xs) o eq_refl). pose proof (count_tget_le os_holders P0 w (wcs xs) o' eq_refl).
    pose proof (Hcnt w). rewrite hold_split in *. unfold pend in *. lia.
  Qed.
End Ids.

(* ---------------------------------------------------------------- generic consequences of the conservation law *)
Lemma hold_step xs o xs' es (used : list N) : x_op xs o = Some (xs', es) ->
  (forall w, (countN w (holders xs) <= 1)%nat) -> (forall w, In w (holders xs) -> In w used) ->
  (forall w, In w (req_id o) -> ~ In w used) ->
  (forall w, (countN w (holders xs') <= 1)%nat) /\ (forall w, In w (holders xs') -> In w (req_id o ++ used)).
Proof.
  intros X Hc Hu Hf.
  assert (B : forall w, (countN w (holders xs') <= countN w (holders xs) + countN w (req_id o))%nat).
  { intros w. pose proof (conservation xs o xs' es w X). lia. }
  assert (R1 : forall w, (countN w (req_id o) <= 1)%nat) by (intros w; destruct o; cbn; try lia; destruct (w =? _); lia).
  split.
  - intros w. specialize (B w). destruct (in_dec N.eq_dec w (req_id o)) as [i|n].
    + assert (countN w (holders xs) = O) by (apply countN_notin; intros H; apply (Hf w i); now apply Hu). specialize (R1 w). lia.
    + rewrite (countN_notin _ _ n) in B. specialize (Hc w). lia.
  - intros w Hw. apply in_or_app. destruct (in_dec N.eq_dec w (req_id o)) as [i|n]; [now left|right].
    apply Hu. apply countN_pos_In. pose proof (countN_In_pos _ _ Hw). specialize (B w). rewrite (countN_notin _ _ n) in B. lia.
Qed.

(* operations that only touch the listener tables *)
Definition listener_op (o : op) : bool :=
  match o with OAddCL _ | OAddSL _ | OCListen _ _ | OCUnlisten _ _ | OSListen _ _ | OSUnlisten _ _ => true | _ => false end.

Lemma x_op_listener xs o xs' es : listener_op o = true -> x_op xs o = Some (xs', es) ->
  base xs' = base xs /\ wbs xs' = wbs xs /\ wcs xs' = wcs xs /\ cclosing xs' = cclosing xs /\ sclosing xs' = sclosing xs /\
  cmds xs' = cmds xs /\ es = [].
Proof.
  destruct o; try discriminate; intros _; cbn [x_op].
  - intros [= <- <-]. repeat split.
  - intros [= <- <-]. repeat split.
  - destruct (get_c o (base xs)); [|discriminate]. intros [= <- <-]. repeat split.
  - destruct (get_c o (base xs)); [|discriminate]. destruct (memN l (tget [] (cls xs) o)); [|discriminate]. intros [= <- <-]. repeat split.
  - destruct (get_s o (base xs)); [|discriminate]. intros [= <- <-]. repeat split.
  - destruct (get_s o (base xs)); [|discriminate]. destruct (memN l (tget [] (sls xs) o)); [|discriminate]. intros [= <- <-]. repeat split.
Qed.

Lemma lstep_listener ls o ls' : listener_op o = true -> lstep ls o = Some ls' ->
  l_tv ls' = l_tv ls /\ l_cdict ls' = l_cdict ls /\ l_sdict ls' = l_sdict ls /\ l_nc ls' = l_nc ls /\ l_ns ls' = l_ns ls /\
  l_cinfo ls' = l_cinfo ls /\ l_sinfo ls' = l_sinfo ls /\ l_used ls' = l_used ls.
Proof.
  destruct o; try discriminate; intros _; cbn [lstep].
  - intros [= <-]. repeat split.
  - intros [= <-]. repeat split.
  - destruct (o <? l_nc ls); [|discriminate]. intros [= <-]. repeat split.
  - destruct ((o <? l_nc ls) && memN l (tget [] (l_cregs ls) o)); [|discriminate]. intros [= <-]. repeat split.
  - destruct (o <? l_ns ls); [|discriminate]. intros [= <-]. repeat split.
  - destruct ((o <? l_ns ls) && memN l (tget [] (l_sregs ls) o)); [|discriminate]. intros [= <-]. repeat split.
Qed.

Lemma good_wr_ext xs xs' wr : wbs xs' = wbs xs -> wcs xs' = wcs xs -> good_wr xs' wr <-> good_wr xs wr.
Proof. intros A B. unfold good_wr. now rewrite A, B. Qed.

Lemma info_ok_ext ss ss' xs xs' o c :
  l_cinfo (s_l ss') = l_cinfo (s_l ss) -> l_cdict (s_l ss') = l_cdict (s_l ss) -> wbs xs' = wbs xs -> wcs xs' = wcs xs ->
  info_ok ss xs o c -> info_ok ss' xs' o c.
Proof. intros A B C D. unfold info_ok. now rewrite A, B, C, D. Qed.

Lemma rel2_listener ss xs o ls' : Rel2 ss xs -> listener_op o = true -> lstep (s_l ss) o = Some ls' ->
  exists xs' es ss', x_op xs o = Some (xs', es) /\ spec_op ss o es = Some ss' /\ Rel2 ss' xs'.
Proof.
  intros Q Lo L. destruct (rel_op _ xs o ls' (q_rel _ _ Q) L) as [xs' [es [X [R' _]]]].
  destruct (x_op_listener xs o xs' es Lo X) as [Fb [F1 [F2 [F3 [F4 [F5 ->]]]]]].
  destruct (lstep_listener _ o ls' Lo L) as [E1 [E2 [E3 [E4 [E5 [E6 [E7 E8]]]]]]].
  exists xs', [], {| s_l := ls'; s_open := s_open ss; s_cmdq := s_cmdq ss |}.
  split; [exact X|]. split.
  - unfold spec_op. rewrite L. destruct o; try discriminate; reflexivity.
  - destruct Q. constructor; cbn [s_l s_open s_cmdq].
    + exact R'.
    + exact q_cmdq0.
    + congruence.
    + congruence.
    + congruence.
    + intros o' c G. rewrite Fb in G. apply (info_ok_ext ss _ xs xs'); auto.
    + intros o' Ho. rewrite E4 in Ho. rewrite F1, F2, E6. now apply q_fresh0.
    + intros wr. rewrite (good_wr_ext xs xs' wr F1 F2). apply q_open0.
    + exact q_open_nd0.
    + intros w. unfold holders. rewrite F1, F2, F3, F4, F5. apply q_hold_cnt0.
    + intros w. unfold holders. rewrite F1, F2, F3, F4, F5, E8. apply q_hold_used0.
Qed.

Lemma rel2_ack ss xs : Rel2 ss xs ->
  exists xs' es ss', x_op xs OAck = Some (xs', es) /\ spec_op ss OAck es = Some ss' /\ Rel2 ss' xs'.
Proof.
  intros Q. exists xs, [], {| s_l := s_l ss; s_open := s_open ss; s_cmdq := [] |}.
  split; [cbn [x_op]; now rewrite (q_cmds _ _ Q)|]. split.
  - unfold spec_op. cbn [lstep]. unfold spec_ack. now rewrite (q_cmdq _ _ Q).
  - destruct Q. constructor; cbn [s_l s_open s_cmdq]; auto.
Qed.

(* ---------------------------------------------------------------- when_built / when_closed requests *)
Definition use_w (ls : lstate) (w : N) : lstate :=
  {| l_tv := l_tv ls; l_cdict := l_cdict ls; l_sdict := l_sdict ls; l_nc := l_nc ls; l_ns := l_ns ls;
     l_cinfo := l_cinfo ls; l_sinfo := l_sinfo ls; l_cregs := l_cregs ls; l_sregs := l_sregs ls;
     l_gcl := l_gcl ls; l_gsl := l_gsl ls; l_used := w :: l_used ls |}.

Lemma rel2_used ss xs w : Rel2 ss xs -> Rel2 {| s_l := use_w (s_l ss) w; s_open := s_open ss; s_cmdq := s_cmdq ss |} xs.
Proof.
  intros Q. destruct Q. constructor; cbn [s_l s_open s_cmdq use_w l_nc l_cinfo l_cdict l_used]; auto.
  - apply (Rel_frame (s_l ss) _ xs xs q_rel0); reflexivity.
  - intros w' H. right. now apply q_hold_used0.
Qed.

Lemma done_ok_single w x r : done_ok [(w, x)] [] [NDone w r] = res_ok x r.
Proof.
  unfold done_ok. cbn [dones map concat app fst snd nodupN memN negb andb forallb kfind].
  rewrite N.eqb_refl. cbn [orb andb]. now rewrite !andb_true_r.
Qed.

Lemma open_ids_used ss xs wr : Rel2 ss xs -> In wr (s_open ss) -> In (w_id wr) (l_used (s_l ss)).
Proof.
  intros Q H. apply (q_hold_used _ _ Q). apply (q_open _ _ Q) in H. destruct H as [_ [_ [_ H]]].
  destruct (w_kind wr); [| |destruct H].
  - apply (pend_b_in_holders xs (q_cc _ _ Q) (q_sc _ _ Q) (q_cmds _ _ Q) _ _ H).
  - apply (pend_c_in_holders xs (q_cc _ _ Q) (q_sc _ _ Q) (q_cmds _ _ Q) _ _ H).
Qed.

Definition new_wait (w : N) (k : wkind) (o : N) : wait :=
  {| w_id := w; w_kind := k; w_circ := true; w_obj := o; w_gone_seen := false; w_pending_cmd := false |}.

(* a when_built / when_closed request that has to wait: the id joins the waiter list of the object *)
Lemma rel2_pending ss xs o w (built : bool) xs' ws :
  Rel2 ss xs -> o < l_nc (s_l ss) -> memN w (l_used (s_l ss)) = false ->
  x_op xs (if built then OWhenBuilt o w else OWhenClosed o w) = Some (xs', []) ->
  base xs' = base xs -> cls xs' = cls xs -> sls xs' = sls xs -> gcl xs' = gcl xs -> gsl xs' = gsl xs ->
  cclosing xs' = cclosing xs -> sclosing xs' = sclosing xs -> cmds xs' = cmds xs ->
  (if built then tget P0 (wbs xs) o = OSPending ws /\ wbs xs' = tset (wbs xs) o (OSPending (ws ++ [w])) /\ wcs xs' = wcs xs
   else tget P0 (wcs xs) o = OSPending ws /\ wcs xs' = tset (wcs xs) o (OSPending (ws ++ [w])) /\ wbs xs' = wbs xs) ->
  Rel2 {| s_l := use_w (s_l ss) w; s_open := s_open ss ++ [new_wait w (if built then KBuilt else KClosed) o]; s_cmdq := s_cmdq ss |} xs'.
Proof.
  intros Q Hlt Hfr X Fb F1 F2 F3 F4 F5 F6 F7 HT.
  assert (Hreq : req_id (if built then OWhenBuilt o w else OWhenClosed o w) = [w]) by (destruct built; reflexivity).
  destruct (hold_step xs _ xs' [] (l_used (s_l ss)) X (q_hold_cnt _ _ Q) (q_hold_used _ _ Q)) as [HC HU].
  { rewrite Hreq. intros w' [<-|[]]. now apply memN_false. }
  rewrite Hreq in HU.
  assert (TB : forall o', tget P0 (wbs xs') o' = if built && (o =? o') then OSPending (ws ++ [w]) else tget P0 (wbs xs) o').
  { intros o'. destruct built; cbn [andb]; destruct HT as [_ [E1 E2]]; [rewrite E1, tget_tset; reflexivity | now rewrite E2]. }
  assert (TC : forall o', tget P0 (wcs xs') o' = if negb built && (o =? o') then OSPending (ws ++ [w]) else tget P0 (wcs xs) o').
  { intros o'. destruct built; cbn [andb negb]; destruct HT as [_ [E1 E2]]; [now rewrite E2 | rewrite E1, tget_tset; reflexivity]. }
  destruct Q. constructor; cbn [s_l s_open s_cmdq use_w l_nc l_cinfo l_cdict l_used].
  - apply (Rel_frame (s_l ss) _ xs xs' q_rel0); auto.
  - exact q_cmdq0.
  - congruence.
  - congruence.
  - congruence.
  - intros o' c' G. rewrite Fb in G. destruct (q_info0 o' c' G) as [I1 [I2 [I3 I4]]].
    unfold info_ok. cbn [s_l use_w l_cinfo l_cdict]. split; [exact I1|]. split; [exact I2|]. rewrite TB, TC.
    destruct built; cbn [andb negb]; destruct (N.eqb_spec o o') as [<-|]; destruct HT as [E0 _]; rewrite ?E0 in *; auto.
  - intros o' Ho. rewrite TB, TC. assert (o =? o' = false) by (apply N.eqb_neq; lia). rewrite H, !andb_false_r. now apply q_fresh0.
  - intros wr. rewrite in_app_iff. cbn [In]. unfold good_wr. rewrite TB, TC. split.
    + intros [H|[<-|[]]].
      * apply q_open0 in H. destruct H as [A [B [C D]]]. split; [exact A|]. split; [exact B|]. split; [exact C|].
        destruct (w_kind wr); [| |exact D]; destruct built; cbn [andb negb]; try exact D;
          destruct (N.eqb_spec o (w_obj wr)) as [E|E]; try exact D; rewrite <- E in D; destruct HT as [E0 _]; rewrite E0 in D;
          cbn [os_holders] in *; apply in_or_app; now left.
      * cbn [new_wait w_circ w_gone_seen w_pending_cmd w_kind w_id w_obj]. repeat split.
        destruct built; cbn [andb negb]; rewrite N.eqb_refl; cbn [os_holders]; apply in_or_app; right; now left.
    + intros [A [B [C D]]].
      assert (Old : good_wr xs wr -> In wr (s_open ss) \/ new_wait w (if built then KBuilt else KClosed) o = wr \/ False) by (intros H; left; now apply q_open0).
      destruct (w_kind wr) eqn:Ek; [| |destruct D].
      * destruct built; cbn [andb negb] in D; [|apply Old; unfold good_wr; rewrite Ek; auto].
        destruct (N.eqb_spec o (w_obj wr)) as [E|E]; [|apply Old; unfold good_wr; rewrite Ek; auto].
        cbn [os_holders] in D. apply in_app_or in D as [D|[D|[]]].
        -- apply Old. unfold good_wr. rewrite Ek, <- E. destruct HT as [E0 _]. rewrite E0. auto.
        -- right. left. destruct wr; cbn in *. subst. reflexivity.
      * destruct built; cbn [andb negb] in D; [apply Old; unfold good_wr; rewrite Ek; auto|].
        destruct (N.eqb_spec o (w_obj wr)) as [E|E]; [|apply Old; unfold good_wr; rewrite Ek; auto].
        cbn [os_holders] in D. apply in_app_or in D as [D|[D|[]]].
        -- apply Old. unfold good_wr. rewrite Ek, <- E. destruct HT as [E0 _]. rewrite E0. auto.
        -- right. left. destruct wr; cbn in *. subst. reflexivity.
  - rewrite map_app. cbn [map new_wait w_id]. apply NoDup_app_end; [exact q_open_nd0|].
    intros Hi. apply in_map_iff in Hi as [wr [E Hwr]]. apply memN_false in Hfr. apply Hfr. rewrite <- E.
    apply q_hold_used0. apply q_open0 in Hwr. destruct Hwr as [_ [_ [_ D]]].
    destruct (w_kind wr); [| |destruct D].
    + apply (pend_b_in_holders xs q_cc0 q_sc0 q_cmds0 _ _ D).
    + apply (pend_c_in_holders xs q_cc0 q_sc0 q_cmds0 _ _ D).
  - exact HC.
  - intros w' H. apply HU in H. exact H.
Qed.

Lemma rel2_when_built ss xs o w ls' : Rel2 ss xs -> lstep (s_l ss) (OWhenBuilt o w) = Some ls' ->
  exists xs' es ss', x_op xs (OWhenBuilt o w) = Some (xs', es) /\ spec_op ss (OWhenBuilt o w) es = Some ss' /\ Rel2 ss' xs'.
Proof.
  intros Q L. pose proof L as L0. cbn [lstep] in L.
  destruct (N.ltb_spec o (l_nc (s_l ss))) as [Hlt|]; cbn [andb] in L; [|discriminate].
  destruct (memN w (l_used (s_l ss))) eqn:Hfr; cbn [negb] in L; [discriminate|]. injection L as <-.
  fold (use_w (s_l ss) w) in L0 |- *.
  pose proof (q_rel _ _ Q) as R.
  destruct (get_c o (base xs)) as [c|] eqn:G; [|exfalso; now apply (r_cex _ _ R o Hlt)].
  destruct (q_info _ _ Q o c G) as [I1 [I2 [I3 I4]]].
  unfold spec_op. rewrite L0. unfold spec_request.
  cbn [s_l]. set (info := tget (info0 0) (l_cinfo (s_l ss)) o) in *. set (al := alive (l_cdict (s_l ss)) o) in *.
  (* decided at once with result r *)
  assert (Now : forall r x, x_op xs (OWhenBuilt o w) = Some (xs, [NDone w r]) ->
                (if oi_built info then [(w, WantOkC o)] else if negb al then [(w, WantFail)] else []) = [(w, x)] ->
                res_ok x r = true ->
                exists xs' es ss', x_op xs (OWhenBuilt o w) = Some (xs', es) /\
                  (let '(ok, open', cmdq') :=
                     (no_notifs es && done_ok (if oi_built info then [(w, WantOkC o)] else if negb al then [(w, WantFail)] else []) [] es
                      && negb (has_cmd es) && negb (raised es),
                      if memN w (map fst (dones es)) then s_open ss
                      else s_open ss ++ [{| w_id := w; w_kind := KBuilt; w_circ := true; w_obj := o; w_gone_seen := negb al; w_pending_cmd := has_cmd es |}],
                      if has_cmd es then s_cmdq ss ++ [(w, kmem fst (oi_id info) (l_cdict (s_l ss)))] else s_cmdq ss) in
                   if ok then Some {| s_l := use_w (s_l ss) w; s_open := open'; s_cmdq := cmdq' |} else None) = Some ss' /\ Rel2 ss' xs').
  { intros r x X Hm Hr. exists xs, [NDone w r], {| s_l := use_w (s_l ss) w; s_open := s_open ss; s_cmdq := s_cmdq ss |}.
    split; [exact X|]. split; [|now apply rel2_used].
    rewrite Hm, done_ok_single, Hr. cbn [no_notifs circ_listeners_called stream_listeners_called map concat has_cmd existsb raised
                                         negb andb dones fst memN app]. now rewrite N.eqb_refl. }
  fold P0 in I3.
  destruct (c_state c) as [[]|] eqn:Ec;
    try (apply (Now (WOkC o) (WantOkC o)); [cbn [x_op]; now rewrite G, Ec | rewrite (I1 eq_refl); reflexivity | cbn; apply N.eqb_refl]).
  all: destruct (tget P0 (wbs xs) o) as [ws|r] eqn:Ew.
  all: try (destruct r as [o'| | |cls r1 r2]; try contradiction;
            [destruct I3 as [-> Hb]; apply (Now (WOkC o) (WantOkC o)); [cbn [x_op]; rewrite G, Ec; fold P0; now rewrite Ew | now rewrite Hb | cbn; apply N.eqb_refl]
            |destruct I3 as [Hb Ha]; apply (Now (WFail cls r1 r2) WantFail); [cbn [x_op]; rewrite G, Ec; fold P0; now rewrite Ew | now rewrite Hb, Ha | reflexivity]]).
  all: destruct I3 as [Hb Ha]; rewrite Hb, Ha; cbn [negb].
  all: set (xs' := {| base := base xs; cls := cls xs; sls := sls xs; gcl := gcl xs; gsl := gsl xs;
                      wbs := tset (wbs xs) o (OSPending (ws ++ [w])); wcs := wcs xs; cclosing := cclosing xs;
                      sclosing := sclosing xs; cmds := cmds xs |}).
  all: assert (X : x_op xs (OWhenBuilt o w) = Some (xs', [])) by (cbn [x_op]; rewrite G, Ec; fold P0; now rewrite Ew).
  all: exists xs', [], {| s_l := use_w (s_l ss) w; s_open := s_open ss ++ [new_wait w KBuilt o]; s_cmdq := s_cmdq ss |}.
  all: split; [exact X|]; split; [reflexivity|].
  all: apply (rel2_pending ss xs o w true xs' ws Q Hlt Hfr X); try reflexivity; repeat split; auto.
Qed.

Lemma rel2_when_closed ss xs o w ls' : Rel2 ss xs -> lstep (s_l ss) (OWhenClosed o w) = Some ls' ->
  exists xs' es ss', x_op xs (OWhenClosed o w) = Some (xs', es) /\ spec_op ss (OWhenClosed o w) es = Some ss' /\ Rel2 ss' xs'.
Proof.
  intros Q L. pose proof L as L0. cbn [lstep] in L.
  destruct (N.ltb_spec o (l_nc (s_l ss))) as [Hlt|]; cbn [andb] in L; [|discriminate].
  destruct (memN w (l_used (s_l ss))) eqn:Hfr; cbn [negb] in L; [discriminate|]. injection L as <-.
  fold (use_w (s_l ss) w) in L0 |- *.
  pose proof (q_rel _ _ Q) as R.
  destruct (get_c o (base xs)) as [c|] eqn:G; [|exfalso; now apply (r_cex _ _ R o Hlt)].
  destruct (q_info _ _ Q o c G) as [I1 [I2 [I3 I4]]].
  unfold spec_op. rewrite L0. unfold spec_request.
  cbn [s_l]. set (info := tget (info0 0) (l_cinfo (s_l ss)) o) in *. set (al := alive (l_cdict (s_l ss)) o) in *.
  assert (Now : x_op xs (OWhenClosed o w) = Some (xs, [NDone w (WOkC o)]) -> al = false ->
                exists xs' es ss', x_op xs (OWhenClosed o w) = Some (xs', es) /\
                  (let '(ok, open', cmdq') :=
                     (no_notifs es && done_ok (if negb al then [(w, WantOkC o)] else []) [] es
                      && negb (has_cmd es) && negb (raised es),
                      if memN w (map fst (dones es)) then s_open ss
                      else s_open ss ++ [{| w_id := w; w_kind := KClosed; w_circ := true; w_obj := o; w_gone_seen := negb al; w_pending_cmd := has_cmd es |}],
                      if has_cmd es then s_cmdq ss ++ [(w, kmem fst (oi_id info) (l_cdict (s_l ss)))] else s_cmdq ss) in
                   if ok then Some {| s_l := use_w (s_l ss) w; s_open := open'; s_cmdq := cmdq' |} else None) = Some ss' /\ Rel2 ss' xs').
  { intros X Ha. exists xs, [NDone w (WOkC o)], {| s_l := use_w (s_l ss) w; s_open := s_open ss; s_cmdq := s_cmdq ss |}.
    split; [exact X|]. split; [|now apply rel2_used].
    rewrite Ha. cbn [negb]. rewrite done_ok_single. cbn [res_ok]. rewrite N.eqb_refl.
    cbn [no_notifs circ_listeners_called stream_listeners_called map concat has_cmd existsb raised negb andb dones fst memN app].
    now rewrite N.eqb_refl. }
  fold P0 in I4.
  destruct (c_state c) as [[]|] eqn:Ec;
    try (apply Now; [cbn [x_op]; now rewrite G, Ec | apply I2; auto]).
  all: destruct (tget P0 (wcs xs) o) as [ws|r] eqn:Ew.
  all: try (destruct I4 as [-> Ha]; apply Now; [cbn [x_op]; rewrite G, Ec; fold P0; now rewrite Ew | exact Ha]).
  all: rewrite I4; cbn [negb].
  all: set (xs' := {| base := base xs; cls := cls xs; sls := sls xs; gcl := gcl xs; gsl := gsl xs; wbs := wbs xs;
                      wcs := tset (wcs xs) o (OSPending (ws ++ [w])); cclosing := cclosing xs;
                      sclosing := sclosing xs; cmds := cmds xs |}).
  all: assert (X : x_op xs (OWhenClosed o w) = Some (xs', [])) by (cbn [x_op]; rewrite G, Ec; fold P0; now rewrite Ew).
  all: exists xs', [], {| s_l := use_w (s_l ss) w; s_open := s_open ss ++ [new_wait w KClosed o]; s_cmdq := s_cmdq ss |}.
  all: split; [exact X|]; split; [reflexivity|].
  all: apply (rel2_pending ss xs o w false xs' ws Q Hlt Hfr X); try reflexivity; repeat split; auto.
Qed.

(* ---------------------------------------------------------------- events *)
Lemma has_cmd_app a b : has_cmd (a ++ b) = has_cmd a || has_cmd b.
Proof. unfold has_cmd. apply existsb_app. Qed.
Lemma raised_app a b : raised (a ++ b) = raised a || raised b.
Proof. unfold raised. apply existsb_app. Qed.

Lemma only_dones_plain a : only_dones a -> has_cmd a = false /\ raised a = false.
Proof.
  induction a as [|e t IH]; intros H; [split; reflexivity|].
  destruct (H e (or_introl eq_refl)) as [w [r ->]]. destruct IH as [A B]; [intros e' He'; apply H; now right|].
  split; cbn; assumption.
Qed.
Lemma tell_c_plain ls m o a fl : has_cmd (tell_c ls m o a fl) = false /\ raised (tell_c ls m o a fl) = false.
Proof. unfold tell_c. induction ls as [|x t [A B]]; split; cbn; auto. Qed.
Lemma tell_s_plain ls m o a fl : has_cmd (tell_s ls m o a fl) = false /\ raised (tell_s ls m o a fl) = false.
Proof. unfold tell_s. induction ls as [|x t [A B]]; split; cbn; auto. Qed.
Lemma tells_c_plain ls sc : has_cmd (tells_c ls sc) = false /\ raised (tells_c ls sc) = false.
Proof.
  unfold tells_c. induction sc as [|[[[m o] a] fl] t [A B]]; [split; reflexivity|]. cbn [map concat].
  destruct (tell_c_plain ls m o a fl) as [C D]. rewrite has_cmd_app, raised_app, A, B, C, D. split; reflexivity.
Qed.
Lemma tells_s_plain ls sc : has_cmd (tells_s ls sc) = false /\ raised (tells_s ls sc) = false.
Proof.
  unfold tells_s. induction sc as [|[[[m o] a] fl] t [A B]]; [split; reflexivity|]. cbn [map concat].
  destruct (tell_s_plain ls m o a fl) as [C D]. rewrite has_cmd_app, raised_app, A, B, C, D. split; reflexivity.
Qed.
Lemma told_c_plain ls es sc : told_c ls es sc -> has_cmd es = false /\ raised es = false.
Proof.
  induction 1 as [|script rest sc T [A B]|a rest sc Ha T [A B]]; [split; reflexivity| |].
  - destruct (tells_c_plain ls script) as [C D]. rewrite has_cmd_app, raised_app, A, B, C, D. split; reflexivity.
  - destruct (only_dones_plain a Ha) as [C D]. rewrite has_cmd_app, raised_app, A, B, C, D. split; reflexivity.
Qed.
Lemma told_s_plain ls es sc : told_s ls es sc -> has_cmd es = false /\ raised es = false.
Proof.
  induction 1 as [|script rest sc T [A B]|a rest sc Ha T [A B]]; [split; reflexivity| |].
  - destruct (tells_s_plain ls script) as [C D]. rewrite has_cmd_app, raised_app, A, B, C, D. split; reflexivity.
  - destruct (only_dones_plain a Ha) as [C D]. rewrite has_cmd_app, raised_app, A, B, C, D. split; reflexivity.
Qed.

Lemma drop_done_nil ws : drop_done [] ws = ws.
Proof. unfold drop_done. cbn. induction ws; cbn; congruence. Qed.
Lemma mark_gone_other circ o ws : (forall w, In w ws -> w_circ w = negb circ) -> mark_gone circ o [] ws = ws.
Proof.
  unfold mark_gone. induction ws as [|w t IH]; intros H; cbn [map concat]; [reflexivity|].
  cbn [memN map]. rewrite (H w (or_introl eq_refl)). destruct circ; cbn [negb Bool.eqb andb app]; f_equal; apply IH; intros w' Hw'; apply H; now right.
Qed.

Lemma concat_map_nil {A B} (f : A -> list B) l : (forall x, In x l -> f x = []) -> concat (map f l) = [].
Proof. induction l as [|x t IH]; intros H; cbn; [reflexivity|]. rewrite (H x (or_introl eq_refl)), IH; auto. intros y Hy. apply H. now right. Qed.

Lemma rel2_stream ss xs id st cid host port kw ls' :
  Rel2 ss xs -> lstep (s_l ss) (OEv (EStream id st cid host port kw)) = Some ls' ->
  exists xs' es ss', x_op xs (OEv (EStream id st cid host port kw)) = Some (xs', es) /\
                     spec_op ss (OEv (EStream id st cid host port kw)) es = Some ss' /\ Rel2 ss' xs'.
Proof.
  intros Q L. pose proof (q_rel _ _ Q) as R.
  destruct (rel_stream _ xs id st cid host port kw ls' R L) as [xs' [es [X [R' Nk]]]].
  destruct (x_stream_waits _ _ _ _ _ _ _ _ _ (q_sc _ _ Q) X) as [F1 [F2 [F3 [F4 [F5 Dn]]]]].
  destruct (x_stream_told _ _ _ _ _ _ _ _ _ X) as [Eb [T _]]. destruct (told_s_plain _ _ _ T) as [Hc Hr].
  assert (AllC : forall w, In w (s_open ss) -> w_circ w = true) by (intros w Hw; apply (q_open _ _ Q) in Hw; now destruct Hw).
  exists xs', es, {| s_l := ls'; s_open := s_open ss; s_cmdq := s_cmdq ss |}.
  split; [exact X|]. split.
  - unfold spec_op. rewrite L. unfold spec_event. cbn [s_l].
    destruct (locate id (l_sdict (s_l ss)) (l_ns (s_l ss))) as [first o].
    assert (Mine : filter (fun w => negb (w_circ w) && (w_obj w =? o)) (s_open ss) = []).
    { induction (s_open ss) as [|w t IH]; [reflexivity|]. cbn [filter]. rewrite (AllC w (or_introl eq_refl)). cbn [negb andb].
      apply IH. intros w' Hw'. apply AllC. now right. }
    rewrite Mine. cbn [map concat]. rewrite Nk, (done_ok_none es Dn), Hc, Hr. cbn [andb negb].
    rewrite Dn. rewrite drop_done_nil, (mark_gone_other false o (s_open ss) AllC). now destruct (s_terminal st).
  - cbn [lstep] in L. destruct (negb (ev_legal (l_tv (s_l ss)) (EStream id st cid host port kw))); [discriminate|].
    destruct (locate id (l_sdict (s_l ss)) (l_ns (s_l ss))) as [first o]. injection L as <-.
    destruct (stream_event_shape (base xs) id st cid host port kw (base xs') (r_wf _ _ R) Eb) as [[Sc1 [Sc2 Sc3]] _].
    assert (F1' : sclosing xs' = sclosing xs) by (rewrite F1; symmetry; exact (q_sc _ _ Q)).
    destruct Q. constructor; cbn [s_l s_open s_cmdq l_nc l_cinfo l_cdict l_used].
    + exact R'.
    + exact q_cmdq0.
    + congruence.
    + congruence.
    + exact F1.
    + intros o' c' G'. pose proof (Sc3 o') as S3. rewrite G' in S3. cbn [option_map] in S3.
      destruct (get_c o' (base xs)) as [c0|] eqn:G0; [|discriminate]. cbn [option_map] in S3. injection S3 as S3a S3b S3c.
      destruct (q_info0 o' c0 G0) as [I1 [I2 [I3 I4]]]. unfold info_ok. cbn [s_l l_cinfo l_cdict]. rewrite F4, F5, S3b. auto.
    + intros o' Ho. rewrite F4, F5. now apply q_fresh0.
    + intros wr. rewrite (good_wr_ext xs xs' wr F4 F5). apply q_open0.
    + exact q_open_nd0.
    + intros w. unfold holders. rewrite F1', F2, F3, F4, F5. apply q_hold_cnt0.
    + intros w. unfold holders. rewrite F1', F2, F3, F4, F5. apply q_hold_used0.
Qed.

(* ---- which object numbers a dict lists, after the event's own change ---- *)
Lemma alive_app d id o o' : alive (d ++ [(id, o)]) o' = alive d o' || (o' =? o).
Proof. unfold alive. rewrite map_app. cbn [map snd]. induction (map snd d) as [|x t IH]; cbn [memN app]; [now rewrite orb_false_r|]. rewrite IH. now rewrite orb_assoc. Qed.

Lemma alive_kdel_other d id o o' : NoDup (map fst d) -> In (id, o) d -> o' <> o ->
  alive (kdel fst id d) o' = alive d o'.
Proof.
  intros Hnd Hin Hne. unfold alive. induction d as [|[a b] t IH]; [destruct Hin|].
  cbn [map fst] in Hnd. inversion Hnd as [|? ? Hn Hd]; subst. cbn [kdel fst].
  destruct (N.eqb_spec a id) as [->|E].
  - destruct Hin as [H|H].
    + injection H as ->. cbn [map snd memN]. destruct (N.eqb_spec o' o); [congruence | reflexivity].
    + exfalso. apply Hn. change id with (fst (id, o)). now apply in_map.
  - destruct Hin as [H|H]; [congruence|]. cbn [map snd memN]. now rewrite IH.
Qed.

Lemma alive_kdel_self d id o : NoDup (map fst d) -> NoDup (map snd d) -> In (id, o) d -> alive (kdel fst id d) o = false.
Proof. intros A B C. unfold alive. apply memN_false. now apply kdel_fst_snd_notin. Qed.

Lemma alive_In d id o : In (id, o) d -> alive d o = true.
Proof. intros H. unfold alive. apply memN_In. change o with (snd (id, o)). now apply in_map. Qed.

Lemma oi_built_default a b t o : oi_built (tget (info0 a) t o) = oi_built (tget (info0 b) t o).
Proof. unfold tget. destruct (kfind fst o t); reflexivity. Qed.

(* ---- membership in the lists the specification builds from the open waits ---- *)
Lemma in_concat_map {A B} (f : A -> list B) l y : In y (concat (map f l)) <-> exists x, In x l /\ In y (f x).
Proof.
  rewrite in_concat. split.
  - intros [ys [H1 H2]]. apply in_map_iff in H1 as [x [<- Hx]]. eauto.
  - intros [x [Hx Hy]]. exists (f x). split; [now apply in_map | exact Hy].
Qed.

Lemma drop_done_In ds ws wr : In wr (drop_done ds ws) <-> In wr ws /\ ~ In (w_id wr) (map fst ds).
Proof. unfold drop_done. rewrite filter_In, negb_true_iff, memN_false. tauto. Qed.

Lemma mark_gone_In circ o ds ws wr :
  In wr (mark_gone circ o ds ws) <->
  exists w0, In w0 ws /\ ~ In (w_id w0) (map fst ds) /\
             wr = (if Bool.eqb (w_circ w0) circ && (w_obj w0 =? o)
                   then {| w_id := w_id w0; w_kind := w_kind w0; w_circ := w_circ w0; w_obj := w_obj w0;
                           w_gone_seen := true; w_pending_cmd := w_pending_cmd w0 |} else w0).
Proof.
  unfold mark_gone. rewrite in_concat_map. split.
  - intros [w0 [H0 H1]]. exists w0. split; [exact H0|].
    destruct (memN (w_id w0) (map fst ds)) eqn:M; [destruct H1|]. apply memN_false in M. split; [exact M|].
    destruct (Bool.eqb (w_circ w0) circ && (w_obj w0 =? o)); destruct H1 as [<-|[]]; reflexivity.
  - intros [w0 [H0 [H1 ->]]]. exists w0. split; [exact H0|]. apply memN_false in H1. rewrite H1.
    destruct (Bool.eqb (w_circ w0) circ && (w_obj w0 =? o)); now left.
Qed.

Lemma drop_done_ids_nodup ds ws : NoDup (map w_id ws) -> NoDup (map w_id (drop_done ds ws)).
Proof. unfold drop_done. apply NoDup_map_filter. Qed.

Lemma mark_gone_ids circ o ds ws : map w_id (mark_gone circ o ds ws) = map w_id (drop_done ds ws).
Proof.
  unfold mark_gone, drop_done. induction ws as [|w t IH]; [reflexivity|]. cbn [map concat filter].
  destruct (memN (w_id w) (map fst ds)); cbn [negb]; [exact IH|].
  rewrite map_app, IH. destruct (Bool.eqb (w_circ w) circ && (w_obj w =? o)); reflexivity.
Qed.

(* ---- the waits decided by a CIRC event ---- *)
Definition must_c (st : cstatus) (o : N) (ws : list wait) : list (N * want) :=
  let built := match st with CBuilt => true | _ => false end in
  let gone := c_terminal st in
  concat (map (fun w => match w_kind w with
                        | KBuilt => if built then [(w_id w, WantOkC o)] else if gone then [(w_id w, WantFail)] else []
                        | KClosed => if gone then [(w_id w, WantOkC o)] else []
                        | KClose => if gone && negb (w_pending_cmd w) then [(w_id w, WantOk)] else []
                        end) (filter (fun w => w_circ w && (w_obj w =? o)) ws)).
Definition may_c (st : cstatus) (o : N) (ws : list wait) : list (N * want) :=
  let gone := c_terminal st in
  concat (map (fun w => match w_kind w with
                        | KClose => if gone && w_pending_cmd w then [(w_id w, WantOk)] else []
                        | _ => []
                        end) (filter (fun w => w_circ w && (w_obj w =? o)) ws)).

Section CircWaits.
  Variables (ss : sstate) (xs : xstate) (o : N).
  Hypothesis Q : Rel2 ss xs.
  Let PB := pend (wbs xs) o.
  Let PC := pend (wcs xs) o.

  Lemma open_b w : In w PB <-> In (new_wait w KBuilt o) (s_open ss).
  Proof.
    rewrite (q_open _ _ Q). unfold good_wr, new_wait. cbn. unfold PB, pend. tauto.
  Qed.
  Lemma open_c w : In w PC <-> In (new_wait w KClosed o) (s_open ss).
  Proof.
    rewrite (q_open _ _ Q). unfold good_wr, new_wait. cbn. unfold PC, pend. tauto.
  Qed.

  Lemma open_shape wr : In wr (s_open ss) ->
    (wr = new_wait (w_id wr) KBuilt (w_obj wr) /\ In (w_id wr) (pend (wbs xs) (w_obj wr))) \/
    (wr = new_wait (w_id wr) KClosed (w_obj wr) /\ In (w_id wr) (pend (wcs xs) (w_obj wr))).
  Proof.
    intros H. apply (q_open _ _ Q) in H. destruct H as [A [B [C D]]].
    destruct wr as [i k c ob g p]. cbn in *. subst. destruct k; [left | right | destruct D]; split; auto.
  Qed.

  Lemma open_id_unique wr wr' : In wr (s_open ss) -> In wr' (s_open ss) -> w_id wr = w_id wr' -> wr = wr'.
  Proof.
    intros A B E. pose proof (q_open_nd _ _ Q) as Hnd. revert A B E. induction (s_open ss) as [|x t IH]; [intros []|].
    cbn [map] in Hnd. inversion Hnd as [|? ? Hn Hd]; subst. intros [A|A] [B|B] E.
    - congruence.
    - exfalso. subst x. apply Hn. rewrite E. now apply in_map.
    - exfalso. subst x. apply Hn. rewrite <- E. now apply in_map.
    - now apply IH.
  Qed.

  Lemma may_c_nil st : may_c st o (s_open ss) = [].
  Proof.
    unfold may_c. apply concat_map_nil. intros wr H. apply filter_In in H as [H _].
    destruct (open_shape wr H) as [[-> _]|[-> _]]; reflexivity.
  Qed.

  Lemma must_c_In st w x : In (w, x) (must_c st o (s_open ss)) <->
    (In w PB /\ ((st = CBuilt /\ x = WantOkC o) \/ (c_terminal st = true /\ x = WantFail))) \/
    (In w PC /\ c_terminal st = true /\ x = WantOkC o).
  Proof.
    unfold must_c. rewrite in_concat_map. split.
    - intros [wr [Hf Hin]]. apply filter_In in Hf as [Hop Hf]. apply andb_true_iff in Hf as [_ Ho]. apply N.eqb_eq in Ho.
      destruct (open_shape wr Hop) as [[E Hp]|[E Hp]]; rewrite E in Hin; cbn [new_wait w_kind w_id] in Hin; rewrite Ho in Hp.
      + left. destruct st; cbn [c_terminal] in Hin; try destruct Hin as [[= <- <-]|[]]; try destruct Hin; split; auto.
      + right. destruct st; cbn [c_terminal] in Hin; try destruct Hin as [[= <- <-]|[]]; try destruct Hin; split; auto.
    - intros [[Hp Hc]|[Hp [Ht ->]]].
      + exists (new_wait w KBuilt o). split.
        * apply filter_In. split; [now apply open_b|]. cbn. now rewrite N.eqb_refl.
        * cbn [new_wait w_kind w_id]. destruct Hc as [[-> ->]|[Ht ->]]; [now left|].
          destruct st; try discriminate Ht; now left.
      + exists (new_wait w KClosed o). split.
        * apply filter_In. split; [now apply open_c|]. cbn. now rewrite N.eqb_refl.
        * cbn [new_wait w_kind w_id]. rewrite Ht. now left.
  Qed.

  Lemma PB_PC_disjoint w : In w PB -> In w PC -> False.
  Proof. apply (pend_b_c xs (q_cc _ _ Q) (q_sc _ _ Q) (q_cmds _ _ Q) (q_hold_cnt _ _ Q)). Qed.

  (* the completions the model reports on this event are exactly the ones demanded *)
  Lemma circ_done_ok st es rfail :
    (match rfail with WFail _ _ _ => True | _ => False end) ->
    dones es = (if c_terminal st then map (fun w => (w, WOkC o)) PC ++ map (fun w => (w, rfail)) PB
                else match st with CBuilt => map (fun w => (w, WOkC o)) PB | _ => [] end) ->
    done_ok (must_c st o (s_open ss)) (may_c st o (s_open ss)) es = true.
  Proof.
    intros Hf Hd. rewrite may_c_nil.
    pose proof (pend_b_nodup xs (q_cc _ _ Q) (q_sc _ _ Q) (q_cmds _ _ Q) (q_hold_cnt _ _ Q) o) as NB.
    pose proof (pend_c_nodup xs (q_cc _ _ Q) (q_sc _ _ Q) (q_cmds _ _ Q) (q_hold_cnt _ _ Q) o) as NC.
    fold PB in NB. fold PC in NC.
    assert (Uniq : forall w x x', In (w, x) (must_c st o (s_open ss)) -> In (w, x') (must_c st o (s_open ss)) -> x' = x).
    { intros w x x' A B. apply must_c_In in A. apply must_c_In in B.
      destruct A as [[A1 A2]|[A1 [A2 ->]]]; destruct B as [[B1 B2]|[B1 [B2 ->]]].
      - destruct A2 as [[-> ->]|[T ->]]; destruct B2 as [[E ->]|[T' ->]]; try reflexivity; try discriminate.
        subst st. discriminate T.
      - exfalso. eapply PB_PC_disjoint; eauto.
      - exfalso. eapply PB_PC_disjoint; eauto.
      - reflexivity. }
    apply done_ok_intro; rewrite ?app_nil_r.
    - rewrite Hd. destruct (c_terminal st).
      + rewrite map_app, !map_map. cbn [fst]. rewrite !map_id.
        apply NoDup_app_intro; auto. intros w A B. eapply PB_PC_disjoint; eauto.
      + destruct st; try constructor. rewrite map_map. cbn [fst]. now rewrite map_id.
    - intros w r Hin. rewrite Hd in Hin. destruct (c_terminal st) eqn:T.
      + apply in_app_or in Hin as [Hin|Hin]; apply in_map_iff in Hin as [w0 [[= <- <-] Hw]].
        * exists (WantOkC o). split; [apply must_c_In; right; auto|]. split; [cbn; apply N.eqb_refl|].
          intros x' Hx'. eapply Uniq; [apply must_c_In; right; eauto | exact Hx'].
        * exists WantFail. split; [apply must_c_In; left; auto|]. split; [destruct rfail; try contradiction; reflexivity|].
          intros x' Hx'. eapply Uniq; [apply must_c_In; left; eauto | exact Hx'].
      + destruct st; try destruct Hin; try discriminate T.
        apply in_map_iff in Hin as [w0 [[= <- <-] Hw]].
        exists (WantOkC o). split; [apply must_c_In; left; auto|]. split; [cbn; apply N.eqb_refl|].
        intros x' Hx'. eapply Uniq; [apply must_c_In; left; eauto | exact Hx'].
    - intros w x Hin. apply must_c_In in Hin. rewrite Hd.
      destruct Hin as [[Hp [[-> ->]|[T ->]]]|[Hp [T ->]]].
      + cbn [c_terminal]. rewrite map_map. cbn [fst]. now rewrite map_id.
      + rewrite T, map_app, !map_map. cbn [fst]. rewrite !map_id. apply in_or_app. now right.
      + rewrite T, map_app, !map_map. cbn [fst]. rewrite !map_id. apply in_or_app. now left.
  Qed.
End CircWaits.

Definition is_built (st : cstatus) : bool := match st with CBuilt => true | _ => false end.

Lemma good_wr_shape xs wr : good_wr xs wr <->
  (wr = new_wait (w_id wr) KBuilt (w_obj wr) /\ In (w_id wr) (pend (wbs xs) (w_obj wr))) \/
  (wr = new_wait (w_id wr) KClosed (w_obj wr) /\ In (w_id wr) (pend (wcs xs) (w_obj wr))).
Proof.
  unfold good_wr, pend. split.
  - intros [A [B [C D]]]. destruct wr as [i k c ob g p]. cbn in *. subst. destruct k; [left | right | destruct D]; split; auto.
  - intros [[-> H]|[-> H]]; cbn in *; auto.
Qed.

Lemma circ_open_ok ss xs xs' o st ds : Rel2 ss xs ->
  (forall o', pend (wbs xs') o' = if (is_built st || c_terminal st) && (o =? o') then [] else pend (wbs xs) o') ->
  (forall o', pend (wcs xs') o' = if c_terminal st && (o =? o') then [] else pend (wcs xs) o') ->
  map fst ds = (if c_terminal st then pend (wcs xs) o ++ pend (wbs xs) o else if is_built st then pend (wbs xs) o else []) ->
  forall wr, In wr (if c_terminal st then mark_gone true o ds (s_open ss) else drop_done ds (s_open ss)) <-> good_wr xs' wr.
Proof.
  intros Q TB TC Hds wr.
  pose proof (pend_b_b xs (q_cc _ _ Q) (q_sc _ _ Q) (q_cmds _ _ Q) (q_hold_cnt _ _ Q)) as BB.
  pose proof (pend_c_c xs (q_cc _ _ Q) (q_sc _ _ Q) (q_cmds _ _ Q) (q_hold_cnt _ _ Q)) as CC.
  pose proof (pend_b_c xs (q_cc _ _ Q) (q_sc _ _ Q) (q_cmds _ _ Q) (q_hold_cnt _ _ Q)) as BC.
  (* a record that survives is one on another object, and conversely *)
  assert (Key : good_wr xs' wr <-> (In wr (s_open ss) /\ ~ In (w_id wr) (map fst ds) /\
                                    (c_terminal st = true -> w_obj wr <> o))).
  { rewrite (good_wr_shape xs' wr), (q_open _ _ Q wr), (good_wr_shape xs wr), Hds, TB, TC. split.
    - intros [[E H]|[E H]].
      + destruct ((is_built st || c_terminal st) && (o =? w_obj wr)) eqn:Ec; [destruct H|].
        split; [left; auto|]. split.
        * destruct (c_terminal st) eqn:T; [|destruct (is_built st) eqn:Bu]; rewrite ?orb_true_r, ?orb_false_r in Ec; cbn [orb andb] in Ec.
          -- apply N.eqb_neq in Ec. intros Hi. apply in_app_or in Hi as [Hi|Hi]; [eapply BC; eauto | apply Ec; eapply BB; eauto].
          -- apply N.eqb_neq in Ec. intros Hi. apply Ec. eapply BB; eauto.
          -- intros [].
        * intros T. rewrite T, orb_true_r in Ec. cbn [andb] in Ec. apply N.eqb_neq in Ec. congruence.
      + destruct (c_terminal st && (o =? w_obj wr)) eqn:Ec; [destruct H|].
        split; [right; auto|]. split.
        * destruct (c_terminal st) eqn:T; [|destruct (is_built st) eqn:Bu]; cbn [orb andb] in Ec.
          -- apply N.eqb_neq in Ec. intros Hi. apply in_app_or in Hi as [Hi|Hi]; [apply Ec; eapply CC; eauto | eapply BC; eauto].
          -- intros Hi. eapply BC; eauto.
          -- intros [].
        * intros T. rewrite T in Ec. cbn [andb] in Ec. apply N.eqb_neq in Ec. congruence.
    - intros [[[E H]|[E H]] [Hn Ht]].
      + left. split; [exact E|].
        destruct ((is_built st || c_terminal st) && (o =? w_obj wr)) eqn:Ec; [|exact H].
        exfalso. apply andb_true_iff in Ec as [Ec1 Ec2]. apply N.eqb_eq in Ec2. rewrite <- Ec2 in H.
        destruct (c_terminal st) eqn:T; [now apply Ht|]. rewrite orb_false_r in Ec1. rewrite Ec1 in Hn. now apply Hn.
      + right. split; [exact E|].
        destruct (c_terminal st && (o =? w_obj wr)) eqn:Ec; [|exact H].
        exfalso. apply andb_true_iff in Ec as [Ec1 Ec2]. apply N.eqb_eq in Ec2. apply Ht; congruence. }
  rewrite Key. destruct (c_terminal st) eqn:T.
  - rewrite mark_gone_In. split.
    + intros [w0 [H0 [H1 ->]]].
      assert (Ho : w_obj w0 <> o).
      { intros Eo. apply H1. rewrite Hds.
        apply (q_open _ _ Q) in H0. apply good_wr_shape in H0. destruct H0 as [[_ H]|[_ H]]; rewrite Eo in H; apply in_or_app; auto. }
      apply N.eqb_neq in Ho. rewrite Ho, andb_false_r. apply N.eqb_neq in Ho. auto.
    + intros [H0 [H1 H2]]. exists wr. split; [exact H0|]. split; [exact H1|].
      specialize (H2 eq_refl). apply N.eqb_neq in H2. now rewrite H2, andb_false_r.
  - rewrite drop_done_In. split; [intros [A B]; repeat split; auto; discriminate | tauto].
Qed.

Lemma map_fst_pairs {B} (r : B) (l : list N) : map fst (map (fun w => (w, r)) l) = l.
Proof. rewrite map_map. cbn [fst]. apply map_id. Qed.

Lemma rel2_circ ss xs id st path kw ls' :
  Rel2 ss xs -> lstep (s_l ss) (OEv (ECirc id st path kw)) = Some ls' ->
  exists xs' es ss', x_op xs (OEv (ECirc id st path kw)) = Some (xs', es) /\
                     spec_op ss (OEv (ECirc id st path kw)) es = Some ss' /\ Rel2 ss' xs'.
Proof.
  intros Q L. pose proof (q_rel _ _ Q) as R. pose proof (r_wf _ _ R) as W.
  destruct (rel_circ _ xs id st path kw ls' R L) as [xs' [es [X [R' Nk]]]].
  destruct (x_circ_waits _ _ _ _ _ _ _ (q_cc _ _ Q) X) as [F1 [F2 [F3 Wst]]].
  destruct (x_circ_told _ _ _ _ _ _ _ X) as [Eb [T _]]. destruct (told_c_plain _ _ _ T) as [Hc Hr].
  set (o := xc_obj xs id) in *.
  assert (Eloc : locate id (l_cdict (s_l ss)) (l_nc (s_l ss)) = (xc_first xs id, o)).
  { unfold locate, xc_first, o, xc_obj. rewrite <- (r_cdict _ _ R), <- (r_nc _ _ R).
    destruct (kfind fst id (circuits (base xs))); reflexivity. }
  (* the tables after the event, and what was reported done *)
  assert (Tabs : exists rfail, match rfail with WFail _ _ _ => True | _ => False end /\
     (forall o', tget P0 (wbs xs') o' =
                 if o =? o' then match tget P0 (wbs xs) o with
                                 | OSPending ws => if c_terminal st then OSFired rfail else if is_built st then OSFired (WOkC o) else OSPending ws
                                 | f => f end
                 else tget P0 (wbs xs) o') /\
     (forall o', tget P0 (wcs xs') o' =
                 if o =? o' then match tget P0 (wcs xs) o with
                                 | OSPending ws => if c_terminal st then OSFired (WOkC o) else OSPending ws
                                 | f => f end
                 else tget P0 (wcs xs) o') /\
     dones es = (if c_terminal st then map (fun w => (w, WOkC o)) (pend (wcs xs) o) ++ map (fun w => (w, rfail)) (pend (wbs xs) o)
                 else match st with CBuilt => map (fun w => (w, WOkC o)) (pend (wbs xs) o) | _ => [] end)).
  { unfold pend.
    assert (Same : forall t, forall o', tget P0 t o' = if o =? o' then match tget P0 t o with OSPending ws => OSPending ws | f => f end else tget P0 t o').
    { intros t o'. destruct (N.eqb_spec o o') as [<-|]; [|reflexivity]. destruct (tget P0 t o); reflexivity. }
    destruct st; cbn [c_terminal is_built] in *.
    - destruct Wst as [A [B C]]. exists (WFail 0 0 0). split; [exact I|]. rewrite A, B. split; [apply Same|]. split; [apply Same | exact C].
    - destruct Wst as [A [B C]]. exists (WFail 0 0 0). split; [exact I|]. rewrite A. split; [|split; [apply Same|]].
      + intros o'. rewrite B. destruct (o =? o'); [|reflexivity]. destruct (tget P0 (wbs xs) o); reflexivity.
      + rewrite C. destruct (tget P0 (wbs xs) o); reflexivity.
    - destruct Wst as [A [B C]]. exists (WFail 0 0 0). split; [exact I|]. rewrite A, B. split; [apply Same|]. split; [apply Same | exact C].
    - destruct Wst as [A [B C]]. exists (WFail 0 0 0). split; [exact I|]. rewrite A, B. split; [apply Same|]. split; [apply Same | exact C].
    - destruct Wst as [cl [r1 [r2 [A [B C]]]]]. exists (WFail cl r1 r2). split; [exact I|]. split; [exact B|]. split; [exact A|].
      rewrite C. destruct (tget P0 (wcs xs) o); destruct (tget P0 (wbs xs) o); reflexivity.
    - destruct Wst as [cl [r1 [r2 [A [B C]]]]]. exists (WFail cl r1 r2). split; [exact I|]. split; [exact B|]. split; [exact A|].
      rewrite C. destruct (tget P0 (wcs xs) o); destruct (tget P0 (wbs xs) o); reflexivity. }
  destruct Tabs as [rfail [Hrf [TB [TC Hd]]]].
  assert (PBt : forall o', pend (wbs xs') o' = if (is_built st || c_terminal st) && (o =? o') then [] else pend (wbs xs) o').
  { intros o'. unfold pend. rewrite TB. destruct (N.eqb_spec o o') as [<-|]; [|now rewrite andb_false_r].
    rewrite andb_true_r. destruct (tget P0 (wbs xs) o); destruct (c_terminal st); destruct (is_built st); reflexivity. }
  assert (PCt : forall o', pend (wcs xs') o' = if c_terminal st && (o =? o') then [] else pend (wcs xs) o').
  { intros o'. unfold pend. rewrite TC. destruct (N.eqb_spec o o') as [<-|]; [|now rewrite andb_false_r].
    rewrite andb_true_r. destruct (tget P0 (wcs xs) o); destruct (c_terminal st); reflexivity. }
  assert (Hds : map fst (dones es) = (if c_terminal st then pend (wcs xs) o ++ pend (wbs xs) o
                                      else if is_built st then pend (wbs xs) o else [])).
  { rewrite Hd. destruct (c_terminal st); [now rewrite map_app, !map_fst_pairs|]. destruct st; cbn [is_built]; try reflexivity. apply map_fst_pairs. }
  set (open' := if c_terminal st then mark_gone true o (dones es) (s_open ss) else drop_done (dones es) (s_open ss)).
  exists xs', es, {| s_l := ls'; s_open := open'; s_cmdq := s_cmdq ss |}.
  split; [exact X|]. split.
  - unfold spec_op. rewrite L. unfold spec_event. cbn [s_l]. rewrite Eloc.
    change (concat (map _ (filter (fun w => w_circ w && (w_obj w =? o)) (s_open ss)))) with (must_c st o (s_open ss)) at 1.
    change (concat (map _ (filter (fun w => w_circ w && (w_obj w =? o)) (s_open ss)))) with (may_c st o (s_open ss)).
    rewrite Nk, (circ_done_ok ss xs o Q st es rfail Hrf Hd), Hc, Hr. reflexivity.
  - (* the new state *)
    destruct (circ_event_shape (base xs) id st path kw (base xs') W Eb) as [Sh1 [Sh2 [Sh3 [Sh4 [[c' [Gc' [Ic' Sc']]] Sh6]]]]].
    change (get_c o (base xs') = Some c') in Gc'.
    change (forall o', o' <> o -> get_c o' (base xs') = get_c o' (base xs)) in Sh6.
    pose proof L as L1. cbn [lstep] in L1.
    destruct (negb (ev_legal (l_tv (s_l ss)) (ECirc id st path kw))); [discriminate|].
    rewrite Eloc in L1. injection L1 as <-.
    set (d1 := if xc_first xs id then l_cdict (s_l ss) ++ [(id, o)] else l_cdict (s_l ss)) in *.
    (* facts about the object of the event, before it *)
    assert (Hin1 : In (id, o) d1 /\ NoDup (map fst d1) /\ NoDup (map snd d1) /\
                   (xc_first xs id = false -> In (id, o) (l_cdict (s_l ss))) /\
                   (xc_first xs id = true -> o = l_nc (s_l ss))).
    { unfold d1, o, xc_obj, xc_first. rewrite <- (r_cdict _ _ R), <- (r_nc _ _ R).
      destruct (kfind fst id (circuits (base xs))) as [p|] eqn:Fk.
      - destruct (kfind_Some fst _ _ _ Fk) as [Ep Hp]. destruct p as [a b]. cbn [fst snd] in *. subst a.
        split; [exact Hp|]. split; [exact (wf_cids _ W)|]. split; [exact (wf_coids _ W)|]. split; [auto | discriminate].
      - split; [apply in_or_app; right; now left|]. split; [|split; [|split; [discriminate | reflexivity]]].
        + rewrite map_app. cbn [map fst]. apply NoDup_app_end; [exact (wf_cids _ W) | now apply kfind_None].
        + rewrite map_app. cbn [map snd]. apply NoDup_app_end; [exact (wf_coids _ W)|].
          intros Hi. apply in_map_iff in Hi as [p [Ep Hp]]. destruct (wf_clive _ W p Hp) as [c0 [G0 _]].
          pose proof (get_c_bound _ _ _ W G0). lia. }
    destruct Hin1 as [Hin1 [Nf1 [Ns1 [Hex Hnew]]]].
    assert (Al' : alive (if c_terminal st then kdel fst id d1 else d1) o = negb (c_terminal st)).
    { destruct (c_terminal st); cbn [negb]; [now apply alive_kdel_self | now apply (alive_In d1 id o)]. }
    assert (AlO : forall o', o' <> o -> alive (if c_terminal st then kdel fst id d1 else d1) o' = alive (l_cdict (s_l ss)) o').
    { intros o' Hne. assert (A1 : alive d1 o' = alive (l_cdict (s_l ss)) o').
      { unfold d1. destruct (xc_first xs id); [|reflexivity]. rewrite alive_app. apply N.eqb_neq in Hne. now rewrite Hne, orb_false_r. }
      destruct (c_terminal st); [|exact A1]. now rewrite (alive_kdel_other d1 id o o' Nf1 Hin1 Hne). }
    (* the old status of the object's tables: it was alive, or it is new *)
    assert (OldB : match tget P0 (wbs xs) o with
                   | OSPending _ => oi_built (tget (info0 id) (l_cinfo (s_l ss)) o) = false
                   | OSFired (WOkC o') => o' = o /\ oi_built (tget (info0 id) (l_cinfo (s_l ss)) o) = true
                   | OSFired _ => False
                   end /\
                   match tget P0 (wcs xs) o with OSPending _ => True | OSFired _ => False end).
    { rewrite (oi_built_default id 0). destruct (xc_first xs id) eqn:Ef.
      - destruct (q_fresh _ _ Q o) as [A [B C]]; [rewrite (Hnew eq_refl); lia|]. rewrite A, B, C. split; [reflexivity | exact I].
      - pose proof (Hex eq_refl) as Hdict. rewrite <- (r_cdict _ _ R) in Hdict.
        destruct (wf_clive _ W _ Hdict) as [c0 [G0 _]]. cbn [snd] in G0.
        destruct (q_info _ _ Q o c0 G0) as [_ [_ [I3 I4]]]. rewrite (alive_In _ id o (Hex eq_refl)) in I3, I4.
        split.
        + destruct (tget P0 (wbs xs) o) as [ws|[o'| | |cl r1 r2]]; try tauto. destruct I3; discriminate.
        + destruct (tget P0 (wcs xs) o) as [ws|r]; [exact I | destruct I4; discriminate]. }
    destruct OldB as [OldB OldC].
    destruct (hold_step xs (OEv (ECirc id st path kw)) xs' es (l_used (s_l ss)) X (q_hold_cnt _ _ Q) (q_hold_used _ _ Q))
      as [HC HU]; [intros w []|].
    constructor; cbn [s_l s_open s_cmdq l_nc l_cinfo l_cdict l_used].
    + exact R'.
    + exact (q_cmdq _ _ Q).
    + rewrite F3. exact (q_cmds _ _ Q).
    + exact F1.
    + rewrite F2. exact (q_sc _ _ Q).
    + intros o' c1 G1. unfold info_ok. cbn [s_l l_cinfo l_cdict]. rewrite TB, TC.
      destruct (N.eqb_spec o o') as [<-|Hne].
      * rewrite Gc' in G1. injection G1 as <-. rewrite tget_tset, N.eqb_refl. cbn [oi_built]. rewrite Al'.
        split; [intros E; rewrite Sc' in E; injection E as ->; now rewrite orb_true_r|].
        split; [rewrite Sc'; destruct st; cbn; split; try discriminate; try tauto; intros [H|H]; discriminate|].
        split.
        -- destruct (tget P0 (wbs xs) o) as [ws|[o'| | |cl r1 r2]]; try contradiction.
           ++ rewrite OldB. destruct st; cbn [c_terminal is_built negb orb]; auto; destruct rfail; try contradiction; auto.
           ++ destruct OldB as [-> Hb]. rewrite Hb. cbn [orb]. auto.
        -- destruct (tget P0 (wcs xs) o) as [ws|r]; [|contradiction].
           destruct st; cbn [c_terminal negb]; auto.
      * assert (G0 : get_c o' (base xs) = Some c1) by (rewrite <- (Sh6 o' (not_eq_sym Hne)); exact G1).
        destruct (q_info _ _ Q o' c1 G0) as [I1 [I2 [I3 I4]]].
        rewrite tget_tset. apply N.eqb_neq in Hne. rewrite Hne. apply N.eqb_neq in Hne.
        rewrite (AlO o' (not_eq_sym Hne)). auto.
    + intros o' Ho'.
      assert (Hne : o <> o').
      { destruct (xc_first xs id) eqn:Ef; [rewrite (Hnew eq_refl); lia|].
        pose proof (Hex eq_refl) as Hdict. rewrite <- (r_cdict _ _ R) in Hdict.
        destruct (wf_clive _ W _ Hdict) as [c0 [G0 _]]. cbn [snd] in G0. pose proof (get_c_bound _ _ _ W G0).
        rewrite (r_nc _ _ R) in H. lia. }
      rewrite TB, TC, tget_tset. apply N.eqb_neq in Hne. rewrite Hne. apply (q_fresh _ _ Q).
      destruct (xc_first xs id); lia.
    + intros wr. unfold open'. apply (circ_open_ok ss xs xs' o st (dones es) Q PBt PCt Hds).
    + unfold open'. destruct (c_terminal st); [rewrite mark_gone_ids|]; apply drop_done_ids_nodup; exact (q_open_nd _ _ Q).
    + exact HC.
    + exact HU.
Qed.

(* ---------------------------------------------------------------- histories without close requests *)
Definition not_close (o : op) : bool := match o with OCClose _ _ | OSClose _ _ => false | _ => true end.

Lemma rel2_op ss xs o ls' : Rel2 ss xs -> lstep (s_l ss) o = Some ls' -> not_close o = true ->
  exists xs' es ss', x_op xs o = Some (xs', es) /\ spec_op ss o es = Some ss' /\ Rel2 ss' xs'.
Proof.
  intros Q L N. destruct o as [e|l|l|ob l|ob l|ob l|ob l|ob wt|ob wt|ob wt|ob wt|]; try discriminate N.
  - destruct e; [now apply (rel2_circ ss xs _ _ _ _ ls') | now apply (rel2_stream ss xs _ _ _ _ _ _ ls')].
  - now apply (rel2_listener ss xs _ ls').
  - now apply (rel2_listener ss xs _ ls').
  - now apply (rel2_listener ss xs _ ls').
  - now apply (rel2_listener ss xs _ ls').
  - now apply (rel2_listener ss xs _ ls').
  - now apply (rel2_listener ss xs _ ls').
  - now apply (rel2_when_built ss xs _ _ ls').
  - now apply (rel2_when_closed ss xs _ _ ls').
  - now apply rel2_ack.
Qed.

Lemma spec_op_l ss o es ss' : spec_op ss o es = Some ss' -> lstep (s_l ss) o = Some (s_l ss').
Proof.
  unfold spec_op. destruct (lstep (s_l ss) o) as [ls'|]; [|discriminate].
  destruct (match o with OEv e => _ | _ => _ end) as [[ok op'] cq]. destruct ok; [|discriminate]. now intros [= <-].
Qed.

Lemma oracle_no_close_from ops : forall ss xs, Rel2 ss xs -> legal8_from (s_l ss) ops = true -> no_close ops = true ->
  exists tr, xrun_from xs ops = Some tr /\ oracle_from8 ss ops tr = true.
Proof.
  induction ops as [|o t IH]; intros ss xs Q L N; cbn [xrun_from legal8_from oracle_from8 no_close forallb] in *.
  - exists []. auto.
  - apply andb_true_iff in N as [N1 N2].
    destruct (lstep (s_l ss) o) as [ls'|] eqn:E; [|discriminate].
    destruct (rel2_op ss xs o ls' Q E N1) as [xs' [es [ss' [X [S Q']]]]]. rewrite X.
    pose proof (spec_op_l _ _ _ _ S) as El. rewrite E in El. injection El as El.
    rewrite El in L. destruct (IH ss' xs' Q' L N2) as [tr [Xr Or]]. rewrite Xr.
    exists (es :: tr). split; [reflexivity|]. cbn [oracle_from8]. now rewrite S.
Qed.

(* on every legal history without close requests -- any events, any listener schedule, any when_built /
   when_closed requests at any position -- the model's trace satisfies the whole oracle *)
Lemma oracle_no_close rts ops : legal8 ops = true -> no_close ops = true ->
  exists tr, xrun rts ops = Some tr /\ oracle8 ops tr = true.
Proof. intros L N. exact (oracle_no_close_from ops ss0 (xinit rts) (Rel2_init rts) L N). Qed.
