(* C18: proofs about Model/SocksPort.v against Spec/C18.v *)
From Coq Require Import List Bool Ascii Arith NArith Lia String.
From TxVerif Require Import Lib.Bytes Lib.Words Gen.SocksPortConsts Spec.C18 Model.SocksPort.
Import ListNotations.
Open Scope N_scope.

(* ------------------------------------------------------------------ generalities *)
Lemma beqb_sym a b : beqb a b = beqb b a.
Proof.
  destruct (beqb a b) eqn:E.
  - apply beqb_eq in E. subst. symmetry. apply beqb_refl.
  - destruct (beqb b a) eqn:E2; [|reflexivity]. apply beqb_eq in E2. subst. now rewrite beqb_refl in E.
Qed.

Lemma beqb_neq a b : beqb a b = false <-> a <> b.
Proof.
  split.
  - intros H ->. now rewrite beqb_refl in H.
  - intros H. destruct (beqb a b) eqn:E; [|reflexivity]. apply beqb_eq in E. contradiction.
Qed.

Lemma ep_eqb_eq a b : ep_eqb a b = true <-> a = b.
Proof.
  destruct a as [h p|x], b as [h' p'|y]; cbn; split; intros H; try discriminate; try congruence.
  - apply andb_true_iff in H as [H1 H2]. apply beqb_eq in H1. apply N.eqb_eq in H2. congruence.
  - injection H as -> ->. now rewrite beqb_refl, N.eqb_refl.
  - apply beqb_eq in H. congruence.
  - injection H as ->. apply beqb_refl.
Qed.

Lemma ep_eqb_refl a : ep_eqb a a = true.
Proof. now apply ep_eqb_eq. Qed.

Lemma existsb_ep_In e l : existsb (ep_eqb e) l = true <-> In e l.
Proof.
  rewrite existsb_exists. split.
  - intros (x & Hx & He). apply ep_eqb_eq in He. now subst.
  - intros H. exists e. split; [exact H|apply ep_eqb_refl].
Qed.

Lemma isnil_true {A} (l : list A) : isnil l = true <-> l = [].
Proof. destruct l; cbn; split; congruence. Qed.

Lemma prefixb_app p r : prefixb p (p ++ r) = true.
Proof. induction p as [|x p IH]; cbn; [reflexivity|]. now rewrite Ascii.eqb_refl. Qed.

Lemma memb_false_iff c l : memb c l = false <-> ~ In c l.
Proof.
  induction l as [|x l IH]; cbn.
  - tauto.
  - rewrite orb_false_iff, IH. split.
    + intros [H1 H2] [H|H]; [subst; now rewrite Ascii.eqb_refl in H1|tauto].
    + intros H. split; [|tauto]. destruct (Ascii.eqb c x) eqn:E; [|reflexivity].
      apply Ascii.eqb_eq in E. subst. tauto.
Qed.

Lemma memb_true_iff c l : memb c l = true <-> In c l.
Proof.
  destruct (memb c l) eqn:E.
  - split; [|reflexivity]. intros _. destruct (in_dec ascii_dec c l) as [H|H]; [exact H|].
    apply memb_false_iff in H. congruence.
  - apply memb_false_iff in E. split; [discriminate|tauto].
Qed.

(* ------------------------------------------------------------------ usable entries *)
Lemma usable_eps_In want E ep :
  In ep (usable_eps want E) <-> exists e, In e E /\ usable_for want e = Some ep.
Proof.
  induction E as [|e E IH]; cbn.
  - split; [tauto|]. intros (e & [] & _).
  - destruct (usable_for want e) as [x|] eqn:U; cbn; rewrite IH; split.
    + intros [->|(e' & H1 & H2)]; [exists e; auto|exists e'; auto].
    + intros (e' & [->|H1] & H2); [left; congruence|right; exists e'; auto].
    + intros (e' & H1 & H2). exists e'; auto.
    + intros (e' & [->|H1] & H2); [congruence|exists e'; auto].
Qed.

Lemma usable_eps_nil want E :
  usable_eps want E = [] <-> forall e, In e E -> usable_for want e = None.
Proof.
  split.
  - intros H e He. destruct (usable_for want e) as [ep|] eqn:U; [|reflexivity].
    assert (In ep (usable_eps want E)) by (apply usable_eps_In; exists e; auto).
    rewrite H in *. contradiction.
  - intros H. destruct (usable_eps want E) as [|ep l] eqn:U; [reflexivity|].
    assert (In ep (usable_eps want E)) as Hin by (rewrite U; now left).
    apply usable_eps_In in Hin as (e & He & Hu). rewrite (H e He) in Hu. discriminate.
Qed.

(* ------------------------------------------------------------------ text *)
Lemma split_at_none c l : split_at c l = None <-> memb c l = false.
Proof.
  induction l as [|x l IH]; cbn; [tauto|].
  rewrite (Ascii.eqb_sym c x).
  destruct (Ascii.eqb x c); cbn; [split; discriminate|].
  destruct (split_at c l) as [[a b]|]; [split; [discriminate|]|tauto].
  intros H. apply IH in H. discriminate.
Qed.

Lemma split_at_some_memb c l a b : split_at c l = Some (a, b) -> memb c l = true.
Proof.
  intros H. destruct (memb c l) eqn:E; [reflexivity|]. apply split_at_none in E. congruence.
Qed.

Lemma is_digit_code c : is_digit c = true -> 48 <= code c <= 57.
Proof. unfold is_digit. intros H. apply andb_true_iff in H as [H1 H2]. apply N.leb_le in H1, H2. lia. Qed.

Lemma ch_code c : ch (code c) = c.
Proof. unfold ch, code. apply ascii_N_embedding. Qed.

Lemma fold_digits_pos l acc : 0 < acc ->
  0 < fold_left (fun a c => a * 10 + (code c - 48)) l acc.
Proof. revert acc. induction l as [|c l IH]; cbn; intros acc H; [exact H|]. apply IH. lia. Qed.

Lemma canonical_zero w : canonical_dec w = true -> digits_val w = 0 -> w = [ch 48].
Proof.
  unfold canonical_dec, all_digits, digits_val. intros H Hv.
  apply andb_true_iff in H as [Hd Hc].
  destruct w as [|c [|c2 r]]; [discriminate| |].
  - cbn in Hd, Hv. rewrite andb_true_r in Hd. apply is_digit_code in Hd.
    assert (code c = 48) as E by lia. rewrite <- (ch_code c), E. reflexivity.
  - exfalso. cbn [forallb] in Hd. apply andb_true_iff in Hd as [Hd1 _].
    apply is_digit_code in Hd1.
    apply negb_true_iff in Hc.
    assert (code c <> 48) as Hne.
    { intros E. rewrite <- (ch_code c), E in Hc. now rewrite Ascii.eqb_refl in Hc. }
    cbn [fold_left] in Hv.
    pose proof (fold_digits_pos r ((0 * 10 + (code c - 48)) * 10 + (code c2 - 48))) as P.
    assert (0 < (0 * 10 + (code c - 48)) * 10 + (code c2 - 48)) as Hp by lia. specialize (P Hp). lia.
Qed.

Lemma all_digits_no c l : is_digit c = false -> all_digits l = true -> memb c l = false.
Proof.
  intros Hc H. unfold all_digits in H. destruct l as [|x l]; [discriminate|].
  apply memb_false_iff. intros Hin.
  rewrite forallb_forall in H. specialize (H c Hin). congruence.
Qed.

(* characters of an okword are not blanks *)
Lemma okwordchar_not_sp c : okwordchar c = true -> is_sp c = false.
Proof.
  unfold okwordchar, is_sp. intros H.
  destruct (Ascii.eqb c SP) eqn:E; [|reflexivity].
  apply Ascii.eqb_eq in E. subst. discriminate.
Qed.

Lemma okword_no_sp w : okword w = true -> memb SP w = false.
Proof.
  unfold okword. intros H. apply andb_true_iff in H as [H _]. apply andb_true_iff in H as [_ H].
  apply memb_false_iff. intros Hin. rewrite forallb_forall in H. specialize (H _ Hin). discriminate.
Qed.

Lemma prefixb_until_sp p l : memb SP p = false -> prefixb p (until_sp l) = prefixb p l.
Proof.
  revert l. induction p as [|x p IH]; intros l Hp; [reflexivity|].
  rewrite memb_sp_cons in Hp. apply orb_false_iff in Hp as [Hx Hp].
  destruct l as [|c l]; [reflexivity|].
  cbn [until_sp]. destruct (is_sp c) eqn:Ec.
  - cbn. unfold is_sp in *. apply Ascii.eqb_eq in Ec. subst c.
    destruct (Ascii.eqb x SP) eqn:E; [congruence|reflexivity].
  - cbn. now rewrite IH.
Qed.

Lemma first_word_nolead l :
  match l with c :: _ => negb (is_sp c) | [] => false end = true -> first_word l = until_sp l.
Proof.
  destruct l as [|c l]; [discriminate|]. intros H. unfold first_word. cbn [drop_sp].
  apply negb_true_iff in H. now rewrite H.
Qed.

(* ------------------------------------------------------------------ SocksPort line -> endpoint *)
Definition ZERO : bytes := tx "0".

Lemma okline0_parts l : okline0 l = true ->
  forallb okchar l = true /\ okword (first_word l) = true
  /\ match l with c :: _ => negb (is_sp c) | [] => false end = true.
Proof.
  unfold okline0. intros H. apply andb_true_iff in H as [H _]. apply andb_true_iff in H as [H H3].
  apply andb_true_iff in H as [H1 H2]. auto.
Qed.

(* on a word in one of Tor's forms the code's parse is Tor's meaning (0 is handled by the caller) *)
Lemma parse_word_spec w : okword w = true -> w <> ZERO -> parse_line w = addr_of w.
Proof.
  intros Hok Hz. pose proof (okword_no_sp w Hok) as Hsp.
  unfold okword in Hok. apply andb_true_iff in Hok as [_ Hform].
  unfold parse_line, addr_of, classify. change (tx "unix:") with UNIXP.
  destruct (prefixb UNIXP w) eqn:Hu.
  - rewrite (first_word_id w Hsp). destruct (skipn 5 w) eqn:Hs; [discriminate Hform|reflexivity].
  - unfold has_char. rewrite Hsp.
    destruct (split_at COLON w) as [[h p]|] eqn:Hc.
    + rewrite (split_at_some_memb _ _ _ _ Hc).
      unfold py_int. destruct (all_digits p) eqn:Hd.
      * apply andb_true_iff in Hform as [Hf Hh]. apply andb_true_iff in Hf as [_ Hport].
        rewrite Hh, Hport. reflexivity.
      * rewrite andb_false_r. reflexivity.
    + apply split_at_none in Hc. rewrite Hc.
      unfold py_int. destruct (all_digits w) eqn:Hd; [|reflexivity].
      apply andb_true_iff in Hform as [Hcan Hle].
      destruct (digits_val w =? 0) eqn:Hz0.
      * apply N.eqb_eq in Hz0. exfalso. apply Hz. now apply canonical_zero.
      * rewrite Hle. reflexivity.
Qed.

Lemma parse_line_full l : okline0 l = true -> parse_line l = parse_line (first_word l).
Proof.
  intros Hok. destruct (okline0_parts l Hok) as (_ & _ & Hlead).
  assert (prefixb UNIXP (first_word l) = prefixb UNIXP l) as Hfw.
  { rewrite (first_word_nolead l Hlead). now apply prefixb_until_sp. }
  unfold parse_line. change (tx "unix:") with UNIXP. rewrite Hfw.
  destruct (prefixb UNIXP l); [now rewrite first_word_idem|].
  replace (has_char SP (first_word l)) with false by (symmetry; apply first_word_no_sp).
  destruct (has_char SP l) eqn:Hsp; [reflexivity|].
  unfold has_char in Hsp. now rewrite (first_word_id l Hsp).
Qed.

Lemma parse_line_spec l : okline0 l = true -> first_word l <> ZERO ->
  parse_line l = addr_of (first_word l).
Proof.
  intros Hok Hz. rewrite (parse_line_full l Hok).
  destruct (okline0_parts l Hok) as (_ & Hw & _). now apply parse_word_spec.
Qed.

Lemma addr_of_zero : addr_of ZERO = None.
Proof. reflexivity. Qed.

Lemma disabled_zero e : first_word e = ZERO -> disabled e = true.
Proof. intros H. unfold disabled. now rewrite H. Qed.

(* ------------------------------------------------------------------ the SETCONF line reads back *)
Definition keychar (c : ascii) : bool := negb (is_blank c || Ascii.eqb c EQC || Ascii.eqb c DQ).
Definition keyok (k : bytes) : bool := negb (isnil k) && forallb keychar k.

Lemma keychar_parts c : keychar c = true ->
  is_blank c = false /\ Ascii.eqb c EQC = false /\ Ascii.eqb c DQ = false.
Proof.
  unfold keychar. intros H. apply negb_true_iff in H.
  apply orb_false_iff in H as [H H3]. apply orb_false_iff in H as [H1 H2]. auto.
Qed.

Lemma key_phase k : forall acc kk, forallb keychar k = true ->
  fold_left dstep k (acc, DKey kk) = (acc, DKey (rev k ++ kk)).
Proof.
  induction k as [|c k IH]; intros acc kk H; [reflexivity|].
  cbn [forallb] in H. apply andb_true_iff in H as [Hc Hk].
  destruct (keychar_parts c Hc) as (B1 & B2 & B3).
  cbn [fold_left dstep]. rewrite B1, B2, B3. rewrite IH by exact Hk.
  cbn [rev]. now rewrite <- app_assoc.
Qed.

Lemma key_start k acc : keyok k = true ->
  fold_left dstep (k ++ [EQC]) (acc, DSkip) = (acc, DEq k).
Proof.
  unfold keyok. intros H. apply andb_true_iff in H as [Hn Hk].
  destruct k as [|c k]; [discriminate|].
  cbn [forallb] in Hk. apply andb_true_iff in Hk as [Hc Hk].
  destruct (keychar_parts c Hc) as (B1 & B2 & B3).
  cbn [app fold_left dstep]. rewrite B1, B2, B3. cbn [orb].
  rewrite fold_left_app, key_phase by exact Hk.
  cbn [fold_left dstep]. replace (is_blank EQC) with false by reflexivity.
  rewrite Ascii.eqb_refl. rewrite rev_app_distr, rev_involutive. reflexivity.
Qed.

Definition pending (m : dmode) (k v : bytes) : Prop :=
  (forall acc c, is_blank c = true -> dstep (acc, m) c = ((k, v) :: acc, DSkip)) /\
  (forall acc, dfinish (acc, m) = Some (rev ((k, v) :: acc))).

Lemma blank_not_dq c : is_blank c = true -> Ascii.eqb c DQ = false.
Proof.
  unfold is_blank. intros H. apply orb_true_iff in H as [H|H]; apply Ascii.eqb_eq in H; subst; reflexivity.
Qed.

Lemma plain_phase v : forall k vv acc,
  (forall c, In c v -> is_blank c = false /\ Ascii.eqb c DQ = false) ->
  fold_left dstep v (acc, DPlain k vv) = (acc, DPlain k (rev v ++ vv)).
Proof.
  induction v as [|c v IH]; intros k vv acc H; [reflexivity|].
  destruct (H c (or_introl eq_refl)) as [B1 B2].
  cbn [fold_left dstep]. rewrite B1, B2. rewrite IH by (intros x Hx; apply H; now right).
  cbn [rev]. now rewrite <- app_assoc.
Qed.

Lemma needs_quote_false v : needs_quote v = false ->
  forall c, In c v -> is_blank c = false /\ Ascii.eqb c DQ = false.
Proof.
  unfold needs_quote. cbn [existsb]. intros H c Hc.
  repeat (apply orb_false_iff in H as [?H H]).
  apply memb_false_iff in H0, H1, H2.
  unfold is_blank. split; [apply orb_false_iff; split|]; apply Ascii.eqb_neq; intros ->; tauto.
Qed.

Lemma value_plain k v acc : needs_quote v = false ->
  exists m, fold_left dstep v (acc, DEq k) = (acc, m) /\ pending m k v.
Proof.
  intros Hq. pose proof (needs_quote_false v Hq) as Hv.
  destruct v as [|c v].
  - exists (DEq k). split; [reflexivity|]. split.
    + intros a c Hc. cbn [dstep]. now rewrite (blank_not_dq c Hc), Hc.
    + reflexivity.
  - destruct (Hv c (or_introl eq_refl)) as [B1 B2].
    exists (DPlain k (rev v ++ [c])). split.
    + cbn [fold_left dstep]. rewrite B1, B2. apply plain_phase. intros x Hx. apply Hv. now right.
    + split.
      * intros a x Hx. cbn [dstep]. rewrite Hx. now rewrite rev_app_distr, rev_involutive.
      * intros a. cbn [dfinish]. now rewrite rev_app_distr, rev_involutive.
Qed.

Lemma quote_phase v : forall k vv acc,
  fold_left dstep (flat_map esc1 v) (acc, DQuote k vv) = (acc, DQuote k (rev v ++ vv)).
Proof.
  induction v as [|c v IH]; intros k vv acc; [reflexivity|].
  cbn [flat_map]. rewrite fold_left_app.
  assert (fold_left dstep (esc1 c) (acc, DQuote k vv) = (acc, DQuote k (c :: vv))) as ->.
  { unfold esc1.
    destruct (Ascii.eqb c BSL) eqn:E1; [apply Ascii.eqb_eq in E1; subst; reflexivity|].
    destruct (Ascii.eqb c DQ) eqn:E2; [apply Ascii.eqb_eq in E2; subst; reflexivity|].
    destruct (Ascii.eqb c LF) eqn:E3; [apply Ascii.eqb_eq in E3; subst; reflexivity|].
    destruct (Ascii.eqb c CR) eqn:E4; [apply Ascii.eqb_eq in E4; subst; reflexivity|].
    destruct (Ascii.eqb c TAB) eqn:E5; [apply Ascii.eqb_eq in E5; subst; reflexivity|].
    cbn [fold_left dstep]. now rewrite E2, E1. }
  rewrite IH. cbn [rev]. now rewrite <- app_assoc.
Qed.

Lemma value_quoted k v acc :
  exists m, fold_left dstep (DQ :: flat_map esc1 v ++ [DQ]) (acc, DEq k) = (acc, m) /\ pending m k v.
Proof.
  exists (DEndQ k (rev v)). split.
  - cbn [fold_left dstep]. rewrite Ascii.eqb_refl. rewrite fold_left_app, quote_phase.
    cbn [fold_left dstep]. rewrite Ascii.eqb_refl. now rewrite app_nil_r.
  - split.
    + intros a c Hc. cbn [dstep]. now rewrite Hc, rev_involutive.
    + intros a. cbn [dfinish]. now rewrite rev_involutive.
Qed.

Lemma item_phase k v acc : keyok k = true ->
  exists m, fold_left dstep (k ++ EQC :: maybe_quote v) (acc, DSkip) = (acc, m) /\ pending m k v.
Proof.
  intros Hk.
  replace (k ++ EQC :: maybe_quote v) with ((k ++ [EQC]) ++ maybe_quote v) by now rewrite <- app_assoc.
  rewrite fold_left_app, key_start by exact Hk.
  unfold maybe_quote. destruct (needs_quote v) eqn:Hq.
  - apply value_quoted.
  - now apply value_plain.
Qed.

Lemma items_phase k vals : keyok k = true -> forall acc,
  dfinish (fold_left dstep (join [SP] (map (fun v => k ++ EQC :: maybe_quote v) vals)) (acc, DSkip))
  = Some (rev acc ++ map (fun v => (k, v)) vals).
Proof.
  intros Hk. induction vals as [|v vals IH]; intros acc.
  - cbn. now rewrite app_nil_r.
  - destruct vals as [|v2 vals].
    + cbn [map join]. destruct (item_phase k v acc Hk) as (m & -> & _ & Hf).
      rewrite Hf. cbn [rev]. reflexivity.
    + change (join [SP] (map (fun v => k ++ EQC :: maybe_quote v) (v :: v2 :: vals)))
        with ((k ++ EQC :: maybe_quote v) ++ [SP]
              ++ join [SP] (map (fun v => k ++ EQC :: maybe_quote v) (v2 :: vals))).
      rewrite fold_left_app. destruct (item_phase k v acc Hk) as (m & -> & Hs & _).
      cbn [app fold_left]. rewrite Hs by reflexivity.
      rewrite IH. cbn [rev map]. now rewrite <- app_assoc.
Qed.

Theorem decode_roundtrip k vals : keyok k = true ->
  decode_setconf (setconf_line k vals) = Some (map (fun v => (k, v)) vals).
Proof.
  intros Hk. unfold decode_setconf, setconf_line.
  change (tx "SETCONF " ++ ?x) with (SETCONF ++ SP :: x).
  rewrite prefixb_app.
  replace (skipn 7 (SETCONF ++ SP :: join [SP] (map (fun v => k ++ EQC :: maybe_quote v) vals)))
    with (SP :: join [SP] (map (fun v => k ++ EQC :: maybe_quote v) vals)) by reflexivity.
  replace (is_blank SP) with true by reflexivity.
  now rewrite items_phase.
Qed.

(* ------------------------------------------------------------------ re-listing *)
Lemma relisted_app E new : relisted E (E ++ [new]) new = true.
Proof.
  induction E as [|e E IH]; cbn; [now rewrite beqb_refl|]. now rewrite beqb_refl, IH.
Qed.

Lemma relisted_filter E new : relisted E (filter keep_line E ++ [new]) new = true.
Proof.
  induction E as [|e E IH]; cbn [filter app relisted]; [now rewrite beqb_refl|].
  destruct (keep_line e) eqn:K.
  - cbn [app]. now rewrite beqb_refl, IH.
  - unfold keep_line in K. apply negb_false_iff, beqb_eq in K.
    rewrite (disabled_zero e K), IH.
    destruct (filter keep_line E ++ [new]) eqn:F; [destruct (filter keep_line E); discriminate|].
    now rewrite orb_true_r.
Qed.

(* a re-listing keeps the listeners, in order, in front *)
Lemma relisted_prefix E : forall V new, relisted E V new = true ->
  is_prefix (filter (fun e => negb (disabled e)) E) (filter (fun e => negb (disabled e)) V) = true.
Proof.
  induction E as [|e E IH]; intros V new H; [reflexivity|].
  cbn [relisted] in H. destruct V as [|v V]; [discriminate|].
  apply orb_true_iff in H as [H|H].
  - apply andb_true_iff in H as [H1 H2]. apply beqb_eq in H1. subst v.
    cbn [filter]. destruct (disabled e); cbn [negb].
    + now apply IH with (new := new).
    + cbn [is_prefix]. rewrite beqb_refl. now apply IH with (new := new).
  - apply andb_true_iff in H as [H1 H2].
    remember (filter (fun e0 => negb (disabled e0)) (v :: V)) as FV eqn:EFV.
    cbn [filter]. rewrite H1. cbn [negb]. subst FV.
    now apply IH with (new := new).
Qed.

Lemma is_prefix_refl l : is_prefix l l = true.
Proof. induction l as [|x l IH]; cbn; [reflexivity|]. now rewrite beqb_refl. Qed.

Lemma is_prefix_trans a : forall b c, is_prefix a b = true -> is_prefix b c = true -> is_prefix a c = true.
Proof.
  induction a as [|x a IH]; intros b c H1 H2; [reflexivity|].
  destruct b as [|y b]; [discriminate|]. destruct c as [|z c]; [discriminate|].
  cbn in *. apply andb_true_iff in H1 as [E1 P1]. apply andb_true_iff in H2 as [E2 P2].
  apply beqb_eq in E1, E2. subst. rewrite beqb_refl. cbn. now apply IH with (b := b).
Qed.

(* whatever implementation produced the observations: if the oracle accepts them, the listeners
   Tor had before are still there, unchanged and in order, after the whole history *)
Theorem oracle_keeps_listeners : forall ops t obs,
  oracle_hist t ops obs = true -> is_prefix (listeners t) (listeners (final_tor t ops obs)) = true.
Proof.
  induction ops as [|o ops IH]; intros t obs H.
  - destruct obs; [apply is_prefix_refl|discriminate].
  - destruct obs as [|b obs]; [discriminate|].
    cbn [oracle_hist final_tor] in *. apply andb_true_iff in H as [Hs Hr].
    apply is_prefix_trans with (b := listeners (next_tor t o b)); [|now apply IH].
    unfold step_ok in Hs. apply andb_true_iff in Hs as [_ Hs].
    unfold next_tor.
    destruct (filter is_setconf (sent b)) as [|s [|s2 r]]; [apply is_prefix_refl| |discriminate].
    destruct (o_accept o); [|apply is_prefix_refl].
    apply andb_true_iff in Hs as [_ Hs].
    destruct (decode_setconf s) as [kvs|]; [|discriminate].
    apply andb_true_iff in Hs as [Hs _]. apply andb_true_iff in Hs as [_ Hrel].
    unfold listeners, entries. cbn [sp]. now apply relisted_prefix with (new := new_line o).
Qed.

(* ------------------------------------------------------------------ the flag vs the two oracles *)
Lemma known_unflagged ops : forall t rej obs,
  flag_from t rej ops obs = false ->
  oracle_known t rej ops obs = oracle_hist t ops obs.
Proof.
  induction ops as [|o ops IH]; intros t rej obs H.
  - destruct obs; reflexivity.
  - destruct obs as [|b obs]; [reflexivity|].
    cbn [flag_from oracle_known oracle_hist] in *.
    apply orb_false_iff in H as [H1 H2].
    rewrite H1, orb_false_r. now rewrite IH.
Qed.

(* ------------------------------------------------------------------ words and lines of the envelope *)
Lemma okwordchar_okchar c : okwordchar c = true -> okchar c = true.
Proof.
  unfold okwordchar, okchar. intros H. apply andb_true_iff in H as [H _]. apply andb_true_iff in H as [H1 H2].
  apply N.leb_le in H1. rewrite H2, andb_true_r. apply N.leb_le. lia.
Qed.

Lemma okword_parts w : okword w = true -> w <> [] /\ forall c, In c w -> okwordchar c = true.
Proof.
  unfold okword. intros H. apply andb_true_iff in H as [H _]. apply andb_true_iff in H as [H1 H2].
  split; [intros ->; discriminate|]. now apply forallb_forall.
Qed.

Lemma word_line w : okword w = true -> okline0 w = true.
Proof.
  intros H. destruct (okword_parts w H) as [Hn Hc].
  pose proof (okword_no_sp w H) as Hsp.
  unfold okline0. rewrite (first_word_id w Hsp), H.
  assert (forallb okchar w = true) as ->.
  { apply forallb_forall. intros c Hin. apply okwordchar_okchar. auto. }
  assert (match w with c :: _ => negb (is_sp c) | [] => false end = true) as ->.
  { destruct w as [|c w]; [congruence|]. now rewrite (okwordchar_not_sp c (Hc c (or_introl eq_refl))). }
  destruct (rev w) as [|c r] eqn:R.
  - exfalso. apply Hn. rewrite <- (rev_involutive w), R. reflexivity.
  - assert (In c w) as Hin by (apply in_rev; rewrite R; now left).
    now rewrite (okwordchar_not_sp c (Hc c Hin)).
Qed.

Lemma digit_okwordchar c : is_digit c = true -> okwordchar c = true.
Proof.
  intros H. apply is_digit_code in H. unfold okwordchar.
  assert ((33 <=? code c) = true) as -> by (apply N.leb_le; lia).
  assert ((code c <=? 126) = true) as -> by (apply N.leb_le; lia).
  destruct (Ascii.eqb c DQ) eqn:E1; [apply Ascii.eqb_eq in E1; subst; cbn in H; lia|].
  destruct (Ascii.eqb c BSL) eqn:E2; [apply Ascii.eqb_eq in E2; subst; cbn in H; lia|].
  destruct (Ascii.eqb c SQ) eqn:E3; [apply Ascii.eqb_eq in E3; subst; cbn in H; lia|].
  reflexivity.
Qed.

Lemma all_digits_forall a : all_digits a = true -> a <> [] /\ forall c, In c a -> is_digit c = true.
Proof.
  unfold all_digits. destruct a as [|c a]; [discriminate|]. intros H. split; [discriminate|].
  now apply forallb_forall.
Qed.

Lemma digits_not_unix a : all_digits a = true -> prefixb UNIXP a = false.
Proof.
  intros H. destruct (all_digits_forall a H) as [Hn Hd]. destruct a as [|c a]; [congruence|].
  specialize (Hd c (or_introl eq_refl)).
  change UNIXP with ("u"%char :: tx "nix:"). cbn [prefixb].
  destruct (Ascii.eqb "u" c) eqn:E; [|reflexivity]. apply Ascii.eqb_eq in E. subst c. discriminate.
Qed.

(* the decimal text of a free TCP port is a port one may ask for *)
Lemma avail_word a : canonical_dec a = true -> port_ok (digits_val a) = true ->
  okword a = true /\ usable a = true /\ has_char SP a = false.
Proof.
  intros Hc Hp. assert (all_digits a = true) as Hd by (unfold canonical_dec in Hc; now apply andb_true_iff in Hc).
  destruct (all_digits_forall a Hd) as [Hn Hdig].
  assert (has_char SP a = false) as Hsp by (apply all_digits_no; [reflexivity|exact Hd]).
  assert (split_at COLON a = None) as Hcol by (apply split_at_none, all_digits_no; [reflexivity|exact Hd]).
  unfold port_ok in Hp. apply andb_true_iff in Hp as [Hp1 Hp2].
  split; [|split; [|exact Hsp]].
  - unfold okword. rewrite (digits_not_unix a Hd), Hcol, Hd, Hc, Hp2.
    assert (forallb okwordchar a = true) as -> by (apply forallb_forall; intros c Hin; apply digit_okwordchar; auto).
    destruct a; [congruence|reflexivity].
  - unfold usable, addr_of, classify. unfold has_char in Hsp. rewrite (first_word_id a Hsp).
    rewrite (digits_not_unix a Hd), Hcol, Hd, Hp2.
    destruct (digits_val a =? 0) eqn:Z; [apply N.eqb_eq in Z; apply N.leb_le in Hp1; lia|reflexivity].
Qed.

Lemma okline_parts0 l : okline l = true -> okline0 l = true /\ l <> DEFAULTW.
Proof.
  unfold okline. intros H. apply andb_true_iff in H as [H1 H2]. split; [exact H1|].
  now apply beqb_neq, negb_true_iff.
Qed.

(* a request: a line of the envelope whose first word is usable *)
Lemma want_facts r : okline0 r = true -> usable r = true ->
  exists ep, parse_line r = Some ep /\ addr_of (first_word r) = Some ep /\ first_word r <> ZERO.
Proof.
  intros Hok Hu. unfold usable in Hu.
  destruct (addr_of (first_word r)) as [ep|] eqn:Ha; [|discriminate].
  assert (first_word r <> ZERO) as Hz by (intros E; rewrite E in Ha; discriminate).
  exists ep. split; [|split; auto]. now rewrite parse_line_spec.
Qed.

Lemma usable_not_default r : usable r = true -> r <> DEFAULTW.
Proof. intros H ->. discriminate. Qed.

Lemma new_facts o : wf_op o = true ->
  exists ep, parse_line (new_line o) = Some ep /\ addr_of (first_word (new_line o)) = Some ep
             /\ okline0 (new_line o) = true /\ new_line o <> DEFAULTW.
Proof.
  unfold wf_op, new_line. intros H. apply andb_true_iff in H as [H _].
  apply andb_true_iff in H as [H Hp]. apply andb_true_iff in H as [Hw Hc].
  destruct (o_want o) as [w|].
  - apply andb_true_iff in Hw as [Hok Hu]. apply andb_true_iff in Hok as [Hok _].
    destruct (want_facts w Hok Hu) as (ep & A & B & _). exists ep. auto using usable_not_default.
  - destruct (avail_word _ Hc Hp) as (A & B & C).
    pose proof (word_line _ A) as Hl.
    destruct (want_facts _ Hl B) as (ep & P1 & P2 & _). exists ep. auto using usable_not_default.
Qed.

(* ------------------------------------------------------------------ _create_socks_endpoint *)
Definition tor_ok (t : tor) : Prop :=
  (forall e, In e (entries t) -> okline0 e = true) /\
  (forall l, sp t = RVals l -> is_default l = false) /\
  (sp t = RDefault -> forall d, In d (dflt t) -> d <> DEFAULTW).
Definition dflt_le1 (t : tor) : Prop := (List.length (dflt t) <= 1)%nat.

(* the lines the code works on are the entries Tor reports *)
Lemma lines_entries t : tor_ok t -> dflt_le1 t -> lines_of t = entries t.
Proof.
  intros (_ & Hd & Hn) Hl. unfold lines_of, asked_default, reported, entries, dflt_le1 in *.
  destruct (sp t) as [|l] eqn:S.
  - change (is_default [tx default_value]) with true. cbn iota.
    destruct (dflt t) as [|d [|d2 r]]; [reflexivity| |cbn in Hl; lia].
    change (tx default_value) with DEFAULTW.
    assert (d <> DEFAULTW) as Hne by (apply Hn; [reflexivity|now left]). apply beqb_neq in Hne. now rewrite Hne.
  - now rewrite (Hd l eq_refl).
Qed.

Lemma parsed_In want ws ep :
  In ep (parsed want ws) <-> exists w, In w ws /\ sel want w = true /\ parse_line w = Some ep.
Proof.
  unfold parsed. rewrite in_flat_map. split.
  - intros (w & Hw & H). exists w. destruct (sel want w); [|contradiction].
    destruct (parse_line w); cbn in H; [destruct H as [->|[]]; auto|contradiction].
  - intros (w & Hw & Hs & Hp). exists w. split; [exact Hw|]. rewrite Hs, Hp. now left.
Qed.

Lemma exact_word x e : has_char SP x = false -> exact x e = beqb x (first_word e).
Proof.
  intros H. unfold exact. destruct (beqb x e) eqn:E; [|reflexivity].
  apply beqb_eq in E. subst e. unfold has_char in H. now rewrite (first_word_id x H), beqb_refl.
Qed.

Lemma exact_line x e : has_char SP x = true -> exact x e = beqb x e.
Proof.
  intros H. unfold exact. destruct (beqb x (first_word e)) eqn:E; [|apply orb_false_r].
  apply beqb_eq in E. subst x. unfold has_char in H. now rewrite first_word_no_sp in H.
Qed.

Lemma exact_first x e : exact x e = true -> first_word x = first_word e.
Proof.
  unfold exact. intros H. apply orb_true_iff in H as [H|H]; apply beqb_eq in H; subst x; [reflexivity|].
  apply first_word_idem.
Qed.

(* the endpoint of an entry that is asked for is also one "for the same port" *)
Lemma usable_widen want E ep :
  In ep (usable_eps want E) -> In ep (usable_eps (option_map first_word want) E).
Proof.
  rewrite !usable_eps_In. intros (e & He & Hu). exists e. split; [exact He|].
  destruct want as [x|]; [|exact Hu]. cbn [option_map]. unfold usable_for in *.
  destruct (exact x e) eqn:X; [|discriminate]. apply exact_first in X.
  unfold exact. now rewrite X, beqb_refl, orb_true_r.
Qed.

(* the code looks for the request's first word among the first words of the lines *)
Lemma usable_for_sel want e :
  usable_for (option_map first_word want) e
  = if sel want (first_word e) then addr_of (first_word e) else None.
Proof.
  unfold usable_for, sel. destruct want as [x|]; [|reflexivity]. cbn [option_map].
  rewrite exact_word by apply first_word_no_sp. now rewrite beqb_sym.
Qed.

Lemma cand_sound want E : (forall e, In e E -> okline0 e = true) ->
  forall ep, In ep (candidates want E) -> In ep (usable_eps (option_map first_word want) E).
Proof.
  intros Hok ep H. unfold candidates in H.
  assert (exists w, In w (map first_word E) /\ w <> ZERO /\ sel want w = true /\ parse_line w = Some ep)
    as (w & Hw & Hz & Hs & Hp).
  { destruct (isnil (parsed want (filter is_tcp (map first_word E))));
      apply parsed_In in H as (w & Hw & Hs & Hp); apply filter_In in Hw as [Hw Hf];
      exists w; repeat split; auto; intros ->; discriminate Hf. }
  apply in_map_iff in Hw as (e & <- & He).
  apply usable_eps_In. exists e. split; [exact He|]. rewrite usable_for_sel, Hs.
  rewrite <- parse_word_spec; auto. apply okline0_parts. now apply Hok.
Qed.

(* nothing found: no usable entry for the request's port at all, a fortiori none that is the one asked for *)
Lemma cand_complete want E : (forall e, In e E -> okline0 e = true) ->
  candidates want E = [] -> usable_eps (option_map first_word want) E = [].
Proof.
  intros Hok H. apply usable_eps_nil. intros e He.
  rewrite usable_for_sel. destruct (sel want (first_word e)) eqn:Hs; [|reflexivity].
  destruct (addr_of (first_word e)) as [ep|] eqn:Ha; [|reflexivity]. exfalso.
  remember (first_word e) as w eqn:Ew.
  assert (w <> ZERO) as Hz by (intros E0; rewrite E0 in Ha; discriminate).
  assert (parse_line w = Some ep) as Hp.
  { rewrite parse_word_spec; auto. subst w. now apply okline0_parts, Hok. }
  assert (In w (map first_word E)) as Hw by (subst w; now apply in_map).
  unfold candidates in H.
  destruct (is_unix w) eqn:Hu.
  - assert (In ep (parsed want (filter is_unix (map first_word E)))) as Hin.
    { apply parsed_In. exists w. rewrite filter_In. auto. }
    destruct (isnil (parsed want (filter is_tcp (map first_word E)))) eqn:N.
    + rewrite H in Hin. contradiction.
    + rewrite H in N. discriminate N.
  - assert (In ep (parsed want (filter is_tcp (map first_word E)))) as Hin.
    { apply parsed_In. exists w. rewrite filter_In. repeat split; auto.
      unfold is_tcp. rewrite Hu. cbn [negb andb]. now apply negb_true_iff, beqb_neq. }
    destruct (isnil (parsed want (filter is_tcp (map first_word E)))) eqn:N.
    + apply isnil_true in N. rewrite N in Hin. contradiction.
    + rewrite H in Hin. contradiction.
Qed.

Lemma widen_nil want E : usable_eps (option_map first_word want) E = [] -> usable_eps want E = [].
Proof.
  intros H. destruct (usable_eps want E) as [|ep l] eqn:U; [reflexivity|].
  assert (In ep (usable_eps (option_map first_word want) E)) as Hin by (apply usable_widen; rewrite U; now left).
  rewrite H in Hin. contradiction.
Qed.

Lemma queries_facts t :
  forallb (fun l => is_getconf l || is_setconf l) (queries t) = true /\ filter is_setconf (queries t) = [].
Proof. unfold queries. destruct (asked_default t); split; reflexivity. Qed.

Lemma setconf_line_is k v : is_setconf (setconf_line k v) = true.
Proof. unfold is_setconf, setconf_line. apply prefixb_app. Qed.

Lemma map_pair_fst {A B} (k : A) (l : list B) : map fst (map (fun v => (k, v)) l) = map (fun _ => k) l.
Proof. rewrite map_map. reflexivity. Qed.
Lemma map_pair_snd {A B} (k : A) (l : list B) : map snd (map (fun v => (k, v)) l) = l.
Proof. rewrite map_map. cbn. apply map_id. Qed.

Lemma keys_const k l : key_is_socksport k = true -> forallb key_is_socksport (map (fun _ : bytes => k) l) = true.
Proof. intros H. apply forallb_forall. intros x Hx. apply in_map_iff in Hx as (? & <- & _). exact H. Qed.

Lemma is_default_app l new : new <> DEFAULTW -> is_default (l ++ [new]) = false.
Proof.
  intros H. unfold is_default. change (tx default_value) with DEFAULTW.
  destruct l as [|x [|y l]]; cbn [app list_eqb].
  - apply beqb_neq in H. now rewrite H.
  - now rewrite andb_false_r.
  - now rewrite andb_false_r.
Qed.

(* the step on Tor's side that the oracle derives from an observed SETCONF is the one the model makes *)
Lemma next_tor_add t o q k lines' r : filter is_setconf q = [] -> keyok k = true ->
  next_tor t o {| sent := q ++ [setconf_line k lines']; out := r |}
  = if o_accept o then {| sp := RVals lines'; dflt := dflt t |} else t.
Proof.
  intros Hq Hk. unfold next_tor. cbn [sent]. rewrite filter_app, Hq. cbn [filter app].
  rewrite setconf_line_is. destruct (o_accept o); [|reflexivity].
  now rewrite decode_roundtrip, map_pair_snd.
Qed.

Lemma step_ok_add t o q k lines' r : filter is_setconf q = [] ->
  forallb (fun l => is_getconf l || is_setconf l) q = true -> keyok k = true -> key_is_socksport k = true ->
  usable_eps (o_want o) (entries t) = [] -> relisted (entries t) lines' (new_line o) = true ->
  (if o_accept o then exists ep, r = OEp ep /\ addr_of (first_word (new_line o)) = Some ep
   else exists n, r = OErr n) ->
  step_ok t o {| sent := q ++ [setconf_line k lines']; out := r |} = true.
Proof.
  intros Hq Hf Hk Hks HU Hrel Hr. unfold step_ok. cbn [sent out].
  rewrite forallb_app, Hf. cbn [forallb]. rewrite setconf_line_is, orb_true_r.
  rewrite filter_app, Hq. cbn [filter app]. rewrite setconf_line_is, HU.
  rewrite decode_roundtrip by exact Hk. rewrite map_pair_fst, map_pair_snd, keys_const by exact Hks.
  rewrite Hrel. cbn [isnil andb].
  destruct (o_accept o).
  - destruct Hr as (ep & -> & ->). cbn. apply ep_eqb_refl.
  - destruct Hr as (n & ->). reflexivity.
Qed.

Lemma usable_weaken want E ep : In ep (usable_eps want E) -> In ep (usable_eps None E).
Proof.
  rewrite !usable_eps_In. intros (e & He & Hu). exists e. split; [exact He|].
  unfold usable_for in *. destruct want as [x|]; [|exact Hu]. destruct (exact x e); [exact Hu|discriminate].
Qed.

Lemma pick_in pick c cs : In (if existsb (ep_eqb pick) (c :: cs) then pick else c) (c :: cs).
Proof.
  destruct (existsb (ep_eqb pick) (c :: cs)) eqn:P; [now apply existsb_ep_In in P|now left].
Qed.

Lemma choose_ok t o pick : tor_ok t -> dflt_le1 t -> wf_op o = true ->
  step_ok t o (fst (choose t (o_want o) (o_avail o) (o_accept o) pick)) = true.
Proof.
  intros Ht Hl Hwf.
  pose proof (lines_entries t Ht Hl) as HL.
  assert (Hok : forall e, In e (entries t) -> okline0 e = true) by apply Ht.
  destruct (queries_facts t) as [Q1 Q2].
  unfold choose. rewrite HL.
  destruct (candidates (o_want o) (entries t)) as [|c cs] eqn:C.
  - pose proof (widen_nil _ _ (cand_complete _ _ Hok C)) as HU.
    destruct (new_facts o Hwf) as (ep & Hp & Ha & _).
    change (match o_want o with Some w => w | None => o_avail o end) with (new_line o).
    assert (forall r, (if o_accept o then exists ep, r = OEp ep /\ addr_of (first_word (new_line o)) = Some ep
                       else exists n, r = OErr n) ->
            step_ok t o {| sent := queries t ++ [setconf_line (tx key_setconf) (filter keep_line (entries t) ++ [new_line o])];
                           out := r |} = true) as Hstep.
    { intros r Hr. apply step_ok_add; auto; try reflexivity. apply relisted_filter. }
    destruct (o_accept o) eqn:A; cbn [fst]; apply Hstep.
    + exists ep. unfold parse_outcome. now rewrite Hp.
    + now exists K_TorProtocol.
  - cbn [fst]. unfold step_ok. cbn [sent out]. rewrite Q1, Q2. cbn [andb].
    apply existsb_ep_In. apply cand_sound; auto. rewrite C. apply pick_in.
Qed.

Lemma choose_state t o pick : tor_ok t -> dflt_le1 t -> wf_op o = true ->
  let r := choose t (o_want o) (o_avail o) (o_accept o) pick in
  next_tor t o (fst r) = snd r /\ tor_ok (snd r) /\ dflt (snd r) = dflt t /\
  (forall ep, In ep (usable_eps None (entries t)) -> In ep (usable_eps None (entries (snd r)))) /\
  (forall ep, out (fst r) = OEp ep -> In ep (usable_eps None (entries (snd r)))).
Proof.
  intros Ht Hl Hwf.
  destruct (queries_facts t) as [Q1 Q2].
  pose proof (lines_entries t Ht Hl) as HL.
  assert (Hok : forall e, In e (entries t) -> okline0 e = true) by apply Ht.
  unfold choose. rewrite HL.
  destruct (candidates (o_want o) (entries t)) as [|c cs] eqn:C.
  - destruct (new_facts o Hwf) as (ep & Hp & Ha & Hline & Hnd).
    change (match o_want o with Some w => w | None => o_avail o end) with (new_line o).
    set (lines' := filter keep_line (entries t) ++ [new_line o]).
    assert (Hnew : In ep (usable_eps None lines')).
    { apply usable_eps_In. exists (new_line o). split; [apply in_or_app; right; now left|]. exact Ha. }
    assert (Hok' : tor_ok {| sp := RVals lines'; dflt := dflt t |}).
    { split; [|split].
      - unfold entries. cbn [sp]. intros e He. apply in_app_or in He as [He|[<-|[]]]; [|exact Hline].
        apply filter_In in He as [He _]. now apply Hok.
      - cbn [sp]. intros l [= <-]. now apply is_default_app.
      - cbn [sp]. discriminate. }
    assert (Hmono : forall x, In x (usable_eps None (entries t)) -> In x (usable_eps None lines')).
    { intros x Hx. apply usable_eps_In in Hx as (e & He & Hu). apply usable_eps_In. exists e. split; [|exact Hu].
      apply in_or_app. left. apply filter_In. split; [exact He|].
      unfold keep_line. apply negb_true_iff, beqb_neq. intros Z.
      unfold usable_for in Hu. change (tx "0") with ZERO in Z. rewrite Z in Hu. discriminate. }
    destruct (o_accept o) eqn:A; cbn [fst snd].
    + rewrite next_tor_add, A by (auto; reflexivity).
      split; [reflexivity|]. split; [exact Hok'|]. split; [reflexivity|].
      unfold entries at 2 3. cbn [sp]. split; [exact Hmono|].
      intros x Hx. cbn [out] in Hx. unfold parse_outcome in Hx. rewrite Hp in Hx. now injection Hx as <-.
    + rewrite next_tor_add, A by (auto; reflexivity).
      split; [reflexivity|]. split; [exact Ht|]. split; [reflexivity|]. split; [auto|].
      intros x Hx. discriminate Hx.
  - cbn [fst snd]. unfold next_tor. cbn [sent]. rewrite Q2.
    split; [reflexivity|]. split; [exact Ht|]. split; [reflexivity|]. split; [auto|].
    intros x Hx. cbn [out] in Hx. injection Hx as <-.
    apply usable_weaken with (want := option_map first_word (o_want o)). apply cand_sound; auto. rewrite C. apply pick_in.
Qed.

(* ------------------------------------------------------------------ one call of a history *)
Definition inv (cfgmode rej : bool) (st : mstate) : Prop :=
  (cfgmode = true -> exists x, m_cfg st = entries (m_tor st) ++ x) /\
  (cfgmode && rej = false ->
     tor_ok (m_tor st) /\
     (cfgmode = false -> dflt_le1 (m_tor st) /\
                         forall e, m_cache st = Some e -> In e (usable_eps None (entries (m_tor st)))) /\
     (cfgmode = true -> m_cfg st = entries (m_tor st))).

Lemma is_prefix_app l x : is_prefix l (l ++ x) = true.
Proof. induction l as [|a l IH]; cbn; [reflexivity|]. now rewrite beqb_refl. Qed.

Lemma listeners_vals_app t E x : entries t = E ->
  is_prefix (listeners t) (listeners {| sp := RVals (E ++ x); dflt := dflt t |}) = true.
Proof.
  intros H. unfold listeners. rewrite H. unfold entries at 1. cbn [sp]. rewrite filter_app. apply is_prefix_app.
Qed.

Lemma rejected_quiet o r : rejected o {| sent := []; out := r |} = false.
Proof. unfold rejected. cbn. apply andb_false_r. Qed.

Lemma choose_listeners t o pick : tor_ok t -> dflt_le1 t -> wf_op o = true ->
  is_prefix (listeners t) (listeners (snd (choose t (o_want o) (o_avail o) (o_accept o) pick))) = true.
Proof.
  intros Ht Hl Hwf. pose proof (lines_entries t Ht Hl) as HL.
  unfold choose. rewrite HL. destruct (candidates (o_want o) (entries t)); [|apply is_prefix_refl].
  destruct (o_accept o); cbn [snd]; [|apply is_prefix_refl].
  unfold listeners at 2. unfold entries at 1. cbn [sp]. unfold listeners.
  apply relisted_prefix with (new := match o_want o with Some w => w | None => o_avail o end).
  apply relisted_filter.
Qed.

Lemma step_direct st o pick rej : inv false rej st -> wf_op o = true -> is_cfg (o_api o) = false ->
  let r := step st o pick in
  step_ok (m_tor st) o (fst r) = true /\
  next_tor (m_tor st) o (fst r) = m_tor (snd r) /\
  inv false (rej || rejected o (fst r)) (snd r) /\
  is_prefix (listeners (m_tor st)) (listeners (m_tor (snd r))) = true.
Proof.
  intros [_ I] Hwf Hapi. destruct (I eq_refl) as (Ht & Hd & _). destruct (Hd eq_refl) as [Hl Hc]. clear I Hd.
  assert (Hwant : o_api o = ADefault -> o_want o = None).
  { intros E. unfold wf_op in Hwf. rewrite E in Hwf. destruct (o_want o); [|reflexivity].
    rewrite andb_false_r in Hwf. discriminate. }
  pose proof (choose_ok (m_tor st) o pick Ht Hl Hwf) as Hok.
  pose proof (choose_state (m_tor st) o pick Ht Hl Hwf) as Hst. cbv zeta in Hst.
  pose proof (choose_listeners (m_tor st) o pick Ht Hl Hwf) as Hls.
  assert (Hinv : forall st', m_tor st' = snd (choose (m_tor st) (o_want o) (o_avail o) (o_accept o) pick) ->
                 (forall e, m_cache st' = Some e -> In e (usable_eps None (entries (m_tor st')))) ->
                 forall rej', inv false rej' st').
  { intros st' E1 E2 rej'. split; [discriminate|]. intros _. rewrite E1.
    destruct Hst as (_ & Ht' & Hd' & _). split; [exact Ht'|]. split; [|discriminate].
    intros _. split; [unfold dflt_le1; now rewrite Hd'|]. rewrite <- E1. exact E2. }
  unfold step. destruct (o_api o) eqn:A; try discriminate Hapi.
  - (* _create_socks_endpoint *)
    destruct (choose (m_tor st) (o_want o) (o_avail o) (o_accept o) pick) as [b t'] eqn:Ch.
    cbn [fst snd] in *. destruct Hst as (S1 & S2 & S3 & S4 & S5).
    split; [exact Hok|split; [exact S1|split; [|exact Hls]]].
    apply Hinv; [reflexivity|]. cbn [m_cache m_tor]. intros e He. apply S4. now apply Hc.
  - (* Tor._default_socks_endpoint *)
    rewrite (Hwant eq_refl) in *.
    destruct (m_cache st) as [e|] eqn:Ca.
    + unfold quiet. cbn [fst snd]. split; [|split; [reflexivity|split; [|apply is_prefix_refl]]].
      * unfold step_ok. cbn [sent out forallb filter andb]. rewrite (Hwant eq_refl).
        cbn [option_map]. apply existsb_ep_In. now apply Hc.
      * rewrite rejected_quiet, orb_false_r. split; [discriminate|]. intros _.
        split; [exact Ht|]. split; [|discriminate]. intros _. split; [exact Hl|]. rewrite Ca. exact Hc.
    + destruct (choose (m_tor st) None (o_avail o) (o_accept o) pick) as [b t'] eqn:Ch.
      cbn [fst snd] in *. destruct Hst as (S1 & S2 & S3 & S4 & S5).
      split; [exact Hok|split; [exact S1|split; [|exact Hls]]].
      apply Hinv; [reflexivity|]. cbn [m_cache m_tor]. intros e He.
      destruct (out b) as [x|] eqn:O; [|discriminate]. injection He as <-. now apply S5.
Qed.

(* ---- TorConfig accessors ---- *)
Lemma step_ok_quiet t o r :
  step_ok t o {| sent := []; out := r |}
  = match r with
    | OEp e => existsb (ep_eqb e) (usable_eps (option_map first_word (o_want o)) (entries t))
    | OErr _ => (isnil (usable_eps (o_want o) (entries t)) && may_refuse o) || port_only o
    end.
Proof. reflexivity. Qed.

(* _first_usable_socks_endpoint returns the endpoint of the first usable entry *)
Lemma first_usable_spec E : (forall e, In e E -> okline0 e = true) ->
  first_usable E = hd_error (usable_eps None E).
Proof.
  induction E as [|l E IH]; intros Hok; [reflexivity|].
  assert (IH' : first_usable E = hd_error (usable_eps None E)) by (apply IH; intros e He; apply Hok; now right).
  cbn [first_usable usable_eps]. unfold usable_for. change (tx "0") with ZERO.
  destruct (beqb (first_word l) ZERO) eqn:Z.
  - apply beqb_eq in Z. rewrite Z, addr_of_zero. exact IH'.
  - apply beqb_neq in Z. rewrite (parse_line_spec l (Hok l (or_introl eq_refl)) Z).
    destruct (addr_of (first_word l)); [reflexivity|exact IH'].
Qed.

(* sync of Tor's state for the TorConfig calls needs no invariant *)
Lemma step_sync_cfg st o pick : is_cfg (o_api o) = true ->
  next_tor (m_tor st) o (fst (step st o pick)) = m_tor (snd (step st o pick)).
Proof.
  intros Hapi. unfold step, cfg_first, quiet.
  destruct (o_api o); try discriminate Hapi.
  - destruct (o_want o); [|destruct (first_usable (m_cfg st)); reflexivity].
    destruct (m_cfg st); [reflexivity|]. destruct (has_char SP b); [reflexivity|].
    destruct (find _ _); reflexivity.
  - destruct (o_want o) as [w|]; [|destruct (first_usable (m_cfg st)); reflexivity].
    destruct (existsb _ (m_cfg st)); [reflexivity|].
    destruct (o_accept o) eqn:A; cbn [fst snd m_tor].
    + change [setconf_line cfg_key (m_cfg st ++ [w])] with ([] ++ [setconf_line cfg_key (m_cfg st ++ [w])]).
      rewrite next_tor_add, A by reflexivity. reflexivity.
    + change [setconf_line cfg_key (m_cfg st ++ [w])] with ([] ++ [setconf_line cfg_key (m_cfg st ++ [w])]).
      rewrite next_tor_add, A by reflexivity. reflexivity.
Qed.

Lemma cfg_first_ok st o : tor_ok (m_tor st) -> m_cfg st = entries (m_tor st) ->
  is_cfg (o_api o) = true -> o_want o = None ->
  step_ok (m_tor st) o (fst (cfg_first st)) = true.
Proof.
  intros [Hok _] Hcfg Hapi Hw. unfold cfg_first. rewrite Hcfg, (first_usable_spec _ Hok).
  assert (may_refuse o = true) as Hmr by (unfold may_refuse; rewrite Hw; destruct (o_api o); try discriminate; reflexivity).
  destruct (usable_eps None (entries (m_tor st))) as [|ep U] eqn:E; cbn [hd_error fst quiet];
    rewrite step_ok_quiet, Hw; cbn [option_map]; rewrite E.
  - now rewrite Hmr.
  - cbn [existsb]. now rewrite ep_eqb_refl.
Qed.

Lemma wf_want o w : wf_op o = true -> o_want o = Some w ->
  okline0 w = true /\ usable w = true /\ w <> DEFAULTW.
Proof.
  unfold wf_op. intros H W. rewrite W in H. apply andb_true_iff in H as [H _].
  apply andb_true_iff in H as [H _]. apply andb_true_iff in H as [H _].
  apply andb_true_iff in H as [H1 H2]. apply okline_parts0 in H1 as [A B]. auto.
Qed.

Lemma inv_cfg_same st : tor_ok (m_tor st) -> m_cfg st = entries (m_tor st) -> inv true false st.
Proof.
  intros Ht Hc. split; [intros _; exists []; now rewrite app_nil_r|]. intros _. split; [exact Ht|].
  split; [discriminate|auto].
Qed.

Lemma step_config st o pick : inv true false st -> wf_op o = true -> is_cfg (o_api o) = true ->
  let r := step st o pick in
  step_ok (m_tor st) o (fst r) = true /\
  inv true (rejected o (fst r)) (snd r) /\
  is_prefix (listeners (m_tor st)) (listeners (m_tor (snd r))) = true.
Proof.
  intros [_ I] Hwf Hapi. destruct (I eq_refl) as (Ht & _ & Hc). specialize (Hc eq_refl). clear I.
  pose proof Ht as (Hok & Hdef & _).
  pose proof (inv_cfg_same st Ht Hc) as Hsame.
  assert (Hfirst : o_want o = None ->
     step_ok (m_tor st) o (fst (cfg_first st)) = true /\
     inv true (rejected o (fst (cfg_first st))) (snd (cfg_first st)) /\
     is_prefix (listeners (m_tor st)) (listeners (m_tor (snd (cfg_first st)))) = true).
  { intros W. split; [now apply cfg_first_ok|].
    unfold cfg_first. destruct (first_usable (m_cfg st)); cbn [fst snd quiet]; rewrite rejected_quiet;
      (split; [exact Hsame|apply is_prefix_refl]). }
  cbv zeta. unfold step.
  destruct (o_api o) eqn:A; try discriminate Hapi.
  - (* TorConfig.socks_endpoint *)
    destruct (o_want o) as [p|] eqn:W; [|now apply Hfirst].
    destruct (wf_want o p Hwf W) as (Hp1 & Hp2 & Hp3).
    destruct (want_facts p Hp1 Hp2) as (ep & Pp & Pa & Pz).
    assert (Hq : forall r, inv true (rejected o (fst (quiet st r))) (snd (quiet st r)) /\
                           is_prefix (listeners (m_tor st)) (listeners (m_tor (snd (quiet st r)))) = true).
    { intros r. cbn [fst snd quiet]. rewrite rejected_quiet. split; [exact Hsame|apply is_prefix_refl]. }
    assert (Hmr : may_refuse o = true) by (unfold may_refuse; now rewrite A).
    rewrite Hc. destruct (entries (m_tor st)) as [|l0 rest0] eqn:E.
    { split; [|apply Hq]. cbn [fst quiet]. rewrite step_ok_quiet, E, W, Hmr. reflexivity. }
    rewrite <- E in *.
    destruct (has_char SP p) eqn:Sp.
    { (* a request with option words: refused, as the accessor takes a port *)
      split; [|apply Hq]. cbn [fst quiet]. rewrite step_ok_quiet.
      assert (port_only o = true) as -> by (unfold port_only; now rewrite A, W).
      apply orb_true_r. }
    assert (Pfw : first_word p = p) by (apply first_word_id; exact Sp). rewrite Pfw in Pa.
    destruct (find (fun l => beqb (first_word l) p) (entries (m_tor st))) as [l|] eqn:Fd;
      (split; [|apply Hq]); cbn [fst quiet].
    + apply find_some in Fd as [Hin Hfw]. apply beqb_eq in Hfw.
      assert (first_word l <> ZERO) as Z by (rewrite Hfw; now rewrite Pfw in Pz).
      unfold parse_outcome. rewrite (parse_line_spec l (Hok l Hin) Z), Hfw, Pa.
      rewrite step_ok_quiet, W. apply existsb_ep_In, usable_widen, usable_eps_In.
      exists l. split; [exact Hin|]. unfold usable_for, exact. now rewrite Hfw, beqb_refl, orb_true_r.
    + rewrite step_ok_quiet, W, Hmr.
      assert (usable_eps (Some p) (entries (m_tor st)) = []) as ->; [|reflexivity].
      apply usable_eps_nil. intros e He. unfold usable_for.
      rewrite (exact_word p e Sp), beqb_sym, (find_none _ _ Fd e He). reflexivity.
  - (* TorConfig.create_socks_endpoint *)
    destruct (o_want o) as [w|] eqn:W; [|now apply Hfirst].
    destruct (wf_want o w Hwf W) as (Pline & Hp2 & Pd).
    destruct (want_facts w Pline Hp2) as (ep & Pp & Pa & Pz).
    rewrite Hc.
    change (fun l => beqb w l || beqb w (first_word l)) with (exact w).
    destruct (existsb (exact w) (entries (m_tor st))) eqn:X.
    + cbn [fst snd quiet]. rewrite rejected_quiet. split; [|split; [exact Hsame|apply is_prefix_refl]].
      apply existsb_exists in X as (l & Hin & Hg).
      unfold parse_outcome. rewrite Pp. rewrite step_ok_quiet, W.
      apply existsb_ep_In, usable_widen, usable_eps_In. exists l. split; [exact Hin|].
      unfold usable_for. rewrite Hg. now rewrite <- (exact_first w l Hg).
    + assert (HU : usable_eps (o_want o) (entries (m_tor st)) = []).
      { rewrite W. apply usable_eps_nil. intros e He. unfold usable_for.
        destruct (exact w e) eqn:G; [|reflexivity].
        assert (existsb (exact w) (entries (m_tor st)) = true) as C
          by (apply existsb_exists; exists e; auto). congruence. }
      assert (Hnew : new_line o = w) by (unfold new_line; now rewrite W).
      set (s := setconf_line cfg_key (entries (m_tor st) ++ [w])).
      assert (Hstep : forall r,
                (if o_accept o then exists ep, r = OEp ep /\ addr_of (first_word (new_line o)) = Some ep
                 else exists n, r = OErr n) ->
                step_ok (m_tor st) o {| sent := [s]; out := r |} = true).
      { intros r Hr. change [s] with ([] ++ [s]). apply step_ok_add; auto; try reflexivity.
        rewrite Hnew. apply relisted_app. }
      destruct (o_accept o) eqn:Ac; cbn [fst snd m_tor].
      * split; [|split].
        -- apply Hstep. exists ep. unfold parse_outcome. rewrite Pp, Hnew. auto.
        -- assert (rejected o {| sent := [s]; out := parse_outcome w |} = false) as ->
             by (unfold rejected; now rewrite Ac).
           apply inv_cfg_same; [|reflexivity]. cbn [m_tor]. split; [|split].
           ++ unfold entries. cbn [sp]. intros e He. apply in_app_or in He as [He|[<-|[]]]; [now apply Hok|exact Pline].
           ++ cbn [sp]. intros l [= <-]. now apply is_default_app.
           ++ cbn [sp]. discriminate.
        -- now apply listeners_vals_app.
      * split; [|split].
        -- apply Hstep. now exists K_Runtime.
        -- assert (rejected o {| sent := [s]; out := OErr K_Runtime |} = true) as ->.
           { unfold rejected. rewrite Ac. cbn [sent existsb negb andb]. subst s. now rewrite setconf_line_is. }
           split; [|discriminate]. intros _. exists [w]. reflexivity.
        -- apply is_prefix_refl.
Qed.

(* once Tor has refused a SETCONF of a TorConfig call, every later TorConfig call is in class F4;
   what remains true is that TorConfig's list still starts with Tor's entries *)
Lemma step_config_rej st o pick : inv true true st -> is_cfg (o_api o) = true ->
  inv true true (snd (step st o pick)) /\
  is_prefix (listeners (m_tor st)) (listeners (m_tor (snd (step st o pick)))) = true.
Proof.
  intros [I _] Hapi. destruct (I eq_refl) as (x & Hx).
  assert (Hsame : inv true true st) by (split; [intros _; now exists x|discriminate]).
  unfold step, cfg_first, quiet.
  destruct (o_api o); try discriminate Hapi.
  - destruct (o_want o); [|destruct (first_usable (m_cfg st)); cbn [snd]; split; auto using is_prefix_refl].
    destruct (m_cfg st) eqn:M; [cbn [snd]; split; auto using is_prefix_refl|].
    destruct (has_char SP b); [cbn [snd]; split; auto using is_prefix_refl|].
    destruct (find _ _); cbn [snd]; split; auto using is_prefix_refl.
  - destruct (o_want o) as [w|]; [|destruct (first_usable (m_cfg st)); cbn [snd]; split; auto using is_prefix_refl].
    destruct (existsb _ (m_cfg st)); [cbn [snd]; split; auto using is_prefix_refl|].
    destruct (o_accept o); cbn [snd m_tor m_cfg].
    + split.
      * split; [|discriminate]. intros _. exists []. unfold entries. cbn [sp m_tor]. now rewrite app_nil_r.
      * rewrite Hx, <- app_assoc. now apply listeners_vals_app.
    + split; [|apply is_prefix_refl]. split; [|discriminate]. intros _. exists (x ++ [w]). cbn [m_cfg m_tor].
      now rewrite Hx, <- app_assoc.
Qed.

Definition mode_ok (cfgmode : bool) (ops : list op) : bool :=
  forallb (fun o => Bool.eqb (is_cfg (o_api o)) cfgmode) ops.

Lemma run_from_known ops : forall st rej picks cfgmode,
  inv cfgmode rej st -> forallb wf_op ops = true -> mode_ok cfgmode ops = true ->
  oracle_known (m_tor st) rej ops (run_from st ops picks) = true /\
  is_prefix (listeners (m_tor st)) (listeners (m_tor (end_state st ops picks))) = true /\
  final_tor (m_tor st) ops (run_from st ops picks) = m_tor (end_state st ops picks).
Proof.
  induction ops as [|o ops IH]; intros st rej picks cfgmode I Hwf Hm.
  - cbn. split; [reflexivity|]. split; [apply is_prefix_refl|reflexivity].
  - cbn [forallb mode_ok] in Hwf, Hm. apply andb_true_iff in Hwf as [Hwf Hwfs].
    apply andb_true_iff in Hm as [Hm Hms]. apply eqb_prop in Hm.
    cbn [run_from end_state].
    destruct (step st o (hd no_pick picks)) as [b st'] eqn:S. cbn [snd].
    cbn [oracle_known final_tor].
    assert (Hgoal : forall rej',
      (step_ok (m_tor st) o b || in_class rej o) = true ->
      next_tor (m_tor st) o b = m_tor st' -> inv cfgmode rej' st' -> rej' = (rej || rejected o b) ->
      is_prefix (listeners (m_tor st)) (listeners (m_tor st')) = true ->
      (step_ok (m_tor st) o b || in_class rej o)
        && oracle_known (next_tor (m_tor st) o b) (rej || rejected o b) ops (run_from st' ops (tl picks)) = true /\
      is_prefix (listeners (m_tor st)) (listeners (m_tor (end_state st' ops (tl picks)))) = true /\
      final_tor (next_tor (m_tor st) o b) ops (run_from st' ops (tl picks)) = m_tor (end_state st' ops (tl picks))).
    { intros rej' H1 H2 H3 H4 H5. subst rej'. rewrite H1, H2.
      destruct (IH st' (rej || rejected o b) (tl picks) cfgmode H3 Hwfs Hms) as (J1 & J2 & J3).
      split; [exact J1|]. split; [|exact J3].
      now apply is_prefix_trans with (b := listeners (m_tor st')). }
    destruct cfgmode.
    + destruct rej.
      * (* after a refused SETCONF: class F4 *)
        pose proof (step_config_rej st o (hd no_pick picks) I Hm) as [R1 R2]. rewrite S in R1, R2. cbn [snd] in *.
        pose proof (step_sync_cfg st o (hd no_pick picks) Hm) as Sy. rewrite S in Sy. cbn [fst snd] in Sy.
        apply (Hgoal true); auto.
        unfold in_class, f4. rewrite Hm. cbn. apply orb_true_r.
      * pose proof (step_config st o (hd no_pick picks) I Hwf Hm) as C. cbv zeta in C. rewrite S in C.
        cbn [fst snd] in C. destruct C as (C1 & C2 & C3).
        pose proof (step_sync_cfg st o (hd no_pick picks) Hm) as Sy. rewrite S in Sy. cbn [fst snd] in Sy.
        apply (Hgoal (rejected o b)); auto. now rewrite C1.
    + pose proof (step_direct st o (hd no_pick picks) rej I Hwf Hm) as D. cbv zeta in D. rewrite S in D.
      cbn [fst snd] in D. destruct D as (D1 & D2 & D3 & D4).
      apply (Hgoal (rej || rejected o b)); auto. now rewrite D1.
Qed.

Lemma okline_parts l : okline l = true -> okline0 l = true /\ l <> DEFAULTW.
Proof.
  unfold okline. intros H. apply andb_true_iff in H as [H1 H2]. split; [exact H1|].
  now apply beqb_neq, negb_true_iff.
Qed.

Lemma not_default l : (forall e, In e l -> e <> DEFAULTW) -> is_default l = false.
Proof.
  intros H. unfold is_default. change (tx default_value) with DEFAULTW.
  destruct l as [|x [|y r]]; cbn [list_eqb]; [reflexivity| |now rewrite andb_false_r].
  assert (x <> DEFAULTW) as Hx by (apply H; now left). apply beqb_neq in Hx. now rewrite Hx.
Qed.

Lemma boot_entries t : tor_ok t -> boot t = entries t.
Proof.
  intros (_ & Hd & _). unfold boot, asked_default, reported, entries.
  destruct (sp t) as [|l]; [reflexivity|]. now rewrite (Hd l eq_refl).
Qed.

Lemma wf_init t ops : wf_hist t ops = true ->
  exists cfgmode, inv cfgmode false (init t) /\ forallb wf_op ops = true /\ mode_ok cfgmode ops = true.
Proof.
  unfold wf_hist. intros H. apply andb_true_iff in H as [H Hmode].
  apply andb_true_iff in H as [H Hops]. apply andb_true_iff in H as [Hsp Hd].
  assert (Ht : tor_ok t).
  { split; [|split].
    - unfold entries. intros e He. destruct (sp t) as [|l].
      + apply okline_parts. rewrite forallb_forall in Hd. now apply Hd.
      + apply okline_parts. rewrite forallb_forall in Hsp. now apply Hsp.
    - intros l E. rewrite E in Hsp. apply not_default. intros e He.
      rewrite forallb_forall in Hsp. now apply okline_parts, Hsp.
    - intros _ d Hin. rewrite forallb_forall in Hd. now apply okline_parts, Hd. }
  apply orb_true_iff in Hmode as [Hm|Hm]; apply andb_true_iff in Hm as [Hm1 Hm2].
  - exists false. split; [|split; [exact Hops|]].
    + split; [discriminate|]. intros _. split; [exact Ht|]. split; [|discriminate].
      intros _. split; [|intros e [=]]. unfold dflt_le1. cbn [init m_tor]. apply N.leb_le in Hm2. lia.
    + unfold mode_ok. apply forallb_forall. intros o Ho. rewrite forallb_forall in Hm1.
      specialize (Hm1 o Ho). apply negb_true_iff in Hm1. now rewrite Hm1.
  - exists true. split; [|split; [exact Hops|]].
    + apply inv_cfg_same; [exact Ht|]. cbn [init m_cfg m_tor]. now apply boot_entries.
    + unfold mode_ok. apply forallb_forall. intros o Ho. rewrite forallb_forall in Hm1.
      now rewrite (Hm1 o Ho).
Qed.

(* every call of every history in the envelope satisfies the oracle's clauses or lies in the
   input class of the one open finding (a TorConfig call after a refused SETCONF) *)
Theorem run_known t ops picks : wf_hist t ops = true ->
  oracle_known t false ops (run t ops picks) = true.
Proof.
  intros H. destruct (wf_init t ops H) as (m & I & Hw & Hm).
  now destruct (run_from_known ops (init t) false picks m I Hw Hm) as (R & _).
Qed.

Theorem oracle_holds_partial t ops picks : wf_hist t ops = true ->
  flagged t ops (run t ops picks) = false -> oracle_hist t ops (run t ops picks) = true.
Proof.
  intros H F. rewrite <- (known_unflagged ops t false); [now apply run_known|exact F].
Qed.

(* flagged or not: the listeners Tor had are still there, unchanged and in order, after the history *)
Theorem listeners_never_altered t ops picks : wf_hist t ops = true ->
  is_prefix (listeners t) (listeners (final_tor t ops (run t ops picks))) = true.
Proof.
  intros H. destruct (wf_init t ops H) as (m & I & Hw & Hm).
  destruct (run_from_known ops (init t) false picks m I Hw Hm) as (_ & P & F).
  unfold run. cbn [init m_tor] in *. now rewrite F.
Qed.

(* ------------------------------------------------------------------ the discover-or-add step spelled out *)
Lemma disabled_zero_iff w : okword w = true -> classify w = WDisabled -> w = ZERO.
Proof.
  unfold okword, classify. intros H C. apply andb_true_iff in H as [_ H].
  destruct (prefixb UNIXP w).
  - destruct (skipn 5 w); discriminate.
  - destruct (split_at COLON w) as [[h p]|].
    + destruct (negb (isnil h) && all_digits p && port_ok (digits_val p)); discriminate.
    + destruct (all_digits w); [|discriminate].
      apply andb_true_iff in H as [Hc _].
      destruct (digits_val w =? 0) eqn:Z; [apply N.eqb_eq in Z; now apply canonical_zero|].
      destruct (digits_val w <=? 65535); discriminate.
Qed.

Lemma keep_is_listener e : okline0 e = true -> keep_line e = negb (disabled e).
Proof.
  intros H. destruct (okline0_parts e H) as (_ & Hw & _).
  unfold keep_line, disabled. change (tx "0") with ZERO.
  destruct (beqb (first_word e) ZERO) eqn:Z.
  - apply beqb_eq in Z. now rewrite Z.
  - destruct (classify (first_word e)) eqn:C; try reflexivity.
    apply beqb_neq in Z. exfalso. apply Z. now apply disabled_zero_iff.
Qed.

Lemma keep_listeners t : tor_ok t -> filter keep_line (entries t) = listeners t.
Proof.
  intros [Hok _]. unfold listeners. apply filter_ext_in. intros e He. now apply keep_is_listener, Hok.
Qed.

(* [same_port want]: the request reduced to its first word, i.e. "any usable entry for that port" *)
Theorem create_cases t o pick : tor_ok t -> dflt_le1 t -> wf_op o = true ->
  let r := choose t (o_want o) (o_avail o) (o_accept o) pick in
  let same_port := option_map first_word (o_want o) in
  (exists e, sent (fst r) = queries t /\ out (fst r) = OEp e
             /\ In e (usable_eps same_port (entries t)) /\ snd r = t)
  \/
  (usable_eps same_port (entries t) = [] /\ usable_eps (o_want o) (entries t) = [] /\
   exists s, sent (fst r) = queries t ++ [s] /\ is_setconf s = true /\
     decode_setconf s = Some (map (fun v => (tx key_setconf, v)) (listeners t ++ [new_line o])) /\
     (o_accept o = true ->
        exists e, out (fst r) = OEp e /\ addr_of (first_word (new_line o)) = Some e
                  /\ snd r = {| sp := RVals (listeners t ++ [new_line o]); dflt := dflt t |}) /\
     (o_accept o = false -> (exists n, out (fst r) = OErr n) /\ snd r = t)).
Proof.
  intros Ht Hl Hwf. cbv zeta.
  pose proof (lines_entries t Ht Hl) as HL.
  assert (Hok : forall e, In e (entries t) -> okline0 e = true) by apply Ht.
  unfold choose. rewrite HL.
  destruct (candidates (o_want o) (entries t)) as [|c cs] eqn:C.
  - right. pose proof (cand_complete _ _ Hok C) as HU. split; [exact HU|]. split; [now apply widen_nil|].
    destruct (new_facts o Hwf) as (ep & Hp & Ha & _).
    change (match o_want o with Some w => w | None => o_avail o end) with (new_line o).
    rewrite (keep_listeners t Ht).
    exists (setconf_line (tx key_setconf) (listeners t ++ [new_line o])).
    destruct (o_accept o); cbn [fst snd sent out].
    + split; [reflexivity|]. split; [apply setconf_line_is|]. split; [now apply decode_roundtrip|].
      split; [|discriminate]. intros _. exists ep. unfold parse_outcome. rewrite Hp. auto.
    + split; [reflexivity|]. split; [apply setconf_line_is|]. split; [now apply decode_roundtrip|].
      split; [discriminate|]. intros _. split; [now exists K_TorProtocol|reflexivity].
  - left. cbn [fst snd sent out]. eexists. split; [reflexivity|]. split; [reflexivity|].
    split; [|reflexivity]. apply cand_sound; auto. rewrite C. apply pick_in.
Qed.

(* TorConfig.socks_endpoint() / create_socks_endpoint(None): the first usable entry, or a refusal
   when there is none; nothing is written either way *)
Theorem cfg_first_spec st : (forall e, In e (m_cfg st) -> okline0 e = true) ->
  fst (cfg_first st) = {| sent := [];
                          out := match usable_eps None (m_cfg st) with
                                 | ep :: _ => OEp ep
                                 | [] => OErr K_Runtime
                                 end |}
  /\ snd (cfg_first st) = st.
Proof.
  intros Hok. unfold cfg_first. rewrite (first_usable_spec _ Hok).
  destruct (usable_eps None (m_cfg st)); split; reflexivity.
Qed.

(* ------------------------------------------------------------------ witness of the open finding *)
Definition mkop (a : api) (w : option bytes) (acc : bool) : op :=
  {| o_api := a; o_want := w; o_avail := tx "9999"; o_accept := acc |}.

Definition w_f4_tor : tor := {| sp := RVals [tx "9050"]; dflt := [] |}.
Definition w_f4_ops : list op := [mkop ACfgCreate (Some (tx "7000")) false; mkop ACfgCreate (Some (tx "7000")) true].

Definition refutes (t : tor) (ops : list op) : Prop :=
  wf_hist t ops = true /\ oracle_hist t ops (run t ops []) = false /\ flagged t ops (run t ops []) = true.

Lemma f4_refuted : refutes w_f4_tor w_f4_ops.
Proof. repeat split; vm_compute; reflexivity. Qed.

(* regression anchor of the repaired C18-F5 (a76a42b): _create_socks_endpoint asked for a whole line
   with option words that Tor reports, byte for byte, uses that line: only the GETCONF is written *)
Definition w_f5_tor : tor := {| sp := RVals [tx "9150 IPv6Traffic PreferIPv6"; tx "9155"]; dflt := [] |}.
Definition w_f5_ops : list op := [mkop ACreate (Some (tx "9150 IPv6Traffic PreferIPv6")) true].

Lemma f5_now_accepted :
  wf_hist w_f5_tor w_f5_ops = true /\
  run w_f5_tor w_f5_ops [] = [{| sent := [tx "GETCONF SOCKSPort"]; out := OEp (EpTcp LOCALHOST 9150) |}] /\
  oracle_hist w_f5_tor w_f5_ops (run w_f5_tor w_f5_ops []) = true.
Proof. repeat split; vm_compute; reflexivity. Qed.

(* the same request to TorConfig.create_socks_endpoint (the seeded change C18-s2 broke this) is served
   from the existing line without a SETCONF *)
Lemma full_line_request_cfg :
  run w_f5_tor [mkop ACfgCreate (Some (tx "9150 IPv6Traffic PreferIPv6")) true] []
  = [{| sent := []; out := OEp (EpTcp LOCALHOST 9150) |}].
Proof. vm_compute. reflexivity. Qed.

(* the inputs on which the three repaired defects showed: the oracle now holds on them *)
Definition w_f1_tor : tor := {| sp := RDefault; dflt := [] |}.
Definition w_f2_tor : tor := {| sp := RVals [tx "unix:/run/tor/socks WorldWritable"]; dflt := [] |}.
Definition w_f3_tor : tor := {| sp := RVals [tx "0"]; dflt := [] |}.
Definition w_f3b_tor : tor := {| sp := RVals [tx "auto"; tx "9050"]; dflt := [] |}.

Lemma repaired_witnesses :
  oracle_hist w_f1_tor [mkop ACreate None true] (run w_f1_tor [mkop ACreate None true] []) = true /\
  oracle_hist w_f2_tor [mkop ACfgEndpoint None true] (run w_f2_tor [mkop ACfgEndpoint None true] []) = true /\
  oracle_hist w_f3_tor [mkop ACfgEndpoint None true] (run w_f3_tor [mkop ACfgEndpoint None true] []) = true /\
  oracle_hist w_f3b_tor [mkop ACfgCreate None true] (run w_f3b_tor [mkop ACfgCreate None true] []) = true.
Proof. repeat split; vm_compute; reflexivity. Qed.

(* ------------------------------------------------------------------ client endpoint without a SOCKS endpoint *)
Lemma ports_table : socks_ports_to_try = well_known.
Proof. reflexivity. Qed.
Lemma host_table : tx fallback_host = LOCALHOST.
Proof. reflexivity. Qed.
Lemma except_table : fallback_except = "ConnectError"%string.
Proof. reflexivity. Qed.

Lemma cres_eqb_refl r : cres_eqb r r = true.
Proof. destruct r as [|i|[c|]| |]; cbn; auto using N.eqb_refl. Qed.

Lemma m_res_spec o idx : m_res o idx = res_of o idx.
Proof. destruct o; reflexivity. Qed.

Lemma fallback_ok host ports : ports <> [] -> forall outs idx last,
  chk_attempts (map (EpTcp host) ports) (fst (fallback host ports outs idx last)) outs idx
               (snd (fallback host ports outs idx last)) = true.
Proof.
  induction ports as [|p ps IH]; [congruence|]. intros _ outs idx last.
  cbn [fallback map].
  destruct ps as [|p2 ps].
  - destruct (hd TPending outs) eqn:H; cbn [fallback fst snd chk_attempts map]; rewrite H, ep_eqb_refl;
      cbn; rewrite ?N.eqb_refl; reflexivity.
  - destruct (hd TPending outs) eqn:H.
    2:{ specialize (IH ltac:(discriminate) (tl outs) (idx + 1) (Some idx)).
        destruct (fallback host (p2 :: ps) (tl outs) (idx + 1) (Some idx)) as [a r].
        cbn [fst snd] in *. cbn [chk_attempts map]. rewrite H, ep_eqb_refl. exact IH. }
    all: cbn [fst snd chk_attempts map]; rewrite H, ep_eqb_refl; cbn; rewrite ?N.eqb_refl; reflexivity.
Qed.

Theorem client_oracle given outs : oracle_client given outs (client_run given outs) = true.
Proof.
  unfold oracle_client, client_run. destruct given as [e|].
  - cbn [attempts cresult chk_attempts]. rewrite ep_eqb_refl, m_res_spec.
    destruct (hd TPending outs); cbn; rewrite ?cres_eqb_refl, ?N.eqb_refl; reflexivity.
  - rewrite ports_table, host_table.
    pose proof (fallback_ok LOCALHOST well_known ltac:(discriminate) outs 0 None) as H.
    destruct (fallback LOCALHOST well_known outs 0 None) as [a r]. exact H.
Qed.

(* the loop in the explicit: which ports are tried and what is reported, for any port table *)
Theorem fallback_all_fail host ports : forall outs idx last,
  (forall i, (i < List.length ports)%nat -> exists k, nth i outs TPending = TConnErr k) ->
  fst (fallback host ports outs idx last) = map (EpTcp host) ports /\
  snd (fallback host ports outs idx last)
  = match ports with
    | [] => match last with Some i => CConnErr i | None => COther end
    | _ => CConnErr (idx + N.of_nat (List.length ports) - 1)
    end.
Proof.
  induction ports as [|p ps IH]; intros outs idx last H; [split; reflexivity|].
  cbn [fallback]. destruct (H 0%nat ltac:(cbn; lia)) as (k & Hk).
  assert (hd TPending outs = TConnErr k) as -> by (destruct outs; exact Hk).
  assert (H' : forall i, (i < List.length ps)%nat -> exists k, nth i (tl outs) TPending = TConnErr k).
  { intros i Hi. destruct (H (S i) ltac:(cbn; lia)) as (k' & Hk'). exists k'.
    destruct outs; [destruct i; exact Hk'|exact Hk']. }
  destruct (IH (tl outs) (idx + 1) (Some idx) H') as [I1 I2].
  destruct (fallback host ps (tl outs) (idx + 1) (Some idx)) as [a r]. cbn [fst snd] in *.
  split; [cbn [map]; now rewrite I1|]. rewrite I2.
  destruct ps as [|p2 ps]; [f_equal; cbn; lia|f_equal; cbn [List.length]; lia].
Qed.

Theorem fallback_stops host ports outs idx last p ps :
  ports = p :: ps -> (forall k, hd TPending outs <> TConnErr k) ->
  fallback host ports outs idx last = ([EpTcp host p], m_res (hd TPending outs) idx).
Proof.
  intros -> H. cbn [fallback]. destruct (hd TPending outs) eqn:E; try reflexivity.
  exfalso. now apply (H k).
Qed.
