(* Facts about the reference semantics alone (Spec/TorStore.v, Spec/CfgOracle.v): what the pending
   set looks like on the wire and what Tor's store holds after accepting it; white-space
   stripping and comma splitting. No model here. *)
From Coq Require Import String.
From Coq Require Import List Bool Ascii Arith NArith ZArith Lia.
From TxVerif Require Import Lib.Bytes Lib.CfgLib Spec.CfgTypes Spec.TorStore Spec.CfgOracle
  Proofs.CfgLibProofs.
Import ListNotations.
Open Scope N_scope.

Lemma ci_refl a : ci_eqb a a = true.
Proof. unfold ci_eqb. apply beqb_refl. Qed.
Lemma ci_sym a b : ci_eqb a b = ci_eqb b a.
Proof. unfold ci_eqb. apply beqb_sym. Qed.
Lemma ci_trans a b c : ci_eqb a b = true -> ci_eqb b c = true -> ci_eqb a c = true.
Proof. unfold ci_eqb. intros H1 H2. apply beqb_eq in H1, H2. apply beqb_eq. congruence. Qed.

Lemma mem_ci_ex k l : mem_ci k l = true <-> exists x, In x l /\ ci_eqb x k = true.
Proof.
  induction l as [|y l IH]; cbn.
  - split; [discriminate|intros [x [[] _]]].
  - rewrite orb_true_iff, IH. split.
    + intros [H|[x [H1 H2]]]; [exists y; auto|exists x; auto].
    + intros [x [[H|H] H2]]; [subst; auto|right; eauto].
Qed.

(* in a list without case-duplicates, equal up to case means equal *)
Lemma nodup_ci_unique l x y : nodup_ci l = true -> In x l -> In y l -> ci_eqb x y = true -> x = y.
Proof.
  induction l as [|z l IH]; cbn; [tauto|].
  intros Hnd Hx Hy E. apply andb_true_iff in Hnd as [Hz Hnd]. apply negb_true_iff in Hz.
  destruct Hx as [Hx|Hx], Hy as [Hy|Hy]; subst; try reflexivity.
  - exfalso. assert (mem_ci x l = true) as X; [|congruence]. apply mem_ci_ex. exists y. split; [assumption|now rewrite ci_sym].
  - exfalso. assert (mem_ci y l = true) as X; [|congruence]. apply mem_ci_ex. exists x. split; assumption.
  - now apply IH.
Qed.

Lemma nodup_ci_sub names l :
  nodup_ci names = true -> NoDup l -> (forall x, In x l -> In x names) -> nodup_ci l = true.
Proof.
  intros Hn. induction l as [|x l IH]; intros Hnd Hsub; [reflexivity|].
  inversion Hnd as [|? ? Hx Hnd']. subst. cbn. apply andb_true_iff. split.
  - apply negb_true_iff. destruct (mem_ci x l) eqn:E; [|reflexivity]. exfalso.
    apply mem_ci_ex in E as [y [Hy Hc]]. apply Hx.
    assert (y = x) by (eapply nodup_ci_unique; [exact Hn|apply Hsub; now right|apply Hsub; now left|assumption]).
    now subst.
  - apply IH; [assumption|]. intros y Hy. apply Hsub. now right.
Qed.

(* ------------------------------------------------------------------ the pending set on the wire *)
Definition block (p : bytes * ival) : list entry := map (fun v => (fst p, v)) (entries_for (snd p)).

Lemma pend_entries_blocks pend : pend_entries pend = concat (map block pend).
Proof. reflexivity. Qed.

Lemma filter_block_same cn iv : filter (fun e : entry => ci_eqb (fst e) cn) (block (cn, iv)) = block (cn, iv).
Proof.
  unfold block. cbn [fst snd]. induction (entries_for iv) as [|v l IH]; [reflexivity|].
  cbn [map filter fst]. now rewrite ci_refl, IH.
Qed.

Lemma filter_block_other cn c0 iv : ci_eqb c0 cn = false -> filter (fun e : entry => ci_eqb (fst e) cn) (block (c0, iv)) = [].
Proof.
  intros H. unfold block. cbn [fst snd]. induction (entries_for iv) as [|v l IH]; [reflexivity|].
  cbn [map filter fst]. now rewrite H, IH.
Qed.

Lemma filter_no_key cn pend :
  mem_ci cn (map fst pend) = false -> filter (fun e : entry => ci_eqb (fst e) cn) (pend_entries pend) = [].
Proof.
  induction pend as [|[c0 iv0] pend IH]; [reflexivity|]. cbn [map fst mem_ci]. intros H.
  apply orb_false_iff in H as [H1 H2].
  rewrite pend_entries_blocks. cbn [map concat]. rewrite filter_app, (filter_block_other _ _ _ H1).
  rewrite <- pend_entries_blocks. now apply IH.
Qed.

Lemma filter_key cn iv pend :
  nodup_ci (map fst pend) = true -> In (cn, iv) pend ->
  filter (fun e : entry => ci_eqb (fst e) cn) (pend_entries pend) = block (cn, iv).
Proof.
  induction pend as [|[c0 iv0] pend IH]; [intros _ []|].
  cbn [map fst nodup_ci]. intros Hnd Hin. apply andb_true_iff in Hnd as [H0 Hnd]. apply negb_true_iff in H0.
  rewrite pend_entries_blocks. cbn [map concat]. rewrite filter_app, <- pend_entries_blocks.
  destruct Hin as [E|Hin].
  - inversion E. subst. rewrite filter_block_same, (filter_no_key _ _ H0). apply app_nil_r.
  - assert (ci_eqb c0 cn = false) as Hne.
    { destruct (ci_eqb c0 cn) eqn:E; [|reflexivity]. exfalso.
      assert (mem_ci c0 (map fst pend) = true) as X; [|congruence].
      apply mem_ci_ex. exists cn. split; [now apply (in_map fst) in Hin|now rewrite ci_sym]. }
    rewrite (filter_block_other _ _ _ Hne). cbn [app]. now apply IH.
Qed.

Lemma entry_val_eqb_refl v : entry_val_eqb v v = true.
Proof. destruct v as [[|c r]|]; cbn; try reflexivity. now rewrite Ascii.eqb_refl, beqb_refl. Qed.

Lemma list_eqb_refl {A} (eqA : A -> A -> bool) : (forall x, eqA x x = true) -> forall l, list_eqb eqA l l = true.
Proof. intros H. induction l; cbn; [reflexivity|now rewrite H, IHl]. Qed.

(* the Spec accepts its own rendering of the pending set *)
Lemma entries_match_self pend : nodup_ci (map fst pend) = true -> entries_match pend (pend_entries pend) = true.
Proof.
  intros Hnd. unfold entries_match. apply andb_true_iff. split.
  - apply forallb_forall. intros [cn iv] Hin. cbn [fst snd].
    rewrite (filter_key cn iv pend Hnd Hin). unfold block. cbn [fst snd]. rewrite map_map. cbn [snd].
    rewrite map_id. apply list_eqb_refl. apply entry_val_eqb_refl.
  - apply forallb_forall. intros e He. apply existsb_exists.
    rewrite pend_entries_blocks in He. apply in_concat in He as [b [Hb He]].
    apply in_map_iff in Hb as [p [Hp Hin]]. subst b. exists p. split; [assumption|].
    unfold block in He. apply in_map_iff in He as [v [Hv _]]. subst e. cbn [fst]. apply ci_refl.
Qed.

(* ------------------------------------------------------------------ the store after an accepted SETCONF *)
Definition some_nonempty (v : option bytes) : list bytes :=
  match v with Some (c :: r) => [c :: r] | _ => [] end.

Lemma values_of_key_filter k es :
  values_of_key k es = concat (map (fun e : entry => some_nonempty (snd e)) (filter (fun e : entry => ci_eqb (fst e) k) es)).
Proof.
  unfold values_of_key. induction es as [|e es IH]; [reflexivity|].
  cbn [map concat filter]. destruct (ci_eqb (fst e) k); cbn [map concat]; now rewrite IH.
Qed.

Definition iv_values (iv : ival) : list bytes := concat (map some_nonempty (entries_for iv)).

Lemma values_of_pending cn iv pend :
  nodup_ci (map fst pend) = true -> In (cn, iv) pend -> values_of_key cn (pend_entries pend) = iv_values iv.
Proof.
  intros Hnd Hin. rewrite values_of_key_filter, (filter_key _ _ _ Hnd Hin). unfold block, iv_values. cbn [fst snd].
  now rewrite map_map.
Qed.

Lemma dfind_ci_self_gen {A} (d : list (bytes * A)) cn v :
  nodup_ci (map fst d) = true -> In (cn, v) d -> dfind_ci cn d = Some (cn, v).
Proof.
  induction d as [|[k0 v0] d IH]; cbn [map fst nodup_ci dfind_ci In]; [tauto|].
  intros Hnd Hin. apply andb_true_iff in Hnd as [Hn Hnd]. apply negb_true_iff in Hn.
  destruct Hin as [H|H].
  - inversion H. subst. now rewrite ci_refl.
  - destruct (ci_eqb k0 cn) eqn:E.
    + exfalso. assert (mem_ci k0 (map fst d) = true) as X; [|congruence].
      apply mem_ci_ex. exists cn. split; [apply (in_map fst) in H; exact H|rewrite ci_sym; exact E].
    + now apply IH.
Qed.

Section Apply.
  Variable opts : list (bytes * kind).
  Hypothesis opts_nodup : nodup_ci (map fst opts) = true.

  Lemma dfind_self cn k : In (cn, k) opts -> dfind_ci cn opts = Some (cn, k).
  Proof. apply dfind_ci_self_gen. exact opts_nodup. Qed.

  Lemma canon_self cn k : In (cn, k) opts -> canon opts cn = cn.
  Proof. intros H. unfold canon. now rewrite (dfind_self _ _ H). Qed.

  (* entries whose keys are spelled as Tor spells option names *)
  Definition canonical_keys (es : list entry) : Prop := forall e, In e es -> exists k, In (fst e, k) opts.

  Lemma apply_entries_get es st_ cn :
    canonical_keys es ->
    store_get (apply_entries opts st_ es) cn =
    if existsb (fun e : entry => beqb (fst e) cn) es then values_of_key cn es else store_get st_ cn.
  Proof.
    intros Hc. unfold apply_entries, store_get.
    assert (forall es' s, (forall e, In e es' -> In e es) ->
              dget cn (fold_left (fun s0 (e : entry) => dset (canon opts (fst e)) (values_of_key (fst e) es) s0) es' s)
              = if existsb (fun e : entry => beqb (fst e) cn) es' then Some (values_of_key cn es) else dget cn s) as H.
    { induction es' as [|e es' IH]; intros s Hsub; [reflexivity|].
      cbn [fold_left existsb]. rewrite IH by (intros x Hx; apply Hsub; now right).
      destruct (Hc e (Hsub e (or_introl eq_refl))) as [k Hk]. rewrite (canon_self _ _ Hk).
      destruct (existsb (fun e0 : entry => beqb (fst e0) cn) es') eqn:E.
      - now rewrite orb_true_r.
      - rewrite orb_false_r. destruct (beqb (fst e) cn) eqn:E1.
        + apply beqb_eq in E1. rewrite E1. now rewrite dget_dset_same.
        + rewrite dget_dset_other; [reflexivity|]. now apply beqb_false_neq. }
    rewrite (H es st_ (fun e He => He)). destruct (existsb (fun e : entry => beqb (fst e) cn) es); reflexivity.
  Qed.
End Apply.

Lemma pend_entries_keys pend e : In e (pend_entries pend) -> In (fst e) (map fst pend).
Proof.
  rewrite pend_entries_blocks. intros He. apply in_concat in He as [b [Hb He]].
  apply in_map_iff in Hb as [p [Hp Hin]]. subst b. unfold block in He. apply in_map_iff in He as [v [Hv _]]. subst e.
  cbn [fst]. now apply in_map.
Qed.

Lemma pend_entries_has_key cn iv pend :
  In (cn, iv) pend -> existsb (fun e : entry => beqb (fst e) cn) (pend_entries pend) = true.
Proof.
  intros Hin. apply existsb_exists.
  assert (entries_for iv <> []) as Hne by (destruct iv as [s|[|a l]]; cbn; discriminate).
  destruct (entries_for iv) as [|v vs] eqn:E; [congruence|].
  exists (cn, v). split; [|cbn; apply beqb_refl].
  rewrite pend_entries_blocks. apply in_concat. exists (block (cn, iv)). split; [now apply in_map|].
  unfold block. cbn [fst snd]. rewrite E. now left.
Qed.

Lemma pend_entries_no_key cn pend :
  ~ In cn (map fst pend) -> existsb (fun e : entry => beqb (fst e) cn) (pend_entries pend) = false.
Proof.
  intros Hn. destruct (existsb (fun e : entry => beqb (fst e) cn) (pend_entries pend)) eqn:E; [|reflexivity].
  exfalso. apply existsb_exists in E as [e [He Hb]]. apply beqb_eq in Hb. subst cn.
  apply Hn. now apply pend_entries_keys.
Qed.

(* ------------------------------------------------------------------ strip and split *)
Lemma lstrip_split s : exists p, forallb is_space p = true /\ s = p ++ lstrip s.
Proof.
  induction s as [|c s IH]; [exists []; auto|]. cbn [lstrip]. destruct (is_space c) eqn:E.
  - destruct IH as [p [Hp Hs]]. exists (c :: p). cbn. rewrite E, Hp. split; [reflexivity|]. now f_equal.
  - exists []. auto.
Qed.

Lemma lstrip_fix s : (match s with c :: _ => is_space c = false | [] => True end) -> lstrip s = s.
Proof. destruct s as [|c s]; [reflexivity|]. cbn. now intros ->. Qed.

Lemma lstrip_head s : match lstrip s with c :: _ => is_space c = false | [] => True end.
Proof. induction s as [|c s IH]; cbn; [exact I|]. destruct (is_space c) eqn:E; [exact IH|exact E]. Qed.

Lemma lstrip_idem s : lstrip (lstrip s) = lstrip s.
Proof. apply lstrip_fix. apply lstrip_head. Qed.

Lemma strip_idem s : strip (strip s) = strip s.
Proof.
  unfold strip.
  remember (lstrip s) as t eqn:Et.
  remember (lstrip (rev t)) as u eqn:Eu.
  destruct (lstrip_split (rev t)) as [p [Hp Hrt]]. rewrite <- Eu in Hrt.
  assert (t = rev u ++ rev p) as Ht by (rewrite <- rev_app_distr, <- Hrt; now rewrite rev_involutive).
  assert (lstrip (rev u) = rev u) as H1.
  { apply lstrip_fix. destruct (rev u) as [|c r] eqn:E; [exact I|].
    pose proof (lstrip_head s) as Hh. rewrite <- Et, Ht in Hh. cbn [app] in Hh. exact Hh. }
  rewrite H1, rev_involutive. rewrite Eu. now rewrite lstrip_idem.
Qed.

Lemma split_on_no_sep sep s : memb sep s = false -> split_on sep s = [s].
Proof.
  induction s as [|c s IH]; [reflexivity|]. cbn. intros H. apply orb_false_iff in H as [H1 H2].
  rewrite Ascii.eqb_sym in H1. rewrite H1, (IH H2). reflexivity.
Qed.

Lemma split_on_pieces sep s x : In x (split_on sep s) -> memb sep x = false.
Proof.
  revert x. induction s as [|c s IH]; intros x; cbn [split_on].
  - intros [H|[]]. now subst.
  - destruct (Ascii.eqb c sep) eqn:E.
    + intros [H|H]; [now subst|now apply IH].
    + destruct (split_on sep s) as [|h t] eqn:Es.
      * intros [H|[]]. subst. cbn. rewrite Ascii.eqb_sym, E. reflexivity.
      * intros [H|H].
        -- subst. cbn. rewrite Ascii.eqb_sym, E. cbn. apply IH. now left.
        -- apply IH. now right.
Qed.

(* stripping cannot introduce the separator *)
Lemma memb_lstrip a s : memb a s = false -> memb a (lstrip s) = false.
Proof.
  induction s as [|c s IH]; [reflexivity|]. cbn. intros H. apply orb_false_iff in H as [H1 H2].
  destruct (is_space c); [now apply IH|]. cbn. now rewrite H1, H2.
Qed.
Lemma memb_rev a s : memb a (rev s) = memb a s.
Proof.
  induction s as [|c s IH]; [reflexivity|]. cbn.
  assert (forall l1 l2, memb a (l1 ++ l2) = memb a l1 || memb a l2) as Happ.
  { induction l1; intros; cbn; [reflexivity|]. now rewrite IHl1, orb_assoc. }
  rewrite Happ, IH. cbn. rewrite orb_false_r. apply orb_comm.
Qed.
Lemma memb_strip a s : memb a s = false -> memb a (strip s) = false.
Proof. intros H. unfold strip. rewrite memb_rev. apply memb_lstrip. rewrite memb_rev. now apply memb_lstrip. Qed.
