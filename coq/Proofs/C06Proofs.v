(* C06: the request encoders produce RFC 1928 well-formed requests (proofs). *)
From Coq Require Import List Bool Ascii Arith NArith Lia.
From TxVerif Require Import Lib.Bytes Model.Struct Gen.SocksConsts Spec.Rfc1928 Spec.C06 Model.SocksEnc.
Import ListNotations.
Open Scope N_scope.

Lemma code_ch n : n < 256 -> code (ch n) = n.
Proof. intros H. unfold code, ch. now apply N_ascii_embedding. Qed.

Lemma take_app (a r : bytes) : take (length a) (a ++ r) = Some (a, r).
Proof. induction a as [|x a IH]; cbn; [reflexivity|]. now rewrite IH. Qed.

Lemma fit_exact n (a : bytes) : N.to_nat n = length a -> fit n a = a.
Proof.
  intros H. unfold fit. rewrite H, firstn_all, Nat.sub_diag. cbn. now rewrite app_nil_r.
Qed.

Lemma port_roundtrip p : p < 65536 ->
  port_of [ch (p / 256); ch (p mod 256)] = Some p.
Proof.
  intros H. unfold port_of.
  rewrite !code_ch.
  - f_equal. pose proof (N.div_mod p 256). lia.
  - apply N.mod_lt. lia.
  - apply N.div_lt_upper_bound; lia.
Qed.

Lemma nlen_to_nat {A} (l : list A) : N.to_nat (nlen l) = length l.
Proof. unfold nlen. apply Nnat.Nat2N.id. Qed.

Lemma ltb_of_leb_port port : (65535 <? port) = false -> (port <? 65536) = true.
Proof. intros H. apply N.ltb_ge in H. apply N.ltb_lt. lia. Qed.

(* ---------- one lemma per sender ---------- *)

Lemma connect_ip_v4 text a port : length a = 4%nat -> (65535 <? port) = false ->
  exists b, encode RConnect {| t_text := text; t_cls := CV4 a |} port = Some b /\
            decode_request b = Some (CMD_CONNECT, SV4 a, port).
Proof.
  intros Ha Hp. apply ltb_of_leb_port in Hp.
  unfold encode, run_packer, pk_connect_ip. cbn -[N.div N.modulo N.ltb fit].
  rewrite Hp. rewrite fit_exact by (now rewrite Ha).
  eexists; split; [reflexivity|].
  unfold decode_request. cbn -[N.div N.modulo take port_of].
  change 4%nat with (length a) at 1 || rewrite <- Ha.
  rewrite take_app, port_roundtrip; [reflexivity|]. now apply N.ltb_lt.
Qed.

Lemma enc_host_ok (p : packer) cmd text port :
  p_net p = true -> p_items p = [FB; FB; FB; FB; FB; FSlen; FH] -> p_hole_is_len_of p = Some v_host ->
  (exists px, p_args p = [XConst 5; XConst cmd; XConst 0; XConst 3; XLenHost; XVar v_host; px] /\
              eval_x false (env_of (Some text) (Some port) None None) px = Some (AInt port)) ->
  cmd < 256 -> nlen text <= 255 -> port < 65536 ->
  exists b, run_packer p false (env_of (Some text) (Some port) None None) = Some b /\
            decode_request b = Some (cmd, SHost text, port).
Proof.
  intros Hn Hi Hh (px & Ha & Hpx) Hc Hl Hp.
  unfold run_packer. rewrite Hn, Hi, Hh, Ha.
  cbn -[N.div N.modulo N.ltb fit nlen eval_x]. 
  replace (eval_x false (env_of (Some text) (Some port) None None) (XConst 5)) with (Some (AInt 5)) by reflexivity.
  cbn -[N.div N.modulo N.ltb fit nlen] in Hpx |- *. rewrite Hpx.
  cbn -[N.div N.modulo N.ltb fit nlen].
  assert (Hc' : (cmd <? 256) = true) by now apply N.ltb_lt.
  assert (Hl' : (nlen text <? 256) = true) by (apply N.ltb_lt; lia).
  assert (Hp' : (port <? 65536) = true) by now apply N.ltb_lt.
  rewrite Hc', Hl', Hp'. rewrite fit_exact by apply nlen_to_nat.
  eexists; split; [reflexivity|].
  unfold decode_request. cbn -[N.div N.modulo take port_of nlen].
  rewrite !code_ch by lia. cbn -[N.div N.modulo take port_of nlen].
  rewrite nlen_to_nat, take_app, port_roundtrip by exact Hp. reflexivity.
Qed.

Lemma connect_host text port :
  is_ascii text = true -> nlen text <= 255 -> port < 65536 ->
  exists b, encode RConnect {| t_text := text; t_cls := CHost |} port = Some b /\
            decode_request b = Some (CMD_CONNECT, SHost text, port).
Proof.
  intros Ha Hl Hp. unfold encode. cbn [t_cls t_text]. rewrite Ha. cbn [negb andb].
  replace (connect_host_ascii_only && false) with false by (now destruct connect_host_ascii_only).
  apply (enc_host_ok pk_connect_host CMD_CONNECT); try reflexivity; try assumption;
    try (eexists; split; reflexivity); try (unfold CMD_CONNECT; lia).
Qed.

Lemma resolve_any text cls port :
  is_ascii text = true -> nlen text <= 255 ->
  exists b, encode RResolve {| t_text := text; t_cls := cls |} port = Some b /\
            decode_request b = Some (CMD_RESOLVE, SHost text, 0).
Proof.
  intros Ha Hl. unfold encode. cbn [t_cls t_text]. rewrite Ha. cbn [negb].
  replace (resolve_host_ascii_only && false) with false by (now destruct resolve_host_ascii_only).
  (* the environment has no port; the packer's port argument is the constant 0 *)
  pose proof (enc_host_ok pk_resolve CMD_RESOLVE text 0) as H.
  unfold run_packer in *. cbn -[N.div N.modulo N.ltb fit nlen pack] in *.
  apply H; try reflexivity; try assumption; try (unfold CMD_RESOLVE; lia);
    try (eexists; split; reflexivity).
Qed.

Lemma resolve_ptr_v4 text a port : length a = 4%nat ->
  exists b, encode RResolvePtr {| t_text := text; t_cls := CV4 a |} port = Some b /\
            decode_request b = Some (CMD_RESOLVE_PTR, SV4 a, 0).
Proof.
  intros Ha. unfold encode, run_packer. cbn -[N.div N.modulo N.ltb fit nlen].
  rewrite fit_exact by apply nlen_to_nat.
  eexists; split; [reflexivity|].
  unfold decode_request. cbn -[take port_of].
  rewrite <- Ha. rewrite take_app. reflexivity.
Qed.

Lemma resolve_ptr_v6 text a port : length a = 16%nat ->
  exists b, encode RResolvePtr {| t_text := text; t_cls := CV6 a |} port = Some b /\
            decode_request b = Some (CMD_RESOLVE_PTR, SV6 a, 0).
Proof.
  intros Ha. unfold encode, run_packer. cbn -[N.div N.modulo N.ltb fit nlen].
  rewrite fit_exact by apply nlen_to_nat.
  eexists; split; [reflexivity|].
  unfold decode_request. cbn -[take port_of].
  rewrite <- Ha. rewrite take_app. reflexivity.
Qed.

(* ---------- the property on the model ---------- *)

Lemma roundtrip_partial ty t port e :
  wf_target t -> expected ty t port = Some e -> is_connect_v6 ty t = false ->
  exists b, encode ty t port = Some b /\ decode_request b = Some e.
Proof.
  destruct t as [text cls]. unfold wf_target, expected, is_connect_v6. cbn [t_cls t_text].
  intros Hwf He Hf.
  destruct ty.
  - destruct (65535 <? port) eqn:Hp; [discriminate|].
    destruct cls as [|a|a].
    + destruct (is_ascii text) eqn:Ha; [|discriminate].
      destruct (nlen text <=? 255) eqn:Hl; [|discriminate].
      cbn in He. injection He as <-. apply connect_host; auto.
      * now apply N.leb_le.
      * apply N.ltb_ge in Hp. lia.
    + injection He as <-. now apply connect_ip_v4.
    + discriminate.
  - destruct (is_ascii text) eqn:Ha; [|discriminate].
    destruct (nlen text <=? 255) eqn:Hl; [|discriminate].
    cbn in He. injection He as <-. apply resolve_any; auto. now apply N.leb_le.
  - destruct cls as [|a|a]; [discriminate| |]; injection He as <-.
    + now apply resolve_ptr_v4.
    + now apply resolve_ptr_v6.
Qed.

Lemma pack_fails_B net hole v its args : 256 <= v ->
  pack net hole (FB :: its) (AInt v :: args) = None.
Proof.
  intros H. cbn [pack pack_item]. assert (E : (v <? 256) = false) by (apply N.ltb_ge; lia). now rewrite E.
Qed.

Lemma enc_host_too_long (p : packer) c1 c2 c3 c4 text port px :
  p_items p = [FB; FB; FB; FB; FB; FSlen; FH] ->
  p_args p = [XConst c1; XConst c2; XConst c3; XConst c4; XLenHost; XVar v_host; px] ->
  255 < nlen text ->
  run_packer p false (env_of (Some text) port None None) = None.
Proof.
  intros Hi Ha Hl. unfold run_packer. rewrite Hi, Ha.
  cbn -[N.div N.modulo N.ltb fit nlen eval_x pack].
  cbn -[N.div N.modulo N.ltb fit nlen pack].
  destruct (eval_x false (env_of (Some text) port None None) px) as [apx|]; [|reflexivity].
  cbn -[N.div N.modulo N.ltb fit nlen].
  destruct (c1 <? 256); [|reflexivity]. destruct (c2 <? 256); [|reflexivity].
  destruct (c3 <? 256); [|reflexivity]. destruct (c4 <? 256); [|reflexivity].
  assert (E : (nlen text <? 256) = false) by (apply N.ltb_ge; lia). now rewrite E.
Qed.

Lemma refuses_unencodable ty t port :
  wf_target t -> expected ty t port = None -> encode ty t port = None.
Proof.
  destruct t as [text cls]. unfold wf_target, expected. cbn [t_cls t_text].
  intros Hwf He. destruct ty.
  - destruct (65535 <? port) eqn:Hp.
    + (* port does not fit in H *)
      assert (E : (port <? 65536) = false) by (apply N.ltb_lt in Hp; apply N.ltb_ge; lia).
      unfold encode. cbn [t_cls t_text]. destruct cls as [|a|a].
      * destruct (connect_host_ascii_only && negb (is_ascii text)); [reflexivity|].
        unfold run_packer. cbn -[N.div N.modulo N.ltb fit nlen].
        rewrite E. now destruct (nlen text <? 256).
      * unfold run_packer. cbn -[N.div N.modulo N.ltb fit nlen]. now rewrite E.
      * unfold run_packer. cbn -[N.div N.modulo N.ltb fit nlen]. now rewrite E.
    + destruct cls as [|a|a]; try discriminate.
      unfold encode. cbn [t_cls t_text].
      destruct (is_ascii text) eqn:Ha; cbn [negb andb] in *.
      * destruct (nlen text <=? 255) eqn:Hl; [discriminate|]. apply N.leb_gt in Hl.
        replace (connect_host_ascii_only && false) with false by (now destruct connect_host_ascii_only).
        now apply (enc_host_too_long pk_connect_host 5 1 0 3 text (Some port) (XVar v_port)).
      * reflexivity.
  - unfold encode. cbn [t_cls t_text].
    destruct (is_ascii text) eqn:Ha; cbn [negb andb] in *.
    + destruct (nlen text <=? 255) eqn:Hl; [discriminate|]. apply N.leb_gt in Hl.
      replace (resolve_host_ascii_only && false) with false by (now destruct resolve_host_ascii_only).
      now apply (enc_host_too_long pk_resolve 5 240 0 3 text None (XConst 0)).
    + reflexivity.
  - destruct cls as [|a|a]; try discriminate. reflexivity.
Qed.

Lemma oracle_holds_partial ty t port :
  wf_target t -> is_connect_v6 ty t = false -> oracle ty t port (model_obs ty t port) = true.
Proof.
  intros Hwf Hf. unfold oracle, model_obs.
  destruct (expected ty t port) as [e|] eqn:He.
  - destruct (roundtrip_partial ty t port e Hwf He Hf) as (b & -> & ->).
    destruct e as [[c a] p]. cbn. rewrite !N.eqb_refl. cbn.
    now replace (saddr_eqb a a) with true by (symmetry; now apply saddr_eqb_eq).
  - now rewrite (refuses_unencodable ty t port Hwf He).
Qed.

(* the full statement is false of the faithful model: open finding C06-F1 *)
Definition v6_witness : target :=
  {| t_text := map ch [50; 48; 48; 49; 58; 100; 98; 56; 58; 58; 49];   (* "2001:db8::1" *)
     t_cls := CV6 (map ch [32; 1; 13; 184; 0; 0; 0; 0; 0; 0; 0; 0; 0; 0; 0; 1]) |}.

Lemma connect_v6_refuted :
  exists t port, wf_target t /\ oracle RConnect t port (model_obs RConnect t port) = false.
Proof. exists v6_witness, 443. split; vm_compute; reflexivity. Qed.

Lemma greeting_exact : version_bytes = Some greeting_noauth.
Proof. reflexivity. Qed.
