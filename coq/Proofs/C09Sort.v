(* C09: sorting the PriorityAttacher heap array by (priority, counter) gives priority order with ties in
   insertion order, whatever the array layout is. *)
From Coq Require Import List Bool Ascii Arith NArith Lia Permutation Sorted.
From TxVerif Require Import Lib.Bytes Spec.C09 Model.Attach.
Import ListNotations.
Open Scope N_scope.

Definition hent_at (i : nat) (x : sub) : hent :=
  {| h_prio := sb_prio x; h_cnt := N.of_nat i; h_att := if sb_live x then Some (sb_j x) else None |}.
Fixpoint hents (i : nat) (l : list sub) : list hent :=
  match l with [] => [] | x :: r => hent_at i x :: hents (S i) r end.

(* ---- the order ---- *)
Definition hltP (a b : hent) : Prop := hlt a b = true.

Lemma hlt_spec a b : hlt a b = true <-> (h_prio a < h_prio b \/ (h_prio a = h_prio b /\ h_cnt a < h_cnt b)).
Proof.
  unfold hlt. rewrite orb_true_iff, andb_true_iff, !N.ltb_lt, N.eqb_eq. tauto.
Qed.
Lemma hlt_trans a b c : hltP a b -> hltP b c -> hltP a c.
Proof. unfold hltP. rewrite !hlt_spec. lia. Qed.
Lemma hlt_asym a b : hltP a b -> hltP b a -> False.
Proof. unfold hltP. rewrite !hlt_spec. lia. Qed.
Lemma hlt_total a b : h_cnt a <> h_cnt b -> hlt a b = false -> hltP b a.
Proof.
  unfold hltP. intros Hne H. apply hlt_spec. destruct (hlt a b) eqn:E; [discriminate|].
  assert (X : ~ (h_prio a < h_prio b \/ (h_prio a = h_prio b /\ h_cnt a < h_cnt b))) by (rewrite <- hlt_spec; congruence).
  lia.
Qed.

(* ---- insertion sort ---- *)
Lemma insert_h_perm x l : Permutation (insert_h x l) (x :: l).
Proof.
  induction l as [|y r IH]; cbn [insert_h]; [reflexivity|].
  destruct (hlt y x); [|reflexivity]. rewrite IH. apply perm_swap.
Qed.

Lemma sort_hents_perm l : Permutation (sort_hents l) l.
Proof.
  induction l as [|x l IH]; cbn [sort_hents fold_right]; [reflexivity|].
  fold (sort_hents l). rewrite insert_h_perm. now constructor.
Qed.

Lemma insert_h_sorted x l : StronglySorted hltP l -> (forall y, In y l -> h_cnt y <> h_cnt x) ->
  StronglySorted hltP (insert_h x l).
Proof.
  induction l as [|y r IH]; intros S Hd; cbn [insert_h]; [repeat constructor|].
  inversion S as [|? ? Sr Fy]; subst.
  destruct (hlt y x) eqn:E.
  - constructor; [apply IH; [exact Sr | intros z Hz; apply Hd; right; exact Hz]|].
    rewrite (Forall_forall (hltP y)). intros z Hz. apply (Permutation_in _ (insert_h_perm x r)) in Hz as [<-|Hz]; [exact E|].
    rewrite Forall_forall in Fy. now apply Fy.
  - assert (Hxy : hltP x y) by (apply hlt_total; [apply Hd; left; reflexivity | exact E]).
    constructor; [exact S|]. constructor; [exact Hxy|].
    rewrite Forall_forall in *. intros z Hz. eapply hlt_trans; [exact Hxy | now apply Fy].
Qed.

Lemma sort_hents_sorted l : NoDup (map h_cnt l) -> StronglySorted hltP (sort_hents l).
Proof.
  induction l as [|x l IH]; intros ND; cbn [sort_hents fold_right]; [constructor|]. fold (sort_hents l).
  inversion ND as [|? ? Hx ND']; subst. apply insert_h_sorted; [apply IH; exact ND'|].
  intros y Hy E. apply Hx. rewrite <- E. apply in_map. exact (Permutation_in _ (sort_hents_perm l) Hy).
Qed.

Lemma sorted_perm_eq : forall l1 l2, StronglySorted hltP l1 -> StronglySorted hltP l2 -> Permutation l1 l2 -> l1 = l2.
Proof.
  induction l1 as [|a l1 IH]; intros l2 S1 S2 P.
  - apply Permutation_nil in P. now subst.
  - destruct l2 as [|b l2]; [apply Permutation_sym, Permutation_nil in P; discriminate|].
    inversion S1 as [|? ? S1' F1]; inversion S2 as [|? ? S2' F2]; subst.
    rewrite Forall_forall in F1, F2.
    assert (a = b).
    { assert (Ha : In a (b :: l2)) by (apply (Permutation_in _ P); left; reflexivity).
      assert (Hb : In b (a :: l1)) by (apply (Permutation_in _ (Permutation_sym P)); left; reflexivity).
      destruct Ha as [->|Ha]; [reflexivity|]. destruct Hb as [->|Hb]; [reflexivity|].
      exfalso. exact (hlt_asym a b (F1 b Hb) (F2 a Ha)). }
    subst b. f_equal. apply IH; [exact S1' | exact S2' | exact (Permutation_cons_inv P)].
Qed.

Lemma sort_perm_eq l1 l2 : NoDup (map h_cnt l1) -> Permutation l1 l2 -> sort_hents l1 = sort_hents l2.
Proof.
  intros ND P. apply sorted_perm_eq.
  - apply sort_hents_sorted. exact ND.
  - apply sort_hents_sorted. exact (Permutation_NoDup (Permutation_map h_cnt P) ND).
  - rewrite !sort_hents_perm. exact P.
Qed.

(* ---- heappush only moves entries around ---- *)
Lemma set_nth_exch {A} (r : list A) j a b : (j < List.length r)%nat -> Permutation (a :: set_nth j b r) (b :: set_nth j a r).
Proof.
  revert j. induction r as [|z r IH]; intros [|j] H; cbn [List.length set_nth] in *; try lia.
  - apply perm_swap.
  - rewrite (perm_swap z a). rewrite (perm_swap z b). constructor. apply IH. lia.
Qed.

Lemma set_nth_swap {A} (h : list A) : forall i j a b, i <> j -> (i < List.length h)%nat -> (j < List.length h)%nat ->
  Permutation (set_nth i a (set_nth j b h)) (set_nth j a (set_nth i b h)).
Proof.
  induction h as [|y h IH]; intros [|i] [|j] a b Hne Hi Hj; cbn [List.length set_nth] in *; try lia.
  - apply set_nth_exch. lia.
  - apply Permutation_sym, set_nth_exch. lia.
  - constructor. apply IH; lia.
Qed.

Lemma set_nth_id {A} n (x : A) l : nth_error l n = Some x -> set_nth n x l = l.
Proof.
  revert n. induction l as [|y l IH]; intros [|n] H; cbn in *; try discriminate; try reflexivity.
  - now injection H as ->.
  - now rewrite IH.
Qed.
Lemma set_nth_len {A} (l : list A) n x : List.length (set_nth n x l) = List.length l.
Proof. revert n. induction l as [|y l IH]; intros [|n]; cbn; try reflexivity. now rewrite IH. Qed.

Lemma div2_lt p : (Nat.div2 p < S p)%nat.
Proof. pose proof (Nat.div2_decr p p). lia. Qed.

Lemma siftdown_perm : forall fuel h x pos, (pos < List.length h)%nat ->
  Permutation (siftdown fuel h x pos) (set_nth pos x h).
Proof.
  induction fuel as [|f IH]; intros h x pos Hp; cbn [siftdown]; [destruct pos; reflexivity|].
  destruct pos as [|p']; [reflexivity|].
  destruct (nth_error h (Nat.div2 p')) as [p|] eqn:E; [|reflexivity].
  destruct (hlt x p); [|reflexivity].
  pose proof (div2_lt p') as Hd.
  rewrite IH by (rewrite set_nth_len; lia).
  rewrite <- (set_nth_id _ _ _ E) at 2.
  apply set_nth_swap; lia.
Qed.

Lemma set_nth_last {A} (l : list A) a x : set_nth (List.length l) x (l ++ [a]) = l ++ [x].
Proof. induction l as [|y l IH]; cbn; [reflexivity | now rewrite IH]. Qed.

Lemma heappush_perm h x : Permutation (heappush h x) (h ++ [x]).
Proof.
  unfold heappush. rewrite siftdown_perm by (rewrite app_length; cbn; lia). now rewrite set_nth_last.
Qed.

(* ---- the sorted copy lists the live entries in priority order, ties in insertion order ---- *)
Fixpoint insert_p (x : hent) (l : list hent) : list hent :=
  match l with
  | [] => [x]
  | y :: r => if h_prio x <=? h_prio y then x :: l else y :: insert_p x r
  end.
Definition psort (l : list hent) : list hent := fold_right insert_p [] l.

Lemma insert_p_perm x l : Permutation (insert_p x l) (x :: l).
Proof.
  induction l as [|y r IH]; cbn [insert_p]; [reflexivity|].
  destruct (h_prio x <=? h_prio y); [reflexivity|]. rewrite IH. apply perm_swap.
Qed.
Lemma psort_perm l : Permutation (psort l) l.
Proof.
  induction l as [|x l IH]; cbn [psort fold_right]; [reflexivity|]. fold (psort l). rewrite insert_p_perm. now constructor.
Qed.

Lemma insert_h_p x l : (forall y, In y l -> h_cnt x < h_cnt y) -> insert_h x l = insert_p x l.
Proof.
  induction l as [|y r IH]; intros H; cbn [insert_h insert_p]; [reflexivity|].
  pose proof (H y (or_introl eq_refl)) as Hy.
  assert (E : hlt y x = negb (h_prio x <=? h_prio y)).
  { unfold hlt. replace (h_cnt y <? h_cnt x) with false by (symmetry; apply N.ltb_ge; lia).
    rewrite andb_false_r, orb_false_r. rewrite N.leb_antisym. now rewrite negb_involutive. }
  rewrite E. destruct (h_prio x <=? h_prio y); cbn [negb]; [reflexivity|].
  f_equal. apply IH. intros z Hz. apply H. right. exact Hz.
Qed.

Lemma in_hents e i l : In e (hents i l) -> exists n x, nth_error l n = Some x /\ e = hent_at (i + n) x.
Proof.
  revert i. induction l as [|y l IH]; intros i; cbn [hents]; [intros []|].
  intros [<-|Hin].
  - exists 0%nat, y. split; [reflexivity | now rewrite Nat.add_0_r].
  - destruct (IH _ Hin) as (n & x & E & ->). exists (S n), x. split; [exact E | f_equal; lia].
Qed.

Lemma sort_hents_psort : forall l i, sort_hents (hents i l) = psort (hents i l).
Proof.
  induction l as [|x l IH]; intros i; cbn [hents sort_hents psort fold_right]; [reflexivity|].
  fold (sort_hents (hents (S i) l)). fold (psort (hents (S i) l)). rewrite IH.
  apply insert_h_p. intros y Hy. apply (Permutation_in _ (psort_perm _)) in Hy.
  apply in_hents in Hy as (n & z & _ & ->). cbn [hent_at h_cnt]. lia.
Qed.

Definition wle (a b : hent) : Prop := h_prio a <= h_prio b.
Definition is_live (e : hent) : bool := match h_att e with Some _ => true | None => false end.
Definition livef (l : list hent) : list hent := filter is_live l.
Definition live_js (l : list hent) : list nat :=
  flat_map (fun e => match h_att e with Some j => [j] | None => [] end) l.

Lemma insert_p_front x l : (forall z, In z l -> wle x z) -> insert_p x l = x :: l.
Proof.
  destruct l as [|y r]; intros H; cbn [insert_p]; [reflexivity|].
  replace (h_prio x <=? h_prio y) with true; [reflexivity|]. symmetry. apply N.leb_le. apply H. left. reflexivity.
Qed.

Lemma insert_p_wsorted x l : StronglySorted wle l -> StronglySorted wle (insert_p x l).
Proof.
  induction l as [|y r IH]; intros S; cbn [insert_p]; [repeat constructor|].
  inversion S as [|? ? Sr Fy]; subst. rewrite Forall_forall in Fy.
  destruct (h_prio x <=? h_prio y) eqn:E.
  - apply N.leb_le in E. constructor; [exact S|]. constructor; [exact E|].
    rewrite Forall_forall. intros z Hz. specialize (Fy z Hz). unfold wle in *. lia.
  - apply N.leb_gt in E. constructor; [apply IH; exact Sr|].
    rewrite Forall_forall. intros z Hz. apply (Permutation_in _ (insert_p_perm x r)) in Hz as [<-|Hz]; [unfold wle; lia | now apply Fy].
Qed.

Lemma psort_wsorted l : StronglySorted wle (psort l).
Proof. induction l as [|x l IH]; cbn [psort fold_right]; [constructor|]. apply insert_p_wsorted. exact IH. Qed.

Lemma livef_insert_p x l : StronglySorted wle l ->
  livef (insert_p x l) = if is_live x then insert_p x (livef l) else livef l.
Proof.
  induction l as [|y r IH]; intros S; cbn [insert_p livef filter]; [destruct (is_live x); reflexivity|].
  inversion S as [|? ? Sr Fy]; subst. rewrite Forall_forall in Fy.
  destruct (h_prio x <=? h_prio y) eqn:E.
  - cbn [filter]. destruct (is_live x); [|reflexivity]. destruct (is_live y).
    + cbn [insert_p]. now rewrite E.
    + f_equal. symmetry. fold (livef r). rewrite insert_p_front; [reflexivity|].
      intros z Hz. unfold livef in Hz. apply filter_In in Hz as [Hz _]. apply N.leb_le in E. specialize (Fy z Hz). unfold wle in *. lia.
  - cbn [filter]. fold (livef (insert_p x r)). fold (livef r). rewrite (IH Sr).
    destruct (is_live y); destruct (is_live x); cbn [insert_p]; rewrite ?E; reflexivity.
Qed.

Lemma livef_psort l : livef (psort l) = psort (livef l).
Proof.
  induction l as [|x l IH]; [reflexivity|].
  change (psort (x :: l)) with (insert_p x (psort l)).
  rewrite (livef_insert_p x (psort l) (psort_wsorted l)), IH.
  change (livef (x :: l)) with (if is_live x then x :: livef l else livef l).
  destruct (is_live x); reflexivity.
Qed.

Lemma live_js_cons e l : live_js (e :: l) = match h_att e with Some j => [j] | None => [] end ++ live_js l.
Proof. reflexivity. Qed.

Lemma live_js_livef l : live_js (livef l) = live_js l.
Proof.
  induction l as [|x l IH]; [reflexivity|].
  change (livef (x :: l)) with (if is_live x then x :: livef l else livef l).
  rewrite (live_js_cons x l). unfold is_live. destruct (h_att x) eqn:E.
  - rewrite live_js_cons, E, IH. reflexivity.
  - exact IH.
Qed.

Definition rel (e : hent) (x : sub) : Prop := h_prio e = sb_prio x /\ h_att e = Some (sb_j x).

Lemma rel_insert e x l l' : rel e x -> Forall2 rel l l' -> Forall2 rel (insert_p e l) (insert_sub x l').
Proof.
  intros Hr F. induction F as [|y y' r r' Hy Fr IH]; cbn [insert_p insert_sub].
  - constructor; [exact Hr | constructor].
  - destruct Hr as [Rp Ra]. destruct Hy as [Yp Ya]. rewrite Rp, Yp.
    destruct (sb_prio x <=? sb_prio y').
    + constructor; [split; assumption|]. constructor; [split; assumption | exact Fr].
    + constructor; [split; assumption | apply IH].
Qed.

Lemma rel_psort l l' : Forall2 rel l l' -> Forall2 rel (psort l) (fold_right insert_sub [] l').
Proof.
  induction 1 as [|e x l l' Hr _ IH]; cbn [psort fold_right]; [constructor|]. apply rel_insert; assumption.
Qed.

Lemma rel_livef : forall l i, Forall2 rel (livef (hents i l)) (filter sb_live l).
Proof.
  induction l as [|x l IH]; intros i; [constructor|].
  change (livef (hents i (x :: l))) with (if is_live (hent_at i x) then hent_at i x :: livef (hents (S i) l) else livef (hents (S i) l)).
  cbn [filter]. unfold is_live, hent_at, rel. cbn [h_att h_prio]. destruct (sb_live x); [|apply IH].
  constructor; [split; reflexivity | apply IH].
Qed.

Lemma rel_js l l' : Forall2 rel l l' -> live_js l = map sb_j l'.
Proof.
  induction 1 as [|e x l l' [_ Ra] _ IH]; [reflexivity|].
  rewrite live_js_cons, Ra, IH. reflexivity.
Qed.

Theorem sorted_copy_is_priority_order l i : live_js (sort_hents (hents i l)) = prio_order l.
Proof.
  rewrite sort_hents_psort, <- live_js_livef, livef_psort. unfold prio_order.
  apply rel_js, rel_psort, rel_livef.
Qed.

Lemma hents_cnt_nodup : forall l i, NoDup (map h_cnt (hents i l)).
Proof.
  induction l as [|x l IH]; intros i; cbn [hents map]; [constructor|].
  constructor; [|apply IH]. intros Hin. apply in_map_iff in Hin as (e & E & Hin).
  apply in_hents in Hin as (n & z & _ & ->). cbn [hent_at h_cnt] in E. lia.
Qed.
