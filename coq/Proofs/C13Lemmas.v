(* helper lemmas for C13: str.split / strip / unquote / dict facts *)
From Coq Require Import List Bool Ascii Arith NArith ZArith Lia.
From TxVerif Require Import Lib.Bytes Spec.Ctl Spec.C13 Model.CtlProto Model.Keywords Proofs.CtlText.
Import ListNotations.
Open Scope N_scope.

(* ---- split('\n') of joined lines ---- *)
Lemma split_lf_go_nolf cur l t : no_lf l = true ->
  split_lf_go cur (l ++ t) = match t with
                             | [] => [rev cur ++ l]
                             | _ => split_lf_go (rev l ++ cur) t
                             end.
Proof.
  revert cur. induction l as [|c l IH]; intros cur H; cbn [app].
  - destruct t; cbn [split_lf_go rev app]; now rewrite ?app_nil_r.
  - cbn [no_lf forallb] in H. apply andb_true_iff in H as [H1 H2].
    cbn [split_lf_go]. destruct (Ascii.eqb c LF); [discriminate|].
    rewrite IH by exact H2. destruct t.
    + cbn [rev]. now rewrite <- app_assoc.
    + cbn [rev]. now rewrite <- app_assoc.
Qed.

Lemma split_lf_go_join (ls : list bytes) : forall cur, ls <> [] -> forallb no_lf ls = true ->
  split_lf_go cur (join [LF] ls) = match ls with l :: r => (rev cur ++ l) :: r | [] => [] end.
Proof.
  induction ls as [|l r IH]; intros cur Hne H; [congruence|].
  cbn [forallb] in H. apply andb_true_iff in H as [H1 H2].
  destruct r as [|l2 r].
  - cbn [join]. rewrite <- (app_nil_r l) at 1. now rewrite split_lf_go_nolf.
  - rewrite join_cons2. rewrite split_lf_go_nolf by exact H1. cbn [app].
    cbn [split_lf_go]. rewrite Ascii.eqb_refl. rewrite rev_app_distr, rev_involutive.
    f_equal. rewrite IH; [|discriminate|exact H2]. reflexivity.
Qed.

Lemma split_lf_join (ls : list bytes) : ls <> [] -> forallb no_lf ls = true -> split_lf (join [LF] ls) = ls.
Proof.
  intros Hne H. unfold split_lf. rewrite split_lf_go_join by assumption. destruct ls; [congruence|reflexivity].
Qed.

(* ---- split('=', 1) ---- *)
Definition no_eq (k : bytes) : bool := forallb (fun c => negb (Ascii.eqb c EQC)) k.
Lemma split_eq_key pre k v : no_eq k = true -> split_eq pre (k ++ EQC :: v) = Some (rev pre ++ k, v).
Proof.
  revert pre. induction k as [|c k IH]; intros pre H; cbn [app split_eq].
  - rewrite Ascii.eqb_refl. now rewrite app_nil_r.
  - cbn [no_eq forallb] in H. apply andb_true_iff in H as [H1 H2].
    destruct (Ascii.eqb c EQC); [discriminate|]. rewrite IH by exact H2. cbn [rev]. now rewrite <- app_assoc.
Qed.

Lemma split_eq_none pre l : no_eq l = true -> split_eq pre l = None.
Proof.
  revert pre. induction l as [|c l IH]; intros pre H; [reflexivity|].
  cbn [no_eq forallb] in H. apply andb_true_iff in H as [H1 H2]. cbn [split_eq].
  destruct (Ascii.eqb c EQC); [discriminate|]. now apply IH.
Qed.

(* ---- strip ---- *)
Lemma lstrip_keeps c t : In c t -> is_ws c = false -> In c (lstrip t).
Proof.
  induction t as [|a t IH]; [contradiction|]. intros [->|H] W; cbn [lstrip].
  - rewrite W. now left.
  - destruct (is_ws a); [now apply IH|now right].
Qed.
Lemma strip_keeps c t : In c t -> is_ws c = false -> In c (strip t).
Proof.
  intros H W. unfold strip. apply in_rev. rewrite rev_involutive.
  apply lstrip_keeps; [|exact W]. apply -> in_rev. now apply lstrip_keeps.
Qed.
Lemma eq_not_ws : is_ws EQC = false. Proof. vm_compute. reflexivity. Qed.
Lemma strip_with_eq_not_OK l : In EQC l -> beqb (strip l) OKs = false.
Proof.
  intros H. destruct (beqb (strip l) OKs) eqn:E; [|reflexivity].
  apply beqb_eq in E. pose proof (strip_keeps EQC l H eq_not_ws) as Hin. rewrite E in Hin.
  cbn in Hin. exfalso. destruct Hin as [Hx|[Hx|[]]];
    apply (f_equal code) in Hx; vm_compute in Hx; discriminate.
Qed.
Lemma lstrip_nows t : (match t with c :: _ => is_ws c | [] => false end) = false -> lstrip t = t.
Proof. destruct t as [|c t]; [reflexivity|]. cbn [lstrip]. now intros ->. Qed.
Lemma strip_nows k : forallb (fun c => negb (is_ws c)) k = true -> strip k = k.
Proof.
  intros H. unfold strip.
  assert (A : forall t, forallb (fun c => negb (is_ws c)) t = true -> lstrip t = t).
  { intros t Ht. apply lstrip_nows. destruct t as [|c t]; [reflexivity|]. cbn [forallb] in Ht.
    apply andb_true_iff in Ht as [Ht _]. now destruct (is_ws c). }
  rewrite (A k H). rewrite A; [now rewrite rev_involutive|].
  rewrite forallb_forall in *. intros x Hx. apply H. now apply in_rev.
Qed.

(* ---- unquote ---- *)
Lemma unquote_id v : quote_wrapped v = false -> unquote v = v.
Proof.
  unfold quote_wrapped, unquote. destruct v as [|a w]; [reflexivity|].
  destruct (rev (a :: w)) as [|b r]; [reflexivity|]. unfold QUOTE1. now intros ->.
Qed.

(* ---- dict ---- *)
Lemma dict_get_absent (d : dict) k : existsb (beqb k) (map fst d) = false -> dict_get d k = None.
Proof.
  induction d as [|[k' v] d IH]; [reflexivity|]. cbn [map fst existsb dict_get]. intros H.
  apply orb_false_iff in H as [H1 H2]. rewrite H1. now apply IH.
Qed.
Lemma dict_set_absent (d : dict) k v : existsb (beqb k) (map fst d) = false -> dict_set d k v = d ++ [(k, v)].
Proof.
  induction d as [|[k' v'] d IH]; [reflexivity|]. cbn [map fst existsb dict_set app]. intros H.
  apply orb_false_iff in H as [H1 H2]. rewrite H1. now rewrite IH.
Qed.
Lemma store_absent (d : dict) k v : existsb (beqb k) (map fst d) = false -> store d k v = d ++ [(k, PStr v)].
Proof. intros H. unfold store. rewrite dict_get_absent by exact H. now apply dict_set_absent. Qed.
