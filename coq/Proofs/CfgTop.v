(* Top-level compositions: bootstrap + history. *)
From Coq Require Import String.
From Coq Require Import List Bool Ascii Arith NArith ZArith Lia.
From TxVerif Require Import Lib.Bytes Lib.CfgLib Spec.CfgTypes Spec.TorStore Spec.CfgOracle Spec.C10 Spec.C11
  Model.ConfigKinds Gen.ConfigTypes Model.Config
  Proofs.CfgLibProofs Proofs.C10Proofs Proofs.CfgAgree Proofs.CfgSpecLemmas Proofs.CfgSim Proofs.CfgSimSave
  Proofs.CfgSimRun Proofs.CfgBoot Proofs.CfgEvent.
Import ListNotations.
Open Scope N_scope.

Lemma scope_parts i : in_scope i = true ->
  table_ok (i_table i) = true /\ store_ok (i_table i) (i_store i) = true /\
  defaults_ok (options (i_table i)) (i_defaults i) = true /\ forallb (op_ok (options (i_table i))) (i_ops i) = true.
Proof.
  unfold in_scope. intros H. apply andb_true_iff in H as [H H4]. apply andb_true_iff in H as [H _].
  apply andb_true_iff in H as [H H3]. apply andb_true_iff in H as [H1 H2]. auto.
Qed.

Lemma scope_pre i : in_scope i = true -> pre_ok (options (i_table i)) (i_pre i) = true.
Proof.
  unfold in_scope. intros H. apply andb_true_iff in H as [H _]. apply andb_true_iff in H as [_ H]. exact H.
Qed.

Lemma second_world i (f : ost -> bool) : f (eff_ost i) = true -> existsb f (worlds i) = true.
Proof. intros H. unfold worlds. cbn [existsb]. rewrite H. now rewrite orb_true_r. Qed.

(* C11, first clause: the view built when attaching equals Tor's configuration parsed by type *)
Theorem bootstrap_view i :
  in_scope i = true ->
  exists st0 snap, m_bootstrap i = Ok st0 /\ m_snapshot st0 (option_names i) = Some (st0, snap) /\
                   boot_oracle i true snap = true.
Proof.
  intros Hs. destruct (scope_parts _ Hs) as [Ht [Hst [Hd _]]].
  destruct (bootstrap_synced i Ht Hst Hd (scope_pre _ Hs)) as [st0 [E R]].
  destruct (snapshot_sim (options (i_table i)) (i_defaults i) (in_opts_nodup i Ht) st0 (mon0 i) (options (i_table i)) R
                         (fun c k H => H)) as [snap [Hsn Hok]].
  exists st0, snap. split; [assumption|]. split; [exact Hsn|].
  unfold boot_oracle. apply second_world. exact Hok.
Qed.

(* C10, the full statement outside the finding classes, from the input alone *)
Theorem c10_oracle_holds i b snap tr :
  c10_scope i = true -> c10_known i = false -> flights_provable i = true ->
  model_run i = Some (b, snap, tr) ->
  b = true /\ boot_oracle i b snap = true /\ Spec.C10.oracle i tr = true.
Proof.
  intros Hs Hk Hpr H. pose proof Hs as Hs'. unfold c10_scope in Hs'. apply andb_true_iff in Hs' as [Hs' _].
  apply andb_true_iff in Hs' as [Hin _].
  destruct (scope_parts _ Hin) as [Ht [Hst [Hd _]]].
  destruct (bootstrap_synced i Ht Hst Hd (scope_pre _ Hin)) as [st0 [E R]].
  destruct (snapshot_sim (options (i_table i)) (i_defaults i) (in_opts_nodup i Ht) st0 (mon0 i) (options (i_table i)) R
                         (fun c k H0 => H0)) as [snap' [Hsn Hok]].
  unfold model_run in H. rewrite E in H. fold (option_names i) in Hsn. rewrite Hsn in H.
  destruct (m_run (option_names i) st0 (i_ops i)) as [tr'|] eqn:Er; [|discriminate].
  inversion H. subst b snap tr. split; [reflexivity|]. split; [unfold boot_oracle; apply second_world; exact Hok|].
  eapply oracle_from_synced; eassumption.
Qed.

(* ================================================================== C11: histories with CONF_CHANGED events *)
Definition c11_op (o : op) : bool := match o with OpSocks => false | _ => true end.

Section Run11.
  Variable i : cfg_input.
  Let opts := options (i_table i).
  Let defaults := i_defaults i.
  Hypothesis Htab : table_ok (i_table i) = true.
  Hypothesis Hdfl : defaults_ok opts defaults = true.
  Let names := option_names i.

  Lemma sim_step11_base st m o st' ob :
    Rel opts defaults st m -> op_ok opts o = true -> c11_op o = true -> plain o = true ->
    flagged (mon_step opts defaults m o) = false ->
    m_step names st o = Some (st', ob) -> step_ok opts defaults st m o st' ob.
  Proof.
    intros R Hok Hc Hpl Hfl H.
    destruct o; try discriminate Hc; try discriminate Hpl;
      try (eapply (sim_step_base opts defaults (in_opts_nodup i Htab) (in_opts_not_hs i Htab) (in_opts_keys_ok i Htab) names eq_refl); eauto; fail).
    eapply (sim_event i Htab Hdfl names eq_refl); eassumption.
  Qed.

  Lemma sim_step11 st m o st' ob :
    Rel opts defaults st m -> op_ok opts o = true -> c11_op o = true -> op_provable o = true ->
    flagged (mon_step opts defaults m o) = false ->
    m_step names st o = Some (st', ob) -> step_ok opts defaults st m o st' ob.
  Proof.
    intros R Hok Hc Hpr Hfl H. destruct (plain o) eqn:Hpl; [now apply sim_step11_base|].
    destruct o; try discriminate Hpl. cbn [op_provable] in Hpr.
    apply (sim_flight opts defaults (in_opts_nodup i Htab) (in_opts_keys_ok i Htab) names eq_refl c11_op sim_step11_base);
      try assumption.
    apply (flight_allowed opts c11_op reject during Hok).
    apply forallb_forall. intros d _. destruct d; reflexivity.
  Qed.

  Theorem sim_run11 : forall ops st m tr,
    Rel opts defaults st m ->
    forallb (op_ok opts) ops = true -> forallb c11_op ops = true -> forallb op_provable ops = true ->
    flagged (mon_run opts defaults m ops) = false ->
    m_run names st ops = Some tr ->
    spec_run opts defaults (m_st m) ops tr = true.
  Proof.
    induction ops as [|o ops IH]; intros st m tr R Hok Hc Hpr Hfl H; cbn [m_run] in H.
    - inversion H. reflexivity.
    - destruct (m_step names st o) as [[st1 ob]|] eqn:E; [|discriminate].
      destruct (m_run names st1 ops) as [tr'|] eqn:E2; [|discriminate]. inversion H. subst tr.
      cbn [forallb] in Hok, Hc, Hpr. apply andb_true_iff in Hok as [Hok1 Hok2]. apply andb_true_iff in Hc as [Hc1 Hc2].
      apply andb_true_iff in Hpr as [Hpr1 Hpr2].
      unfold mon_run in Hfl. cbn [fold_left] in Hfl. fold (mon_run opts defaults (mon_step opts defaults m o) ops) in Hfl.
      assert (flagged (mon_step opts defaults m o) = false) as Hfl1.
      { destruct (flagged (mon_step opts defaults m o)) eqn:Ef; [|reflexivity].
        rewrite (mon_run_flag_mono _ _ _ _ Ef) in Hfl. discriminate. }
      destruct (sim_step11 _ _ _ _ _ R Hok1 Hc1 Hpr1 Hfl1 E) as [Hchk R1].
      cbn [spec_run]. rewrite Hchk. cbn [andb]. rewrite <- mon_step_st. eapply IH; eassumption.
  Qed.
End Run11.

(* THE theorem for C11: attach, then any history of events, edits, saves and reads *)
Theorem c11_oracle_holds i b snap tr :
  c11_scope i = true -> c11_known i = false -> forallb c11_op (i_ops i) = true -> flights_provable i = true ->
  model_run i = Some (b, snap, tr) ->
  b = true /\ Spec.C11.oracle i b snap tr = true.
Proof.
  intros Hs Hk Hc Hpr H. unfold c11_scope in Hs. apply andb_true_iff in Hs as [Hs Hcp]. apply negb_true_iff in Hcp.
  destruct (scope_parts _ Hs) as [Ht [Hst [Hd Hops]]].
  unfold c11_known in Hk.
  destruct (bootstrap_synced i Ht Hst Hd (scope_pre _ Hs)) as [st0 [E R]].
  destruct (snapshot_sim (options (i_table i)) (i_defaults i) (in_opts_nodup i Ht) st0 (mon0 i) (options (i_table i)) R
                         (fun c k H0 => H0)) as [snap' [Hsn Hok]].
  unfold model_run in H. rewrite E in H. fold (option_names i) in Hsn. rewrite Hsn in H.
  destruct (m_run (option_names i) st0 (i_ops i)) as [tr'|] eqn:Er; [|discriminate].
  inversion H. subst b snap tr. split; [reflexivity|].
  unfold Spec.C11.oracle, full_oracle. apply second_world. apply andb_true_iff. split; [exact Hok|].
  unfold cfg_oracle_from.
  apply (sim_run11 i Ht Hd (i_ops i) st0 (mon0 i) tr' R Hops Hc Hpr); [|exact Er].
  change (flagged (mon_of i) = false). rewrite c10_known_flagged, Hk, Hcp. reflexivity.
Qed.
