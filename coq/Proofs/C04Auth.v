(* C04: what _do_authenticate does, in terms of the Spec's choice of method. *)
From Coq Require Import List Bool Ascii Arith NArith Lia String.
From TxVerif Require Import Lib.Bytes Lib.Hex Spec.C04 Spec.C04Oracle Gen.AuthConsts Model.Auth
  Proofs.C04Unescape.
Import ListNotations.
Open Scope N_scope.

Definition wf (e : env) : Prop := List.length (e_nonce e) = 32%nat.

(* password is the expected method but the model declines: a cookie method is advertised and
   its COOKIEFILE is missing or has the wrong length *)
Definition pw_gives_up (e : env) : bool :=
  cookie_advertised e &&
  match pi_cookiefile (e_pi e) with
  | None => true
  | Some p => match lookup p (e_fs e) with FData _ => true | _ => false end
  end.

Definition pw_action (e : env) : res :=
  let '(p, evs) := match e_provider e with
                   | PValue pw | PCoro pw => do_password (Some pw) false
                   | PLater _ => (PhPw, [])
                   | _ => do_password None false
                   end in
  (p, EPwCall :: evs).

Definition chal_line (e : env) : ev :=
  line (bs "AUTHCHALLENGE SAFECOOKIE " ++ hex_lower (e_nonce e)).

Definition authenticate_spec (e : env) : res :=
  match expected e with
  | Some MSafe => match good_cookie e with
                  | Some c => (PhChal c, [chal_line e])
                  | None => fail 1 0
                  end
  | Some MCookie => match good_cookie e with
                    | Some c => (PhAuth, [auth_line c])
                    | None => fail 1 0
                    end
  | Some MPassword => if pw_gives_up e then fail 1 0 else pw_action e
  | Some MNull => if cookie_advertised e then fail 1 0 else (PhAuth, [line (bs "AUTHENTICATE")])
  | None => fail 1 0
  end.

Lemma firstn_all_len {A} (l : list A) n : List.length l = n -> firstn n l = l.
Proof. intros <-. apply firstn_all. Qed.

Lemma nonce_firstn e : wf e -> firstn (N.to_nat nonce_len) (e_nonce e) = e_nonce e.
Proof. intros H. apply firstn_all_len. rewrite H. reflexivity. Qed.

Lemma adv_has e x : pi_auth (e_pi e) = true -> adv e (s x) = has e x.
Proof. intros H. unfold adv, has. rewrite H. reflexivity. Qed.

Lemma do_authenticate_spec e : wf e -> pi_auth (e_pi e) = true ->
  do_authenticate e = Some (authenticate_spec e).
Proof.
  intros Hwf Hauth.
  unfold do_authenticate, authenticate_spec, chal_line. rewrite (nonce_firstn e Hwf), Hauth. cbn [negb].
  unfold expected, good_cookie, pw_gives_up, cookie_advertised, has_provider, read_cookie, any_of, pw_action.
  change K_SAFECOOKIE with (s "SAFECOOKIE"). change K_COOKIE with (s "COOKIE").
  change K_HASHEDPASSWORD with (s "HASHEDPASSWORD"). change K_NULL with (s "NULL").
  rewrite !(adv_has e _ Hauth).
  cbn [auth_order existsb fst snd is_cookie_kind is_pw_kind select andb orb].
  unfold provider_set.
  generalize (has e "SAFECOOKIE") (has e "COOKIE") (has e "HASHEDPASSWORD") (has e "NULL").
  intros hS hC hH hN.
  destruct (pi_cookiefile (e_pi e)) as [p|].
  - rewrite (unescape_roundtrip p).
    destruct (lookup p (e_fs e)) as [| |d]; [| |change cookie_len with 32; destruct (nlen d =? 32)];
      destruct hS, hC, hH, hN; destruct (e_provider e) as [| |pw|pw|pw|]; try reflexivity; destruct pw; reflexivity.
  - destruct hS, hC, hH, hN; destruct (e_provider e) as [| |pw|pw|pw|]; try reflexivity; destruct pw; reflexivity.
Qed.
