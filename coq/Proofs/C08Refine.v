(* C08: the notifications of Model/StateNotify.v are exactly what Spec/C08.v demands, on every legal history *)
From Coq Require Import List Bool Arith NArith Lia.
From TxVerif Require Import Lib.Bytes Lib.NList Spec.C07 Spec.C08 Model.State Model.StateNotify
  Proofs.NListProofs Proofs.C07Proofs Proofs.StateShape Proofs.C08Proofs.
Import ListNotations.
Open Scope N_scope.

(* ---------------------------------------------------------------- listener lists *)
Lemma add_once_NoDup l ls : NoDup ls -> NoDup (add_once l ls).
Proof.
  intros H. unfold add_once. destruct (memN l ls) eqn:M; [exact H|].
  apply NoDup_app_end; [exact H | now apply memN_false].
Qed.
Lemma dedupe_NoDup ls : NoDup (dedupe ls).
Proof.
  unfold dedupe. assert (G : forall acc, NoDup acc -> NoDup (fold_left (fun acc l => add_once l acc) ls acc)).
  { induction ls as [|x t IH]; intros acc H; cbn [fold_left]; [exact H|]. apply IH. now apply add_once_NoDup. }
  apply G. constructor.
Qed.

(* ---------------------------------------------------------------- what one listener hears *)
Definition call := (N * N * N * kws)%type.
Definition tells_c (ls : list N) (script : list call) : list nev :=
  concat (map (fun c => let '(m, o, a, fl) := c in tell_c ls m o a fl) script).
Definition tells_s (ls : list N) (script : list call) : list nev :=
  concat (map (fun c => let '(m, o, a, fl) := c in tell_s ls m o a fl) script).

Lemma calls_c_app l a b : calls_of_circ l (a ++ b) = calls_of_circ l a ++ calls_of_circ l b.
Proof. unfold calls_of_circ. now rewrite map_app, concat_app. Qed.
Lemma calls_s_app l a b : calls_of_stream l (a ++ b) = calls_of_stream l a ++ calls_of_stream l b.
Proof. unfold calls_of_stream. now rewrite map_app, concat_app. Qed.
Lemma called_c_app a b : circ_listeners_called (a ++ b) = circ_listeners_called a ++ circ_listeners_called b.
Proof. unfold circ_listeners_called. now rewrite map_app, concat_app. Qed.
Lemma called_s_app a b : stream_listeners_called (a ++ b) = stream_listeners_called a ++ stream_listeners_called b.
Proof. unfold stream_listeners_called. now rewrite map_app, concat_app. Qed.

Lemma calls_c_tell l ls m o a fl : NoDup ls ->
  calls_of_circ l (tell_c ls m o a fl) = if memN l ls then [(m, o, carg l m a, fl)] else [].
Proof.
  unfold calls_of_circ, tell_c. induction 1 as [|x t Hn Hd IH]; cbn [map concat memN]; [reflexivity|].
  rewrite IH. rewrite (N.eqb_sym l x). destruct (N.eqb_spec x l) as [->|E]; cbn [orb app].
  - apply memN_false in Hn. now rewrite Hn.
  - reflexivity.
Qed.
Lemma calls_s_tell l ls m o a fl : NoDup ls ->
  calls_of_stream l (tell_s ls m o a fl) = if memN l ls then [(m, o, carg l m a, fl)] else [].
Proof.
  unfold calls_of_stream, tell_s. induction 1 as [|x t Hn Hd IH]; cbn [map concat memN]; [reflexivity|].
  rewrite IH. rewrite (N.eqb_sym l x). destruct (N.eqb_spec x l) as [->|E]; cbn [orb app].
  - apply memN_false in Hn. now rewrite Hn.
  - reflexivity.
Qed.

Lemma calls_c_tells l ls script : NoDup ls -> calls_of_circ l (tells_c ls script) = if memN l ls then map (qcall l) script else [].
Proof.
  intros H. unfold tells_c. induction script as [|[[[m o] a] fl] t IH]; cbn [map concat].
  - now destruct (memN l ls).
  - rewrite calls_c_app, IH, (calls_c_tell l ls m o a fl H). now destruct (memN l ls).
Qed.
Lemma calls_s_tells l ls script : NoDup ls -> calls_of_stream l (tells_s ls script) = if memN l ls then map (qcall l) script else [].
Proof.
  intros H. unfold tells_s. induction script as [|[[[m o] a] fl] t IH]; cbn [map concat].
  - now destruct (memN l ls).
  - rewrite calls_s_app, IH, (calls_s_tell l ls m o a fl H). now destruct (memN l ls).
Qed.

Lemma called_c_tell ls m o a fl : circ_listeners_called (tell_c ls m o a fl) = ls.
Proof. unfold circ_listeners_called, tell_c. induction ls as [|x t IH]; cbn in *; [reflexivity | now rewrite IH]. Qed.
Lemma called_s_tell ls m o a fl : stream_listeners_called (tell_s ls m o a fl) = ls.
Proof. unfold stream_listeners_called, tell_s. induction ls as [|x t IH]; cbn in *; [reflexivity | now rewrite IH]. Qed.
Lemma called_s_of_tell_c ls m o a fl : stream_listeners_called (tell_c ls m o a fl) = [].
Proof. unfold stream_listeners_called, tell_c. induction ls as [|x t IH]; cbn in *; [reflexivity | exact IH]. Qed.
Lemma called_c_of_tell_s ls m o a fl : circ_listeners_called (tell_s ls m o a fl) = [].
Proof. unfold circ_listeners_called, tell_s. induction ls as [|x t IH]; cbn in *; [reflexivity | exact IH]. Qed.

Lemma called_c_tells_in ls script l : In l (circ_listeners_called (tells_c ls script)) -> In l ls.
Proof.
  unfold tells_c. induction script as [|[[[m o] a] fl] t IH]; cbn [map concat]; [intros []|].
  rewrite called_c_app, called_c_tell. intros H. apply in_app_or in H as [H|H]; auto.
Qed.
Lemma called_s_tells_in ls script l : In l (stream_listeners_called (tells_s ls script)) -> In l ls.
Proof.
  unfold tells_s. induction script as [|[[[m o] a] fl] t IH]; cbn [map concat]; [intros []|].
  rewrite called_s_app, called_s_tell. intros H. apply in_app_or in H as [H|H]; auto.
Qed.
Lemma called_s_of_tells_c ls script : stream_listeners_called (tells_c ls script) = [].
Proof.
  unfold tells_c. induction script as [|[[[m o] a] fl] t IH]; cbn [map concat]; [reflexivity|].
  now rewrite called_s_app, called_s_of_tell_c, IH.
Qed.
Lemma called_c_of_tells_s ls script : circ_listeners_called (tells_s ls script) = [].
Proof.
  unfold tells_s. induction script as [|[[[m o] a] fl] t IH]; cbn [map concat]; [reflexivity|].
  now rewrite called_c_app, called_c_of_tell_s, IH.
Qed.

(* completions of waits are no listener calls *)
Definition only_dones (es : list nev) : Prop := forall e, In e es -> exists w r, e = NDone w r.
Lemma only_dones_quiet es : only_dones es ->
  (forall l, calls_of_circ l es = []) /\ (forall l, calls_of_stream l es = []) /\
  circ_listeners_called es = [] /\ stream_listeners_called es = [].
Proof.
  induction es as [|e t IH]; intros H; [repeat split|].
  destruct (H e (or_introl eq_refl)) as [w [r ->]].
  destruct IH as [A [B [C D]]]; [intros e' He'; apply H; now right|].
  split; [intros l; exact (A l)|]. split; [intros l; exact (B l)|]. split; [exact C | exact D].
Qed.
Lemma only_dones_app a b : only_dones a -> only_dones b -> only_dones (a ++ b).
Proof. intros A B e H. apply in_app_or in H as [H|H]; auto. Qed.
Lemma only_dones_map r ws : only_dones (map (fun w => NDone w r) ws).
Proof. intros e H. apply in_map_iff in H as [w [<- _]]. eauto. Qed.
Lemma only_dones_fire t o r t' out : fire t o r = (t', out) -> only_dones out.
Proof.
  unfold fire. destruct (tget (OSPending []) t o); intros [= <- <-]; [apply only_dones_map | intros e []].
Qed.
Lemma only_dones_run_items v items : only_dones (run_items v items).
Proof.
  revert v. induction items as [|i t IH]; intros v e H; [destruct H|].
  destruct i; cbn [run_items] in H; try (destruct H as [<-|H]; [eauto|]); eapply IH; eauto.
Qed.
Lemma only_dones_nil : only_dones [].
Proof. intros e []. Qed.

(* an output that consists of scripts told to the listeners [ls], interleaved with wait completions *)
Inductive told_c (ls : list N) : list nev -> list call -> Prop :=
| tc_nil : told_c ls [] []
| tc_tell script rest sc : told_c ls rest sc -> told_c ls (tells_c ls script ++ rest) (script ++ sc)
| tc_done a rest sc : only_dones a -> told_c ls rest sc -> told_c ls (a ++ rest) sc.
Inductive told_s (ls : list N) : list nev -> list call -> Prop :=
| ts_nil : told_s ls [] []
| ts_tell script rest sc : told_s ls rest sc -> told_s ls (tells_s ls script ++ rest) (script ++ sc)
| ts_done a rest sc : only_dones a -> told_s ls rest sc -> told_s ls (a ++ rest) sc.

Lemma told_c_facts ls es sc : NoDup ls -> told_c ls es sc ->
  (forall l, calls_of_circ l es = if memN l ls then map (qcall l) sc else []) /\
  (forall l, In l (circ_listeners_called es) -> In l ls) /\ stream_listeners_called es = [].
Proof.
  intros Hnd. induction 1 as [|script rest sc T [A [B C]]|a rest sc Ha T [A [B C]]].
  - split; [intros l; now destruct (memN l ls) | split; [intros l [] | reflexivity]].
  - split; [|split].
    + intros l. rewrite calls_c_app, A, (calls_c_tells l ls script Hnd). destruct (memN l ls); [now rewrite map_app | reflexivity].
    + intros l. rewrite called_c_app. intros H. apply in_app_or in H as [H|H]; [eapply called_c_tells_in; eauto | auto].
    + now rewrite called_s_app, called_s_of_tells_c, C.
  - destruct (only_dones_quiet a Ha) as [Q1 [Q2 [Q3 Q4]]]. split; [|split].
    + intros l. now rewrite calls_c_app, Q1, A.
    + intros l. rewrite called_c_app, Q3. exact (B l).
    + now rewrite called_s_app, Q4, C.
Qed.
Lemma told_s_facts ls es sc : NoDup ls -> told_s ls es sc ->
  (forall l, calls_of_stream l es = if memN l ls then map (qcall l) sc else []) /\
  (forall l, In l (stream_listeners_called es) -> In l ls) /\ circ_listeners_called es = [].
Proof.
  intros Hnd. induction 1 as [|script rest sc T [A [B C]]|a rest sc Ha T [A [B C]]].
  - split; [intros l; now destruct (memN l ls) | split; [intros l [] | reflexivity]].
  - split; [|split].
    + intros l. rewrite calls_s_app, A, (calls_s_tells l ls script Hnd). destruct (memN l ls); [now rewrite map_app | reflexivity].
    + intros l. rewrite called_s_app. intros H. apply in_app_or in H as [H|H]; [eapply called_s_tells_in; eauto | auto].
    + now rewrite called_c_app, called_c_of_tells_s, C.
  - destruct (only_dones_quiet a Ha) as [Q1 [Q2 [Q3 Q4]]]. split; [|split].
    + intros l. now rewrite calls_s_app, Q2, A.
    + intros l. rewrite called_s_app, Q4. exact (B l).
    + now rewrite called_c_app, Q3, C.
Qed.

Definition flags_ok (sc : list call) : Prop := forall m o a fl, In (m, o, a, fl) sc -> kws_same fl fl = true.

Lemma calls_eqb_refl sc : flags_ok sc -> list_eqb call_eqb sc sc = true.
Proof.
  induction sc as [|[[[m o] a] fl] t IH]; intros H; cbn [list_eqb]; [reflexivity|].
  rewrite IH by (intros m' o' a' fl' Hi; eapply H; right; eauto).
  unfold call_eqb. rewrite !N.eqb_refl, (H m o a fl (or_introl eq_refl)). reflexivity.
Qed.

Lemma flags_ok_qcall l sc : flags_ok sc -> flags_ok (map (qcall l) sc).
Proof.
  intros H m o a fl Hi. apply in_map_iff in Hi as [[[[m0 o0] a0] f0] [E Hi]]. cbn [qcall] in E. injection E as <- <- <- <-.
  exact (H m0 o0 a0 f0 Hi).
Qed.

Lemma notif_ok_circ ls es sc : NoDup ls -> told_c ls es sc -> flags_ok sc -> notif_ok true ls sc es = true.
Proof.
  intros Hnd T F. destruct (told_c_facts ls es sc Hnd T) as [A [B C]]. unfold notif_ok. rewrite C.
  apply andb_true_iff. split; [apply andb_true_iff; split; [reflexivity|]|].
  - apply forallb_forall. intros l Hl. apply memN_In. now apply B.
  - apply forallb_forall. intros l Hl. rewrite A. apply memN_In in Hl. rewrite Hl. apply calls_eqb_refl. now apply flags_ok_qcall.
Qed.
Lemma notif_ok_stream ls es sc : NoDup ls -> told_s ls es sc -> flags_ok sc -> notif_ok false ls sc es = true.
Proof.
  intros Hnd T F. destruct (told_s_facts ls es sc Hnd T) as [A [B C]]. unfold notif_ok. rewrite C.
  apply andb_true_iff. split; [apply andb_true_iff; split; [reflexivity|]|].
  - apply forallb_forall. intros l Hl. apply memN_In. now apply B.
  - apply forallb_forall. intros l Hl. rewrite A. apply memN_In in Hl. rewrite Hl. apply calls_eqb_refl. now apply flags_ok_qcall.
Qed.

(* Tor's flags in both cases are a proper dict when the keywords are distinct and below 100 *)
Lemma both_cases_keys kw : map fst (both_cases kw) = concat (map (fun p => [fst p; 100 + fst p]) kw).
Proof.
  unfold both_cases. induction kw as [|p t IH]; [reflexivity|].
  cbn [map concat]. rewrite map_app, IH. reflexivity.
Qed.

Lemma both_cases_nodup kw : NoDup (map fst kw) -> (forall p, In p kw -> fst p < 100) -> NoDup (map fst (both_cases kw)).
Proof.
  rewrite both_cases_keys. induction kw as [|p t IH]; intros Hnd Hb; cbn [map concat app]; [constructor|].
  cbn [map] in Hnd. inversion Hnd as [|? ? Hn Hd]; subst.
  assert (Hin : forall k, In k (concat (map (fun p => [fst p; 100 + fst p]) t)) ->
                          exists q, In q t /\ (k = fst q \/ k = 100 + fst q)).
  { intros k Hk. apply in_concat in Hk as [l [Hl Hk]]. apply in_map_iff in Hl as [q [<- Hq]].
    exists q. split; [exact Hq|]. destruct Hk as [<-|[<-|[]]]; auto. }
  pose proof (Hb p (or_introl eq_refl)) as Bp.
  constructor; [|constructor].
  - intros [E|H]; [lia|]. destruct (Hin _ H) as [q [Hq [E|E]]].
    + apply Hn. rewrite E. now apply in_map.
    + pose proof (Hb q (or_intror Hq)). lia.
  - intros H. destruct (Hin _ H) as [q [Hq [E|E]]].
    + pose proof (Hb q (or_intror Hq)). lia.
    + apply Hn. assert (fst p = fst q) by lia. rewrite H0. now apply in_map.
  - apply IH; [exact Hd|]. intros q Hq. apply Hb. now right.
Qed.

Lemma kws_same_refl fl : NoDup (map fst fl) -> kws_same fl fl = true.
Proof.
  intros H. unfold kws_same. rewrite Nat.eqb_refl. apply nodupN_NoDup in H. rewrite H. cbn [andb].
  apply forallb_forall. intros p Hp. apply existsb_exists. exists p. split; [exact Hp|].
  unfold pair_eqb. now rewrite !N.eqb_refl.
Qed.

Lemma kw_ok_both kw : kw_ok kw = true -> kws_same (both_cases kw) (both_cases kw) = true.
Proof.
  unfold kw_ok. rewrite !andb_true_iff. intros [[[H1 H2] _] _]. apply kws_same_refl. apply both_cases_nodup.
  - now apply nodupN_NoDup.
  - intros p Hp. rewrite forallb_forall in H2. specialize (H2 p Hp). now apply N.ltb_lt.
Qed.

(* ---------------------------------------------------------------- the part of the refinement that listeners need *)
Record Rel (ls : lstate) (xs : xstate) : Prop := {
  r_wf : WF (base xs); r_cp : Complete (base xs); r_tv : abs (base xs) = l_tv ls;
  r_cdict : circuits (base xs) = l_cdict ls; r_sdict : streams (base xs) = l_sdict ls;
  r_nc : N.of_nat (length (cheap (base xs))) = l_nc ls; r_ns : N.of_nat (length (sheap (base xs))) = l_ns ls;
  r_cregs : cls xs = l_cregs ls; r_sregs : sls xs = l_sregs ls;
  r_gcl : gcl xs = l_gcl ls; r_gsl : gsl xs = l_gsl ls;
  r_cnd : forall o, NoDup (tget [] (cls xs) o); r_snd : forall o, NoDup (tget [] (sls xs) o);
  r_cex : forall o, o < l_nc ls -> get_c o (base xs) <> None;
  r_sex : forall o, o < l_ns ls -> get_s o (base xs) <> None
}.

Lemma tget_tset {V} (d : V) t k v k' : tget d (tset t k v) k' = if k =? k' then v else tget d t k'.
Proof. unfold tget, tset. rewrite kfind_kset. cbn [fst snd]. destruct (k =? k'); reflexivity. Qed.

Lemma Rel_init rts : Rel ls0 (xinit rts).
Proof.
  constructor.
  - apply WF_init.
  - apply Complete_init.
  - reflexivity.
  - reflexivity.
  - reflexivity.
  - reflexivity.
  - reflexivity.
  - reflexivity.
  - reflexivity.
  - reflexivity.
  - reflexivity.
  - intros o. constructor.
  - intros o. constructor.
  - intros o H. cbn in H. lia.
  - intros o H. cbn in H. lia.
Qed.

Lemma add_to_all_NoDup l d t : (forall o, NoDup (tget [] t o)) -> forall o, NoDup (tget [] (add_to_all l d t) o).
Proof.
  unfold add_to_all. revert t. induction d as [|p d IH]; intros t H o; cbn [fold_left]; [apply H|].
  apply IH. intros o'. rewrite tget_tset. destruct (snd p =? o'); [apply add_once_NoDup|]; apply H.
Qed.

(* operations that do not touch what Rel speaks about *)
Lemma Rel_frame ls ls' xs xs' : Rel ls xs ->
  base xs' = base xs -> cls xs' = cls xs -> sls xs' = sls xs -> gcl xs' = gcl xs -> gsl xs' = gsl xs ->
  l_tv ls' = l_tv ls -> l_cdict ls' = l_cdict ls -> l_sdict ls' = l_sdict ls -> l_nc ls' = l_nc ls -> l_ns ls' = l_ns ls ->
  l_cregs ls' = l_cregs ls -> l_sregs ls' = l_sregs ls -> l_gcl ls' = l_gcl ls -> l_gsl ls' = l_gsl ls -> Rel ls' xs'.
Proof.
  intros R B C S G1 G2 E1 E2 E3 E4 E5 E6 E7 E8 E9. destruct R.
  constructor; rewrite ?B, ?C, ?S, ?G1, ?G2, ?E1, ?E2, ?E3, ?E4, ?E5, ?E6, ?E7, ?E8, ?E9; auto.
Qed.

(* ---------------------------------------------------------------- what the model tells on a CIRC event *)
Definition xc_first (s : xstate) (id : N) : bool :=
  match kfind fst id (circuits (base s)) with Some _ => false | None => true end.
Definition xc_obj (s : xstate) (id : N) : N :=
  match kfind fst id (circuits (base s)) with Some p => snd p | None => N.of_nat (length (cheap (base s))) end.
Definition xc_oldpath (s : xstate) (id : N) : list (N * N) :=
  match kfind fst id (circuits (base s)) with
  | Some p => match get_c (snd p) (base s) with Some c => c_path c | None => [] end
  | None => []
  end.
Definition xc_ls (s : xstate) (id : N) : list N :=
  if xc_first s id then dedupe (gcl s) else tget [] (cls s) (xc_obj s id).

Lemma tell_c_tells ls m o a fl : tell_c ls m o a fl = tells_c ls [(m, o, a, fl)].
Proof. unfold tells_c. cbn [map concat]. now rewrite app_nil_r. Qed.
Lemma tell_s_tells ls m o a fl : tell_s ls m o a fl = tells_s ls [(m, o, a, fl)].
Proof. unfold tells_s. cbn [map concat]. now rewrite app_nil_r. Qed.

Lemma extends_tells ls o (l : list hop) :
  concat (map (fun h => tell_c ls M_EXTEND o (h_rid h) []) l) = tells_c ls (map (fun h => (M_EXTEND, o, h_rid h, [])) l).
Proof. unfold tells_c. rewrite map_map. reflexivity. Qed.

Lemma told_c_tells ls sc : told_c ls (tells_c ls sc) sc.
Proof.
  pose proof (tc_tell ls sc [] [] (tc_nil ls)) as H. now rewrite !app_nil_r in H.
Qed.
Lemma told_c_app ls a sa b sb : told_c ls a sa -> told_c ls b sb -> told_c ls (a ++ b) (sa ++ sb).
Proof.
  induction 1 as [|script rest sc T IH|x rest sc Hx T IH]; intros Hb; cbn [app].
  - exact Hb.
  - rewrite <- !app_assoc. apply tc_tell. now apply IH.
  - rewrite <- app_assoc. apply tc_done; [exact Hx | now apply IH].
Qed.
Lemma told_c_dones ls a : only_dones a -> told_c ls a [].
Proof. intros H. pose proof (tc_done ls a [] [] H (tc_nil ls)) as T. now rewrite app_nil_r in T. Qed.
Lemma told_s_tells ls sc : told_s ls (tells_s ls sc) sc.
Proof.
  pose proof (ts_tell ls sc [] [] (ts_nil ls)) as H. now rewrite !app_nil_r in H.
Qed.
Lemma told_s_app ls a sa b sb : told_s ls a sa -> told_s ls b sb -> told_s ls (a ++ b) (sa ++ sb).
Proof.
  induction 1 as [|script rest sc T IH|x rest sc Hx T IH]; intros Hb; cbn [app].
  - exact Hb.
  - rewrite <- !app_assoc. apply ts_tell. now apply IH.
  - rewrite <- app_assoc. apply ts_done; [exact Hx | now apply IH].
Qed.
Lemma told_s_dones ls a : only_dones a -> told_s ls a [].
Proof. intros H. pose proof (ts_done ls a [] [] H (ts_nil ls)) as T. now rewrite app_nil_r in T. Qed.

Lemma x_circ_told s id st path kw s' es :
  x_circ s id st path kw = Some (s', es) ->
  step (base s) (ECirc id st path kw) = Some (base s') /\
  told_c (xc_ls s id) es (expected_circ (xc_first s id) (length (xc_oldpath s id)) (xc_obj s id) st path kw) /\
  cls s' = (if xc_first s id then tset (cls s) (xc_obj s id) (xc_ls s id) else cls s) /\
  sls s' = sls s /\ gcl s' = gcl s /\ gsl s' = gsl s.
Proof.
  unfold x_circ, xc_ls, xc_first, xc_obj, xc_oldpath.
  destruct (step (base s) (ECirc id st path kw)) as [post|]; [|discriminate].
  set (first := match kfind fst id (circuits (base s)) with Some _ => false | None => true end).
  set (o := match kfind fst id (circuits (base s)) with Some p => snd p | None => N.of_nat (length (cheap (base s))) end).
  set (oldpath := match kfind fst id (circuits (base s)) with
                  | Some p => match get_c (snd p) (base s) with Some c => c_path c | None => [] end
                  | None => [] end).
  assert (E : match kfind fst id (circuits (base s)) with
              | Some p => (false, snd p, match get_c (snd p) (base s) with Some c => c_path c | None => [] end)
              | None => (true, N.of_nat (length (cheap (base s))), [])
              end = (first, o, oldpath)).
  { unfold first, o, oldpath. destruct (kfind fst id (circuits (base s))); reflexivity. }
  rewrite E. clear E.
  set (ls := if first then dedupe (gcl s) else tget [] (cls s) o).
  assert (Tn : told_c ls (if first then tell_c ls M_NEW o 0 [] else []) (if first then [(M_NEW, o, 0, [])] else [])).
  { destruct first; [rewrite tell_c_tells; apply told_c_tells | apply tc_nil]. }
  assert (Tp : forall (b : bool), told_c ls (match path, kw with
                                   | [], [] => []
                                   | _, _ => concat (map (fun h => tell_c ls M_EXTEND o (h_rid h) []) (skipn (length oldpath) path))
                                   end) (map (fun h => (M_EXTEND, o, h_rid h, [])) (skipn (length oldpath) path))).
  { intros _. destruct path as [|h t].
    - rewrite skipn_nil. destruct kw; apply tc_nil.
    - rewrite extends_tells. apply told_c_tells. }
  unfold expected_circ.
  destruct st; cbv iota beta.
  - intros [= <- <-]. cbn [base cls sls gcl gsl]. repeat split.
    apply told_c_app; [exact Tn|]. rewrite tell_c_tells. apply told_c_tells.
  - destruct (fire (wbs s) o (WOkC o)) as [wbs1 fired] eqn:F. intros [= <- <-]. cbn [base cls sls gcl gsl]. repeat split.
    apply told_c_app; [exact Tn|]. apply told_c_app; [apply (Tp true)|].
    rewrite <- (app_nil_r [(M_BUILT, o, 0, [])]). apply told_c_app; [rewrite tell_c_tells; apply told_c_tells|].
    apply told_c_dones. eapply only_dones_fire; eauto.
  - intros [= <- <-]. cbn [base cls sls gcl gsl]. repeat split.
    rewrite app_nil_r. apply told_c_app; [exact Tn | apply (Tp true)].
  - intros [= <- <-]. cbn [base cls sls gcl gsl]. repeat split.
    rewrite app_nil_r. apply told_c_app; [exact Tn | apply (Tp true)].
  - destruct (fire (wcs s) o (WOkC o)) as [wcs1 o_wc] eqn:F1. destruct (reason_of kw) as [r1 r2].
    destruct (fire (wbs s) o (WFail 2 r1 r2)) as [wbs1 o_wb] eqn:F2. intros [= <- <-]. cbn [base cls sls gcl gsl]. repeat split.
    apply told_c_app; [exact Tn|]. cbn [app].
    rewrite <- (app_nil_l [(M_FAILED, o, 0, both_cases kw)]).
    apply told_c_app; [apply told_c_dones; destruct (tfind (cclosing s) o); [apply only_dones_run_items | apply only_dones_nil]|].
    rewrite <- (app_nil_l [(M_FAILED, o, 0, both_cases kw)]).
    apply told_c_app; [apply told_c_dones; eapply only_dones_fire; eauto|].
    rewrite <- (app_nil_l [(M_FAILED, o, 0, both_cases kw)]).
    apply told_c_app; [apply told_c_dones; eapply only_dones_fire; eauto|].
    rewrite tell_c_tells. apply told_c_tells.
  - destruct (fire (wcs s) o (WOkC o)) as [wcs1 o_wc] eqn:F1. destruct (reason_of kw) as [r1 r2].
    destruct (fire (wbs s) o (WFail 1 r1 r2)) as [wbs1 o_wb] eqn:F2. intros [= <- <-]. cbn [base cls sls gcl gsl]. repeat split.
    apply told_c_app; [exact Tn|]. cbn [app].
    rewrite <- (app_nil_l [(M_CLOSED, o, 0, both_cases kw)]).
    apply told_c_app; [apply told_c_dones; destruct (tfind (cclosing s) o); [apply only_dones_run_items | apply only_dones_nil]|].
    rewrite <- (app_nil_l [(M_CLOSED, o, 0, both_cases kw)]).
    apply told_c_app; [apply told_c_dones; eapply only_dones_fire; eauto|].
    rewrite <- (app_nil_l [(M_CLOSED, o, 0, both_cases kw)]).
    apply told_c_app; [apply told_c_dones; eapply only_dones_fire; eauto|].
    rewrite tell_c_tells. apply told_c_tells.
Qed.

Lemma x_circ_total s id st path kw post : step (base s) (ECirc id st path kw) = Some post ->
  exists s' es, x_circ s id st path kw = Some (s', es).
Proof.
  intros E. unfold x_circ. rewrite E.
  destruct (match kfind fst id (circuits (base s)) with Some p => _ | None => _ end) as [[first o] oldpath].
  destruct st; cbv iota beta; try (eexists; eexists; reflexivity).
  - destruct (fire (wbs s) o (WOkC o)). eexists; eexists; reflexivity.
  - destruct (fire (wcs s) o (WOkC o)). destruct (reason_of kw). destruct (fire (wbs s) o _). eexists; eexists; reflexivity.
  - destruct (fire (wcs s) o (WOkC o)). destruct (reason_of kw). destruct (fire (wbs s) o _). eexists; eexists; reflexivity.
Qed.

Lemma of_nat_S n : N.of_nat (S n) = N.of_nat n + 1.
Proof. lia. Qed.

Lemma flags_ok_expected_circ first oldlen o st path kw : kw_ok kw = true -> flags_ok (expected_circ first oldlen o st path kw).
Proof.
  intros K m o' a fl H. unfold expected_circ in H. apply in_app_or in H as [H|H].
  - destruct first; [destruct H as [[= <- <- <- <-]|[]]; reflexivity | destruct H].
  - destruct st; try (destruct H as [[= <- <- <- <-]|[]]; try reflexivity; now apply kw_ok_both);
      apply in_app_or in H as [H|H]; try (apply in_map_iff in H as [h [[= <- <- <- <-] _]]; reflexivity);
      try (destruct H as [[= <- <- <- <-]|[]]; reflexivity); destruct H.
Qed.

Lemma rel_circ ls xs id st path kw ls' :
  Rel ls xs -> lstep ls (OEv (ECirc id st path kw)) = Some ls' ->
  exists xs' es, x_circ xs id st path kw = Some (xs', es) /\ Rel ls' xs' /\
                 notif_check ls (OEv (ECirc id st path kw)) es = true.
Proof.
  intros R L. cbn [lstep] in L; unfold lstep_ev in L.
  destruct (ev_legal (l_tv ls) (ECirc id st path kw)) eqn:Lg; cbn [negb] in L; [|discriminate].
  assert (Lg' : ev_legal (abs (base xs)) (ECirc id st path kw) = true) by (rewrite (r_tv _ _ R); exact Lg).
  destruct (step_ok (base xs) _ (r_wf _ _ R) (r_cp _ _ R) Lg') as [post [E [W' [C' A']]]].
  destruct (x_circ_total xs id st path kw post E) as [xs' [es X]].
  destruct (x_circ_told _ _ _ _ _ _ _ X) as [Eb [T [Ecls [Esls [Egcl Egsl]]]]].
  assert (Ep : base xs' = post) by congruence.
  destruct (circ_event_shape (base xs) id st path kw post (r_wf _ _ R) E) as [Sh1 [Sh2 [Sh3 [Sh4 [[c' [Gc' [Ic' Sc']]] Sh6]]]]].
  (* the model's and the specification's idea of the object coincide *)
  assert (Eloc : locate id (l_cdict ls) (l_nc ls) = (xc_first xs id, xc_obj xs id)).
  { unfold locate, xc_first, xc_obj. rewrite <- (r_cdict _ _ R), <- (r_nc _ _ R).
    destruct (kfind fst id (circuits (base xs))); reflexivity. }
  rewrite Eloc in L. injection L as <-.
  exists xs', es. split; [exact X|]. split.
  - fold (xc_first xs id) (xc_obj xs id) in Sh3, Sh4, Gc', Sh6.
    constructor; cbn [l_tv l_cdict l_sdict l_nc l_ns l_cregs l_sregs l_gcl l_gsl]; rewrite ?Ep.
    + exact W'.
    + exact C'.
    + rewrite A'. now rewrite (r_tv _ _ R).
    + rewrite Sh3. rewrite (r_cdict _ _ R). reflexivity.
    + rewrite Sh2. exact (r_sdict _ _ R).
    + rewrite Sh4. destruct (xc_first xs id); [rewrite of_nat_S|]; now rewrite (r_nc _ _ R).
    + rewrite Sh1. exact (r_ns _ _ R).
    + rewrite Ecls. unfold xc_ls. destruct (xc_first xs id); [|exact (r_cregs _ _ R)].
      now rewrite (r_cregs _ _ R), (r_gcl _ _ R).
    + rewrite Esls. exact (r_sregs _ _ R).
    + rewrite Egcl. exact (r_gcl _ _ R).
    + rewrite Egsl. exact (r_gsl _ _ R).
    + intros o'. rewrite Ecls. destruct (xc_first xs id) eqn:Ef; [|apply (r_cnd _ _ R)].
      rewrite tget_tset. destruct (xc_obj xs id =? o'); [|apply (r_cnd _ _ R)].
      unfold xc_ls. rewrite Ef. apply dedupe_NoDup.
    + intros o'. rewrite Esls. apply (r_snd _ _ R).
    + intros o' Ho'. destruct (N.eq_dec o' (xc_obj xs id)) as [->|Hne]; [rewrite Gc'; discriminate|].
      rewrite (Sh6 o' Hne). apply (r_cex _ _ R).
      destruct (xc_first xs id) eqn:Ef; [|exact Ho'].
      assert (xc_obj xs id = l_nc ls).
      { unfold xc_obj. unfold xc_first in Ef. destruct (kfind fst id (circuits (base xs))); [discriminate | exact (r_nc _ _ R)]. }
      lia.
    + intros o' Ho'. unfold get_s. rewrite Sh1. apply (r_sex _ _ R o' Ho').
  - cbn [notif_check]. rewrite Eloc.
    assert (Eold : match kfind tc_id id (tcs (l_tv ls)) with Some t => length (tc_path t) | None => O end
                   = length (xc_oldpath xs id)).
    { rewrite <- (r_tv _ _ R). unfold abs; cbn [tcs].
      rewrite (kfind_map fst tc_id (abs_c (base xs)) id (circuits (base xs)) (abs_c_id (base xs))).
      unfold xc_oldpath. destruct (kfind fst id (circuits (base xs))) as [p|] eqn:F; cbn [option_map]; [|reflexivity].
      unfold abs_c. destruct (get_c (snd p) (base xs)) as [c|]; cbn [tc_of blank_c tc_path]; [now rewrite map_length | reflexivity]. }
    rewrite Eold.
    assert (Els : (if xc_first xs id then dedupe (l_gcl ls) else tget [] (l_cregs ls) (xc_obj xs id)) = xc_ls xs id).
    { unfold xc_ls. now rewrite (r_gcl _ _ R), (r_cregs _ _ R). }
    rewrite Els. apply notif_ok_circ; [|exact T|].
    + unfold xc_ls. destruct (xc_first xs id); [apply dedupe_NoDup | apply (r_cnd _ _ R)].
    + apply flags_ok_expected_circ. cbn [ev_legal] in Lg. rewrite !andb_true_iff in Lg. tauto.
Qed.

(* ---------------------------------------------------------------- what the model tells on a STREAM event *)
Definition xs_first (s : xstate) (id : N) : bool :=
  match kfind fst id (streams (base s)) with Some _ => false | None => true end.
Definition xs_obj (s : xstate) (id : N) : N :=
  match kfind fst id (streams (base s)) with Some p => snd p | None => N.of_nat (length (sheap (base s))) end.
Definition xs_circ (s : xstate) (id : N) : option N :=
  match kfind fst id (streams (base s)) with
  | Some p => match get_s (snd p) (base s) with Some x => s_circ x | None => None end
  | None => None
  end.
Definition xs_ls (s : xstate) (id : N) : list N :=
  if xs_first s id then dedupe (gsl s) else tget [] (sls s) (xs_obj s id).
Definition xs_attached (s : xstate) (id : N) (st : sstatus) (cid : N) : option N :=
  match st with
  | SClosed | SFailed | SDetached => None
  | _ => if cid =? 0 then None else
         match xs_circ s id with
         | Some _ => None
         | None => match kfind fst cid (circuits (base s)) with
                   | Some p => match get_c (snd p) (base s) with
                               | Some c => if memN (xs_obj s id) (c_streams c) then None else Some (snd p)
                               | None => None
                               end
                   | None => None
                   end
         end
  end.

Lemma x_stream_told s id st cid host port kw s' es :
  x_stream s id st cid host port kw = Some (s', es) ->
  step (base s) (EStream id st cid host port kw) = Some (base s') /\
  told_s (xs_ls s id) es (expected_stream (xs_obj s id) st (xs_attached s id st cid) kw) /\
  sls s' = (if xs_first s id then tset (sls s) (xs_obj s id) (xs_ls s id) else sls s) /\
  cls s' = cls s /\ gcl s' = gcl s /\ gsl s' = gsl s.
Proof.
  unfold xs_attached. unfold x_stream, xs_ls, xs_first, xs_obj, xs_circ.
  destruct (step (base s) (EStream id st cid host port kw)) as [post|]; [|discriminate].
  set (first := match kfind fst id (streams (base s)) with Some _ => false | None => true end).
  set (o := match kfind fst id (streams (base s)) with Some p => snd p | None => N.of_nat (length (sheap (base s))) end).
  set (pre_circ := match kfind fst id (streams (base s)) with
                   | Some p => match get_s (snd p) (base s) with Some x => s_circ x | None => None end
                   | None => None end).
  assert (E : match kfind fst id (streams (base s)) with
              | Some p => (false, snd p, match get_s (snd p) (base s) with Some x => s_circ x | None => None end)
              | None => (true, N.of_nat (length (sheap (base s))), None)
              end = (first, o, pre_circ)).
  { unfold first, o, pre_circ. destruct (kfind fst id (streams (base s))); reflexivity. }
  rewrite E. clear E.
  set (ls := if first then dedupe (gsl s) else tget [] (sls s) o).
  intros [= <- <-]. cbn [base cls sls gcl gsl]. repeat split.
  unfold expected_stream. apply told_s_app.
  - destruct st; try apply ts_nil; try (rewrite tell_s_tells; apply told_s_tells).
    + rewrite <- (app_nil_l [(MS_FAILED, o, 0, both_cases kw)]). apply told_s_app; [|rewrite tell_s_tells; apply told_s_tells].
      apply told_s_dones. destruct (tfind (sclosing s) o); [apply only_dones_run_items | apply only_dones_nil].
    + rewrite <- (app_nil_l [(MS_CLOSED, o, 0, both_cases kw)]). apply told_s_app; [|rewrite tell_s_tells; apply told_s_tells].
      apply told_s_dones. destruct (tfind (sclosing s) o); [apply only_dones_run_items | apply only_dones_nil].
  - destruct st; try apply ts_nil;
      (destruct (cid =? 0); [apply ts_nil|]; destruct pre_circ; [apply ts_nil|];
       destruct (kfind fst cid (circuits (base s))) as [p|]; [|apply ts_nil];
       destruct (get_c (snd p) (base s)) as [c|]; [|apply ts_nil];
       destruct (memN o (c_streams c)); [apply ts_nil|]; rewrite tell_s_tells; apply told_s_tells).
Qed.

Lemma x_stream_total s id st cid host port kw post : step (base s) (EStream id st cid host port kw) = Some post ->
  exists s' es, x_stream s id st cid host port kw = Some (s', es).
Proof.
  intros E. unfold x_stream. rewrite E.
  destruct (match kfind fst id (streams (base s)) with Some p => _ | None => _ end) as [[first o] pc].
  eexists; eexists; reflexivity.
Qed.

Lemma flags_ok_expected_stream o st att kw : kw_ok kw = true -> flags_ok (expected_stream o st att kw).
Proof.
  intros K m o' a fl H. unfold expected_stream in H. apply in_app_or in H as [H|H].
  - destruct st; cbn [In] in H; try (destruct H as [[= <- <- <- <-]|[]]; try reflexivity; now apply kw_ok_both); destruct H.
  - destruct att; [destruct H as [[= <- <- <- <-]|[]]; reflexivity | destruct H].
Qed.

Lemma att_before_agree xs id : WF (base xs) ->
  match kfind ts_id id (tss (abs (base xs))) with Some t => ts_att t | None => ANone end
  = abs_att (circuits (base xs)) (xs_circ xs id) /\
  option_map ts_att (kfind ts_id id (tss (abs (base xs)))) =
  match kfind fst id (streams (base xs)) with Some _ => Some (abs_att (circuits (base xs)) (xs_circ xs id)) | None => None end.
Proof.
  intros W. unfold abs; cbn [tss].
  rewrite (kfind_map fst ts_id (abs_s (base xs)) id (streams (base xs)) (abs_s_id (base xs))).
  unfold xs_circ. destruct (kfind fst id (streams (base xs))) as [p|] eqn:F; cbn [option_map]; [|split; reflexivity].
  destruct (kfind_Some fst _ _ _ F) as [_ Hp]. destruct (wf_slive _ W p Hp) as [x [G _]].
  unfold abs_s. rewrite G. cbn [ts_of ts_att]. split; reflexivity.
Qed.

Lemma not_listed_new_or_free xs id c : WF (base xs) -> xs_circ xs id = None -> In c (cheap (base xs)) ->
  memN (xs_obj xs id) (c_streams c) = false.
Proof.
  intros W Hc Hin. apply memN_false. unfold xs_obj, xs_circ in *.
  destruct (kfind fst id (streams (base xs))) as [p|] eqn:F.
  - destruct (kfind_Some fst _ _ _ F) as [_ Hp]. destruct (wf_slive _ W p Hp) as [x [G _]]. rewrite G in Hc.
    apply (not_listed_elsewhere (base xs) (snd p) x None c W G Hc Hin). discriminate.
  - intros Hl. destruct (wf_listed _ W c _ Hin Hl) as [p [x [_ [_ [G _]]]]]. now rewrite (get_s_fresh _ W) in G.
Qed.

Lemma attached_agree ls xs id st cid host port kw : Rel ls xs ->
  (let tv' := tor_step (l_tv ls) (EStream id st cid host port kw) in
   let att_before := match kfind ts_id id (tss (l_tv ls)) with Some t => ts_att t | None => ANone end in
   let att_after := match kfind ts_id id (tss tv') with Some t => ts_att t | None => ANone end in
   match att_before, att_after with
   | ANone, AOn c => option_map snd (kfind fst c (l_cdict ls))
   | _, _ => None
   end) = xs_attached xs id st cid.
Proof.
  intros R. cbv zeta. rewrite <- (r_tv _ _ R), <- (r_cdict _ _ R).
  pose proof (r_wf _ _ R) as W. destruct (att_before_agree xs id W) as [Eb Eo]. rewrite Eb.
  rewrite tor_step_stream.
  assert (Hnd : NoDup (map ts_id (tss (abs (base xs))))) by (unfold abs; cbn [tss]; rewrite map_abs_s_ids; exact (wf_sids _ W)).
  assert (Other : s_terminal st = false -> st <> SDetached ->
     match abs_att (circuits (base xs)) (xs_circ xs id),
           match kfind ts_id id (tss {| tcs := tcs (abs (base xs));
                                        tss := kset ts_id (spec_s (kfind ts_id id (tss (abs (base xs)))) id st cid host port kw)
                                                 (tss (abs (base xs))) |}) with
           | Some t => ts_att t | None => ANone end with
     | ANone, AOn c => option_map snd (kfind fst c (circuits (base xs)))
     | _, _ => None
     end =
     (if cid =? 0 then None else
      match xs_circ xs id with
      | Some _ => None
      | None => match kfind fst cid (circuits (base xs)) with
                | Some p => match get_c (snd p) (base xs) with
                            | Some c => if memN (xs_obj xs id) (c_streams c) then None else Some (snd p)
                            | None => None
                            end
                | None => None
                end
      end)).
  { intros T D. cbn [tss]. rewrite kfind_kset. cbn [spec_s ts_id]. rewrite N.eqb_refl. cbn [spec_s ts_att].
    rewrite (spec_att_other _ _ _ T D), Eo.
    destruct (cid =? 0); [now destruct (abs_att _ _)|].
    destruct (xs_circ xs id) as [coid|] eqn:Hc.
    - cbn [abs_att]. destruct (kfind snd coid (circuits (base xs))); reflexivity.
    - cbn [abs_att].
      assert (Ea : match match kfind fst id (streams (base xs)) with Some _ => Some ANone | None => None end with
                   | Some ADangling => ADangling | _ => AOn cid end = AOn cid)
        by (destruct (kfind fst id (streams (base xs))); reflexivity).
      rewrite Ea. destruct (kfind fst cid (circuits (base xs))) as [p|] eqn:F; cbn [option_map]; [|reflexivity].
      destruct (kfind_Some fst _ _ _ F) as [_ Hp]. destruct (wf_clive _ W p Hp) as [c [G _]]. rewrite G.
      destruct (get_c_oid _ _ _ G) as [_ Hin]. now rewrite (not_listed_new_or_free xs id c W Hc Hin). }
  unfold xs_attached. destruct st; cbn [s_terminal]; try (apply Other; [reflexivity | discriminate]).
  - cbn [tss]. rewrite kfind_kset. cbn [spec_s ts_id]. rewrite N.eqb_refl. cbn [spec_s ts_att spec_att].
    now destruct (abs_att _ _).
  - cbn [tss]. rewrite (kfind_kdel_same ts_id id _ Hnd). now destruct (abs_att _ _).
  - cbn [tss]. rewrite (kfind_kdel_same ts_id id _ Hnd). now destruct (abs_att _ _).
Qed.

Lemma rel_stream ls xs id st cid host port kw ls' :
  Rel ls xs -> lstep ls (OEv (EStream id st cid host port kw)) = Some ls' ->
  exists xs' es, x_stream xs id st cid host port kw = Some (xs', es) /\ Rel ls' xs' /\
                 notif_check ls (OEv (EStream id st cid host port kw)) es = true.
Proof.
  intros R L. cbn [lstep] in L; unfold lstep_ev in L.
  destruct (ev_legal (l_tv ls) (EStream id st cid host port kw)) eqn:Lg; cbn [negb] in L; [|discriminate].
  assert (Lg' : ev_legal (abs (base xs)) (EStream id st cid host port kw) = true) by (rewrite (r_tv _ _ R); exact Lg).
  destruct (step_ok (base xs) _ (r_wf _ _ R) (r_cp _ _ R) Lg') as [post [E [W' [C' A']]]].
  destruct (x_stream_total xs id st cid host port kw post E) as [xs' [es X]].
  destruct (x_stream_told _ _ _ _ _ _ _ _ _ X) as [Eb [T [Esls [Ecls [Egcl Egsl]]]]].
  assert (Ep : base xs' = post) by congruence.
  destruct (stream_event_shape (base xs) id st cid host port kw post (r_wf _ _ R) E)
    as [[Sc1 [Sc2 Sc3]] [Sh3 [Sh4 [[x' [Gx' Ix']] Sh6]]]].
  assert (Eloc : locate id (l_sdict ls) (l_ns ls) = (xs_first xs id, xs_obj xs id)).
  { unfold locate, xs_first, xs_obj. rewrite <- (r_sdict _ _ R), <- (r_ns _ _ R).
    destruct (kfind fst id (streams (base xs))); reflexivity. }
  rewrite Eloc in L. injection L as <-.
  exists xs', es. split; [exact X|]. split.
  - fold (xs_first xs id) (xs_obj xs id) in Sh3, Sh4, Gx', Sh6.
    constructor; cbn [l_tv l_cdict l_sdict l_nc l_ns l_cregs l_sregs l_gcl l_gsl]; rewrite ?Ep.
    + exact W'.
    + exact C'.
    + rewrite A'. now rewrite (r_tv _ _ R).
    + rewrite Sc1. exact (r_cdict _ _ R).
    + rewrite Sh3. rewrite (r_sdict _ _ R). reflexivity.
    + rewrite Sc2. exact (r_nc _ _ R).
    + rewrite Sh4. destruct (xs_first xs id); [rewrite of_nat_S|]; now rewrite (r_ns _ _ R).
    + rewrite Ecls. exact (r_cregs _ _ R).
    + rewrite Esls. unfold xs_ls. destruct (xs_first xs id); [|exact (r_sregs _ _ R)].
      now rewrite (r_sregs _ _ R), (r_gsl _ _ R).
    + rewrite Egcl. exact (r_gcl _ _ R).
    + rewrite Egsl. exact (r_gsl _ _ R).
    + intros o'. rewrite Ecls. apply (r_cnd _ _ R).
    + intros o'. rewrite Esls. destruct (xs_first xs id) eqn:Ef; [|apply (r_snd _ _ R)].
      rewrite tget_tset. destruct (xs_obj xs id =? o'); [|apply (r_snd _ _ R)].
      unfold xs_ls. rewrite Ef. apply dedupe_NoDup.
    + intros o' Ho' Hn. pose proof (Sc3 o') as S3. rewrite Hn in S3. cbn [option_map] in S3.
      destruct (get_c o' (base xs)) eqn:G; [discriminate|]. now apply (r_cex _ _ R o' Ho').
    + intros o' Ho'. destruct (N.eq_dec o' (xs_obj xs id)) as [->|Hne]; [rewrite Gx'; discriminate|].
      rewrite (Sh6 o' Hne). apply (r_sex _ _ R).
      destruct (xs_first xs id) eqn:Ef; [|exact Ho'].
      assert (xs_obj xs id = l_ns ls).
      { unfold xs_obj. unfold xs_first in Ef. destruct (kfind fst id (streams (base xs))); [discriminate | exact (r_ns _ _ R)]. }
      lia.
  - cbn [notif_check]. rewrite Eloc.
    pose proof (attached_agree ls xs id st cid host port kw R) as AA. cbv zeta in AA. cbv zeta. rewrite AA.
    assert (Els : (if xs_first xs id then dedupe (l_gsl ls) else tget [] (l_sregs ls) (xs_obj xs id)) = xs_ls xs id).
    { unfold xs_ls. now rewrite (r_gsl _ _ R), (r_sregs _ _ R). }
    rewrite Els. apply notif_ok_stream; [|exact T|].
    + unfold xs_ls. destruct (xs_first xs id); [apply dedupe_NoDup | apply (r_snd _ _ R)].
    + apply flags_ok_expected_stream. cbn [ev_legal] in Lg. rewrite !andb_true_iff in Lg. tauto.
Qed.

(* ---------------------------------------------------------------- every operation *)
(* operations whose effect depends on the command queue *)
Definition qop (o : op) : bool := match o with OAck | OExtended _ | OBuildErr => true | _ => false end.

Lemma no_notifs_cmds k (l : list N) : no_notifs (map (NCmd k) l) = true.
Proof. unfold no_notifs, circ_listeners_called, stream_listeners_called. induction l as [|x t IH]; [reflexivity | exact IH]. Qed.

Lemma rel_op ls xs o ls' : Rel ls xs -> lstep ls o = Some ls' -> qop o = false ->
  exists xs' es, x_op xs o = Some (xs', es) /\ Rel ls' xs' /\ notif_check ls o es = true.
Proof.
  intros R L Hqop. destruct o as [e|l|l|ob l|ob l|ob l|ob l|ob wt|ob wt|ob wt|ob wt| |rs wt|id|]; try discriminate Hqop.
  - destruct e as [id st path kw|id st cid host port kw]; cbn [x_op]; [now apply rel_circ | now apply rel_stream].
  - cbn [lstep] in L; unfold lstep_ev in L. injection L as <-. cbn [x_op]. eexists; eexists. split; [reflexivity|]. split; [|reflexivity].
    destruct R. constructor; cbn [base cls sls gcl gsl l_tv l_cdict l_sdict l_nc l_ns l_cregs l_sregs l_gcl l_gsl]; auto.
    + unfold add_to_all. now rewrite r_cdict0, r_cregs0.
    + now rewrite r_gcl0.
    + intros o. rewrite r_cdict0. apply (add_to_all_NoDup l (l_cdict ls) (cls xs) r_cnd0).
  - cbn [lstep] in L; unfold lstep_ev in L. injection L as <-. cbn [x_op]. eexists; eexists. split; [reflexivity|]. split; [|reflexivity].
    destruct R. constructor; cbn [base cls sls gcl gsl l_tv l_cdict l_sdict l_nc l_ns l_cregs l_sregs l_gcl l_gsl]; auto.
    + unfold add_to_all. now rewrite r_sdict0, r_sregs0.
    + now rewrite r_gsl0.
    + intros o. rewrite r_sdict0. apply (add_to_all_NoDup l (l_sdict ls) (sls xs) r_snd0).
  - cbn [lstep] in L; unfold lstep_ev in L. destruct (N.ltb_spec ob (l_nc ls)) as [Hlt|]; [|discriminate]. injection L as <-.
    cbn [x_op]. destruct (get_c ob (base xs)) eqn:G; [|exfalso; now apply (r_cex _ _ R ob Hlt)].
    eexists; eexists. split; [reflexivity|]. split; [|reflexivity].
    destruct R. constructor; cbn [base cls sls gcl gsl l_tv l_cdict l_sdict l_nc l_ns l_cregs l_sregs l_gcl l_gsl]; auto.
    + now rewrite r_cregs0.
    + intros o. rewrite tget_tset. destruct (ob =? o); [apply add_once_NoDup|]; apply r_cnd0.
  - cbn [lstep] in L; unfold lstep_ev in L. destruct (N.ltb_spec ob (l_nc ls)) as [Hlt|]; cbn [andb] in L; [|discriminate].
    destruct (memN l (tget [] (l_cregs ls) ob)) eqn:M; [|discriminate]. injection L as <-.
    cbn [x_op]. destruct (get_c ob (base xs)) eqn:G; [|exfalso; now apply (r_cex _ _ R ob Hlt)].
    rewrite (r_cregs _ _ R), M.
    eexists; eexists. split; [reflexivity|]. split; [|reflexivity].
    destruct R. constructor; cbn [base cls sls gcl gsl l_tv l_cdict l_sdict l_nc l_ns l_cregs l_sregs l_gcl l_gsl]; auto.
    + intros o. rewrite tget_tset. destruct (ob =? o); [apply NoDup_remove1|]; rewrite <- r_cregs0; apply r_cnd0.
  - cbn [lstep] in L; unfold lstep_ev in L. destruct (N.ltb_spec ob (l_ns ls)) as [Hlt|]; [|discriminate]. injection L as <-.
    cbn [x_op]. destruct (get_s ob (base xs)) eqn:G; [|exfalso; now apply (r_sex _ _ R ob Hlt)].
    eexists; eexists. split; [reflexivity|]. split; [|reflexivity].
    destruct R. constructor; cbn [base cls sls gcl gsl l_tv l_cdict l_sdict l_nc l_ns l_cregs l_sregs l_gcl l_gsl]; auto.
    + now rewrite r_sregs0.
    + intros o. rewrite tget_tset. destruct (ob =? o); [apply add_once_NoDup|]; apply r_snd0.
  - cbn [lstep] in L; unfold lstep_ev in L. destruct (N.ltb_spec ob (l_ns ls)) as [Hlt|]; cbn [andb] in L; [|discriminate].
    destruct (memN l (tget [] (l_sregs ls) ob)) eqn:M; [|discriminate]. injection L as <-.
    cbn [x_op]. destruct (get_s ob (base xs)) eqn:G; [|exfalso; now apply (r_sex _ _ R ob Hlt)].
    rewrite (r_sregs _ _ R), M.
    eexists; eexists. split; [reflexivity|]. split; [|reflexivity].
    destruct R. constructor; cbn [base cls sls gcl gsl l_tv l_cdict l_sdict l_nc l_ns l_cregs l_sregs l_gcl l_gsl]; auto.
    + intros o. rewrite tget_tset. destruct (ob =? o); [apply NoDup_remove1|]; rewrite <- r_sregs0; apply r_snd0.
  - (* when_built *)
    cbn [lstep] in L; unfold lstep_ev in L. destruct (N.ltb_spec ob (l_nc ls)) as [Hlt|]; cbn [andb] in L; [|discriminate].
    destruct (negb (memN wt (l_used ls))); [|discriminate]. injection L as <-.
    cbn [x_op]. destruct (get_c ob (base xs)) as [c|] eqn:G; [|exfalso; now apply (r_cex _ _ R ob Hlt)].
    assert (Fr : forall xs' es, no_notifs es = true -> base xs' = base xs -> cls xs' = cls xs -> sls xs' = sls xs ->
                 gcl xs' = gcl xs -> gsl xs' = gsl xs ->
                 exists xs'' es', Some (xs', es) = Some (xs'', es') /\
                   Rel (use_q ls wt (l_nb ls) (l_ncl ls)) xs'' /\ no_notifs es' = true).
    { intros xs' es Hq B1 B2 B3 B4 B5. exists xs', es. split; [reflexivity|]. split; [|exact Hq].
      apply (Rel_frame ls _ xs xs' R); auto. }
    destruct (c_state c) as [[]|]; try (destruct (tget (OSPending []) (wbs xs) ob)); apply Fr; reflexivity.
  - (* when_closed *)
    cbn [lstep] in L; unfold lstep_ev in L. destruct (N.ltb_spec ob (l_nc ls)) as [Hlt|]; cbn [andb] in L; [|discriminate].
    destruct (negb (memN wt (l_used ls))); [|discriminate]. injection L as <-.
    cbn [x_op]. destruct (get_c ob (base xs)) as [c|] eqn:G; [|exfalso; now apply (r_cex _ _ R ob Hlt)].
    assert (Fr : forall xs' es, no_notifs es = true -> base xs' = base xs -> cls xs' = cls xs -> sls xs' = sls xs ->
                 gcl xs' = gcl xs -> gsl xs' = gsl xs ->
                 exists xs'' es', Some (xs', es) = Some (xs'', es') /\
                   Rel (use_q ls wt (l_nb ls) (l_ncl ls)) xs'' /\ no_notifs es' = true).
    { intros xs' es Hq B1 B2 B3 B4 B5. exists xs', es. split; [reflexivity|]. split; [|exact Hq].
      apply (Rel_frame ls _ xs xs' R); auto. }
    destruct (c_state c) as [[]|]; try (destruct (tget (OSPending []) (wcs xs) ob)); apply Fr; reflexivity.
  - (* circuit close *)
    cbn [lstep] in L; unfold lstep_ev in L. destruct (N.ltb_spec ob (l_nc ls)) as [Hlt|]; cbn [andb] in L; [|discriminate].
    destruct (negb (memN wt (l_used ls))); [|discriminate]. cbn [andb] in L. destruct (l_nb ls =? 0); [|discriminate]. injection L as <-.
    cbn [x_op]. destruct (get_c ob (base xs)) as [c|] eqn:G; [|exfalso; now apply (r_cex _ _ R ob Hlt)].
    assert (Fr : forall xs' es, no_notifs es = true -> base xs' = base xs -> cls xs' = cls xs -> sls xs' = sls xs ->
                 gcl xs' = gcl xs -> gsl xs' = gsl xs ->
                 exists xs'' es', Some (xs', es) = Some (xs'', es') /\
                   Rel (use_q ls wt (l_nb ls) (l_ncl ls + 1)) xs'' /\ no_notifs es' = true).
    { intros xs' es Hq B1 B2 B3 B4 B5. exists xs', es. split; [reflexivity|]. split; [|exact Hq].
      apply (Rel_frame ls _ xs xs' R); auto. }
    destruct (c_state c) as [[]|]; try (destruct (tfind (cclosing xs) ob)); apply Fr; reflexivity.
  - (* stream close *)
    cbn [lstep] in L; unfold lstep_ev in L. destruct (N.ltb_spec ob (l_ns ls)) as [Hlt|]; cbn [andb] in L; [|discriminate].
    destruct (negb (memN wt (l_used ls))); [|discriminate]. cbn [andb] in L. destruct (l_nb ls =? 0); [|discriminate]. injection L as <-.
    cbn [x_op]. destruct (get_s ob (base xs)) as [x|] eqn:G; [|exfalso; now apply (r_sex _ _ R ob Hlt)].
    destruct (s_state x) as [[]|]; try destruct (tfind (sclosing xs) ob);
      (eexists; eexists; split; [reflexivity|]; split; [|reflexivity]; apply (Rel_frame ls _ xs _ R); auto).
  - (* build_circuit *)
    cbn [lstep] in L. destruct ((l_ncl ls =? 0) && negb (memN wt (l_used ls))); [|discriminate]. injection L as <-.
    cbn [x_op]. eexists; eexists. split; [reflexivity|]. split; [apply (Rel_frame ls _ xs _ R); auto|].
    cbn [notif_check]. apply (no_notifs_cmds 3 rs).
Qed.

(* ---------------------------------------------------------------- preservation, for every operation the model performs *)
Lemma x_op_det0 xs o a b : x_op xs o = Some a -> x_op xs o = Some b -> a = b.
Proof. congruence. Qed.

Lemma forallb_ext' {A} (f g : A -> bool) l : (forall x, f x = g x) -> forallb f l = forallb g l.
Proof. intros H. induction l as [|x t IH]; cbn; [reflexivity | now rewrite H, IH]. Qed.

Lemma notif_ok_app_done circ regs exp es w r : notif_ok circ regs exp (es ++ [NDone w r]) = notif_ok circ regs exp es.
Proof.
  unfold notif_ok. rewrite !called_c_app, !called_s_app. cbn [circ_listeners_called stream_listeners_called map concat].
  rewrite !app_nil_r. f_equal. apply forallb_ext'. intros l. destruct circ; [rewrite calls_c_app | rewrite calls_s_app];
    cbn [calls_of_circ calls_of_stream map concat]; now rewrite app_nil_r.
Qed.

Lemma notif_check_extended ls id es :
  notif_check ls (OExtended id) es = notif_check ls (OEv (ext_event id)) es.
Proof.
  cbn [notif_check ext_event]. destruct (locate id (l_cdict ls) (l_nc ls)) as [first ob].
  unfold expected_circ. cbn [map]. now rewrite !skipn_nil.
Qed.

Lemma Rel_with_q ls xs nb ncl : Rel ls xs -> Rel (with_q ls nb ncl) xs.
Proof. intros R. apply (Rel_frame ls _ xs xs R); reflexivity. Qed.

Lemma rel_pres ls xs o ls' xs' es : Rel ls xs -> lstep ls o = Some ls' -> x_op xs o = Some (xs', es) ->
  Rel ls' xs' /\ notif_check ls o es = true.
Proof.
  intros R L X. destruct (qop o) eqn:Hq.
  - destruct o; try discriminate Hq; cbn [lstep] in L; cbn [x_op] in X.
    + (* acknowledgement *)
      destruct (l_nb ls =? 0); [|discriminate]. injection L as <-.
      destruct (cmds xs) as [|[ob wt ok|ob wt ok|wt] q]; [| | |discriminate].
      * injection X as <- <-. split; [now apply Rel_with_q | reflexivity].
      * destruct ok; [destruct (tfind (cclosing xs) ob)|]; injection X as <- <-;
          (split; [apply (Rel_frame ls _ xs _ R); auto | reflexivity]).
      * injection X as <- <-. split; [apply (Rel_frame ls _ xs _ R); auto | reflexivity].
    + (* 250 EXTENDED id *)
      destruct ((0 <? l_nb ls) && ext_ok (l_tv ls) id); [|discriminate].
      destruct (lstep_ev ls (ext_event id)) as [l1|] eqn:E; [|discriminate]. injection L as <-.
      destruct (cmds xs) as [|[ob wt ok|ob wt ok|wt] q]; try discriminate.
      destruct (rel_circ ls xs id CExtended [] [] l1 R E) as [xs1 [es1 [X1 [R1 N1]]]]. rewrite X1 in X. injection X as <- <-.
      split; [apply (Rel_frame l1 _ xs1 _ R1); auto|].
      rewrite notif_check_extended. cbn [notif_check ext_event] in *.
      destruct (locate id (l_cdict ls) (l_nc ls)) as [first ob]. now rewrite notif_ok_app_done.
    + (* 5xx *)
      destruct (0 <? l_nb ls); [|discriminate]. injection L as <-.
      destruct (cmds xs) as [|[ob wt ok|ob wt ok|wt] q]; try discriminate. injection X as <- <-.
      split; [apply (Rel_frame ls _ xs _ R); auto | reflexivity].
  - destruct (rel_op ls xs o ls' R L Hq) as [xs2 [es2 [X2 [R2 N2]]]]. rewrite X in X2. injection X2 as <- <-. auto.
Qed.
