(* The line-processing functions of the protocol model neither read nor write the receive
   buffer and the transport's disconnecting flag ("frame" lemmas).  Used for the protocol-level
   segmentation theorem. *)
From Coq Require Import List Bool Ascii Arith NArith ZArith Lia.
From TxVerif Require Import Lib.Bytes Spec.Ctl Model.CtlTypes Gen.CtlFsmTable Model.Framing Model.CtlProto
  Proofs.CtlParse.
Import ListNotations.
Open Scope N_scope.

Definition sb (b : bytes) (d : bool) (s : pstate) : pstate := upd_buf s b d.
Definition fr (b : bytes) (d : bool) (r : res) : res := let '(s, o, ok) := r in (sb b d s, o, ok).

Lemma fr_ret b d s : fr b d (ret s) = ret (sb b d s). Proof. reflexivity. Qed.
Lemma fr_emit b d s o : fr b d (emit s o) = emit (sb b d s) o. Proof. reflexivity. Qed.
Lemma fr_raise b d s k : fr b d (raise s k) = raise (sb b d s) k. Proof. reflexivity. Qed.
Lemma fr_oos b d s : fr b d (oos s) = oos (sb b d s). Proof. reflexivity. Qed.

Lemma fr_andthen b d r f g : (forall s1, g (sb b d s1) = fr b d (f s1)) ->
  andthen (fr b d r) g = fr b d (andthen r f).
Proof.
  intros H. unfold andthen, fr. destruct r as [[s o] ok]. destruct ok; [|reflexivity].
  rewrite H. unfold fr. destruct (f s) as [[s2 o2] ok2]. reflexivity.
Qed.

Ltac fr_fold := repeat match goal with |- context[upd_buf ?x ?bb ?dd] => change (upd_buf x bb dd) with (sb bb dd x) end.
Ltac fr_simpl := unfold sb; cbn [upd_buf upd_fsm upd_q upd_ev upd_lost upd_waiters p_buf p_fsm p_code p_resp
  p_inflight p_queue p_events p_lost p_waiters p_disc]; fr_fold.

Lemma submit0_fr b d s c : submit0 (sb b d s) c = fr b d (submit0 s c).
Proof.
  unfold submit0, submit. fr_simpl. destruct (p_lost s).
  - destruct (p_inflight s); [reflexivity|]. destruct (p_queue s); [|reflexivity].
    unfold resolve, no_script. rewrite <- fr_emit. apply fr_andthen. intros s1.
    destruct (cscript c); reflexivity.
  - unfold maybe_issue. fr_simpl. destruct (p_inflight s); [reflexivity|].
    destruct (p_queue s ++ [c]); [reflexivity|]. destruct (p_lost s); reflexivity.
Qed.

Lemma add_fr b d s n l c : add_listener submit0 (sb b d s) n l c = fr b d (add_listener submit0 s n l c).
Proof.
  unfold add_listener. fr_simpl. destruct (find_ev (p_events s) n); [reflexivity|].
  change (upd_ev (sb b d s) ?e) with (sb b d (upd_ev s e)).
  rewrite submit0_fr. apply fr_andthen. intros s1. reflexivity.
Qed.

Lemma rem_fr b d s n l c : rem_listener submit0 (sb b d s) n l c = fr b d (rem_listener submit0 s n l c).
Proof.
  unfold rem_listener. fr_simpl. destruct (find_ev (p_events s) n); [|reflexivity].
  destruct (remove_first l l0) as [[|x l']|]; try reflexivity.
  change (upd_ev (sb b d s) ?e) with (sb b d (upd_ev s e)). apply submit0_fr.
Qed.

Lemma sop_fr b d s o : run_sop0 (sb b d s) o = fr b d (run_sop0 s o).
Proof. destruct o; cbn [run_sop0]; [apply submit0_fr|apply add_fr|apply rem_fr]. Qed.

Lemma script_fr b d sc : forall s, run_script1 (sb b d s) sc = fr b d (run_script1 s sc).
Proof.
  induction sc as [|o sc IH]; intros s; cbn [run_script1]; [reflexivity|].
  rewrite sop_fr. apply fr_andthen. exact IH.
Qed.

Lemma resolve1_fr b d s c o : resolve1 (sb b d s) c o = fr b d (resolve1 s c o).
Proof.
  unfold resolve1, resolve. rewrite <- fr_emit. apply fr_andthen. intros s1. apply script_fr.
Qed.

Lemma maybe_issue_fr b d s : maybe_issue1 (sb b d s) = fr b d (maybe_issue1 s).
Proof.
  unfold maybe_issue1, maybe_issue. fr_simpl. destruct (p_inflight s); [reflexivity|].
  destruct (p_queue s); [reflexivity|]. destruct (p_lost s); reflexivity.
Qed.

Section WithBehaviours.
  Variable lbehs : list (N * lbeh).

  Lemma removes_fr b d rs : forall s,
    run_removes (sb b d s) rs = (let '(s', o) := run_removes s rs in (sb b d s', o)).
  Proof.
    induction rs as [|[[n l] c] rs IH]; intros s; cbn [run_removes]; [reflexivity|].
    rewrite rem_fr. destruct (rem_listener submit0 s n l c) as [[s1 o1] ok]. cbn [fr].
    destruct ok; [|reflexivity]. rewrite IH. destruct (run_removes s1 rs). reflexivity.
  Qed.

  Lemma got_update_fr b d lids payload : forall s,
    got_update lbehs (sb b d s) lids payload = (let '(s', o) := got_update lbehs s lids payload in (sb b d s', o)).
  Proof.
    induction lids as [|l ls IH]; intros s; cbn [got_update]; [reflexivity|].
    destruct (beh lbehs l); try (rewrite IH; destruct (got_update lbehs s ls payload); reflexivity).
    rewrite removes_fr. destruct (run_removes s rs) as [s1 o1]. rewrite IH.
    destruct (got_update lbehs s1 ls payload). reflexivity.
  Qed.

  Lemma notify_fr b d s t : handle_notify lbehs (sb b d s) t = fr b d (handle_notify lbehs s t).
  Proof.
    unfold handle_notify. destruct (take_word t) as [|a w]; [destruct t; reflexivity|]. fr_simpl.
    destruct (find_ev (p_events s) (a :: w)) as [lids|]; [|reflexivity].
    rewrite got_update_fr. destruct (got_update lbehs s lids _). reflexivity.
  Qed.

  Lemma deliver_fr b d s t f : deliver (sb b d s) t f = fr b d (deliver s t f).
  Proof.
    unfold deliver, line_cb. fr_simpl. destruct (p_code s) as [c|]; [destruct (is_6xx c)|];
      (destruct (p_inflight s) as [cm|]; [destruct (ccb (cl cm))|]); reflexivity.
  Qed.

  Lemma inner_resolve_fr b d s0 o0 cm o :
    andthen (emit (sb b d s0) o0) (fun s1 => resolve1 s1 cm o) =
    fr b d (andthen (emit s0 o0) (fun s1 => resolve1 s1 cm o)).
  Proof. rewrite <- fr_emit. apply fr_andthen. intros s1. apply resolve1_fr. Qed.

  Lemma inner_notify_fr b d s0 o0 t :
    andthen (emit (sb b d s0) o0) (fun s1 => handle_notify lbehs s1 t) =
    fr b d (andthen (emit s0 o0) (fun s1 => handle_notify lbehs s1 t)).
  Proof. rewrite <- fr_emit. apply fr_andthen. intros s1. apply notify_fr. Qed.

  Lemma clear_fr b d s2 :
    upd_fsm (upd_q (sb b d s2) None (p_queue (sb b d s2))) (p_fsm (sb b d s2)) None (p_resp (sb b d s2))
    = sb b d (upd_fsm (upd_q s2 None (p_queue s2)) (p_fsm s2) None (p_resp s2)).
  Proof. reflexivity. Qed.

  Lemma broadcast_fr b d s l : broadcast lbehs (sb b d s) l = fr b d (broadcast lbehs s l).
  Proof.
    unfold broadcast. fr_simpl. destruct (p_code s) as [c|]; [|reflexivity].
    set (o0resp := if 3 <? nlen l then _ else _). destruct o0resp as [o0 resp].
    change (upd_fsm (sb b d s) ?f ?cc ?r) with (sb b d (upd_fsm s f cc r)).
    change (p_inflight (sb b d ?x)) with (p_inflight x). cbn [p_inflight upd_fsm].
    destruct (is_2xx c).
    - destruct (p_inflight s) as [cm|]; [|reflexivity].
      rewrite inner_resolve_fr. apply fr_andthen. intros s2. rewrite clear_fr. apply maybe_issue_fr.
    - destruct (is_5xx c).
      + destruct (p_inflight s) as [cm|]; [|reflexivity].
        rewrite inner_resolve_fr. apply fr_andthen. intros s2. rewrite clear_fr. apply maybe_issue_fr.
      + destruct (is_6xx c); [|reflexivity].
        rewrite inner_notify_fr. apply fr_andthen. intros s2. reflexivity.
  Qed.

  Lemma handler_fr b d s h l : run_handler lbehs (sb b d s) h l = fr b d (run_handler lbehs s h l).
  Proof.
    destruct h; cbn [run_handler].
    - apply broadcast_fr.
    - destruct (code3 l); [|reflexivity].
      change (upd_fsm (sb b d s) ?f ?cc ?r) with (sb b d (upd_fsm s f cc r)). apply deliver_fr.
    - apply deliver_fr.
    - apply deliver_fr.
    - reflexivity.
  Qed.

  Lemma try_trans_fr b d l ts : forall s, try_trans lbehs (sb b d s) ts l = fr b d (try_trans lbehs s ts l).
  Proof.
    induction ts as [|t ts IH]; intros s; cbn [try_trans]; [reflexivity|].
    change (p_fsm (sb b d s)) with (p_fsm s). destruct (fstate_eqb (f_from t) (p_fsm s)); [|apply IH].
    assert (M : eval_match (sb b d s) (f_match t) l =
                match eval_match s (f_match t) l with MYes s1 => MYes (sb b d s1) | x => x end).
    { destruct (f_match t); cbn [eval_match]; unfold check_code; fr_simpl;
        repeat match goal with |- context[match ?x with _ => _ end] => destruct x end; reflexivity. }
    rewrite M. destruct (eval_match s (f_match t) l) as [s1| | |]; try reflexivity; [|apply IH].
    rewrite handler_fr. apply fr_andthen. intros s2. reflexivity.
  Qed.

  Lemma line_received_fr b d s l : line_received lbehs (sb b d s) l = fr b d (line_received lbehs s l).
  Proof. unfold line_received. destruct (forallb _ l); [apply try_trans_fr|reflexivity]. Qed.
End WithBehaviours.
