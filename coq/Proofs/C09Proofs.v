(* lemmas for C09 (Properties/C09.v only cites them) *)
From Coq Require Import List Bool Ascii Arith NArith Lia String.
From TxVerif Require Import Lib.Bytes Lib.Dec Spec.C09 Model.Attach.
Import ListNotations.
Open Scope N_scope.

(* ------------------------------------------------------------------ the single attacher slot *)
Lemma satt_eqb_eq a b : satt_eqb a b = true <-> a = b.
Proof.
  destruct a, b; cbn; split; intros H; try discriminate; try reflexivity.
  - apply Nat.eqb_eq in H. now subst.
  - injection H as ->. apply Nat.eqb_refl.
Qed.

Lemma setatt_second_refused : forall s x v,
  slot s = Some v -> v <> att_satt x -> op_setatt s (Some x) = (s, [ERaised 1]).
Proof.
  intros s x v Hs Hne. unfold op_setatt. rewrite Hs.
  destruct (satt_eqb v (att_satt x)) eqn:E; [|reflexivity].
  apply satt_eqb_eq in E. contradiction.
Qed.

Lemma setatt_install : forall s x,
  slot s = None -> op_setatt s (Some x) = send (with_slot s (Some (att_satt x))) (leave_line 1) KNone.
Proof. intros s x H. unfold op_setatt. rewrite H. reflexivity. Qed.

Lemma setatt_same : forall s x, slot s = Some (att_satt x) -> op_setatt s (Some x) = (s, []).
Proof.
  intros s x H. unfold op_setatt. rewrite H.
  replace (satt_eqb (att_satt x) (att_satt x)) with true; [reflexivity|].
  symmetry. now apply satt_eqb_eq.
Qed.

Lemma setatt_remove : forall s, op_setatt s None = send (with_slot s None) (leave_line 0) KNone.
Proof. reflexivity. Qed.

(* ------------------------------------------------------------------ Tor reads the lines back *)
Lemma leave_line_parses : parse_cmd (leave_line 0) = CLeave 0 /\ parse_cmd (leave_line 1) = CLeave 1.
Proof. split; vm_compute; reflexivity. Qed.

Lemma digit_not a x : is_digit a = true -> is_digit x = false -> Ascii.eqb a x = false.
Proof.
  intros Ha Hx. destruct (Ascii.eqb a x) eqn:E; [|reflexivity].
  apply Ascii.eqb_eq in E. subst. congruence.
Qed.

Lemma memb_digits x l : is_digit x = false -> forallb is_digit l = true -> memb x l = false.
Proof.
  intros Hx. induction l as [|a l IH]; cbn [forallb memb]; intros H; [reflexivity|].
  apply andb_true_iff in H as [Ha Hl]. rewrite Ascii.eqb_sym, (digit_not a x Ha Hx). cbn. now apply IH.
Qed.

Lemma memb_app x a b : memb x (a ++ b) = memb x a || memb x b.
Proof.
  induction a as [|y a IH]; cbn [app memb]; [reflexivity|]. rewrite IH. now rewrite orb_assoc.
Qed.

Lemma memb_rev x l : memb x (rev l) = memb x l.
Proof.
  induction l as [|y l IH]; cbn [rev memb]; [reflexivity|].
  rewrite memb_app, IH. cbn [memb]. rewrite orb_false_r. apply orb_comm.
Qed.

Lemma split_on_nosep sep w cur : memb sep w = false -> split_on sep w cur = [rev cur ++ w].
Proof.
  revert cur. induction w as [|a w IH]; intros cur H; cbn [split_on].
  - now rewrite app_nil_r.
  - cbn [memb] in H. apply orb_false_iff in H as [Ha Hw].
    rewrite Ascii.eqb_sym, Ha. rewrite IH by exact Hw. cbn [rev]. now rewrite <- app_assoc.
Qed.

Lemma split_on_sep sep w rest cur : memb sep w = false ->
  split_on sep (w ++ sep :: rest) cur = (rev cur ++ w) :: split_on sep rest [].
Proof.
  revert cur. induction w as [|a w IH]; intros cur H; cbn [split_on app].
  - rewrite Ascii.eqb_refl. now rewrite app_nil_r.
  - cbn [memb] in H. apply orb_false_iff in H as [Ha Hw].
    rewrite Ascii.eqb_sym, Ha. rewrite IH by exact Hw. cbn [rev]. now rewrite <- app_assoc.
Qed.

Lemma line_body_app body : memb CR body = false -> memb LF body = false ->
  line_body (body ++ CRLF) = Some body.
Proof.
  intros Hc Hl. unfold line_body, CRLF. rewrite rev_app_distr. cbn [rev app].
  rewrite !Ascii.eqb_refl, !memb_rev, Hc, Hl, rev_involutive. reflexivity.
Qed.

Theorem attach_line_parses : forall sid cid, parse_cmd (attach_line sid cid) = CAttach sid cid.
Proof.
  intros sid cid. unfold parse_cmd, attach_line.
  replace (str "ATTACHSTREAM " ++ dec sid ++ [SP] ++ dec cid ++ CRLF)
    with ((str "ATTACHSTREAM" ++ SP :: dec sid ++ SP :: dec cid) ++ CRLF).
  2:{ change (str "ATTACHSTREAM ") with (str "ATTACHSTREAM" ++ [SP]). rewrite <- !app_assoc. cbn [app].
      rewrite <- app_assoc. reflexivity. }
  assert (Dsp : forall n, memb SP (dec n) = false) by (intros; apply memb_digits; [reflexivity | apply dec_digits]).
  assert (Dcr : forall n, memb CR (dec n) = false) by (intros; apply memb_digits; [reflexivity | apply dec_digits]).
  assert (Dlf : forall n, memb LF (dec n) = false) by (intros; apply memb_digits; [reflexivity | apply dec_digits]).
  rewrite line_body_app.
  2:{ rewrite memb_app. cbn [memb]. rewrite memb_app. cbn [memb]. rewrite !Dcr. reflexivity. }
  2:{ rewrite memb_app. cbn [memb]. rewrite memb_app. cbn [memb]. rewrite !Dlf. reflexivity. }
  rewrite split_on_sep by reflexivity.
  rewrite split_on_sep by apply Dsp.
  rewrite split_on_nosep by apply Dsp.
  cbn [rev app]. change (beqb (str "ATTACHSTREAM") (str "ATTACHSTREAM")) with true. cbn iota.
  rewrite !parse_dec_dec. reflexivity.
Qed.

(* ------------------------------------------------------------------ small list facts *)
Lemma nth_error_set_nth_eq {A} (l : list A) n x : (n < List.length l)%nat -> nth_error (set_nth n x l) n = Some x.
Proof.
  revert n. induction l as [|y l IH]; intros [|n] H; cbn in *; try lia; [reflexivity|]. apply IH. lia.
Qed.
Lemma nth_error_set_nth_neq {A} (l : list A) n m x : n <> m -> nth_error (set_nth n x l) m = nth_error l m.
Proof.
  revert n m. induction l as [|y l IH]; intros [|n] [|m] H; cbn; try reflexivity; try congruence.
  apply IH. congruence.
Qed.
Lemma set_nth_length {A} (l : list A) n x : List.length (set_nth n x l) = List.length l.
Proof. revert n. induction l as [|y l IH]; intros [|n]; cbn; try reflexivity. now rewrite IH. Qed.

Lemma lookup_app {A} k (l1 l2 : list (N * A)) :
  lookup k (l1 ++ l2) = match lookup k l1 with Some v => Some v | None => lookup k l2 end.
Proof.
  unfold lookup. induction l1 as [|p l1 IH]; cbn [app find]; [reflexivity|].
  destruct (fst p =? k); [reflexivity | exact IH].
Qed.
Lemma lookup_remove_same {A} k (l : list (N * A)) : lookup k (remove_key k l) = None.
Proof.
  unfold lookup, remove_key. induction l as [|p l IH]; cbn [filter find]; [reflexivity|].
  destruct (fst p =? k) eqn:E; cbn [negb]; [exact IH|]. cbn [find]. rewrite E. exact IH.
Qed.
Lemma lookup_remove_other {A} k k' (l : list (N * A)) : k <> k' -> lookup k' (remove_key k l) = lookup k' l.
Proof.
  intros Hne. unfold lookup, remove_key. induction l as [|p l IH]; cbn [filter find]; [reflexivity|].
  destruct (fst p =? k) eqn:E; cbn [negb].
  - apply N.eqb_eq in E. destruct (fst p =? k') eqn:E'; [apply N.eqb_eq in E'; congruence | exact IH].
  - cbn [find]. destruct (fst p =? k'); [reflexivity | exact IH].
Qed.

(* ------------------------------------------------------------------ Tor's view of a model state *)
Definition inc_of (c : cobj) : inc :=
  {| i_cid := c_id c; i_st := c_st c; i_built := match c_fired c with Some FOk => true | _ => false end |}.

(* every BUILT circuit object is the one TorState.circuits lists under its id *)
Definition built_known (s : st) : Prop :=
  forall oid c, nth_error (objs s) oid = Some c -> c_st c = CBuilt -> lookup (c_id c) (circs s) = Some oid.
Definition circs_ok (s : st) : Prop :=
  forall cid oid, lookup cid (circs s) = Some oid -> exists c, nth_error (objs s) oid = Some c /\ c_id c = cid.

(* what issue_stream_attach does, in the words of Spec.decide *)
Definition realise (s : st) (sid : N) (d : decision) : st * list ev :=
  match d with
  | DAttach c => send s (attach_line sid c) KAttachCmd
  | DTorChooses => send s (attach_line sid 0) KAttachCmd
  | DNothing => (s, [])
  | DInvalid => (s, [EReported])
  end.

Definition decide_now (s : st) (a : akind) : decision :=
  match a with
  | AKNone => DTorChooses
  | AKDoNot => DNothing
  | AKNotCirc _ | AKRaise | AKForeign => DInvalid
  | AKCirc oid =>
      match nth_error (objs s) oid with
      | Some c => if cstatus_eqb (c_st c) CBuilt then DAttach (c_id c) else DInvalid
      | None => DTorChooses
      end
  end.

Lemma cstatus_eqb_eq a b : cstatus_eqb a b = true <-> a = b.
Proof. destruct a, b; cbn; split; intros H; try discriminate; reflexivity. Qed.

Lemma issue_realises : forall s sid a,
  built_known s -> lookup 9000 (circs s) = None -> issue s sid a = realise s sid (decide_now s a).
Proof.
  intros s sid a BK HF. destruct a as [| | | | |oid]; cbn [issue decide_now realise]; try reflexivity.
  - rewrite HF. reflexivity.
  - destruct (nth_error (objs s) oid) as [c|] eqn:E; [|reflexivity].
    destruct (cstatus_eqb (c_st c) CBuilt) eqn:B.
    + apply cstatus_eqb_eq in B. rewrite (BK oid c E B). reflexivity.
    + destruct (lookup (c_id c) (circs s)); reflexivity.
Qed.

(* decide_now is Spec.decide on the incarnation list the objects stand for *)
Lemma decide_now_spec : forall s tt a, incs tt = map inc_of (objs s) -> decide tt a = decide_now s a.
Proof.
  intros s tt a H. destruct a; try reflexivity. cbn [decide decide_now]. rewrite H, nth_error_map.
  destruct (nth_error (objs s) oid); reflexivity.
Qed.

(* never more than one command, and only an ATTACHSTREAM for this stream *)
Lemma issue_shape : forall s sid a,
  issue s sid a = (s, []) \/ issue s sid a = (s, [EReported]) \/
  exists c, issue s sid a = send s (attach_line sid c) KAttachCmd.
Proof.
  intros s sid a. destruct a as [| | | | |oid]; cbn [issue]; auto.
  - right; right. eauto.
  - destruct (lookup 9000 (circs s)); [right; right; eauto | auto].
  - destruct (nth_error (objs s) oid) as [c|]; [|right; right; eauto].
    destruct (lookup (c_id c) (circs s)); [|auto].
    destruct (cstatus_eqb (c_st c) CBuilt); [right; right; eauto | auto].
Qed.

(* ------------------------------------------------------------------ source address matching *)
Lemma key_eqb_eq a b : key_eqb a b = true <-> a = b.
Proof.
  destruct a as [a1 a2], b as [b1 b2]. unfold key_eqb. cbn [fst snd]. rewrite andb_true_iff, !N.eqb_eq.
  split; [intros [-> ->]; reflexivity | intros H; injection H as -> ->; auto].
Qed.

Lemma table_get_del_same k l : table_get k (table_del k l) = None.
Proof.
  unfold table_get, table_del. induction l as [|p l IH]; cbn [filter find]; [reflexivity|].
  destruct (key_eqb (fst p) k) eqn:E; cbn [negb]; [exact IH|]. cbn [find]. rewrite E. exact IH.
Qed.
Lemma table_get_del_other k k' l : k <> k' -> table_get k' (table_del k l) = table_get k' l.
Proof.
  intros Hne. unfold table_get, table_del. induction l as [|p l IH]; cbn [filter find]; [reflexivity|].
  destruct (key_eqb (fst p) k) eqn:E; cbn [negb].
  - apply key_eqb_eq in E. destruct (key_eqb (fst p) k') eqn:E'; [apply key_eqb_eq in E'; congruence | exact IH].
  - cbn [find]. destruct (key_eqb (fst p) k'); [reflexivity | exact IH].
Qed.
Lemma table_get_set_same k v l : table_get k (table_set k v l) = Some v.
Proof.
  unfold table_set. destruct (table_get k l) as [v0|] eqn:G.
  - unfold table_get in *. induction l as [|q l IH]; cbn [find map] in *; [discriminate|].
    destruct (key_eqb (fst q) k) eqn:E.
    + cbn [fst]. replace (key_eqb k k) with true by (symmetry; now apply key_eqb_eq). reflexivity.
    + rewrite E. apply IH. exact G.
  - unfold table_get in *. induction l as [|q l IH]; cbn [find app] in *.
    + cbn [fst]. replace (key_eqb k k) with true by (symmetry; now apply key_eqb_eq). reflexivity.
    + destruct (key_eqb (fst q) k) eqn:E; [discriminate|]. apply IH. exact G.
Qed.
Lemma table_get_set_other k k' v l : k <> k' -> table_get k' (table_set k v l) = table_get k' l.
Proof.
  intros Hne. unfold table_set. destruct (table_get k l) as [v0|] eqn:G.
  - clear G. unfold table_get. induction l as [|q l IH]; cbn [find map]; [reflexivity|].
    destruct (key_eqb (fst q) k) eqn:E.
    + apply key_eqb_eq in E. cbn [fst].
      destruct (key_eqb k k') eqn:E1; [apply key_eqb_eq in E1; congruence|].
      rewrite E. destruct (key_eqb k k') eqn:E2; [discriminate|]. exact IH.
    + destruct (key_eqb (fst q) k'); [reflexivity | exact IH].
  - clear G. unfold table_get. induction l as [|q l IH]; cbn [find app].
    + cbn [fst]. destruct (key_eqb k k') eqn:E1; [apply key_eqb_eq in E1; congruence | reflexivity].
    + destruct (key_eqb (fst q) k'); [reflexivity | exact IH].
Qed.

(* a stream whose source is not a registered local address gets the no-preference answer and
   leaves every registration in place *)
Lemma circ_attach_unrelated : forall s sid src,
  (forall ip port, src = SrcIp ip port -> table_get (ip, port) (table s) = None) ->
  circ_attach s sid src = send s (attach_line sid 0) KAttachCmd.
Proof.
  intros s sid src H. destruct src as [|p|ip port]; cbn [circ_attach issue]; try reflexivity.
  rewrite (H ip port eq_refl). reflexivity.
Qed.

Lemma set_stage_keeps s k g :
  objs (set_stage s k g) = objs s /\ circs (set_stage s k g) = circs s /\ table (set_stage s k g) = table s.
Proof. unfold set_stage. destruct (find_conn k (conns s)); cbn; auto. Qed.

Lemma att_fire_keeps s k r :
  objs (fst (att_fire s k r)) = objs s /\ circs (fst (att_fire s k r)) = circs s /\ table (fst (att_fire s k r)) = table s.
Proof.
  unfold att_fire. destruct (find_conn k (conns s)) as [cn|]; [|cbn; auto].
  destruct (k_stage cn); cbn [fst conn_finish]; try apply set_stage_keeps; cbn; auto.
Qed.

(* a stream from a registered address whose circuit is BUILT: the registration is consumed, the
   connection is told, and the stream goes to exactly that circuit *)
Lemma circ_attach_match : forall s sid ip port oid k c,
  built_known s ->
  table_get (ip, port) (table s) = Some (oid, k) -> nth_error (objs s) oid = Some c -> c_st c = CBuilt ->
  circ_attach s sid (SrcIp ip port) =
    then_ (att_fire (with_table s (table_del (ip, port) (table s))) k ROk)
          (fun s2 => send s2 (attach_line sid (c_id c)) KAttachCmd).
Proof.
  intros s sid ip port oid k c BK G E B.
  unfold circ_attach. rewrite G. cbn [objs with_table]. rewrite E, B. cbn [cstatus_eqb c_terminal].
  unfold then_.
  pose proof (att_fire_keeps (with_table s (table_del (ip, port) (table s))) k ROk) as (Ho & Hc & _).
  destruct (att_fire (with_table s (table_del (ip, port) (table s))) k ROk) as [s2 e2].
  cbn [fst objs circs with_table] in Ho, Hc.
  cbn [issue]. rewrite Ho, E, Hc, (BK oid c E B), B. reflexivity.
Qed.

(* whatever happens, the only circuit a stream can be sent to by the circuit attacher is the one
   registered under the stream's own source address; and that registration is consumed *)
Lemma circ_attach_only_registered : forall s sid src,
  circ_attach s sid src = send s (attach_line sid 0) KAttachCmd
  \/ exists ip port oid k,
       src = SrcIp ip port /\ table_get (ip, port) (table s) = Some (oid, k) /\
       let s1 := with_table s (table_del (ip, port) (table s)) in
       (circ_attach s sid src = (with_oos s1, [])
        \/ exists r a, (a = AKDoNot \/ a = AKCirc oid) /\
                       circ_attach s sid src = then_ (att_fire s1 k r) (fun s2 => issue s2 sid a)).
Proof.
  intros s sid src. destruct src as [|p|ip port]; cbn [circ_attach issue]; auto.
  destruct (table_get (ip, port) (table s)) as [[oid k]|] eqn:G; [|auto].
  right. exists ip, port, oid, k. split; [reflexivity|]. split; [exact G|]. cbn zeta.
  cbn [objs with_table].
  destruct (nth_error (objs s) oid) as [c|]; [|auto].
  destruct (if cstatus_eqb (c_st c) CBuilt then Some FOk else c_fired c) as [[| |]|]; auto.
  - destruct (c_terminal (c_st c)); right; eauto.
  - right. eauto.
  - right. eauto.
Qed.

(* ------------------------------------------------------------------ never two decisions for one stream *)
Definition is_attach_for (sid : N) (l : bytes) : bool :=
  match parse_cmd l with CAttach s _ => s =? sid | _ => false end.
Definition cnt (sid : N) (ls : list bytes) : nat := List.length (filter (is_attach_for sid) ls).
Definition qlines (s : st) : list bytes := map fst (queue s).
Definition unfired_in (sid : N) (l : list pend) : nat :=
  List.length (filter (fun p => (p_sid p =? sid) && negb (p_fired p)) l).
Definition unfired (sid : N) (s : st) : nat := unfired_in sid (pends s).

(* after the step: ATTACHSTREAM lines for [sid] written or queued, plus answers still to come,
   exceed what was queued / to come before by at most n *)
Definition grows (sid : N) (n : nat) (s : st) (r : st * list ev) : Prop :=
  (cnt sid (writes (snd r) ++ qlines (fst r)) + unfired sid (fst r) <= cnt sid (qlines s) + unfired sid s + n)%nat.

Lemma cnt_app sid a b : cnt sid (a ++ b) = (cnt sid a + cnt sid b)%nat.
Proof. unfold cnt. now rewrite filter_app, app_length. Qed.

Lemma writes_app a b : writes (a ++ b) = writes a ++ writes b.
Proof. unfold writes. now rewrite map_app, concat_app. Qed.

Definition quiet (s : st) (r : st * list ev) : Prop :=
  queue (fst r) = queue s /\ pends (fst r) = pends s /\ writes (snd r) = [].

Lemma quiet_grows sid s r : quiet s r -> grows sid 0 s r.
Proof.
  intros (Hq & Hp & Hw). unfold grows, qlines, unfired. rewrite Hq, Hp, Hw. cbn [app]. lia.
Qed.

Lemma grows_weaken sid n m s r : (n <= m)%nat -> grows sid n s r -> grows sid m s r.
Proof. unfold grows. lia. Qed.

Lemma then_grows sid n1 n2 s r1 f :
  grows sid n1 s r1 -> grows sid n2 (fst r1) (f (fst r1)) -> grows sid (n1 + n2) s (then_ r1 f).
Proof.
  unfold grows, then_. destruct r1 as [s1 e1]. cbn [fst snd]. destruct (f s1) as [s2 e2]. cbn [fst snd].
  rewrite writes_app, <- app_assoc, !cnt_app. lia.
Qed.

Lemma then_quiet s r1 f : quiet s r1 -> quiet (fst r1) (f (fst r1)) -> quiet s (then_ r1 f).
Proof.
  unfold quiet, then_. destruct r1 as [s1 e1]. cbn [fst snd]. destruct (f s1) as [s2 e2]. cbn [fst snd].
  intros (A & B & C) (D & E & F). rewrite writes_app, C, F, D, E. auto.
Qed.

Lemma is_attach_attach_line sid sid' c : is_attach_for sid (attach_line sid' c) = (sid' =? sid).
Proof. unfold is_attach_for. now rewrite attach_line_parses. Qed.

Lemma is_attach_leave_line sid v : (v = 0 \/ v = 1) -> is_attach_for sid (leave_line v) = false.
Proof.
  unfold is_attach_for. intros [->| ->]; [rewrite (proj1 leave_line_parses) | rewrite (proj2 leave_line_parses)]; reflexivity.
Qed.

Lemma cnt_single sid line : cnt sid [line] = if is_attach_for sid line then 1%nat else 0%nat.
Proof. unfold cnt. cbn [filter]. destruct (is_attach_for sid line); reflexivity. Qed.

Lemma send_grows sid s line c :
  grows sid (if is_attach_for sid line then 1 else 0) s (send s line c).
Proof.
  unfold grows, send, qlines, unfired. destruct (busy s); cbn [fst snd queue pends with_chan].
  - change (writes []) with (@nil bytes). cbn [app]. rewrite map_app, cnt_app. cbn [map fst].
    rewrite cnt_single. lia.
  - change (writes [EWrote line]) with [line]. change ([line] ++ map fst (queue s)) with ([line] ++ map fst (queue s)).
    rewrite cnt_app, cnt_single. lia.
Qed.

Lemma issue_grows sid s sid' a : grows sid (if sid' =? sid then 1 else 0) s (issue s sid' a).
Proof.
  destruct (issue_shape s sid' a) as [H|[H|[c H]]]; rewrite H.
  - eapply grows_weaken; [|apply quiet_grows; repeat split; reflexivity]. lia.
  - eapply grows_weaken; [|apply quiet_grows; repeat split; reflexivity]. lia.
  - pose proof (send_grows sid s (attach_line sid' c) KAttachCmd) as G.
    rewrite is_attach_attach_line in G. exact G.
Qed.

Lemma unfired_in_app sid a b : unfired_in sid (a ++ b) = (unfired_in sid a + unfired_in sid b)%nat.
Proof. unfold unfired_in. now rewrite filter_app, app_length. Qed.

Lemma take_answer_grows sid s sid' a : grows sid (if sid' =? sid then 1 else 0) s (take_answer s sid' a).
Proof.
  unfold take_answer. destruct (a_mode a); try apply issue_grows.
  unfold grows, qlines, unfired. cbn [fst snd writes map concat app queue pends with_pends].
  rewrite unfired_in_app. unfold unfired_in at 2. cbn [filter p_sid p_fired negb].
  change (writes []) with (@nil bytes). cbn [app].
  rewrite andb_true_r. destruct (sid' =? sid); cbn [List.length]; lia.
Qed.

Lemma set_stage_quiet s k g es : writes es = [] -> quiet s (set_stage s k g, es).
Proof.
  intros H. unfold quiet, set_stage. destruct (find_conn k (conns s)); cbn; auto.
Qed.

Lemma conn_finish_quiet s k r : quiet s (conn_finish s k r).
Proof. apply set_stage_quiet. reflexivity. Qed.
Lemma conn_start_quiet s k : quiet s (conn_start s k).
Proof. apply set_stage_quiet. reflexivity. Qed.

Lemma conn_when_built_quiet s k oid : quiet s (conn_when_built s k oid).
Proof.
  unfold conn_when_built. destruct (nth_error (objs s) oid) as [c|]; [|repeat split; reflexivity].
  destruct (cstatus_eqb (c_st c) CBuilt); [apply conn_start_quiet|].
  destruct (c_fired c) as [[| |]|]; try apply conn_start_quiet; try apply conn_finish_quiet.
  unfold quiet, set_stage. cbn [fst snd conns with_objs].
  destruct (find_conn k (conns s)); cbn; auto.
Qed.

Lemma att_fire_quiet s k r : quiet s (att_fire s k r).
Proof.
  unfold att_fire. destruct (find_conn k (conns s)) as [cn|]; [|repeat split; reflexivity].
  destruct (k_stage cn); try apply conn_finish_quiet; repeat split; reflexivity.
Qed.

Lemma run_waiters_quiet ks : forall s f, quiet s (run_waiters s ks f).
Proof.
  induction ks as [|k ks IH]; intros s f; cbn [run_waiters]; [repeat split; reflexivity|].
  apply then_quiet; [destruct f; try apply conn_start_quiet; apply conn_finish_quiet | apply IH].
Qed.

Lemma quiet_trans s s1 r : queue s1 = queue s -> pends s1 = pends s -> quiet s1 r -> quiet s r.
Proof. unfold quiet. intros A B (C & D & E). rewrite C, D. auto. Qed.

Lemma fire_built_quiet s oid f : quiet s (fire_built s oid f).
Proof.
  unfold fire_built. destruct (nth_error (objs s) oid) as [c|]; [|repeat split; reflexivity].
  destruct (c_fired c); [repeat split; reflexivity|].
  eapply quiet_trans; [| |apply run_waiters_quiet]; reflexivity.
Qed.

Lemma op_circ_quiet s cid stt : quiet s (op_circ s cid stt).
Proof.
  unfold op_circ.
  set (p := match lookup cid (circs s) with Some oid => (oid, s) | None => _ end).
  assert (Hp : queue (snd p) = queue s /\ pends (snd p) = pends s).
  { subst p. destruct (lookup cid (circs s)); cbn; auto. }
  destruct p as [oid s1]. cbn [snd] in Hp. destruct Hp as [Hq Hp].
  set (s2 := match nth_error (objs s1) oid with Some c => _ | None => s1 end).
  assert (H2 : queue s2 = queue s /\ pends s2 = pends s).
  { subst s2. destruct (nth_error (objs s1) oid); cbn; auto. }
  destruct H2 as [Hq2 Hp2].
  destruct stt; try (repeat split; cbn; auto; fail).
  - eapply quiet_trans; [exact Hq2 | exact Hp2 | apply fire_built_quiet].
  - eapply quiet_trans; [exact Hq2 | exact Hp2 |].
    apply then_quiet; [apply fire_built_quiet | repeat split; reflexivity].
  - eapply quiet_trans; [exact Hq2 | exact Hp2 |].
    apply then_quiet; [apply fire_built_quiet | repeat split; reflexivity].
Qed.

Lemma quiet_grows_n sid n s r : quiet s r -> grows sid n s r.
Proof. intros H. eapply grows_weaken; [|apply quiet_grows; exact H]. lia. Qed.

Lemma grows_trans_state sid n s s1 r :
  queue s1 = queue s -> pends s1 = pends s -> grows sid n s1 r -> grows sid n s r.
Proof. unfold grows, qlines, unfired. intros A B. rewrite A, B. auto. Qed.

Lemma prio_consult_no_writes s sid answers h : writes (fst (prio_consult s sid answers h)) = [].
Proof.
  induction h as [|e h IH]; cbn [prio_consult]; [reflexivity|].
  destruct (h_att e) as [j|]; [|exact IH].
  destruct (returns_none s (ans answers j)); [|reflexivity].
  destruct (prio_consult s sid answers h) as [es w]. cbn [fst] in *. exact IH.
Qed.

Lemma circ_attach_grows sid s sid' src : grows sid (if sid' =? sid then 1 else 0) s (circ_attach s sid' src).
Proof.
  destruct (circ_attach_only_registered s sid' src) as [H|(ip & port & oid & k & _ & _ & H)].
  - rewrite H. pose proof (send_grows sid s (attach_line sid' 0) KAttachCmd) as G.
    rewrite is_attach_attach_line in G. exact G.
  - cbn zeta in H. destruct H as [H|(r & a & _ & H)]; rewrite H.
    + apply quiet_grows_n. repeat split; reflexivity.
    + eapply grows_trans_state with (s1 := with_table s (table_del (ip, port) (table s))); [reflexivity | reflexivity |].
      change (if sid' =? sid then 1%nat else 0%nat) with (0 + (if (sid' =? sid)%N then 1 else 0))%nat.
      apply then_grows; [apply quiet_grows, att_fire_quiet | apply issue_grows].
Qed.

Lemma maybe_attach_grows sid s sid' host src answers :
  grows sid (if sid' =? sid then 1 else 0) s (maybe_attach s sid' host src answers).
Proof.
  unfold maybe_attach. destruct (slot s) as [v|]; [|apply quiet_grows_n; repeat split; reflexivity].
  destruct (ends_with (str ".exit") (lower host)); [apply quiet_grows_n; repeat split; reflexivity|].
  destruct v as [j| |].
  - change (if sid' =? sid then 1%nat else 0%nat) with (0 + (if (sid' =? sid)%N then 1 else 0))%nat.
    apply then_grows; [apply quiet_grows; repeat split; reflexivity | apply take_answer_grows].
  - pose proof (prio_consult_no_writes s sid' answers (sort_hents (heap s))) as W.
    destruct (prio_consult s sid' answers (sort_hents (heap s))) as [es w]. cbn [fst] in W.
    change (if sid' =? sid then 1%nat else 0%nat) with (0 + (if (sid' =? sid)%N then 1 else 0))%nat.
    apply then_grows; [apply quiet_grows; repeat split; exact W|].
    cbn [fst]. destruct w; [apply take_answer_grows | apply issue_grows].
  - apply circ_attach_grows.
Qed.

Definition first_sight_m (s : st) (o : op) (sid : N) : bool :=
  match o with
  | OStream sid' stt _ _ _ _ _ => (sid' =? sid) && negb (memN sid' (strs s)) && negb (s_terminal stt)
  | _ => false
  end.

Lemma op_stream_grows sid s sid' stt host src answers :
  grows sid (if (sid' =? sid) && negb (memN sid' (strs s)) && negb (s_terminal stt) then 1 else 0) s
        (op_stream s sid' stt host src answers).
Proof.
  unfold op_stream. destruct (memN sid' (strs s)).
  - apply quiet_grows_n. destruct (s_terminal stt); repeat split; reflexivity.
  - destruct (s_terminal stt); [apply quiet_grows_n; repeat split; reflexivity|].
    rewrite !andb_true_r.
    eapply grows_trans_state with (s1 := with_strs s (strs s ++ [sid'])); [reflexivity | reflexivity |].
    apply maybe_attach_grows.
Qed.

Lemma unfired_in_fire sid l n p :
  nth_error l n = Some p -> p_fired p = false ->
  (unfired_in sid (set_nth n {| p_sid := p_sid p; p_kind := p_kind p; p_fired := true |} l)
   + (if (p_sid p =? sid)%N then 1 else 0) = unfired_in sid l)%nat.
Proof.
  revert n. induction l as [|q l IH]; intros [|n] H Hf; cbn in H; try discriminate.
  - injection H as ->. cbn [set_nth]. unfold unfired_in. cbn [filter p_sid p_fired negb]. rewrite Hf.
    rewrite andb_false_r. cbn [negb]. rewrite andb_true_r. destruct (p_sid p =? sid); cbn [List.length]; lia.
  - cbn [set_nth]. unfold unfired_in in *. cbn [filter].
    specialize (IH n H Hf). destruct ((p_sid q =? sid) && negb (p_fired q)); cbn [List.length]; lia.
Qed.

Lemma op_fire_grows sid s n : grows sid 0 s (op_fire s n).
Proof.
  unfold op_fire. destruct (nth_error (pends s) n) as [p|] eqn:E; [|apply quiet_grows; repeat split; reflexivity].
  destruct (p_fired p) eqn:F; [apply quiet_grows; repeat split; reflexivity|].
  pose proof (issue_grows sid (with_pends s (set_nth n {| p_sid := p_sid p; p_kind := p_kind p; p_fired := true |} (pends s)))
                          (p_sid p) (p_kind p)) as G.
  pose proof (unfired_in_fire sid (pends s) n p E F) as U.
  unfold grows, qlines, unfired in *. cbn [queue pends with_pends] in G.
  destruct (p_sid p =? sid); lia.
Qed.

Lemma op_reply_grows sid s ok : grows sid 0 s (op_reply s ok).
Proof.
  unfold op_reply. destruct (busy s) as [c|]; [|apply quiet_grows; repeat split; reflexivity].
  change 0%nat with (0 + 0)%nat. apply then_grows.
  - apply quiet_grows. destruct c as [| |k].
    + repeat split; reflexivity.
    + destruct ok; repeat split; reflexivity.
    + destruct ok; [|apply conn_finish_quiet].
      destruct (find_conn k (conns s)); [apply conn_when_built_quiet | repeat split; reflexivity].
  - set (s1 := fst _). unfold grows, qlines, unfired.
    destruct (queue s1) as [|[line c'] q] eqn:Q; cbn [fst snd queue pends with_chan].
    + change (writes []) with (@nil bytes). cbn [app map]. lia.
    + change (writes [EWrote line]) with [line]. cbn [map fst app]. lia.
Qed.

Lemma flush_grows sid : forall fuel s, grows sid 0 s (flush fuel s).
Proof.
  induction fuel as [|f IH]; intros s; cbn [flush]; destruct (busy s).
  - apply quiet_grows; repeat split; reflexivity.
  - apply quiet_grows; repeat split; reflexivity.
  - change 0%nat with (0 + 0)%nat. apply then_grows; [apply op_reply_grows | apply IH].
  - apply quiet_grows; repeat split; reflexivity.
Qed.

Lemma send_leave_grows sid s s1 v c :
  (v = 0 \/ v = 1) -> queue s1 = queue s -> pends s1 = pends s -> grows sid 0 s (send s1 (leave_line v) c).
Proof.
  intros Hv A B. eapply grows_trans_state; [exact A | exact B |].
  pose proof (send_grows sid s1 (leave_line v) c) as G. rewrite is_attach_leave_line in G by exact Hv. exact G.
Qed.

Lemma op_setatt_grows sid s a : grows sid 0 s (op_setatt s a).
Proof.
  unfold op_setatt. destruct a as [x|].
  - destruct (slot s) as [v|].
    + destruct (satt_eqb v (att_satt x)); apply quiet_grows; repeat split; reflexivity.
    + apply send_leave_grows; auto.
  - apply send_leave_grows; auto.
Qed.

Lemma op_connect_grows sid s k oid : grows sid 0 s (op_connect s k oid).
Proof.
  unfold op_connect. destruct (find_conn k (conns s)); [apply quiet_grows; repeat split; reflexivity|].
  destruct (negb (oid <? List.length (objs s))%nat); [apply quiet_grows; repeat split; reflexivity|].
  cbn [ca_made with_conns].
  destruct (ca_made s).
  - eapply grows_trans_state; [| |apply quiet_grows, conn_when_built_quiet]; reflexivity.
  - cbn [slot with_ca with_conns]. destruct (slot s).
    + eapply grows_trans_state; [| |apply quiet_grows, conn_finish_quiet]; reflexivity.
    + apply send_leave_grows; auto.
Qed.

Lemma op_local_quiet s k ip port : quiet s (op_local s k ip port).
Proof.
  unfold op_local. destruct (find_conn k (conns s)) as [c|]; [|repeat split; reflexivity].
  destruct (k_stage c); try (repeat split; reflexivity).
  eapply quiet_trans; [| |apply set_stage_quiet]; reflexivity.
Qed.

Lemma op_socks_quiet s k ok : quiet s (op_socks s k ok).
Proof.
  unfold op_socks. destruct (find_conn k (conns s)) as [c|]; [|repeat split; reflexivity].
  destruct (k_stage c); try (repeat split; reflexivity).
  destruct ok; [|apply conn_finish_quiet].
  destruct (k_att c); [apply conn_finish_quiet | apply set_stage_quiet; reflexivity].
Qed.

Theorem step_grows : forall sid s o, grows sid (if first_sight_m s o sid then 1 else 0) s (step s o).
Proof.
  intros sid s o. destruct o; cbn [step first_sight_m].
  - apply quiet_grows, op_circ_quiet.
  - apply op_stream_grows.
  - apply op_fire_grows.
  - apply op_setatt_grows.
  - apply quiet_grows. repeat split; reflexivity.
  - apply quiet_grows. unfold op_priorm. destruct (assoc_get j (entry s)); repeat split; reflexivity.
  - apply op_connect_grows.
  - apply quiet_grows, op_local_quiet.
  - apply quiet_grows, op_socks_quiet.
  - apply op_reply_grows.
  - apply flush_grows.
Qed.

(* how often [sid] is seen for the first time along a run *)
Fixpoint firsts (sid : N) (s : st) (ops : list op) : nat :=
  match ops with
  | [] => 0
  | o :: r => ((if first_sight_m s o sid then 1 else 0) + firsts sid (fst (step s o)) r)%nat
  end.

Definition all_writes (tr : list (list ev)) : list bytes := List.concat (map writes tr).

Lemma one_decision_from : forall sid ops s,
  (cnt sid (all_writes (fst (run_from s ops)) ++ qlines (snd (run_from s ops))) + unfired sid (snd (run_from s ops))
   <= cnt sid (qlines s) + unfired sid s + firsts sid s ops)%nat.
Proof.
  intros sid. induction ops as [|o r IH]; intros s; cbn [run_from firsts].
  - cbn [fst snd all_writes map List.concat app]. lia.
  - pose proof (step_grows sid s o) as G. unfold grows in G.
    destruct (step s o) as [s1 es]. cbn [fst snd] in *.
    specialize (IH s1). destruct (run_from s1 r) as [tr s2]. cbn [fst snd] in *.
    unfold all_writes in *. cbn [map List.concat]. rewrite <- app_assoc, cnt_app. rewrite cnt_app in G. lia.
Qed.

Theorem one_decision_per_stream : forall sid ops,
  (cnt sid (all_writes (run ops) ++ qlines (snd (run_from st0 ops))) <= firsts sid st0 ops)%nat.
Proof.
  intros sid ops. pose proof (one_decision_from sid ops st0) as H.
  unfold run. change (cnt sid (qlines st0)) with 0%nat in H. change (unfired sid st0) with 0%nat in H. lia.
Qed.

(* ------------------------------------------------------------------ invariant of every reachable state:
   a BUILT circuit object is listed in TorState.circuits under its id (so "state BUILT" implies "known") *)
Definition ckey (c : cobj) : N * cstatus := (c_id c, c_st c).
Definition keeps (s : st) (r : st * list ev) : Prop :=
  circs (fst r) = circs s /\ map ckey (objs (fst r)) = map ckey (objs s).

Lemma keeps_refl s es : keeps s (s, es).
Proof. split; reflexivity. Qed.

Lemma then_keeps s r1 f : keeps s r1 -> keeps (fst r1) (f (fst r1)) -> keeps s (then_ r1 f).
Proof.
  unfold keeps, then_. destruct r1 as [s1 e1]. cbn [fst]. destruct (f s1) as [s2 e2]. cbn [fst].
  intros [A B] [C D]. split; congruence.
Qed.

Lemma keeps_trans s s1 r : circs s1 = circs s -> map ckey (objs s1) = map ckey (objs s) -> keeps s1 r -> keeps s r.
Proof. unfold keeps. intros A B [C D]. split; congruence. Qed.

Lemma map_set_nth_same {A B} (f : A -> B) l n x y :
  nth_error l n = Some x -> f y = f x -> map f (set_nth n y l) = map f l.
Proof.
  revert n. induction l as [|z l IH]; intros [|n] H E; cbn in *; try discriminate; try reflexivity.
  - injection H as ->. now rewrite E.
  - f_equal. eapply IH; eauto.
Qed.

Lemma send_keeps s line c : keeps s (send s line c).
Proof. unfold send. destruct (busy s); split; reflexivity. Qed.

Lemma set_stage_keeps' s k g es : keeps s (set_stage s k g, es).
Proof. unfold set_stage. destruct (find_conn k (conns s)); split; reflexivity. Qed.

Lemma conn_when_built_keeps s k oid : keeps s (conn_when_built s k oid).
Proof.
  unfold conn_when_built. destruct (nth_error (objs s) oid) as [c|] eqn:E; [|split; reflexivity].
  destruct (cstatus_eqb (c_st c) CBuilt); [apply set_stage_keeps'|].
  destruct (c_fired c) as [[| |]|]; try apply set_stage_keeps'.
  eapply keeps_trans; [| |apply set_stage_keeps']; cbn [circs objs with_objs]; [reflexivity|].
  eapply map_set_nth_same; [exact E | reflexivity].
Qed.

Lemma att_fire_keeps' s k r : keeps s (att_fire s k r).
Proof.
  unfold att_fire. destruct (find_conn k (conns s)) as [cn|]; [|split; reflexivity].
  destruct (k_stage cn); try apply set_stage_keeps'; split; reflexivity.
Qed.

Lemma issue_keeps s sid a : keeps s (issue s sid a).
Proof.
  destruct (issue_shape s sid a) as [H|[H|[c H]]]; rewrite H; try apply keeps_refl. apply send_keeps.
Qed.

Lemma take_answer_keeps s sid a : keeps s (take_answer s sid a).
Proof. unfold take_answer. destruct (a_mode a); try apply issue_keeps. split; reflexivity. Qed.

Lemma circ_attach_keeps s sid src : keeps s (circ_attach s sid src).
Proof.
  destruct (circ_attach_only_registered s sid src) as [H|(ip & port & oid & k & _ & _ & H)].
  - rewrite H. apply send_keeps.
  - cbn zeta in H. destruct H as [H|(r & a & _ & H)]; rewrite H; [split; reflexivity|].
    eapply keeps_trans with (s1 := with_table s (table_del (ip, port) (table s))); [reflexivity | reflexivity |].
    apply then_keeps; [apply att_fire_keeps' | apply issue_keeps].
Qed.

Lemma maybe_attach_keeps s sid host src answers : keeps s (maybe_attach s sid host src answers).
Proof.
  unfold maybe_attach. destruct (slot s) as [v|]; [|apply keeps_refl].
  destruct (ends_with (str ".exit") (lower host)); [apply keeps_refl|].
  destruct v as [j| |].
  - apply then_keeps; [apply keeps_refl | apply take_answer_keeps].
  - destruct (prio_consult s sid answers (sort_hents (heap s))) as [es w].
    apply then_keeps; [apply keeps_refl|]. cbn [fst]. destruct w; [apply take_answer_keeps | apply issue_keeps].
  - apply circ_attach_keeps.
Qed.

Lemma run_waiters_keeps ks : forall s f, keeps s (run_waiters s ks f).
Proof.
  induction ks as [|k ks IH]; intros s f; cbn [run_waiters]; [apply keeps_refl|].
  apply then_keeps; [destruct f; apply set_stage_keeps' | apply IH].
Qed.

Lemma fire_built_keeps s oid f : keeps s (fire_built s oid f).
Proof.
  unfold fire_built. destruct (nth_error (objs s) oid) as [c|] eqn:E; [|apply keeps_refl].
  destruct (c_fired c); [apply keeps_refl|].
  eapply keeps_trans; [| |apply run_waiters_keeps]; cbn [circs objs with_objs]; [reflexivity|].
  eapply map_set_nth_same; [exact E | reflexivity].
Qed.

Lemma op_reply_keeps s ok : keeps s (op_reply s ok).
Proof.
  unfold op_reply. destruct (busy s) as [c|]; [|apply keeps_refl].
  apply then_keeps.
  - destruct c as [| |k]; try apply keeps_refl.
    destruct ok; [|apply set_stage_keeps'].
    destruct (find_conn k (conns s)); [apply conn_when_built_keeps | apply keeps_refl].
  - set (s1 := fst _). destruct (queue s1) as [|[line c'] q]; split; reflexivity.
Qed.

Lemma flush_keeps : forall fuel s, keeps s (flush fuel s).
Proof.
  induction fuel as [|f IH]; intros s; cbn [flush]; destruct (busy s); try apply keeps_refl.
  - split; reflexivity.
  - apply then_keeps; [apply op_reply_keeps | apply IH].
Qed.

Lemma keeps_inv s r : keeps s r -> built_known s /\ circs_ok s -> built_known (fst r) /\ circs_ok (fst r).
Proof.
  intros [Hc Hm] [BK CO]. split.
  - intros oid c' E B. rewrite Hc.
    assert (E' : nth_error (map ckey (objs (fst r))) oid = Some (ckey c')) by (rewrite nth_error_map, E; reflexivity).
    rewrite Hm, nth_error_map in E'. destruct (nth_error (objs s) oid) as [c|] eqn:E0; [|discriminate].
    cbn in E'. injection E' as Hid Hst. rewrite <- Hid. apply BK; [exact E0 | congruence].
  - intros cid oid L. rewrite Hc in L. destruct (CO cid oid L) as (c & E & Hid).
    assert (E' : nth_error (map ckey (objs s)) oid = Some (ckey c)) by (rewrite nth_error_map, E; reflexivity).
    rewrite <- Hm, nth_error_map in E'. destruct (nth_error (objs (fst r)) oid) as [c'|]; [|discriminate].
    cbn in E'. injection E' as Hid' _. exists c'. split; [reflexivity | congruence].
Qed.

Definition cinv (s : st) : Prop := built_known s /\ circs_ok s.

(* the part of _circuit_update after the object has been found or made *)
Definition circ_rest (s1 : st) (cid : N) (oid : nat) (stt : cstatus) : st * list ev :=
  let s2 := match nth_error (objs s1) oid with
            | Some c => with_objs s1 (set_nth oid {| c_id := c_id c; c_st := stt; c_fired := c_fired c; c_wait := c_wait c |} (objs s1))
            | None => s1
            end in
  match stt with
  | CBuilt => fire_built s2 oid FOk
  | CClosed => then_ (fire_built s2 oid FClosedErr) (fun s3 => (with_circs s3 (remove_key cid (circs s3)), []))
  | CFailed => then_ (fire_built s2 oid FFailedErr) (fun s3 => (with_circs s3 (remove_key cid (circs s3)), []))
  | _ => (s2, [])
  end.

Lemma op_circ_unfold s cid stt :
  op_circ s cid stt =
  match lookup cid (circs s) with
  | Some oid => circ_rest s cid oid stt
  | None =>
      let oid := List.length (objs s) in
      circ_rest (with_circs (with_objs s (objs s ++ [{| c_id := cid; c_st := stt; c_fired := None; c_wait := [] |}]))
                            (circs s ++ [(cid, oid)])) cid oid stt
  end.
Proof. unfold op_circ, circ_rest. destruct (lookup cid (circs s)); reflexivity. Qed.

Lemma nth_error_set_nth_cases {A} (l : list A) n m x y :
  nth_error (set_nth n x l) m = Some y -> (n = m /\ y = x) \/ (n <> m /\ nth_error l m = Some y).
Proof.
  destruct (Nat.eq_dec n m) as [->|Hne].
  - intros H. left. split; [reflexivity|].
    destruct (Nat.lt_ge_cases m (List.length l)) as [Hlt|Hge].
    + rewrite nth_error_set_nth_eq in H by exact Hlt. congruence.
    + assert (Hn : nth_error (set_nth m x l) m = None) by (apply nth_error_None; rewrite set_nth_length; exact Hge).
      congruence.
  - intros H. right. split; [exact Hne|]. rewrite nth_error_set_nth_neq in H by exact Hne. exact H.
Qed.

Lemma remove_terminal_inv s3 cid oid c :
  cinv s3 -> lookup cid (circs s3) = Some oid -> nth_error (objs s3) oid = Some c -> c_st c <> CBuilt ->
  cinv (with_circs s3 (remove_key cid (circs s3))).
Proof.
  intros [BK CO] L E Hst. split.
  - intros oid' c' E' B. cbn [objs circs with_circs] in *.
    assert (Hne : cid <> c_id c').
    { intros Heq. pose proof (BK oid' c' E' B) as L'. rewrite <- Heq, L in L'. injection L' as <-.
      rewrite E in E'. injection E' as <-. contradiction. }
    rewrite lookup_remove_other by exact Hne. apply BK; assumption.
  - intros cid' oid' L'. cbn [objs circs with_circs] in *.
    destruct (N.eq_dec cid cid') as [->|Hne]; [rewrite lookup_remove_same in L'; discriminate|].
    rewrite lookup_remove_other in L' by exact Hne. apply CO. exact L'.
Qed.

Lemma circ_rest_inv s1 cid oid stt :
  cinv s1 -> lookup cid (circs s1) = Some oid -> cinv (fst (circ_rest s1 cid oid stt)).
Proof.
  intros [BK CO] L. destruct (CO cid oid L) as (c & E & Hid).
  unfold circ_rest. rewrite E.
  set (c2 := {| c_id := c_id c; c_st := stt; c_fired := c_fired c; c_wait := c_wait c |}).
  set (s2 := with_objs s1 (set_nth oid c2 (objs s1))).
  assert (Hlen : (oid < List.length (objs s1))%nat) by (apply nth_error_Some; congruence).
  assert (I2 : cinv s2).
  { split.
    - intros oid' c' E' B. cbn [objs circs s2 with_objs] in *.
      apply nth_error_set_nth_cases in E' as [[<- ->]|[Hne E']].
      + cbn [c_id c2]. rewrite Hid. exact L.
      + apply BK; assumption.
    - intros cid' oid' L'. cbn [objs circs s2 with_objs] in *.
      destruct (CO cid' oid' L') as (c' & E' & Hid').
      destruct (Nat.eq_dec oid oid') as [<-|Hne].
      + exists c2. split; [apply nth_error_set_nth_eq; exact Hlen|]. cbn [c_id c2]. congruence.
      + exists c'. split; [rewrite nth_error_set_nth_neq by exact Hne; exact E' | exact Hid']. }
  assert (E2 : nth_error (objs s2) oid = Some c2) by (cbn [objs s2 with_objs]; apply nth_error_set_nth_eq; exact Hlen).
  assert (L2 : lookup cid (circs s2) = Some oid) by exact L.
  assert (Term : forall f, (stt = CClosed \/ stt = CFailed) ->
            cinv (fst (then_ (fire_built s2 oid f) (fun s3 => (with_circs s3 (remove_key cid (circs s3)), []))))).
  { intros f Hst. pose proof (fire_built_keeps s2 oid f) as K. pose proof (keeps_inv _ _ K I2) as I3.
    destruct K as [Kc Km]. unfold then_. destruct (fire_built s2 oid f) as [s3 e3]. cbn [fst] in *.
    assert (E3 : exists c3, nth_error (objs s3) oid = Some c3 /\ c_st c3 = stt).
    { assert (X : nth_error (map ckey (objs s2)) oid = Some (ckey c2)) by (rewrite nth_error_map, E2; reflexivity).
      rewrite <- Km, nth_error_map in X. destruct (nth_error (objs s3) oid) as [c3|]; [|discriminate].
      cbn in X. injection X as _ X. exists c3. split; [reflexivity | exact X]. }
    destruct E3 as (c3 & E3 & S3).
    eapply remove_terminal_inv; [exact I3 | rewrite Kc; exact L2 | exact E3 |].
    rewrite S3. destruct Hst as [-> | ->]; discriminate. }
  destruct stt; try exact I2.
  - exact (keeps_inv _ _ (fire_built_keeps s2 oid FOk) I2).
  - apply Term. auto.
  - apply Term. auto.
Qed.

Lemma op_circ_inv s cid stt : cinv s -> cinv (fst (op_circ s cid stt)).
Proof.
  intros I. rewrite op_circ_unfold. destruct (lookup cid (circs s)) as [oid|] eqn:L.
  - apply circ_rest_inv; assumption.
  - cbn zeta. apply circ_rest_inv.
    + destruct I as [BK CO]. split.
      * intros oid' c' E' B. cbn [objs circs with_objs with_circs] in *. rewrite lookup_app.
        destruct (Nat.lt_ge_cases oid' (List.length (objs s))) as [Hlt|Hge].
        -- rewrite nth_error_app1 in E' by exact Hlt. rewrite (BK oid' c' E' B). reflexivity.
        -- rewrite nth_error_app2 in E' by exact Hge.
           destruct (oid' - List.length (objs s))%nat as [|m] eqn:D; cbn in E'; [|destruct m; discriminate].
           injection E' as <-. cbn [c_id]. rewrite L. unfold lookup. cbn [find fst snd]. rewrite N.eqb_refl.
           cbn [snd]. f_equal. lia.
      * intros cid' oid' L'. cbn [objs circs with_objs with_circs] in *. rewrite lookup_app in L'.
        destruct (lookup cid' (circs s)) as [o|] eqn:L0.
        -- injection L' as <-. destruct (CO cid' o L0) as (c & E & Hid). exists c. split; [|exact Hid].
           rewrite nth_error_app1; [exact E | apply nth_error_Some; congruence].
        -- unfold lookup in L'. cbn [find fst snd] in L'. destruct (cid =? cid') eqn:Q; [|discriminate].
           injection L' as <-. apply N.eqb_eq in Q. subst cid'.
           eexists. split; [rewrite nth_error_app2 by lia; rewrite Nat.sub_diag; reflexivity | reflexivity].
    + cbn [circs with_circs with_objs]. rewrite lookup_app, L. unfold lookup. cbn [find fst snd]. now rewrite N.eqb_refl.
Qed.

Lemma step_keeps : forall s o, (forall cid stt, o <> OCirc cid stt) -> keeps s (step s o).
Proof.
  intros s o Hne. destruct o as [cid stt|sid stt cid host port src answers|n|a|j p|j|k oid|k ip port|k ok|ok|]; cbn [step].
  - exfalso. eapply Hne. reflexivity.
  - unfold op_stream. destruct (memN sid (strs s)).
    + destruct (s_terminal stt); split; reflexivity.
    + destruct (s_terminal stt); [apply keeps_refl|].
      eapply keeps_trans; [| |apply maybe_attach_keeps]; reflexivity.
  - unfold op_fire. destruct (nth_error (pends s) n) as [p|]; [|apply keeps_refl].
    destruct (p_fired p); [apply keeps_refl|]. eapply keeps_trans; [| |apply issue_keeps]; reflexivity.
  - unfold op_setatt. destruct a as [x|].
    + destruct (slot s) as [v|]; [destruct (satt_eqb v (att_satt x)); apply keeps_refl|].
      eapply keeps_trans; [| |apply send_keeps]; reflexivity.
    + eapply keeps_trans; [| |apply send_keeps]; reflexivity.
  - split; reflexivity.
  - unfold op_priorm. destruct (assoc_get j (entry s)); split; reflexivity.
  - unfold op_connect. destruct (find_conn k (conns s)); [apply keeps_refl|].
    destruct (negb (oid <? List.length (objs s))%nat); [apply keeps_refl|].
    cbn [ca_made with_conns]. destruct (ca_made s).
    + eapply keeps_trans; [| |apply conn_when_built_keeps]; reflexivity.
    + cbn [slot with_ca with_conns]. destruct (slot s).
      * eapply keeps_trans; [| |apply set_stage_keeps']; reflexivity.
      * eapply keeps_trans; [| |apply send_keeps]; reflexivity.
  - unfold op_local. destruct (find_conn k (conns s)) as [c|]; [|apply keeps_refl].
    destruct (k_stage c); try apply keeps_refl. eapply keeps_trans; [| |apply set_stage_keeps']; reflexivity.
  - unfold op_socks. destruct (find_conn k (conns s)) as [c|]; [|apply keeps_refl].
    destruct (k_stage c); try apply keeps_refl. destruct ok; [|apply set_stage_keeps'].
    destruct (k_att c); apply set_stage_keeps'.
  - apply op_reply_keeps.
  - apply flush_keeps.
Qed.

Theorem step_cinv : forall s o, cinv s -> cinv (fst (step s o)).
Proof.
  intros s o I. destruct o; try (apply (keeps_inv s); [apply step_keeps; discriminate | exact I]).
  apply op_circ_inv. exact I.
Qed.

Theorem reachable_cinv : forall ops s, cinv s -> cinv (snd (run_from s ops)).
Proof.
  induction ops as [|o r IH]; intros s I; cbn [run_from]; [exact I|].
  pose proof (step_cinv s o I) as I1. destruct (step s o) as [s1 es]. cbn [fst] in I1.
  specialize (IH s1 I1). destruct (run_from s1 r) as [tr s2]. exact IH.
Qed.

Lemma cinv0 : cinv st0.
Proof. split; intros ? ? H; [destruct oid; discriminate | discriminate]. Qed.

(* ------------------------------------------------------------------ statements about reachable states *)
Theorem answer_translation_reachable : forall ops sid a,
  let s := snd (run_from st0 ops) in
  lookup 9000 (circs s) = None -> issue s sid a = realise s sid (decide_now s a).
Proof. intros ops sid a s H. apply issue_realises; [apply (reachable_cinv ops st0 cinv0) | exact H]. Qed.

Theorem via_match_reachable : forall ops sid ip port oid k c,
  let s := snd (run_from st0 ops) in
  table_get (ip, port) (table s) = Some (oid, k) -> nth_error (objs s) oid = Some c -> c_st c = CBuilt ->
  circ_attach s sid (SrcIp ip port) =
    then_ (att_fire (with_table s (table_del (ip, port) (table s))) k ROk)
          (fun s2 => send s2 (attach_line sid (c_id c)) KAttachCmd).
Proof. intros ops sid ip port oid k c s. apply circ_attach_match. apply (reachable_cinv ops st0 cinv0). Qed.

(* ------------------------------------------------------------------ witnesses of the open findings *)
Definition IP1 : N := 2130706433.
Definition w_via_closed : list op :=
  [OCirc 5 CBuilt; OConnect 0 0; OReply true; OLocal 0 IP1 4000; OCirc 5 CClosed;
   OStream 3 SNew 0 (str "example.com") 80 (SrcIp IP1 4000) []; OSocks 0 true; OFlush].
Definition w_exit_inside : list op :=
  [OSetAtt (Some (AttCustom 0)); OReply true;
   OStream 5 SNew 0 (str "www.exitpoll.com") 80 (SrcIp IP1 4001) [{| a_kind := AKNone; a_mode := MPlain |}]; OFlush].
Definition w_prio_heap : list op :=
  [OSetAtt (Some AttPrio); OReply true; OPrioAdd 0 5; OPrioAdd 1 3; OPrioAdd 2 4;
   OStream 1 SNew 0 (str "example.com") 80 SrcNone
     [{| a_kind := AKDoNot; a_mode := MPlain |}; {| a_kind := AKNone; a_mode := MPlain |}; {| a_kind := AKNone; a_mode := MPlain |}];
   OFlush].

(* the former witnesses of C09-F1, F2, F3 (all repaired in /repo) are accepted now *)
Lemma via_closed_accepted : wf w_via_closed = true /\ run_oos w_via_closed = false /\ oracle w_via_closed (run w_via_closed) = true.
Proof. vm_compute. auto. Qed.
(* the former witnesses of C09-F2 and C09-F3 (repaired in /repo) are accepted now *)
Lemma exit_inside_accepted : wf w_exit_inside = true /\ oracle w_exit_inside (run w_exit_inside) = true.
Proof. vm_compute. auto. Qed.
Lemma prio_heap_accepted : wf w_prio_heap = true /\ oracle w_prio_heap (run w_prio_heap) = true.
Proof. vm_compute. auto. Qed.

(* an answer that is not a Circuit -- whatever it is, truthy or falsy -- is reported and sends nothing, in ANY state *)
Lemma not_a_circuit_reported : forall s sid v, issue s sid (AKNotCirc v) = (s, [EReported]).
Proof. reflexivity. Qed.
Lemma not_a_circuit_invalid : forall tt v, decide tt (AKNotCirc v) = DInvalid.
Proof. reflexivity. Qed.

(* a late answer (OFire) is judged against the circuits known WHEN IT ARRIVES: in every reachable state the
   decision is Spec.decide on the current objects, including circuits created after the consultation *)
Lemma late_answer_current : forall ops n p,
  let s := snd (run_from st0 ops) in
  nth_error (pends s) n = Some p -> p_fired p = false -> lookup 9000 (circs s) = None ->
  op_fire s n =
    realise (with_pends s (set_nth n {| p_sid := p_sid p; p_kind := p_kind p; p_fired := true |} (pends s)))
            (p_sid p) (decide_now s (p_kind p)).
Proof.
  intros ops n p s E F L. unfold op_fire. rewrite E, F.
  pose proof (reachable_cinv ops st0 cinv0) as [BK _]. fold s in BK.
  exact (issue_realises (with_pends s _) (p_sid p) (p_kind p) BK L).
Qed.

(* the attacher is consulted, a circuit is built meanwhile, the late answer names it: ATTACHSTREAM to it;
   and a circuit that existed at consultation but closed before the answer: reported, nothing sent *)
Definition w_built_meanwhile : list op :=
  [OSetAtt (Some (AttCustom 0)); OReply true;
   OStream 7 SNew 0 (str "example.com") 80 SrcNone [{| a_kind := AKCirc 0; a_mode := MLater |}];
   OCirc 4 CLaunched; OCirc 4 CExtended; OCirc 4 CBuilt; OFire 0; OFlush].
Definition w_closed_meanwhile : list op :=
  [OCirc 4 CBuilt; OSetAtt (Some (AttCustom 0)); OReply true;
   OStream 7 SNew 0 (str "example.com") 80 SrcNone [{| a_kind := AKCirc 0; a_mode := MLater |}];
   OCirc 4 CClosed; OFire 0; OFlush].
Lemma built_meanwhile_ok : wf w_built_meanwhile = true /\ oracle w_built_meanwhile (run w_built_meanwhile) = true /\
  all_writes (run w_built_meanwhile) = [leave_line 1; attach_line 7 4].
Proof. vm_compute. auto. Qed.
Lemma closed_meanwhile_ok : wf w_closed_meanwhile = true /\ oracle w_closed_meanwhile (run w_closed_meanwhile) = true /\
  all_writes (run w_closed_meanwhile) = [leave_line 1] /\
  n_reported (List.concat (run w_closed_meanwhile)) = 1%nat.
Proof. vm_compute. auto. Qed.
