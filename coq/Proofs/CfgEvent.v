(* CONF_CHANGED: parse_keywords(arg, multiline_values=False) groups the lines of an event by key
   (outside finding class C11-F3), and _conf_changed then leaves every announced option reading as
   the announced values parsed by its declared type. *)
From Coq Require Import String.
From Coq Require Import List Bool Ascii Arith NArith ZArith Lia.
From TxVerif Require Import Lib.Bytes Lib.CfgLib Spec.CfgTypes Spec.TorStore Spec.CfgOracle Spec.C10 Spec.C11
  Model.ConfigKinds Gen.ConfigTypes Model.Config
  Proofs.CfgLibProofs Proofs.CfgWire Proofs.C10Proofs Proofs.CfgAgree Proofs.CfgSpecLemmas Proofs.CfgSim Proofs.CfgSimSave
  Proofs.CfgSimRun Proofs.CfgBoot.
Import ListNotations.
Open Scope N_scope.

(* ------------------------------------------------------------------ text *)
Lemma memb_app a l1 l2 : memb a (l1 ++ l2) = memb a l1 || memb a l2.
Proof. induction l1; cbn; [reflexivity|]. now rewrite IHl1, orb_assoc. Qed.

Lemma memb_mid a l1 l2 : memb a (l1 ++ a :: l2) = true.
Proof.
  induction l1 as [|x l1 IH]; cbn [app memb]; [now rewrite Ascii.eqb_refl|]. rewrite IH. apply orb_true_r.
Qed.

Lemma memb_lstrip_true a s : memb a s = true -> is_space a = false -> memb a (lstrip s) = true.
Proof.
  induction s as [|c s IH]; [discriminate|]. cbn [memb lstrip]. intros H Ha.
  destruct (is_space c) eqn:Ec.
  - apply orb_true_iff in H as [H|H]; [apply Ascii.eqb_eq in H; subst; congruence|now apply IH].
  - exact H.
Qed.

Lemma memb_strip_true a s : memb a s = true -> is_space a = false -> memb a (strip s) = true.
Proof.
  intros H Ha. unfold strip. rewrite memb_rev. apply memb_lstrip_true; [|assumption].
  rewrite memb_rev. now apply memb_lstrip_true.
Qed.

Lemma strip_nospace s : forallb (fun c => negb (is_space c)) s = true -> strip s = s.
Proof.
  intros H. unfold strip.
  assert (forall t, forallb (fun c => negb (is_space c)) t = true -> lstrip t = t) as Hl.
  { intros [|c t] Ht; [reflexivity|]. cbn in *. apply andb_true_iff in Ht as [Hc _]. apply negb_true_iff in Hc. now rewrite Hc. }
  rewrite (Hl s H).
  assert (forallb (fun c => negb (is_space c)) (rev s) = true) as Hr.
  { apply forallb_forall. intros x Hx. apply in_rev in Hx. exact (proj1 (forallb_forall _ _) H x Hx). }
  rewrite (Hl _ Hr). apply rev_involutive.
Qed.

Lemma split_on_prefix c k v : memb c k = false -> split_on c (k ++ c :: v) = k :: split_on c v.
Proof.
  induction k as [|x k IH]; cbn [app split_on memb].
  - intros _. now rewrite Ascii.eqb_refl.
  - intros H. apply orb_false_iff in H as [H1 H2]. rewrite Ascii.eqb_sym in H1. rewrite H1, (IH H2). reflexivity.
Qed.

Lemma split_on_nonempty c s : split_on c s <> [].
Proof. destruct s as [|x s]; cbn; [discriminate|]. destruct (Ascii.eqb x c); [discriminate|]. destruct (split_on c s); discriminate. Qed.

Lemma join_split c v : join [c] (split_on c v) = v.
Proof.
  induction v as [|a v IH]; [reflexivity|]. cbn [split_on].
  destruct (Ascii.eqb a c) eqn:E.
  - apply Ascii.eqb_eq in E. subst a. destruct (split_on c v) as [|h t] eqn:Es; [exfalso; eapply split_on_nonempty; eassumption|].
    change (join [c] ([] :: h :: t)) with ([] ++ [c] ++ join [c] (h :: t)). now rewrite IH.
  - destruct (split_on c v) as [|h t] eqn:Es; [exfalso; eapply split_on_nonempty; eassumption|].
    destruct t as [|h2 t2].
    + change (join [c] [a :: h]) with (a :: h). change (join [c] [h]) with h in IH. now rewrite IH.
    + change (join [c] ((a :: h) :: h2 :: t2)) with ((a :: h) ++ [c] ++ join [c] (h2 :: t2)).
      change (join [c] (h :: h2 :: t2)) with (h ++ [c] ++ join [c] (h2 :: t2)) in IH.
      change ((a :: h) ++ [c] ++ join [c] (h2 :: t2)) with (a :: (h ++ [c] ++ join [c] (h2 :: t2))). f_equal. exact IH.
Qed.

(* ------------------------------------------------------------------ items *)
Notation item := (bytes * option bytes)%type (only parsing).

Definition line_of (it : item) : bytes :=
  match snd it with Some v => fst it ++ [EQC] ++ v | None => fst it end.

Lemma event_lines_eq items : event_lines items = map line_of items ++ [OK_word].
Proof. reflexivity. Qed.

Definition key_wf (k : bytes) : Prop :=
  k <> [] /\ forallb (fun c => negb (is_space c)) k = true /\ memb EQC k = false /\ beqb k OK_word = false.

Definition item_wf (it : item) : Prop :=
  key_wf (fst it) /\ match snd it with Some v => unquote v = v | None => True end.

(* kw_step, on items instead of lines *)
Definition grp_step (s : list (bytes * kwval) * option bytes * bytes) (it : item)
  : list (bytes * kwval) * option bytes * bytes :=
  let '(rtn, key, value) := s in
  match snd it with
  | Some v =>
      (match key with Some (c :: kr) => kw_add rtn (c :: kr) (unquote value) | _ => rtn end, Some (fst it), v)
  | None =>
      match key with
      | None => (dset (fst it) (KwStr DEFAULT_VALUE) rtn, key, value)
      | Some k => (dset (fst it) (KwStr DEFAULT_VALUE) (kw_add rtn k value), None, [])
      end
  end.

Lemma OK_no_eq : memb EQC OK_word = false.
Proof. reflexivity. Qed.

Lemma kw_step_item s it : item_wf it -> kw_step s (line_of it) = grp_step s it.
Proof.
  intros [[Hne [Hsp [Heq Hok]]] Hv]. destruct s as [[rtn key] value]. destruct it as [k [v|]]; cbn [fst snd] in *;
    unfold line_of, kw_step, grp_step; cbn [fst snd].
  - (* Key=Value *)
    assert (beqb (strip (k ++ [EQC] ++ v)) OK_word = false) as ->.
    { destruct (beqb (strip (k ++ [EQC] ++ v)) OK_word) eqn:E; [|reflexivity]. exfalso.
      apply beqb_eq in E.
      assert (memb EQC (strip (k ++ [EQC] ++ v)) = true) as X.
      { apply memb_strip_true; [|reflexivity]. change (k ++ [EQC] ++ v) with (k ++ EQC :: v). apply memb_mid. }
      rewrite E, OK_no_eq in X. discriminate. }
    unfold split_eq1.
    change (k ++ [EQC] ++ v) with (k ++ EQC :: v). rewrite (memb_mid EQC k v).
    rewrite (split_on_prefix _ _ _ Heq), join_split.
    assert (memb SP k = false) as ->.
    { destruct (memb SP k) eqn:E; [|reflexivity]. exfalso. apply memb_In in E.
      pose proof (proj1 (forallb_forall _ _) Hsp SP E) as X. discriminate X. }
    reflexivity.
  - (* Key *)
    rewrite (strip_nospace _ Hsp), Hok. unfold split_eq1. rewrite Heq. reflexivity.
Qed.

Lemma fold_items : forall items s, Forall item_wf items ->
  fold_left kw_step (map line_of items) s = fold_left grp_step items s.
Proof.
  induction items as [|it items IH]; intros s H; [reflexivity|].
  inversion H as [|? ? H1 H2]. subst. cbn [map fold_left]. rewrite (kw_step_item _ _ H1). now apply IH.
Qed.

Lemma kw_step_OK s : kw_step s OK_word = s.
Proof. destruct s as [[rtn key] value]. unfold kw_step. assert (beqb (strip OK_word) OK_word = true) as -> by reflexivity. reflexivity. Qed.

Definition finish (s : list (bytes * kwval) * option bytes * bytes) : list (bytes * kwval) :=
  let '(rtn, key, value) := s in
  match key with Some (c :: kr) => kw_add rtn (c :: kr) (unquote value) | _ => rtn end.

Lemma parse_keywords_items items : Forall item_wf items ->
  parse_keywords_single (event_lines items) = finish (fold_left grp_step items ([], None, [])).
Proof.
  intros H. unfold parse_keywords_single. rewrite event_lines_eq, fold_left_app. cbn [fold_left].
  rewrite kw_step_OK, (fold_items _ _ H). reflexivity.
Qed.

(* ------------------------------------------------------------------ grouping *)
Definition vals_of (k : bytes) (p : list item) : list bytes :=
  concat (map (fun it : item => if beqb (fst it) k then match snd it with Some v => [v] | None => [] end else []) p).
Definition kwonly (k : bytes) (p : list item) : bool :=
  existsb (fun it : item => beqb (fst it) k && match snd it with None => true | Some _ => false end) p.
Definition rep (vs : list bytes) (kw : bool) : option kwval :=
  if kw then Some (KwStr DEFAULT_VALUE)
  else match vs with [] => None | [v] => Some (KwStr v) | _ => Some (KwList vs) end.

Lemma vals_of_app k p q : vals_of k (p ++ q) = vals_of k p ++ vals_of k q.
Proof. unfold vals_of. now rewrite map_app, concat_app. Qed.
Lemma kwonly_app k p q : kwonly k (p ++ q) = kwonly k p || kwonly k q.
Proof. unfold kwonly. apply existsb_app. Qed.

Lemma vals_of_one k it : vals_of k [it] = if beqb (fst it) k then match snd it with Some v => [v] | None => [] end else [].
Proof. unfold vals_of. cbn. apply app_nil_r. Qed.
Lemma kwonly_one k it : kwonly k [it] = beqb (fst it) k && match snd it with None => true | Some _ => false end.
Proof. unfold kwonly. cbn. apply orb_false_r. Qed.

Definition Inv (p : list item) (s : list (bytes * kwval) * option bytes * bytes) : Prop :=
  let '(rtn, key, value) := s in
  match key with
  | None => forall k, dget k rtn = rep (vals_of k p) (kwonly k p)
  | Some k0 => k0 <> [] /\ unquote value = value /\
               exists p', p = p' ++ [(k0, Some value)] /\ forall k, dget k rtn = rep (vals_of k p') (kwonly k p')
  end.

(* flushing the pending Key=Value into the dictionary *)
Lemma flush_pending rtn p' k0 value :
  k0 <> [] ->
  (forall k, dget k rtn = rep (vals_of k p') (kwonly k p')) ->
  kwonly k0 (p' ++ [(k0, Some value)]) = false ->
  forall k, dget k (kw_add rtn k0 value) = rep (vals_of k (p' ++ [(k0, Some value)])) (kwonly k (p' ++ [(k0, Some value)])).
Proof.
  intros Hne H Hkw k. rewrite vals_of_app, kwonly_app, vals_of_one, kwonly_one. cbn [fst snd]. rewrite andb_false_r, orb_false_r.
  rewrite kwonly_app, kwonly_one in Hkw. cbn [fst snd] in Hkw. rewrite andb_false_r, orb_false_r in Hkw.
  unfold kw_add. pose proof (H k0) as H0. rewrite Hkw in H0. cbn [rep] in H0.
  destruct (beqb k0 k) eqn:E.
  - apply beqb_eq in E. subst k. rewrite Hkw. cbn [rep].
    destruct (vals_of k0 p') as [|v1 [|v2 r]]; rewrite H0.
    + cbn [app]. apply dget_dset_same.
    + cbn [app]. apply dget_dset_same.
    + rewrite dget_dset_same. cbn [app]. reflexivity.
  - assert (k0 <> k) as Hne' by now apply beqb_false_neq. rewrite app_nil_r.
    destruct (dget k0 rtn) as [[s|l]|]; rewrite dget_dset_other by assumption; apply H.
Qed.

Definition pending_key (s : list (bytes * kwval) * option bytes * bytes) : option bytes := snd (fst s).

Lemma grp_inv it p s :
  item_wf it ->
  Inv p s ->
  (forall k, kwonly k (p ++ [it]) = true -> vals_of k (p ++ [it]) = []) ->
  Inv (p ++ [it]) (grp_step s it).
Proof.
  intros [[Hkne _] Hv] HI HG. destruct s as [[rtn key] value]. destruct it as [k [v|]]; cbn [fst snd] in *.
  - (* Key=Value *)
    unfold grp_step. cbn [fst snd].
    destruct key as [k0|]; cbn [Inv] in HI |- *.
    + destruct HI as [Hne [Hu [p' [Hp Hd]]]]. destruct k0 as [|c kr]; [congruence|].
      split; [assumption|]. split; [assumption|]. exists p. split; [reflexivity|].
      rewrite Hu. subst p.
      assert (kwonly (c :: kr) (p' ++ [(c :: kr, Some value)]) = false) as Hkw.
      { destruct (kwonly (c :: kr) (p' ++ [(c :: kr, Some value)])) eqn:E; [|reflexivity]. exfalso.
        assert (kwonly (c :: kr) ((p' ++ [(c :: kr, Some value)]) ++ [(k, Some v)]) = true) as X by (rewrite kwonly_app, E; reflexivity).
        apply HG in X. rewrite !vals_of_app, vals_of_one in X. cbn [fst snd] in X. rewrite beqb_refl in X.
        destruct (vals_of (c :: kr) p'); discriminate. }
      apply (flush_pending rtn p' (c :: kr) value); assumption.
    + split; [assumption|]. split; [assumption|]. exists p. auto.
  - (* Key *)
    unfold grp_step. cbn [fst snd].
    assert (forall k', k' <> k -> vals_of k' (p ++ [(k, None)]) = vals_of k' p /\ kwonly k' (p ++ [(k, None)]) = kwonly k' p) as Hother.
    { intros k' Hne. rewrite vals_of_app, kwonly_app, vals_of_one, kwonly_one. cbn [fst snd].
      rewrite (beqb_neq_false k k') by congruence. cbn. now rewrite app_nil_r, orb_false_r. }
    assert (kwonly k (p ++ [(k, None)]) = true) as Hkk by (rewrite kwonly_app, kwonly_one; cbn; rewrite beqb_refl; apply orb_true_r).
    destruct key as [k0|]; cbn [Inv] in HI |- *.
    + (* the pending Key=Value is flushed: accumulated like every other value of its key *)
      destruct HI as [Hne [Hu [p' [Hp Hd]]]].
      assert (kwonly k0 (p' ++ [(k0, Some value)]) = false) as Hkw0.
      { destruct (kwonly k0 (p' ++ [(k0, Some value)])) eqn:E; [|reflexivity]. exfalso.
        assert (kwonly k0 (p ++ [(k, None)]) = true) as X by (rewrite kwonly_app, Hp, E; reflexivity).
        apply HG in X. rewrite Hp, !vals_of_app, vals_of_one in X. cbn [fst snd] in X. rewrite beqb_refl in X.
        destruct (vals_of k0 p'); discriminate. }
      intros k'. destruct (list_eq_dec ascii_dec k' k) as [->|Hne1].
      * rewrite dget_dset_same, Hkk. reflexivity.
      * rewrite dget_dset_other by congruence.
        destruct (Hother k' Hne1) as [E1 E2]. rewrite E1, E2, Hp.
        apply (flush_pending rtn p' k0 value); assumption.
    + intros k'. destruct (list_eq_dec ascii_dec k' k) as [->|Hne1].
      * rewrite dget_dset_same, Hkk. reflexivity.
      * rewrite dget_dset_other by congruence. destruct (Hother k' Hne1) as [E1 E2]. rewrite E1, E2. apply HI.
Qed.

Lemma absent_key k (items : list item) : ~ In k (map fst items) -> vals_of k items = [] /\ kwonly k items = false.
Proof.
  induction items as [|it items IH]; [auto|]. cbn [map In]. intros H.
  assert (fst it <> k) as Hne by (intros E; apply H; now left).
  destruct (IH (fun X => H (or_intror X))) as [E1 E2].
  change (it :: items) with ([it] ++ items). rewrite vals_of_app, kwonly_app, vals_of_one, kwonly_one, E1, E2.
  now rewrite (beqb_neq_false _ _ Hne).
Qed.

Definition valued_only (items : list item) : Prop :=
  forall k, kwonly k items = true -> vals_of k items = [].

Lemma valued_only_prefix p q : valued_only (p ++ q) -> valued_only p.
Proof.
  intros H k Hk. assert (kwonly k (p ++ q) = true) as X by (rewrite kwonly_app, Hk; reflexivity).
  apply H in X. rewrite vals_of_app in X. now apply app_eq_nil in X as [X _].
Qed.

Lemma group_fold : forall rest p s,
  Forall item_wf rest ->
  Inv p s ->
  valued_only (p ++ rest) ->
  Inv (p ++ rest) (fold_left grp_step rest s).
Proof.
  induction rest as [|it rest IH]; intros p s Hwf HI HG.
  - now rewrite app_nil_r.
  - inversion Hwf as [|? ? Hw1 Hw2]. subst.
    cbn [fold_left]. replace (p ++ it :: rest) with ((p ++ [it]) ++ rest) in * by (now rewrite <- app_assoc).
    apply IH; [assumption| |assumption].
    apply grp_inv; [assumption|assumption|]. exact (valued_only_prefix _ _ HG).
Qed.

(* the dictionary parse_keywords builds for an event *)
Theorem event_dict items :
  Forall item_wf items -> valued_only items ->
  forall k, dget k (parse_keywords_single (event_lines items)) = rep (vals_of k items) (kwonly k items).
Proof.
  intros Hwf HG k. rewrite (parse_keywords_items _ Hwf).
  pose proof (group_fold items [] ([], None, []) Hwf (fun _ => eq_refl) HG) as HI.
  cbn [app] in HI. destruct (fold_left grp_step items ([], None, [])) as [[rtn key] value].
  cbn [Inv finish] in *. destruct key as [k0|]; [|apply HI].
  destruct HI as [Hne [Hu [p' [Hp Hd]]]]. destruct k0 as [|c kr]; [congruence|].
  rewrite Hu, Hp.
  assert (kwonly (c :: kr) (p' ++ [(c :: kr, Some value)]) = false) as Hkw.
  { destruct (kwonly (c :: kr) (p' ++ [(c :: kr, Some value)])) eqn:E; [|reflexivity]. exfalso.
    assert (kwonly (c :: kr) items = true) as E' by (rewrite Hp; exact E).
    apply HG in E'. rewrite Hp, vals_of_app, vals_of_one in E'. cbn [fst snd] in E'. rewrite beqb_refl in E'.
    destruct (vals_of (c :: kr) p'); discriminate. }
  apply (flush_pending rtn p' (c :: kr) value); assumption.
Qed.

(* ------------------------------------------------------------------ _conf_changed, one dictionary entry *)
(* the value _conf_changed stores for key k (whose real name is k itself) *)
Definition cc_cval (st : mst) (k : bytes) (v0 : kwval) : res cval :=
  let v := pyval_of_kw v0 in
  match dget k (m_parsers st) with
  | Some ty => conf_changed_value st k ty v
  | None => Ok (cval_of_pyval false v)
  end.

Lemma cc_item st k v0 cv : find_real_name st k = k -> cc_cval st k v0 = Ok cv ->
  conf_changed_item st (k, v0) = Ok (set_config st k cv).
Proof.
  intros Hfr H. unfold conf_changed_item, cc_cval in *. rewrite Hfr.
  destruct (dget k (m_parsers st)) as [ty|]; [|now inversion H].
  cbv zeta in H |- *. now rewrite H.
Qed.

(* set_config on one key does not change what cc_cval computes for any key *)
Lemma cc_cval_frame st k cv k' v0 : cc_cval (set_config st k cv) k' v0 = cc_cval st k' v0.
Proof. reflexivity. Qed.

Lemma find_real_name_set_config st k cv name :
  dmem k (m_config st) = true -> find_real_name (set_config st k cv) name = find_real_name st name.
Proof.
  intros H. unfold find_real_name. rewrite set_config_config. cbn [set_config m_parsers].
  now rewrite (keys_dset_mem k cv (m_config st) H).
Qed.

(* all the entries of a dictionary with distinct keys *)
Lemma cc_items_effect : forall d st,
  NoDup (map fst d) ->
  (forall k kw, In (k, kw) d -> find_real_name st k = k /\ dmem k (m_config st) = true /\ exists cv, cc_cval st k kw = Ok cv) ->
  exists st', conf_changed_items st d = Ok st' /\
    m_parsers st' = m_parsers st /\ m_defaults st' = m_defaults st /\
    (forall k kw, In (k, kw) d -> exists cv, cc_cval st k kw = Ok cv /\ dget k (m_config st') = Some cv) /\
    (forall k, ~ In k (map fst d) -> dget k (m_config st') = dget k (m_config st) /\ dget k (m_unsaved st') = dget k (m_unsaved st)) /\
    (forall k, In k (map fst d) ->
       dget k (m_unsaved st') = match dget k (m_unsaved st), dget k (m_config st) with
                                | Some UAlias, Some old => Some (UVal old)
                                | u, _ => u
                                end) /\
    map fst (m_unsaved st') = map fst (m_unsaved st) /\
    (forall k, dmem k (m_config st) = true -> dmem k (m_config st') = true).
Proof.
  induction d as [|[k kw] d IH]; intros st Hnd H.
  - exists st. split; [reflexivity|]. split; [reflexivity|]. split; [reflexivity|].
    split; [intros k kw []|]. split; [intros k _; split; reflexivity|]. split; [intros k []|].
    split; [reflexivity|]. intros k Hk. exact Hk.
  - inversion Hnd as [|? ? Hni Hnd']. subst.
    destruct (H k kw (or_introl eq_refl)) as [Hfr [Hdm [cv Hcv]]].
    cbn [conf_changed_items]. rewrite (cc_item _ _ _ _ Hfr Hcv). cbn [bind].
    destruct (IH (set_config st k cv) Hnd') as [st' [E [HP [HD [HA [HB [HU [HK HM]]]]]]]].
    { intros k' kw' Hin. destruct (H k' kw' (or_intror Hin)) as [Hfr' [Hdm' [cv' Hcv']]].
      split; [now rewrite find_real_name_set_config|]. split; [rewrite set_config_config; now apply dmem_dset_mono|].
      exists cv'. now rewrite cc_cval_frame. }
    exists st'. split; [exact E|]. split; [rewrite HP; reflexivity|]. split; [rewrite HD; reflexivity|].
    assert (k'_ne : forall k', In k' (map fst d) -> k <> k') by (intros k' Hk' ->; contradiction).
    split; [|split; [|split; [|split]]].
    + intros k' kw' [Hin|Hin].
      * inversion Hin. subst k' kw'. exists cv. split; [assumption|].
        destruct (HB k Hni) as [B1 _]. rewrite B1, set_config_config. apply dget_dset_same.
      * destruct (HA k' kw' Hin) as [cv' [Hc1 Hc2]]. exists cv'. split; [now rewrite cc_cval_frame in Hc1|assumption].
    + intros k' Hk'. cbn [map fst] in Hk'.
      assert (k <> k') as Hne by (intros ->; apply Hk'; now left).
      assert (~ In k' (map fst d)) as Hnd2 by (intros X; apply Hk'; now right).
      destruct (HB k' Hnd2) as [B1 B2]. rewrite B1, B2, set_config_config.
      split; [now apply dget_dset_other|now apply set_config_unsaved_other].
    + intros k' Hk'. cbn [map fst In] in Hk'. destruct Hk' as [<-|Hk'].
      * destruct (HB k Hni) as [_ B2]. rewrite B2. unfold set_config. cbn [m_unsaved].
        destruct (dget k (m_unsaved st)) as [[|v0]|] eqn:EU; try (now rewrite EU).
        destruct (dget k (m_config st)) as [old|] eqn:EC; [apply dget_dset_same|now rewrite EU].
      * rewrite (HU k' Hk'). rewrite set_config_config.
        rewrite (set_config_unsaved_other st k cv k' (k'_ne k' Hk')).
        now rewrite (dget_dset_other k k' cv (m_config st) (k'_ne k' Hk')).
    + rewrite HK. apply set_config_unsaved_keys.
    + intros k' Hk'. apply HM. rewrite set_config_config. now apply dmem_dset_mono.
Qed.

(* ------------------------------------------------------------------ the value stored for one announced option *)
Lemma dict_nodup : forall lines s,
  NoDup (map fst (fst (fst s))) -> NoDup (map fst (fst (fst (fold_left kw_step lines s)))).
Proof.
  induction lines as [|l lines IH]; intros s H; [assumption|]. cbn [fold_left]. apply IH.
  destruct s as [[rtn key] value]. unfold kw_step.
  destruct (beqb (strip l) OK_word); [assumption|].
  assert (forall r k v, NoDup (map fst r) -> NoDup (map fst (kw_add r k v))) as Hadd.
  { intros r k v Hr. unfold kw_add. destruct (dget k r) as [[s0|l0]|]; now apply NoDup_keys_dset. }
  destruct (match split_eq1 l with Some (k, v) => if memb SP k then None else Some (k, v) | None => None end) as [[k v]|].
  - cbn [fst]. destruct key as [[|c kr]|]; try assumption. now apply Hadd.
  - destruct key as [k|]; cbn [fst]; [apply NoDup_keys_dset; now apply Hadd|now apply NoDup_keys_dset].
Qed.

Lemma parse_keywords_nodup lines : NoDup (map fst (parse_keywords_single lines)).
Proof.
  unfold parse_keywords_single.
  pose proof (dict_nodup lines ([], None, []) (NoDup_nil _)) as H.
  destruct (fold_left kw_step lines ([], None, [])) as [[rtn key] value]. cbn [fst] in H.
  destruct key as [[|c kr]|]; try assumption.
  unfold kw_add. destruct (dget (c :: kr) rtn) as [[s0|l0]|]; now apply NoDup_keys_dset.
Qed.

Lemma conf_changed_items_listp : forall kvs st st1, conf_changed_items st kvs = Ok st1 -> m_listp st1 = m_listp st.
Proof.
  induction kvs as [|kv kvs IH]; intros st st1 H; cbn [conf_changed_items] in H.
  - inversion H. reflexivity.
  - destruct (conf_changed_item st kv) as [s1|k|] eqn:E; cbn [bind] in H; try discriminate.
    rewrite (IH _ _ H).
    unfold conf_changed_item in E. destruct kv as [k v0].
    destruct (dget (find_real_name st k) (m_parsers st)) as [ty|].
    + match type of E with (match ?r with _ => _ end) = _ => destruct r as [cv|k'|] end.
      * inversion E. reflexivity.
      * destruct ((k' =? E_Value) || (k' =? E_Type)); inversion E. reflexivity.
      * discriminate.
    + inversion E. reflexivity.
Qed.

Section EventValue.
  Variable i : cfg_input.
  Let table := i_table i.
  Let opts := options table.
  Let defaults := i_defaults i.
  Let ddict := match i_defaults i with None => [] | Some ls => fold_left add_default ls [] end.
  Hypothesis Htab : table_ok table = true.
  Hypothesis Hdfl : defaults_ok opts defaults = true.

  (* the dictionary entry for values [vals] (non-empty) or for a keyword-only line *)
  Definition kw_of (vals : list bytes) : kwval :=
    match vals with [] => KwStr DEFAULT_VALUE | [v] => KwStr v | _ => KwList vals end.

  Lemma pyval_of_kw_getconf vals : (forall v, In v vals -> tor_value_ok v = true) ->
    pyval_of_kw (kw_of vals) = getconf_value vals.
  Proof.
    intros H. destruct vals as [|v0 [|v1 vs]]; cbn [kw_of pyval_of_kw getconf_value].
    - reflexivity.
    - now rewrite (tor_value_unquote _ (H v0 (or_introl eq_refl))).
    - f_equal. symmetry. apply (map_unquote_tor (v0 :: v1 :: vs) H).
  Qed.

  Lemma defaults_scalar cn k : In (cn, k) opts -> is_list_kind k = false -> k <> KStr ->
    match default_lines defaults cn with [] => True | [d] => tor_values_ok k [d] = true | _ => False end.
  Proof.
    intros Hin Hl Hk. unfold defaults_ok in Hdfl. fold defaults in Hdfl. destruct defaults as [ls|] eqn:E; [|exact I].
    apply andb_true_iff in Hdfl as [_ H]. pose proof (proj1 (forallb_forall _ _) H (cn, k) Hin) as X. cbn [fst snd] in X.
    destruct (default_lines (Some ls) cn) as [|d [|d2 t]]; [exact I| |];
      destruct k; try discriminate Hl; try congruence; try exact X; discriminate X.
  Qed.

  Lemma event_value st cn k vals :
    In (cn, k) opts ->
    is_nil vals || tor_values_ok k vals = true -> (forall v, In v vals -> tor_value_ok v = true) ->
    dget cn (m_parsers st) = Some (ty_of k) -> dget cn (m_defaults st) = dget cn ddict ->
    mem_bytes cn (m_listp st) = is_list_kind k ->
    exists cv, cc_cval st cn (kw_of vals) = Ok cv /\
      forall st1, dget cn (m_config st1) = Some cv -> dget cn (m_defaults st1) = dget cn ddict ->
                  synced_at defaults st1 vals cn k.
  Proof.
    intros Hin Hvn Hall HP HD HL. unfold cc_cval. rewrite HP, (pyval_of_kw_getconf _ Hall). unfold conf_changed_value.
    (* a keyword-only line is in the envelope for every kind; string and list kinds allow "unset" anyway *)
    assert ((k = KLine \/ k = KComma \/ k = KStr) -> tor_values_ok k vals = true) as Hv3.
    { intros Hk3. apply orb_true_iff in Hvn as [E|E]; [|exact E].
      destruct vals; [|discriminate]. destruct Hk3 as [-> | [-> | ->]]; reflexivity. }
    destruct (kind_eqb k KPorts) eqn:Ekp.
    { (* a port list: the lines as they are; unset -> the config/defaults lines *)
      assert (k = KPorts) by (destruct k; try discriminate Ekp; reflexivity). subst k.
      cbn [ty_of]. rewrite HL. cbn [is_list_kind andb negb].
      assert (forall d, In d (default_lines defaults cn) -> tor_value_ok d = true) as Hd
        by (intros d Hi; eapply (defaults_values_ok i Hdfl); eassumption).
      assert (exists L, aslist (if pyval_is_str (getconf_value vals) DEFAULT_VALUE
                                then match dget cn (m_defaults st) with Some d => pyval_of_dval d | None => PList [] end
                                else getconf_value vals) = map AStr L /\
                        (forall v, In v L -> tor_value_ok v = true) /\
                        typed_value KPorts vals (default_lines defaults cn) = Some (RList true L)) as [L [HLL [HLok HLty]]].
      { destruct vals as [|v0 [|v1 vs]].
        - cbn [getconf_value pyval_is_str]. rewrite beqb_refl, HD. fold ddict. unfold ddict. rewrite (defaults_dict_whole i cn).
          fold defaults. exists (default_lines defaults cn). split; [|split; [exact Hd|]].
          + destruct (default_lines defaults cn) as [|d [|d2 t]]; reflexivity.
          + unfold typed_value. cbn [nonempty_values filter]. now rewrite (map_strip_tor _ Hd).
        - pose proof (Hall v0 (or_introl eq_refl)) as Hv0.
          destruct (tor_value_facts _ Hv0) as [Hne [_ [Hnd [Hu _]]]].
          cbn [getconf_value]. rewrite Hu. cbn [pyval_is_str]. rewrite Hnd.
          exists [v0]. split; [reflexivity|]. split; [exact Hall|]. apply ports_view; [exact Hall|discriminate].
        - rewrite (getconf_many _ _ _ Hall). cbn [pyval_is_str aslist].
          exists (v0 :: v1 :: vs). split; [reflexivity|]. split; [exact Hall|]. apply ports_view; [exact Hall|discriminate]. }
      rewrite HLL. eexists. split; [reflexivity|]. intros st1 Hc _. eapply ports_lines; eassumption. }
    assert (k <> KPorts) as Hnp by (intros ->; discriminate Ekp).
    destruct (is_list_kind k) eqn:Elk.
    - assert (k = KLine \/ k = KComma) as Hk by (destruct k; try discriminate Elk; try congruence; auto).
      assert (ty_of k = (pk_of k, vk_of k, true)) as Hty by (destruct Hk as [-> | ->]; reflexivity).
      rewrite Hty. cbn [negb]. rewrite andb_false_r.
      assert (tor_values_ok k vals = true) as Hv by (apply Hv3; destruct Hk as [-> | ->]; auto).
      destruct (boot_list i Hdfl st cn k vals Hin Hk Hv) as [l [l' [Hp [Hl' _]]]].
      rewrite Hp. cbn [bind]. rewrite HD. unfold ddict. rewrite Hl'. cbn [bind].
      eexists. split; [reflexivity|]. intros st1 Hc _.
      destruct (boot_list i Hdfl st1 cn k vals Hin Hk Hv) as [l1 [l1' [Hp1 [Hl1' Hs]]]].
      rewrite Hp in Hp1. inversion Hp1. subst l1. rewrite Hl' in Hl1'. inversion Hl1'. subst l1'. now apply Hs.
    - assert (ty_of k = (pk_of k, vk_of k, false)) as Hty by (destruct k; try discriminate Elk; try congruence; reflexivity).
      rewrite Hty, HL. cbn [andb].
      assert ((vals = [] /\ k <> KStr) \/ tor_values_ok k vals = true) as [[Evals Hns]|Hv].
      { destruct (kind_eqb k KStr) eqn:Eks.
        - right. apply Hv3. right. right. destruct k; try discriminate Eks; reflexivity.
        - apply orb_true_iff in Hvn as [E|E]; [|now right]. left.
          split; [destruct vals; [reflexivity|discriminate]|intros ->; discriminate Eks]. }
      { (* a typed scalar option reset to its default: the config/defaults line parsed by the declared type,
           or the sentinel when Tor gave none *)
        subst vals.
        cbn [getconf_value pyval_is_str]. rewrite beqb_refl. cbn [negb]. rewrite HD. unfold ddict.
        rewrite (defaults_dict_whole i cn). fold defaults.
        pose proof (defaults_scalar cn k Hin Elk Hns) as Hds.
        destruct (default_lines defaults cn) as [|d [|d2 t]] eqn:Ed; cbn [dval_of]; [| |destruct Hds].
        - eexists. split; [reflexivity|]. intros st1 Hc Hd1. split; [|intros E; congruence].
          unfold view_of. rewrite Hc. cbn [cval_of_pyval pyval_of_kw kw_of]. rewrite beqb_refl, Hd1.
          unfold typed_value. cbn [nonempty_values filter]. rewrite Ed, DEFAULT_agree.
          destruct k; try discriminate Elk; try congruence; reflexivity.
        - destruct (parse_text_agrees k d Elk Hns Hds) as [a' [Hpa Hps]].
          destruct (parse_scalar_not_default _ _ _ Elk Hns Hps) as [_ Hnstr].
          rewrite Hpa. cbn [bind cval_of_pyval]. eexists. split; [reflexivity|]. intros st1 Hc Hd1.
          split; [|intros E; congruence].
          rewrite (view_atom _ _ _ Hnstr Hc). unfold typed_value. cbn [nonempty_values filter]. rewrite Ed.
          destruct k; try discriminate Elk; try congruence; now rewrite Hps. }
      destruct (boot_scalar i Hdfl st cn k vals Hin Elk Hv (fun v Hi => or_intror (Hall v Hi))) as [parsed [Hp _]].
      assert (exists cv,
                (if negb (pyval_is_str (getconf_value vals) DEFAULT_VALUE)
                 then do parsed0 <- parse (pk_of k) (getconf_value vals); Ok (cval_of_pyval false parsed0)
                 else match dget cn (m_defaults st) with
                      | Some (DStr s) => do parsed0 <- parse (pk_of k) (PAtom (AStr s)); Ok (cval_of_pyval false parsed0)
                      | Some (DList _) => Oos
                      | None => Ok (cval_of_pyval false (getconf_value vals))
                      end) = Ok cv /\ cv = cval_of_pyval false parsed) as [cv [Hcv ->]].
      { unfold scalar_expr in Hp. fold ddict in Hp. rewrite HD.
        destruct vals as [|v0 [|v1 vs]].
        - cbn [getconf_value pyval_is_str] in Hp |- *. rewrite beqb_refl in Hp |- *. rewrite orb_true_r in Hp. cbn [negb].
          destruct (dget cn ddict) as [[s|dl]|].
          + rewrite Hp. cbn [bind]. eauto.
          + discriminate.
          + (* no default known: the sentinel stays; only string kinds can be unset *)
            assert (k = KStr) as -> by (destruct k; try discriminate Elk; try congruence; cbn [tor_values_ok] in Hv; try discriminate Hv; reflexivity).
            cbn [pk_of ty_of fst parse] in Hp. inversion Hp. eauto.
        - pose proof (Hall v0 (or_introl eq_refl)) as Htv. destruct (tor_value_facts _ Htv) as [Hne [_ [Hnd [Hu _]]]].
          cbn [getconf_value pyval_is_str] in Hp |- *. rewrite Hu in Hp |- *. rewrite Hnd in Hp |- *.
          assert (beqb v0 [] = false) as Hn0 by (destruct v0; [congruence|reflexivity]). rewrite Hn0 in Hp. cbn [orb negb] in Hp |- *.
          rewrite Hp. cbn [bind]. eauto.
        - cbn [getconf_value pyval_is_str orb negb] in Hp |- *. rewrite Hp. cbn [bind]. eauto. }
      exists (cval_of_pyval false parsed). split; [exact Hcv|]. intros st1 Hc Hd1.
      destruct (boot_scalar i Hdfl st1 cn k vals Hin Elk Hv (fun v Hi => or_intror (Hall v Hi))) as [parsed1 [Hp1 Hs]].
      rewrite Hp in Hp1. inversion Hp1. subst parsed1. now apply Hs.
  Qed.
End EventValue.

(* ------------------------------------------------------------------ the event step of the simulation *)
Lemma name_char_plain c : name_char c = true -> is_space c = false /\ Ascii.eqb c EQC = false.
Proof.
  destruct c as [b0 b1 b2 b3 b4 b5 b6 b7].
  destruct b0, b1, b2, b3, b4, b5, b6, b7; vm_compute; intros H; try (split; reflexivity); discriminate H.
Qed.

Section EventSim.
  Variable i : cfg_input.
  Let table := i_table i.
  Let opts := options table.
  Let defaults := i_defaults i.
  Let ddict := match i_defaults i with None => [] | Some ls => fold_left add_default ls [] end.
  Hypothesis Htab : table_ok table = true.
  Hypothesis Hdfl : defaults_ok opts defaults = true.
  Variable names : list bytes.
  Hypothesis names_eq : names = map fst opts.

  Let Hnd : nodup_ci (map fst opts) = true := in_opts_nodup i Htab.

  (* what op_ok says about one item of an event *)
  Lemma item_facts items it :
    forallb (event_item_ok opts items) items = true -> In it items ->
    exists k, In (fst it, k) opts /\
      match snd it with Some v => tor_value_ok v = true | None => values_of_key (fst it) items = [] end /\
      is_nil (values_of_key (fst it) items) || tor_values_ok k (values_of_key (fst it) items) = true.
  Proof.
    intros H Hin. pose proof (proj1 (forallb_forall _ _) H it Hin) as X. unfold event_item_ok in X.
    destruct (dfind_ci (fst it) opts) as [[cn k]|] eqn:E; [|discriminate].
    apply andb_true_iff in X as [X X3]. apply andb_true_iff in X as [X1 X2]. apply beqb_eq in X1. subst cn.
    destruct (dfind_ci_In _ _ _ _ E) as [Ho _]. exists k. split; [assumption|]. split; [|assumption].
    destruct (snd it) as [v|]; [assumption|]. destruct (values_of_key (fst it) items); [reflexivity|discriminate].
  Qed.

  Lemma key_wf_opt cn k : In (cn, k) opts -> key_wf cn.
  Proof.
    intros Hin. destruct (in_opts_facts i Htab _ _ Hin) as [Hr Hn].
    unfold name_ok in Hn. apply andb_true_iff in Hn as [Hn _]. apply andb_true_iff in Hn as [Hne Hc].
    split; [destruct cn; [discriminate|discriminate]|]. split; [|split].
    - apply forallb_forall. intros c Hc'. pose proof (proj1 (forallb_forall _ _) Hc c Hc') as X.
      now rewrite (proj1 (name_char_plain _ X)).
    - destruct (memb EQC cn) eqn:E; [|reflexivity]. exfalso. apply memb_In in E.
      pose proof (proj1 (forallb_forall _ _) Hc EQC E) as X. discriminate X.
    - destruct (beqb cn OK_word) eqn:E; [|reflexivity]. exfalso. apply beqb_eq in E. subst cn.
      assert (mem_ci OK_word reserved_names = true) as Y by (vm_compute; reflexivity). congruence.
  Qed.

  (* with canonical keys, the Spec's grouping (case-insensitive, empty values dropped) is the plain one *)
  Lemma values_vals items cn k :
    (forall it, In it items -> exists k0, In (fst it, k0) opts) ->
    (forall it v, In it items -> snd it = Some v -> v <> []) ->
    In (cn, k) opts -> values_of_key cn items = vals_of cn items.
  Proof.
    intros Hk Hv Hin. unfold values_of_key, vals_of. f_equal. apply map_ext_in. intros it Hi.
    destruct (Hk it Hi) as [k0 Ho].
    assert (ci_eqb (fst it) cn = beqb (fst it) cn) as ->.
    { destruct (beqb (fst it) cn) eqn:E; [apply beqb_eq in E; rewrite E; apply ci_refl|].
      destruct (ci_eqb (fst it) cn) eqn:E2; [|reflexivity]. exfalso.
      assert (fst it = cn) as X; [|rewrite X, beqb_refl in E; discriminate].
      eapply nodup_ci_unique; [exact Hnd| | |exact E2]; [now apply (in_map fst) in Ho|now apply (in_map fst) in Hin]. }
    destruct (beqb (fst it) cn); [|reflexivity]. destruct (snd it) as [[|c r]|] eqn:E; try reflexivity.
    exfalso. now apply (Hv it [] Hi E).
  Qed.

  Lemma mem_bytes_app k l1 l2 : mem_bytes k (l1 ++ l2) = mem_bytes k l1 || mem_bytes k l2.
  Proof. induction l1; cbn; [reflexivity|]. now rewrite IHl1, orb_assoc. Qed.

  Lemma det_mem items (pend : list (bytes * ival)) det cn :
    (forall it, In it items -> canon opts (fst it) = fst it) ->
    mem_bytes cn (concat (map (fun it : bytes * option bytes =>
                                 let c := canon opts (fst it) in if dmem c pend then [c] else []) items) ++ det)
    = (existsb (fun it : bytes * option bytes => beqb (fst it) cn) items && dmem cn pend) || mem_bytes cn det.
  Proof.
    intros Hc. rewrite mem_bytes_app. f_equal. cbv zeta.
    induction items as [|it items IH]; [reflexivity|].
    cbn [map concat existsb]. rewrite (Hc it (or_introl eq_refl)).
    rewrite mem_bytes_app, IH by (intros x Hx; apply Hc; now right).
    destruct (dmem (fst it) pend) eqn:Ed; cbn [mem_bytes].
    - destruct (beqb (fst it) cn) eqn:E; cbn [orb andb]; [|reflexivity]. apply beqb_eq in E. subst cn. now rewrite Ed.
    - destruct (beqb (fst it) cn) eqn:E; cbn [orb andb]; [|reflexivity]. apply beqb_eq in E. subst cn. rewrite Ed.
      now rewrite !andb_false_r.
  Qed.

  Lemma sim_event st m items st' ob :
    Rel opts defaults st m -> op_ok opts (OpEvent items) = true ->
    m_step names st (OpEvent items) = Some (st', ob) ->
    step_ok opts defaults st m (OpEvent items) st' ob.
  Proof.
    intros R Hok H. cbn [op_ok op_ok_gen] in Hok. apply andb_true_iff in Hok as [_ Hitems].
    assert (forall it, In it items -> exists k, In (fst it, k) opts) as Hkeys
      by (intros it Hi; destruct (item_facts _ _ Hitems Hi) as [k [Hk _]]; eauto).
    assert (forall it v, In it items -> snd it = Some v -> tor_value_ok v = true) as Hvals.
    { intros it v Hi E. destruct (item_facts _ _ Hitems Hi) as [k [_ [X _]]]. now rewrite E in X. }
    assert (forall it v, In it items -> snd it = Some v -> v <> []) as Hvne
      by (intros it v Hi E; exact (proj1 (tor_value_facts _ (Hvals it v Hi E)))).
    assert (Forall item_wf items) as Hwf.
    { apply Forall_forall. intros it Hi. destruct (Hkeys it Hi) as [k Hk]. split; [eapply key_wf_opt; eassumption|].
      destruct (snd it) as [v|] eqn:E; [|exact I]. exact (tor_value_unquote _ (Hvals it v Hi E)). }
    assert (forall cn, In cn (map fst items) -> forall k, In (cn, k) opts -> values_of_key cn items = vals_of cn items) as Hvv
      by (intros cn _ k Hin; eapply values_vals; eassumption).
    assert (valued_only items) as Hvo.
    { intros k Hk. apply existsb_exists in Hk as [it [Hi Hb]]. apply andb_true_iff in Hb as [Hb1 Hb2].
      apply beqb_eq in Hb1. subst k. destruct (snd it) eqn:E; [discriminate|].
      destruct (item_facts _ _ Hitems Hi) as [k [Hk [X _]]]. rewrite E in X.
      rewrite <- (Hvv (fst it) (in_map fst _ _ Hi) k Hk). exact X. }
    pose proof (event_dict items Hwf Hvo) as Hdict.
    set (d := parse_keywords_single (event_lines items)) in *.
    pose proof (parse_keywords_nodup (event_lines items)) as Hdn. fold d in Hdn.
    (* every dictionary entry is an announced option with a computable value *)
    assert (forall k kw, In (k, kw) d ->
              In k (map fst items) /\ kw = kw_of (vals_of k items) /\
              exists kind, In (k, kind) opts /\
                           is_nil (vals_of k items) || tor_values_ok kind (vals_of k items) = true /\
                           (forall v, In v (vals_of k items) -> tor_value_ok v = true)) as Hentry.
    { intros k kw Hin. pose proof (dget_first _ _ _ Hdn Hin) as Hg. rewrite Hdict in Hg.
      assert (In k (map fst items)) as Hki.
      { destruct (in_dec (list_eq_dec ascii_dec) k (map fst items)) as [Hi|Hi]; [assumption|]. exfalso.
        destruct (absent_key k items Hi) as [E1 E2]. rewrite E1, E2 in Hg. discriminate. }
      split; [assumption|].
      pose proof Hki as Hki'. apply in_map_iff in Hki' as [it [Hfi Hi]].
      destruct (item_facts _ _ Hitems Hi) as [kind [Hk [_ Htv]]]. rewrite Hfi in *.
      rewrite (Hvv k Hki kind Hk) in Htv.
      split.
      - unfold rep in Hg. destruct (kwonly k items) eqn:Ek.
        + rewrite (Hvo k Ek). now inversion Hg.
        + destruct (vals_of k items) as [|v0 [|v1 vs]]; inversion Hg; reflexivity.
      - exists kind. split; [assumption|]. split; [assumption|].
        intros v Hv. unfold vals_of in Hv. apply in_concat in Hv as [b [Hb Hv]]. apply in_map_iff in Hb as [it2 [<- Hi2]].
        destruct (beqb (fst it2) k); [|destruct Hv]. destruct (snd it2) as [v2|] eqn:E2; [|destruct Hv].
        destruct Hv as [<-|[]]. eapply Hvals; eassumption. }
    destruct (r_clean _ _ _ _ R) as [C1 C3].
    (* run the handler *)
    destruct (cc_items_effect d st Hdn) as [s1 [Ecc [HP [HD [HA [HB [HU [HK HM]]]]]]]].
    { intros k kw Hin. destruct (Hentry k kw Hin) as [Hki [-> [kind [Hk [Htv Hall]]]]].
      split; [eapply find_real_name_canon; eassumption|]. split; [exact (r_cfg _ _ _ _ R _ _ Hk)|].
      destruct (event_value i Hdfl st k kind (vals_of k items) Hk Htv Hall
                            (r_ptys _ _ _ _ R _ _ Hk)) as [cv [Hcv _]].
      { rewrite (r_dfl _ _ _ _ R _ _ Hk). symmetry. apply defaults_dict_whole. }
      { exact (r_listp _ _ _ _ R _ _ Hk). }
      eauto. }
    assert (forall k, In k (map fst d) <-> In k (map fst items)) as Hdk.
    { intros k. split.
      - intros Hi. apply dget_in_keys in Hi as [kw Hg]. exact (proj1 (Hentry k kw (dget_In _ _ _ Hg))).
      - intros Hi. apply dget_mem_keys. unfold dmem. rewrite Hdict.
        destruct (kwonly k items) eqn:Ek; [reflexivity|]. cbn [rep].
        destruct (vals_of k items) as [|v0 [|v1 vs]] eqn:Ev; try reflexivity. exfalso.
        (* k occurs, not keyword-only, so it has a value *)
        apply in_map_iff in Hi as [it [Hfi Hit]]. destruct (snd it) as [v|] eqn:Es.
        + assert (In v (vals_of k items)) as X; [|rewrite Ev in X; destruct X].
          unfold vals_of. apply in_concat. exists [v]. split; [|now left]. apply in_map_iff. exists it.
          rewrite Hfi, beqb_refl, Es. auto.
        + assert (kwonly k items = true) as X; [|congruence]. apply existsb_exists. exists it.
          rewrite Hfi, beqb_refl, Es. auto. }
    cbn [m_step m_step_gen] in H. unfold m_conf_changed in H. fold d in H. rewrite Ecc in H.
    set (m' := mon_step opts defaults m (OpEvent items)).
    (* the new relation *)
    assert (Rel opts defaults s1 m') as R'.
    { assert (forall it, In it items -> canon opts (fst it) = fst it) as Hcanon.
      { intros it Hi. destruct (Hkeys it Hi) as [k Hk]. eapply canon_self; eassumption. }
      assert (forall cn, mem_bytes cn (m_det m') =
                         (existsb (fun it : bytes * option bytes => beqb (fst it) cn) items && dmem cn (s_pend (m_st m))) || mem_bytes cn (m_det m)) as Hdet.
      { intros cn. unfold m'. cbn [mon_step mon_step_gen m_det]. now apply det_mem. }
      assert (forall cn, existsb (fun it : bytes * option bytes => beqb (fst it) cn) items = true <-> In cn (map fst items)) as Hex.
      { intros cn. rewrite existsb_exists. split.
        - intros [it [Hi Hb]]. apply beqb_eq in Hb. subst cn. now apply in_map.
        - intros Hi. apply in_map_iff in Hi as [it [Hf Hi]]. exists it. split; [assumption|]. rewrite Hf. apply beqb_refl. }
      assert (forall cn k, In (cn, k) opts -> store_get (s_store (m_st m')) cn =
                if existsb (fun it : bytes * option bytes => beqb (fst it) cn) items then vals_of cn items
                else store_get (s_store (m_st m)) cn) as Hstore.
      { intros cn k Hin. unfold m'. cbn [mon_step mon_step_gen m_st]. unfold spec_next, spec_next_gen, event_entries. cbn [s_store].
        rewrite (apply_entries_get opts Hnd items (s_store (m_st m)) cn) by (intros e He; apply Hkeys; exact He).
        change (existsb (fun it : bytes * option bytes => beqb (fst it) cn) items)
          with (existsb (fun e : entry => beqb (fst e) cn) items).
        destruct (existsb (fun e : entry => beqb (fst e) cn) items) eqn:Ee; [|reflexivity].
        apply Hvv with (k := k); [|assumption]. now apply Hex. }
      destruct R as [R1 R2 R3 R4 R5 R6 R7 R9 R8 R10].
      constructor.
      - rewrite HP. exact R1.
      - intros cn k Hin. rewrite HP. now apply R2.
      - intros cn k Hin. apply HM. eapply R3; eassumption.
      - intros cn k Hin. rewrite HD. now apply R4 with (k := k).
      - (* sync *)
        intros cn k Hin Hp. unfold m' in Hp. cbn [mon_step mon_step_gen m_st] in Hp. unfold spec_next, spec_next_gen in Hp. cbn [s_pend] in Hp.
        destruct (R5 _ _ Hin Hp) as [Hu Hs].
        destruct (in_dec (list_eq_dec ascii_dec) cn (map fst items)) as [Hi|Hi].
        + split.
          * rewrite (HU cn (proj2 (Hdk cn) Hi)), Hu. reflexivity.
          * destruct (dget_in_keys _ _ (proj2 (Hdk cn) Hi)) as [kw Hg].
            destruct (Hentry cn kw (dget_In _ _ _ Hg)) as [_ [-> [kind [Hk [Htv Hall]]]]].
            assert (kind = k) by (eapply opts_kind_unique; eassumption). subst kind.
            destruct (HA cn _ (dget_In _ _ _ Hg)) as [cv [Hcv Hc1]].
            destruct (event_value i Hdfl st cn k (vals_of cn items) Hk Htv Hall (R2 _ _ Hk)) as [cv' [Hcv' Hsy]].
            { rewrite (R4 _ _ Hk). symmetry. apply defaults_dict_whole. }
            { exact (R10 _ _ Hk). }
            rewrite Hcv in Hcv'. inversion Hcv'. subst cv'.
            unfold synced. rewrite (Hstore cn k Hin), (proj2 (Hex cn) Hi).
            apply Hsy; [assumption|]. rewrite HD, (R4 _ _ Hk). symmetry. apply defaults_dict_whole.
        + assert (~ In cn (map fst d)) as Hnd' by (intros X; apply Hi; now apply Hdk).
          destruct (HB cn Hnd') as [B1 B2]. split; [now rewrite B2|].
          unfold synced. rewrite (Hstore cn k Hin).
          assert (existsb (fun it : bytes * option bytes => beqb (fst it) cn) items = false) as ->.
          { destruct (existsb (fun it : bytes * option bytes => beqb (fst it) cn) items) eqn:E; [|reflexivity].
            exfalso. apply Hi. now apply Hex. }
          eapply synced_frame; [exact B1|now rewrite HD|exact Hs].
      - (* pend *)
        intros cn iv Hp. unfold m' in Hp. cbn [mon_step mon_step_gen m_st] in Hp. unfold spec_next, spec_next_gen in Hp. cbn [s_pend] in Hp.
        destruct (R6 _ _ Hp) as [k [Hin Hpr]]. exists k. split; [assumption|].
        assert (dmem cn (s_pend (m_st m)) = true) as Hdm by (unfold dmem; now rewrite Hp).
        destruct (in_dec (list_eq_dec ascii_dec) cn (map fst items)) as [Hi|Hi].
        + assert (mem_bytes cn (m_det m') = true) as Hmd by (rewrite Hdet, (proj2 (Hex cn) Hi), Hdm; reflexivity).
          pose proof (HU cn (proj2 (Hdk cn) Hi)) as Hu1.
          destruct iv as [s|l]; cbn [pend_rel] in Hpr |- *.
          * destruct Hpr as [a [Hu [Ht Hd0]]]. rewrite Hu in Hu1. exists a. split; [exact Hu1|]. split; [assumption|].
            destruct Hd0 as [Hd0|[Hk1 [Ha [Hcs _]]]]; [left; assumption|right; auto].
          * destruct Hpr as [Hlk [Hf [[Hu [Hc _]]|[Hu _]]]]; (split; [assumption|]); (split; [assumption|]); right.
            -- rewrite Hu, Hc in Hu1. auto.
            -- rewrite Hu in Hu1. auto.
        + assert (~ In cn (map fst d)) as Hnd' by (intros X; apply Hi; now apply Hdk).
          destruct (HB cn Hnd') as [B1 B2].
          eapply pend_rel_frame with (cn := []); [ |exact B2|exact B1| |exact Hpr].
          * intros E. subst cn. destruct (in_opts_facts i Htab _ _ Hin) as [_ Hn]. discriminate Hn.
          * rewrite Hdet. assert (existsb (fun it : bytes * option bytes => beqb (fst it) cn) items = false) as ->; [|reflexivity].
            destruct (existsb (fun it : bytes * option bytes => beqb (fst it) cn) items) eqn:E; [|reflexivity].
            exfalso. apply Hi. now apply Hex.
      - rewrite HK. exact R7.
      - rewrite HK. exact R9.
      - unfold m'. cbn [mon_step mon_step_gen m_f1 m_f3]. exact R8.
      - intros cn k Hin. rewrite (conf_changed_items_listp _ _ _ Ecc). now apply R10. }
    destruct (snapshot_sim opts defaults Hnd s1 m' opts R' (fun c k0 Hc => Hc)) as [snap [Hs Hok']].
    rewrite <- names_eq in Hs. rewrite Hs in H. inversion H. subst st' ob. clear H.
    split; [|exact R'].
    cbn [spec_check spec_check_gen o_wrote o_res is_nil andb].
    assert (match m_unsaved s1 with [] => false | _ :: _ => true end = negb (is_nil (s_pend (m_st m)))) as ->.
    { pose proof (r_ukeys _ _ _ _ R) as Hk0. rewrite <- HK in Hk0.
      destruct (m_unsaved s1), (s_pend (m_st m)); cbn in Hk0; try discriminate; reflexivity. }
    rewrite eqb_reflx. cbn [andb]. rewrite <- mon_step_st. exact Hok'.
  Qed.
End EventSim.
