(* Simulation, part 2: save() -- the SETCONF line is exactly the Spec's rendering of the pending
   set; after an acknowledgement the model's view is the Spec's reading of Tor's new store;
   after a rejection everything stays pending. *)
From Coq Require Import String.
From Coq Require Import List Bool Ascii Arith NArith ZArith Lia.
From TxVerif Require Import Lib.Bytes Lib.CfgLib Spec.CfgTypes Spec.TorStore Spec.CfgOracle Spec.C10
  Model.ConfigKinds Gen.ConfigTypes Model.Config
  Proofs.CfgLibProofs Proofs.CfgWire Proofs.C10Proofs Proofs.CfgAgree Proofs.CfgSpecLemmas Proofs.CfgSim.
Import ListNotations.
Open Scope N_scope.

Section SimSave.
  Variable opts : list (bytes * kind).
  Variable defaults : option (list (bytes * bytes)).
  Hypothesis opts_nodup : nodup_ci (map fst opts) = true.
  Hypothesis opts_not_hs : forall cn k, In (cn, k) opts -> ci_eqb cn hiddenservices_lc = false.
  Hypothesis opts_keys_ok : forall cn k, In (cn, k) opts -> key_refused cn = false.
  Variable names : list bytes.
  Hypothesis names_eq : names = map fst opts.

  Notation Rel := (Rel opts defaults).

  (* the Python value behind a pending entry, vs the Spec's intended value *)
  Definition value_rel (iv : ival) (v : cval) : Prop :=
    match iv with
    | IList l => v = CList true l
    | IScalar s => exists a, v = CAtom a /\ atom_text a = s
    end.

  Lemma pend_value st m cn iv :
    Rel st m -> dget cn (s_pend (m_st m)) = Some iv ->
    exists u v, dget cn (m_unsaved st) = Some u /\ resolve st cn u = Some v /\ value_rel iv v.
  Proof.
    intros R Hp. destruct (r_pend _ _ _ _ R _ _ Hp) as [k [Hin Hpr]].
    destruct iv as [s|l]; cbn [pend_rel] in Hpr.
    - destruct Hpr as [a [Hu [Ht _]]]. exists (UVal (CAtom a)), (CAtom a). cbn. eauto.
    - destruct Hpr as [_ [_ [[Hu [Hc _]]|[Hu _]]]].
      + exists UAlias, (CList true l). cbn. auto.
      + exists (UVal (CList true l)), (CList true l). cbn. auto.
  Qed.

  Lemma pend_nodup st m : Rel st m -> NoDup (map fst (s_pend (m_st m))).
  Proof. intros R. rewrite <- (r_ukeys _ _ _ _ R). exact (r_nodup _ _ _ _ R). Qed.

  Lemma pend_keys_opts st m cn : Rel st m -> In cn (map fst (s_pend (m_st m))) -> exists k, In (cn, k) opts.
  Proof.
    intros R Hin. apply in_map_iff in Hin as [[c iv] [Hc Hin]]. cbn in Hc. subst c.
    pose proof (dget_first _ _ _ (pend_nodup _ _ R) Hin) as Hg.
    destruct (r_pend _ _ _ _ R _ _ Hg) as [k [Hk _]]. eauto.
  Qed.

  Lemma pend_nodup_ci st m : Rel st m -> nodup_ci (map fst (s_pend (m_st m))) = true.
  Proof.
    intros R. apply (nodup_ci_sub (map fst opts)); [exact opts_nodup|exact (pend_nodup _ _ R)|].
    intros x Hx. destruct (pend_keys_opts _ _ _ R Hx) as [k Hk]. now apply (in_map fst) in Hk.
  Qed.

  (* ---- the arguments of the SETCONF are the Spec's rendering of the pending set ---- *)
  Lemma item_block st cn u v iv :
    resolve st cn u = Some v -> value_rel iv v -> (iv <> IList []) ->
    map entry_of (item_args st (cn, u)) = block (cn, iv).
  Proof.
    intros Hr Hv Hne. unfold item_args. cbn [fst snd]. rewrite Hr. unfold block. cbn [fst snd].
    destruct iv as [s|l]; cbn [value_rel] in Hv.
    - destruct Hv as [a [-> Ht]]. cbn. now rewrite Ht.
    - subst v. destruct l as [|a l]; [congruence|]. cbn [args_of entries_for]. rewrite !map_map. reflexivity.
  Qed.

  Lemma args_lockstep st : forall (U : list (bytes * uval)) (P : list (bytes * ival)),
    map fst U = map fst P ->
    (forall cn u iv, In (cn, u) U -> In (cn, iv) P -> map entry_of (item_args st (cn, u)) = block (cn, iv)) ->
    map entry_of (concat (map (item_args st) U)) = concat (map block P).
  Proof.
    induction U as [|[c u] U IH]; intros [|[c' iv] P] Hk Hpt; cbn in Hk; try discriminate; [reflexivity|].
    inversion Hk as [[Hc Hk']]. subst c'. cbn [map concat]. rewrite map_app. f_equal.
    - apply Hpt; now left.
    - apply IH; [assumption|]. intros cn u0 iv0 H1 H2. apply Hpt; now right.
  Qed.

  Lemma args_are_pend_entries st m :
    Rel st m -> has_empty_list (s_pend (m_st m)) = false ->
    map entry_of (pending_args st) = pend_entries (s_pend (m_st m)).
  Proof.
    intros R He. unfold pending_args. rewrite pend_entries_blocks.
    apply args_lockstep; [exact (r_ukeys _ _ _ _ R)|].
    intros cn u iv Hu Hp.
    pose proof (dget_first _ _ _ (pend_nodup _ _ R) Hp) as Hgp.
    pose proof (dget_first _ _ _ (r_nodup _ _ _ _ R) Hu) as Hgu.
    destruct (pend_value _ _ _ _ R Hgp) as [u' [v [Hu' [Hr Hv]]]].
    rewrite Hgu in Hu'. inversion Hu'. subst u'.
    eapply item_block; try eassumption.
    intros ->. assert (has_empty_list (s_pend (m_st m)) = true) as X; [|congruence].
    apply existsb_exists. exists (cn, IList []). auto.
  Qed.

  Lemma args_keys_ok st m :
    Rel st m -> has_empty_list (s_pend (m_st m)) = false ->
    existsb (fun kv : bytes * bytes => key_refused (fst kv)) (pending_args st) = false.
  Proof.
    intros R He. destruct (existsb (fun kv : bytes * bytes => key_refused (fst kv)) (pending_args st)) eqn:E; [|reflexivity].
    exfalso. apply existsb_exists in E as [kv [Hin Hk]].
    assert (In (entry_of kv) (pend_entries (s_pend (m_st m)))) as Hin'
      by (rewrite <- (args_are_pend_entries _ _ R He); now apply in_map).
    apply pend_entries_keys in Hin'. cbn [entry_of fst] in Hin'.
    destruct (pend_keys_opts _ _ _ R Hin') as [k Hk']. rewrite (opts_keys_ok _ _ Hk') in Hk. discriminate.
  Qed.

  (* ---- lists as Tor stores them ---- *)
  Lemma fine_str k a : fine k a = true -> exists s, a = AStr s /\ s <> [] /\ strip s = s /\ (k = KComma -> memb COMMA s = false).
  Proof.
    destruct a as [s|z|b|t]; cbn [fine]; try discriminate. intros H.
    apply andb_true_iff in H as [H Hc]. apply andb_true_iff in H as [Hn Hs].
    exists s. split; [reflexivity|]. split; [destruct s; [discriminate|discriminate]|]. split; [now apply beqb_eq|].
    intros ->. unfold no_comma in Hc. now apply negb_true_iff in Hc.
  Qed.

  Lemma fine_texts k l : forallb (fine k) l = true ->
    l = map AStr (map atom_text l) /\
    nonempty_values (map atom_text l) = map atom_text l /\
    map strip (map atom_text l) = map atom_text l /\
    (k = KComma -> concat (map split_comma (map atom_text l)) = map atom_text l) /\
    concat (map some_nonempty (map (fun a => Some (atom_text a)) l)) = map atom_text l.
  Proof.
    induction l as [|a l IH]; [cbn; auto|].
    cbn [forallb]. intros H. apply andb_true_iff in H as [Ha Hl].
    destruct (IH Hl) as [I1 [I2 [I3 [I4 I5]]]].
    destruct (fine_str _ _ Ha) as [s [-> [Hne [Hs Hc]]]].
    cbn [map atom_text]. repeat split.
    - now rewrite <- I1.
    - cbn [nonempty_values filter]. destruct s; [congruence|]. fold (nonempty_values (map atom_text l)). now rewrite I2.
    - now rewrite Hs, I3.
    - intros Hk. cbn [map concat]. rewrite (I4 Hk). unfold split_comma. rewrite (split_on_no_sep _ _ (Hc Hk)). cbn. now rewrite Hs.
    - cbn [map concat some_nonempty]. destruct s; [congruence|]. cbn. now rewrite I5.
  Qed.

  (* the model's view after config[cn] = a tracked list of fine elements, Tor holding their texts *)
  Lemma synced_list_at st vals cn k l :
    is_list_kind k = true -> forallb (fine k) l = true -> l <> [] ->
    dget cn (m_config st) = Some (CList true l) ->
    vals = map atom_text l ->
    synced_at defaults st vals cn k.
  Proof.
    intros Hlk Hf Hne Hc Hs. destruct (fine_texts _ _ Hf) as [I1 [I2 [I3 [I4 I5]]]].
    split.
    - unfold view_of. rewrite Hc. cbn [rval_of_gotten]. rewrite Hs. unfold typed_value. rewrite I2.
      assert (map atom_text l <> []) as Hne' by (destruct l; [congruence|discriminate]).
      assert (forall (d v : list bytes), v <> [] -> match v with [] => d | _ :: _ => v end = v) as Hm
        by (intros d [|x v] H; [congruence|reflexivity]).
      destruct k; try discriminate Hlk; rewrite (Hm _ _ Hne').
      + now rewrite (I4 eq_refl).
      + now rewrite I3.
      + now rewrite I3.
    - intros _. exists (map atom_text l). rewrite <- I1. auto.
  Qed.

  Lemma synced_list st store_ cn k l :
    is_list_kind k = true -> forallb (fine k) l = true -> l <> [] ->
    dget cn (m_config st) = Some (CList true l) ->
    store_get store_ cn = map atom_text l ->
    synced defaults st store_ cn k.
  Proof. intros. unfold synced. now apply synced_list_at with (l := l). Qed.

  Lemma parse_scalar_not_default k s a' :
    is_list_kind k = false -> k <> KStr -> parse_scalar k s = Some a' ->
    s <> [] /\ (forall x, a' <> AStr x).
  Proof.
    intros Hl Hk H. destruct k; try discriminate Hl; try congruence; cbn [parse_scalar] in H.
    - destruct s; [discriminate|]. destruct (parse_int (a :: s)); [|discriminate]. inversion H. split; congruence.
    - destruct s; [discriminate|]. destruct (beqb (a :: s) auto_word); [inversion H; split; congruence|].
      destruct (parse_int (a :: s)); [|discriminate]. inversion H. split; congruence.
    - destruct s; [discriminate|]. destruct (parse_int (a :: s)); [|discriminate]. inversion H. split; congruence.
    - destruct s; [discriminate|]. destruct (float_canon (a :: s)); [|discriminate]. inversion H. split; congruence.
  Qed.

  Lemma synced_scalar st store_ cn k a a' :
    is_list_kind k = false -> validated k a -> (k = KStr -> text_ok (atom_text a) = true) ->
    parse (pk_of k) (PAtom a) = Ok (PAtom a') -> parse_scalar k (atom_text a) = Some a' ->
    dget cn (m_config st) = Some (CAtom a') ->
    store_get store_ cn = [atom_text a] ->
    synced defaults st store_ cn k.
  Proof.
    intros Hl Hv Ht Hp Hps Hc Hs. split; [|intros E; congruence].
    assert (atom_text a <> [] /\ view_of st cn = Some (RAtom a')) as [Hne Hview].
    { destruct (kind_eqb k KStr) eqn:Ek.
      - assert (k = KStr) by (destruct k; try discriminate Ek; reflexivity). subst k.
        pose proof (Ht eq_refl) as Hto. cbn [parse_scalar] in Hps. inversion Hps. subst a'.
        unfold text_ok in Hto. repeat (apply andb_true_iff in Hto as [Hto ?]).
        split; [destruct (atom_text a); [discriminate|discriminate]|].
        unfold view_of. rewrite Hc.
        assert (beqb (atom_text a) DEFAULT_VALUE = false) as ->; [|reflexivity].
        rewrite DEFAULT_agree. match goal with H : negb (beqb _ DEFAULT_word) = true |- _ => now apply negb_true_iff in H end.
      - assert (k <> KStr) as Hk by (intros ->; discriminate Ek).
        destruct (parse_scalar_not_default _ _ _ Hl Hk Hps) as [Hne Hns]. split; [assumption|].
        unfold view_of. rewrite Hc. destruct a' as [x|z|b|t]; try reflexivity. exfalso. eapply Hns. reflexivity. }
    rewrite Hview, Hs. unfold typed_value.
    destruct (atom_text a) as [|c r] eqn:E; [congruence|].
    cbn [nonempty_values filter].
    destruct k; try discriminate Hl; now rewrite Hps.
  Qed.

  Lemma synced_comma_text_at st vals cn s :
    comma_text_ok s = true ->
    dget cn (m_config st) = Some (CList true (map AStr (split_comma s))) ->
    vals = [s] ->
    synced_at defaults st vals cn KComma.
  Proof.
    intros Hok Hc Hs. unfold comma_text_ok in Hok. apply andb_true_iff in Hok as [Ht Hel].
    assert (s <> []) as Hne.
    { unfold text_ok in Ht. repeat (apply andb_true_iff in Ht as [Ht ?]). destruct s; [discriminate|discriminate]. }
    split.
    - unfold view_of. rewrite Hc. cbn [rval_of_gotten]. rewrite map_atom_text_AStr, Hs.
      unfold typed_value. cbn [nonempty_values filter]. destruct s as [|c r] eqn:E; [congruence|]. rewrite <- E.
      cbn [map concat]. now rewrite app_nil_r.
    - intros _. exists (split_comma s). split; [assumption|].
      apply forallb_forall. intros a Ha. apply in_map_iff in Ha as [x [<- Hx]].
      unfold split_comma in Hx. apply in_map_iff in Hx as [p [<- Hp]].
      cbn [fine]. repeat (apply andb_true_iff; split).
      + apply (proj1 (forallb_forall _ _) Hel). unfold split_comma. now apply in_map.
      + apply beqb_eq. apply strip_idem.
      + unfold no_comma. apply negb_true_iff. apply memb_strip. eapply split_on_pieces. eassumption.
  Qed.

  (* an unset comma list whose config/defaults line is d reads as the elements of d *)
  Lemma synced_comma_default_at st vals cn d :
    comma_text_ok d = true ->
    dget cn (m_config st) = Some (CList true (map AStr (split_comma d))) ->
    nonempty_values vals = [] -> default_lines defaults cn = [d] ->
    synced_at defaults st vals cn KComma.
  Proof.
    intros Hok Hc Hne Hd.
    destruct (synced_comma_text_at st [d] cn d Hok Hc eq_refl) as [_ H2].
    split; [|exact H2].
    unfold view_of. rewrite Hc. cbn [rval_of_gotten]. rewrite map_atom_text_AStr.
    unfold typed_value. rewrite Hne, Hd. cbn [map concat]. now rewrite app_nil_r.
  Qed.

  Lemma synced_comma_text st store_ cn s :
    comma_text_ok s = true ->
    dget cn (m_config st) = Some (CList true (map AStr (split_comma s))) ->
    store_get store_ cn = [s] ->
    synced defaults st store_ cn KComma.
  Proof. intros. unfold synced. now apply synced_comma_text_at with (s := s). Qed.

  Lemma mem_scalar_keys pend cn iv :
    NoDup (map fst pend) -> dget cn pend = Some iv ->
    mem_bytes cn (scalar_keys pend) = match iv with IScalar _ => true | IList _ => false end.
  Proof.
    induction pend as [|[c0 iv0] pend IH]; cbn [dget map fst]; [discriminate|].
    intros Hnd Hg. inversion Hnd as [|? ? Hn Hnd']. subst.
    assert (forall c, mem_bytes c (scalar_keys pend) = true -> In c (map fst pend)) as Hsub.
    { clear. induction pend as [|[c1 iv1] pend IH]; cbn; [discriminate|].
      intros c. unfold scalar_keys. cbn [map concat]. fold (scalar_keys pend).
      destruct iv1; cbn [app mem_bytes snd fst]; [|intros H; right; now apply IH].
      intros H. apply orb_true_iff in H as [H|H]; [apply beqb_eq in H; now left|right; now apply IH]. }
    unfold scalar_keys. cbn [map concat]. fold (scalar_keys pend).
    destruct (beqb c0 cn) eqn:E.
    - apply beqb_eq in E. subst c0. inversion Hg. subst iv0.
      destruct iv as [s|l]; cbn [snd fst app mem_bytes].
      + now rewrite beqb_refl.
      + destruct (mem_bytes cn (scalar_keys pend)) eqn:Em; [|reflexivity]. exfalso. apply Hn. now apply Hsub.
    - destruct iv0; cbn [snd fst app mem_bytes]; [rewrite E; cbn [orb]|]; now apply IH.
  Qed.

  Lemma dget_not_in {A} k (d : list (bytes * A)) : ~ In k (map fst d) -> dget k d = None.
  Proof.
    intros H. destruct (dget k d) eqn:E; [|reflexivity]. exfalso. apply H.
    apply dget_In in E. now apply (in_map fst) in E.
  Qed.

  Lemma dget_in_keys {A} k (d : list (bytes * A)) : In k (map fst d) -> exists v, dget k d = Some v.
  Proof.
    intros H. apply dget_mem_keys in H. unfold dmem in H. destruct (dget k d); [eauto|discriminate].
  Qed.

  (* the facts save_loop_effect_whole provides *)
  Definition loop_facts (st sl : mst) : Prop :=
    (forall k u, In (k, u) (m_unsaved st) ->
       exists value nv, resolve st k u = Some value /\ saved_value st k value = Some nv /\
                        dget k (m_config sl) = Some nv /\ dget k (m_unsaved sl) = Some (pending_after value)) /\
    (forall k, ~ In k (map fst (m_unsaved st)) -> dget k (m_config sl) = dget k (m_config st)) /\
    m_parsers sl = m_parsers st /\ m_defaults sl = m_defaults st /\ m_listp sl = m_listp st.

  (* config[cn] after the loop, for a pending option *)
  Lemma loop_config st m sl cn iv k :
    Rel st m -> loop_facts st sl -> dget cn (s_pend (m_st m)) = Some iv -> In (cn, k) opts ->
    pend_rel st (m_det m) cn k iv ->
    match iv with
    | IList l => dget cn (m_config sl) = Some (CList true l) /\ dget cn (m_unsaved sl) = Some UAlias
    | IScalar s =>
        exists a, atom_text a = s /\ dget cn (m_unsaved sl) = Some (UVal (CAtom a)) /\
                  exists pv, parse (pk_of k) (PAtom a) = Ok pv /\ dget cn (m_config sl) = Some (cval_of_pyval true pv)
    end.
  Proof.
    intros R [A [B [HP HD]]] Hp Hin Hpr.
    destruct (pend_value _ _ _ _ R Hp) as [u [v [Hu [Hr Hv]]]].
    destruct (A cn u (dget_In _ _ _ Hu)) as [value [nv [Hr' [Hsv [Hc Hus]]]]].
    rewrite Hr in Hr'. inversion Hr'. subst value.
    destruct iv as [s|l]; cbn [value_rel] in Hv.
    - destruct Hv as [a [-> Ht]]. exists a. split; [assumption|]. split; [exact Hus|].
      cbn [saved_value] in Hsv. rewrite (r_ptys _ _ _ _ R _ _ Hin) in Hsv.
      destruct (ty_of k) as [[pk vk] il] eqn:Ety.
      assert (pk = pk_of k) by (unfold pk_of; now rewrite Ety). subst pk.
      destruct (parse (pk_of k) (PAtom a)) as [pv|e|]; try discriminate. inversion Hsv. subst nv. eauto.
    - subst v. cbn [saved_value] in Hsv. inversion Hsv. subst nv. auto.
  Qed.

  Lemma canonical_pend_entries st m : Rel st m -> canonical_keys opts (pend_entries (s_pend (m_st m))).
  Proof. intros R e He. apply pend_entries_keys in He. exact (pend_keys_opts _ _ _ R He). Qed.

  Lemma cfg_after_loop st m sl cn k :
    Rel st m -> loop_facts st sl -> In (cn, k) opts -> dmem cn (m_config sl) = true.
  Proof.
    intros R [A [B _]] Hin. unfold dmem.
    destruct (in_dec (list_eq_dec ascii_dec) cn (map fst (m_unsaved st))) as [Hi|Hi].
    - destruct (dget_in_keys _ _ Hi) as [u Hu].
      destruct (A cn u (dget_In _ _ _ Hu)) as [value [nv [_ [_ [Hc _]]]]]. now rewrite Hc.
    - rewrite (B cn Hi). exact (r_cfg _ _ _ _ R _ _ Hin).
  Qed.

  (* ---- Tor acknowledged ---- *)
  Lemma rel_after_accept st m sl :
    Rel st m -> loop_facts st sl -> has_empty_list (s_pend (m_st m)) = false ->
    has_odd_list (s_pend (m_st m)) = false ->
    Rel (with_unsaved sl [])
        {| m_st := {| s_store := apply_entries opts (s_store (m_st m)) (pend_entries (s_pend (m_st m))); s_pend := [] |};
           m_det := []; m_f1 := false; m_f3 := false; m_fs := m_fs m; m_f4 := m_f4 m |}.
  Proof.
    intros R LF He Hodd. pose proof LF as [A [B [HP [HD HL]]]].
    constructor; cbn [m_st m_det m_f1 m_f3 m_fs m_f4 s_store s_pend with_unsaved m_parsers m_config m_defaults m_unsaved]; auto.
    - rewrite HP. exact (r_pkeys _ _ _ _ R).
    - intros cn k Hin. rewrite HP. exact (r_ptys _ _ _ _ R _ _ Hin).
    - intros cn k Hin. eapply cfg_after_loop; eassumption.
    - intros cn k Hin. rewrite HD. exact (r_dfl _ _ _ _ R _ _ Hin).
    - intros cn k Hin _. split; [reflexivity|].
      pose proof (apply_entries_get opts opts_nodup _ (s_store (m_st m)) cn (canonical_pend_entries _ _ R)) as Hsg.
      destruct (dget cn (s_pend (m_st m))) as [iv|] eqn:Ep.
      + (* touched *)
        pose proof (dget_In _ _ _ Ep) as Hinp.
        rewrite (pend_entries_has_key _ _ _ Hinp), (values_of_pending _ _ _ (pend_nodup_ci _ _ R) Hinp) in Hsg.
        destruct (r_pend _ _ _ _ R _ _ Ep) as [k' [Hin' Hpr]].
        assert (k' = k) by (eapply opts_kind_unique; eassumption). subst k'.
        pose proof (loop_config _ _ _ _ _ _ R LF Ep Hin Hpr) as Hlc.
        destruct iv as [s|l]; cbn [pend_rel] in Hpr.
        * destruct Hlc as [a [Ht [Husa [pv [Hpa Hc]]]]].
          destruct Hpr as [a0 [Hu0 [Ht0 Hd]]].
          assert (a0 = a).
          { destruct (A cn _ (dget_In _ _ _ Hu0)) as [value [nv [Hr' [_ [_ Hus]]]]].
            cbn in Hr'. inversion Hr'. subst value.
            cbn [pending_after] in Hus. rewrite Hus in Husa. now inversion Husa. }
          subst a0.
          unfold iv_values in Hsg. cbn [entries_for map concat some_nonempty] in Hsg.
          destruct Hd as [[Hl [Hv Hts]]|[Hk [Ha [Hcs _]]]].
          -- destruct (parse_agrees k a Hv) as [a' [Hp1 Hp2]]. rewrite Hp1 in Hpa. inversion Hpa. subst pv.
             cbn [cval_of_pyval] in Hc. rewrite <- Ht in *.
             assert (atom_text a <> []) as Hne.
             { destruct (kind_eqb k KStr) eqn:Ek.
               - assert (k = KStr) by (destruct k; try discriminate Ek; reflexivity). subst k.
                 pose proof (Hts eq_refl) as Hto. unfold text_ok in Hto. repeat (apply andb_true_iff in Hto as [Hto ?]).
                 destruct (atom_text a); discriminate.
               - assert (k <> KStr) as Hk by (intros ->; discriminate Ek).
                 exact (proj1 (parse_scalar_not_default _ _ _ Hl Hk Hp2)). }
             destruct (atom_text a) as [|c r] eqn:E; [congruence|]. rewrite <- E in *. rewrite app_nil_r in Hsg.
             eapply synced_scalar; try eassumption.
          -- subst k a. clear Ht Ht0. rewrite parse_comma_text in Hpa. inversion Hpa. subst pv. cbn [cval_of_pyval] in Hc.
             assert (s <> []) as Hne.
             { pose proof Hcs as Hcs'. unfold comma_text_ok, text_ok in Hcs'.
               repeat (apply andb_true_iff in Hcs' as [Hcs' ?]). destruct s; discriminate. }
             destruct s as [|c r] eqn:E; [congruence|]. rewrite <- E in *. rewrite app_nil_r in Hsg.
             eapply synced_comma_text; eassumption.
        * destruct Hlc as [Hc _]. destruct Hpr as [Hlk [Hpf _]].
          assert (forallb (fine k) l = true) as Hf.
          { apply forallb_forall. intros a Ha. apply pfine_fine; [exact (proj1 (forallb_forall _ _) Hpf a Ha)|].
            pose proof (proj1 (existsb_false_forall _ _) Hodd (cn, IList l) (dget_In _ _ _ Ep)) as X. cbn [snd] in X.
            exact (proj1 (existsb_false_forall _ _) X a Ha). }
          assert (l <> []) as Hne.
          { intros ->. assert (has_empty_list (s_pend (m_st m)) = true) as X; [|congruence].
            apply existsb_exists. exists (cn, IList []). auto. }
          unfold iv_values in Hsg. destruct l as [|a0 l0] eqn:El; [congruence|]. rewrite <- El in *.
          assert (entries_for (IList l) = map (fun a => Some (atom_text a)) l) as Hef by (rewrite El; reflexivity).
          rewrite Hef in Hsg.
          destruct (fine_texts _ _ Hf) as [_ [_ [_ [_ I5]]]]. rewrite I5 in Hsg.
          eapply synced_list; try eassumption.
      + (* untouched *)
        assert (~ In cn (map fst (s_pend (m_st m)))) as Hni.
        { intros Hi. destruct (dget_in_keys _ _ Hi) as [v Hv]. congruence. }
        rewrite (pend_entries_no_key _ _ Hni) in Hsg.
        destruct (r_sync _ _ _ _ R _ _ Hin Ep) as [_ Hs].
        assert (synced defaults st (apply_entries opts (s_store (m_st m)) (pend_entries (s_pend (m_st m)))) cn k) as Hs'
          by (unfold synced in *; now rewrite Hsg).
        eapply synced_frame; [| |exact Hs']; cbn [m_config m_defaults with_unsaved].
        * apply B. now rewrite (r_ukeys _ _ _ _ R).
        * now rewrite HD.
    - intros cn iv Hp. discriminate.
    - constructor.
    - intros cn k Hin. cbn [with_unsaved m_listp]. rewrite HL. exact (r_listp _ _ _ _ R _ _ Hin).
  Qed.

  (* every pending value has been stored into config by the loop of save() *)
  Definition landed (st : mst) (pend : list (bytes * ival)) : Prop :=
    forall cn iv k, dget cn pend = Some iv -> In (cn, k) opts ->
      match iv with
      | IList l => dget cn (m_config st) = Some (CList true l) /\ dget cn (m_unsaved st) = Some UAlias
      | IScalar s =>
          exists a, atom_text a = s /\ dget cn (m_unsaved st) = Some (UVal (CAtom a)) /\
                    exists pv, parse (pk_of k) (PAtom a) = Ok pv /\ dget cn (m_config st) = Some (cval_of_pyval true pv)
      end.

  Lemma landed_after_loop st m sl : Rel st m -> loop_facts st sl -> landed sl (s_pend (m_st m)).
  Proof.
    intros R LF cn iv k Hp Hin. destruct (r_pend _ _ _ _ R _ _ Hp) as [k' [Hin' Hpr]].
    assert (k' = k) by (eapply opts_kind_unique; eassumption). subst k'.
    exact (loop_config _ _ _ _ _ _ R LF Hp Hin Hpr).
  Qed.

  (* ---- Tor acknowledges a SETCONF whose values are (still) what is pending ---- *)
  Lemma rel_ack st m :
    Rel st m -> landed st (s_pend (m_st m)) -> has_empty_list (s_pend (m_st m)) = false ->
    has_odd_list (s_pend (m_st m)) = false ->
    Rel (with_unsaved st [])
        {| m_st := {| s_store := apply_entries opts (s_store (m_st m)) (pend_entries (s_pend (m_st m))); s_pend := [] |};
           m_det := []; m_f1 := false; m_f3 := false; m_fs := m_fs m; m_f4 := m_f4 m |}.
  Proof.
    intros R HLand He Hodd.
    constructor; cbn [m_st m_det m_f1 m_f3 m_fs m_f4 s_store s_pend with_unsaved m_parsers m_config m_defaults m_unsaved]; auto.
    - exact (r_pkeys _ _ _ _ R).
    - intros cn k Hin. exact (r_ptys _ _ _ _ R _ _ Hin).
    - intros cn k Hin. exact (r_cfg _ _ _ _ R _ _ Hin).
    - intros cn k Hin. exact (r_dfl _ _ _ _ R _ _ Hin).
    - intros cn k Hin _. split; [reflexivity|].
      pose proof (apply_entries_get opts opts_nodup _ (s_store (m_st m)) cn (canonical_pend_entries _ _ R)) as Hsg.
      destruct (dget cn (s_pend (m_st m))) as [iv|] eqn:Ep.
      + (* touched *)
        pose proof (dget_In _ _ _ Ep) as Hinp.
        rewrite (pend_entries_has_key _ _ _ Hinp), (values_of_pending _ _ _ (pend_nodup_ci _ _ R) Hinp) in Hsg.
        destruct (r_pend _ _ _ _ R _ _ Ep) as [k' [Hin' Hpr]].
        assert (k' = k) by (eapply opts_kind_unique; eassumption). subst k'.
        pose proof (HLand _ _ _ Ep Hin) as Hlc.
        destruct iv as [s|l]; cbn [pend_rel] in Hpr.
        * destruct Hlc as [a [Ht [Husa [pv [Hpa Hc]]]]].
          destruct Hpr as [a0 [Hu0 [Ht0 Hd]]].
          assert (a0 = a) by (rewrite Hu0 in Husa; now inversion Husa).
          subst a0.
          unfold iv_values in Hsg. cbn [entries_for map concat some_nonempty] in Hsg.
          destruct Hd as [[Hl [Hv Hts]]|[Hk [Ha [Hcs _]]]].
          -- destruct (parse_agrees k a Hv) as [a' [Hp1 Hp2]]. rewrite Hp1 in Hpa. inversion Hpa. subst pv.
             cbn [cval_of_pyval] in Hc. rewrite <- Ht in *.
             assert (atom_text a <> []) as Hne.
             { destruct (kind_eqb k KStr) eqn:Ek.
               - assert (k = KStr) by (destruct k; try discriminate Ek; reflexivity). subst k.
                 pose proof (Hts eq_refl) as Hto. unfold text_ok in Hto. repeat (apply andb_true_iff in Hto as [Hto ?]).
                 destruct (atom_text a); discriminate.
               - assert (k <> KStr) as Hk by (intros ->; discriminate Ek).
                 exact (proj1 (parse_scalar_not_default _ _ _ Hl Hk Hp2)). }
             destruct (atom_text a) as [|c r] eqn:E; [congruence|]. rewrite <- E in *. rewrite app_nil_r in Hsg.
             eapply synced_scalar; try eassumption.
          -- subst k a. clear Ht Ht0. rewrite parse_comma_text in Hpa. inversion Hpa. subst pv. cbn [cval_of_pyval] in Hc.
             assert (s <> []) as Hne.
             { pose proof Hcs as Hcs'. unfold comma_text_ok, text_ok in Hcs'.
               repeat (apply andb_true_iff in Hcs' as [Hcs' ?]). destruct s; discriminate. }
             destruct s as [|c r] eqn:E; [congruence|]. rewrite <- E in *. rewrite app_nil_r in Hsg.
             eapply synced_comma_text; eassumption.
        * destruct Hlc as [Hc _]. destruct Hpr as [Hlk [Hpf _]].
          assert (forallb (fine k) l = true) as Hf.
          { apply forallb_forall. intros a Ha. apply pfine_fine; [exact (proj1 (forallb_forall _ _) Hpf a Ha)|].
            pose proof (proj1 (existsb_false_forall _ _) Hodd (cn, IList l) (dget_In _ _ _ Ep)) as X. cbn [snd] in X.
            exact (proj1 (existsb_false_forall _ _) X a Ha). }
          assert (l <> []) as Hne.
          { intros ->. assert (has_empty_list (s_pend (m_st m)) = true) as X; [|congruence].
            apply existsb_exists. exists (cn, IList []). auto. }
          unfold iv_values in Hsg. destruct l as [|a0 l0] eqn:El; [congruence|]. rewrite <- El in *.
          assert (entries_for (IList l) = map (fun a => Some (atom_text a)) l) as Hef by (rewrite El; reflexivity).
          rewrite Hef in Hsg.
          destruct (fine_texts _ _ Hf) as [_ [_ [_ [_ I5]]]]. rewrite I5 in Hsg.
          eapply synced_list; try eassumption.
      + (* untouched *)
        assert (~ In cn (map fst (s_pend (m_st m)))) as Hni.
        { intros Hi. destruct (dget_in_keys _ _ Hi) as [v Hv]. congruence. }
        rewrite (pend_entries_no_key _ _ Hni) in Hsg.
        destruct (r_sync _ _ _ _ R _ _ Hin Ep) as [_ Hs].
        assert (synced defaults st (apply_entries opts (s_store (m_st m)) (pend_entries (s_pend (m_st m)))) cn k) as Hs'
          by (unfold synced in *; now rewrite Hsg).
        eapply synced_frame; [| |exact Hs']; reflexivity.
    - intros cn iv Hp. discriminate.
    - constructor.
    - intros cn k Hin. exact (r_listp _ _ _ _ R _ _ Hin).
  Qed.

  (* ---- Tor acknowledges a snapshot S sent earlier: the options that still hold the acknowledged value
          stop being pending (they have landed in config), the others stay as they are ---- *)
  Lemma mem_filter f cn l : mem_bytes cn (filter f l) = mem_bytes cn l && f cn.
  Proof.
    induction l as [|x l IH]; [reflexivity|]. cbn [filter mem_bytes]. destruct (f x) eqn:Ef; cbn [mem_bytes]; rewrite IH.
    - destruct (beqb x cn) eqn:E; [apply beqb_eq in E; subst; now rewrite Ef|reflexivity].
    - destruct (beqb x cn) eqn:E; [apply beqb_eq in E; subst; rewrite Ef; now rewrite andb_false_r|reflexivity].
  Qed.

  Lemma rel_ack_partial st m S u2 pend2 :
    Rel st m ->
    nodup_ci (map fst S) = true -> canonical_keys opts (pend_entries S) ->
    has_empty_list S = false -> has_odd_list S = false ->
    map fst u2 = map fst pend2 -> NoDup (map fst u2) ->
    (forall cn iv, dget cn pend2 = Some iv -> dget cn (s_pend (m_st m)) = Some iv /\ dget cn u2 = dget cn (m_unsaved st)) ->
    (forall cn, dget cn pend2 = None -> dget cn u2 = None) ->
    (forall cn iv k, dget cn S = Some iv -> dget cn pend2 = None -> In (cn, k) opts ->
       dget cn (s_pend (m_st m)) = Some iv /\
       match iv with
       | IList l => dget cn (m_config st) = Some (CList true l) /\ dget cn (m_unsaved st) = Some UAlias
       | IScalar s0 =>
           exists a, atom_text a = s0 /\ dget cn (m_unsaved st) = Some (UVal (CAtom a)) /\
                     exists pv, parse (pk_of k) (PAtom a) = Ok pv /\ dget cn (m_config st) = Some (cval_of_pyval true pv)
       end) ->
    (forall cn, dget cn S = None -> dget cn pend2 = dget cn (s_pend (m_st m))) ->
    Rel (with_unsaved st u2)
        {| m_st := {| s_store := apply_entries opts (s_store (m_st m)) (pend_entries S); s_pend := pend2 |};
           m_det := filter (fun cn => dmem cn pend2) (m_det m); m_f1 := false; m_f3 := false; m_fs := m_fs m; m_f4 := m_f4 m |}.
  Proof.
    intros R HSnd HScan He Hodd HU1 HU2 HP HU4 HL HN.
    constructor; cbn [m_st m_det m_f1 m_f3 m_fs m_f4 s_store s_pend with_unsaved m_parsers m_config m_defaults m_unsaved]; auto.
    - exact (r_pkeys _ _ _ _ R).
    - intros cn k Hin. exact (r_ptys _ _ _ _ R _ _ Hin).
    - intros cn k Hin. exact (r_cfg _ _ _ _ R _ _ Hin).
    - intros cn k Hin. exact (r_dfl _ _ _ _ R _ _ Hin).
    - intros cn k Hin Hq2. split; [now apply HU4|].
      pose proof (apply_entries_get opts opts_nodup _ (s_store (m_st m)) cn HScan) as Hsg.
      destruct (dget cn S) as [iv|] eqn:ES.
      + (* touched *)
        pose proof (dget_In _ _ _ ES) as Hinp.
        rewrite (pend_entries_has_key _ _ _ Hinp), (values_of_pending _ _ _ HSnd Hinp) in Hsg.
        destruct (HL _ _ _ ES Hq2 Hin) as [Ep1 Hlc].
        destruct (r_pend _ _ _ _ R _ _ Ep1) as [k' [Hin' Hpr]].
        assert (k' = k) by (eapply opts_kind_unique; eassumption). subst k'.
        destruct iv as [s|l]; cbn [pend_rel] in Hpr.
        * destruct Hlc as [a [Ht [Husa [pv [Hpa Hc]]]]].
          destruct Hpr as [a0 [Hu0 [Ht0 Hd]]].
          assert (a0 = a) by (rewrite Hu0 in Husa; now inversion Husa).
          subst a0.
          unfold iv_values in Hsg. cbn [entries_for map concat some_nonempty] in Hsg.
          destruct Hd as [[Hl [Hv Hts]]|[Hk [Ha [Hcs _]]]].
          -- destruct (parse_agrees k a Hv) as [a' [Hp1 Hp2]]. rewrite Hp1 in Hpa. inversion Hpa. subst pv.
             cbn [cval_of_pyval] in Hc. rewrite <- Ht in *.
             assert (atom_text a <> []) as Hne.
             { destruct (kind_eqb k KStr) eqn:Ek.
               - assert (k = KStr) by (destruct k; try discriminate Ek; reflexivity). subst k.
                 pose proof (Hts eq_refl) as Hto. unfold text_ok in Hto. repeat (apply andb_true_iff in Hto as [Hto ?]).
                 destruct (atom_text a); discriminate.
               - assert (k <> KStr) as Hk by (intros ->; discriminate Ek).
                 exact (proj1 (parse_scalar_not_default _ _ _ Hl Hk Hp2)). }
             destruct (atom_text a) as [|c r] eqn:E; [congruence|]. rewrite <- E in *. rewrite app_nil_r in Hsg.
             eapply synced_scalar; try eassumption.
          -- subst k a. clear Ht Ht0. rewrite parse_comma_text in Hpa. inversion Hpa. subst pv. cbn [cval_of_pyval] in Hc.
             assert (s <> []) as Hne.
             { pose proof Hcs as Hcs'. unfold comma_text_ok, text_ok in Hcs'.
               repeat (apply andb_true_iff in Hcs' as [Hcs' ?]). destruct s; discriminate. }
             destruct s as [|c r] eqn:E; [congruence|]. rewrite <- E in *. rewrite app_nil_r in Hsg.
             eapply synced_comma_text; eassumption.
        * destruct Hlc as [Hc _]. destruct Hpr as [Hlk [Hpf _]].
          assert (forallb (fine k) l = true) as Hf.
          { apply forallb_forall. intros a Ha. apply pfine_fine; [exact (proj1 (forallb_forall _ _) Hpf a Ha)|].
            pose proof (proj1 (existsb_false_forall _ _) Hodd (cn, IList l) (dget_In _ _ _ ES)) as X. cbn [snd] in X.
            exact (proj1 (existsb_false_forall _ _) X a Ha). }
          assert (l <> []) as Hne.
          { intros ->. assert (has_empty_list S = true) as X; [|congruence].
            apply existsb_exists. exists (cn, IList []). auto. }
          unfold iv_values in Hsg. destruct l as [|a0 l0] eqn:El; [congruence|]. rewrite <- El in *.
          assert (entries_for (IList l) = map (fun a => Some (atom_text a)) l) as Hef by (rewrite El; reflexivity).
          rewrite Hef in Hsg.
          destruct (fine_texts _ _ Hf) as [_ [_ [_ [_ I5]]]]. rewrite I5 in Hsg.
          eapply synced_list; try eassumption.
      + (* not part of the snapshot *)
        assert (~ In cn (map fst S)) as Hni.
        { intros Hi. destruct (dget_in_keys _ _ Hi) as [v Hv]. congruence. }
        rewrite (pend_entries_no_key _ _ Hni) in Hsg.
        rewrite (HN _ ES) in Hq2.
        destruct (r_sync _ _ _ _ R _ _ Hin Hq2) as [_ Hs].
        assert (synced defaults st (apply_entries opts (s_store (m_st m)) (pend_entries S)) cn k) as Hs'
          by (unfold synced in *; now rewrite Hsg).
        eapply synced_frame; [| |exact Hs']; reflexivity.
    - intros cn iv Hp2. destruct (HP _ _ Hp2) as [Hp1 Hu]. destruct (r_pend _ _ _ _ R _ _ Hp1) as [k [Hin Hpr]].
      exists k. split; [exact Hin|].
      eapply pend_rel_frame with (cn := []); [| | | |exact Hpr]; cbn [with_unsaved m_unsaved m_config].
      + intros E. subst cn. pose proof (opts_keys_ok _ _ Hin) as X. discriminate X.
      + exact Hu.
      + reflexivity.
      + rewrite mem_filter. unfold dmem. rewrite Hp2. apply andb_true_r.
    - intros cn k Hin. exact (r_listp _ _ _ _ R _ _ Hin).
  Qed.



  (* ---- Tor rejected ---- *)
  Lemma rel_after_reject st m sl :
    Rel st m -> loop_facts st sl -> map fst (m_unsaved sl) = map fst (m_unsaved st) ->
    has_empty_list (s_pend (m_st m)) = false ->
    Rel sl {| m_st := m_st m; m_det := scalar_keys (s_pend (m_st m)); m_f1 := false; m_f3 := false; m_fs := m_fs m; m_f4 := m_f4 m |}.
  Proof.
    intros R LF Hkeys He. pose proof LF as [A [B [HP [HD HL]]]].
    constructor; cbn [m_st m_det m_f1 m_f3 m_fs m_f4]; auto.
    - rewrite HP. exact (r_pkeys _ _ _ _ R).
    - intros cn k Hin. rewrite HP. exact (r_ptys _ _ _ _ R _ _ Hin).
    - intros cn k Hin. eapply cfg_after_loop; eassumption.
    - intros cn k Hin. rewrite HD. exact (r_dfl _ _ _ _ R _ _ Hin).
    - intros cn k Hin Ep. destruct (r_sync _ _ _ _ R _ _ Hin Ep) as [Hu Hs].
      assert (~ In cn (map fst (m_unsaved st))) as Hni.
      { intros Hi. destruct (dget_in_keys _ _ Hi) as [v Hv]. congruence. }
      split; [apply dget_not_in; now rewrite Hkeys|].
      eapply synced_frame; [| |exact Hs]; [now apply B|now rewrite HD].
    - intros cn iv Ep. destruct (r_pend _ _ _ _ R _ _ Ep) as [k [Hin Hpr]]. exists k. split; [assumption|].
      pose proof (loop_config _ _ _ _ _ _ R LF Ep Hin Hpr) as Hlc.
      pose proof (mem_scalar_keys _ _ _ (pend_nodup _ _ R) Ep) as Hmk.
      destruct iv as [s|l]; cbn [pend_rel] in *.
      + destruct Hlc as [a [Ht [Hus _]]]. destruct Hpr as [a0 [Hu0 [Ht0 Hd]]].
        assert (a0 = a).
        { destruct LF as [A' _]. destruct (A' cn _ (dget_In _ _ _ Hu0)) as [value [nv [Hr' [_ [_ Hus']]]]].
          cbn in Hr'. inversion Hr'. subst value. cbn [pending_after] in Hus'. rewrite Hus' in Hus. now inversion Hus. }
        subst a0. exists a. split; [assumption|]. split; [assumption|].
        destruct Hd as [Hd|[Hk [Ha [Hcs _]]]]; [left; assumption|right; auto].
      + destruct Hlc as [Hc Hus]. destruct Hpr as [Hlk [Hf _]]. split; [assumption|]. split; [assumption|]. left. auto.
    - rewrite Hkeys. exact (r_ukeys _ _ _ _ R).
    - rewrite Hkeys. exact (r_nodup _ _ _ _ R).
    - intros cn k Hin. rewrite HL. exact (r_listp _ _ _ _ R _ _ Hin).
  Qed.

  (* ---- the operation ---- *)
  Lemma sim_save st m rej st' ob :
    Rel st m -> op_ok opts (OpSave rej) = true ->
    m_f1 (mon_step opts defaults m (OpSave rej)) = false ->
    m_f4 (mon_step opts defaults m (OpSave rej)) = false ->
    m_step names st (OpSave rej) = Some (st', ob) ->
    step_ok opts defaults st m (OpSave rej) st' ob.
  Proof.
    intros R Hok Hf1 Hf4 H. cbn [m_step m_step_gen] in H.
    destruct (m_save st rej) as [[[s1 wrote] r]|] eqn:ES; [|discriminate].
    destruct (m_snapshot s1 names) as [[s2 snap]|] eqn:ESn; [|discriminate].
    inversion H. subst st' ob. clear H.
    destruct (r_clean _ _ _ _ R) as [C1 C3].
    unfold step_ok. cbn [spec_check spec_check_gen mon_step mon_step_gen o_wrote o_res] in *.
    pose proof (r_ukeys _ _ _ _ R) as Hk.
    destruct (s_pend (m_st m)) as [|p0 pend0] eqn:Ep.
    - (* nothing pending *)
      destruct (m_unsaved st) as [|u0 U] eqn:EU; [|discriminate Hk].
      unfold m_save in ES. rewrite EU in ES. inversion ES. subst s1 wrote r.
      destruct (snapshot_sim opts defaults opts_nodup st m opts R (fun c k0 Hc => Hc)) as [snap' [Hs Hok']].
      rewrite <- names_eq, ESn in Hs. inversion Hs. subst s2 snap'.
      rewrite EU. split; [|exact R]. cbn [is_nil andb]. exact Hok'.
    - (* something pending *)
      rewrite <- Ep in *. cbn [m_f1] in Hf1. rewrite C1 in Hf1. cbn [orb] in Hf1.
      cbn [m_f4] in Hf4. apply orb_false_iff in Hf4 as [_ Hf4].
      assert (m_unsaved st <> []) as HUne by (destruct (m_unsaved st); [rewrite Ep in Hk; discriminate|discriminate]).
      unfold m_save in ES. destruct (m_unsaved st) as [|u0 U] eqn:EU; [congruence|]. rewrite <- EU in *.
      destruct (save_loop st (m_unsaved st) []) as [[sl args]|e|] eqn:EL; try discriminate.
      pose proof (r_nodup _ _ _ _ R) as Hwf.
      destruct (save_loop_whole st sl args Hwf EL) as [Hargs [Hkeys _]]. subst args.
      destruct (save_loop_effect_whole st sl _ Hwf EL) as [A [B [HP [HD HL]]]].
      assert (loop_facts st sl) as LF by (repeat split; assumption).
      rewrite (args_keys_ok _ _ R Hf1) in ES.
      assert (parse_setconf (setconf_line (pending_args st)) = Some (pend_entries (s_pend (m_st m)))) as Hparse.
      { rewrite (setconf_line_parses _ (args_keys_ok _ _ R Hf1)). now rewrite (args_are_pend_entries _ _ R Hf1). }
      destruct rej as [c|].
      + (* rejected *)
        inversion ES. subst s1 wrote r.
        pose proof (rel_after_reject _ _ _ R LF Hkeys Hf1) as R'.
        destruct (snapshot_sim opts defaults opts_nodup sl _ opts R' (fun c0 k0 Hc => Hc)) as [snap' [Hs Hok']].
        rewrite <- names_eq, ESn in Hs. inversion Hs. subst s2 snap'.
        split.
        * rewrite Hparse, (entries_match_self _ (pend_nodup_ci _ _ R)). cbn [andb].
          assert (match m_unsaved sl with [] => false | _ :: _ => true end = true) as ->.
          { destruct (m_unsaved sl); [rewrite EU in Hkeys; discriminate|reflexivity]. }
          rewrite N.eqb_refl. cbn [andb]. exact Hok'.
        * rewrite ?C1, ?C3, ?Hf1. cbn [orb spec_next spec_next_gen]. eapply Rel_flags_irrel. exact R'.
      + (* acknowledged *)
        inversion ES. subst s1 wrote r.
        pose proof (rel_after_accept _ _ _ R LF Hf1 Hf4) as R'.
        destruct (snapshot_sim opts defaults opts_nodup _ _ opts R' (fun c0 k0 Hc => Hc)) as [snap' [Hs Hok']].
        rewrite <- names_eq, ESn in Hs. inversion Hs. subst s2 snap'.
        split.
        * rewrite Hparse, (entries_match_self _ (pend_nodup_ci _ _ R)). cbn [andb with_unsaved m_unsaved]. exact Hok'.
        * rewrite ?C1, ?C3, ?Hf1. cbn [orb spec_next spec_next_gen]. eapply Rel_flags_irrel. exact R'.
  Qed.
  (* ---- save() up to the moment the SETCONF is handed to the protocol ---- *)
  Definition sent_of (st : mst) : sent_t :=
    map (fun ku : bytes * uval => (fst ku, resolve_u st (fst ku) (snd ku))) (m_unsaved st).

  Lemma sim_send st m st1 c :
    Rel st m -> m_send st = Some (st1, c) -> has_empty_list (s_pend (m_st m)) = false ->
    match s_pend (m_st m) with
    | [] => st1 = st /\ c = CDone
    | _ :: _ =>
        exists line, c = CLine line (sent_of st1) /\ parse_setconf line = Some (pend_entries (s_pend (m_st m))) /\
          Rel st1 {| m_st := m_st m; m_det := scalar_keys (s_pend (m_st m)); m_f1 := false; m_f3 := false;
                     m_fs := m_fs m; m_f4 := m_f4 m |} /\
          landed st1 (s_pend (m_st m)) /\ m_unsaved st1 <> []
    end.
  Proof.
    intros R ES Hf1. pose proof (r_ukeys _ _ _ _ R) as Hk. unfold m_send in ES.
    destruct (s_pend (m_st m)) as [|p0 pend0] eqn:Ep.
    - destruct (m_unsaved st) as [|u0 U]; [|discriminate Hk]. inversion ES. auto.
    - rewrite <- Ep in *.
      destruct (m_unsaved st) as [|u0 U] eqn:EU; [rewrite Ep in Hk; discriminate|]. rewrite <- EU in *.
      destruct (save_loop st (m_unsaved st) []) as [[sl args]|e|] eqn:EL; try discriminate.
      pose proof (r_nodup _ _ _ _ R) as Hwf.
      destruct (save_loop_whole st sl args Hwf EL) as [Hargs [Hkeys _]]. subst args.
      destruct (save_loop_effect_whole st sl _ Hwf EL) as [A [B [HP [HD HL]]]].
      assert (loop_facts st sl) as LF by (repeat split; assumption).
      rewrite (args_keys_ok _ _ R Hf1) in ES. inversion ES. subst st1 c.
      eexists. split; [reflexivity|]. split.
      { rewrite (setconf_line_parses _ (args_keys_ok _ _ R Hf1)). now rewrite (args_are_pend_entries _ _ R Hf1). }
      split; [exact (rel_after_reject _ _ _ R LF Hkeys Hf1)|]. split; [exact (landed_after_loop _ _ _ R LF)|].
      intros E. rewrite E, EU in Hkeys. discriminate.
  Qed.
End SimSave.
