(* Segmentation independence of line framing (DESIGN appendix A) *)
From Coq Require Import List Bool Ascii Arith NArith Lia.
From TxVerif Require Import Lib.Bytes Model.Framing.
Import ListNotations.

Global Opaque CR LF.

Lemma scan_app s l1 l2 : scan s (l1 ++ l2) = scan (scan s l1) l2.
Proof. revert s; induction l1 as [|b l1 IH]; intros s; cbn; auto. Qed.

Lemma scan_out_shift o c l :
  scan {| out := o; cur := c |} l =
  {| out := o ++ out (scan {| out := []; cur := c |} l);
     cur := cur (scan {| out := []; cur := c |} l) |}.
Proof.
  revert o c. induction l as [|b l IH]; intros o c; cbn.
  - now rewrite app_nil_r.
  - destruct c as [|x rest]; unfold scan_step; cbn.
    + apply (IH o [b]).
    + destruct (Ascii.eqb x CR && Ascii.eqb b LF); cbn.
      * rewrite (IH (o ++ [rev rest]) []). rewrite (IH [rev rest] []). cbn.
        now rewrite <- app_assoc.
      * apply (IH o (b :: x :: rest)).
Qed.

Definition st0 c := {| out := []; cur := c |}.
Definition stable (c : bytes) : Prop := scan (st0 []) (rev c) = st0 c.

Lemma stable_nil : stable []. Proof. reflexivity. Qed.

Lemma stable_step o c b : stable c -> stable (cur (scan_step {| out := o; cur := c |} b)).
Proof.
  intros H. unfold scan_step; cbn. destruct c as [|x rest]; cbn.
  - reflexivity.
  - match goal with |- context[if ?t then _ else _] => destruct t eqn:E end; cbn.
    + reflexivity.
    + unfold stable in *. cbn [rev] in *. rewrite scan_app, H. cbn. unfold scan_step; cbn. now rewrite E.
Qed.

Lemma stable_scan o c l : stable c -> stable (cur (scan {| out := o; cur := c |} l)).
Proof.
  revert o c. induction l as [|b l IH]; intros o c H; cbn; [exact H|].
  pose proof (stable_step o c b H) as H'.
  destruct (scan_step {| out := o; cur := c |} b) as [o' c'] eqn:E. cbn in H'. now apply IH.
Qed.

Lemma feed_stable c chunk : stable c ->
  feed (rev c) chunk = (out (scan (st0 c) chunk), rev (cur (scan (st0 c) chunk))).
Proof. intros H. unfold feed, pysplit. rewrite scan_app. fold (st0 []). now rewrite H. Qed.

Theorem feed_all_concat_gen c chunks : stable c ->
  feed_all (rev c) chunks =
  (out (scan (st0 c) (concat chunks)), rev (cur (scan (st0 c) (concat chunks)))).
Proof.
  revert c. induction chunks as [|ch chunks IH]; intros c H.
  - reflexivity.
  - cbn [feed_all concat]. rewrite (feed_stable c ch H).
    pose proof (stable_scan [] c ch H) as H'. fold (st0 c) in H'.
    rewrite (IH _ H'). rewrite scan_app.
    destruct (scan (st0 c) ch) as [o1 c1] eqn:E1. cbn [out cur].
    rewrite (scan_out_shift o1 c1). cbn [out cur]. reflexivity.
Qed.

Theorem feed_all_concat chunks : feed_all [] chunks = pysplit (concat chunks).
Proof. exact (feed_all_concat_gen [] chunks stable_nil). Qed.

Corollary framing_segmentation_independent cs1 cs2 :
  concat cs1 = concat cs2 -> feed_all [] cs1 = feed_all [] cs2.
Proof. intros H. now rewrite !feed_all_concat, H. Qed.

(* every buffer the framing can leave behind is stable, hence: feeding from a reachable buffer *)
Lemma pysplit_buffer_stable l : stable (rev (snd (pysplit l))).
Proof.
  unfold pysplit. cbn [snd]. rewrite rev_involutive. apply (stable_scan [] [] l stable_nil).
Qed.
