(* Bootstrap establishes the simulation relation: for every table / store / defaults of the
   envelope the model's _do_setup succeeds and leaves a state in which every option Tor lists
   reads as Tor's value parsed by its declared type (its default when unset; a port list that is
   unset or "auto" as its default lines: Spec.CfgOracle.eff_store) and nothing is pending. *)
From Coq Require Import String.
From Coq Require Import List Bool Ascii Arith NArith ZArith Lia.
From TxVerif Require Import Lib.Bytes Lib.CfgLib Spec.CfgTypes Spec.TorStore Spec.CfgOracle Spec.C10 Spec.C11
  Model.ConfigKinds Gen.ConfigTypes Model.Config
  Proofs.CfgLibProofs Proofs.C10Proofs Proofs.CfgAgree Proofs.CfgSpecLemmas Proofs.CfgSim Proofs.CfgSimSave Proofs.CfgSimRun.
Import ListNotations.
Open Scope N_scope.

(* ------------------------------------------------------------------ texts as Tor reports them *)
Lemma text_ok_facts s : text_ok s = true ->
  s <> [] /\ forallb printable s = true /\ strip s = s /\ beqb s DEFAULT_word = false.
Proof.
  unfold text_ok. intros H. repeat (apply andb_true_iff in H as [H ?]).
  repeat split; try assumption.
  - destruct s; discriminate.
  - now apply beqb_eq.
  - match goal with X : negb _ = true |- _ => now apply negb_true_iff in X end.
Qed.

Lemma tor_value_unquote v : tor_value_ok v = true -> unquote v = v.
Proof.
  unfold tor_value_ok. intros H. apply andb_true_iff in H as [_ H].
  destruct v as [|c r]; [reflexivity|]. apply negb_true_iff, orb_false_iff in H as [H1 H2].
  unfold unquote. destruct (rev (c :: r)) as [|d t]; [reflexivity|]. now rewrite H1, H2.
Qed.

Lemma printable_no_LF s : forallb printable s = true -> memb LF s = false.
Proof.
  induction s as [|c s IH]; [reflexivity|]. cbn [memb forallb]. intros H. apply andb_true_iff in H as [H1 H2].
  rewrite (IH H2), orb_false_r.
  destruct (Ascii.eqb LF c) eqn:E; [|reflexivity]. apply Ascii.eqb_eq in E. subst c. discriminate H1.
Qed.

Lemma tor_value_facts v : tor_value_ok v = true ->
  v <> [] /\ strip v = v /\ beqb v DEFAULT_VALUE = false /\ unquote v = v /\ memb LF v = false.
Proof.
  intros H. pose proof (tor_value_unquote _ H) as Hu. unfold tor_value_ok in H. apply andb_true_iff in H as [H _].
  destruct (text_ok_facts _ H) as [H1 [H2 [H3 H4]]]. rewrite DEFAULT_agree.
  repeat split; try assumption. now apply printable_no_LF.
Qed.

(* ------------------------------------------------------------------ parse of Tor's text, model vs Spec *)
Lemma parse_text_agrees k v :
  is_list_kind k = false -> k <> KStr -> tor_values_ok k [v] = true ->
  exists a', parse (pk_of k) (PAtom (AStr v)) = Ok (PAtom a') /\ parse_scalar k v = Some a'.
Proof.
  intros Hl Hk H. destruct k; try discriminate Hl; try congruence; cbn [tor_values_ok] in H;
    apply andb_true_iff in H as [Hp Hr]; cbn [pk_of ty_of fst parse parse_scalar] in *.
  - destruct (parse_int v) as [z|] eqn:E; [|discriminate]. cbn [py_int]. rewrite (str_int_of_parse_int _ _ E).
    cbn [bind option_map]. eexists. split; reflexivity.
  - unfold pyval_is_str. rewrite auto_agree. destruct (beqb v auto_word) eqn:Ea; [eexists; split; reflexivity|].
    destruct (parse_int v) as [z|] eqn:E; [|discriminate]. cbn [py_int]. rewrite (str_int_of_parse_int _ _ E).
    cbn [bind option_map]. eexists. split; reflexivity.
  - destruct (parse_int v) as [z|] eqn:E; [|discriminate]. cbn [py_int]. rewrite (str_int_of_parse_int _ _ E).
    cbn [bind option_map]. eexists. split; reflexivity.
  - destruct (float_canon v) as [c|] eqn:E; [|discriminate]. cbn [py_float bind option_map]. rewrite E.
    eexists. split; reflexivity.
Qed.

(* ------------------------------------------------------------------ _get_defaults *)
Lemma default_lines_app ls1 ls2 cn :
  default_lines (Some (ls1 ++ ls2)) cn = default_lines (Some ls1) cn ++ default_lines (Some ls2) cn.
Proof. unfold default_lines. now rewrite map_app, concat_app. Qed.

Lemma add_default_get d l cn :
  dget cn (add_default d l) =
  if beqb (fst l) cn then
    match dget cn d with
    | Some (DList x) => Some (DList (x ++ [snd l]))
    | Some (DStr s) => Some (DList [s; snd l])
    | None => Some (DStr (snd l))
    end
  else dget cn d.
Proof.
  unfold add_default. destruct (beqb (fst l) cn) eqn:E.
  - apply beqb_eq in E. subst cn. destruct (dget (fst l) d) as [[s|x]|]; now rewrite dget_dset_same.
  - assert (fst l <> cn) as Hne by now apply beqb_false_neq.
    destruct (dget (fst l) d) as [[s|x]|]; now rewrite dget_dset_other.
Qed.

Lemma defaults_dict ls cn : forall acc pre,
  dget cn acc = dval_of (default_lines (Some pre) cn) ->
  dget cn (fold_left add_default ls acc) = dval_of (default_lines (Some (pre ++ ls)) cn).
Proof.
  induction ls as [|l ls IH]; intros acc pre H; [now rewrite app_nil_r|].
  cbn [fold_left]. replace (pre ++ l :: ls) with ((pre ++ [l]) ++ ls) by (now rewrite <- app_assoc).
  apply IH. rewrite add_default_get, default_lines_app, H.
  assert (default_lines (Some [l]) cn = if beqb (fst l) cn then [snd l] else []) as ->
    by (unfold default_lines; cbn [map concat]; now rewrite app_nil_r).
  destruct (beqb (fst l) cn); [|now rewrite app_nil_r].
  destruct (default_lines (Some pre) cn) as [|a [|b t]]; reflexivity.
Qed.

Lemma defaults_dict_whole i cn :
  dget cn (match i_defaults i with None => [] | Some ls => fold_left add_default ls [] end)
  = dval_of (default_lines (i_defaults i) cn).
Proof.
  destruct (i_defaults i) as [ls|]; [|reflexivity].
  apply (defaults_dict ls cn [] []). reflexivity.
Qed.

(* ------------------------------------------------------------------ small facts *)
Lemma options_app t1 t2 : options (t1 ++ t2) = options t1 ++ options t2.
Proof.
  induction t1 as [|[n t] t1 IH]; [reflexivity|]. cbn [app options]. rewrite IH. now rewrite !app_assoc.
Qed.

Lemma mem_ci_app k l1 l2 : mem_ci k (l1 ++ l2) = mem_ci k l1 || mem_ci k l2.
Proof. induction l1; cbn; [reflexivity|]. now rewrite IHl1, orb_assoc. Qed.

Lemma nodup_ci_app_fresh l1 x l2 : nodup_ci (l1 ++ x :: l2) = true -> mem_ci x l1 = false.
Proof.
  induction l1 as [|y l1 IH]; [reflexivity|]. cbn [app nodup_ci mem_ci]. intros H.
  apply andb_true_iff in H as [H1 H2]. apply negb_true_iff in H1.
  rewrite mem_ci_app in H1. apply orb_false_iff in H1 as [_ H1]. cbn [mem_ci] in H1.
  apply orb_false_iff in H1 as [H1 _]. rewrite ci_sym in H1. rewrite H1. cbn [orb]. now apply IH.
Qed.

Lemma mem_ci_false_not_in k l : mem_ci k l = false -> ~ In k l.
Proof.
  intros H Hin. assert (mem_ci k l = true) as X; [|congruence].
  apply mem_ci_ex. exists k. split; [assumption|apply ci_refl].
Qed.

Lemma find_fresh (f : bytes -> bool) l : (forall x, In x l -> f x = false) -> find f l = None.
Proof. induction l as [|y l IH]; [reflexivity|]. intros H. cbn. rewrite (H y (or_introl eq_refl)). apply IH. intros x Hx. apply H. now right. Qed.

Lemma skip_types_kind t : mem_bytes t skip_types = true <-> kind_of_type t = Some None.
Proof.
  unfold skip_types, kind_of_type. cbn [mem_bytes].
  split.
  - intros H. repeat (apply orb_true_iff in H as [H|H]); try discriminate;
      rewrite beqb_sym in H; apply beqb_eq in H; subst t; vm_compute; reflexivity.
  - repeat match goal with
           | |- context [beqb t ?lit] =>
               destruct (beqb t lit) eqn:?; [match goal with X : beqb t _ = true |- _ => apply beqb_eq in X; subst t end; cbn [orb]; intros X; try discriminate X; vm_compute; reflexivity|]
           end.
    cbn [orb]. discriminate.
Qed.

Lemma mem_bytes_In k l : mem_bytes k l = true -> In k l.
Proof.
  induction l as [|x l IH]; cbn [mem_bytes]; [discriminate|]. intros H. apply orb_true_iff in H as [H|H].
  - left. now apply beqb_eq.
  - right. now apply IH.
Qed.

Lemma nodup_ci_NoDup l : nodup_ci l = true -> NoDup l.
Proof.
  induction l as [|x l IH]; [constructor|]. cbn [nodup_ci]. intros H. apply andb_true_iff in H as [H1 H2].
  apply negb_true_iff in H1. constructor; [now apply mem_ci_false_not_in|now apply IH].
Qed.

(* the store of reading (2): which keys it changes *)
Section EffFold.
  Variable f : bytes * kind -> option (list bytes).
  Let step := fun (s : store) (o : bytes * kind) => match f o with Some v => dset (fst o) v s | None => s end.

  Lemma fold_eff_notin : forall l s cn, ~ In cn (map fst l) -> store_get (fold_left step l s) cn = store_get s cn.
  Proof.
    induction l as [|o l IH]; intros s cn Hn; [reflexivity|]. cbn [fold_left].
    rewrite IH by (intros X; apply Hn; now right). unfold step.
    destruct (f o); [|reflexivity]. unfold store_get. rewrite dget_dset_other; [reflexivity|].
    intros E. apply Hn. now left.
  Qed.

  Lemma fold_eff_in : forall l s cn k, NoDup (map fst l) -> In (cn, k) l ->
    store_get (fold_left step l s) cn = match f (cn, k) with Some v => v | None => store_get s cn end.
  Proof.
    induction l as [|o l IH]; intros s cn k Hnd Hin; [destruct Hin|]. cbn [fold_left].
    inversion Hnd as [|? ? Hn Hnd']. subst. destruct Hin as [E|Hin].
    - subst o. cbn [fst] in Hn. rewrite fold_eff_notin by assumption. unfold step.
      destruct (f (cn, k)); [|reflexivity]. unfold store_get. cbn [fst]. now rewrite dget_dset_same.
    - rewrite (IH _ cn k Hnd' Hin). unfold step.
      destruct (f (cn, k)); [reflexivity|]. destruct (f o); [|reflexivity].
      unfold store_get. rewrite dget_dset_other; [reflexivity|].
      intros E. apply Hn. rewrite E. now apply (in_map fst) in Hin.
  Qed.
End EffFold.

Section Boot.
  Variable i : cfg_input.
  Let table := i_table i.
  Let store_ := i_store i.
  Let defaults := i_defaults i.
  Let opts := options table.
  Let ddict := match i_defaults i with None => [] | Some ls => fold_left add_default ls [] end.
  (* what the view is compared with: reading (2) of Spec.CfgOracle *)
  Let estore := eff_store i.

  Hypothesis Htab : table_ok table = true.
  Hypothesis Hdfl : defaults_ok opts defaults = true.
  (* values assigned before the attachment (TorConfig() ... attach_protocol()) sit in `config` under
     option names; _do_setup overwrites every one of them *)
  Hypothesis Hpre : forall x, In x (map fst (pre_config (i_pre i))) -> In x (map fst opts).

  Lemma opts_nodup : nodup_ci (map fst opts) = true.
  Proof. unfold table_ok in Htab. apply andb_true_iff in Htab as [H _]. apply andb_true_iff in H as [_ H]. exact H. Qed.

  (* the state after the rows that announce the options [po] *)
  Definition binv (st : mst) (po : list (bytes * kind)) : Prop :=
    map fst (m_parsers st) = map fst po /\
    ((forall cn k, In (cn, k) po -> dmem cn (m_config st) = true) /\
     (forall x, In x (map fst (m_config st)) -> In x (map fst opts))) /\
    (forall cn k, In (cn, k) po -> dget cn (m_parsers st) = Some (ty_of k)) /\
    (forall cn k, In (cn, k) po -> synced defaults st estore cn k) /\
    m_unsaved st = [] /\
    m_defaults st = ddict /\
    (* list_parsers: exactly the list-valued options announced so far (and txtorcon's two own names) *)
    (forall cn k, In (cn, k) po -> mem_bytes cn (m_listp st) = is_list_kind k) /\
    (forall x, mem_bytes x (m_listp st) = true -> In x (map fst po) \/ In x [bs "hiddenservices"; bs "ephemeralonionservices"]).

  Lemma own_names_reserved x : In x [bs "hiddenservices"; bs "ephemeralonionservices"] -> mem_ci x reserved_names = true.
  Proof. intros [<-|[<-|[]]]; vm_compute; reflexivity. Qed.

  Lemma mem_bytes_snoc x l c : mem_bytes x (l ++ [c]) = mem_bytes x l || beqb c x.
  Proof. induction l as [|y l IH]; cbn [app mem_bytes]; [now rewrite orb_false_r|]. now rewrite IH, orb_assoc. Qed.

  Lemma fresh_real_name st po cn k0 :
    binv st po -> mem_ci cn (map fst po) = false -> In (cn, k0) opts -> find_real_name st cn = cn.
  Proof.
    intros [H1 [[_ H2b] _]] Hf Hino. unfold find_real_name. rewrite H1.
    destruct (find (fun x => ci_eqb x cn) (map fst po ++ map fst (m_config st))) as [x|] eqn:E; [|reflexivity].
    apply find_some in E as [Hx Hci]. apply in_app_or in Hx as [Hx|Hx].
    - exfalso. assert (mem_ci cn (map fst po) = true) as X; [|congruence]. apply mem_ci_ex. eauto.
    - (* a name assigned before the attachment: an option name, so it is cn itself *)
      eapply nodup_ci_unique; [exact opts_nodup|exact (H2b _ Hx)|now apply (in_map fst) in Hino|exact Hci].
  Qed.

  (* one `self.parsers[cn] = ...; self.config[cn] = v` *)
  Lemma set_option st po cn k v lp :
    binv st po -> mem_ci cn (map fst po) = false -> mem_ci cn reserved_names = false -> In cn (map fst opts) ->
    lp = (if is_list_kind k then m_listp st ++ [cn] else m_listp st) ->
    (forall st1, dget cn (m_config st1) = Some v -> m_defaults st1 = ddict -> synced defaults st1 estore cn k) ->
    binv (set_config {| m_parsers := dset cn (ty_of k) (m_parsers st); m_listp := lp; m_defaults := m_defaults st;
                        m_config := m_config st; m_unsaved := m_unsaved st |} cn v) (po ++ [(cn, k)]).
  Proof.
    intros [H1 [[H2a H2b] [H3 [H4 [H5 [H6 [H7 H8]]]]]]] Hf Hres Hcno -> Hs.
    pose proof (mem_ci_false_not_in _ _ Hf) as Hni.
    assert (dget cn (m_parsers st) = None) as Hpn by (apply dget_not_in; now rewrite H1).
    unfold set_config. cbn [m_parsers m_config m_unsaved m_defaults m_listp]. rewrite H5. cbn [dget].
    unfold binv. cbn [m_parsers m_config m_unsaved m_defaults m_listp].
    split; [|split; [|split; [|split; [|split; [|split; [|split]]]]]]; try assumption; try reflexivity.
    - rewrite keys_dset_new by assumption. now rewrite map_app, H1.
    - split.
      + intros c k0 Hin. apply in_app_or in Hin as [Hin|[Hin|[]]].
        * apply dmem_dset_mono. eapply H2a; eassumption.
        * inversion Hin. subst. unfold dmem. now rewrite dget_dset_same.
      + intros x Hx. apply in_map_iff in Hx as [[x' v'] [<- Hx]]. cbn [fst].
        apply In_dset in Hx as [[-> _]|Hx]; [assumption|]. apply H2b. now apply (in_map fst) in Hx.
    - intros c k0 Hin. apply in_app_or in Hin as [Hin|[Hin|[]]].
      + rewrite dget_dset_other; [now apply H3|]. intros ->. apply Hni. now apply (in_map fst) in Hin.
      + inversion Hin. subst. apply dget_dset_same.
    - intros c k0 Hin. apply in_app_or in Hin as [Hin|[Hin|[]]].
      + eapply synced_frame; [| |exact (H4 _ _ Hin)]; cbn [m_config m_defaults]; [|reflexivity].
        apply dget_dset_other. intros ->. apply Hni. now apply (in_map fst) in Hin.
      + inversion Hin. subst. apply Hs; cbn [m_config m_defaults]; [apply dget_dset_same|assumption].
    - intros c k0 Hin. apply in_app_or in Hin as [Hin|[Hin|[]]].
      + assert (c <> cn) as Hne by (intros ->; apply Hni; now apply (in_map fst) in Hin).
        rewrite <- (H7 _ _ Hin). destruct (is_list_kind k); [|reflexivity].
        rewrite mem_bytes_snoc. rewrite (beqb_neq_false cn c) by congruence. apply orb_false_r.
      + inversion Hin. subst c k0. destruct (is_list_kind k) eqn:Elk.
        * rewrite mem_bytes_snoc, beqb_refl. apply orb_true_r.
        * destruct (mem_bytes cn (m_listp st)) eqn:Em; [|reflexivity]. exfalso.
          destruct (H8 _ Em) as [X|X]; [contradiction|]. rewrite (own_names_reserved _ X) in Hres. discriminate.
    - intros x Hx. rewrite map_app. cbn [map fst].
      assert (mem_bytes x (m_listp st) = true \/ x = cn) as [X|X].
      { destruct (is_list_kind k); [|now left]. rewrite mem_bytes_snoc in Hx. apply orb_true_iff in Hx as [Hx|Hx]; [now left|].
        right. apply beqb_eq in Hx. now symmetry. }
      + destruct (H8 _ X) as [Y|Y]; [left; apply in_or_app; now left|now right].
      + left. apply in_or_app. right. now left.
  Qed.

  Lemma set_option' st po cn k v lp d :
    binv st po -> mem_ci cn (map fst po) = false -> mem_ci cn reserved_names = false -> In cn (map fst opts) ->
    lp = (if is_list_kind k then m_listp st ++ [cn] else m_listp st) -> d = m_defaults st ->
    (forall st1, dget cn (m_config st1) = Some v -> m_defaults st1 = ddict -> synced defaults st1 estore cn k) ->
    binv (set_config {| m_parsers := dset cn (ty_of k) (m_parsers st); m_listp := lp; m_defaults := d;
                        m_config := m_config st; m_unsaved := m_unsaved st |} cn v) (po ++ [(cn, k)]).
  Proof. intros Hb Hf Hres Hcno Hlp -> Hs. now apply set_option. Qed.

  (* ---- the view of each kind of option, as _do_setup computes it ---- *)
  Lemma ddict_get cn : dget cn ddict = dval_of (default_lines defaults cn).
  Proof. apply defaults_dict_whole. Qed.

  Lemma defaults_values_ok cn k d : In (cn, k) opts -> In d (default_lines defaults cn) -> tor_value_ok d = true.
  Proof.
    intros Hin Hd. unfold defaults_ok in Hdfl. fold defaults in Hdfl. destruct defaults as [ls|] eqn:E; [|destruct Hd].
    apply andb_true_iff in Hdfl as [H _]. unfold default_lines in Hd.
    apply in_concat in Hd as [b [Hb Hd]]. apply in_map_iff in Hb as [l [Hl Hin']]. subst b.
    destruct (beqb (fst l) cn); [|destruct Hd]. destruct Hd as [Hd|[]]. subst d.
    pose proof (proj1 (forallb_forall _ _) H l Hin') as X. now apply andb_true_iff in X as [_ X].
  Qed.

  Lemma defaults_shape cn k : In (cn, k) opts ->
    match k with
    | KLine | KPorts => True
    | KComma => (List.length (default_lines defaults cn) <= 1)%nat
    | KStr => (List.length (default_lines defaults cn) <= 1)%nat
    | _ => True
    end.
  Proof.
    intros Hin. unfold defaults_ok in Hdfl. fold defaults in Hdfl. destruct defaults as [ls|] eqn:E.
    - apply andb_true_iff in Hdfl as [_ H]. pose proof (proj1 (forallb_forall _ _) H (cn, k) Hin) as X. cbn [fst snd] in X.
      destruct k; try exact I.
      + now apply Nat.leb_le.
      + destruct (default_lines (Some ls) cn) as [|a [|b t]]; cbn; try lia; discriminate.
    - destruct k; cbn; try exact I; lia.
  Qed.

  Lemma lines_of_default : parse PLines (PAtom (AStr DEFAULT_VALUE)) = Ok (PList [AStr DEFAULT_VALUE]).
  Proof. vm_compute. reflexivity. Qed.
  Lemma comma_of_default : parse PComma (PAtom (AStr DEFAULT_VALUE)) = Ok (PList [AStr DEFAULT_VALUE]).
  Proof. vm_compute. reflexivity. Qed.

  Lemma tor_fine k v : tor_value_ok v = true -> (k = KComma -> memb COMMA v = false) -> fine k (AStr v) = true.
  Proof.
    intros H Hc. destruct (tor_value_facts _ H) as [H1 [H2 _]]. cbn [fine].
    repeat (apply andb_true_iff; split).
    - destruct v; [congruence|reflexivity].
    - now apply beqb_eq.
    - destruct k; try reflexivity. unfold no_comma. now rewrite (Hc eq_refl).
  Qed.

  Lemma map_strip_tor vs : (forall v, In v vs -> tor_value_ok v = true) -> map strip vs = vs.
  Proof.
    induction vs as [|v vs IH]; [reflexivity|]. intros H. cbn.
    rewrite (proj1 (proj2 (tor_value_facts _ (H v (or_introl eq_refl))))). rewrite IH; [reflexivity|].
    intros x Hx. apply H. now right.
  Qed.

  Lemma map_unquote_tor vs : (forall v, In v vs -> tor_value_ok v = true) -> map (fun v => AStr (unquote v)) vs = map AStr vs.
  Proof.
    induction vs as [|v vs IH]; [reflexivity|]. intros H. cbn.
    rewrite (tor_value_unquote _ (H v (or_introl eq_refl))). rewrite IH; [reflexivity|].
    intros x Hx. apply H. now right.
  Qed.

  (* the defaults of a list option, as a list of atoms *)
  Definition dfl_atoms (cn : bytes) : list atom :=
    match dget cn ddict with
    | Some (DStr s) => [AStr s]
    | Some (DList dl) => map AStr dl
    | None => []
    end.

  Lemma dfl_atoms_eq cn : dfl_atoms cn = map AStr (default_lines defaults cn).
  Proof.
    unfold dfl_atoms. rewrite ddict_get. destruct (default_lines defaults cn) as [|a [|b t]]; reflexivity.
  Qed.

  (* an unset line list (declared LineList, or a port list): the view is the default lines *)
  Lemma synced_unset_list st1 cn k vals :
    In (cn, k) opts -> (k = KLine \/ k = KPorts) -> nonempty_values vals = [] ->
    dget cn (m_config st1) = Some (CList true (dfl_atoms cn)) -> synced_at defaults st1 vals cn k.
  Proof.
    intros Hin Hk Hne Hc. rewrite dfl_atoms_eq in Hc.
    assert (forall d, In d (default_lines defaults cn) -> tor_value_ok d = true) as Hd
      by (intros d Hi; eapply defaults_values_ok; eassumption).
    split.
    - unfold view_of. rewrite Hc. cbn [rval_of_gotten]. rewrite map_atom_text_AStr.
      unfold typed_value. rewrite Hne.
      destruct Hk as [-> | ->]; now rewrite (map_strip_tor _ Hd).
    - intros _. exists (default_lines defaults cn). split; [assumption|].
      apply forallb_forall. intros a Ha. apply in_map_iff in Ha as [d [<- Hdi]].
      apply tor_fine; [now apply Hd|]. intros ->. destruct Hk; discriminate.
  Qed.

  Lemma defaults_comma_ok cn d : In (cn, KComma) opts -> default_lines defaults cn = [d] -> comma_text_ok d = true.
  Proof.
    intros Hin Hd. unfold defaults_ok in Hdfl. fold defaults in Hdfl. destruct defaults as [ls|] eqn:E; [|discriminate Hd].
    apply andb_true_iff in Hdfl as [_ H]. pose proof (proj1 (forallb_forall _ _) H (cn, KComma) Hin) as X.
    cbn [fst snd] in X. now rewrite Hd in X.
  Qed.

  (* `defaults.get(rn, [])`, parsed by the option's type when it is a single line *)
  Lemma list_default_ok cn k :
    In (cn, k) opts -> (k = KLine \/ k = KComma) ->
    exists l', list_default (pk_of k) (dget cn ddict) = Ok l' /\
      forall st1 vals, nonempty_values vals = [] -> dget cn (m_config st1) = Some (CList true l') ->
                       synced_at defaults st1 vals cn k.
  Proof.
    intros Hin Hk.
    assert (forall d, In d (default_lines defaults cn) -> tor_value_ok d = true) as Hd
      by (intros d Hi; eapply defaults_values_ok; eassumption).
    assert (dfl_atoms cn = map AStr (default_lines defaults cn)) as Hda by apply dfl_atoms_eq.
    unfold dfl_atoms in Hda. rewrite ddict_get in Hda |- *.
    destruct (default_lines defaults cn) as [|d [|d2 t]] eqn:E; cbn [dval_of list_default] in Hda |- *.
    - exists []. split; [reflexivity|]. intros st1 vals Hne Hc. split.
      + unfold view_of. rewrite Hc. cbn [rval_of_gotten map]. unfold typed_value. rewrite Hne, E.
        destruct Hk as [-> | ->]; reflexivity.
      + intros _. exists []. split; [exact Hc|reflexivity].
    - pose proof (Hd d (or_introl eq_refl)) as Hdo.
      destruct Hk as [-> | ->]; cbn [pk_of ty_of fst].
      + destruct (tor_value_facts _ Hdo) as [_ [Hs [_ [_ Hlf]]]].
        exists [AStr d]. split; [cbn [parse bind]; now rewrite (split_on_no_sep _ _ Hlf); cbn; rewrite Hs|].
        intros st1 vals Hne Hc. apply synced_unset_list; auto.
        unfold dfl_atoms. rewrite ddict_get, E. exact Hc.
      + exists (map AStr (split_comma d)). split; [change PComma with (pk_of KComma); now rewrite parse_comma_text|].
        intros st1 vals Hne Hc. eapply synced_comma_default_at; try eassumption.
        now apply defaults_comma_ok with (cn := cn).
    - destruct Hk as [-> | ->].
      + exists (map AStr (d :: d2 :: t)). split; [reflexivity|].
        intros st1 vals Hne Hc. apply synced_unset_list; auto.
        unfold dfl_atoms. rewrite ddict_get, E. exact Hc.
      + exfalso. pose proof (defaults_shape cn KComma Hin) as Hs. rewrite E in Hs. cbn in Hs. lia.
  Qed.

  Lemma split_on_single c s p : split_on c s = [p] -> s = p /\ memb c s = false.
  Proof.
    revert p. induction s as [|x s IH]; intros p; cbn [split_on].
    - intros H. inversion H. auto.
    - destruct (Ascii.eqb x c) eqn:E.
      + intros H. inversion H as [[H1 H2]]. destruct s; cbn in H2; [discriminate|].
        destruct (Ascii.eqb a c); [discriminate|]. destruct (split_on c s); discriminate.
      + destruct (split_on c s) as [|h t] eqn:Es.
        * intros H. inversion H. subst. exfalso. destruct s; cbn in Es; [discriminate|].
          destruct (Ascii.eqb a c); [discriminate|]. destruct (split_on c s); discriminate.
        * intros H. inversion H. subst. destruct (IH h eq_refl) as [-> Hm]. split; [reflexivity|].
          cbn. rewrite Ascii.eqb_sym, E. exact Hm.
  Qed.

  (* the value of a list option Tor holds, as _do_setup parses it *)
  Lemma boot_list st1 cn k vals :
    In (cn, k) opts -> (k = KLine \/ k = KComma) ->
    tor_values_ok k vals = true ->
    exists l l', parse (pk_of k) (getconf_value vals) = Ok (PList l) /\
      (if pyval_eq_default_list (PList l) then list_default (pk_of k) (dget cn ddict) else Ok l) = Ok l' /\
      (dget cn (m_config st1) = Some (CList true l') -> synced_at defaults st1 vals cn k).
  Proof.
    intros Hin Hk Hv.
    destruct vals as [|v0 vs].
    - (* unset *)
      destruct (list_default_ok cn k Hin Hk) as [l' [Hl' Hsy]].
      exists [AStr DEFAULT_VALUE], l'. split.
      { cbn [getconf_value]. destruct Hk as [-> | ->]; cbn [pk_of ty_of fst]; [apply lines_of_default|apply comma_of_default]. }
      assert (pyval_eq_default_list (PList [AStr DEFAULT_VALUE]) = true) as -> by (vm_compute; reflexivity).
      split; [exact Hl'|]. intros Hc. now apply Hsy.
    - assert (forall v, In v (v0 :: vs) -> tor_value_ok v = true) as Hall.
      { intros v Hi. destruct Hk as [-> | ->]; cbn [tor_values_ok] in Hv.
        - exact (proj1 (forallb_forall _ _) Hv v Hi).
        - destruct vs; [|discriminate]. destruct Hi as [<-|[]]. now apply andb_true_iff in Hv as [Hv _]. }
      destruct Hk as [-> | ->]; cbn [pk_of ty_of fst].
      + (* line list *)
        exists (map AStr (v0 :: vs)), (map AStr (v0 :: vs)). split; [|split].
        * destruct vs as [|v1 vs'].
          -- cbn [getconf_value map]. rewrite (tor_value_unquote _ (Hall v0 (or_introl eq_refl))).
             destruct (tor_value_facts _ (Hall v0 (or_introl eq_refl))) as [_ [Hs [_ [_ Hlf]]]].
             cbn [parse]. now rewrite (split_on_no_sep _ _ Hlf); cbn; rewrite Hs.
          -- unfold getconf_value. rewrite (map_unquote_tor _ Hall). cbn [parse]. rewrite map_map. cbn [atom_text].
             f_equal. f_equal. rewrite <- (map_map strip AStr). now rewrite (map_strip_tor _ Hall).
        * assert (pyval_eq_default_list (PList (map AStr (v0 :: vs))) = false) as ->; [|reflexivity].
          cbn [map pyval_eq_default_list]. destruct vs; [|reflexivity].
          exact (proj1 (proj2 (proj2 (tor_value_facts _ (Hall v0 (or_introl eq_refl)))))).
        * intros Hc. apply (synced_list_at defaults st1 (v0 :: vs) cn KLine (map AStr (v0 :: vs))); [reflexivity| |cbn; discriminate|exact Hc|].
          -- apply forallb_forall. intros a Ha. apply in_map_iff in Ha as [v [<- Hi]]. apply tor_fine; [now apply Hall|discriminate].
          -- now rewrite map_atom_text_AStr.
      + (* comma list: one value *)
        cbn [tor_values_ok] in Hv. destruct vs; [|discriminate]. apply andb_true_iff in Hv as [Htv Hct].
        exists (map AStr (split_comma v0)), (map AStr (split_comma v0)). split; [|split].
        * cbn [getconf_value]. rewrite (tor_value_unquote _ Htv). apply parse_comma_text.
        * assert (pyval_eq_default_list (PList (map AStr (split_comma v0))) = false) as ->; [|reflexivity].
          destruct (pyval_eq_default_list (PList (map AStr (split_comma v0)))) eqn:E; [|reflexivity]. exfalso.
          unfold split_comma in E. destruct (split_on COMMA v0) as [|p [|q t]] eqn:Esp; cbn in E; try discriminate.
          apply beqb_eq in E. destruct (split_on_single _ _ _ Esp) as [<- _].
          destruct (tor_value_facts _ Htv) as [_ [Hs [Hd _]]]. rewrite Hs in E. rewrite E, beqb_refl in Hd. discriminate.
        * intros Hc. eapply synced_comma_text_at; [exact Hct|exact Hc|reflexivity].
  Qed.

  (* what _do_setup computes for a scalar option *)
  Definition scalar_expr (pk : parse_kind) (cn : bytes) (vals : list bytes) : res pyval :=
    let v := getconf_value vals in
    if pyval_is_str v [] || pyval_is_str v DEFAULT_VALUE then
      match dget cn ddict with
      | Some (DStr s) => parse pk (PAtom (AStr s))
      | Some (DList dl) => Oos
      | None => parse pk (PAtom (AStr DEFAULT_VALUE))
      end
    else parse pk v.

  Lemma view_atom st1 cn a : (forall x, a <> AStr x) -> dget cn (m_config st1) = Some (CAtom a) -> view_of st1 cn = Some (RAtom a).
  Proof. intros Hn Hc. unfold view_of. rewrite Hc. destruct a; try reflexivity. exfalso. eapply Hn. reflexivity. Qed.

  Lemma view_str st1 cn s : beqb s DEFAULT_VALUE = false -> dget cn (m_config st1) = Some (CAtom (AStr s)) ->
    view_of st1 cn = Some (RAtom (AStr s)).
  Proof. intros Hn Hc. unfold view_of. now rewrite Hc, Hn. Qed.

  Lemma boot_scalar st1 cn k vals :
    In (cn, k) opts -> is_list_kind k = false ->
    tor_values_ok k vals = true -> (forall v, In v vals -> v = [] \/ tor_value_ok v = true) ->
    exists parsed, scalar_expr (pk_of k) cn vals = Ok parsed /\
      (dget cn (m_config st1) = Some (cval_of_pyval false parsed) -> dget cn (m_defaults st1) = dget cn ddict -> synced_at defaults st1 vals cn k).
  Proof.
    intros Hin Hl Hv Hv2. unfold scalar_expr.
    destruct (kind_eqb k KStr) eqn:Ek.
    - assert (k = KStr) by (destruct k; try discriminate Ek; reflexivity). subst k. cbn [pk_of ty_of fst parse].
      cbn [tor_values_ok] in Hv.
      (* unset (or set to the empty string): the default, or the DEFAULT_VALUE sentinel *)
      assert (nonempty_values vals = [] ->
              getconf_value vals = PAtom (AStr DEFAULT_VALUE) \/ getconf_value vals = PAtom (AStr []) ->
              exists parsed,
                match dget cn ddict with
                | Some (DStr s) => Ok (PAtom (AStr s))
                | Some (DList dl) => Oos
                | None => Ok (PAtom (AStr DEFAULT_VALUE))
                end = Ok parsed /\
                (dget cn (m_config st1) = Some (cval_of_pyval false parsed) -> dget cn (m_defaults st1) = dget cn ddict -> synced_at defaults st1 vals cn KStr)) as Hunset.
      { intros Hne _. rewrite ddict_get.
        pose proof (defaults_shape cn KStr Hin) as Hs. cbn in Hs.
        destruct (default_lines defaults cn) as [|d [|d2 t]] eqn:Ed; [| |cbn in Hs; lia]; cbn [dval_of].
        - eexists. split; [reflexivity|]. intros Hc Hd. split; [|discriminate].
          unfold view_of. rewrite Hc. cbn [cval_of_pyval]. rewrite beqb_refl, Hd. cbn [dval_of].
          unfold typed_value. rewrite Hne, ?Ed. now rewrite DEFAULT_agree.
        - assert (tor_value_ok d = true) as Hd0 by (eapply defaults_values_ok; [eassumption|rewrite Ed; now left]).
          eexists. split; [reflexivity|]. intros Hc Hd. split; [|discriminate].
          rewrite (view_str _ _ _ (proj1 (proj2 (proj2 (tor_value_facts _ Hd0)))) Hc).
          unfold typed_value. rewrite Hne, ?Ed. reflexivity. }
      destruct vals as [|v0 [|v1 vs]]; [| |discriminate].
      + cbn [getconf_value pyval_is_str]. rewrite beqb_refl, orb_true_r. apply Hunset; auto.
      + destruct v0 as [|c r].
        * cbn [getconf_value unquote pyval_is_str beqb orb]. apply Hunset; auto.
        * apply orb_true_iff in Hv as [Hv|Hv]; [discriminate|].
          destruct (tor_value_facts _ Hv) as [_ [_ [Hnd [Hu _]]]].
          cbn [getconf_value]. rewrite Hu. cbn [pyval_is_str]. rewrite Hnd.
          assert (beqb (c :: r) [] = false) as -> by reflexivity. cbn [orb].
          eexists. split; [reflexivity|]. intros Hc Hd. split; [|discriminate].
          rewrite (view_str _ _ _ Hnd Hc). reflexivity.
    - assert (k <> KStr) as Hk by (intros ->; discriminate Ek).
      assert (exists v0, vals = [v0]) as [v0 Es].
      { destruct k; try discriminate Hl; try congruence; cbn [tor_values_ok] in Hv;
          destruct vals as [|v0 [|v1 vs]]; try discriminate; eauto. }
      subst vals.
      destruct (parse_text_agrees k v0 Hl Hk Hv) as [a' [Hp Hps]].
      destruct (parse_scalar_not_default _ _ _ Hl Hk Hps) as [Hne Hns].
      assert (tor_value_ok v0 = true) as Htv.
      { destruct (Hv2 v0 (or_introl eq_refl)) as [E|E]; [congruence|assumption]. }
      destruct (tor_value_facts _ Htv) as [_ [_ [Hnd [Hu _]]]].
      cbn [getconf_value]. rewrite Hu. cbn [pyval_is_str]. rewrite Hnd.
      assert (beqb v0 [] = false) as -> by (destruct v0; [congruence|reflexivity]). cbn [orb].
      exists (PAtom a'). split; [assumption|]. intros Hc Hd. split; [|intros E; congruence].
      rewrite (view_atom _ _ _ Hns Hc). unfold typed_value.
      destruct v0 as [|c0 r0]; [congruence|]. cbn [nonempty_values filter].
      destruct k; try discriminate Hl; try congruence; now rewrite Hps.
  Qed.

  (* ---- what the envelope says about Tor's store at attach time ---- *)
  Hypothesis Hstore : forall cn k, In (cn, k) opts -> tor_values_ok k (store_get store_ cn) = true.
  Hypothesis Hdunder : forall cn v, In (cn, KPorts) opts -> In v (store_get store_ (dunder cn)) -> tor_value_ok v = true.
  Hypothesis Hstore2 : forall cn k v, In (cn, k) opts -> In v (store_get store_ cn) -> v = [] \/ tor_value_ok v = true.

  Lemma kind_not_ports t k : kind_of_type t = Some (Some k) -> k <> KPorts.
  Proof.
    unfold kind_of_type.
    repeat match goal with |- context [if ?b then _ else _] => destruct b end; intros H; inversion H; discriminate.
  Qed.

  Lemma opt_facts cn k : In (cn, k) opts -> mem_ci cn reserved_names = false /\ name_ok cn = true.
  Proof. exact (in_opts_facts i Htab cn k). Qed.

  (* the store the view is compared with differs from Tor's report only on port lists *)
  Lemma estore_get cn k : In (cn, k) opts ->
    store_get estore cn = match eff_value i (cn, k) with Some v => v | None => store_get store_ cn end.
  Proof. intros Hin. unfold estore, eff_store. apply fold_eff_in; [apply nodup_ci_NoDup, opts_nodup|exact Hin]. Qed.

  Lemma estore_other cn k : In (cn, k) opts -> k <> KPorts -> store_get estore cn = store_get store_ cn.
  Proof. intros Hin Hk. rewrite (estore_get cn k Hin). unfold eff_value. cbn [snd]. destruct k; try reflexivity. congruence. Qed.

  (* ---- port lists ---- *)
  Lemma nonempty_values_tor vs : (forall v, In v vs -> tor_value_ok v = true) -> nonempty_values vs = vs.
  Proof.
    induction vs as [|v vs IH]; [reflexivity|]. intros H. cbn [nonempty_values filter].
    destruct (tor_value_facts _ (H v (or_introl eq_refl))) as [Hne _].
    destruct v; [congruence|]. f_equal. apply IH. intros x Hx. apply H. now right.
  Qed.

  Lemma ports_view vs : (forall v, In v vs -> tor_value_ok v = true) -> vs <> [] -> forall dls,
    typed_value KPorts vs dls = Some (RList true vs).
  Proof.
    intros H Hne dls. unfold typed_value. rewrite (nonempty_values_tor _ H).
    destruct vs; [congruence|]. now rewrite (map_strip_tor _ H).
  Qed.

  Lemma getconf_many v0 v1 vs : (forall v, In v (v0 :: v1 :: vs) -> tor_value_ok v = true) ->
    getconf_value (v0 :: v1 :: vs) = PList (map AStr (v0 :: v1 :: vs)).
  Proof. intros H. unfold getconf_value. now rewrite (map_unquote_tor _ H). Qed.

  Lemma ports_lines st1 cn evals L :
    (forall v, In v L -> tor_value_ok v = true) ->
    typed_value KPorts evals (default_lines defaults cn) = Some (RList true L) ->
    dget cn (m_config st1) = Some (CList true (map AStr L)) -> synced_at defaults st1 evals cn KPorts.
  Proof.
    intros HL Ht Hc. split.
    - unfold view_of. rewrite Hc. cbn [rval_of_gotten]. now rewrite map_atom_text_AStr, Ht.
    - intros _. exists L. split; [exact Hc|]. apply forallb_forall. intros a Ha.
      apply in_map_iff in Ha as [v [<- Hv]]. apply tor_fine; [auto|discriminate].
  Qed.

  (* unset or "auto": the config/defaults lines, else what __<X> holds *)
  Lemma boot_ports_default cn :
    In (cn, KPorts) opts ->
    exists L,
      aslist (match dget cn ddict with
              | Some d => pyval_of_dval d
              | None => let d := getconf_value (store_get store_ (bs "__" ++ cn)) in
                        if pyval_is_str d [] || pyval_is_str d DEFAULT_VALUE then PList [] else d
              end) = map AStr L /\
      (forall v, In v L -> tor_value_ok v = true) /\
      typed_value KPorts (if is_nil (default_lines defaults cn) then store_get store_ (dunder cn) else [])
                  (default_lines defaults cn) = Some (RList true L).
  Proof.
    intros Hin.
    assert (forall d, In d (default_lines defaults cn) -> tor_value_ok d = true) as Hd
      by (intros d Hi; eapply defaults_values_ok; eassumption).
    rewrite ddict_get.
    destruct (default_lines defaults cn) as [|d [|d2 t]] eqn:E; cbn [dval_of is_nil pyval_of_dval aslist].
    - change (bs "__" ++ cn) with (dunder cn). pose proof (Hdunder cn) as Hdu.
      destruct (store_get store_ (dunder cn)) as [|x [|y vs]] eqn:Ev.
      + exists []. cbv zeta. cbn [getconf_value pyval_is_str]. rewrite beqb_refl, orb_true_r. repeat split; [intros v []].
      + assert (tor_value_ok x = true) as Hx by (apply Hdu; [assumption|now left]).
        destruct (tor_value_facts _ Hx) as [Hne [_ [Hnd [Hu _]]]].
        exists [x]. cbv zeta. cbn [getconf_value]. rewrite Hu. cbn [pyval_is_str]. rewrite Hnd.
        assert (beqb x [] = false) as -> by (destruct x; [congruence|reflexivity]). cbn [orb aslist map].
        split; [reflexivity|]. split; [intros v [<-|[]]; exact Hx|].
        apply ports_view; [intros v [<-|[]]; exact Hx|discriminate].
      + assert (forall v, In v (x :: y :: vs) -> tor_value_ok v = true) as Hall by (intros v Hv; now apply Hdu).
        exists (x :: y :: vs). cbv zeta. rewrite (getconf_many _ _ _ Hall). cbn [pyval_is_str orb aslist].
        split; [reflexivity|]. split; [exact Hall|]. apply ports_view; [exact Hall|discriminate].
    - exists [d]. split; [reflexivity|]. split; [intros v [<-|[]]; apply Hd; now left|].
      unfold typed_value. cbn [nonempty_values filter]. now rewrite (map_strip_tor _ Hd).
    - exists (d :: d2 :: t). split; [reflexivity|]. split; [exact Hd|].
      unfold typed_value. cbn [nonempty_values filter]. now rewrite (map_strip_tor _ Hd).
  Qed.

  Lemma boot_ports cn :
    In (cn, KPorts) opts ->
    exists L,
      aslist (ports_initial store_ ddict cn) = map AStr L /\
      (forall v, In v L -> tor_value_ok v = true) /\
      typed_value KPorts (store_get estore cn) (default_lines defaults cn) = Some (RList true L).
  Proof.
    intros Hin. rewrite (estore_get cn KPorts Hin). unfold eff_value. cbn [snd fst]. fold store_. fold defaults.
    assert (forall v, In v (store_get store_ cn) -> tor_value_ok v = true) as Hall.
    { intros v Hv. pose proof (Hstore cn KPorts Hin) as X. cbn [tor_values_ok] in X.
      exact (proj1 (forallb_forall _ _) X v Hv). }
    unfold ports_initial, unset_or_auto. rewrite (nonempty_values_tor _ Hall).
    destruct (store_get store_ cn) as [|v0 [|v1 vs]] eqn:Ev; cbv zeta.
    - cbn [getconf_value pyval_is_str]. rewrite beqb_refl. cbn [orb]. now apply boot_ports_default.
    - pose proof (Hall v0 (or_introl eq_refl)) as Hv0.
      destruct (tor_value_facts _ Hv0) as [Hne [_ [Hnd [Hu _]]]].
      cbn [getconf_value]. rewrite Hu. cbn [pyval_is_str]. rewrite Hnd, auto_agree. cbn [orb].
      destruct (beqb v0 auto_word); [now apply boot_ports_default|].
      exists [v0]. split; [reflexivity|]. split; [exact Hall|]. apply ports_view; [exact Hall|discriminate].
    - rewrite (getconf_many _ _ _ Hall). cbn [pyval_is_str orb aslist].
      exists (v0 :: v1 :: vs). split; [reflexivity|]. split; [exact Hall|]. apply ports_view; [exact Hall|discriminate].
  Qed.

  Lemma boot_ports_row st po n rest_opts :
    binv st po ->
    opts = po ++ (if suffixb PortLines_suffix n then [(drop_last 5 n, KPorts)] else []) ++ rest_opts ->
    exists st1, setup_ports store_ st n = Ok st1 /\
                binv st1 (po ++ (if suffixb PortLines_suffix n then [(drop_last 5 n, KPorts)] else [])).
  Proof.
    intros Hb Hopts. unfold setup_ports. change PortLines_sfx with PortLines_suffix.
    destruct (suffixb PortLines_suffix n) eqn:Esfx.
    - set (base := drop_last 5 n) in *.
      assert (In (base, KPorts) opts) as Hin by (rewrite Hopts; apply in_or_app; right; now left).
      assert (mem_ci base (map fst po) = false) as Hfresh.
      { pose proof opts_nodup as Hnd. rewrite Hopts in Hnd. cbn [app] in Hnd. rewrite map_app in Hnd. cbn [map fst] in Hnd.
        exact (nodup_ci_app_fresh _ _ _ Hnd). }
      cbv zeta. rewrite (fresh_real_name _ _ _ _ Hb Hfresh Hin), port_list_parser.
      assert (m_defaults st = ddict) as Hdd by (destruct Hb as [_ [_ [_ [_ [_ [H6 _]]]]]]; exact H6).
      rewrite Hdd.
      destruct (boot_ports base Hin) as [L [HL [Hok Hty]]]. rewrite HL.
      eexists. split; [reflexivity|].
      apply set_option'; [assumption|assumption|exact (proj1 (opt_facts _ _ Hin))|now apply (in_map fst) in Hin|reflexivity|now rewrite Hdd|].
      intros st' Hc _. unfold synced. eapply ports_lines; eassumption.
    - exists st. split; [reflexivity|]. now rewrite app_nil_r.
  Qed.

  Lemma boot_own_row st1 po1 n t rest_opts :
    binv st1 po1 ->
    opts = po1 ++ match kind_of_type t with Some (Some k) => [(n, k)] | _ => [] end ++ rest_opts ->
    kind_of_type t <> None ->
    exists st2, setup_own store_ st1 n t = Ok st2 /\
                binv st2 (po1 ++ match kind_of_type t with Some (Some k) => [(n, k)] | _ => [] end).
  Proof.
    intros Hb1 Hopts1 Hkt. unfold setup_own.
    destruct (mem_bytes t skip_types) eqn:Esk.
    - apply skip_types_kind in Esk. rewrite Esk. exists st1. split; [reflexivity|]. now rewrite app_nil_r.
    - destruct (kind_of_type t) as [[k|]|] eqn:Ekt; [| |congruence].
      2:{ exfalso. assert (mem_bytes t skip_types = true) as X by (apply skip_types_kind; exact Ekt). congruence. }
      rewrite (type_table_agrees _ _ Ekt).
      assert (In (n, k) opts) as Hin by (rewrite Hopts1; apply in_or_app; right; now left).
      assert (mem_ci n (map fst po1) = false) as Hfresh.
      { pose proof opts_nodup as Hnd. rewrite Hopts1 in Hnd. cbn [app] in Hnd. rewrite map_app in Hnd. cbn [map fst] in Hnd.
        exact (nodup_ci_app_fresh _ _ _ Hnd). }
      pose proof (kind_not_ports _ _ Ekt) as Hnp.
      assert (m_defaults st1 = ddict) as Hdd by (destruct Hb1 as [_ [_ [_ [_ [_ [H6 _]]]]]]; exact H6).
      destruct (is_list_kind k) eqn:Elk.
      + (* list kinds *)
        assert (k = KLine \/ k = KComma) as Hk by (destruct k; try discriminate Elk; try congruence; auto).
        assert (ty_of k = (pk_of k, vk_of k, true)) as Hty by (destruct Hk as [-> | ->]; reflexivity).
        rewrite Hty. cbv zeta. rewrite (fresh_real_name _ _ _ _ Hb1 Hfresh Hin).
        cbn [m_parsers m_listp m_defaults m_config m_unsaved].
        destruct (boot_list st1 n k (store_get store_ n) Hin Hk (Hstore n k Hin)) as [l [l' [Hp [Hl' _]]]].
        rewrite Hp. cbn [bind]. rewrite Hdd, Hl'. cbn [bind].
        eexists. split; [reflexivity|]. rewrite <- Hty.
        apply set_option'; [assumption|assumption|exact (proj1 (opt_facts _ _ Hin))|now apply (in_map fst) in Hin|now rewrite Elk|now rewrite Hdd|].
        intros st' Hc _. destruct (boot_list st' n k (store_get store_ n) Hin Hk (Hstore n k Hin)) as [l1 [l1' [Hp1 [Hl1' Hs]]]].
        rewrite Hp in Hp1. inversion Hp1. subst l1. rewrite Hl' in Hl1'. inversion Hl1'. subst l1'.
        unfold synced. rewrite (estore_other n k Hin Hnp). now apply Hs.
      + (* scalar kinds *)
        assert (ty_of k = (pk_of k, vk_of k, false)) as Hty by (destruct k; try discriminate Elk; try congruence; reflexivity).
        rewrite Hty. cbv zeta. rewrite (fresh_real_name _ _ _ _ Hb1 Hfresh Hin).
        cbn [m_parsers m_listp m_defaults m_config m_unsaved]. rewrite Hdd.
        destruct (boot_scalar st1 n k (store_get store_ n) Hin Elk (Hstore n k Hin) (fun v Hv => Hstore2 n k v Hin Hv)) as [parsed [Hp _]].
        unfold scalar_expr in Hp. rewrite Hp. cbn [bind].
        eexists. split; [reflexivity|]. rewrite <- Hty.
        apply set_option'; [assumption|assumption|exact (proj1 (opt_facts _ _ Hin))|now apply (in_map fst) in Hin|now rewrite Elk|now rewrite Hdd|].
        intros st' Hc Hd'. destruct (boot_scalar st' n k (store_get store_ n) Hin Elk (Hstore n k Hin) (fun v Hv => Hstore2 n k v Hin Hv)) as [parsed1 [Hp1 Hs]].
        unfold scalar_expr in Hp1. rewrite Hp in Hp1. inversion Hp1. subst parsed1. unfold synced.
        rewrite (estore_other n k Hin Hnp). apply Hs; [assumption|now rewrite Hd'].
  Qed.

  (* one row of config/names *)
  Lemma boot_row st po n t rest_opts :
    binv st po ->
    opts = po ++ options [(n, t)] ++ rest_opts ->
    beqb n (bs "HiddenServiceOptions") = false ->
    kind_of_type t <> None ->
    exists st2, setup_row store_ st (n, t) = Ok st2 /\ binv st2 (po ++ options [(n, t)]).
  Proof.
    intros Hb Hopts Hhs Hkt. unfold setup_row. rewrite Hhs.
    cbn [options] in Hopts |- *. rewrite app_nil_r in Hopts |- *.
    destruct (boot_ports_row st po n (match kind_of_type t with Some (Some k) => [(n, k)] | _ => [] end ++ rest_opts) Hb)
      as [st1 [E1 Hb1]]; [now rewrite Hopts, <- app_assoc|].
    rewrite E1. cbn [bind].
    destruct (boot_own_row st1 _ n t rest_opts Hb1) as [st2 [E2 Hb2]]; [now rewrite Hopts, <- !app_assoc|assumption|].
    exists st2. split; [assumption|]. now rewrite app_assoc.
  Qed.

  Lemma row_facts n t : In (n, t) table -> beqb n (bs "HiddenServiceOptions") = false /\ kind_of_type t <> None.
  Proof.
    intros Hin. unfold table_ok in Htab. apply andb_true_iff in Htab as [H _]. apply andb_true_iff in H as [H _].
    apply andb_true_iff in H as [H _].
    pose proof (proj1 (forallb_forall _ _) H (n, t) Hin) as X. cbn [fst snd] in X.
    apply andb_true_iff in X as [X Hr]. apply andb_true_iff in X as [_ Hk]. apply negb_true_iff in Hr.
    split.
    - destruct (beqb n (bs "HiddenServiceOptions")) eqn:E; [|reflexivity]. exfalso.
      apply beqb_eq in E. subst n. vm_compute in Hr. discriminate.
    - intros E. rewrite E in Hk. discriminate.
  Qed.

  Lemma boot_rows : forall rows pre st,
    table = pre ++ rows -> binv st (options pre) ->
    exists st1, setup_rows store_ st rows = Ok st1 /\ binv st1 opts.
  Proof.
    induction rows as [|[n t] rows IH]; intros pre st Ht Hb.
    - rewrite app_nil_r in Ht. exists st. split; [reflexivity|]. unfold opts. now rewrite Ht.
    - assert (In (n, t) table) as Hin by (rewrite Ht; apply in_or_app; right; now left).
      destruct (row_facts _ _ Hin) as [Hhs Hkt].
      destruct (boot_row st (options pre) n t (options rows) Hb) as [st1 [E1 Hb1]]; try assumption.
      { unfold opts. rewrite Ht, options_app. change ((n, t) :: rows) with ([(n, t)] ++ rows). now rewrite options_app. }
      cbn [setup_rows]. rewrite E1. cbn [bind].
      apply (IH (pre ++ [(n, t)]) st1).
      + rewrite Ht. now rewrite <- app_assoc.
      + now rewrite options_app.
  Qed.

  Lemma reserved_not_option cn k r : In (cn, k) opts -> In r reserved_names -> cn <> r.
  Proof.
    intros Hin Hr E. subst r.
    unfold table_ok in Htab. apply andb_true_iff in Htab as [_ H].
    pose proof (proj1 (forallb_forall _ _) H (cn, k) Hin) as X. cbn [fst] in X.
    apply andb_true_iff in X as [X _]. apply negb_true_iff in X.
    assert (mem_ci cn reserved_names = true) as Y; [|congruence].
    apply mem_ci_ex. exists cn. split; [assumption|apply ci_refl].
  Qed.

  Theorem bootstrap_rel : exists st0, m_bootstrap i = Ok st0 /\ Rel opts defaults st0 (mon0 i).
  Proof.
    unfold m_bootstrap. fold ddict. fold store_. fold table.
    set (st0 := {| m_parsers := []; m_listp := [bs "hiddenservices"; bs "ephemeralonionservices"];
                   m_defaults := ddict; m_config := pre_config (i_pre i); m_unsaved := [] |}).
    assert (binv st0 (options [])) as Hb0.
    { unfold binv. cbn [options].
      split; [reflexivity|]. split; [split; [intros c0 k0 []|exact Hpre]|]. split; [intros c0 k0 []|]. split; [intros c0 k0 []|].
      split; [reflexivity|]. split; [reflexivity|]. split; [intros c0 k0 []|]. intros x Hx. right.
      cbn [m_listp st0 mem_bytes] in Hx. apply orb_true_iff in Hx as [Hx|Hx]; [apply beqb_eq in Hx; left; exact Hx|].
      apply orb_true_iff in Hx as [Hx|Hx]; [apply beqb_eq in Hx; right; left; exact Hx|discriminate]. }
    destruct (boot_rows table [] st0 eq_refl Hb0) as [st1 [E1 [H1 [[H2a H2b] [H3 [H4 [H5 [H6 [H7 H8]]]]]]]]].
    rewrite E1. cbn [bind]. eexists. split; [reflexivity|].
    set (e := bs "EphemeralOnionServices"). set (d := bs "DetachedOnionServices").
    assert (In e reserved_names) as He by (cbn; auto).
    assert (In d reserved_names) as Hd by (cbn; auto).
    assert (forall cn k, In (cn, k) opts ->
              dget cn (m_config (set_config (set_config st1 e (CList false [])) d (CList false []))) = dget cn (m_config st1)) as Hcfg.
    { intros cn k Hin. rewrite !set_config_config.
      rewrite dget_dset_other by (intros E; eapply reserved_not_option; [exact Hin|exact Hd|now symmetry]).
      apply dget_dset_other. intros E. eapply reserved_not_option; [exact Hin|exact He|now symmetry]. }
    assert (m_unsaved (set_config (set_config st1 e (CList false [])) d (CList false [])) = []) as Hun.
    { unfold set_config. cbn [m_unsaved]. rewrite H5. reflexivity. }
    constructor; cbn [mon0 m_st m_det m_f1 m_f3 eff_ost s_store s_pend]; auto.
    - intros cn k Hin. unfold dmem. rewrite (Hcfg _ _ Hin). exact (H2a _ _ Hin).
    - intros cn k Hin. cbn [set_config m_defaults]. rewrite H6. apply ddict_get.
    - intros cn k Hin _. split; [now rewrite Hun|].
      eapply synced_frame; [exact (Hcfg _ _ Hin)|reflexivity|]. now apply H4.
    - intros cn iv Hp. discriminate.
    - now rewrite Hun.
    - rewrite Hun. constructor.
  Qed.
End Boot.

(* ------------------------------------------------------------------ from the envelope predicates *)
Theorem bootstrap_synced i :
  table_ok (i_table i) = true -> store_ok (i_table i) (i_store i) = true ->
  defaults_ok (options (i_table i)) (i_defaults i) = true ->
  pre_ok (options (i_table i)) (i_pre i) = true ->
  exists st0, m_bootstrap i = Ok st0 /\ Rel (options (i_table i)) (i_defaults i) st0 (mon0 i).
Proof.
  intros Htab Hst Hdf Hpre.
  unfold store_ok in Hst. apply andb_true_iff in Hst as [Hst Hs4]. apply andb_true_iff in Hst as [Hst _].
  apply andb_true_iff in Hst as [Hs1 Hs2].
  apply bootstrap_rel; try assumption.
  - (* the names assigned before the attachment are option names *)
    unfold pre_ok in Hpre. unfold pre_config. destruct (i_pre i) as [l|]; [|intros x []].
    assert (forall l0 acc, forallb (fun p : bytes * pyval => mem_bytes (fst p) (map fst (options (i_table i)))) l0 = true ->
              (forall x, In x (map fst acc) -> In x (map fst (options (i_table i)))) ->
              forall x, In x (map fst (fold_left (fun c (p : bytes * pyval) => dset (fst p) (cval_of_pyval true (snd p)) c) l0 acc)) ->
                        In x (map fst (options (i_table i)))) as Hfold.
    { induction l0 as [|p l0 IH]; intros acc Hl Hacc x Hx; [now apply Hacc|]. cbn [forallb] in Hl.
      apply andb_true_iff in Hl as [Hp Hl]. cbn [fold_left] in Hx. apply (IH _ Hl) in Hx; [exact Hx|].
      intros y Hy. apply in_map_iff in Hy as [[y' v'] [<- Hy]]. cbn [fst].
      apply In_dset in Hy as [[-> _]|Hy]; [|apply Hacc; now apply (in_map fst) in Hy].
      apply mem_bytes_In. exact Hp. }
    apply (Hfold l [] Hpre). intros x [].
  - intros cn k Hin. exact (proj1 (forallb_forall _ _) Hs1 (cn, k) Hin).
  - intros cn v Hin Hv. pose proof (proj1 (forallb_forall _ _) Hs4 (cn, KPorts) Hin) as X. cbn [fst snd] in X.
    exact (proj1 (forallb_forall _ _) X v Hv).
  - intros cn k v Hin Hv. unfold store_get in Hv. destruct (dget cn (i_store i)) as [l|] eqn:E; [|destruct Hv].
    apply dget_In in E. pose proof (proj1 (forallb_forall _ _) Hs2 (cn, l) E) as X. cbn [fst snd] in X.
    apply andb_true_iff in X as [_ X]. pose proof (proj1 (forallb_forall _ _) X v Hv) as Y.
    apply orb_true_iff in Y as [Y|Y]; [left; destruct v; [reflexivity|discriminate]|right; assumption].
Qed.
