(* Model of the relay part of txtorcon.torstate.TorState: _create_router, the ns/all part of
   _bootstrap, _update_network_status, router_from_id (for keys that do not create a placeholder),
   with Router.update / flags / bandwidth.  Router objects live in a heap (a list of cells; the
   index is the object's identity); dicts are insertion-ordered association lists with Python's
   semantics (assignment to an existing key keeps its position).  No proofs here.
   None = outside the modelled envelope (an identity that is not base64 text, a bandwidth that is
   not a digit string, a key of `routers` that is both a nickname and a fingerprint). *)
From Coq Require Import List Bool Ascii Arith NArith Lia String.
From TxVerif Require Import Lib.Bytes Spec.C16 Model.MicrodescTypes Gen.MicrodescTable Model.Microdesc Model.IdCodec.
Import ListNotations.
Open Scope list_scope.
Open Scope N_scope.

(* ---- dict ---- *)
Fixpoint aset {V} (k : bytes) (v : V) (m : list (bytes * V)) : list (bytes * V) :=
  match m with
  | [] => [(k, v)]
  | (k', v') :: m' => if beqb k k' then (k', v) :: m' else (k', v') :: aset k v m'
  end.
Definition ahas {V} (k : bytes) (m : list (bytes * V)) : bool :=
  match aget k m with Some _ => true | None => false end.

(* ---- Router ---- *)
Record cell := {
  c_name : bytes; c_idhash : bytes; c_idhex : bytes; c_ip : bytes; c_orport : bytes; c_dirport : bytes;
  c_v6 : list bytes; c_flags : list bytes; c_bw : N; c_fromc : bool }.

Fixpoint set_nth {A} (n : nat) (x : A) (l : list A) : list A :=
  match l, n with
  | [], _ => []
  | _ :: r, O => x :: r
  | y :: r, S n' => y :: set_nth n' x r
  end.

Record tstate := {
  heap : list cell;
  routers : list (bytes * option nat);
  old_routers : list (bytes * option nat);
  all_routers : list nat;
  by_hash : list (bytes * nat);
  by_name : list (bytes * list nat);
  guards : list (bytes * nat);
  auths : list (bytes * nat);
  parser : pstate }.

Definition tinit : tstate :=
  {| heap := []; routers := []; old_routers := []; all_routers := []; by_hash := []; by_name := [];
     guards := []; auths := []; parser := pinit |}.

(* int(str) on a digit string *)
Definition all_digits (d : bytes) : bool :=
  negb (beqb d []) && forallb (fun a => (48 <=? code a) && (code a <=? 57)) d.
Definition int_of (d : bytes) : N := fold_left (fun acc c => acc * 10 + (code c - 48)) d 0.

Definition G_GUARD : bytes := bs "guard".
Definition G_AUTHORITY : bytes := bs "authority".
Definition memb_l (x : bytes) (l : list bytes) : bool := existsb (beqb x) l.

(* TorState._create_router *)
Definition create_router (st : tstate) (k : kw) : option tstate :=
  match hexIdFromHash (k_idhash k) with
  | None => None
  | Some id_hex =>
      (* try: router = self._old_routers[id_hex]  except KeyError: router = Router(self.protocol) *)
      let found := aget id_hex (old_routers st) in
      match found with
      | Some None => None
      | _ =>
          let n := match found with Some (Some n) => n | _ => List.length (heap st) end in
          let bw_ok := match k_bw k with Some d => all_digits d | None => true end in
          if negb bw_ok then None else
          let flags := map (map lower_m) (match k_flags k with Some f => f | None => [] end) in
          let c := {| c_name := k_nick k; c_idhash := k_idhash k; c_idhex := id_hex; c_ip := k_ip k;
                      c_orport := k_orport k; c_dirport := k_dirport k;
                      c_v6 := match k_v6 k with Some l => l | None => [] end;
                      c_flags := flags;
                      c_bw := match k_bw k with Some d => int_of d | None => 0 end;
                      c_fromc := true |} in
          let heap1 := match found with Some (Some _) => set_nth n c (heap st) | _ => heap st ++ [c] end in
          let r1 := aset id_hex (Some n) (routers st) in
          let g1 := if memb_l G_GUARD flags then aset id_hex n (guards st) else guards st in
          let a1 := if memb_l G_AUTHORITY flags then aset (k_nick k) n (auths st) else auths st in
          let r2 := if ahas (k_nick k) r1 then aset (k_nick k) None r1 else aset (k_nick k) (Some n) r1 in
          let bn := match aget (k_nick k) (by_name st) with
                    | Some l => aset (k_nick k) (l ++ [n]) (by_name st)
                    | None => aset (k_nick k) [n] (by_name st)
                    end in
          let r3 := aset id_hex (Some n) r2 in
          Some {| heap := heap1; routers := r3; old_routers := old_routers st;
                  all_routers := if memn n (all_routers st) then all_routers st else all_routers st ++ [n];
                  by_hash := aset id_hex n (by_hash st); by_name := bn; guards := g1; auths := a1;
                  parser := parser st |}
      end
  end.

Fixpoint create_all (st : tstate) (ks : list kw) : option tstate :=
  match ks with
  | [] => Some st
  | k :: r => match create_router st k with Some st1 => create_all st1 r | None => None end
  end.

Definition set_parser (st : tstate) (p : pstate) : tstate :=
  {| heap := heap st; routers := routers st; old_routers := old_routers st; all_routers := all_routers st;
     by_hash := by_hash st; by_name := by_name st; guards := guards st; auths := auths st; parser := p |}.

Definition exn_code (e : option pexn) : N :=
  match e with None => 0 | Some XRuntime => 1 | Some XIndex => 2 | Some XKey => 3 | Some XType => 4 end.

(* feed lines to the parser, creating relays as they are emitted; then done() unless a line raised *)
Definition take_lines (st : tstate) (lines : list bytes) : option (tstate * option pexn) :=
  let '(p1, ks, e) := feed (parser st) lines in
  match create_all st ks with
  | None => None
  | Some st1 =>
      match e with
      | Some _ => Some (set_parser st1 p1, e)
      | None =>
          let '(p2, ks2) := finish p1 in
          match create_all st1 ks2 with
          | None => None
          | Some st2 => Some (set_parser st2 p2, None)
          end
      end
  end.

(* _bootstrap: get_info_incremental('ns/all', feed_line) sees "ns/all=" and the data lines
   (the final "OK" is filtered out by strip_ok_and_call), then done() *)
Definition NSALL : bytes := bs "ns/all=".
Definition boot_doc (st : tstate) (lines : list bytes) : option (tstate * option pexn) :=
  take_lines st (NSALL :: lines).

(* _update_network_status(data): data = the event's lines and the final "OK" joined by LF *)
Definition OKL : bytes := bs "OK".
Definition drop_none (m : list (bytes * option nat)) : list (bytes * option nat) :=
  filter (fun p => match snd p with Some _ => true | None => false end) m.
Definition event_doc (st : tstate) (lines : list bytes) : option (tstate * option pexn) :=
  let st0 := {| heap := heap st; routers := []; old_routers := routers st; all_routers := []; by_hash := [];
                by_name := []; guards := []; auths := []; parser := parser st |} in
  match take_lines st0 (lines ++ [OKL]) with
  | None => None
  | Some (st1, Some e) => Some (st1, Some e)
  | Some (st1, None) =>
      Some ({| heap := heap st1; routers := drop_none (routers st1); old_routers := old_routers st1;
               all_routers := all_routers st1; by_hash := by_hash st1; by_name := by_name st1;
               guards := guards st1; auths := auths st1; parser := parser st1 |}, None)
  end.

(* router_from_id(key) for keys that are present or do not start with '$' *)
Definition lookup (st : tstate) (key : bytes) : lres :=
  match aget (firstn 41 key) (routers st) with
  | Some (Some n) => LFound n
  | Some None => LNoneVal
  | None => if prefixb [DOLLAR] key then LOther else LMissing
  end.

(* ---- the observation ---- *)
Definition cell_obs (n : nat) (c : cell) : robs :=
  {| o_num := n; o_name := c_name c; o_idhash := c_idhash c; o_idhex := c_idhex c; o_ip := c_ip c;
     o_orport := c_orport c; o_dirport := c_dirport c; o_v6 := c_v6 c; o_flags := c_flags c;
     o_bw := c_bw c; o_fromc := c_fromc c |}.

(* objects reachable from an index, in order of first sight: routers_by_hash, routers,
   routers_by_name, guards, authorities, all_routers *)
Fixpoint dedup (seen : list nat) (l : list nat) : list nat :=
  match l with
  | [] => []
  | x :: r => if memn x seen then dedup seen r else x :: dedup (x :: seen) r
  end.
Definition reachable (st : tstate) : list nat :=
  dedup [] (map snd (by_hash st)
            ++ flat_map (fun p => match snd p with Some n => [n] | None => [] end) (routers st)
            ++ flat_map snd (by_name st) ++ map snd (guards st) ++ map snd (auths st) ++ all_routers st).

Definition view_of (st : tstate) (lookup_keys : list bytes) (e : option pexn) : view :=
  {| v_objs := flat_map (fun n => match nth_error (heap st) n with Some c => [cell_obs n c] | None => [] end)
                        (reachable st);
     v_all := all_routers st; v_routers := routers st; v_byname := by_name st; v_byhash := by_hash st;
     v_guards := guards st; v_auths := auths st;
     v_lookups := map (fun k => (k, lookup st k)) lookup_keys;
     v_exn := exn_code e |}.

(* the history: first document through GETINFO ns/all, the others as NEWCONSENSUS events; the
   harness looks up every identity and nickname of the document just delivered (plus extra keys);
   nothing more is delivered after an exception *)
Definition doc_keys (d : doc) : list bytes := map hexid d ++ map e_nick d.

Fixpoint run_events (st : tstate) (ds : list (doc * list bytes)) : option (list view) :=
  match ds with
  | [] => Some []
  | (d, extra) :: r =>
      match event_doc st (render_doc d) with
      | None => None
      | Some (st1, e) =>
          let v := view_of st1 (doc_keys d ++ extra) e in
          match e with
          | Some _ => Some [v]
          | None => option_map (cons v) (run_events st1 r)
          end
      end
  end.

Definition run (ds : list (doc * list bytes)) : option (list view) :=
  match ds with
  | [] => Some []
  | (d, extra) :: r =>
      match boot_doc tinit (render_doc d) with
      | None => None
      | Some (st1, e) =>
          let v := view_of st1 (doc_keys d ++ extra) e in
          match e with
          | Some _ => Some [v]
          | None => option_map (cons v) (run_events st1 r)
          end
      end
  end.

(* the identity codecs on one digest, as the harness calls them *)
Definition codec_run (id : bytes) : cobs :=
  {| co_id := id; co_hex := hexIdFromHash (identity_text id); co_b64 := hashFromHexId (fingerprint id);
     co_b64n := hashFromHexId (tl (fingerprint id)) |}.
